import MorfuseModel.Sched.MachineInvUpd
/-!
# `Inv` through the destruction cascades (`Stop`, `CancelWaitingAll`, `~ScriptThread`, `Unregister`, …)

Each step lemma takes the statements about the functions it calls (at the lower fuel) as hypotheses.
-/
namespace Morfuse.Sched
open State

/-! ### the statements -/

def ICwa (f : State → Nat → State) : Prop :=
  ∀ C W s w, Inv (w :: C) W none s →
    Ok (f s w) (Inv C W none (f s w) ∧ Tbl.hasOwner (f s w).waitFor w = false)

def IDt (f : State → Nat → State) : Prop :=
  ∀ C W s t, Inv C (t :: W) none s → Ok (f s t) (Inv C W none (f s t))

def ISn (f : State → Nat → State) : Prop :=
  ∀ C W s l, Inv C W none s → Ok (f s l) (Inv C W none (f s l))

/-- after `Stop()` the thread is `running` (if it still has a record) -/
def IStp (f : State → Nat → State) : Prop :=
  ∀ C W s t, Inv C (t :: W) none s →
    Ok (f s t) (Inv C W none (f s t) ∧ ∀ th', thFind (f s t).threads t = some th' → th'.ts = .running)

/-- `StoppedWaitFor`: the branch that executes the thread needs it idle, and no cancel in progress -/
def ISwf (f : State → Nat → Nat → Bool → State) : Prop :=
  ∀ C W s t name d, Inv C (t :: W) none s →
    (name ≠ 0 → d = false → C = [] ∧ ∀ th, thFind s.threads t = some th → th.ts = .waiting → th.vm = .idling) →
    Ok (f s t name d) (Inv C W none (f s t name d) ∧ G s (f s t name d))

def IUr (f : State → Nat → Nat → State) : Prop :=
  ∀ C W s src name, Inv C W none s → (C = [] ∨ name = 0 ∨ QSrc src name) →
    Ok (f s src name) (Inv C W none (f s src name) ∧ G s (f s src name))

def IUa (f : State → Nat → State) : Prop :=
  ∀ C W s src, Inv C W none s →
    Ok (f s src) (Inv C W none (f s src) ∧ Tbl.hasOwner (f s src).notify src = false)

/-! ### `Stop` -/

theorem recOK_running {th : Th} (r : RecOK th) : RecOK { th with ts := .running } :=
  ⟨fun _ => rfl, r.f2, fun _ => rfl, r.f5⟩

theorem ts_cases (x : TS) : x = .running ∨ x = .timing ∨ x = .waiting := by cases x <;> simp

theorem stopStep_inv {cw : State → Nat → State} (hq : Q1 cw) (hcw : ICwa cw) {C W : List Nat} {s : State}
    {t : Nat} {th : Th} (h : Inv C (t :: W) none s) (hth : thFind s.threads t = some th) :
    Ok (stopStep cw s t th) (Inv C W none (stopStep cw s t th) ∧
      ∀ th', thFind (stopStep cw s t th).threads t = some th' → th'.ts = .running) := by
  have hrec := h.th t th hth
  unfold stopStep
  by_cases h1 : th.ts = .timing
  · simp only [h1, beq_self_eq_true, if_true]
    apply Ok.pure
    constructor
    · apply h.setTh t (fun th => { th with ts := .running }) th (s.timer.remove t) hth (fun _ => rfl) (recOK_running hrec) (fun _ => rfl)
        (h.tim.stopTiming t th hth h1) (fun x m _ => m)
        (fun x m hx => by
          rcases List.mem_cons.1 m with m | m
          · exact absurd m hx
          · exact m) (Or.inl rfl)
      · intro ho
        rcases h.lnk.linkC t ho with m | ⟨th0, h0, hw⟩
        · exact Or.inl m
        · rw [hth] at h0; cases h0; rw [h1] at hw; cases hw
      · intro hw; cases hw
      · intro hw; cases hw
    · intro th' hf
      have hf' : thFind (s.threads.map (thUpd t fun th => { th with ts := .running })) t = some th' := hf
      rw [thFind_map_upd] at hf'
      simp [hth] at hf'
      rw [← hf']
  · by_cases h2 : th.ts = .waiting
    · have hne : (th.ts == TS.timing) = false := by rw [h2]; rfl
      simp only [hne, h2, beq_self_eq_true, if_true, Bool.false_eq_true, if_false]
      have h1' : Inv (t :: C) W none (s.setTh t fun th => { th with ts := .running }) := by
        have := h.setTh (C' := t :: C) (W' := W) (top' := none) t (fun th => { th with ts := .running }) th s.timer hth
          (fun _ => rfl) (recOK_running hrec) (fun _ => rfl)
          (h.tim.setTh_off t (fun th => { th with ts := .running }) (fun th0 h0 => by rw [hth] at h0; cases h0; rw [h2]; simp) (fun _ => by simp))
          (fun x m _ => List.mem_cons_of_mem _ m)
          (fun x m hx => by
            rcases List.mem_cons.1 m with m | m
            · exact absurd m hx
            · exact m) (Or.inl rfl)
          (fun _ => Or.inl List.mem_cons_self) (fun hw => by cases hw) (fun hw => by cases hw)
        exact this
      refine (hcw C W _ t h1').map ?_
      rintro ⟨hi, _⟩
      refine ⟨hi, ?_⟩
      intro th' hf
      obtain ⟨th1, hf1, q⟩ := (hq [] _ t h1'.n).th t th' hf
      rw [State.setTh_threads, thFind_map_upd] at hf1
      simp [hth] at hf1
      rcases q.ts with e | e | ⟨e, _⟩
      · rw [e, ← hf1]
      · exact e
      · rw [← hf1] at e; cases e
    · have hne1 : (th.ts == TS.timing) = false := by
        rcases ts_cases th.ts with e | e | e <;> simp_all
      have hne2 : (th.ts == TS.waiting) = false := by
        rcases ts_cases th.ts with e | e | e <;> simp_all
      simp only [hne1, hne2, Bool.false_eq_true, if_false]
      apply Ok.pure
      refine ⟨h.dropW (fun th0 h0 => by rw [hth] at h0; cases h0; exact h2), ?_⟩
      intro th' hf
      rw [hth] at hf; cases hf
      rcases ts_cases th.ts with e | e | e
      · exact e
      · exact absurd e h1
      · exact absurd e h2

theorem stop_inv_succ {fuel : Nat} (hq : Q1 (cancelWaitingAll fuel)) (hcw : ICwa (cancelWaitingAll fuel)) :
    IStp (stop (fuel + 1)) := by
  intro C W s t h
  rw [stop_succ]
  cases hf : s.th? t with
  | none =>
    simp only
    apply Ok.pure
    rw [State.th?_eq] at hf
    exact ⟨h.dropW (fun th0 h0 => by rw [hf] at h0; cases h0), fun th' h' => by rw [hf] at h'; cases h'⟩
  | some th =>
    simp only
    rw [State.th?_eq] at hf
    exact stopStep_inv hq hcw h hf

/-! ### loops -/

theorem Ok.foldl {α : Type} (f : State → α → State) (P : State → Prop) (hp : ∀ s a, Pres s (f s a))
    (hf : ∀ s a, P s → Ok (f s a) (P (f s a))) :
    ∀ (l : List α) (s : State), P s → Ok (l.foldl f s) (P (l.foldl f s))
  | [], _, h => Ok.pure h
  | a :: l, s, h => (hf s a h).bind (Pres.foldl f hp l (f s a)) (fun p => Ok.foldl f P hp hf l (f s a) p)

theorem notifyLoop_inv {sn : State → Nat → State} (hp : Pres1 sn) (hsn : ISn sn) {C W : List Nat} {s : State}
    (h : Inv C W none s) (stopped : List Nat) :
    Ok (notifyLoop sn s stopped) (Inv C W none (notifyLoop sn s stopped)) := by
  unfold notifyLoop
  apply Ok.foldl _ (fun s => Inv C W none s) _ _ _ _ h
  · intro s a; split
    · exact hp s a
    · exact Pres.refl s
  · intro s a hs; split
    · exact hsn C W s a hs
    · exact Ok.pure hs

theorem Inv.dropW_owner {C W : List Nat} {top : Option Nat} {s : State} {t : Nat} (h : Inv C (t :: W) top s)
    (ht : Tbl.hasOwner s.waitFor t = true) : Inv C W top s := by
  refine { h with lnk := { h.lnk with linkW := ?_ } }
  intro u th hf hw
  rcases h.lnk.linkW u th hf hw with m | m
  · rcases List.mem_cons.1 m with m | m
    · subst m; exact Or.inr ht
    · exact Or.inl m
  · exact Or.inr m

/-- sources listed for a waiter are alive -/
theorem Inv.sources_alive {C W : List Nat} {top : Option Nat} {s : State} (h : Inv C W top s) (w n : Nat) :
    ∀ l ∈ Tbl.getD s.waitFor (w, n), s.alive l = true := by
  intro l hl
  have := (h.tab.mir.mem_iff l n w).2 hl
  exact (h.tab.aN l n w this).1

/-- waiters listed for a source are alive -/
theorem Inv.waiters_alive {C W : List Nat} {top : Option Nat} {s : State} (h : Inv C W top s) (o n : Nat) :
    ∀ l ∈ Tbl.getD s.notify (o, n), s.alive l = true := by
  intro l hl
  have h1 := (h.tab.aN o n l hl).2
  have h2 := h.n.nMem _ l hl
  rw [State.alive_thread _ (by simpa [State.isThread] using h2)]
  exact h1

theorem hasOwner_removeKey_ne {T : Tbl} (hT : Tbl.WF T) {k : Key} {x : Nat} (hx : x ≠ k.1)
    (h : Tbl.hasOwner T x = true) : Tbl.hasOwner (Tbl.removeKey T k) x = true := by
  rw [(hT.removeKey k).hasOwner_iff]
  rw [hT.hasOwner_iff] at h
  obtain ⟨n, hn⟩ := h
  refine ⟨n, ?_⟩
  rw [Tbl.getD_removeKey]
  have : ¬ (x, n) = k := by intro e; apply hx; rw [← e]
  simp only [this, if_false]; exact hn

theorem hasOwner_removeOwner_ne {T : Tbl} (hT : Tbl.WF T) {o x : Nat} (hx : x ≠ o)
    (h : Tbl.hasOwner T x = true) : Tbl.hasOwner (Tbl.removeOwner T o) x = true := by
  rw [(hT.removeOwner o).hasOwner_iff]
  rw [hT.hasOwner_iff] at h
  obtain ⟨n, hn⟩ := h
  refine ⟨n, ?_⟩
  rw [Tbl.getD_removeOwner]
  simp only [hx, if_false]; exact hn

theorem hasOwner_removeOwner_self {T : Tbl} (hT : Tbl.WF T) (o : Nat) :
    Tbl.hasOwner (Tbl.removeOwner T o) o = false := by
  rw [(hT.removeOwner o).hasOwner_false_iff]
  intro n; rw [Tbl.getD_removeOwner]; simp

/-- an owner that has no entry stays without entry when the table only shrinks -/
theorem hasOwner_false_of_sub {T T' : Tbl} (hT : Tbl.WF T) (hT' : Tbl.WF T') (hs : Tbl.Sub T' T) {o : Nat}
    (h : Tbl.hasOwner T o = false) : Tbl.hasOwner T' o = false := by
  rw [Bool.eq_false_iff]
  intro h'
  rw [hasOwner_of_sub hT hT' hs h'] at h; cases h

/-! ### `CancelWaitingAll` -/

theorem cwaZero_inv {fuel : Nat} (hswf : ISwf (stoppedWaitFor fuel)) (hsn : ISn (stoppedNotify fuel))
    {C W : List Nat} {s : State} {w : Nat} (h : Inv (w :: C) W none s) :
    Ok (cwaZero (stoppedWaitFor fuel) (stoppedNotify fuel) s w)
      (Inv (w :: C) W none (cwaZero (stoppedWaitFor fuel) (stoppedNotify fuel) s w)) := by
  unfold cwaZero
  cases hf : Tbl.find s.waitFor (w, 0) with
  | none => exact Ok.pure h
  | some list =>
    simp only [cancelWaitingSources_eq_purge]
    have hg : Tbl.getD s.waitFor (w, 0) = list := Tbl.find_eq_getD_of_some hf
    have hmir : TblMirror (Tbl.purge s.alive s.notify w 0 list []).1 (Tbl.removeKey s.waitFor (w, 0)) := by
      have := h.tab.mir.symm.purge_removeKey s.alive w 0 [] (by rw [hg]; exact fun l hl => h.sources_alive w 0 l (by rw [hg]; exact hl))
      rw [hg] at this
      exact this.symm
    have h1 : Inv (w :: C) (w :: W) none ({ ({ s with notify := (Tbl.purge s.alive s.notify w 0 list []).1 } : State) with
        waitFor := Tbl.removeKey s.waitFor (w, 0) }) := by
      apply h.setTables _ _ (Tbl.purge_WF _ h.n.wfN _ _ _ _) (h.n.wfW.removeKey _) (Tbl.Sub.purge _ _ _ _ _ _)
        (Tbl.Sub.removeKey _ _) hmir (fun x m => List.mem_cons_of_mem _ m)
      intro x th hx hw ho
      by_cases hxw : x = w
      · left; rw [hxw]; exact List.mem_cons_self
      · right; exact hasOwner_removeKey_ne h.n.wfW (k := (w, 0)) hxw ho
    have hloop : ∀ s2 : State, Inv (w :: C) W none s2 →
        Ok (notifyLoop (stoppedNotify fuel) s2 (Tbl.purge s.alive s.notify w 0 list []).2)
          (Inv (w :: C) W none (notifyLoop (stoppedNotify fuel) s2 (Tbl.purge s.alive s.notify w 0 list []).2)) :=
      fun s2 h2 => notifyLoop_inv (presAll fuel).sn hsn h2 _
    split
    · rename_i hno
      refine (hswf (w :: C) W _ w 0 false h1 (fun hne => absurd rfl hne)).bind
        (notifyLoop_pres (presAll fuel).sn _ _) (fun p => hloop _ p.1)
    · rename_i hno
      have ho : Tbl.hasOwner (Tbl.removeKey s.waitFor (w, 0)) w = true := by simpa using hno
      exact hloop _ (h1.dropW_owner ho)

theorem cwaRest_inv {fuel : Nat} (hswf : ISwf (stoppedWaitFor fuel)) (hsn : ISn (stoppedNotify fuel))
    {C W : List Nat} {s : State} {w : Nat} (h : Inv (w :: C) W none s) :
    Ok (cwaRest (stoppedWaitFor fuel) (stoppedNotify fuel) s w)
      (Inv C W none (cwaRest (stoppedWaitFor fuel) (stoppedNotify fuel) s w) ∧
        Tbl.hasOwner (cwaRest (stoppedWaitFor fuel) (stoppedNotify fuel) s w).waitFor w = false) := by
  unfold cwaRest
  split
  · rename_i hno
    have ho : Tbl.hasOwner s.waitFor w = false := by simpa using hno
    exact Ok.pure ⟨h.dropC ho, ho⟩
  · simp only [cwaSources_frame]
    have hmir : TblMirror (Tbl.multiPurge s.alive s.notify w (Tbl.keysOf s.waitFor w) []).1 (Tbl.removeOwner s.waitFor w) :=
      (h.tab.mir.symm.multiPurge_removeOwner h.n.wfW s.alive w [] (fun n l hl => h.sources_alive w n l hl)).symm
    have h1 : Inv (w :: C) (w :: W) none ({ ({ s with notify := (Tbl.multiPurge s.alive s.notify w (Tbl.keysOf s.waitFor w) []).1 } : State) with
        waitFor := Tbl.removeOwner s.waitFor w }) := by
      apply h.setTables _ _ (Tbl.multiPurge_WF _ _ _ _ _ h.n.wfN) (h.n.wfW.removeOwner _) (Tbl.Sub.multiPurge _ _ _ _ _)
        (Tbl.Sub.removeOwner _ _) hmir (fun x m => List.mem_cons_of_mem _ m)
      intro x th hx hw ho
      by_cases hxw : x = w
      · left; rw [hxw]; exact List.mem_cons_self
      · right; exact hasOwner_removeOwner_ne h.n.wfW hxw ho
    have hown1 : Tbl.hasOwner (Tbl.removeOwner s.waitFor w) w = false := hasOwner_removeOwner_self h.n.wfW w
    refine (hswf (w :: C) W _ w 0 false h1 (fun hne => absurd rfl hne)).bind
      (notifyLoop_pres (presAll fuel).sn _ _) (fun p => ?_)
    refine (notifyLoop_inv (presAll fuel).sn hsn p.1 _).map (fun p3 => ?_)
    -- the cascade after the removal only shrinks the wait-for table
    have q2 := (qAll fuel).swf [] _ w 0 false h1.n (Or.inl rfl)
    have q3 := notifyLoop_q (nAll fuel).sn (qAll fuel).sn [] p.1.n (Tbl.multiPurge s.alive s.notify w (Tbl.keysOf s.waitFor w) []).2
    have hown3 := hasOwner_false_of_sub h1.n.wfW p3.n.wfW (q2.trans q3).subW hown1
    exact ⟨p3.dropC hown3, hown3⟩

theorem cancelWaitingAll_inv_succ {fuel : Nat} (hswf : ISwf (stoppedWaitFor fuel)) (hsn : ISn (stoppedNotify fuel)) :
    ICwa (cancelWaitingAll (fuel + 1)) := by
  intro C W s w h
  rw [cancelWaitingAll_succ]
  exact (cwaZero_inv hswf hsn h).bind (cwaRest_pres (presAll fuel).swf (presAll fuel).sn _ _)
    (fun p => cwaRest_inv hswf hsn p)

/-! ### `~ScriptThread` -/

theorem State.setTh_setTh (s : State) (t : Nat) (g f : Th → Th) :
    (s.setTh t g).setTh t f = s.setTh t (fun th => f (g th)) := by
  unfold State.setTh
  simp only [List.map_map]
  congr 1
  apply List.map_congr_left
  intro e _
  simp only [Function.comp]
  by_cases he : e.1 == t
  · simp [he]
  · simp [he]

/-- the record of `t`, if any, has lost its VM (and its VM is destroyed) -/
def NoVM (s : State) (t : Nat) : Prop := ∀ th', thFind s.threads t = some th' → th'.hasVM = false
def Gone (s : State) (t : Nat) : Prop :=
  ∀ th', thFind s.threads t = some th' → th'.hasVM = false ∧ th'.vm = .destroyed

theorem NoVM.of_q {D : List Nat} {a b : State} {t : Nat} (q : Q D a b) (h : NoVM a t) : NoVM b t := by
  intro th' hf
  obtain ⟨th, h1, qt⟩ := q.th t th' hf
  cases hv : th'.hasVM with
  | false => rfl
  | true => have := qt.hasVM hv; rw [h th h1] at this; cases this

theorem Gone.of_q {D : List Nat} {a b : State} {t : Nat} (q : Q D a b) (h : Gone a t) : Gone b t := by
  intro th' hf
  obtain ⟨th, h1, qt⟩ := q.th t th' hf
  obtain ⟨g1, g2⟩ := h th h1
  constructor
  · cases hv : th'.hasVM with
    | false => rfl
    | true => have := qt.hasVM hv; rw [g1] at this; cases this
  · rcases qt.vm with e | e
    · rw [e]; exact g2
    · exact e

theorem dtStop_inv {cw : State → Nat → State} (hq : Q1 cw) (hcw : ICwa cw) {C W : List Nat} {s : State}
    {t : Nat} {th : Th} (h : Inv C (t :: W) none s) (hth : thFind s.threads t = some th) :
    Ok (stopStep cw (s.setTh t fun th => { th with hasVM := false }) t th)
      (Inv C W none (stopStep cw (s.setTh t fun th => { th with hasVM := false }) t th) ∧
        NoVM (stopStep cw (s.setTh t fun th => { th with hasVM := false }) t th) t) := by
  have hrec := h.th t th hth
  have hC : ∀ x ∈ C, x ≠ t → x ∈ C := fun x m _ => m
  have hW : ∀ x ∈ t :: W, x ≠ t → x ∈ W := fun x m hx => by
    rcases List.mem_cons.1 m with m | m
    · exact absurd m hx
    · exact m
  unfold stopStep
  by_cases h1 : th.ts = .timing
  · simp only [h1, beq_self_eq_true, if_true]
    rw [State.setTh_setTh]
    apply Ok.pure
    constructor
    · apply h.setTh t (fun th => { th with hasVM := false, ts := .running }) th (s.timer.remove t) hth
        (fun _ => rfl) ⟨fun _ => rfl, fun hd => ⟨rfl, (hrec.f2 hd).2⟩, fun _ => rfl, fun _ => rfl⟩ (fun _ => rfl)
        (h.tim.erase_via_remove t th hth h1 _ (fun _ => by simp)) hC hW (Or.inl rfl)
      · intro ho
        rcases h.lnk.linkC t ho with m | ⟨th0, h0, hw⟩
        · exact Or.inl m
        · rw [hth] at h0; cases h0; rw [h1] at hw; cases hw
      · intro hw; cases hw
      · intro hw; cases hw
    · intro th' hf
      have hf' : thFind (s.threads.map (thUpd t fun th => { th with hasVM := false, ts := .running })) t = some th' := hf
      rw [thFind_map_upd] at hf'
      simp [hth] at hf'
      rw [← hf']
  · by_cases h2 : th.ts = .waiting
    · have hne : (th.ts == TS.timing) = false := by rw [h2]; rfl
      simp only [hne, h2, beq_self_eq_true, if_true, Bool.false_eq_true, if_false]
      rw [State.setTh_setTh]
      have h1' : Inv (t :: C) W none (s.setTh t fun th => { th with hasVM := false, ts := .running }) :=
        h.setTh (C' := t :: C) (W' := W) (top' := none) t (fun th => { th with hasVM := false, ts := .running }) th s.timer hth
          (fun _ => rfl) ⟨fun _ => rfl, fun hd => ⟨rfl, (hrec.f2 hd).2⟩, fun _ => rfl, fun _ => rfl⟩ (fun _ => rfl)
          (h.tim.setTh_off t (fun th => { th with hasVM := false, ts := .running })
            (fun th0 h0 => by rw [hth] at h0; cases h0; rw [h2]; simp) (fun _ => by simp))
          (fun x m _ => List.mem_cons_of_mem _ m) hW (Or.inl rfl)
          (fun _ => Or.inl List.mem_cons_self) (fun hw => by cases hw) (fun hw => by cases hw)
      refine (hcw C W _ t h1').map ?_
      rintro ⟨hi, _⟩
      refine ⟨hi, ?_⟩
      apply NoVM.of_q (hq [] _ t h1'.n)
      intro th' hf
      rw [State.setTh_threads, thFind_map_upd] at hf
      simp [hth] at hf
      rw [← hf]
    · have hne1 : (th.ts == TS.timing) = false := by
        rcases ts_cases th.ts with e | e | e <;> simp_all
      have hne2 : (th.ts == TS.waiting) = false := by
        rcases ts_cases th.ts with e | e | e <;> simp_all
      have hrun : th.ts = .running := by
        rcases ts_cases th.ts with e | e | e
        · exact e
        · exact absurd e h1
        · exact absurd e h2
      simp only [hne1, hne2, Bool.false_eq_true, if_false]
      apply Ok.pure
      constructor
      · apply h.setTh t (fun th => { th with hasVM := false }) th s.timer hth
          (fun _ => rfl) ⟨fun _ => hrun, fun hd => ⟨rfl, (hrec.f2 hd).2⟩, hrec.f3, fun _ => rfl⟩ (fun _ => rfl)
          (h.tim.setTh_same t (fun th => { th with hasVM := false }) (fun _ => rfl)) hC hW (Or.inl rfl)
        · intro ho
          rcases h.lnk.linkC t ho with m | ⟨th0, h0, hw⟩
          · exact Or.inl m
          · rw [hth] at h0; cases h0; rw [hrun] at hw; cases hw
        · intro hw; rw [hrun] at hw; cases hw
        · intro hw; rw [hrun] at hw; cases hw
      · intro th' hf
        rw [State.setTh_threads, thFind_map_upd] at hf
        simp [hth] at hf
        rw [← hf]

/-- a record update that keeps thread state, `hasVM`, `dead`, and either keeps the VM state or destroys it -/
theorem Inv.setTh_plain {C W : List Nat} {top : Option Nat} {s : State} (h : Inv C W top s)
    (t : Nat) (f : Th → Th) (hpar : ∀ x, (f x).parent = x.parent) (hts : ∀ x, (f x).ts = x.ts)
    (hdead : ∀ x, (f x).dead = x.dead) (hok : ∀ th, thFind s.threads t = some th → RecOK (f th))
    (hvm : ∀ x, (f x).vm = x.vm ∨ (f x).vm = .destroyed) : Inv C W top (s.setTh t f) := by
  cases hth : thFind s.threads t with
  | none => exact h.setTh_none t f hth hpar
  | some th =>
    have hrec := hok th hth
    have := h.setTh (C' := C) (W' := W) (top' := top) t f th s.timer hth hpar hrec hdead
      (h.tim.setTh_same t f hts) (fun x m _ => m) (fun x m _ => m) (Or.inr (Or.inl rfl))
      (fun ho => by
        rcases h.lnk.linkC t ho with m | ⟨th0, h0, hw⟩
        · exact Or.inl m
        · rw [hth] at h0; cases h0; right; rw [hts]; exact hw)
      (fun hw => by rw [hts] at hw; exact h.lnk.linkW t th hth hw)
      (fun hw hv => by
        rw [hts] at hw
        rcases hvm th with e | e
        · rw [e] at hv; exact h.lnk.f4 t th hth hw hv
        · have := hrec.f1 (hrec.f5 e)
          rw [hts, hw] at this; cases this)
    exact this

theorem removeFromInst_inv {C W : List Nat} {top : Option Nat} {s : State} (h : Inv C W top s) (t i : Nat) :
    Inv C W top (removeFromInst s t i) := by
  rw [removeFromInst_frame]; exact h.congr rfl rfl rfl rfl rfl rfl rfl rfl rfl

theorem notifyDelete_inv {C W : List Nat} {s : State} {t : Nat} (h : Inv C W none s) (hv : NoVM s t) :
    Inv C W none (notifyDelete s t) ∧ Gone (notifyDelete s t) t := by
  unfold notifyDelete
  cases hf : s.th? t with
  | none =>
    rw [State.th?_eq] at hf
    exact ⟨h, fun th' h' => by rw [hf] at h'; cases h'⟩
  | some th =>
    rw [State.th?_eq] at hf
    have hrec := h.th t th hf
    have hvm := hv th hf
    simp only
    have h1 : Inv C W none (s.setTh t fun th => { th with vm := .destroyed }) :=
      h.setTh_plain t _ (fun _ => rfl) (fun _ => rfl) (fun _ => rfl)
        (fun th0 h0 => by
          rw [hf] at h0; cases h0
          exact ⟨hrec.f1, fun hd => ⟨hvm, rfl⟩, fun hr => (by cases hr), fun _ => hvm⟩)
        (fun _ => Or.inr rfl)
    have g1 : Gone (s.setTh t fun th => { th with vm := .destroyed }) t := by
      intro th' h'
      rw [State.setTh_threads, thFind_map_upd] at h'
      simp [hf] at h'
      rw [← h']; exact ⟨hvm, rfl⟩
    have h2 : Inv C W none (if th.attached = true then removeFromInst (s.setTh t fun th => { th with vm := .destroyed }) t th.inst
        else s.setTh t fun th => { th with vm := .destroyed }) ∧
        Gone (if th.attached = true then removeFromInst (s.setTh t fun th => { th with vm := .destroyed }) t th.inst
        else s.setTh t fun th => { th with vm := .destroyed }) t := by
      split
      · refine ⟨removeFromInst_inv h1 _ _, ?_⟩
        rw [removeFromInst_frame]; exact g1
      · exact ⟨h1, g1⟩
    split
    · refine ⟨h2.1.setTh_plain t _ (fun _ => rfl) (fun _ => rfl) (fun _ => rfl) ?_ (fun _ => Or.inl rfl), ?_⟩
      · intro th0 h0
        have r := h2.1.th t th0 h0
        exact ⟨r.f1, r.f2, r.f3, r.f5⟩
      · intro th' h'
        rw [State.setTh_threads, thFind_map_upd] at h'
        simp only [if_true] at h'
        cases h0 : thFind (if th.attached = true then removeFromInst (s.setTh t fun th => { th with vm := .destroyed }) t th.inst
          else s.setTh t fun th => { th with vm := .destroyed }).threads t with
        | none => rw [h0] at h'; simp at h'
        | some th0 =>
          rw [h0] at h'; simp at h'
          rw [← h']; exact h2.2 th0 h0
    · exact h2

theorem finishDelete_inv {C W : List Nat} {s : State} {t : Nat} (h : Inv C W none s) (hg : Gone s t)
    (h1 : Tbl.hasOwner s.notify t = false) (h2 : Tbl.hasOwner s.waitFor t = false) :
    Inv C W none (finishDelete s t) := by
  unfold finishDelete
  cases hf : s.th? t with
  | none => exact h
  | some th =>
    rw [State.th?_eq] at hf
    obtain ⟨g1, g2⟩ := hg th hf
    simp only
    split
    · exact h.die t th hf g1 g2 h1 h2
    · exact h.remove t th hf g1 (notMentioned h.tab.mir h.n.wfN h.n.wfW h1 h2)

theorem cancelEvents_inv {C W : List Nat} {top : Option Nat} {s : State} (h : Inv C W top s) (t : Nat) :
    Inv C W top (cancelEvents s t) := h.congr rfl rfl rfl rfl rfl rfl rfl rfl rfl

theorem deleteThread_inv_succ {fuel : Nat} (hcw : ICwa (cancelWaitingAll fuel)) (hur : IUr (unregister fuel))
    (hua : IUa (unregisterAll fuel)) : IDt (deleteThread (fuel + 1)) := by
  intro C W s t h
  rw [deleteThread_succ]
  cases hf : s.th? t with
  | none =>
    rw [State.th?_eq] at hf
    exact Ok.pure (h.dropW (fun th0 h0 => by rw [hf] at h0; cases h0))
  | some th =>
    rw [State.th?_eq] at hf
    have ht : 100 ≤ t := (h.n.range t th hf).1
    simp only
    split
    · rename_i hv
      have hv' : th.hasVM = false := by simpa using hv
      refine Ok.pure (h.dropW (fun th0 h0 => ?_))
      rw [hf] at h0; cases h0
      rw [(h.th t th hf).f1 hv']; simp
    · have P := presAll fuel
      have Qq := qAll fuel
      -- the state after each step
      refine (dtStop_inv Qq.cwa hcw h hf).bind ?_ (fun p1 => ?_)
      · exact ((((((notifyDelete_pres _ _).trans (cancelEvents_pres _ _)).trans (P.ur _ _ _)).trans
          (P.ur _ _ _)).trans (P.ua _ _)).trans (P.cwa _ _)).trans (finishDelete_pres _ _)
      obtain ⟨i2, g2⟩ := notifyDelete_inv p1.1 p1.2
      have i3 := cancelEvents_inv i2 t
      have g3 : Gone (cancelEvents (notifyDelete (stopStep (cancelWaitingAll fuel)
          (s.setTh t fun th => { th with hasVM := false }) t th) t) t) t := g2
      refine (hur C W _ t nameDelete i3 (Or.inr (Or.inr ⟨ht, Or.inl rfl⟩))).bind ?_ (fun p4 => ?_)
      · exact (((P.ur _ _ _).trans (P.ua _ _)).trans (P.cwa _ _)).trans (finishDelete_pres _ _)
      have g4 := g3.of_q (Qq.ur [] _ t nameDelete i3.n (Or.inr ⟨ht, Or.inl rfl⟩))
      refine (hur C W _ t nameRemove p4.1 (Or.inr (Or.inr ⟨ht, Or.inr rfl⟩))).bind ?_ (fun p5 => ?_)
      · exact ((P.ua _ _).trans (P.cwa _ _)).trans (finishDelete_pres _ _)
      have g5 := g4.of_q (Qq.ur [] _ t nameRemove p4.1.n (Or.inr ⟨ht, Or.inr rfl⟩))
      refine (hua C W _ t p5.1).bind ?_ (fun p6 => ?_)
      · exact (P.cwa _ _).trans (finishDelete_pres _ _)
      have g6 := g5.of_q (Qq.ua [] _ t p5.1.n)
      refine (hcw C W _ t (p6.1.consC t)).bind (finishDelete_pres _ _) (fun p7 => ?_)
      have q7 := Qq.cwa [] _ t p6.1.n
      have g7 := g6.of_q q7
      have hown : Tbl.hasOwner (cancelWaitingAll fuel (unregisterAll fuel (unregister fuel (unregister fuel
          (cancelEvents (notifyDelete (stopStep (cancelWaitingAll fuel)
            (s.setTh t (fun th => { th with hasVM := false })) t th) t) t)
          t nameDelete) t nameRemove) t) t).notify t = false :=
        hasOwner_false_of_sub p6.1.n.wfN p7.1.n.wfN q7.subN p6.2
      exact Ok.pure (finishDelete_inv p7.1 g7 hown p7.2)

theorem stoppedNotify_inv_succ {fuel : Nat} (hdt : IDt (deleteThread fuel)) : ISn (stoppedNotify (fuel + 1)) := by
  intro C W s l h
  rw [stoppedNotify_succ]
  split
  · split
    · exact hdt C W s l (h.consW l)
    · exact Ok.pure h
  · exact Ok.pure h

end Morfuse.Sched
