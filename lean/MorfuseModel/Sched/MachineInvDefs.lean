import MorfuseModel.Sched.MachineInvQuiet
/-!
# The machine-level invariant `Inv` and the history relation `G`

`Inv C W top s` (for programs of class `ProgOK`):

* `n`   — the structural invariant `NInv`;
* `th`  — per thread record: no VM ⇒ state `running`; dead ⇒ no VM and VM state `destroyed`;
          VM `running` ⇒ thread state `running`; VM `destroyed` ⇒ no VM;
* `tim` — **timer consistency**: every timer element is a thread in state `timing`, no thread is in the
          timer twice, every `timing` thread is in the timer;
* `tab` — **mirror**: the notify and wait-for tables are mirror images with multiplicity, and every
          listener mentioned in them is alive (a weak reference that reads non-null);
* `lnk` — **no lost wake-up**: a listener owns a wait-for entry only if it is a `waiting` thread, and a
          `waiting` thread owns at least one; a `waiting` thread whose VM is not idle waits on channel 0
          only.

The three exemption parameters describe the places *inside* a cascade where the last group is
transiently false: `C` = threads whose `CancelWaitingAll` is in progress (already `running`, entries not
yet removed), `W` = threads woken by a notify whose `StoppedWaitFor` has not been called yet (`waiting`,
entry already removed), `top` = the thread that executed `waittill` and has not yet left `ScriptVM::Execute`.
At the host level all three are empty.
-/
namespace Morfuse.Sched
open State

/-- per-record coherence -/
structure RecOK (th : Th) : Prop where
  f1 : th.hasVM = false → th.ts = .running
  f2 : th.dead = true → th.hasVM = false ∧ th.vm = .destroyed
  f3 : th.vm = .running → th.ts = .running
  f5 : th.vm = .destroyed → th.hasVM = false

def ThInv (ths : List (Nat × Th)) : Prop := ∀ t th, thFind ths t = some th → RecOK th

structure TimInv (tm : Timer) (ths : List (Nat × Th)) : Prop where
  t1 : ∀ e ∈ tm.elems, ∃ th, thFind ths e.1 = some th ∧ th.ts = .timing
  t2 : (tm.elems.map (·.1)).Nodup
  t3 : ∀ t th, thFind ths t = some th → th.ts = .timing → t ∈ tm.elems.map (·.1)

structure TabInv (s : State) : Prop where
  mir : TblMirror s.notify s.waitFor
  aN : ∀ o n x, x ∈ Tbl.getD s.notify (o, n) → s.alive o = true ∧ aliveTh s.threads x = true

structure LinkInv (C W : List Nat) (top : Option Nat) (s : State) : Prop where
  linkC : ∀ t, Tbl.hasOwner s.waitFor t = true →
    t ∈ C ∨ ∃ th, thFind s.threads t = some th ∧ th.ts = .waiting
  linkW : ∀ t th, thFind s.threads t = some th → th.ts = .waiting →
    t ∈ W ∨ Tbl.hasOwner s.waitFor t = true
  f4 : ∀ t th, thFind s.threads t = some th → th.ts = .waiting → th.vm ≠ .idling →
    top = some t ∨ ∀ n, Tbl.getD s.waitFor (t, n) ≠ [] → n = 0

structure Inv (C W : List Nat) (top : Option Nat) (s : State) : Prop where
  n : NInv s
  th : ThInv s.threads
  tim : TimInv s.timer s.threads
  tab : TabInv s
  lnk : LinkInv C W top s

/-- the function ran out of fuel, or `P` -/
def Ok (s' : State) (P : Prop) : Prop := s'.outOfFuel = true ∨ P

theorem Ok.bind {a b : State} {P R : Prop} (h : Ok a P) (hp : Pres a b) (k : P → Ok b R) : Ok b R :=
  h.elim (fun o => Or.inl (hp.oof o)) k

theorem Ok.map {a : State} {P R : Prop} (h : Ok a P) (k : P → R) : Ok a R :=
  h.elim Or.inl (fun p => Or.inr (k p))

theorem Ok.pure {a : State} {P : Prop} (h : P) : Ok a P := Or.inr h

theorem Ok.fuel (s : State) (P : Prop) : Ok { s with outOfFuel := true } P := Or.inl rfl

/-! ### history relation: what any function may have done to the threads that existed before -/

structure G (s s' : State) : Prop where
  tid : s.nextTid ≤ s'.nextTid
  cur : s'.cur = s.cur ∨ s'.cur = none
  depth : s'.depth = s.depth
  mono : ∀ u th', u < s.nextTid → thFind s'.threads u = some th' →
    ∃ th, thFind s.threads u = some th ∧ (th.dead = true → th'.dead = true)
  lost : ∀ u th, thFind s.threads u = some th → th.hasVM = true →
    thFind s'.threads u = none ∨ ∃ th', thFind s'.threads u = some th' ∧ (th'.hasVM = true ∨ th'.dead = true)
  idle : ∀ u th, thFind s.threads u = some th → (th.vm = .idling ∨ th.vm = .destroyed) →
    thFind s'.threads u = none ∨
      ∃ th', thFind s'.threads u = some th' ∧ (th'.vm = .idling ∨ th'.vm = .destroyed)

theorem G.refl (s : State) : G s s where
  tid := Nat.le_refl _
  cur := Or.inl rfl
  depth := rfl
  mono := fun u th' _ h => ⟨th', h, id⟩
  lost := fun u th h hv => Or.inr ⟨th, h, Or.inl hv⟩
  idle := fun u th h hv => Or.inr ⟨th, h, hv⟩

theorem G.trans {a b c : State} (ha : NInv a) (h1 : G a b) (h2 : G b c) : G a c where
  tid := Nat.le_trans h1.tid h2.tid
  cur := by
    rcases h2.cur with e | e
    · rw [e]; exact h1.cur
    · exact Or.inr e
  depth := h2.depth.trans h1.depth
  mono := fun u th'' hu h => by
    obtain ⟨th', hb, m2⟩ := h2.mono u th'' (Nat.lt_of_lt_of_le hu h1.tid) h
    obtain ⟨th, hh, m1⟩ := h1.mono u th' hu hb
    exact ⟨th, hh, fun d => m2 (m1 d)⟩
  lost := fun u th h hv => by
    have hu : u < a.nextTid := (ha.range u th h).2
    rcases h1.lost u th h hv with hb | ⟨th', hb, hc⟩
    · left
      cases hcn : thFind c.threads u with
      | none => rfl
      | some th'' =>
        obtain ⟨th', hb', _⟩ := h2.mono u th'' (Nat.lt_of_lt_of_le hu h1.tid) hcn
        rw [hb] at hb'; cases hb'
    · cases hcn : thFind c.threads u with
      | none => left; rfl
      | some th'' =>
        right
        refine ⟨th'', rfl, ?_⟩
        rcases hc with hc | hc
        · rcases h2.lost u th' hb hc with h3 | ⟨th3, h3, h4⟩
          · rw [h3] at hcn; cases hcn
          · rw [hcn] at h3; cases h3; exact h4
        · obtain ⟨th2, hb', m2⟩ := h2.mono u th'' (Nat.lt_of_lt_of_le hu h1.tid) hcn
          rw [hb] at hb'; cases hb'
          exact Or.inr (m2 hc)
  idle := fun u th h hv => by
    have hu : u < a.nextTid := (ha.range u th h).2
    rcases h1.idle u th h hv with hb | ⟨th', hb, hc⟩
    · left
      cases hcn : thFind c.threads u with
      | none => rfl
      | some th'' =>
        obtain ⟨th', hb', _⟩ := h2.mono u th'' (Nat.lt_of_lt_of_le hu h1.tid) hcn
        rw [hb] at hb'; cases hb'
    · exact h2.idle u th' hb hc

/-- a quiet step is a `G` step -/
theorem Q.toG {s s' : State} (h : Q [] s s') : G s s' where
  tid := Nat.le_of_eq h.tid.symm
  cur := Or.inl h.cur
  depth := h.depth
  mono := fun u th' _ hu => by
    obtain ⟨th, h1, q⟩ := h.th u th' hu
    exact ⟨th, h1, q.dead⟩
  lost := fun u th hu hv => by
    rcases h.lost u th hu hv with h1 | ⟨th', h1, h2⟩
    · exact Or.inl h1
    · refine Or.inr ⟨th', h1, ?_⟩
      rcases h2 with h2 | h2 | h2
      · exact Or.inl h2
      · exact Or.inr h2
      · cases h2
  idle := fun u th hu hv => by
    cases hf : thFind s'.threads u with
    | none => exact Or.inl rfl
    | some th' =>
      right
      obtain ⟨th0, h1, q⟩ := h.th u th' hf
      rw [hu] at h1; cases h1
      refine ⟨th', rfl, ?_⟩
      rcases q.vm with e | e
      · rw [e]; exact hv
      · exact Or.inr e

/-- a step that keeps threads, `nextTid`, `cur`, `depth` -/
theorem G.of_eq {s s' : State} (e1 : s'.threads = s.threads) (e2 : s'.nextTid = s.nextTid)
    (e3 : s'.cur = s.cur) (e4 : s'.depth = s.depth) : G s s' where
  tid := Nat.le_of_eq e2.symm
  cur := Or.inl e3
  depth := e4
  mono := fun u th' _ h => ⟨th', by rw [← e1]; exact h, id⟩
  lost := fun u th h hv => Or.inr ⟨th, by rw [e1]; exact h, Or.inl hv⟩
  idle := fun u th h hv => Or.inr ⟨th, by rw [e1]; exact h, hv⟩

/-- `G` without the clause about the current thread -/
structure G0 (s s' : State) : Prop where
  tid : s.nextTid ≤ s'.nextTid
  depth : s'.depth = s.depth
  mono : ∀ u th', u < s.nextTid → thFind s'.threads u = some th' →
    ∃ th, thFind s.threads u = some th ∧ (th.dead = true → th'.dead = true)
  lost : ∀ u th, thFind s.threads u = some th → th.hasVM = true →
    thFind s'.threads u = none ∨ ∃ th', thFind s'.threads u = some th' ∧ (th'.hasVM = true ∨ th'.dead = true)
  idle : ∀ u th, thFind s.threads u = some th → (th.vm = .idling ∨ th.vm = .destroyed) →
    thFind s'.threads u = none ∨
      ∃ th', thFind s'.threads u = some th' ∧ (th'.vm = .idling ∨ th'.vm = .destroyed)

theorem G.g0 {s s' : State} (g : G s s') : G0 s s' := ⟨g.tid, g.depth, g.mono, g.lost, g.idle⟩

theorem G0.withCur {s s' : State} (g : G0 s s') (hc : s'.cur = s.cur ∨ s'.cur = none) : G s s' :=
  ⟨g.tid, hc, g.depth, g.mono, g.lost, g.idle⟩

/-- `G0` only reads threads, `nextTid`, `depth` -/
theorem G0.congr {a b a' b' : State} (g : G0 a b)
    (ea1 : a'.threads = a.threads) (ea2 : a'.nextTid = a.nextTid) (ea3 : a'.depth = a.depth)
    (eb1 : b'.threads = b.threads) (eb2 : b'.nextTid = b.nextTid) (eb3 : b'.depth = b.depth) : G0 a' b' := by
  refine ⟨by rw [ea2, eb2]; exact g.tid, by rw [ea3, eb3]; exact g.depth, ?_, ?_, ?_⟩
  · rw [ea1, ea2, eb1]; exact g.mono
  · rw [ea1, eb1]; exact g.lost
  · rw [ea1, eb1]; exact g.idle

/-- the same with an explicit depth equation -/
theorem G0.congr' {a b a' b' : State} (g : G0 a b)
    (ea1 : a'.threads = a.threads) (ea2 : a'.nextTid = a.nextTid)
    (eb1 : b'.threads = b.threads) (eb2 : b'.nextTid = b.nextTid) (hd : b'.depth = a'.depth) : G0 a' b' := by
  refine ⟨by rw [ea2, eb2]; exact g.tid, hd, ?_, ?_, ?_⟩
  · rw [ea1, ea2, eb1]; exact g.mono
  · rw [ea1, eb1]; exact g.lost
  · rw [ea1, eb1]; exact g.idle

theorem G0.trans {a b c : State} (ha : NInv a) (h1 : G0 a b) (h2 : G0 b c) : G0 a c := by
  have g1 : G a { b with cur := a.cur } :=
    (h1.congr (a' := a) (b' := { b with cur := a.cur }) rfl rfl rfl rfl rfl rfl).withCur (Or.inl rfl)
  have g2 : G { b with cur := a.cur } { c with cur := a.cur } :=
    (h2.congr (a' := { b with cur := a.cur }) (b' := { c with cur := a.cur }) rfl rfl rfl rfl rfl rfl).withCur (Or.inl rfl)
  exact (G.trans ha g1 g2).g0.congr rfl rfl rfl rfl rfl rfl

/-! ### weakening and discharging the exemptions -/

theorem LinkInv.weaken {C W C' W' : List Nat} {top top' : Option Nat} {s : State} (h : LinkInv C W top s)
    (hC : ∀ x ∈ C, x ∈ C') (hW : ∀ x ∈ W, x ∈ W') (ht : top = none ∨ top = top') : LinkInv C' W' top' s where
  linkC := fun t ho => (h.linkC t ho).elim (fun m => Or.inl (hC t m)) Or.inr
  linkW := fun t th hf hw => (h.linkW t th hf hw).elim (fun m => Or.inl (hW t m)) Or.inr
  f4 := fun t th hf hw hv => by
    rcases h.f4 t th hf hw hv with e | e
    · rcases ht with ht | ht
      · rw [ht] at e; cases e
      · left; rw [← ht]; exact e
    · exact Or.inr e

theorem Inv.weaken {C W C' W' : List Nat} {top top' : Option Nat} {s : State} (h : Inv C W top s)
    (hC : ∀ x ∈ C, x ∈ C') (hW : ∀ x ∈ W, x ∈ W') (ht : top = none ∨ top = top') : Inv C' W' top' s :=
  { h with lnk := h.lnk.weaken hC hW ht }

theorem Inv.consW {C W : List Nat} {top : Option Nat} {s : State} (h : Inv C W top s) (t : Nat) :
    Inv C (t :: W) top s :=
  h.weaken (fun _ m => m) (fun _ m => List.mem_cons_of_mem _ m) (Or.inr rfl)

theorem Inv.consC {C W : List Nat} {top : Option Nat} {s : State} (h : Inv C W top s) (t : Nat) :
    Inv (t :: C) W top s :=
  h.weaken (fun _ m => List.mem_cons_of_mem _ m) (fun _ m => m) (Or.inr rfl)

/-- `t` is not `waiting` (or has no record): its wake-up exemption can be dropped -/
theorem Inv.dropW {C W : List Nat} {top : Option Nat} {s : State} {t : Nat} (h : Inv C (t :: W) top s)
    (ht : ∀ th, thFind s.threads t = some th → th.ts ≠ .waiting) : Inv C W top s := by
  refine { h with lnk := { h.lnk with linkW := ?_ } }
  intro u th hf hw
  rcases h.lnk.linkW u th hf hw with m | m
  · rcases List.mem_cons.1 m with m | m
    · subst m; exact absurd hw (ht th hf)
    · exact Or.inl m
  · exact Or.inr m

/-- `t` owns no wait-for entry: its cancel exemption can be dropped -/
theorem Inv.dropC {C W : List Nat} {top : Option Nat} {s : State} {t : Nat} (h : Inv (t :: C) W top s)
    (ht : Tbl.hasOwner s.waitFor t = false) : Inv C W top s := by
  refine { h with lnk := { h.lnk with linkC := ?_ } }
  intro u ho
  rcases h.lnk.linkC u ho with m | m
  · rcases List.mem_cons.1 m with m | m
    · subst m; rw [ht] at ho; cases ho
    · exact Or.inl m
  · exact Or.inr m

end Morfuse.Sched
