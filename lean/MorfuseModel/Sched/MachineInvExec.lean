import MorfuseModel.Sched.MachineInvExecPrim
/-!
# `Inv` through the executing half of the machine: instructions, `Process`, `ScriptVM::Execute`,
`ExecuteRunning`, `ScriptExecuteInternal`
-/
namespace Morfuse.Sched
open State

/-! ### statements -/

def IEr (f : State → State) : Prop :=
  ∀ W s, Inv [] W none s → Ok (f s) (Inv [] W none (f s) ∧ G s (f s))

/-- the timer loop also leaves no current thread -/
def IDr (f : State → State) : Prop :=
  ∀ W s, Inv [] W none s → Ok (f s) (Inv [] W none (f s) ∧ G0 s (f s) ∧ (f s).cur = none)

def IEv (f : State → Nat → State) : Prop :=
  ∀ W s t th, Inv [] W none s → thFind s.threads t = some th → th.hasVM = true → th.ts = .running →
    (s.cur = some t ∨ s.cur = none) → Ok (f s t) (Inv [] W none (f s t) ∧ G s (f s t))

def IPr (f : State → Nat → State) : Prop :=
  ∀ W s t, Inv [] W (some t) s → (s.cur = some t ∨ s.cur = none) →
    (∀ th, thFind s.threads t = some th → th.vm = .running → th.hasVM = true) →
    Ok (f s t) (Inv [] W (some t) (f s t) ∧ G s (f s t) ∧
      ∀ th', thFind (f s t).threads t = some th' → th'.vm ≠ .running)

def IEx (f : State → Nat → Th → Instr → State) : Prop :=
  ∀ W s t th0 th ins, Inv [] W none s → thFind s.threads t = some th0 → th0.vm = .running →
    th0.hasVM = true → (th.parent = 0 ∨ 100 ≤ th.parent) → Instr.ok ins → (s.cur = some t ∨ s.cur = none) →
    Ok (f s t th ins) (Inv [] W (some t) (f s t th ins) ∧ G s (f s t th ins))

/-! ### suspending / timing a thread -/

/-- `Suspend()` after the record update `f1` -/
def suspendAfter (f1 : Th → Th) (th : Th) : Th :=
  if (f1 th).vm == .running then { f1 th with vm := .suspended } else f1 th

theorem vmSuspend_setTh (X : State) (p : Nat) (f1 : Th → Th) :
    vmSuspend (X.setTh p f1) p = X.setTh p (suspendAfter f1) := by
  unfold vmSuspend
  rw [State.setTh_setTh]
  rfl

theorem suspendAfter_ts (f1 : Th → Th) (th : Th) : (suspendAfter f1 th).ts = (f1 th).ts := by
  unfold suspendAfter; split <;> rfl
theorem suspendAfter_hasVM (f1 : Th → Th) (th : Th) : (suspendAfter f1 th).hasVM = (f1 th).hasVM := by
  unfold suspendAfter; split <;> rfl
theorem suspendAfter_dead (f1 : Th → Th) (th : Th) : (suspendAfter f1 th).dead = (f1 th).dead := by
  unfold suspendAfter; split <;> rfl
theorem suspendAfter_parent (f1 : Th → Th) (th : Th) : (suspendAfter f1 th).parent = (f1 th).parent := by
  unfold suspendAfter; split <;> rfl
theorem suspendAfter_vm_ne (f1 : Th → Th) (th : Th) : (suspendAfter f1 th).vm ≠ .running := by
  unfold suspendAfter; split
  · simp
  · rename_i h; simpa using h
theorem suspendAfter_vm (f1 : Th → Th) (th : Th) :
    (suspendAfter f1 th).vm = (f1 th).vm ∨ ((f1 th).vm = .running ∧ (suspendAfter f1 th).vm = .suspended) := by
  unfold suspendAfter; split
  · rename_i h; right; exact ⟨by simpa using h, rfl⟩
  · left; rfl

theorem waitOn_shape (X : State) (p ms : Nat) :
    vmSuspend (addTiming (X.setTh p (fun th => { th with ts := .timing })) p ms) p =
      { (X.setTh p (suspendAfter fun th => { th with ts := .timing })) with
        timer := X.timer.add p (X.scaled + ms) } := by
  have h1 : vmSuspend (addTiming (X.setTh p (fun th => { th with ts := .timing })) p ms) p =
      { (vmSuspend (X.setTh p (fun th => { th with ts := .timing })) p) with
        timer := X.timer.add p (X.scaled + ms) } := rfl
  rw [h1, vmSuspend_setTh]

/-- `Wait(ms)` of a `running` thread that has a VM -/
theorem Inv.goTiming {W : List Nat} {X : State} (h : Inv [] W none X) (p ms : Nat) (th1 : Th)
    (hth : thFind X.threads p = some th1) (hrun : th1.ts = .running) (hvm : th1.hasVM = true) :
    Inv [] W none { (X.setTh p (suspendAfter fun th => { th with ts := .timing })) with
        timer := X.timer.add p (X.scaled + ms) } := by
  have r1 := h.th p th1 hth
  have hd : th1.dead = false := by
    cases hdd : th1.dead with
    | false => rfl
    | true => have := (r1.f2 hdd).1; rw [hvm] at this; cases this
  apply h.setTh p (suspendAfter fun th => { th with ts := .timing }) th1 _ hth
    (fun x => by rw [suspendAfter_parent]) ?_ (fun x => by rw [suspendAfter_dead])
    (h.tim.start' p _ th1 hth (by rw [hrun]; simp) _ (fun x => by rw [suspendAfter_ts]))
    (fun x m _ => m) (fun x m _ => m) (Or.inl rfl)
  · intro ho
    rcases h.lnk.linkC p ho with m | ⟨th0, h0, hw0⟩
    · exact Or.inl m
    · rw [hth] at h0; cases h0; rw [hrun] at hw0; cases hw0
  · intro hw0; rw [suspendAfter_ts] at hw0; cases hw0
  · intro hw0; rw [suspendAfter_ts] at hw0; cases hw0
  · refine ⟨fun hv => ?_, fun hdd => ?_, fun hr => absurd hr (suspendAfter_vm_ne _ _), fun hv => ?_⟩
    · rw [suspendAfter_hasVM] at hv; simp only at hv; rw [hvm] at hv; cases hv
    · rw [suspendAfter_dead] at hdd; simp only at hdd; rw [hd] at hdd; cases hdd
    · rw [suspendAfter_hasVM]; simp only
      rcases suspendAfter_vm (fun th => { th with ts := .timing }) th1 with e | ⟨_, e⟩
      · rw [e] at hv; simp only at hv; exact r1.f5 hv
      · rw [e] at hv; cases hv

theorem G0.goTiming (X : State) (p ms : Nat) :
    G0 X { (X.setTh p (suspendAfter fun th => { th with ts := .timing })) with
        timer := X.timer.add p (X.scaled + ms) } := by
  have g := G0.setTh X p (suspendAfter fun th => { th with ts := .timing })
    (fun x => by rw [suspendAfter_hasVM]) (fun x => by rw [suspendAfter_dead])
    (fun th _ hi => by
      rcases suspendAfter_vm (fun th => { th with ts := .timing }) th with e | ⟨e, _⟩
      · rw [e]; exact hi
      · simp only at e; rcases hi with hi | hi <;> rw [hi] at e <;> cases e)
  exact g.congr rfl rfl rfl rfl rfl rfl

/-- `Suspend()` -/
theorem Inv.suspend {C W : List Nat} {top : Option Nat} {X : State} (h : Inv C W top X) (p : Nat) :
    Inv C W top (vmSuspend X p) := by
  unfold vmSuspend
  cases hth : thFind X.threads p with
  | none => exact h.setTh_none p _ hth (fun x => by split <;> rfl)
  | some th =>
    have r := h.th p th hth
    have := h.setTh (C' := C) (W' := W) (top' := top) p
      (fun th => if th.vm == .running then { th with vm := .suspended } else th) th X.timer hth
      (fun x => by split <;> rfl)
      (by
        split
        · rename_i hv
          have hv' : th.vm = .running := by simpa using hv
          exact ⟨r.f1, fun hd => (by rw [(r.f2 hd).2] at hv'; cases hv'), fun hr => (by cases hr),
            fun hr => (by cases hr)⟩
        · exact r)
      (fun x => by split <;> rfl)
      (h.tim.setTh_same p _ (fun x => by split <;> rfl)) (fun x m _ => m) (fun x m _ => m) (Or.inr (Or.inl rfl))
      (fun ho => by
        rcases h.lnk.linkC p ho with m | ⟨th0, h0, hw0⟩
        · exact Or.inl m
        · rw [hth] at h0; cases h0; right
          split <;> exact hw0)
      (fun hw0 => by
        have : th.ts = .waiting := by
          split at hw0 <;> exact hw0
        exact h.lnk.linkW p th hth this)
      (fun hw0 hv0 => by
        split at hw0
        · rename_i hv
          have hv' : th.vm = .running := by simpa using hv
          have := r.f3 hv'
          simp only at hw0
          rw [this] at hw0; cases hw0
        · rename_i hv
          simp only [hv, Bool.false_eq_true, if_false] at hv0
          exact h.lnk.f4 p th hth hw0 hv0)
    exact this

theorem G0.suspend (X : State) (p : Nat) : G0 X (vmSuspend X p) := by
  unfold vmSuspend
  apply G0.setTh X p _ (fun x => by split <;> rfl) (fun x => by split <;> rfl)
  intro th _ hi
  split
  · rename_i hv
    have hv' : th.vm = .running := by simpa using hv
    rcases hi with hi | hi <;> rw [hi] at hv' <;> cases hv'
  · exact hi

/-! ### `Register(name, CurrentThread())` by the executing thread -/

theorem regWait_inv {fuel : Nat} {W : List Nat} {s : State} {t : Nat} (top' : Option Nat) (o n : Nat)
    (h : Inv [] W (some t) s)
    (hrun : Tbl.hasOwner s.waitFor t = false →
      ∃ th0, thFind s.threads t = some th0 ∧ th0.vm = .running ∧ th0.hasVM = true)
    (ho : s.alive o = true) (hon : o < 100 ∨ NameOK n)
    (htop : top' = some t ∨ (n = 0 ∧ Tbl.hasOwner s.waitFor t = false)) :
    Ok (regWait (stop fuel) s o n t)
      (Inv [] W top' (regWait (stop fuel) s o n t) ∧ G0 s (regWait (stop fuel) s o n t) ∧
        Tbl.hasOwner (regWait (stop fuel) s o n t).waitFor t = true ∧
        (∀ l, (regWait (stop fuel) s o n t).alive l = s.alive l) ∧
        (∀ u, u ≠ t → thFind (regWait (stop fuel) s o n t).threads u = thFind s.threads u) ∧
        (regWait (stop fuel) s o n t).cur = s.cur) := by
  unfold regWait
  simp only
  by_cases hown : Tbl.hasOwner s.waitFor t = true
  · -- a further name of `waittill_any`: the thread is already waiting
    simp only [hown, Bool.not_true, Bool.false_eq_true, if_false]
    obtain ⟨th, hth, hw⟩ : ∃ th, thFind s.threads t = some th ∧ th.ts = .waiting := by
      rcases h.lnk.linkC t hown with m | m
      · simp at m
      · exact m
    have hd : th.dead = false := by
      cases hdd : th.dead with
      | false => rfl
      | true =>
        have r := h.th t th hth
        have := r.f1 (r.f2 hdd).1; rw [hw] at this; cases this
    have ht' : top' = some t := by
      rcases htop with e | ⟨_, e⟩
      · exact e
      · rw [hown] at e; cases e
    apply Ok.pure
    refine ⟨?_, G0.of_eq rfl rfl rfl, hasOwner_push_self _ h.n.wfW (t, n) o, fun l => rfl, (by intros; first | trivial | rfl), (by first | trivial | rfl)⟩
    exact (h.consW t).register o n th hth hw hd ho hon (Or.inr (Or.inl ht'.symm)) (Or.inr (Or.inl ht'))
  · have hown' : Tbl.hasOwner s.waitFor t = false := by simpa using hown
    simp only [hown', Bool.not_false, if_true]
    obtain ⟨th0, hth0, hvm0, hhv0⟩ := hrun hown'
    have r0 := h.th t th0 hth0
    have hts0 : th0.ts = .running := r0.f3 hvm0
    have hd0 : th0.dead = false := by
      cases hdd : th0.dead with
      | false => rfl
      | true => have := (r0.f2 hdd).1; rw [hhv0] at this; cases this
    rcases stop_running fuel { s with notify := Tbl.push s.notify (o, n) t } t th0 hth0 hts0 with e | e
    · rw [e, vmSuspend_setTh]
      apply Ok.pure
      -- the record of `t` becomes `waiting` / `suspended`
      have h1 : Inv [] (t :: W) (some t) (s.setTh t (suspendAfter fun th => { th with ts := .waiting })) :=
        h.setTh (C' := []) (W' := t :: W) (top' := some t) t (suspendAfter fun th => { th with ts := .waiting })
          th0 s.timer hth0 (fun x => by rw [suspendAfter_parent])
          ⟨fun hv => (by rw [suspendAfter_hasVM] at hv; simp only at hv; rw [hhv0] at hv; cases hv),
            fun hdd => (by rw [suspendAfter_dead] at hdd; simp only at hdd; rw [hd0] at hdd; cases hdd),
            fun hr => absurd hr (suspendAfter_vm_ne _ _),
            fun hv => (by
              rcases suspendAfter_vm (fun th => { th with ts := .waiting }) th0 with e1 | ⟨_, e1⟩
              · rw [e1] at hv; simp only at hv; rw [hvm0] at hv; cases hv
              · rw [e1] at hv; cases hv)⟩
          (fun x => by rw [suspendAfter_dead])
          (h.tim.setTh_off t _ (fun th1 h1 => by rw [hth0] at h1; cases h1; rw [hts0]; simp)
            (fun x => by rw [suspendAfter_ts]; simp))
          (fun x m _ => m) (fun x m _ => List.mem_cons_of_mem _ m) (Or.inr (Or.inl rfl))
          (fun ho' => by rw [hown'] at ho'; cases ho')
          (fun _ => Or.inl List.mem_cons_self)
          (fun _ _ => Or.inr (fun n' hne => absurd ((h.n.wfW.hasOwner_false_iff t).1 hown' n') hne))
      have hth1 : thFind (s.setTh t (suspendAfter fun th => { th with ts := .waiting })).threads t =
          some (suspendAfter (fun th => { th with ts := .waiting }) th0) := by
        rw [State.setTh_threads, thFind_map_upd]; simp [hth0]
      have hal : ∀ l, (s.setTh t (suspendAfter fun th => { th with ts := .waiting })).alive l = s.alive l :=
        State.alive_congr (fun l => aliveTh_map_upd _ _ _ (fun x => by rw [suspendAfter_dead]) l) rfl
      have hreg := h1.register (top' := top') o n _ hth1 (by rw [suspendAfter_ts]) (by rw [suspendAfter_dead]; exact hd0)
        (by rw [hal]; exact ho) hon
        (by rcases htop with e1 | _
            · exact Or.inr (Or.inl e1.symm)
            · exact Or.inr (Or.inr rfl))
        (by rcases htop with e1 | ⟨e1, _⟩
            · exact Or.inr (Or.inl e1)
            · exact Or.inr (Or.inr ⟨e1, hown'⟩))
      refine ⟨hreg, ?_, hasOwner_push_self _ h.n.wfW (t, n) o, ?_, ?_, rfl⟩
      · have g := G0.setTh s t (suspendAfter fun th => { th with ts := .waiting })
          (fun x => by rw [suspendAfter_hasVM]) (fun x => by rw [suspendAfter_dead])
          (fun th _ hi => by
            rcases suspendAfter_vm (fun th => { th with ts := .waiting }) th with e1 | ⟨e1, _⟩
            · rw [e1]; exact hi
            · simp only at e1; rcases hi with hi | hi <;> rw [hi] at e1 <;> cases e1)
        exact g.congr rfl rfl rfl rfl rfl rfl
      · intro l
        exact hal l
      · intro u hu
        show thFind (s.threads.map (thUpd t _)) u = _
        rw [thFind_map_upd]; simp [hu]
    · rw [e]
      exact Or.inl rfl

end Morfuse.Sched
