import MorfuseModel.Sched.MachineInvExecPrim
/-!
# `Inv` through the executing half of the machine: instructions, `Process`, `ScriptVM::Execute`,
`ExecuteRunning`, `ScriptExecuteInternal`
-/
namespace Morfuse.Sched
open State

/-! ### statements -/

def IEr (f : State → State) : Prop :=
  ∀ W s, Inv [] W none s → Ok (f s) (Inv [] W none (f s) ∧ G s (f s))

/-- the timer loop also leaves no current thread -/
def IDr (f : State → State) : Prop :=
  ∀ W s, Inv [] W none s → Ok (f s) (Inv [] W none (f s) ∧ G0 s (f s) ∧ (f s).cur = none)

def IEv (f : State → Nat → State) : Prop :=
  ∀ W s t th, Inv [] W none s → thFind s.threads t = some th → th.hasVM = true → th.ts = .running →
    (s.cur = some t ∨ s.cur = none) → Ok (f s t) (Inv [] W none (f s t) ∧ G s (f s t))

def IPr (f : State → Nat → State) : Prop :=
  ∀ W s t, Inv [] W (some t) s → (s.cur = some t ∨ s.cur = none) →
    (∀ th, thFind s.threads t = some th → th.vm = .running → th.hasVM = true) →
    Ok (f s t) (Inv [] W (some t) (f s t) ∧ G s (f s t) ∧
      ∀ th', thFind (f s t).threads t = some th' → th'.vm ≠ .running)

def IEx (f : State → Nat → Th → Instr → State) : Prop :=
  ∀ W s t th0 th ins, Inv [] W none s → thFind s.threads t = some th0 → th0.vm = .running →
    th0.hasVM = true → (th.parent = 0 ∨ 100 ≤ th.parent) → Instr.ok ins → (s.cur = some t ∨ s.cur = none) →
    Ok (f s t th ins) (Inv [] W (some t) (f s t th ins) ∧ G s (f s t th ins))

/-! ### suspending / timing a thread -/

/-- `Suspend()` after the record update `f1` -/
def suspendAfter (f1 : Th → Th) (th : Th) : Th :=
  if (f1 th).vm == .running then { f1 th with vm := .suspended } else f1 th

theorem vmSuspend_setTh (X : State) (p : Nat) (f1 : Th → Th) :
    vmSuspend (X.setTh p f1) p = X.setTh p (suspendAfter f1) := by
  unfold vmSuspend
  rw [State.setTh_setTh]
  rfl

theorem suspendAfter_ts (f1 : Th → Th) (th : Th) : (suspendAfter f1 th).ts = (f1 th).ts := by
  unfold suspendAfter; split <;> rfl
theorem suspendAfter_hasVM (f1 : Th → Th) (th : Th) : (suspendAfter f1 th).hasVM = (f1 th).hasVM := by
  unfold suspendAfter; split <;> rfl
theorem suspendAfter_dead (f1 : Th → Th) (th : Th) : (suspendAfter f1 th).dead = (f1 th).dead := by
  unfold suspendAfter; split <;> rfl
theorem suspendAfter_parent (f1 : Th → Th) (th : Th) : (suspendAfter f1 th).parent = (f1 th).parent := by
  unfold suspendAfter; split <;> rfl
theorem suspendAfter_vm_ne (f1 : Th → Th) (th : Th) : (suspendAfter f1 th).vm ≠ .running := by
  unfold suspendAfter; split
  · simp
  · rename_i h; simpa using h
theorem suspendAfter_vm (f1 : Th → Th) (th : Th) :
    (suspendAfter f1 th).vm = (f1 th).vm ∨ ((f1 th).vm = .running ∧ (suspendAfter f1 th).vm = .suspended) := by
  unfold suspendAfter; split
  · rename_i h; right; exact ⟨by simpa using h, rfl⟩
  · left; rfl

theorem waitOn_shape (X : State) (p ms : Nat) :
    vmSuspend (addTiming (X.setTh p (fun th => { th with ts := .timing })) p ms) p =
      { (X.setTh p (suspendAfter fun th => { th with ts := .timing })) with
        timer := X.timer.add p (X.scaled + ms) } := by
  have h1 : vmSuspend (addTiming (X.setTh p (fun th => { th with ts := .timing })) p ms) p =
      { (vmSuspend (X.setTh p (fun th => { th with ts := .timing })) p) with
        timer := X.timer.add p (X.scaled + ms) } := rfl
  rw [h1, vmSuspend_setTh]

/-- `Wait(ms)` of a `running` thread that has a VM -/
theorem Inv.goTiming {W : List Nat} {X : State} (h : Inv [] W none X) (p ms : Nat) (th1 : Th)
    (hth : thFind X.threads p = some th1) (hrun : th1.ts = .running) (hvm : th1.hasVM = true) :
    Inv [] W none { (X.setTh p (suspendAfter fun th => { th with ts := .timing })) with
        timer := X.timer.add p (X.scaled + ms) } := by
  have r1 := h.th p th1 hth
  have hd : th1.dead = false := by
    cases hdd : th1.dead with
    | false => rfl
    | true => have := (r1.f2 hdd).1; rw [hvm] at this; cases this
  apply h.setTh p (suspendAfter fun th => { th with ts := .timing }) th1 _ hth
    (fun x => by rw [suspendAfter_parent]) ?_ (fun x => by rw [suspendAfter_dead])
    (h.tim.start' p _ th1 hth (by rw [hrun]; simp) _ (fun x => by rw [suspendAfter_ts]))
    (fun x m _ => m) (fun x m _ => m) (Or.inl rfl)
  · intro ho
    rcases h.lnk.linkC p ho with m | ⟨th0, h0, hw0⟩
    · exact Or.inl m
    · rw [hth] at h0; cases h0; rw [hrun] at hw0; cases hw0
  · intro hw0; rw [suspendAfter_ts] at hw0; cases hw0
  · intro hw0; rw [suspendAfter_ts] at hw0; cases hw0
  · refine ⟨fun hv => ?_, fun hdd => ?_, fun hr => absurd hr (suspendAfter_vm_ne _ _), fun hv => ?_⟩
    · rw [suspendAfter_hasVM] at hv; simp only at hv; rw [hvm] at hv; cases hv
    · rw [suspendAfter_dead] at hdd; simp only at hdd; rw [hd] at hdd; cases hdd
    · rw [suspendAfter_hasVM]; simp only
      rcases suspendAfter_vm (fun th => { th with ts := .timing }) th1 with e | ⟨_, e⟩
      · rw [e] at hv; simp only at hv; exact r1.f5 hv
      · rw [e] at hv; cases hv

theorem G0.goTiming (X : State) (p ms : Nat) :
    G0 X { (X.setTh p (suspendAfter fun th => { th with ts := .timing })) with
        timer := X.timer.add p (X.scaled + ms) } := by
  have g := G0.setTh X p (suspendAfter fun th => { th with ts := .timing })
    (fun x => by rw [suspendAfter_hasVM]) (fun x => by rw [suspendAfter_dead])
    (fun th _ hi => by
      rcases suspendAfter_vm (fun th => { th with ts := .timing }) th with e | ⟨e, _⟩
      · rw [e]; exact hi
      · simp only at e; rcases hi with hi | hi <;> rw [hi] at e <;> cases e)
  exact g.congr rfl rfl rfl rfl rfl rfl

/-- `Suspend()` -/
theorem Inv.suspend {C W : List Nat} {top : Option Nat} {X : State} (h : Inv C W top X) (p : Nat) :
    Inv C W top (vmSuspend X p) := by
  unfold vmSuspend
  cases hth : thFind X.threads p with
  | none => exact h.setTh_none p _ hth (fun x => by split <;> rfl)
  | some th =>
    have r := h.th p th hth
    have := h.setTh (C' := C) (W' := W) (top' := top) p
      (fun th => if th.vm == .running then { th with vm := .suspended } else th) th X.timer hth
      (fun x => by split <;> rfl)
      (by
        split
        · rename_i hv
          have hv' : th.vm = .running := by simpa using hv
          exact ⟨r.f1, fun hd => (by rw [(r.f2 hd).2] at hv'; cases hv'), fun hr => (by cases hr),
            fun hr => (by cases hr)⟩
        · exact r)
      (fun x => by split <;> rfl)
      (h.tim.setTh_same p _ (fun x => by split <;> rfl)) (fun x m _ => m) (fun x m _ => m) (Or.inr (Or.inl rfl))
      (fun ho => by
        rcases h.lnk.linkC p ho with m | ⟨th0, h0, hw0⟩
        · exact Or.inl m
        · rw [hth] at h0; cases h0; right
          split <;> exact hw0)
      (fun hw0 => by
        have : th.ts = .waiting := by
          split at hw0 <;> exact hw0
        exact h.lnk.linkW p th hth this)
      (fun hw0 hv0 => by
        split at hw0
        · rename_i hv
          have hv' : th.vm = .running := by simpa using hv
          have := r.f3 hv'
          simp only at hw0
          rw [this] at hw0; cases hw0
        · rename_i hv
          simp only [hv, Bool.false_eq_true, if_false] at hv0
          exact h.lnk.f4 p th hth hw0 hv0)
    exact this

theorem G0.suspend (X : State) (p : Nat) : G0 X (vmSuspend X p) := by
  unfold vmSuspend
  apply G0.setTh X p _ (fun x => by split <;> rfl) (fun x => by split <;> rfl)
  intro th _ hi
  split
  · rename_i hv
    have hv' : th.vm = .running := by simpa using hv
    rcases hi with hi | hi <;> rw [hi] at hv' <;> cases hv'
  · exact hi

end Morfuse.Sched
