import MorfuseModel.Sched.MachineInvNotify
/-!
# Building blocks for the executing half of the machine: registration, thread creation, object removal
-/
namespace Morfuse.Sched
open State

/-! ### `G0` for one record update -/

theorem G0.setTh (s : State) (t : Nat) (f : Th → Th) (hv : ∀ x, (f x).hasVM = x.hasVM)
    (hd : ∀ x, (f x).dead = x.dead)
    (hvm : ∀ th, thFind s.threads t = some th → (th.vm = .idling ∨ th.vm = .destroyed) →
      ((f th).vm = .idling ∨ (f th).vm = .destroyed)) : G0 s (s.setTh t f) := by
  refine ⟨Nat.le_refl _, rfl, ?_, ?_, ?_⟩
  · intro u th' _ hu
    rw [State.setTh_threads, thFind_map_upd] at hu
    split at hu
    · rename_i hut; subst hut
      cases hf : thFind s.threads u with
      | none => simp [hf] at hu
      | some th => simp [hf] at hu; exact ⟨th, rfl, by rw [← hu, hd]; exact id⟩
    · exact ⟨th', hu, id⟩
  · intro u th hu hvu
    right
    rw [State.setTh_threads, thFind_map_upd]
    split
    · rename_i hut; subst hut
      exact ⟨f th, by simp [hu], Or.inl (by rw [hv]; exact hvu)⟩
    · exact ⟨th, hu, Or.inl hvu⟩
  · intro u th hu hi
    right
    rw [State.setTh_threads, thFind_map_upd]
    split
    · rename_i hut; subst hut
      exact ⟨f th, by simp [hu], hvm th hu hi⟩
    · exact ⟨th, hu, hi⟩

theorem G0.of_eq {s s' : State} (e1 : s'.threads = s.threads) (e2 : s'.nextTid = s.nextTid)
    (e4 : s'.depth = s.depth) : G0 s s' :=
  (G.of_eq (s := s) (s' := { s' with cur := s.cur }) e1 e2 rfl e4).g0.congr rfl rfl rfl rfl rfl rfl

/-! ### `Stop()` of a thread that is `running` -/

theorem stop_running (fuel : Nat) (s : State) (t : Nat) (th : Th) (hth : thFind s.threads t = some th)
    (hts : th.ts = .running) : stop fuel s t = s ∨ stop fuel s t = { s with outOfFuel := true } := by
  cases fuel with
  | zero => right; rw [stop_zero]
  | succ fuel =>
    left
    rw [stop_succ, State.th?_eq, hth]
    simp only [stopStep, hts]
    rfl

/-! ### registration -/

theorem hasOwner_push_self (T : Tbl) (hT : Tbl.WF T) (k : Key) (x : Nat) :
    Tbl.hasOwner (Tbl.push T k x) k.1 = true := by
  rw [(hT.push k x).hasOwner_iff]
  refine ⟨k.2, ?_⟩
  rw [Tbl.getD_push]
  simp

theorem hasOwner_push_of {T : Tbl} (hT : Tbl.WF T) (k : Key) (x : Nat) {o : Nat} (h : Tbl.hasOwner T o = true) :
    Tbl.hasOwner (Tbl.push T k x) o = true := by
  rw [(hT.push k x).hasOwner_iff]
  obtain ⟨n, hn⟩ := (hT.hasOwner_iff o).1 h
  refine ⟨n, ?_⟩
  rw [Tbl.getD_push]
  split
  · simp
  · exact hn

/-- `Register(name, t)` on source `o` once `t` is `waiting`: discharges the wake-up exemption of `t` -/
theorem Inv.register {C W : List Nat} {top top' : Option Nat} {s : State} (h : Inv C (t :: W) top s)
    (o n : Nat) (th : Th) (hth : thFind s.threads t = some th) (hw : th.ts = .waiting) (hdead : th.dead = false)
    (ho : s.alive o = true) (hon : o < 100 ∨ NameOK n)
    (htop : top = none ∨ top = top' ∨ top = some t)
    (h4 : th.vm = .idling ∨ top' = some t ∨ (n = 0 ∧ Tbl.hasOwner s.waitFor t = false)) :
    Inv C W top' { s with notify := Tbl.push s.notify (o, n) t, waitFor := Tbl.push s.waitFor (t, n) o } := by
  have ht100 : 100 ≤ t := (h.n.range t th hth).1
  have halive : aliveTh s.threads t = true := (aliveTh_iff h.n.nodup t).2 ⟨th, hth, hdead⟩
  refine ⟨?_, h.th, h.tim, ?_, ?_⟩
  · -- structural part
    have h1 : NInv { s with notify := Tbl.push s.notify (o, n) t } := by
      refine { h.n with wfN := h.n.wfN.push _ _, n1 := ?_, nMem := ?_ }
      · intro src n' hsrc hne
        simp only [Tbl.getD_push] at hne
        split at hne
        · rename_i hk
          have : src = o ∧ n' = n := by simpa using hk
          rcases hon with hon | hon
          · omega
          · rw [this.2]; exact hon
        · exact h.n.n1 src n' hsrc hne
      · intro k x hx
        simp only [Tbl.getD_push] at hx
        split at hx
        · rcases List.mem_append.1 hx with hx | hx
          · exact h.n.nMem _ x hx
          · simp at hx; omega
        · exact h.n.nMem k x hx
    refine { h1 with wfW := h1.wfW.push _ _, wOwn := ?_ }
    intro o' n' hne
    simp only [Tbl.getD_push] at hne
    split at hne
    · rename_i hk
      have : o' = t ∧ n' = n := by simpa using hk
      omega
    · exact h.n.wOwn o' n' hne
  · refine ⟨h.tab.mir.push o n t, ?_⟩
    intro o' n' x hx
    simp only [Tbl.getD_push] at hx
    split at hx
    · rename_i hk
      have hk' : o' = o ∧ n' = n := by simpa using hk
      rcases List.mem_append.1 hx with hx | hx
      · rw [hk'.1, hk'.2] at *
        exact h.tab.aN o n x hx
      · simp at hx; subst hx
        rw [hk'.1]; exact ⟨ho, halive⟩
    · exact h.tab.aN o' n' x hx
  · refine ⟨?_, ?_, ?_⟩
    · intro u hu
      rcases Tbl.hasOwner_push hu with h1 | h1
      · exact h.lnk.linkC u h1
      · simp only at h1; subst h1
        exact Or.inr ⟨th, hth, hw⟩
    · intro u th0 h0 hw0
      by_cases hut : u = t
      · subst hut
        exact Or.inr (hasOwner_push_self _ h.n.wfW (u, n) o)
      · rcases h.lnk.linkW u th0 h0 hw0 with m | m
        · rcases List.mem_cons.1 m with m | m
          · exact absurd m hut
          · exact Or.inl m
        · exact Or.inr (hasOwner_push_of h.n.wfW _ _ m)
    · intro u th0 h0 hw0 hv0
      by_cases hut : u = t
      · subst hut
        rw [hth] at h0; cases h0
        rcases h4 with e | e | ⟨e1, e2⟩
        · exact absurd e hv0
        · exact Or.inl e
        · right
          intro n' hne
          simp only [Tbl.getD_push] at hne
          split at hne
          · rename_i hk
            have : n' = n := by
              have := (Prod.mk.inj hk).2; exact this
            rw [this, e1]
          · exact absurd ((h.n.wfW.hasOwner_false_iff u).1 e2 n') hne
      · rcases h.lnk.f4 u th0 h0 hw0 hv0 with e | e
        · rcases htop with ht | ht | ht
          · rw [ht] at e; cases e
          · left; rw [← ht]; exact e
          · rw [ht] at e; exact absurd (Option.some.inj e).symm hut
        · right
          intro n' hne
          simp only [Tbl.getD_push] at hne
          have : ¬ (u, n') = (t, n) := fun hk => hut (Prod.mk.inj hk).1
          simp only [this, if_false] at hne
          exact e n' hne

/-! ### thread creation -/

theorem Inv.spawn {C W : List Nat} {top : Option Nat} {s : State} (h : Inv C W top s) (th : Th)
    (hp : th.parent = 0 ∨ 100 ≤ th.parent) (hts : th.ts = .running) (hvm : th.hasVM = true)
    (hd : th.dead = false) (hv : th.vm = .running) :
    Inv C W top { s with nextTid := s.nextTid + 1, threads := s.threads ++ [(s.nextTid, th)] } := by
  have hfresh : thFind s.threads s.nextTid = none := by
    cases hf : thFind s.threads s.nextTid with
    | none => rfl
    | some th0 => have := (h.n.range _ _ hf).2; omega
  have hfind : ∀ u th', thFind (s.threads ++ [(s.nextTid, th)]) u = some th' →
      thFind s.threads u = some th' ∨ (u = s.nextTid ∧ th' = th) := by
    intro u th' hu
    rw [thFind_append] at hu
    split at hu
    · rename_i x hx; left; rw [hx]; exact hu
    · split at hu
      · right; simp at hu; exact ⟨by assumption, hu.symm⟩
      · simp at hu
  have hkeep : ∀ u th', thFind s.threads u = some th' → thFind (s.threads ++ [(s.nextTid, th)]) u = some th' := by
    intro u th' hu; rw [thFind_append, hu]
  have halive : ∀ l, aliveTh s.threads l = true → aliveTh (s.threads ++ [(s.nextTid, th)]) l = true := by
    intro l hl; rw [aliveTh_append, hl]; rfl
  have hnoown : Tbl.hasOwner s.waitFor s.nextTid = true → s.nextTid ∈ C := by
    intro ho
    rcases h.lnk.linkC _ ho with m | ⟨th0, h0, _⟩
    · exact m
    · rw [hfresh] at h0; cases h0
  refine ⟨spawn_ninv h.n th hp, ?_, ?_, ?_, ?_⟩
  · exact h.th.append _ th ⟨fun e => (by rw [hvm] at e; cases e), fun e => (by rw [hd] at e; cases e),
      fun _ => hts, fun e => (by rw [hv] at e; cases e)⟩
  · exact h.tim.append _ th (by rw [hts]; simp)
  · refine ⟨h.tab.mir, ?_⟩
    intro o n x hx
    obtain ⟨a1, a2⟩ := h.tab.aN o n x hx
    refine ⟨?_, halive x a2⟩
    by_cases ho : State.isThread o = true
    · rw [State.alive_thread _ ho] at a1 ⊢
      exact halive o a1
    · have ho' : State.isThread o = false := by simpa using ho
      rw [State.alive_obj _ ho'] at a1 ⊢
      exact a1
  · refine ⟨?_, ?_, ?_⟩
    · intro u ho
      rcases h.lnk.linkC u ho with m | ⟨th0, h0, hw⟩
      · exact Or.inl m
      · exact Or.inr ⟨th0, hkeep u th0 h0, hw⟩
    · intro u th0 h0 hw
      rcases hfind u th0 h0 with h1 | ⟨_, h1⟩
      · exact h.lnk.linkW u th0 h1 hw
      · rw [h1, hts] at hw; cases hw
    · intro u th0 h0 hw hv0
      rcases hfind u th0 h0 with h1 | ⟨_, h1⟩
      · exact h.lnk.f4 u th0 h1 hw hv0
      · rw [h1, hts] at hw; cases hw

theorem G0.spawn (s : State) (th : Th) (hn : NInv s) :
    G0 s { s with nextTid := s.nextTid + 1, threads := s.threads ++ [(s.nextTid, th)] } := by
  have hkeep : ∀ u th', thFind s.threads u = some th' → thFind (s.threads ++ [(s.nextTid, th)]) u = some th' := by
    intro u th' hu; rw [thFind_append, hu]
  refine ⟨Nat.le_succ _, rfl, ?_, fun u th0 h0 hv => Or.inr ⟨th0, hkeep u th0 h0, Or.inl hv⟩,
    fun u th0 h0 hv => Or.inr ⟨th0, hkeep u th0 h0, hv⟩⟩
  intro u th' hu hf
  simp only at hf
  rw [thFind_append] at hf
  split at hf
  · rename_i x hx; simp at hf; subst hf; exact ⟨x, hx, id⟩
  · split at hf
    · rename_i hut; omega
    · simp at hf

/-! ### objects -/

theorem alive_of_objs_sub {s s' : State} (e1 : s'.threads = s.threads) (hsub : ∀ o, o ∈ s.objs → o ∈ s'.objs)
    {l : Nat} (h : s.alive l = true) : s'.alive l = true := by
  by_cases hl : State.isThread l = true
  · rw [State.alive_thread _ hl] at h ⊢
    rw [e1]; exact h
  · have hl' : State.isThread l = false := by simpa using hl
    rw [State.alive_obj _ hl'] at h ⊢
    unfold State.objAlive at *
    simp only [Bool.or_eq_true, beq_iff_eq, List.contains_eq_mem, decide_eq_true_eq] at *
    rcases h with h | h
    · exact Or.inl h
    · exact Or.inr (hsub l h)

theorem Inv.addObj {C W : List Nat} {top : Option Nat} {s : State} (h : Inv C W top s) (o : Nat) (ho : o < 100) :
    Inv C W top { s with objs := s.objs ++ [o] } := by
  refine ⟨?_, h.th, h.tim, ⟨h.tab.mir, ?_⟩, ⟨h.lnk.linkC, h.lnk.linkW, h.lnk.f4⟩⟩
  · refine { h.n with objs := ?_ }
    intro o' ho'
    simp only [List.mem_append, List.mem_singleton] at ho'
    rcases ho' with ho' | ho'
    · exact h.n.objs o' ho'
    · rw [ho']; exact ho
  · intro o' n x hx
    obtain ⟨a1, a2⟩ := h.tab.aN o' n x hx
    exact ⟨alive_of_objs_sub (s := s) (s' := { s with objs := s.objs ++ [o] }) rfl
      (fun o'' h'' => List.mem_append_left _ h'') a1, a2⟩

/-- the object is removed once no table mentions it -/
theorem Inv.eraseObj {C W : List Nat} {top : Option Nat} {s : State} (h : Inv C W top s) (o : Nat)
    (ho : o < 100) (hown : Tbl.hasOwner s.notify o = false) :
    Inv C W top { s with objs := s.objs.erase o } := by
  refine ⟨?_, h.th, h.tim, ⟨h.tab.mir, ?_⟩, ⟨h.lnk.linkC, h.lnk.linkW, h.lnk.f4⟩⟩
  · refine { h.n with objs := ?_ }
    intro o' ho'
    exact h.n.objs o' (List.mem_of_mem_erase ho')
  · intro o' n x hx
    obtain ⟨a1, a2⟩ := h.tab.aN o' n x hx
    refine ⟨?_, a2⟩
    have hne : o' ≠ o := by
      intro e; subst e
      have := (h.n.wfN.hasOwner_false_iff o').1 hown n
      rw [this] at hx; simp at hx
    by_cases hl : State.isThread o' = true
    · rw [State.alive_thread _ hl] at a1 ⊢
      exact a1
    · have hl' : State.isThread o' = false := by simpa using hl
      rw [State.alive_obj _ hl'] at a1 ⊢
      unfold State.objAlive at *
      simp only [Bool.or_eq_true, beq_iff_eq, List.contains_eq_mem, decide_eq_true_eq] at *
      rcases a1 with a1 | a1
      · exact Or.inl a1
      · exact Or.inr ((List.mem_erase_of_ne hne).2 a1)

/-- dropping the `top` exemption when the thread is outside the window -/
theorem Inv.dropTop {C W : List Nat} {s : State} {t : Nat} (h : Inv C W (some t) s)
    (ht : ∀ th, thFind s.threads t = some th → th.ts = .waiting → th.vm ≠ .idling →
      ∀ n, Tbl.getD s.waitFor (t, n) ≠ [] → n = 0) : Inv C W none s := by
  refine { h with lnk := { h.lnk with f4 := ?_ } }
  intro u th hu hw hv
  rcases h.lnk.f4 u th hu hw hv with e | e
  · have : t = u := Option.some.inj e
    subst this
    exact Or.inr (ht th hu hw hv)
  · exact Or.inr e

theorem Inv.toTop {C W : List Nat} {s : State} (h : Inv C W none s) (t : Nat) : Inv C W (some t) s :=
  h.weaken (fun _ m => m) (fun _ m => m) (Or.inl rfl)

end Morfuse.Sched
