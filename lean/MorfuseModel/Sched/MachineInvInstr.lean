import MorfuseModel.Sched.MachineInvExec
/-!
# `Inv` through one instruction (`exec`)
-/
namespace Morfuse.Sched
open State

/-- what `exec` knows about the executing thread -/
structure Running (s : State) (t : Nat) (th0 : Th) : Prop where
  find : thFind s.threads t = some th0
  vm : th0.vm = .running
  hasVM : th0.hasVM = true

theorem Running.ts {W : List Nat} {s : State} {t : Nat} {th0 : Th} (r : Running s t th0) (h : Inv [] W none s) :
    th0.ts = .running := (h.th t th0 r.find).f3 r.vm

theorem Running.noOwner {W : List Nat} {s : State} {t : Nat} {th0 : Th} (r : Running s t th0)
    (h : Inv [] W none s) : Tbl.hasOwner s.waitFor t = false := by
  rw [Bool.eq_false_iff]
  intro ho
  rcases h.lnk.linkC t ho with m | ⟨th, hth, hw⟩
  · simp at m
  · rw [r.find] at hth; cases hth
    rw [r.ts h] at hw; cases hw

theorem objAlive_alive {s : State} (hn : NInv s) {o : Nat} (ho : s.objAlive o = true) : s.alive o = true := by
  have hlt := objAlive_lt hn ho
  rw [State.alive_obj _ (by simp [State.isThread]; omega)]
  exact ho

theorem Inv.emit {C W : List Nat} {top : Option Nat} {s : State} (h : Inv C W top s) (m : String) :
    Inv C W top (s.emit m) := h.congr rfl rfl rfl rfl rfl rfl rfl rfl rfl

/-- the loop of `waittill` / `waittill_any` -/
theorem regFold_inv {fuel : Nat} {W : List Nat} {t o : Nat} (ho100 : o < 100) :
    ∀ (names : List Nat) (s : State), Inv [] W (some t) s →
      (Tbl.hasOwner s.waitFor t = false →
        ∃ th0, thFind s.threads t = some th0 ∧ th0.vm = .running ∧ th0.hasVM = true) →
      s.alive o = true →
      Ok (names.foldl (fun s n => regWait (stop fuel) s o n t) s)
        (Inv [] W (some t) (names.foldl (fun s n => regWait (stop fuel) s o n t) s) ∧
          G s (names.foldl (fun s n => regWait (stop fuel) s o n t) s))
  | [], s, h, _, _ => Ok.pure ⟨h, G.refl s⟩
  | n :: names, s, h, hrun, ho => by
    simp only [List.foldl_cons]
    refine (regWait_inv (fuel := fuel) (some t) o n h hrun ho (Or.inl ho100) (Or.inl rfl)).bind
      (Pres.foldl _ (fun s a => regWait_pres (presAll fuel).stp _ _ _ _) _ _) (fun p => ?_)
    obtain ⟨p1, p2, p3, p4, _, p6⟩ := p
    refine (regFold_inv ho100 names _ p1 (fun hno => by rw [p3] at hno; cases hno) (by rw [p4]; exact ho)).map
      (fun q => ⟨q.1, G.trans h.n (p2.withCur (Or.inl p6)) q.2⟩)

/-- fresh record in the state after a thread creation -/
theorem thFind_spawned {ths : List (Nat × Th)} {t' : Nat} (th : Th) (hf : thFind ths t' = none) :
    thFind (ths ++ [(t', th)]) t' = some th := by
  rw [thFind_append, hf]; simp

theorem fresh_none {s : State} (hn : NInv s) : thFind s.threads s.nextTid = none := by
  cases hf : thFind s.threads s.nextTid with
  | none => rfl
  | some th0 => have := (hn.range _ _ hf).2; omega

structure IHx (fuel : Nat) : Prop where
  stp : IStp (stop fuel)
  ur : IUr (unregister fuel)
  ua : IUa (unregisterAll fuel)
  cwa : ICwa (cancelWaitingAll fuel)
  dt : IDt (deleteThread fuel)
  sei : ISei (scriptExecuteInternal fuel)

theorem exec_wait_inv {fuel : Nat} {W : List Nat} {s : State} {t : Nat} {th0 th : Th} (h : Inv [] W none s)
    (r : Running s t th0) (ms : Nat) :
    Ok (exec (fuel + 1) s t th (.wait ms))
      (Inv [] W (some t) (exec (fuel + 1) s t th (.wait ms)) ∧ G s (exec (fuel + 1) s t th (.wait ms))) := by
  rw [exec_wait]
  unfold waitOn
  rcases stop_running fuel s t th0 r.find (r.ts h) with e | e
  · rw [e, waitOn_shape]
    exact Ok.pure ⟨(h.goTiming t ms th0 r.find (r.ts h) r.hasVM).toTop t, (G0.goTiming s t ms).withCur (Or.inl rfl)⟩
  · rw [e]; exact Or.inl rfl

theorem exec_pause_inv {fuel : Nat} {W : List Nat} {s : State} {t : Nat} {th0 th : Th} (h : Inv [] W none s)
    (r : Running s t th0) :
    Ok (exec (fuel + 1) s t th .pause)
      (Inv [] W (some t) (exec (fuel + 1) s t th .pause) ∧ G s (exec (fuel + 1) s t th .pause)) := by
  rw [exec_pause]
  rcases stop_running fuel s t th0 r.find (r.ts h) with e | e
  · rw [e]
    exact Ok.pure ⟨(h.suspend t).toTop t, (G0.suspend s t).withCur (Or.inl rfl)⟩
  · rw [e]; exact Or.inl rfl

theorem exec_waittill_inv {fuel : Nat} {W : List Nat} {s : State} {t : Nat} {th0 th : Th} (h : Inv [] W none s)
    (r : Running s t th0) (hcur : s.cur = some t ∨ s.cur = none) (o : Nat) (names : List Nat) :
    Ok (exec (fuel + 1) s t th (.waittill o names))
      (Inv [] W (some t) (exec (fuel + 1) s t th (.waittill o names)) ∧
        G s (exec (fuel + 1) s t th (.waittill o names))) := by
  rw [exec_waittill]
  split
  · exact Ok.pure ⟨h.toTop t, G.refl s⟩
  · rename_i hoa
    have hoa' : s.objAlive o = true := by simpa using hoa
    cases hc : s.cur with
    | none => exact Ok.pure ⟨h.toTop t, G.refl s⟩
    | some c =>
      have hct : c = t := by
        rcases hcur with e | e
        · rw [hc] at e; exact Option.some.inj e
        · rw [hc] at e; cases e
      subst hct
      simp only
      exact regFold_inv (fuel := fuel) (objAlive_lt h.n hoa') names s (h.toTop c)
        (fun _ => ⟨th0, r.find, r.vm, r.hasVM⟩) (objAlive_alive h.n hoa')

end Morfuse.Sched
