import MorfuseModel.Sched.MachineInvExec
/-!
# `Inv` through one instruction (`exec`)
-/
namespace Morfuse.Sched
open State

/-- what `exec` knows about the executing thread -/
structure Running (s : State) (t : Nat) (th0 : Th) : Prop where
  find : thFind s.threads t = some th0
  vm : th0.vm = .running
  hasVM : th0.hasVM = true

theorem Running.ts {W : List Nat} {s : State} {t : Nat} {th0 : Th} (r : Running s t th0) (h : Inv [] W none s) :
    th0.ts = .running := (h.th t th0 r.find).f3 r.vm

theorem Running.noOwner {W : List Nat} {s : State} {t : Nat} {th0 : Th} (r : Running s t th0)
    (h : Inv [] W none s) : Tbl.hasOwner s.waitFor t = false := by
  rw [Bool.eq_false_iff]
  intro ho
  rcases h.lnk.linkC t ho with m | ⟨th, hth, hw⟩
  · simp at m
  · rw [r.find] at hth; cases hth
    rw [r.ts h] at hw; cases hw

theorem objAlive_alive {s : State} (hn : NInv s) {o : Nat} (ho : s.objAlive o = true) : s.alive o = true := by
  have hlt := objAlive_lt hn ho
  rw [State.alive_obj _ (by simp [State.isThread]; omega)]
  exact ho

theorem Inv.emit {C W : List Nat} {top : Option Nat} {s : State} (h : Inv C W top s) (m : String) :
    Inv C W top (s.emit m) := h.congr rfl rfl rfl rfl rfl rfl rfl rfl rfl

/-- the loop of `waittill` / `waittill_any` -/
theorem regFold_inv {fuel : Nat} {W : List Nat} {t o : Nat} :
    ∀ (names : List Nat) (s : State), (∀ n ∈ names, o < 100 ∨ NameOK n) → Inv [] W (some t) s →
      (Tbl.hasOwner s.waitFor t = false →
        ∃ th0, thFind s.threads t = some th0 ∧ th0.vm = .running ∧ th0.hasVM = true) →
      s.alive o = true →
      Ok (names.foldl (fun s n => regWait (stop fuel) s o n t) s)
        (Inv [] W (some t) (names.foldl (fun s n => regWait (stop fuel) s o n t) s) ∧
          G s (names.foldl (fun s n => regWait (stop fuel) s o n t) s))
  | [], s, _, h, _, _ => Ok.pure ⟨h, G.refl s⟩
  | n :: names, s, hon, h, hrun, ho => by
    simp only [List.foldl_cons]
    refine (regWait_inv (fuel := fuel) (some t) o n h hrun ho (hon n List.mem_cons_self) (Or.inl rfl)).bind
      (Pres.foldl _ (fun s a => regWait_pres (presAll fuel).stp _ _ _ _) _ _) (fun p => ?_)
    obtain ⟨p1, p2, p3, p4, _, p6⟩ := p
    refine (regFold_inv names _ (fun m hm => hon m (List.mem_cons_of_mem _ hm)) p1
      (fun hno => by rw [p3] at hno; cases hno) (by rw [p4]; exact ho)).map
      (fun q => ⟨q.1, G.trans h.n (p2.withCur (Or.inl p6)) q.2⟩)

/-- fresh record in the state after a thread creation -/
theorem thFind_spawned {ths : List (Nat × Th)} {t' : Nat} (th : Th) (hf : thFind ths t' = none) :
    thFind (ths ++ [(t', th)]) t' = some th := by
  rw [thFind_append, hf]; simp

theorem fresh_none {s : State} (hn : NInv s) : thFind s.threads s.nextTid = none := by
  cases hf : thFind s.threads s.nextTid with
  | none => rfl
  | some th0 => have := (hn.range _ _ hf).2; omega

structure IHx (fuel : Nat) : Prop where
  stp : IStp (stop fuel)
  ur : IUr (unregister fuel)
  ua : IUa (unregisterAll fuel)
  cwa : ICwa (cancelWaitingAll fuel)
  dt : IDt (deleteThread fuel)
  sei : ISei (scriptExecuteInternal fuel)

theorem exec_wait_inv {fuel : Nat} {W : List Nat} {s : State} {t : Nat} {th0 th : Th} (h : Inv [] W none s)
    (r : Running s t th0) (ms : Nat) :
    Ok (exec (fuel + 1) s t th (.wait ms))
      (Inv [] W (some t) (exec (fuel + 1) s t th (.wait ms)) ∧ G s (exec (fuel + 1) s t th (.wait ms))) := by
  rw [exec_wait]
  unfold waitOn
  rcases stop_running fuel s t th0 r.find (r.ts h) with e | e
  · rw [e, waitOn_shape]
    exact Ok.pure ⟨(h.goTiming t ms th0 r.find (r.ts h) r.hasVM).toTop t, (G0.goTiming s t ms).withCur (Or.inl rfl)⟩
  · rw [e]; exact Or.inl rfl

theorem exec_pause_inv {fuel : Nat} {W : List Nat} {s : State} {t : Nat} {th0 th : Th} (h : Inv [] W none s)
    (r : Running s t th0) :
    Ok (exec (fuel + 1) s t th .pause)
      (Inv [] W (some t) (exec (fuel + 1) s t th .pause) ∧ G s (exec (fuel + 1) s t th .pause)) := by
  rw [exec_pause]
  rcases stop_running fuel s t th0 r.find (r.ts h) with e | e
  · rw [e]
    exact Ok.pure ⟨(h.suspend t).toTop t, (G0.suspend s t).withCur (Or.inl rfl)⟩
  · rw [e]; exact Or.inl rfl

theorem exec_waittill_inv {fuel : Nat} {W : List Nat} {s : State} {t : Nat} {th0 th : Th} (h : Inv [] W none s)
    (r : Running s t th0) (hcur : s.cur = some t ∨ s.cur = none) (o : Nat) (names : List Nat) :
    Ok (exec (fuel + 1) s t th (.waittill o names))
      (Inv [] W (some t) (exec (fuel + 1) s t th (.waittill o names)) ∧
        G s (exec (fuel + 1) s t th (.waittill o names))) := by
  rw [exec_waittill]
  split
  · exact Ok.pure ⟨h.toTop t, G.refl s⟩
  · rename_i hoa
    have hoa' : s.objAlive o = true := by simpa using hoa
    cases hc : s.cur with
    | none => exact Ok.pure ⟨h.toTop t, G.refl s⟩
    | some c =>
      have hct : c = t := by
        rcases hcur with e | e
        · rw [hc] at e; exact Option.some.inj e
        · rw [hc] at e; cases e
      subst hct
      simp only
      exact regFold_inv (fuel := fuel) names s (fun _ _ => Or.inl (objAlive_lt h.n hoa')) (h.toTop c)
        (fun _ => ⟨th0, r.find, r.vm, r.hasVM⟩) (objAlive_alive h.n hoa')

theorem exec_waittillTimeout_inv {fuel : Nat} {W : List Nat} {s : State} {t : Nat} {th0 th : Th}
    (h : Inv [] W none s) (r : Running s t th0) (hcur : s.cur = some t ∨ s.cur = none) (o n ms : Nat) :
    Ok (exec (fuel + 1) s t th (.waittillTimeout o n ms))
      (Inv [] W (some t) (exec (fuel + 1) s t th (.waittillTimeout o n ms)) ∧
        G s (exec (fuel + 1) s t th (.waittillTimeout o n ms))) := by
  rw [exec_waittillTimeout]
  split
  · exact Ok.pure ⟨h.toTop t, G.refl s⟩
  · rename_i hoa
    have hoa' : s.objAlive o = true := by simpa using hoa
    cases hc : s.cur with
    | none => exact Ok.pure ⟨h.toTop t, G.refl s⟩
    | some c =>
      have hct : c = t := by
        rcases hcur with e | e
        · rw [hc] at e; exact Option.some.inj e
        · rw [hc] at e; cases e
      subst hct
      simp only
      refine (regWait_inv (fuel := fuel) (some c) o n (h.toTop c) (fun _ => ⟨th0, r.find, r.vm, r.hasVM⟩)
        (objAlive_alive h.n hoa') (Or.inl (objAlive_lt h.n hoa')) (Or.inl rfl)).bind (postEvent_pres _ _ _) (fun p => ?_)
      obtain ⟨p1, p2, _, _, _, p6⟩ := p
      exact Ok.pure ⟨p1.congr rfl rfl rfl rfl rfl rfl rfl rfl rfl,
        G.trans h.n (p2.withCur (Or.inl p6)) (G.of_eq rfl rfl rfl rfl)⟩

theorem exec_delete_inv {fuel : Nat} (ih : IHx fuel) {W : List Nat} {s : State} {t : Nat} {th : Th}
    (h : Inv [] W none s) (o : Nat) :
    Ok (exec (fuel + 1) s t th (.delete o))
      (Inv [] W (some t) (exec (fuel + 1) s t th (.delete o)) ∧ G s (exec (fuel + 1) s t th (.delete o))) := by
  rw [exec_delete]
  split
  · exact Ok.pure ⟨h.toTop t, G.refl s⟩
  · rename_i hc
    have ho : o < 100 := h.n.objs o (by simpa using hc)
    have P := presAll fuel
    refine (ih.ur [] W s o nameDelete h (Or.inl rfl)).bind ?_ (fun p1 => ?_)
    · exact Pres.trans (b := cancelWaitingAll fuel (unregisterAll fuel (unregister fuel (unregister fuel s o nameDelete) o nameRemove) o) o)
        (((P.ur _ o nameRemove).trans (P.ua _ o)).trans (P.cwa _ o)) (Pres.of_eq rfl rfl rfl)
    refine (ih.ur [] W _ o nameRemove p1.1 (Or.inl rfl)).bind ?_ (fun p2 => ?_)
    · exact Pres.trans (b := cancelWaitingAll fuel (unregisterAll fuel (unregister fuel (unregister fuel s o nameDelete) o nameRemove) o) o)
        ((P.ua _ o).trans (P.cwa _ o)) (Pres.of_eq rfl rfl rfl)
    refine (ih.ua [] W _ o p2.1).bind ?_ (fun p3 => ?_)
    · exact Pres.trans (b := cancelWaitingAll fuel (unregisterAll fuel (unregister fuel (unregister fuel s o nameDelete) o nameRemove) o) o)
        (P.cwa _ o) (Pres.of_eq rfl rfl rfl)
    refine (ih.cwa [] W _ o (p3.1.consC o)).bind (Pres.of_eq rfl rfl rfl) (fun p4 => ?_)
    have q3 := (qAll fuel).ua [] _ o p2.1.n
    have q4 := (qAll fuel).cwa [] _ o p3.1.n
    have hown := hasOwner_false_of_sub p3.1.n.wfN p4.1.n.wfN q4.subN p3.2
    refine Ok.pure ⟨(p4.1.eraseObj o ho hown).toTop t, ?_⟩
    exact G.trans h.n p1.2 (G.trans p1.1.n p2.2 (G.trans p2.1.n q3.toG (G.trans p3.1.n q4.toG (G.of_eq rfl rfl rfl rfl))))

theorem spawnSame_inv {W : List Nat} {s : State} (h : Inv [] W none s) (t : Nat) (th : Th) (l : Nat)
    (ht : 100 ≤ t) : Inv [] W none (spawnSame s t th l) ∧ G s (spawnSame s t th l) ∧
      ∃ r, thFind (spawnSame s t th l).threads s.nextTid = some r ∧ r.hasVM = true := by
  refine ⟨?_, ?_, ?_⟩
  · exact (h.spawn ({ label := l, inst := th.inst, params := bindLoop (s.progParams.getD l 0) 0 [], parent := t } : Th)
      (Or.inr ht) rfl rfl rfl rfl).congr rfl rfl rfl rfl rfl rfl rfl rfl rfl
  · have g : G0 s (spawnSame s t th l) :=
      (G0.spawn s ({ label := l, inst := th.inst, params := bindLoop (s.progParams.getD l 0) 0 [], parent := t } : Th)
        h.n).congr rfl rfl rfl rfl rfl rfl
    exact g.withCur (Or.inl rfl)
  · exact ⟨_, thFind_spawned _ (fresh_none h.n), rfl⟩

theorem spawnNew_inv {W : List Nat} {s : State} (h : Inv [] W none s) (t : Nat) (l : Nat)
    (ht : 100 ≤ t) : Inv [] W none (spawnNew s t l) ∧ G s (spawnNew s t l) ∧
      ∃ r, thFind (spawnNew s t l).threads s.nextTid = some r ∧ r.hasVM = true ∧ r.dead = false := by
  refine ⟨?_, ?_, ?_⟩
  · exact (h.spawn ({ label := l, inst := s.nextInst, params := bindLoop (s.progParams.getD l 0) 0 [], parent := t } : Th)
      (Or.inr ht) rfl rfl rfl rfl).congr rfl rfl rfl rfl rfl rfl rfl rfl rfl
  · have g : G0 s (spawnNew s t l) :=
      (G0.spawn s ({ label := l, inst := s.nextInst, params := bindLoop (s.progParams.getD l 0) 0 [], parent := t } : Th)
        h.n).congr rfl rfl rfl rfl rfl rfl
    exact g.withCur (Or.inl rfl)
  · exact ⟨_, thFind_spawned _ (fresh_none h.n), rfl, rfl⟩

theorem exec_thread_inv {fuel : Nat} (ih : IHx fuel) {W : List Nat} {s : State} {t : Nat} {th0 th : Th}
    (h : Inv [] W none s) (r : Running s t th0) (l : Nat) :
    Ok (exec (fuel + 1) s t th (.thread l))
      (Inv [] W (some t) (exec (fuel + 1) s t th (.thread l)) ∧ G s (exec (fuel + 1) s t th (.thread l))) := by
  rw [exec_thread]
  split
  · exact Ok.pure ⟨h.toTop t, G.refl s⟩
  · have ht : 100 ≤ t := (h.n.range t th0 r.find).1
    obtain ⟨i1, g1, r1, hr1, hv1⟩ := spawnSame_inv h t th l ht
    exact (ih.sei W _ s.nextTid r1 (i1.consW _) hr1 hv1).map (fun p => ⟨p.1.toTop t, G.trans h.n g1 p.2⟩)

theorem exec_waitthread_inv {fuel : Nat} (ih : IHx fuel) {W : List Nat} {s : State} {t : Nat} {th0 th : Th}
    (h : Inv [] W none s) (r : Running s t th0) (hcur : s.cur = some t ∨ s.cur = none) (l : Nat) :
    Ok (exec (fuel + 1) s t th (.waitthread l))
      (Inv [] W (some t) (exec (fuel + 1) s t th (.waitthread l)) ∧ G s (exec (fuel + 1) s t th (.waitthread l))) := by
  rw [exec_waitthread]
  split
  · exact Ok.pure ⟨h.toTop t, G.refl s⟩
  · have ht : 100 ≤ t := (h.n.range t th0 r.find).1
    obtain ⟨i1, g1, r1, hr1, hv1, hd1⟩ := spawnNew_inv h t l ht
    cases hc : s.cur with
    | none =>
      simp only
      exact (ih.sei W _ s.nextTid r1 (i1.consW _) hr1 hv1).map (fun p => ⟨p.1.toTop t, G.trans h.n g1 p.2⟩)
    | some c =>
      have hct : c = t := by
        rcases hcur with e | e
        · rw [hc] at e; exact Option.some.inj e
        · rw [hc] at e; cases e
      subst hct
      simp only
      have hne : s.nextTid ≠ c := by have := (h.n.range c th0 r.find).2; omega
      -- the caller's record is untouched by the creation
      have hkeep : thFind (spawnNew s c l).threads c = some th0 := by
        show thFind (s.threads ++ [_]) c = _
        rw [thFind_append, r.find]
      have r' : Running (spawnNew s c l) c th0 := ⟨hkeep, r.vm, r.hasVM⟩
      have halive : (spawnNew s c l).alive s.nextTid = true := by
        rw [State.alive_thread _ (by simp [State.isThread]; exact h.n.tid100)]
        exact (aliveTh_iff i1.n.nodup _).2 ⟨r1, hr1, hd1⟩
      refine (regWait_inv (fuel := fuel) none s.nextTid 0 (i1.toTop c) (fun _ => ⟨th0, hkeep, r.vm, r.hasVM⟩)
        halive (Or.inr nameOK_zero) (Or.inr ⟨rfl, r'.noOwner i1⟩)).bind ((presAll fuel).sei _ _) (fun p => ?_)
      obtain ⟨p1, p2, _, _, p5, p6⟩ := p
      have hr2 : thFind (regWait (stop fuel) (spawnNew s c l) s.nextTid 0 c).threads s.nextTid = some r1 := by
        rw [p5 _ hne]; exact hr1
      refine (ih.sei W _ s.nextTid r1 (p1.consW _) hr2 hv1).map (fun q => ⟨q.1.toTop c, ?_⟩)
      exact G.trans h.n g1 (G.trans i1.n (p2.withCur (Or.inl p6)) q.2)

theorem exec_waittillParent_inv {fuel : Nat} {W : List Nat} {s : State} {t : Nat} {th0 th : Th} (h : Inv [] W none s)
    (r : Running s t th0) (hcur : s.cur = some t ∨ s.cur = none) (names : List Nat) (hok : ∀ n ∈ names, NameOK n) :
    Ok (exec (fuel + 1) s t th (.waittillParent names))
      (Inv [] W (some t) (exec (fuel + 1) s t th (.waittillParent names)) ∧
        G s (exec (fuel + 1) s t th (.waittillParent names))) := by
  rw [exec_waittillParent]
  split
  · exact Ok.pure ⟨h.toTop t, G.refl s⟩
  · rename_i hg
    simp only [Bool.or_eq_true, beq_iff_eq, Bool.not_eq_eq_eq_not, Bool.not_true, not_or] at hg
    have hal : s.alive th.parent = true := by simpa using hg.2
    cases hc : s.cur with
    | none => exact Ok.pure ⟨h.toTop t, G.refl s⟩
    | some c =>
      have hct : c = t := by
        rcases hcur with e | e
        · rw [hc] at e; exact Option.some.inj e
        · rw [hc] at e; cases e
      subst hct
      simp only
      exact regFold_inv (fuel := fuel) names s (fun n hn => Or.inr (hok n hn)) (h.toTop c)
        (fun _ => ⟨th0, r.find, r.vm, r.hasVM⟩) hal

theorem exec_waitParent_inv {fuel : Nat} (ih : IHx fuel) {W : List Nat} {s : State} {t : Nat} {th : Th}
    (h : Inv [] W none s) (ms : Nat) :
    Ok (exec (fuel + 1) s t th (.waitParent ms))
      (Inv [] W (some t) (exec (fuel + 1) s t th (.waitParent ms)) ∧ G s (exec (fuel + 1) s t th (.waitParent ms))) := by
  rw [exec_waitParent]
  split
  · exact Ok.pure ⟨h.toTop t, G.refl s⟩
  · rename_i hg
    simp only [Bool.or_eq_true, beq_iff_eq, Bool.not_eq_eq_eq_not, Bool.not_true, not_or] at hg
    obtain ⟨⟨_, hal⟩, hvm⟩ := hg
    have hvm' : s.hasVM th.parent = true := by simpa using hvm
    rw [State.hasVM_eq] at hvm'
    cases hp : thFind s.threads th.parent with
    | none => rw [hp] at hvm'; cases hvm'
    | some thp =>
      rw [hp] at hvm'
      simp only at hvm'
      unfold waitOnGuarded
      have q := (qAll fuel).stp [] s th.parent h.n
      refine (ih.stp [] W s th.parent (h.consW _)).bind ?_ (fun p => ?_)
      · split
        · exact Pres.refl _
        · unfold waitOn
          exact Pres.of_eq rfl rfl rfl
      split
      · exact Ok.pure ⟨p.1.toTop t, q.toG⟩
      · rename_i hal2
        have hal2' : (stop fuel s th.parent).alive th.parent = true := by simpa using hal2
        have hp100 : 100 ≤ th.parent := (h.n.range _ thp hp).1
        rw [State.alive_thread _ (by simpa [State.isThread] using hp100)] at hal2'
        obtain ⟨th1, hth1, hd1⟩ := (aliveTh_iff p.1.n.nodup _).1 hal2'
        have hrun : th1.ts = .running := p.2 th1 hth1
        have hvm1 : th1.hasVM = true := by
          rcases q.lost _ thp hp hvm' with e | ⟨th', e, e2⟩
          · rw [e] at hth1; cases hth1
          · rw [hth1] at e; cases e
            rcases e2 with e2 | e2 | e2
            · exact e2
            · rw [hd1] at e2; cases e2
            · cases e2
        unfold waitOn
        rw [waitOn_shape]
        refine Ok.pure ⟨(p.1.goTiming _ ms th1 hth1 hrun hvm1).toTop t, ?_⟩
        exact G.trans h.n q.toG ((G0.goTiming _ _ ms).withCur (Or.inl rfl))

theorem exec_end_inv {fuel : Nat} (ih : IHx fuel) {W : List Nat} {s : State} {t : Nat} {th : Th}
    (h : Inv [] W none s) (ev : EndV) :
    Ok (exec (fuel + 1) s t th (.end_ ev))
      (Inv [] W (some t) (exec (fuel + 1) s t th (.end_ ev)) ∧ G s (exec (fuel + 1) s t th (.end_ ev))) := by
  rw [exec_end]
  have i1 : Inv [] W none (endResult s th ev) := by
    unfold endResult
    simp only
    split
    · exact h
    · split <;> first | exact h.congr rfl rfl rfl rfl rfl rfl rfl rfl rfl | exact h
  have e1 : (endResult s th ev).threads = s.threads ∧ (endResult s th ev).nextTid = s.nextTid ∧
      (endResult s th ev).cur = s.cur ∧ (endResult s th ev).depth = s.depth := by
    unfold endResult
    simp only
    split
    · exact ⟨rfl, rfl, rfl, rfl⟩
    · split <;> exact ⟨rfl, rfl, rfl, rfl⟩
  have i2 : Inv [] W none ((endResult s th ev).setTh t fun th => { th with call := none }) :=
    i1.setTh_plain t _ (fun _ => rfl) (fun _ => rfl) (fun _ => rfl)
      (fun th0 h0 => by have r := i1.th t th0 h0; exact ⟨r.f1, r.f2, r.f3, r.f5⟩) (fun _ => Or.inl rfl)
  have g2 : G s ((endResult s th ev).setTh t fun th => { th with call := none }) := by
    have g := G0.setTh (endResult s th ev) t (fun th => { th with call := none }) (fun _ => rfl) (fun _ => rfl)
      (fun _ _ hi => hi)
    exact (g.congr (a' := s) e1.1.symm e1.2.1.symm e1.2.2.2.symm rfl rfl rfl).withCur (Or.inl e1.2.2.1)
  refine (ih.dt [] W _ t (i2.consW t)).map (fun p => ⟨p.toTop t, ?_⟩)
  exact G.trans h.n g2 ((qAll fuel).dt [] _ t i2.n).toG

theorem exec_inv_succ {fuel : Nat} (ih : IHx fuel) : IEx (exec (fuel + 1)) := by
  intro W s t th0 th ins h hth0 hvm0 hhv0 hp hok hcur
  have r : Running s t th0 := ⟨hth0, hvm0, hhv0⟩
  cases ins with
  | mark k => rw [exec_mark]; exact Ok.pure ⟨(h.emit _).toTop t, G.of_eq rfl rfl rfl rfl⟩
  | pparam i => rw [exec_pparam]; exact Ok.pure ⟨(h.emit _).toTop t, G.of_eq rfl rfl rfl rfl⟩
  | wait ms => exact exec_wait_inv h r ms
  | waittill o names => exact exec_waittill_inv h r hcur o names
  | waittillTimeout o n ms => exact exec_waittillTimeout_inv h r hcur o n ms
  | notify o n =>
    rw [exec_notify]
    split
    · exact Ok.pure ⟨h.toTop t, G.refl s⟩
    · exact (ih.ur [] W s o n h (Or.inl rfl)).map (fun p => ⟨p.1.toTop t, p.2⟩)
  | endon o n =>
    rw [exec_endon]
    split
    · exact Ok.pure ⟨h.toTop t, G.refl s⟩
    · rename_i hoa
      have ho' : o < 100 := objAlive_lt h.n (by simpa using hoa)
      split
      · exact Ok.pure ⟨h.toTop t, G.refl s⟩
      · refine Ok.pure ⟨(h.setEndOn _ ?_).toTop t, G.of_eq rfl rfl rfl rfl⟩
        intro o' ho2
        rcases Tbl.hasOwner_pushUnique ho2 with h1 | h1
        · exact Or.inl h1
        · right; rw [h1]; exact ho'
  | delete o => exact exec_delete_inv ih h o
  | thread l => exact exec_thread_inv ih h r l
  | waitthread l => exact exec_waitthread_inv ih h r hcur l
  | pause => exact exec_pause_inv h r
  | waitParent ms => exact exec_waitParent_inv ih h ms
  | waittillParent names => exact exec_waittillParent_inv h r hcur names hok
  | notifyParent n =>
    rw [exec_notifyParent]
    split
    · exact Ok.pure ⟨h.toTop t, G.refl s⟩
    · exact (ih.ur [] W s _ n h (Or.inl rfl)).map (fun p => ⟨p.1.toTop t, p.2⟩)
  | end_ ev => exact exec_end_inv ih h ev
  | spawn o =>
    rw [exec_spawn]
    split
    · exact Ok.pure ⟨h.toTop t, G.refl s⟩
    · exact Ok.pure ⟨(h.addObj o hok).toTop t, G.of_eq rfl rfl rfl rfl⟩

end Morfuse.Sched
