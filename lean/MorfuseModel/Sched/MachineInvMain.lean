import MorfuseModel.Sched.MachineInvInstr
import MorfuseModel.Sched.TimerLemmas
/-!
# `Inv` through `Process`, `ScriptVM::Execute`, the timer loop, `ScriptExecuteInternal`; the induction
over the whole mutual block; the host operations
-/
namespace Morfuse.Sched
open State

theorem G0.remove (s : State) (t : Nat) :
    G0 s { s with threads := s.threads.filter (fun e => !(e.1 == t)) } := by
  refine ⟨Nat.le_refl _, rfl, ?_, ?_, ?_⟩
  · intro u th' _ hu
    simp only at hu
    rw [thFind_filter_ne] at hu
    split at hu
    · simp at hu
    · exact ⟨th', hu, id⟩
  · intro u th hu hv
    simp only
    rw [thFind_filter_ne]
    split
    · exact Or.inl rfl
    · exact Or.inr ⟨th, hu, Or.inl hv⟩
  · intro u th hu hv
    simp only
    rw [thFind_filter_ne]
    split
    · exact Or.inl rfl
    · exact Or.inr ⟨th, hu, hv⟩

/-! ### `Process` -/

theorem process_inv_succ {fuel : Nat} (hex : IEx (exec fuel)) (hpr : IPr (process fuel)) :
    IPr (process (fuel + 1)) := by
  intro W s t h hcur hvmhv
  rw [process_succ]
  cases hf : s.th? t with
  | none =>
    rw [State.th?_eq] at hf
    exact Ok.pure ⟨h, G.refl s, fun th' h' => by rw [hf] at h'; cases h'⟩
  | some th =>
    rw [State.th?_eq] at hf
    simp only
    split
    · rename_i hv
      refine Ok.pure ⟨h, G.refl s, fun th' h' => ?_⟩
      rw [hf] at h'; cases h'
      simpa using hv
    · rename_i hv
      have hvm : th.vm = .running := by simpa using hv
      have hhv := hvmhv th hf hvm
      have hts : th.ts = .running := (h.th t th hf).f3 hvm
      have i0 : Inv [] W none s :=
        h.dropTop (fun th1 h1 hw => by rw [hf] at h1; cases h1; rw [hts] at hw; cases hw)
      have i1 : Inv [] W none (s.setTh t fun th => { th with pc := th.pc + 1 }) :=
        i0.setTh_plain t _ (fun _ => rfl) (fun _ => rfl) (fun _ => rfl)
          (fun th0 h0 => by have r := i0.th t th0 h0; exact ⟨r.f1, r.f2, r.f3, r.f5⟩) (fun _ => Or.inl rfl)
      have g1 : G s (s.setTh t fun th => { th with pc := th.pc + 1 }) :=
        (G0.setTh s t (fun th => { th with pc := th.pc + 1 }) (fun _ => rfl) (fun _ => rfl) (fun _ _ hi => hi)).withCur (Or.inl rfl)
      have hfind1 : thFind (s.setTh t fun th => { th with pc := th.pc + 1 }).threads t =
          some { th with pc := th.pc + 1 } := by
        rw [State.setTh_threads, thFind_map_upd]; simp [hf]
      have P := presAll fuel
      refine (hex W _ t _ th _ i1 hfind1 hvm hhv (h.n.parent t th hf) (h.n.prog.fetch _ _) hcur).bind
        (P.pr _ _) (fun p => ?_)
      have hcur1 : (exec fuel (s.setTh t fun th => { th with pc := th.pc + 1 }) t th
          ((s.prog.getD th.label []).getD th.pc (.end_ .none))).cur = some t ∨
          (exec fuel (s.setTh t fun th => { th with pc := th.pc + 1 }) t th
          ((s.prog.getD th.label []).getD th.pc (.end_ .none))).cur = none := by
        rcases p.2.cur with e | e
        · rw [e]; exact hcur
        · exact Or.inr e
      refine (hpr W _ t p.1 hcur1 ?_).map (fun q => ⟨q.1, G.trans h.n g1 (G.trans i1.n p.2 q.2.1), q.2.2⟩)
      intro th' hth' hvm'
      rcases p.2.lost t _ hfind1 hhv with e | ⟨th2, e, e2⟩
      · rw [e] at hth'; cases hth'
      · rw [hth'] at e; cases e
        rcases e2 with e2 | e2
        · exact e2
        · have := ((p.1.th t th' hth').f2 e2).2
          rw [hvm'] at this; cases this

/-! ### `ScriptVM::Execute` -/

theorem vmEpilogue_none {X : State} {t : Nat} (h : thFind X.threads t = none) : vmEpilogue X t = X := by
  unfold vmEpilogue; rw [State.th?_eq, h]

theorem vmEpilogue_some {X : State} {t : Nat} {th : Th} (h : thFind X.threads t = some th) :
    vmEpilogue X t =
      match th.vm with
      | .suspended => X.setTh t (fun th => { th with vm := .idling })
      | .destroyed => { X with threads := X.threads.filter (fun e => !(e.1 == t)) }
      | _ => X := by
  unfold vmEpilogue; rw [State.th?_eq, h]; rfl

theorem vmEpilogue_inv {W : List Nat} {X : State} {t : Nat} (i2 : Inv [] W (some t) X)
    (hne : ∀ th1, thFind X.threads t = some th1 → th1.vm ≠ .running)
    (hdead : ∀ th1, thFind X.threads t = some th1 → th1.vm = .destroyed → th1.dead = true) :
    Inv [] W none (vmEpilogue X t) ∧ G0 X (vmEpilogue X t) ∧
      (∀ th3, thFind (vmEpilogue X t).threads t = some th3 → th3.vm = .idling) ∧
      (vmEpilogue X t).cur = X.cur ∧ (vmEpilogue X t).depth = X.depth := by
  cases hf : thFind X.threads t with
  | none =>
    rw [vmEpilogue_none hf]
    exact ⟨i2.dropTop (fun th1 h1 => by rw [hf] at h1; cases h1), G0.of_eq rfl rfl rfl,
      fun th3 h3 => (by rw [hf] at h3; cases h3), rfl, rfl⟩
  | some th1 =>
    have r1 := i2.th t th1 hf
    rw [vmEpilogue_some hf]
    cases hv1 : th1.vm with
    | running => exact absurd hv1 (hne th1 hf)
    | idling =>
      dsimp only
      exact ⟨i2.dropTop (fun th2 h2 _ hv2 => by rw [hf] at h2; cases h2; exact absurd hv1 hv2),
        G0.of_eq rfl rfl rfl, fun th3 h3 => (by rw [hf] at h3; cases h3; exact hv1), rfl, rfl⟩
    | suspended =>
      dsimp only
      refine ⟨?_, ?_, ?_, rfl, rfl⟩
      · have := i2.setTh (C' := []) (W' := W) (top' := none) t (fun th => { th with vm := .idling }) th1 X.timer hf
          (fun _ => rfl)
          ⟨r1.f1, fun hdd => (by have := (r1.f2 hdd).2; rw [hv1] at this; cases this), fun hv => (by cases hv),
            fun hv => (by cases hv)⟩
          (fun _ => rfl) (i2.tim.setTh_same t _ (fun _ => rfl)) (fun x m _ => m) (fun x m _ => m)
          (Or.inr (Or.inr rfl))
          (fun ho => by
            rcases i2.lnk.linkC t ho with m | ⟨th0, h0, hw0⟩
            · exact Or.inl m
            · rw [hf] at h0; cases h0; exact Or.inr hw0)
          (fun hw0 => i2.lnk.linkW t th1 hf hw0)
          (fun _ hv0 => absurd rfl hv0)
        exact this
      · exact G0.setTh X t (fun th => { th with vm := .idling }) (fun _ => rfl) (fun _ => rfl)
          (fun _ _ _ => Or.inl rfl)
      · intro th3 h3
        rw [State.setTh_threads, thFind_map_upd] at h3
        simp [hf] at h3
        rw [← h3]
    | destroyed =>
      dsimp only
      have hnv : th1.hasVM = false := r1.f5 hv1
      have hdd : th1.dead = true := hdead th1 hf hv1
      have hnot : aliveTh X.threads t = false := by
        rw [Bool.eq_false_iff]
        intro ha
        obtain ⟨th2, h2, hd2⟩ := (aliveTh_iff i2.n.nodup t).1 ha
        rw [hf] at h2; cases h2; rw [hdd] at hd2; cases hd2
      have ht100 : 100 ≤ t := (i2.n.range t th1 hf).1
      have hnm : ∀ o n x, x ∈ Tbl.getD X.notify (o, n) → o ≠ t ∧ x ≠ t := by
        intro o n x hx
        obtain ⟨a1, a2⟩ := i2.tab.aN o n x hx
        constructor
        · intro e; subst e
          rw [State.alive_thread _ (by simpa [State.isThread] using ht100), hnot] at a1; cases a1
        · intro e; subst e; rw [hnot] at a2; cases a2
      have i3 := i2.remove t th1 hf hnv hnm
      refine ⟨i3.dropTop (fun th2 h2 => ?_), G0.remove X t, fun th3 h3 => ?_, rfl, rfl⟩
      · rw [thFind_filter_ne] at h2; simp at h2
      · rw [thFind_filter_ne] at h3; simp at h3

theorem execVM_inv_succ {fuel : Nat} (hpr : IPr (process fuel)) : IEv (execVM (fuel + 1)) := by
  intro W s t th h hth hhv hts hcur
  rw [execVM_succ]
  have r := h.th t th hth
  have hd : th.dead = false := by
    cases hdd : th.dead with
    | false => rfl
    | true => have := (r.f2 hdd).1; rw [hhv] at this; cases this
  -- prologue
  have i0' : Inv [] W none { (s.setTh t fun th => { th with vm := .running }) with timer := s.timer } :=
    h.setTh (C' := []) (W' := W) (top' := none) t (fun th => { th with vm := .running }) th s.timer hth
      (fun _ => rfl)
      ⟨fun hv => (by simp only at hv; rw [hhv] at hv; cases hv), fun hdd => (by simp only at hdd; rw [hd] at hdd; cases hdd),
        fun _ => hts, fun hv => (by cases hv)⟩
      (fun _ => rfl) (h.tim.setTh_same t _ (fun _ => rfl)) (fun x m _ => m) (fun x m _ => m) (Or.inl rfl)
      (fun ho => by
        rcases h.lnk.linkC t ho with m | ⟨th0, h0, hw0⟩
        · exact Or.inl m
        · rw [hth] at h0; cases h0; rw [hts] at hw0; cases hw0)
      (fun hw0 => by simp only at hw0; rw [hts] at hw0; cases hw0)
      (fun hw0 => by simp only at hw0; rw [hts] at hw0; cases hw0)
  have i0 : Inv [] W none (vmPrologue s t) := i0'.congr rfl rfl rfl rfl rfl rfl rfl rfl rfl
  have hthr0 : (vmPrologue s t).threads = s.threads.map (thUpd t fun th => { th with vm := .running }) := rfl
  have hfind0 : thFind (vmPrologue s t).threads t = some { th with vm := .running } := by
    rw [hthr0, thFind_map_upd]; simp [hth]
  refine (hpr W _ t (i0.toTop t) hcur (fun th' h' _ => by rw [hfind0] at h'; cases h'; exact hhv)).bind
    ((Pres.of_eq rfl rfl rfl : Pres (process fuel (vmPrologue s t) t)
      { (process fuel (vmPrologue s t) t) with depth := (process fuel (vmPrologue s t) t).depth - 1 }).trans
      (vmEpilogue_pres _ _)) (fun p => ?_)
  obtain ⟨p1, p2, p3⟩ := p
  have i2 : Inv [] W (some t) { (process fuel (vmPrologue s t) t) with
      depth := (process fuel (vmPrologue s t) t).depth - 1 } := p1.congr rfl rfl rfl rfl rfl rfl rfl rfl rfl
  have hepi := vmEpilogue_inv i2 (fun th1 h1 => p3 th1 h1) (fun th1 h1 hv1 => by
    have hnv : th1.hasVM = false := (p1.th t th1 h1).f5 hv1
    rcases p2.lost t _ hfind0 hhv with e | ⟨th2, e, e2⟩
    · rw [h1] at e; cases e
    · rw [h1] at e; cases e
      rcases e2 with e2 | e2
      · rw [hnv] at e2; cases e2
      · exact e2)
  obtain ⟨e1, e2, e3, e4, e5⟩ := hepi
  refine Ok.pure ⟨e1, ?_⟩
  -- history relation from the state with the VM marked running (same depth as `s`)
  have hdep : ({ (process fuel (vmPrologue s t) t) with
      depth := (process fuel (vmPrologue s t) t).depth - 1 } : State).depth = s.depth := by
    show (process fuel (vmPrologue s t) t).depth - 1 = s.depth
    rw [p2.depth]; show s.depth + 1 - 1 = s.depth; omega
  have nA : NInv (s.setTh t fun th => { th with vm := .running }) := h.n.setTh t _
  have gA2 : G0 (s.setTh t fun th => { th with vm := .running })
      { (process fuel (vmPrologue s t) t) with depth := (process fuel (vmPrologue s t) t).depth - 1 } :=
    p2.g0.congr' rfl rfl rfl rfl hdep
  have g02 := G0.trans nA gA2 e2
  have hfind : ∀ u, u ≠ t → thFind (s.setTh t fun th => { th with vm := .running }).threads u = thFind s.threads u := by
    intro u hu
    rw [State.setTh_threads, thFind_map_upd]; simp [hu]
  have hfindA : thFind (s.setTh t fun th => { th with vm := .running }).threads t = some { th with vm := .running } := hfind0
  refine ⟨g02.tid, ?_, ?_, ?_, ?_, ?_⟩
  · rw [e4]
    rcases p2.cur with e | e
    · exact Or.inl e
    · exact Or.inr e
  · rw [e5]; exact hdep
  · intro u th' hu hf'
    obtain ⟨th0, h0, m0⟩ := g02.mono u th' hu hf'
    by_cases hut : u = t
    · subst hut
      rw [hfindA] at h0; cases h0
      exact ⟨th, hth, m0⟩
    · rw [hfind u hut] at h0
      exact ⟨th0, h0, m0⟩
  · intro u thu hu hvu
    by_cases hut : u = t
    · subst hut
      rw [hth] at hu; cases hu
      exact g02.lost u _ hfindA hvu
    · exact g02.lost u thu (by rw [hfind u hut]; exact hu) hvu
  · intro u thu hu hiu
    by_cases hut : u = t
    · subst hut
      cases hf3 : thFind (vmEpilogue { (process fuel (vmPrologue s u) u) with
          depth := (process fuel (vmPrologue s u) u).depth - 1 } u).threads u with
      | none => exact Or.inl rfl
      | some th3 => exact Or.inr ⟨th3, rfl, Or.inl (e3 th3 hf3)⟩
    · exact g02.idle u thu (by rw [hfind u hut]; exact hu) hiu

end Morfuse.Sched
