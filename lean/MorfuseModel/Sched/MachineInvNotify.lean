import MorfuseModel.Sched.MachineInvCascade
/-!
# `Inv` through `StoppedWaitFor`, `Unregister(name)` (= script `notify`) and `UnregisterAll`
-/
namespace Morfuse.Sched
open State

/-! ### completeness of the stopped lists -/

theorem uaTargets_complete_aux (s : State) (src : Nat) :
    ∀ (keys : List (Nat × List Nat)) (T : Tbl) (st' : List (Nat × Nat)), (keys.map (·.1)).Nodup →
      (∀ p ∈ st', p ∈ (keys.foldl (fun (acc : State × List (Nat × Nat)) e =>
        ((unregisterTargets acc.1 src e.1 e.2).1,
          acc.2 ++ (unregisterTargets acc.1 src e.1 e.2).2.map (fun l => (l, e.1))))
        (({ s with waitFor := T } : State), st')).2) ∧
      ∀ e ∈ keys, ∀ l ∈ e.2, s.alive l = true → src ∈ Tbl.getD T (l, e.1) →
        (l, e.1) ∈ (keys.foldl (fun (acc : State × List (Nat × Nat)) e =>
          ((unregisterTargets acc.1 src e.1 e.2).1,
            acc.2 ++ (unregisterTargets acc.1 src e.1 e.2).2.map (fun l => (l, e.1))))
          (({ s with waitFor := T } : State), st')).2
  | [], T, st', _ => ⟨fun p hp => hp, fun e he => by simp at he⟩
  | e0 :: keys, T, st', hn => by
    simp only [List.foldl_cons]
    rw [unregisterTargets_eq_purge]
    simp only [List.map_cons, List.nodup_cons] at hn
    have ih := uaTargets_complete_aux s src keys
      (Tbl.purge s.alive T src e0.1 e0.2 []).1
      (st' ++ (Tbl.purge s.alive T src e0.1 e0.2 []).2.map (fun l => (l, e0.1))) hn.2
    refine ⟨fun p hp => ih.1 p (List.mem_append_left _ hp), ?_⟩
    intro e he l hl ha hx
    rcases List.mem_cons.1 he with he | he
    · subst he
      apply ih.1
      apply List.mem_append_right
      exact List.mem_map.2 ⟨l, Tbl.purge_complete s.alive T src e.1 e.2 [] l hl ha hx, rfl⟩
    · apply ih.2 e he l hl ha
      rw [Tbl.purge_getD]
      have hne : ¬ e.1 = e0.1 := by
        intro h; apply hn.1; rw [← h]; exact List.mem_map.2 ⟨e, he, rfl⟩
      have : ¬ (e.1 = e0.1 ∧ l ∈ e0.2 ∧ s.alive l = true) := fun h => hne h.1
      simp only [this, if_false]; exact hx

theorem uaTargets_complete (s : State) (src : Nat) (hw : Tbl.WF s.notify) (n l : Nat)
    (hl : l ∈ Tbl.getD s.notify (src, n)) (ha : s.alive l = true) (hx : src ∈ Tbl.getD s.waitFor (l, n)) :
    (l, n) ∈ (uaTargets s src).2 := by
  have h := (uaTargets_complete_aux s src (Tbl.keysOf s.notify src) s.waitFor [] (Tbl.keysOf_names_nodup hw src)).2
    (n, Tbl.getD s.notify (src, n)) ((hw.mem_keysOf_iff src n _).2 ⟨rfl, List.ne_nil_of_mem hl⟩) l hl ha hx
  exact h

/-! ### `StoppedWaitFor` -/

def ISei (f : State → Nat → State) : Prop :=
  ∀ W s t th, Inv [] (t :: W) none s → thFind s.threads t = some th → th.hasVM = true →
    Ok (f s t) (Inv [] W none (f s t) ∧ G s (f s t))

theorem not_alive_running {C W : List Nat} {top : Option Nat} {s : State} (h : Inv C W top s) {t : Nat}
    (ht : 100 ≤ t) (ha : s.alive t = false) : ∀ th, thFind s.threads t = some th → th.ts = .running := by
  intro th hth
  rw [State.alive_thread _ (by simpa [State.isThread] using ht)] at ha
  cases hd : th.dead with
  | true =>
    have r := h.th t th hth
    exact r.f1 (r.f2 hd).1
  | false =>
    have := (aliveTh_iff h.n.nodup t).2 ⟨th, hth, hd⟩
    rw [ha] at this; cases this

theorem startTiming_inv {fuel : Nat} (hstp : IStp (stop fuel)) {C W : List Nat} {s : State} {t : Nat} {th : Th}
    (h : Inv C (t :: W) none s) (hth : thFind s.threads t = some th) (hvm : th.hasVM = true)
    (hw : th.ts = .waiting) :
    Ok (startTiming (stop fuel) s t) (Inv C W none (startTiming (stop fuel) s t)) := by
  unfold startTiming
  have q := (qAll fuel).stp [] s t h.n
  refine (hstp C W s t h).bind ?_ (fun p => ?_)
  · split
    · exact Pres.refl _
    · exact (Pres.setTh _ _ _).trans (addTiming_pres _ _ _)
  split
  · exact Ok.pure p.1
  · rename_i hal
    have hal' : (stop fuel s t).alive t = true := by simpa using hal
    have ht : 100 ≤ t := (h.n.range t th hth).1
    rw [State.alive_thread _ (by simpa [State.isThread] using ht)] at hal'
    obtain ⟨th1, hth1, hd1⟩ := (aliveTh_iff p.1.n.nodup t).1 hal'
    have hrun : th1.ts = .running := p.2 th1 hth1
    have hvm1 : th1.hasVM = true := by
      rcases q.lost t th hth hvm with e | ⟨th', e, e2⟩
      · rw [e] at hth1; cases hth1
      · rw [hth1] at e; cases e
        rcases e2 with e2 | e2 | e2
        · exact e2
        · rw [hd1] at e2; cases e2
        · cases e2
    have hvmne : th1.vm ≠ .running := by
      obtain ⟨th0, h0, qt⟩ := q.th t th1 hth1
      rw [hth] at h0; cases h0
      have hne : th.vm ≠ .running := by
        intro e; have := (h.th t th hth).f3 e; rw [hw] at this; cases this
      rcases qt.vm with e | e
      · rw [e]; exact hne
      · rw [e]; simp
    have r1 := p.1.th t th1 hth1
    apply Ok.pure
    have := p.1.setTh (C' := C) (W' := W) (top' := none) t (fun th => { th with ts := .timing }) th1
      ((stop fuel s t).timer.add t ((stop fuel s t).scaled + 0)) hth1 (fun _ => rfl)
      ⟨fun hv => (by rw [hvm1] at hv; cases hv), fun hd => (by rw [hd1] at hd; cases hd),
        fun hr => absurd hr hvmne, r1.f5⟩ (fun _ => rfl)
      (p.1.tim.start t _ th1 hth1 (by rw [hrun]; simp)) (fun x m _ => m) (fun x m _ => m) (Or.inl rfl)
      (fun ho => by
        rcases p.1.lnk.linkC t ho with m | ⟨th0, h0, hw0⟩
        · exact Or.inl m
        · rw [hth1] at h0; cases h0; rw [hrun] at hw0; cases hw0)
      (fun hw0 => by cases hw0) (fun hw0 => by cases hw0)
    exact this

theorem stoppedWaitFor_inv_succ {fuel : Nat} (hdt : IDt (deleteThread fuel)) (hstp : IStp (stop fuel))
    (hsei : ISei (scriptExecuteInternal fuel)) : ISwf (stoppedWaitFor (fuel + 1)) := by
  intro C W s t name d h hside
  rw [stoppedWaitFor_succ]
  split
  · rename_i hnt
    have hlt : t < 100 := by
      have : State.isThread t = false := by simpa using hnt
      simpa [State.isThread] using this
    refine Ok.pure ⟨h.dropW (fun th0 h0 => ?_), G.refl s⟩
    have := (h.n.range t th0 h0).1; omega
  · rename_i hthr
    have ht : 100 ≤ t := by
      have : State.isThread t = true := by simpa using hthr
      simpa [State.isThread] using this
    cases hf : s.th? t with
    | none =>
      rw [State.th?_eq] at hf
      exact Ok.pure ⟨h.dropW (fun th0 h0 => by rw [hf] at h0; cases h0), G.refl s⟩
    | some th =>
      rw [State.th?_eq] at hf
      have hrec := h.th t th hf
      simp only
      split
      · rename_i hv
        have hv' : th.hasVM = false := by simpa using hv
        refine Ok.pure ⟨h.dropW (fun th0 h0 => ?_), G.refl s⟩
        rw [hf] at h0; cases h0; rw [hrec.f1 hv']; simp
      · rename_i hv
        have hvm : th.hasVM = true := by simpa using hv
        split
        · exact (hdt C W s t h).map (fun p => ⟨p, ((qAll fuel).dt [] s t h.n).toG⟩)
        · rename_i hd
          have hd' : d = false := by simpa using hd
          split
          · rename_i hw
            have hw' : th.ts = .waiting := by simpa using hw
            split
            · rename_i hname
              have hname' : name ≠ 0 := by simpa using hname
              obtain ⟨hC, hidle⟩ := hside hname' hd'
              subst hC
              have hvi := hidle th hf hw'
              simp only [hvi, beq_self_eq_true, if_true]
              have i1 : Inv [] (t :: W) none (cancelEvents s t) := cancelEvents_inv h t
              refine (hsei W _ t th i1 hf hvm).map (fun p => ⟨p.1, ?_⟩)
              exact G.trans h.n (G.of_eq (s' := cancelEvents s t) rfl rfl rfl rfl) p.2
            · rename_i hname
              have hname' : name = 0 := by simpa using hname
              have i1 : Inv C (t :: W) none (cancelEvents s t) := cancelEvents_inv h t
              refine (startTiming_inv hstp i1 hf hvm hw').map (fun p => ⟨p, ?_⟩)
              refine Q.toG ((cancelEvents_q [] s t).trans (startTiming_q (qAll fuel).stp [] i1.n t ?_))
              intro th0 h0
              have : thFind (cancelEvents s t).threads t = thFind s.threads t := rfl
              rw [this, hf] at h0; cases h0; exact hw'
          · rename_i hw
            have hw' : th.ts ≠ .waiting := by simpa using hw
            refine Ok.pure ⟨(cancelEvents_inv h t).dropW (fun th0 h0 => ?_), G.of_eq rfl rfl rfl rfl⟩
            have : thFind (cancelEvents s t).threads t = thFind s.threads t := rfl
            rw [this, hf] at h0; cases h0; exact hw'

/-! ### the wake / kill loops -/

/-- an old thread whose VM is idle (or destroyed) -/
def IdleP (s : State) (l : Nat) : Prop :=
  l < s.nextTid ∧ ∀ th, thFind s.threads l = some th → th.vm = .idling ∨ th.vm = .destroyed

theorem IdleP.of_g {a b : State} {l : Nat} (g : G a b) (h : IdleP a l) : IdleP b l := by
  refine ⟨Nat.lt_of_lt_of_le h.1 g.tid, ?_⟩
  intro th' hf
  obtain ⟨th, h1, _⟩ := g.mono l th' h.1 hf
  rcases g.idle l th h1 (h.2 th h1) with e | ⟨th2, e, e2⟩
  · rw [e] at hf; cases hf
  · rw [hf] at e; cases e; exact e2

theorem Inv.dropW_not_alive {C W : List Nat} {top : Option Nat} {s : State} {l : Nat} (h : Inv C (l :: W) top s)
    (ha : ¬ s.alive l = true) : Inv C W top s := by
  apply h.dropW
  intro th hth
  have hl : 100 ≤ l := (h.n.range l th hth).1
  rw [not_alive_running h hl (by simpa using ha) th hth]; simp

theorem wakeFold_inv {swf : State → Nat → Nat → Bool → State} (hp : Pres3 swf) (hswf : ISwf swf)
    (C W : List Nat) (name : Nat) :
    ∀ (L : List Nat) (s : State), Inv C (L ++ W) none s → (name ≠ 0 → C = [] ∧ ∀ l ∈ L, IdleP s l) →
      Ok (L.foldl (fun s l => if s.alive l then swf s l name false else s) s)
        (Inv C W none (L.foldl (fun s l => if s.alive l then swf s l name false else s) s) ∧
          G s (L.foldl (fun s l => if s.alive l then swf s l name false else s) s))
  | [], s, h, _ => Ok.pure ⟨h, G.refl s⟩
  | l :: L, s, h, hside => by
    simp only [List.foldl_cons]
    have hrest : ∀ s1 : State, Pres s1 (L.foldl (fun s l => if s.alive l then swf s l name false else s) s1) :=
      fun s1 => Pres.foldl _ (fun s a => by split; exact hp _ _ _ _; exact Pres.refl s) L s1
    by_cases ha : s.alive l = true
    · simp only [ha, if_true]
      have hpre : name ≠ 0 → false = false → C = [] ∧ ∀ th, thFind s.threads l = some th → th.ts = .waiting → th.vm = .idling := by
        intro hn _
        obtain ⟨hC, hI⟩ := hside hn
        refine ⟨hC, ?_⟩
        intro th hth hw
        rcases (hI l List.mem_cons_self).2 th hth with e | e
        · exact e
        · have r := h.th l th hth
          have := r.f1 (r.f5 e); rw [hw] at this; cases this
      refine (hswf C (L ++ W) s l name false h hpre).bind (hrest _) (fun p => ?_)
      refine (wakeFold_inv hp hswf C W name L _ p.1 (fun hn => ?_)).map (fun p2 => ⟨p2.1, G.trans h.n p.2 p2.2⟩)
      obtain ⟨hC, hI⟩ := hside hn
      exact ⟨hC, fun l' hl' => (hI l' (List.mem_cons_of_mem _ hl')).of_g p.2⟩
    · simp only [ha]
      exact wakeFold_inv hp hswf C W name L s (h.dropW_not_alive ha)
        (fun hn => ⟨(hside hn).1, fun l' hl' => (hside hn).2 l' (List.mem_cons_of_mem _ hl')⟩)

theorem killFold_inv {swf : State → Nat → Nat → Bool → State} (hp : Pres3 swf) (hswf : ISwf swf)
    (C W : List Nat) :
    ∀ (L : List (Nat × Nat)) (s : State), Inv C (L.map (·.1) ++ W) none s →
      Ok (L.foldl (fun s (ln : Nat × Nat) => if s.alive ln.1 then swf s ln.1 ln.2 true else s) s)
        (Inv C W none (L.foldl (fun s (ln : Nat × Nat) => if s.alive ln.1 then swf s ln.1 ln.2 true else s) s))
  | [], _, h => Ok.pure h
  | ln :: L, s, h => by
    simp only [List.foldl_cons]
    have hrest : ∀ s1 : State, Pres s1 (L.foldl (fun s (ln : Nat × Nat) => if s.alive ln.1 then swf s ln.1 ln.2 true else s) s1) :=
      fun s1 => Pres.foldl _ (fun s a => by split; exact hp _ _ _ _; exact Pres.refl s) L s1
    by_cases ha : s.alive ln.1 = true
    · simp only [ha, if_true]
      refine (hswf C (L.map (·.1) ++ W) s ln.1 ln.2 true h (fun _ hd => by cases hd)).bind (hrest _) (fun p => ?_)
      exact killFold_inv hp hswf C W L _ p.1
    · simp only [ha]
      exact killFold_inv hp hswf C W L s (h.dropW_not_alive ha)

/-! ### the `endon` part of `Unregister` -/

def endOnStep (dt : State → Nat → State) (src name : Nat) (acc : State × Bool) (l : Nat) : State × Bool :=
  if acc.1.alive l then
    if l == src && (name == nameRemove || name == nameDelete || acc.2) then acc
    else (dt acc.1 l, acc.2 || (l == src))
  else acc

theorem endOnLoop_eq (dt : State → Nat → State) (s : State) (src name : Nat) (listeners : List Nat) :
    endOnLoop dt s src name listeners = listeners.reverse.foldl (endOnStep dt src name) (s, false) := rfl

theorem endOnFold_pres {dt : State → Nat → State} (hp : Pres1 dt) (src name : Nat) :
    ∀ (L : List Nat) (acc : State × Bool), Pres acc.1 (L.foldl (endOnStep dt src name) acc).1
  | [], acc => Pres.refl _
  | l :: L, acc => by
    simp only [List.foldl_cons]
    refine Pres.trans ?_ (endOnFold_pres hp src name L _)
    unfold endOnStep
    split
    · split
      · exact Pres.refl _
      · exact hp _ _
    · exact Pres.refl _

theorem endOnStep_inv {dt : State → Nat → State} (hdt : IDt dt) (C W : List Nat) (src name : Nat)
    (acc : State × Bool) (l : Nat) (h : Inv C W none acc.1) :
    Ok (endOnStep dt src name acc l).1 (Inv C W none (endOnStep dt src name acc l).1) := by
  unfold endOnStep
  split
  · split
    · exact Ok.pure h
    · exact hdt C W acc.1 l (h.consW l)
  · exact Ok.pure h

theorem endOnFold_inv {dt : State → Nat → State} (hp : Pres1 dt) (hdt : IDt dt) (C W : List Nat) (src name : Nat) :
    ∀ (L : List Nat) (acc : State × Bool), Inv C W none acc.1 →
      Ok (L.foldl (endOnStep dt src name) acc).1 (Inv C W none (L.foldl (endOnStep dt src name) acc).1)
  | [], _, h => Ok.pure h
  | l :: L, acc, h => by
    simp only [List.foldl_cons]
    exact (endOnStep_inv hdt C W src name acc l h).bind (endOnFold_pres hp src name L _)
      (fun p => endOnFold_inv hp hdt C W src name L _ p)

theorem Inv.setEndOn {C W : List Nat} {top : Option Nat} {s : State} (h : Inv C W top s) (T : Tbl)
    (hs : ∀ o, Tbl.hasOwner T o = true → Tbl.hasOwner s.endOn o = true ∨ o < 100) :
    Inv C W top { s with endOn := T } :=
  ⟨h.n.setEndOn T hs, h.th, h.tim, ⟨h.tab.mir, fun o n x hx => h.tab.aN o n x hx⟩,
    ⟨h.lnk.linkC, h.lnk.linkW, h.lnk.f4⟩⟩

theorem unregEndOn_inv {dt : State → Nat → State} (hp : Pres1 dt) (hdt : IDt dt) {C W : List Nat} {s : State}
    (h : Inv C W none s) (src name : Nat) :
    Ok (unregEndOn dt s src name).1 (Inv C W none (unregEndOn dt s src name).1) := by
  unfold unregEndOn
  split
  · exact Ok.pure h
  · split
    · exact Ok.pure h
    · rw [endOnLoop_eq]
      exact endOnFold_inv hp hdt C W src name _ _
        (h.setEndOn _ (fun o ho => Or.inl (Tbl.hasOwner_removeKey ho)))

/-! ### the notify part of `Unregister(name)` -/

/-- a listener that owned an entry before a purge and owns none afterwards was reported as stopped -/
theorem lost_owner_stopped {T : Tbl} (hT : Tbl.WF T) (al : Nat → Bool) (src name : Nat) (list st : List Nat)
    {x : Nat} (ho : Tbl.hasOwner T x = true)
    (hno : ¬ Tbl.hasOwner (Tbl.purge al T src name list st).1 x = true) :
    x ∈ (Tbl.purge al T src name list st).2 := by
  have hT' := Tbl.purge_WF al hT src name list st
  obtain ⟨n0, hn0⟩ := (hT.hasOwner_iff x).1 ho
  have hall : ∀ n, Tbl.getD (Tbl.purge al T src name list st).1 (x, n) = [] := by
    have : Tbl.hasOwner (Tbl.purge al T src name list st).1 x = false := by simpa using hno
    exact (hT'.hasOwner_false_iff x).1 this
  have h0 := hall n0
  rw [Tbl.purge_getD] at h0
  split at h0
  · rename_i hc
    obtain ⟨hc1, hc2, hc3⟩ := hc
    simp only at hc1 hc2 hc3
    subst hc1
    apply Tbl.purge_complete al T src n0 list st x hc2 hc3
    obtain ⟨y, hy⟩ := List.exists_mem_of_ne_nil _ hn0
    by_cases hys : y = src
    · rw [← hys]; exact hy
    · exfalso
      have : y ∈ (Tbl.getD T (x, n0)).filter (· != src) := List.mem_filter.2 ⟨hy, by simpa using hys⟩
      rw [h0] at this; simp at this
  · exact absurd h0 hn0

/-- the state of `Unregister(name)` after both tables are updated, before any listener is told: the
    invariant with the woken waiters exempt, and they are idle when the name is not 0 -/
theorem unregNotify_mid {C W : List Nat} {s : State} (h : Inv C W none s) (src name : Nat) (list : List Nat)
    (hf : Tbl.find s.notify (src, name) = some list) (hside : C = [] ∨ name = 0 ∨ QSrc src name) :
    Inv C ((Tbl.purge s.alive s.waitFor src name list []).2.reverse ++ W) none
        ({ ({ s with waitFor := (Tbl.purge s.alive s.waitFor src name list []).1 } : State) with
          notify := Tbl.removeKey s.notify (src, name) }) ∧
      (name ≠ 0 → C = [] ∧ ∀ l ∈ (Tbl.purge s.alive s.waitFor src name list []).2.reverse,
        IdleP ({ ({ s with waitFor := (Tbl.purge s.alive s.waitFor src name list []).1 } : State) with
          notify := Tbl.removeKey s.notify (src, name) }) l) := by
  have hg : Tbl.getD s.notify (src, name) = list := Tbl.find_eq_getD_of_some hf
  have hne : Tbl.getD s.notify (src, name) ≠ [] := by rw [hg]; exact h.n.wfN.find_ne_nil hf
  have hmir : TblMirror (Tbl.removeKey s.notify (src, name)) (Tbl.purge s.alive s.waitFor src name list []).1 := by
    have := h.tab.mir.purge_removeKey s.alive src name [] (fun l hl => h.waiters_alive src name l hl)
    rw [hg] at this; exact this
  have h1 : Inv C ((Tbl.purge s.alive s.waitFor src name list []).2.reverse ++ W) none
      ({ ({ s with waitFor := (Tbl.purge s.alive s.waitFor src name list []).1 } : State) with
        notify := Tbl.removeKey s.notify (src, name) }) := by
    apply h.setTables _ _ (h.n.wfN.removeKey _) (Tbl.purge_WF _ h.n.wfW _ _ _ _) (Tbl.Sub.removeKey _ _)
      (Tbl.Sub.purge _ _ _ _ _ _) hmir (fun x m => List.mem_append_right _ m)
    intro x th hx hw ho
    by_cases hno : Tbl.hasOwner (Tbl.purge s.alive s.waitFor src name list []).1 x = true
    · exact Or.inr hno
    · left
      apply List.mem_append_left
      rw [List.mem_reverse]
      exact lost_owner_stopped h.n.wfW s.alive src name list [] ho hno
  -- a waiter woken under a name other than 0 is idle
  have hidle : name ≠ 0 → C = [] ∧ ∀ l ∈ (Tbl.purge s.alive s.waitFor src name list []).2.reverse, IdleP s l := by
    intro hn
    have hC : C = [] := by
      rcases hside with e | e | e
      · exact e
      · exact absurd e hn
      · exfalso
        have hk := h.n.n1 src name e.1 hne
        rcases e.2 with e2 | e2
        · exact hk.1 e2
        · exact hk.2 e2
    refine ⟨hC, ?_⟩
    intro l hl
    rw [List.mem_reverse] at hl
    rcases Tbl.purge_stopped s.alive s.waitFor src name list [] l hl with e | ⟨_, _, e3⟩
    · simp at e
    · have hown : Tbl.hasOwner s.waitFor l = true :=
        (h.n.wfW.hasOwner_iff l).2 ⟨name, List.ne_nil_of_mem e3⟩
      rcases h.lnk.linkC l hown with m | ⟨th, hth, hw⟩
      · rw [hC] at m; simp at m
      · refine ⟨(h.n.range l th hth).2, ?_⟩
        intro th0 h0
        rw [hth] at h0; cases h0
        left
        cases hv : th.vm with
        | idling => rfl
        | _ =>
          exfalso
          rcases h.lnk.f4 l th hth hw (by rw [hv]; simp) with e | e
          · cases e
          · exact hn (e name (List.ne_nil_of_mem e3))
  have g1 : G s ({ ({ s with waitFor := (Tbl.purge s.alive s.waitFor src name list []).1 } : State) with
        notify := Tbl.removeKey s.notify (src, name) }) := G.of_eq rfl rfl rfl rfl
  have hidle1 : name ≠ 0 → C = [] ∧ ∀ l ∈ (Tbl.purge s.alive s.waitFor src name list []).2.reverse,
      IdleP ({ ({ s with waitFor := (Tbl.purge s.alive s.waitFor src name list []).1 } : State) with
        notify := Tbl.removeKey s.notify (src, name) }) l :=
    fun hn => ⟨(hidle hn).1, fun l hl => ((hidle hn).2 l hl).of_g g1⟩
  exact ⟨h1, hidle1⟩

theorem unregNotify_inv {fuel : Nat} (hswf : ISwf (stoppedWaitFor fuel)) (hsn : ISn (stoppedNotify fuel))
    {C W : List Nat} {s : State} (h : Inv C W none s) (src name : Nat) (hside : C = [] ∨ name = 0 ∨ QSrc src name) :
    Ok (unregNotify (stoppedWaitFor fuel) (stoppedNotify fuel) s src name)
      (Inv C W none (unregNotify (stoppedWaitFor fuel) (stoppedNotify fuel) s src name) ∧
        G s (unregNotify (stoppedWaitFor fuel) (stoppedNotify fuel) s src name)) := by
  unfold unregNotify
  split
  · exact Ok.pure ⟨h, G.refl s⟩
  · cases hf : Tbl.find s.notify (src, name) with
    | none => exact Ok.pure ⟨h, G.refl s⟩
    | some list =>
      simp only [unregisterTargets_eq_purge, wakeLoop]
      obtain ⟨h1, hidle1⟩ := unregNotify_mid h src name list hf hside
      have g1 : G s ({ ({ s with waitFor := (Tbl.purge s.alive s.waitFor src name list []).1 } : State) with
            notify := Tbl.removeKey s.notify (src, name) }) := G.of_eq rfl rfl rfl rfl
      have P := presAll fuel
      split
      · refine (hsn C _ _ src h1).bind ?_ (fun p2 => ?_)
        · exact Pres.foldl _ (fun s a => by split; exact P.swf _ _ _ _; exact Pres.refl s) _ _
        have g2 : G _ (stoppedNotify fuel _ src) := ((qAll fuel).sn [] _ src h1.n).toG
        refine (wakeFold_inv P.swf hswf C W name _ _ p2
          (fun hn => ⟨(hidle1 hn).1, fun l hl => ((hidle1 hn).2 l hl).of_g g2⟩)).map (fun p3 => ⟨p3.1, ?_⟩)
        exact G.trans h.n g1 (G.trans h1.n g2 p3.2)
      · refine (wakeFold_inv P.swf hswf C W name _ _ h1 hidle1).map (fun p3 => ⟨p3.1, ?_⟩)
        exact G.trans h.n g1 p3.2

theorem unregister_inv_succ {fuel : Nat} (hdt : IDt (deleteThread fuel)) (hswf : ISwf (stoppedWaitFor fuel))
    (hsn : ISn (stoppedNotify fuel)) : IUr (unregister (fuel + 1)) := by
  intro C W s src name h hside
  rw [unregister_succ]
  have P := presAll fuel
  have q1 := unregEndOn_q (nAll fuel).dt (qAll fuel).dt [] h.n src name
  split
  · exact (unregEndOn_inv P.dt hdt h src name).map (fun p => ⟨p, q1.toG⟩)
  · refine (unregEndOn_inv P.dt hdt h src name).bind (unregNotify_pres P.swf P.sn _ _ _) (fun p => ?_)
    exact (unregNotify_inv hswf hsn p src name hside).map (fun p2 => ⟨p2.1, G.trans h.n q1.toG p2.2⟩)

/-! ### `UnregisterAll` -/

/-- the state of `UnregisterAll` after both tables are updated, before any waiter is told: the invariant with the
    waiters to be destroyed exempt -/
theorem uaRest_mid {C W : List Nat} {s : State} (h : Inv C W none s) (src : Nat) :
    Inv C (((uaTargets s src).2.reverse).map (·.1) ++ W) none
      ({ ({ s with waitFor := (Tbl.multiPurge s.alive s.waitFor src (Tbl.keysOf s.notify src) []).1 } : State) with
        notify := Tbl.removeOwner s.notify src }) := by
  have hmir : TblMirror (Tbl.removeOwner s.notify src)
      (Tbl.multiPurge s.alive s.waitFor src (Tbl.keysOf s.notify src) []).1 :=
    h.tab.mir.multiPurge_removeOwner h.n.wfN s.alive src [] (fun n l hl => h.waiters_alive src n l hl)
  have hWF := Tbl.multiPurge_WF s.alive src (Tbl.keysOf s.notify src) s.waitFor [] h.n.wfW
  have h1 : Inv C (((uaTargets s src).2.reverse).map (·.1) ++ W) none
      ({ ({ s with waitFor := (Tbl.multiPurge s.alive s.waitFor src (Tbl.keysOf s.notify src) []).1 } : State) with
        notify := Tbl.removeOwner s.notify src }) := by
    apply h.setTables _ _ (h.n.wfN.removeOwner _) hWF (Tbl.Sub.removeOwner _ _)
      (Tbl.Sub.multiPurge _ _ _ _ _) hmir (fun x m => List.mem_append_right _ m)
    intro x th hx hw ho
    by_cases hno : Tbl.hasOwner (Tbl.multiPurge s.alive s.waitFor src (Tbl.keysOf s.notify src) []).1 x = true
    · exact Or.inr hno
    · left
      apply List.mem_append_left
      -- some entry of `x` changed: `x` waited for `src` under that name
      obtain ⟨n0, hn0⟩ := (h.n.wfW.hasOwner_iff x).1 ho
      have hall : Tbl.getD (Tbl.multiPurge s.alive s.waitFor src (Tbl.keysOf s.notify src) []).1 (x, n0) = [] := by
        have : Tbl.hasOwner (Tbl.multiPurge s.alive s.waitFor src (Tbl.keysOf s.notify src) []).1 x = false := by
          simpa using hno
        exact (hWF.hasOwner_false_iff x).1 this n0
      rw [Tbl.multiPurge_getD] at hall
      split at hall
      · rename_i hc
        obtain ⟨⟨e, he, he1, he2⟩, _⟩ := hc
        simp only at he1 he2
        have hk := (h.n.wfN.mem_keysOf_iff src e.1 e.2).1 he
        have hxl : x ∈ Tbl.getD s.notify (src, n0) := by rw [← he1, hk.1]; exact he2
        have hsx := (h.tab.mir.mem_iff src n0 x).1 hxl
        have := uaTargets_complete s src h.n.wfN n0 x hxl (h.waiters_alive src n0 x hxl) hsx
        exact List.mem_map.2 ⟨(x, n0), List.mem_reverse.2 this, rfl⟩
      · exact absurd hall hn0
  exact h1

theorem uaRest_inv {fuel : Nat} (hswf : ISwf (stoppedWaitFor fuel)) (hsn : ISn (stoppedNotify fuel))
    {C W : List Nat} {s : State} (h : Inv C W none s) (src : Nat) :
    Ok (uaRest (stoppedWaitFor fuel) (stoppedNotify fuel) s src)
      (Inv C W none (uaRest (stoppedWaitFor fuel) (stoppedNotify fuel) s src) ∧
        Tbl.hasOwner (uaRest (stoppedWaitFor fuel) (stoppedNotify fuel) s src).notify src = false) := by
  unfold uaRest
  split
  · rename_i hno
    exact Ok.pure ⟨h, by simpa using hno⟩
  · simp only [killLoop]
    have hfr := uaTargets_frame s src
    have h1 := uaRest_mid h src
    have hown1 : Tbl.hasOwner (Tbl.removeOwner s.notify src) src = false := hasOwner_removeOwner_self h.n.wfN src
    have P := presAll fuel
    rw [hfr]
    refine (hsn C _ _ src h1).bind ?_ (fun p2 => ?_)
    · exact Pres.foldl _ (fun s a => by split; exact P.swf _ _ _ _; exact Pres.refl s) _ _
    refine (killFold_inv P.swf hswf C W _ _ p2).map (fun p3 => ?_)
    have q2 := (qAll fuel).sn [] _ src h1.n
    have q3 := killLoop_q (nAll fuel).swf (qAll fuel).swf [] p2.n (uaTargets s src).2
    unfold killLoop at q3
    have hown3 := hasOwner_false_of_sub h1.n.wfN p3.n.wfN (q2.trans q3).subN hown1
    exact ⟨p3, hown3⟩

theorem unregisterAll_inv_succ {fuel : Nat} (hur : IUr (unregister fuel)) (hswf : ISwf (stoppedWaitFor fuel))
    (hsn : ISn (stoppedNotify fuel)) : IUa (unregisterAll (fuel + 1)) := by
  intro C W s src h
  rw [unregisterAll_succ]
  have P := presAll fuel
  refine (hur C W s src 0 h (Or.inr (Or.inl rfl))).bind ?_ (fun p => ?_)
  · exact (Pres.of_eq rfl rfl rfl : Pres (unregister fuel s src 0)
      { (unregister fuel s src 0) with endOn := Tbl.removeOwner (unregister fuel s src 0).endOn src }).trans
      (uaRest_pres P.swf P.sn _ _)
  exact uaRest_inv hswf hsn (p.1.setEndOn _ (fun o ho => Or.inl (Tbl.hasOwner_removeOwner ho))) src

end Morfuse.Sched
