import MorfuseModel.Sched.MachineInvTables
/-!
# What no function of the machine ever changes

`Pres s s'`: running out of fuel is sticky and the compiled program is untouched.  Proved for all the
functions of the mutual block at once by induction on the fuel; the proof is the template for the
invariant proofs (same case structure, richer statements).
-/
namespace Morfuse.Sched
open State

structure Pres (s s' : State) : Prop where
  oof : s.outOfFuel = true → s'.outOfFuel = true
  prog : s'.prog = s.prog
  params : s'.progParams = s.progParams

theorem Pres.refl (s : State) : Pres s s := ⟨id, rfl, rfl⟩
theorem Pres.trans {a b c : State} (h1 : Pres a b) (h2 : Pres b c) : Pres a c :=
  ⟨fun h => h2.oof (h1.oof h), h2.prog.trans h1.prog, h2.params.trans h1.params⟩

/-- a step that keeps the three fields -/
theorem Pres.of_eq {s s' : State} (h1 : s'.outOfFuel = s.outOfFuel) (h2 : s'.prog = s.prog)
    (h3 : s'.progParams = s.progParams) : Pres s s' := ⟨fun h => by rw [h1]; exact h, h2, h3⟩

theorem Pres.fuel (s : State) : Pres s { s with outOfFuel := true } := ⟨fun _ => rfl, rfl, rfl⟩

theorem Pres.setTh (s : State) (t : Nat) (f : Th → Th) : Pres s (s.setTh t f) := Pres.of_eq rfl rfl rfl

theorem removeFromInst_frame (s : State) (t i : Nat) :
    removeFromInst s t i = { s with insts := (removeFromInst s t i).insts } := by
  unfold removeFromInst
  split
  · rfl
  · split
    · split
      · split <;> rfl
      · rfl
    · rfl

theorem Pres.removeFromInst (s : State) (t i : Nat) : Pres s (removeFromInst s t i) := by
  rw [removeFromInst_frame]; exact Pres.of_eq rfl rfl rfl

/-- functions of one / two / three extra arguments that satisfy `Pres` -/
def Pres1 (f : State → Nat → State) : Prop := ∀ s a, Pres s (f s a)
def Pres0 (f : State → State) : Prop := ∀ s, Pres s (f s)
def Pres2 (f : State → Nat → Nat → State) : Prop := ∀ s a b, Pres s (f s a b)
def Pres3 (f : State → Nat → Nat → Bool → State) : Prop := ∀ s a b c, Pres s (f s a b c)

theorem Pres.foldl {α : Type} (f : State → α → State) (hf : ∀ s a, Pres s (f s a)) :
    ∀ (l : List α) (s : State), Pres s (l.foldl f s)
  | [], s => Pres.refl s
  | a :: l, s => (hf s a).trans (Pres.foldl f hf l (f s a))

theorem stopStep_pres {cw : State → Nat → State} (hcw : Pres1 cw) (s : State) (t : Nat) (th : Th) :
    Pres s (stopStep cw s t th) := by
  unfold stopStep
  split
  · exact Pres.of_eq rfl rfl rfl
  · split
    · exact (Pres.setTh s t _).trans (hcw _ _)
    · exact Pres.refl s

theorem notifyDelete_pres (s : State) (t : Nat) : Pres s (notifyDelete s t) := by
  unfold notifyDelete
  split
  · exact Pres.refl s
  · rename_i th _
    have h1 : Pres s (if th.attached = true then removeFromInst (s.setTh t fun th => { th with vm := .destroyed }) t th.inst
        else s.setTh t fun th => { th with vm := .destroyed }) := by
      split
      · exact (Pres.setTh s t _).trans (Pres.removeFromInst _ _ _)
      · exact Pres.setTh s t _
    simp only
    split
    · exact h1.trans (Pres.setTh _ _ _)
    · exact h1

theorem finishDelete_pres (s : State) (t : Nat) : Pres s (finishDelete s t) := by
  unfold finishDelete
  split
  · exact Pres.refl s
  · split
    · exact Pres.setTh s t _
    · exact Pres.of_eq rfl rfl rfl

theorem cancelEvents_pres (s : State) (t : Nat) : Pres s (cancelEvents s t) := Pres.of_eq rfl rfl rfl
theorem postEvent_pres (s : State) (t d : Nat) : Pres s (postEvent s t d) := Pres.of_eq rfl rfl rfl
theorem addTiming_pres (s : State) (t d : Nat) : Pres s (addTiming s t d) := Pres.of_eq rfl rfl rfl
theorem vmSuspend_pres (s : State) (t : Nat) : Pres s (vmSuspend s t) := Pres.setTh s t _
theorem vmResume_pres (s : State) (t : Nat) : Pres s (vmResume s t) := Pres.setTh s t _

theorem notifyLoop_pres {sn : State → Nat → State} (hsn : Pres1 sn) (s : State) (stopped : List Nat) :
    Pres s (notifyLoop sn s stopped) := by
  unfold notifyLoop
  apply Pres.foldl
  intro s a
  split
  · exact hsn s a
  · exact Pres.refl s

theorem cwaZero_pres {swf : State → Nat → Nat → Bool → State} {sn : State → Nat → State}
    (hswf : Pres3 swf) (hsn : Pres1 sn) (s : State) (w : Nat) : Pres s (cwaZero swf sn s w) := by
  unfold cwaZero
  split
  · exact Pres.refl s
  · rename_i list _
    simp only [cancelWaitingSources_eq_purge]
    refine Pres.trans ?_ (notifyLoop_pres hsn _ _)
    split
    · refine Pres.trans ?_ (hswf _ _ _ _)
      exact Pres.of_eq rfl rfl rfl
    · exact Pres.of_eq rfl rfl rfl

theorem cwaSources_frame (s : State) (w : Nat) :
    cwaSources s w =
      ({ s with notify := (Tbl.multiPurge s.alive s.notify w (Tbl.keysOf s.waitFor w) []).1 },
       (Tbl.multiPurge s.alive s.notify w (Tbl.keysOf s.waitFor w) []).2) := by
  unfold cwaSources Tbl.multiPurge
  generalize Tbl.keysOf s.waitFor w = keys
  suffices hs : ∀ (keys : List (Nat × List Nat)) (T : Tbl) (st : List Nat),
      keys.foldl (fun (acc : State × List Nat) e => cancelWaitingSources acc.1 w e.1 e.2 acc.2)
        (({ s with notify := T } : State), st) =
      ({ s with notify := (keys.foldl (fun acc e => Tbl.purge s.alive acc.1 w e.1 e.2 acc.2) (T, st)).1 },
        (keys.foldl (fun acc e => Tbl.purge s.alive acc.1 w e.1 e.2 acc.2) (T, st)).2) from hs keys s.notify []
  intro keys
  induction keys with
  | nil => intro T st; rfl
  | cons e keys ih =>
    intro T st
    simp only [List.foldl_cons]
    rw [cancelWaitingSources_eq_purge]
    exact ih _ _

theorem cwaRest_pres {swf : State → Nat → Nat → Bool → State} {sn : State → Nat → State}
    (hswf : Pres3 swf) (hsn : Pres1 sn) (s : State) (w : Nat) : Pres s (cwaRest swf sn s w) := by
  unfold cwaRest
  split
  · exact Pres.refl s
  · simp only [cwaSources_frame]
    refine Pres.trans ?_ (notifyLoop_pres hsn _ _)
    refine Pres.trans ?_ (hswf _ _ _ _)
    exact Pres.of_eq rfl rfl rfl

theorem startTiming_pres {stp : State → Nat → State} (h : Pres1 stp) (s : State) (t : Nat) :
    Pres s (startTiming stp s t) := by
  unfold startTiming
  split
  · exact h s t
  · exact ((h s t).trans (Pres.setTh _ _ _)).trans (addTiming_pres _ _ _)

theorem endOnLoop_pres {dt : State → Nat → State} (h : Pres1 dt) (s : State) (src name : Nat)
    (listeners : List Nat) : Pres s (endOnLoop dt s src name listeners).1 := by
  unfold endOnLoop
  generalize listeners.reverse = L
  suffices hs : ∀ (L : List Nat) (acc : State × Bool), Pres s acc.1 →
      Pres s (L.foldl (fun (acc : State × Bool) l =>
        if acc.1.alive l then
          if l == src && (name == nameRemove || name == nameDelete || acc.2) then acc
          else (dt acc.1 l, acc.2 || (l == src))
        else acc) acc).1 from hs L (s, false) (Pres.refl s)
  intro L
  induction L with
  | nil => intro acc h; exact h
  | cons l L ih =>
    intro acc hacc
    simp only [List.foldl_cons]
    apply ih
    split
    · split
      · exact hacc
      · exact hacc.trans (h _ _)
    · exact hacc

theorem unregEndOn_pres {dt : State → Nat → State} (h : Pres1 dt) (s : State) (src name : Nat) :
    Pres s (unregEndOn dt s src name).1 := by
  unfold unregEndOn
  split
  · exact Pres.refl s
  · split
    · exact Pres.refl s
    · refine Pres.trans ?_ (endOnLoop_pres h _ _ _ _)
      exact Pres.of_eq rfl rfl rfl

theorem wakeLoop_pres {swf : State → Nat → Nat → Bool → State} (h : Pres3 swf) (s : State) (name : Nat)
    (stopped : List Nat) : Pres s (wakeLoop swf s name stopped) := by
  unfold wakeLoop
  apply Pres.foldl
  intro s a
  split
  · exact h _ _ _ _
  · exact Pres.refl s

theorem unregNotify_pres {swf : State → Nat → Nat → Bool → State} {sn : State → Nat → State}
    (hswf : Pres3 swf) (hsn : Pres1 sn) (s : State) (src name : Nat) :
    Pres s (unregNotify swf sn s src name) := by
  unfold unregNotify
  split
  · exact Pres.refl s
  · split
    · exact Pres.refl s
    · simp only [unregisterTargets_eq_purge]
      refine Pres.trans ?_ (wakeLoop_pres hswf _ _ _)
      split
      · refine Pres.trans ?_ (hsn _ _)
        exact Pres.of_eq rfl rfl rfl
      · exact Pres.of_eq rfl rfl rfl

theorem uaTargets_frame (s : State) (src : Nat) :
    (uaTargets s src).1 =
      { s with waitFor := (Tbl.multiPurge s.alive s.waitFor src (Tbl.keysOf s.notify src) []).1 } := by
  unfold uaTargets
  generalize Tbl.keysOf s.notify src = keys
  suffices hs : ∀ (keys : List (Nat × List Nat)) (T : Tbl) (st' : List (Nat × Nat)),
      (keys.foldl (fun (acc : State × List (Nat × Nat)) e =>
        ((unregisterTargets acc.1 src e.1 e.2).1,
          acc.2 ++ (unregisterTargets acc.1 src e.1 e.2).2.map (fun l => (l, e.1))))
        (({ s with waitFor := T } : State), st')).1 =
      { s with waitFor := (Tbl.multiPurge s.alive T src keys []).1 }
    from hs keys s.waitFor []
  intro keys
  induction keys with
  | nil => intro T st'; rfl
  | cons e keys ih =>
    intro T st'
    simp only [List.foldl_cons]
    rw [unregisterTargets_eq_purge]
    rw [Tbl.multiPurge_cons, Tbl.multiPurge_fst_indep _ _ _ _ _ []]
    exact ih _ _

theorem killLoop_pres {swf : State → Nat → Nat → Bool → State} (h : Pres3 swf) (s : State)
    (stopped : List (Nat × Nat)) : Pres s (killLoop swf s stopped) := by
  unfold killLoop
  apply Pres.foldl
  intro s a
  split
  · exact h _ _ _ _
  · exact Pres.refl s

theorem uaRest_pres {swf : State → Nat → Nat → Bool → State} {sn : State → Nat → State}
    (hswf : Pres3 swf) (hsn : Pres1 sn) (s : State) (src : Nat) : Pres s (uaRest swf sn s src) := by
  unfold uaRest
  split
  · exact Pres.refl s
  · simp only
    refine Pres.trans ?_ (killLoop_pres hswf _ _)
    refine Pres.trans ?_ (hsn _ _)
    rw [uaTargets_frame]
    exact Pres.of_eq rfl rfl rfl

theorem regWait_pres {stp : State → Nat → State} (h : Pres1 stp) (s : State) (o n c : Nat) :
    Pres s (regWait stp s o n c) := by
  unfold regWait
  simp only
  split
  · refine Pres.trans (b := stp { s with notify := Tbl.push s.notify (o, n) c } c) ?_ ?_
    · refine Pres.trans ?_ (h _ _)
      exact Pres.of_eq rfl rfl rfl
    · exact Pres.of_eq rfl rfl rfl
  · exact Pres.of_eq rfl rfl rfl

theorem waitOn_pres {stp : State → Nat → State} (h : Pres1 stp) (s : State) (p ms : Nat) :
    Pres s (waitOn stp s p ms) := by
  unfold waitOn
  exact (h s p).trans (Pres.of_eq rfl rfl rfl)

theorem waitOnGuarded_pres {stp : State → Nat → State} (h : Pres1 stp) (s : State) (p ms : Nat) :
    Pres s (waitOnGuarded stp s p ms) := by
  unfold waitOnGuarded
  split
  · exact h s p
  · exact waitOn_pres h s p ms

theorem setRet_pres (s : State) (c : Nat) (r : Ret) : Pres s (s.setRet c r) := Pres.of_eq rfl rfl rfl

theorem endResult_pres (s : State) (th : Th) (ev : EndV) : Pres s (endResult s th ev) := by
  unfold endResult
  simp only
  split
  · exact Pres.refl s
  · split <;> first | exact setRet_pres _ _ _ | exact Pres.refl s

theorem restoreCur_pres (s : State) (c : Option Nat) : Pres s (restoreCur s c) := Pres.of_eq rfl rfl rfl

theorem execIfAlive_pres {ev : State → Nat → State} (h : Pres1 ev) (s : State) (t : Nat) :
    Pres s (execIfAlive ev s t) := by
  unfold execIfAlive
  split
  · exact h s t
  · exact Pres.refl s

theorem vmEpilogue_pres (s : State) (t : Nat) : Pres s (vmEpilogue s t) := by
  unfold vmEpilogue
  split
  · exact Pres.refl s
  · split
    · exact Pres.setTh _ _ _
    · exact Pres.of_eq rfl rfl rfl
    · exact Pres.refl s

theorem vmPrologue_pres (s : State) (t : Nat) : Pres s (vmPrologue s t) := Pres.of_eq rfl rfl rfl

/-- the statement for one fuel level -/
structure PresAll (fuel : Nat) : Prop where
  dt : Pres1 (deleteThread fuel)
  sn : Pres1 (stoppedNotify fuel)
  stp : Pres1 (stop fuel)
  cwa : Pres1 (cancelWaitingAll fuel)
  swf : Pres3 (stoppedWaitFor fuel)
  ur : Pres2 (unregister fuel)
  ua : Pres1 (unregisterAll fuel)
  sei : Pres1 (scriptExecuteInternal fuel)
  er : Pres0 (executeRunning fuel)
  dr : Pres0 (drain fuel)
  ev : Pres1 (execVM fuel)
  pr : Pres1 (process fuel)
  ex : ∀ s t th ins, Pres s (exec fuel s t th ins)

theorem presAll_zero : PresAll 0 where
  dt := fun s t => by rw [deleteThread_zero]; exact Pres.fuel s
  sn := fun s t => by rw [stoppedNotify_zero]; exact Pres.fuel s
  stp := fun s t => by rw [stop_zero]; exact Pres.fuel s
  cwa := fun s t => by rw [cancelWaitingAll_zero]; exact Pres.fuel s
  swf := fun s t n d => by rw [stoppedWaitFor_zero]; exact Pres.fuel s
  ur := fun s t n => by rw [unregister_zero]; exact Pres.fuel s
  ua := fun s t => by rw [unregisterAll_zero]; exact Pres.fuel s
  sei := fun s t => by rw [scriptExecuteInternal_zero]; exact Pres.fuel s
  er := fun s => by rw [executeRunning_zero]; exact Pres.fuel s
  dr := fun s => by rw [drain_zero]; exact Pres.fuel s
  ev := fun s t => by rw [execVM_zero]; exact Pres.fuel s
  pr := fun s t => by rw [process_zero]; exact Pres.fuel s
  ex := fun s t th ins => by rw [exec_zero]; exact Pres.fuel s

theorem exec_pres_succ {fuel : Nat} (ih : PresAll fuel) (s : State) (t : Nat) (th : Th) (ins : Instr) :
    Pres s (exec (fuel + 1) s t th ins) := by
  cases ins with
  | mark k => rw [exec_mark]; exact Pres.of_eq rfl rfl rfl
  | pparam i => rw [exec_pparam]; exact Pres.of_eq rfl rfl rfl
  | wait ms => rw [exec_wait]; exact waitOn_pres ih.stp _ _ _
  | waittill o names =>
    rw [exec_waittill]
    split
    · exact Pres.refl s
    · split
      · exact Pres.refl s
      · exact Pres.foldl _ (fun s n => regWait_pres ih.stp _ _ _ _) _ _
  | waittillTimeout o n ms =>
    rw [exec_waittillTimeout]
    split
    · exact Pres.refl s
    · split
      · exact Pres.refl s
      · exact (regWait_pres ih.stp _ _ _ _).trans (postEvent_pres _ _ _)
  | notify o n =>
    rw [exec_notify]
    split
    · exact Pres.refl s
    · exact ih.ur _ _ _
  | endon o n =>
    rw [exec_endon]
    split
    · exact Pres.refl s
    · split
      · exact Pres.refl s
      · exact Pres.of_eq rfl rfl rfl
  | delete o =>
    rw [exec_delete]
    split
    · exact Pres.refl s
    · refine Pres.trans (b := cancelWaitingAll fuel (unregisterAll fuel (unregister fuel (unregister fuel s o nameDelete) o nameRemove) o) o) ?_ ?_
      · exact (((ih.ur _ _ _).trans (ih.ur _ _ _)).trans (ih.ua _ _)).trans (ih.cwa _ _)
      · exact Pres.of_eq rfl rfl rfl
  | thread l =>
    rw [exec_thread]
    split
    · exact Pres.refl s
    · refine Pres.trans ?_ (ih.sei _ _)
      exact Pres.of_eq rfl rfl rfl
  | waitthread l =>
    rw [exec_waitthread]
    split
    · exact Pres.refl s
    · split
      · refine Pres.trans ?_ (ih.sei _ _)
        exact Pres.of_eq rfl rfl rfl
      · refine Pres.trans ?_ (ih.sei _ _)
        refine Pres.trans ?_ (regWait_pres ih.stp _ _ _ _)
        exact Pres.of_eq rfl rfl rfl
  | pause => rw [exec_pause]; exact (ih.stp _ _).trans (vmSuspend_pres _ _)
  | waitParent ms =>
    rw [exec_waitParent]
    split
    · exact Pres.refl s
    · exact waitOnGuarded_pres ih.stp _ _ _
  | waittillParent names =>
    rw [exec_waittillParent]
    split
    · exact Pres.refl s
    · split
      · exact Pres.refl s
      · exact Pres.foldl _ (fun s n => regWait_pres ih.stp _ _ _ _) _ _
  | notifyParent n =>
    rw [exec_notifyParent]
    split
    · exact Pres.refl s
    · exact ih.ur _ _ _
  | end_ ev =>
    rw [exec_end]
    exact ((endResult_pres _ _ _).trans (Pres.setTh _ _ _)).trans (ih.dt _ _)
  | spawn o =>
    rw [exec_spawn]
    split
    · exact Pres.refl s
    · exact Pres.of_eq rfl rfl rfl

theorem presAll_succ {fuel : Nat} (ih : PresAll fuel) : PresAll (fuel + 1) where
  dt := fun s t => by
    rw [deleteThread_succ]
    split
    · exact Pres.refl s
    · split
      · exact Pres.refl s
      · exact ((((((((Pres.setTh s t _).trans (stopStep_pres ih.cwa _ _ _)).trans (notifyDelete_pres _ _)).trans
          (cancelEvents_pres _ _)).trans (ih.ur _ _ _)).trans (ih.ur _ _ _)).trans (ih.ua _ _)).trans
          (ih.cwa _ _)).trans (finishDelete_pres _ _)
  sn := fun s l => by
    rw [stoppedNotify_succ]
    split
    · split
      · exact ih.dt _ _
      · exact Pres.refl s
    · exact Pres.refl s
  stp := fun s t => by
    rw [stop_succ]
    split
    · exact Pres.refl s
    · exact stopStep_pres ih.cwa _ _ _
  cwa := fun s w => by
    rw [cancelWaitingAll_succ]
    exact (cwaZero_pres ih.swf ih.sn _ _).trans (cwaRest_pres ih.swf ih.sn _ _)
  swf := fun s t name d => by
    rw [stoppedWaitFor_succ]
    split
    · exact Pres.refl s
    · split
      · exact Pres.refl s
      · split
        · exact Pres.refl s
        · split
          · exact ih.dt _ _
          · split
            · split
              · split
                · exact (cancelEvents_pres _ _).trans (ih.sei _ _)
                · exact (cancelEvents_pres _ _).trans (vmResume_pres _ _)
              · exact (cancelEvents_pres _ _).trans (startTiming_pres ih.stp _ _)
            · exact cancelEvents_pres _ _
  ur := fun s src name => by
    rw [unregister_succ]
    split
    · exact unregEndOn_pres ih.dt _ _ _
    · exact (unregEndOn_pres ih.dt _ _ _).trans (unregNotify_pres ih.swf ih.sn _ _ _)
  ua := fun s src => by
    rw [unregisterAll_succ]
    refine Pres.trans ?_ (uaRest_pres ih.swf ih.sn _ _)
    refine Pres.trans (ih.ur s src 0) ?_
    exact Pres.of_eq rfl rfl rfl
  sei := fun s t => by
    rw [scriptExecuteInternal_succ]
    refine Pres.trans ?_ (ih.er _)
    refine Pres.trans ?_ (restoreCur_pres _ _)
    refine Pres.trans ?_ (execIfAlive_pres ih.ev _ _)
    refine Pres.trans ?_ (ih.stp _ _)
    exact Pres.of_eq rfl rfl rfl
  er := fun s => by
    rw [executeRunning_succ]
    split
    · exact Pres.refl s
    · split
      · exact Pres.refl s
      · exact ih.dr _
  dr := fun s => by
    rw [drain_succ]
    split
    · exact Pres.of_eq rfl rfl rfl
    · refine Pres.trans ?_ (ih.dr _)
      refine Pres.trans ?_ (ih.ev _ _)
      exact Pres.of_eq rfl rfl rfl
  ev := fun s t => by
    rw [execVM_succ]
    refine Pres.trans ?_ (vmEpilogue_pres _ _)
    refine Pres.trans (b := process fuel (vmPrologue s t) t) ?_ (Pres.of_eq rfl rfl rfl)
    exact (vmPrologue_pres s t).trans (ih.pr _ _)
  pr := fun s t => by
    rw [process_succ]
    split
    · exact Pres.refl s
    · split
      · exact Pres.refl s
      · exact ((Pres.setTh s t _).trans (ih.ex _ _ _ _)).trans (ih.pr _ _)
  ex := exec_pres_succ ih

theorem presAll : ∀ fuel, PresAll fuel
  | 0 => presAll_zero
  | fuel + 1 => presAll_succ (presAll fuel)

end Morfuse.Sched
