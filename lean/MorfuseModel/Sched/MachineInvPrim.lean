import MorfuseModel.Sched.MachineInvDefs
/-!
# The primitive updates of the machine and the components of `Inv`
-/
namespace Morfuse.Sched
open State

/-! ### aliveness -/

theorem aliveTh_map_upd (ths : List (Nat × Th)) (t : Nat) (f : Th → Th) (hf : ∀ th, (f th).dead = th.dead)
    (l : Nat) : aliveTh (ths.map (thUpd t f)) l = aliveTh ths l := by
  unfold aliveTh
  rw [List.any_map]
  congr 1
  funext e
  simp only [Function.comp, thUpd]
  split
  · simp [hf]
  · rfl

theorem State.alive_congr {s s' : State} (h1 : ∀ l, aliveTh s'.threads l = aliveTh s.threads l)
    (h2 : s'.objs = s.objs) (l : Nat) : s'.alive l = s.alive l := by
  unfold State.alive State.objAlive
  rw [h2]
  have : (s'.threads.any fun e => e.1 == l && !e.2.dead) = (s.threads.any fun e => e.1 == l && !e.2.dead) := h1 l
  rw [this]

theorem aliveTh_filter_ne (ths : List (Nat × Th)) (t l : Nat) (h : l ≠ t) :
    aliveTh (ths.filter (fun e => !(e.1 == t))) l = aliveTh ths l := by
  unfold aliveTh
  induction ths with
  | nil => rfl
  | cons e ths ih =>
    by_cases he : e.1 = t
    · have hb : (e.1 == t) = true := by simpa using he
      have hl : (e.1 == l) = false := by simp; rw [he]; exact fun e' => h e'.symm
      simp [List.filter_cons, hb, hl, ih]
    · have hb : (e.1 == t) = false := by simpa using he
      simp [List.filter_cons, hb, ih]

theorem aliveTh_append (ths : List (Nat × Th)) (e : Nat × Th) (l : Nat) :
    aliveTh (ths ++ [e]) l = (aliveTh ths l || (e.1 == l && !e.2.dead)) := by
  unfold aliveTh; simp

/-! ### `ThInv` -/

theorem ThInv.setTh {ths : List (Nat × Th)} (h : ThInv ths) (t : Nat) (f : Th → Th)
    (hf : ∀ th, thFind ths t = some th → RecOK (f th)) : ThInv (ths.map (thUpd t f)) := by
  intro u th' hu
  rw [thFind_map_upd] at hu
  split at hu
  · rename_i hut; subst hut
    cases hf' : thFind ths u with
    | none => simp [hf'] at hu
    | some th => simp [hf'] at hu; rw [← hu]; exact hf th hf'
  · exact h u th' hu

theorem ThInv.filter {ths : List (Nat × Th)} (h : ThInv ths) (t : Nat) :
    ThInv (ths.filter (fun e => !(e.1 == t))) := by
  intro u th' hu
  rw [thFind_filter_ne] at hu
  split at hu
  · simp at hu
  · exact h u th' hu

theorem ThInv.append {ths : List (Nat × Th)} (h : ThInv ths) (t' : Nat) (th : Th) (hok : RecOK th) :
    ThInv (ths ++ [(t', th)]) := by
  intro u th' hu
  rw [thFind_append] at hu
  split at hu
  · rename_i x hx; simp at hu; subst hu; exact h u x hx
  · split at hu
    · simp at hu; subst hu; exact hok
    · simp at hu

/-! ### `TimInv` -/

theorem TimInv.congr_elems {tm tm' : Timer} {ths : List (Nat × Th)} (h : TimInv tm ths)
    (e : tm'.elems = tm.elems) : TimInv tm' ths := ⟨by rw [e]; exact h.t1, by rw [e]; exact h.t2, by rw [e]; exact h.t3⟩

/-- a record update that keeps the thread state -/
theorem TimInv.setTh_same {tm : Timer} {ths : List (Nat × Th)} (h : TimInv tm ths) (t : Nat) (f : Th → Th)
    (hf : ∀ th, (f th).ts = th.ts) : TimInv tm (ths.map (thUpd t f)) := by
  refine ⟨?_, h.t2, ?_⟩
  · intro e he
    obtain ⟨th, h1, h2⟩ := h.t1 e he
    rw [thFind_map_upd]
    split
    · rename_i hut
      refine ⟨f th, by rw [← hut]; simp [h1], by rw [hf]; exact h2⟩
    · exact ⟨th, h1, h2⟩
  · intro u th' hu hts
    rw [thFind_map_upd] at hu
    split at hu
    · rename_i hut; subst hut
      cases hf' : thFind ths u with
      | none => simp [hf'] at hu
      | some th =>
        simp [hf'] at hu
        apply h.t3 u th hf'
        rw [← hf, hu]; exact hts
    · exact h.t3 u th' hu hts

/-- a record update of a thread that is not `timing`, to a state other than `timing` -/
theorem TimInv.setTh_off {tm : Timer} {ths : List (Nat × Th)} (h : TimInv tm ths) (t : Nat) (f : Th → Th)
    (hold : ∀ th, thFind ths t = some th → th.ts ≠ .timing) (hnew : ∀ th, (f th).ts ≠ .timing) :
    TimInv tm (ths.map (thUpd t f)) := by
  refine ⟨?_, h.t2, ?_⟩
  · intro e he
    obtain ⟨th, h1, h2⟩ := h.t1 e he
    rw [thFind_map_upd]
    split
    · rename_i hut
      rw [hut] at h1
      exact absurd h2 (hold th h1)
    · exact ⟨th, h1, h2⟩
  · intro u th' hu hts
    rw [thFind_map_upd] at hu
    split at hu
    · rename_i hut; subst hut
      cases hf' : thFind ths u with
      | none => simp [hf'] at hu
      | some th => simp [hf'] at hu; rw [← hu] at hts; exact absurd hts (hnew th)
    · exact h.t3 u th' hu hts

theorem lastIdxOf_spec {l : List (Nat × Nat)} {e i : Nat} (h : Timer.lastIdxOf l e = some i) :
    ∃ d, l[i]? = some (e, d) := by
  unfold Timer.lastIdxOf at h
  have hm := List.mem_of_find?_eq_some h
  have hp := List.find?_some h
  simp only [List.mem_reverse, List.mem_range] at hm
  simp only [beq_iff_eq] at hp
  refine ⟨(l.getD i (0, 0)).2, ?_⟩
  rw [List.getD_eq_getElem?_getD, List.getElem?_eq_getElem hm] at hp
  simp only [Option.getD_some] at hp
  rw [List.getElem?_eq_getElem hm, List.getD_eq_getElem?_getD, List.getElem?_eq_getElem hm]
  simp only [Option.getD_some, Option.some.injEq]
  rw [← hp]

theorem lastIdxOf_none {l : List (Nat × Nat)} {e : Nat} (h : Timer.lastIdxOf l e = none) :
    e ∉ l.map (·.1) := by
  unfold Timer.lastIdxOf at h
  rw [List.find?_eq_none] at h
  intro hm
  obtain ⟨x, hx, hxe⟩ := List.mem_map.1 hm
  obtain ⟨i, hi, hget⟩ := List.mem_iff_getElem.1 hx
  have := h i (by simp [hi])
  apply this
  rw [List.getD_eq_getElem?_getD, List.getElem?_eq_getElem hi]
  simp [hget, hxe]

theorem nodup_map_eraseIdx {l : List (Nat × Nat)} (h : (l.map (·.1)).Nodup) (i : Nat) :
    ((l.eraseIdx i).map (·.1)).Nodup := ((List.eraseIdx_sublist l i).map _).nodup h

theorem not_mem_eraseIdx_of_nodup : ∀ {l : List (Nat × Nat)} {i : Nat} {x : Nat × Nat},
    (l.map (·.1)).Nodup → l[i]? = some x → x.1 ∉ (l.eraseIdx i).map (·.1)
  | [], _, _, _, h => by simp at h
  | a :: l, 0, x, hn, h => by
    simp at h; subst h
    simp only [List.eraseIdx_cons_zero]
    rw [List.map_cons] at hn
    exact (List.nodup_cons.1 hn).1
  | a :: l, i + 1, x, hn, h => by
    simp only [List.getElem?_cons_succ] at h
    simp only [List.eraseIdx_cons_succ, List.map_cons, List.mem_cons, not_or]
    rw [List.map_cons] at hn
    have hn' := List.nodup_cons.1 hn
    refine ⟨?_, not_mem_eraseIdx_of_nodup hn'.2 h⟩
    intro e
    apply hn'.1
    rw [← e]
    exact List.mem_map.2 ⟨x, List.mem_of_getElem? h, rfl⟩

theorem mem_eraseIdx_of_ne {l : List (Nat × Nat)} {i : Nat} {x y : Nat × Nat} (hy : y ∈ l)
    (hx : l[i]? = some x) (hne : y.1 ≠ x.1) : y ∈ l.eraseIdx i := by
  induction l generalizing i with
  | nil => simp at hy
  | cons a l ih =>
    cases i with
    | zero =>
      simp at hx; subst hx
      rcases List.mem_cons.1 hy with h | h
      · subst h; exact absurd rfl hne
      · simpa using h
    | succ i =>
      simp only [List.getElem?_cons_succ] at hx
      simp only [List.eraseIdx_cons_succ, List.mem_cons]
      rcases List.mem_cons.1 hy with h | h
      · exact Or.inl h
      · exact Or.inr (ih h hx)

/-- removing element `i` (thread `t`) from the timer and taking `t` out of `timing` -/
theorem TimInv.erase {tm : Timer} {ths : List (Nat × Th)} (h : TimInv tm ths) (i t d : Nat)
    (hi : tm.elems[i]? = some (t, d)) (f : Th → Th) (hnew : ∀ th, (f th).ts ≠ .timing) (tm' : Timer)
    (he : tm'.elems = tm.elems.eraseIdx i) : TimInv tm' (ths.map (thUpd t f)) := by
  have hnot : t ∉ tm'.elems.map (·.1) := by rw [he]; exact not_mem_eraseIdx_of_nodup h.t2 hi
  refine ⟨?_, by rw [he]; exact nodup_map_eraseIdx h.t2 i, ?_⟩
  · intro e hem
    have hne : e.1 ≠ t := by
      intro e'; apply hnot; rw [← e']; exact List.mem_map.2 ⟨e, hem, rfl⟩
    rw [he] at hem
    obtain ⟨th, h1, h2⟩ := h.t1 e ((List.eraseIdx_sublist _ _).subset hem)
    rw [thFind_map_upd]
    simp only [hne, if_false]
    exact ⟨th, h1, h2⟩
  · intro u th' hu hts
    rw [thFind_map_upd] at hu
    split at hu
    · rename_i hut; subst hut
      cases hf' : thFind ths u with
      | none => simp [hf'] at hu
      | some th => simp [hf'] at hu; rw [← hu] at hts; exact absurd hts (hnew th)
    · rename_i hut
      have := h.t3 u th' hu hts
      obtain ⟨y, hy, hyu⟩ := List.mem_map.1 this
      rw [he]
      apply List.mem_map.2
      exact ⟨y, mem_eraseIdx_of_ne hy hi (by simp only; rw [hyu]; exact hut), hyu⟩

/-- `Stop()` of a `timing` thread -/
theorem TimInv.stopTiming {tm : Timer} {ths : List (Nat × Th)} (h : TimInv tm ths) (t : Nat) (th : Th)
    (hth : thFind ths t = some th) (hts : th.ts = .timing) :
    TimInv (tm.remove t) (ths.map (thUpd t (fun th => { th with ts := .running }))) := by
  unfold Timer.remove
  cases hl : Timer.lastIdxOf tm.elems t with
  | none =>
    exact absurd (h.t3 t th hth hts) (lastIdxOf_none hl)
  | some i =>
    obtain ⟨d, hd⟩ := lastIdxOf_spec hl
    exact h.erase i t d hd _ (fun _ => by simp) _ rfl

/-- `Stop()` of a `timing` thread, with any record update that leaves `timing` -/
theorem TimInv.erase_via_remove {tm : Timer} {ths : List (Nat × Th)} (h : TimInv tm ths) (t : Nat) (th : Th)
    (hth : thFind ths t = some th) (hts : th.ts = .timing) (f : Th → Th) (hnew : ∀ th, (f th).ts ≠ .timing) :
    TimInv (tm.remove t) (ths.map (thUpd t f)) := by
  unfold Timer.remove
  cases hl : Timer.lastIdxOf tm.elems t with
  | none =>
    exact absurd (h.t3 t th hth hts) (lastIdxOf_none hl)
  | some i =>
    obtain ⟨d, hd⟩ := lastIdxOf_spec hl
    exact h.erase i t d hd f hnew _ rfl

/-- `AddTiming` of a thread that is not `timing` -/
theorem TimInv.start {tm : Timer} {ths : List (Nat × Th)} (h : TimInv tm ths) (t due : Nat) (th : Th)
    (hth : thFind ths t = some th) (hts : th.ts ≠ .timing) :
    TimInv (tm.add t due) (ths.map (thUpd t (fun th => { th with ts := .timing }))) := by
  have hnot : t ∉ tm.elems.map (·.1) := by
    intro hm
    obtain ⟨e, he, het⟩ := List.mem_map.1 hm
    obtain ⟨th0, h1, h2⟩ := h.t1 e he
    rw [het, hth] at h1; cases h1
    exact hts h2
  refine ⟨?_, ?_, ?_⟩
  · intro e he
    simp only [Timer.add, List.mem_append, List.mem_singleton] at he
    rw [thFind_map_upd]
    rcases he with he | he
    · obtain ⟨th0, h1, h2⟩ := h.t1 e he
      split
      · rename_i hut
        exfalso; apply hnot; rw [← hut]; exact List.mem_map.2 ⟨e, he, rfl⟩
      · exact ⟨th0, h1, h2⟩
    · subst he
      simp only [if_true]
      exact ⟨{ th with ts := .timing }, by simp [hth], rfl⟩
  · simp only [Timer.add, List.map_append, List.map_cons, List.map_nil]
    rw [List.nodup_append]
    refine ⟨h.t2, by simp, ?_⟩
    intro a ha b hb
    simp at hb; subst hb
    intro e; subst e; exact hnot ha
  · intro u th' hu hts'
    simp only [Timer.add, List.map_append, List.map_cons, List.map_nil, List.mem_append, List.mem_singleton]
    rw [thFind_map_upd] at hu
    split at hu
    · rename_i hut; exact Or.inr hut
    · exact Or.inl (h.t3 u th' hu hts')

/-- `AddTiming` together with any record update that sets the state to `timing` -/
theorem TimInv.start' {tm : Timer} {ths : List (Nat × Th)} (h : TimInv tm ths) (t due : Nat) (th : Th)
    (hth : thFind ths t = some th) (hts : th.ts ≠ .timing) (f : Th → Th) (hf : ∀ x, (f x).ts = .timing) :
    TimInv (tm.add t due) (ths.map (thUpd t f)) := by
  have hnot : t ∉ tm.elems.map (·.1) := by
    intro hm
    obtain ⟨e, he, het⟩ := List.mem_map.1 hm
    obtain ⟨th0, h1, h2⟩ := h.t1 e he
    rw [het, hth] at h1; cases h1
    exact hts h2
  refine ⟨?_, ?_, ?_⟩
  · intro e he
    simp only [Timer.add, List.mem_append, List.mem_singleton] at he
    rw [thFind_map_upd]
    rcases he with he | he
    · obtain ⟨th0, h1, h2⟩ := h.t1 e he
      split
      · rename_i hut
        exfalso; apply hnot; rw [← hut]; exact List.mem_map.2 ⟨e, he, rfl⟩
      · exact ⟨th0, h1, h2⟩
    · subst he
      simp only [if_true]
      exact ⟨f th, by simp [hth], hf th⟩
  · simp only [Timer.add, List.map_append, List.map_cons, List.map_nil]
    rw [List.nodup_append]
    refine ⟨h.t2, by simp, ?_⟩
    intro a ha b hb
    simp at hb; subst hb
    intro e; subst e; exact hnot ha
  · intro u th' hu hts'
    simp only [Timer.add, List.map_append, List.map_cons, List.map_nil, List.mem_append, List.mem_singleton]
    rw [thFind_map_upd] at hu
    split at hu
    · rename_i hut; exact Or.inr hut
    · exact Or.inl (h.t3 u th' hu hts')

theorem TimInv.filter {tm : Timer} {ths : List (Nat × Th)} (h : TimInv tm ths) (t : Nat)
    (hold : ∀ th, thFind ths t = some th → th.ts ≠ .timing) :
    TimInv tm (ths.filter (fun e => !(e.1 == t))) := by
  refine ⟨?_, h.t2, ?_⟩
  · intro e he
    obtain ⟨th, h1, h2⟩ := h.t1 e he
    rw [thFind_filter_ne]
    split
    · rename_i hut; rw [hut] at h1; exact absurd h2 (hold th h1)
    · exact ⟨th, h1, h2⟩
  · intro u th' hu hts
    rw [thFind_filter_ne] at hu
    split at hu
    · simp at hu
    · exact h.t3 u th' hu hts

theorem TimInv.append {tm : Timer} {ths : List (Nat × Th)} (h : TimInv tm ths) (t' : Nat) (th : Th)
    (hts : th.ts ≠ .timing) : TimInv tm (ths ++ [(t', th)]) := by
  refine ⟨?_, h.t2, ?_⟩
  · intro e he
    obtain ⟨th0, h1, h2⟩ := h.t1 e he
    rw [thFind_append, h1]
    exact ⟨th0, rfl, h2⟩
  · intro u th' hu hts'
    rw [thFind_append] at hu
    split at hu
    · rename_i x hx; simp at hu; subst hu; exact h.t3 u x hx hts'
    · split at hu
      · simp at hu; subst hu; exact absurd hts' hts
      · simp at hu

end Morfuse.Sched
