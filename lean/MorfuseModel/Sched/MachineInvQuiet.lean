import MorfuseModel.Sched.MachineInvStruct
/-!
# The destruction cascades never execute script code (program class `ProgOK`)

`Q D s s'` ("quiet step"): no thread is created, no registration is added, a thread's state only moves
towards `running` (or from `waiting` to `timing`: re-timed by `StartTiming`), a VM only becomes
`destroyed`; a thread that had a VM before still has it, or is dead / gone — or is one of the threads
`D` whose destructor is in progress.

Proved for `deleteThread`, `stoppedNotify`, `stop`, `cancelWaitingAll`, `unregisterAll`, and for
`stoppedWaitFor` / `unregister` in the calls the cascades make (channel 0, or `bDeleting`, or a thread
as source): under `NInv` a thread is a source only on channel 0 and owns no `endon` list, so the only
branch that runs script code (`StoppedWaitFor(name ≠ 0, false)` of an idle waiter) is never taken.
-/
namespace Morfuse.Sched
open State

/-- allowed change of one thread record in a quiet step -/
structure QT (th th' : Th) : Prop where
  ts : th'.ts = th.ts ∨ th'.ts = .running ∨ (th.ts = .waiting ∧ th'.ts = .timing)
  vm : th'.vm = th.vm ∨ th'.vm = .destroyed
  hasVM : th'.hasVM = true → th.hasVM = true
  dead : th.dead = true → th'.dead = true
  inst : th'.inst = th.inst
  attached : th'.attached = true → th.attached = true

theorem QT.refl (th : Th) : QT th th := ⟨Or.inl rfl, Or.inl rfl, id, id, rfl, id⟩

theorem QT.trans {a b c : Th} (h1 : QT a b) (h2 : QT b c) : QT a c := by
  refine ⟨?_, ?_, fun h => h1.hasVM (h2.hasVM h), fun h => h2.dead (h1.dead h), h2.inst.trans h1.inst,
    fun h => h1.attached (h2.attached h)⟩
  · rcases h2.ts with e | e | ⟨e1, e2⟩
    · rw [e]; exact h1.ts
    · exact Or.inr (Or.inl e)
    · rcases h1.ts with f | f | ⟨f1, f2⟩
      · right; right; exact ⟨by rw [← f]; exact e1, e2⟩
      · rw [f] at e1; cases e1
      · rw [f2] at e1; cases e1
  · rcases h2.vm with e | e
    · rw [e]; exact h1.vm
    · exact Or.inr e

structure Q (D : List Nat) (s s' : State) : Prop where
  objs : s'.objs = s.objs
  tid : s'.nextTid = s.nextTid
  cur : s'.cur = s.cur
  depth : s'.depth = s.depth
  th : ∀ u th', thFind s'.threads u = some th' → ∃ th, thFind s.threads u = some th ∧ QT th th'
  lost : ∀ u th, thFind s.threads u = some th → th.hasVM = true →
    thFind s'.threads u = none ∨
      ∃ th', thFind s'.threads u = some th' ∧ (th'.hasVM = true ∨ th'.dead = true ∨ u ∈ D)
  subN : Tbl.Sub s'.notify s.notify
  subW : Tbl.Sub s'.waitFor s.waitFor
  subE : ∀ o, Tbl.hasOwner s'.endOn o = true → Tbl.hasOwner s.endOn o = true

namespace Q

theorem refl (D : List Nat) (s : State) : Q D s s where
  objs := rfl
  tid := rfl
  cur := rfl
  depth := rfl
  th := fun u th' h => ⟨th', h, QT.refl _⟩
  lost := fun u th h hv => Or.inr ⟨th, h, Or.inl hv⟩
  subN := Tbl.Sub.refl _
  subW := Tbl.Sub.refl _
  subE := fun _ h => h

theorem trans {D : List Nat} {a b c : State} (h1 : Q D a b) (h2 : Q D b c) : Q D a c where
  objs := h2.objs.trans h1.objs
  tid := h2.tid.trans h1.tid
  cur := h2.cur.trans h1.cur
  depth := h2.depth.trans h1.depth
  th := fun u th'' h => by
    obtain ⟨th', hb, q2⟩ := h2.th u th'' h
    obtain ⟨th, ha, q1⟩ := h1.th u th' hb
    exact ⟨th, ha, q1.trans q2⟩
  lost := fun u th h hv => by
    rcases h1.lost u th h hv with hb | ⟨th', hb, hc⟩
    · left
      cases hcn : thFind c.threads u with
      | none => rfl
      | some th'' =>
        obtain ⟨th', hb', _⟩ := h2.th u th'' hcn
        rw [hb] at hb'; cases hb'
    · cases hcn : thFind c.threads u with
      | none => left; rfl
      | some th'' =>
        right
        refine ⟨th'', rfl, ?_⟩
        rcases hc with hc | hc | hc
        · rcases h2.lost u th' hb hc with h3 | ⟨th3, h3, h4⟩
          · rw [h3] at hcn; cases hcn
          · rw [hcn] at h3; cases h3; exact h4
        · obtain ⟨th2, hb', q2⟩ := h2.th u th'' hcn
          rw [hb] at hb'; cases hb'
          exact Or.inr (Or.inl (q2.dead hc))
        · exact Or.inr (Or.inr hc)
  subN := h2.subN.trans h1.subN
  subW := h2.subW.trans h1.subW
  subE := fun o h => h1.subE o (h2.subE o h)

theorem mono {D D' : List Nat} {a b : State} (h : Q D a b) (hs : ∀ x ∈ D, x ∈ D') : Q D' a b := by
  refine ⟨h.objs, h.tid, h.cur, h.depth, h.th, ?_, h.subN, h.subW, h.subE⟩
  intro u th hf hv
  rcases h.lost u th hf hv with h1 | ⟨th', h1, h2⟩
  · exact Or.inl h1
  · refine Or.inr ⟨th', h1, ?_⟩
    rcases h2 with h2 | h2 | h2
    · exact Or.inl h2
    · exact Or.inr (Or.inl h2)
    · exact Or.inr (Or.inr (hs u h2))

/-- a step that does not touch threads, tables, objects, `cur`, `depth` -/
theorem of_eq {D : List Nat} {s s' : State} (e1 : s'.threads = s.threads) (e2 : s'.objs = s.objs)
    (e3 : s'.nextTid = s.nextTid) (e4 : s'.cur = s.cur) (e5 : s'.depth = s.depth)
    (e6 : s'.notify = s.notify) (e7 : s'.waitFor = s.waitFor) (e8 : s'.endOn = s.endOn) : Q D s s' where
  objs := e2
  tid := e3
  cur := e4
  depth := e5
  th := fun u th' h => ⟨th', by rw [← e1]; exact h, QT.refl _⟩
  lost := fun u th h hv => Or.inr ⟨th, by rw [e1]; exact h, Or.inl hv⟩
  subN := by rw [e6]; exact Tbl.Sub.refl _
  subW := by rw [e7]; exact Tbl.Sub.refl _
  subE := by rw [e8]; exact fun _ h => h

/-- `setTh` with a record update allowed by `QT` that keeps `hasVM`, or on a thread of `D` -/
theorem setTh {D : List Nat} (s : State) (t : Nat) (f : Th → Th) (hf : ∀ th, QT th (f th))
    (hv : (∀ th, th.hasVM = true → (f th).hasVM = true) ∨ t ∈ D) : Q D s (s.setTh t f) where
  objs := rfl
  tid := rfl
  cur := rfl
  depth := rfl
  th := fun u th' h => by
    rw [State.setTh_threads, thFind_map_upd] at h
    split at h
    · rename_i hut; subst hut
      cases hf' : thFind s.threads u with
      | none => simp [hf'] at h
      | some th => simp [hf'] at h; exact ⟨th, rfl, by rw [← h]; exact hf th⟩
    · exact ⟨th', h, QT.refl _⟩
  lost := fun u th h hvm => by
    right
    rw [State.setTh_threads, thFind_map_upd]
    split
    · rename_i hut; subst hut
      refine ⟨f th, by simp [h], ?_⟩
      rcases hv with hv | hv
      · exact Or.inl (hv th hvm)
      · exact Or.inr (Or.inr hv)
    · exact ⟨th, h, Or.inl hvm⟩
  subN := Tbl.Sub.refl _
  subW := Tbl.Sub.refl _
  subE := fun _ h => h

theorem setTables {D : List Nat} (s : State) (N W : Tbl) (hN : Tbl.Sub N s.notify) (hW : Tbl.Sub W s.waitFor) :
    Q D s { s with notify := N, waitFor := W } :=
  { Q.refl D s with subN := hN, subW := hW }

end Q

theorem removeFromInst_q (D : List Nat) (s : State) (t i : Nat) : Q D s (removeFromInst s t i) := by
  rw [removeFromInst_frame]; exact Q.of_eq rfl rfl rfl rfl rfl rfl rfl rfl

/-- quiet functions of the cascade, under `NInv` -/
def Q1 (f : State → Nat → State) : Prop := ∀ D s a, NInv s → Q D s (f s a)

theorem Q.foldl {α : Type} {D : List Nat} (f : State → α → State)
    (hn : ∀ s a, NInv s → NInv (f s a)) (hf : ∀ s a, NInv s → Q D s (f s a)) :
    ∀ (l : List α) (s : State), NInv s → Q D s (l.foldl f s)
  | [], s, _ => Q.refl D s
  | a :: l, s, h => (hf s a h).trans (Q.foldl f hn hf l (f s a) (hn s a h))

theorem qt_running (th : Th) : QT th { th with ts := .running } :=
  ⟨Or.inr (Or.inl rfl), Or.inl rfl, id, id, rfl, id⟩

theorem stopStep_q {cw : State → Nat → State} (hcw : Q1 cw) (D : List Nat) {s : State}
    (h : NInv s) (t : Nat) (th : Th) : Q D s (stopStep cw s t th) := by
  unfold stopStep
  split
  · exact (Q.setTh s t _ qt_running (Or.inl fun _ h => h)).trans
      (Q.of_eq rfl rfl rfl rfl rfl rfl rfl rfl)
  · split
    · exact (Q.setTh s t _ qt_running (Or.inl fun _ h => h)).trans (hcw D _ _ (h.setTh t _))
    · exact Q.refl D s

theorem notifyDelete_q (D : List Nat) (s : State) (t : Nat) : Q D s (notifyDelete s t) := by
  unfold notifyDelete
  split
  · exact Q.refl D s
  · rename_i th _
    have q1 : Q D s (s.setTh t fun th => { th with vm := .destroyed }) :=
      Q.setTh s t _ (fun th => ⟨Or.inl rfl, Or.inr rfl, id, id, rfl, id⟩) (Or.inl fun _ h => h)
    have h1 : Q D s (if th.attached = true then removeFromInst (s.setTh t fun th => { th with vm := .destroyed }) t th.inst
        else s.setTh t fun th => { th with vm := .destroyed }) := by
      split
      · exact q1.trans (removeFromInst_q D _ _ _)
      · exact q1
    simp only
    split
    · exact h1.trans (Q.setTh _ t _ (fun th => ⟨Or.inl rfl, Or.inl rfl, id, id, rfl, id⟩) (Or.inl fun _ h => h))
    · exact h1

/-- the end of the destructor: `t` is dead or gone afterwards -/
theorem finishDelete_q (D : List Nat) (s : State) (t : Nat) : Q D s (finishDelete s t) := by
  unfold finishDelete
  split
  · exact Q.refl D s
  · split
    · exact
      { Q.refl D s with
        th := fun u th' h => by
          rw [State.setTh_threads, thFind_map_upd] at h
          split at h
          · rename_i hut; subst hut
            cases hf' : thFind s.threads u with
            | none => simp [hf'] at h
            | some th =>
              simp [hf'] at h
              exact ⟨th, rfl, by rw [← h]; exact ⟨Or.inl rfl, Or.inl rfl, id, fun _ => rfl, rfl, id⟩⟩
          · exact ⟨th', h, QT.refl _⟩
        lost := fun u th h hvm => by
          right
          rw [State.setTh_threads, thFind_map_upd]
          split
          · rename_i hut; subst hut
            exact ⟨{ th with dead := true }, by simp [h], Or.inr (Or.inl rfl)⟩
          · exact ⟨th, h, Or.inl hvm⟩ }
    · exact
      { Q.refl D s with
        th := fun u th' h => by
          simp only at h
          rw [thFind_filter_ne] at h
          split at h
          · simp at h
          · exact ⟨th', h, QT.refl _⟩
        lost := fun u th h hvm => by
          simp only
          rw [thFind_filter_ne]
          split
          · exact Or.inl rfl
          · exact Or.inr ⟨th, h, Or.inl hvm⟩ }

theorem finishDelete_gone (s : State) (t : Nat) :
    thFind (finishDelete s t).threads t = none ∨
      ∃ th', thFind (finishDelete s t).threads t = some th' ∧ th'.dead = true := by
  unfold finishDelete
  cases hf : s.th? t with
  | none => left; simp only; rw [← State.th?_eq]; exact hf
  | some th =>
    simp only
    split
    · right
      rw [State.setTh_threads, thFind_map_upd]
      rw [State.th?_eq] at hf
      exact ⟨{ th with dead := true }, by simp [hf], rfl⟩
    · left
      simp only
      rw [thFind_filter_ne]; simp

theorem cancelEvents_q (D : List Nat) (s : State) (t : Nat) : Q D s (cancelEvents s t) :=
  Q.of_eq rfl rfl rfl rfl rfl rfl rfl rfl

theorem notifyLoop_q {sn : State → Nat → State} (hn : N1 sn) (hsn : Q1 sn) (D : List Nat) {s : State}
    (h : NInv s) (stopped : List Nat) : Q D s (notifyLoop sn s stopped) := by
  unfold notifyLoop
  apply Q.foldl _ _ _ _ _ h
  · intro s a hs
    split
    · exact hn s a hs
    · exact hs
  · intro s a hs
    split
    · exact hsn D s a hs
    · exact Q.refl D s

/-- `StoppedWaitFor` as the cascades call it: channel 0 or `bDeleting` -/
def Q3 (f : State → Nat → Nat → Bool → State) : Prop :=
  ∀ D s t name d, NInv s → (name = 0 ∨ d = true) → Q D s (f s t name d)

theorem cwaZero_q {swf : State → Nat → Nat → Bool → State} {sn : State → Nat → State}
    (hn3 : N3 swf) (hn1 : N1 sn) (hswf : Q3 swf) (hsn : Q1 sn) (D : List Nat) {s : State} (h : NInv s) (w : Nat) :
    Q D s (cwaZero swf sn s w) := by
  unfold cwaZero
  split
  · exact Q.refl D s
  · rename_i list _
    simp only [cancelWaitingSources_eq_purge]
    have h1 : NInv ({ ({ s with notify := (Tbl.purge s.alive s.notify w 0 list []).1 } : State) with
        waitFor := Tbl.removeKey s.waitFor (w, 0) }) :=
      (h.setNotify _ (Tbl.purge_WF _ h.wfN _ _ _ _) (Tbl.Sub.purge _ _ _ _ _ _)).setWaitFor _
        (h.wfW.removeKey _) (Tbl.Sub.removeKey _ _)
    have q1 : Q D s ({ ({ s with notify := (Tbl.purge s.alive s.notify w 0 list []).1 } : State) with
        waitFor := Tbl.removeKey s.waitFor (w, 0) }) :=
      Q.setTables s _ _ (Tbl.Sub.purge _ _ _ _ _ _) (Tbl.Sub.removeKey _ _)
    split
    · exact (q1.trans (hswf D _ _ _ _ h1 (Or.inl rfl))).trans (notifyLoop_q hn1 hsn D (hn3 _ _ _ _ h1) _)
    · exact q1.trans (notifyLoop_q hn1 hsn D h1 _)

theorem cwaRest_q {swf : State → Nat → Nat → Bool → State} {sn : State → Nat → State}
    (hn3 : N3 swf) (hn1 : N1 sn) (hswf : Q3 swf) (hsn : Q1 sn) (D : List Nat) {s : State} (h : NInv s) (w : Nat) :
    Q D s (cwaRest swf sn s w) := by
  unfold cwaRest
  split
  · exact Q.refl D s
  · simp only [cwaSources_frame]
    have h1 : NInv ({ ({ s with notify := (Tbl.multiPurge s.alive s.notify w (Tbl.keysOf s.waitFor w) []).1 } : State) with
        waitFor := Tbl.removeOwner s.waitFor w }) :=
      (h.setNotify _ (Tbl.multiPurge_WF _ _ _ _ _ h.wfN) (Tbl.Sub.multiPurge _ _ _ _ _)).setWaitFor _
        (h.wfW.removeOwner _) (Tbl.Sub.removeOwner _ _)
    have q1 : Q D s ({ ({ s with notify := (Tbl.multiPurge s.alive s.notify w (Tbl.keysOf s.waitFor w) []).1 } : State) with
        waitFor := Tbl.removeOwner s.waitFor w }) :=
      Q.setTables s _ _ (Tbl.Sub.multiPurge _ _ _ _ _) (Tbl.Sub.removeOwner _ _)
    exact (q1.trans (hswf D _ _ _ _ h1 (Or.inl rfl))).trans (notifyLoop_q hn1 hsn D (hn3 _ _ _ _ h1) _)

/-- re-timing a thread that was `waiting` before the step -/
theorem Q.setTh_timing {D : List Nat} {s s1 : State} (hq : Q D s s1) (t : Nat)
    (hw : ∀ th, thFind s.threads t = some th → th.ts = .waiting) :
    Q D s (s1.setTh t (fun th => { th with ts := .timing })) := by
  refine ⟨hq.objs, hq.tid, hq.cur, hq.depth, ?_, ?_, hq.subN, hq.subW, hq.subE⟩
  · intro u th' h
    rw [State.setTh_threads, thFind_map_upd] at h
    split at h
    · rename_i hut; subst hut
      cases hf' : thFind s1.threads u with
      | none => simp [hf'] at h
      | some th1 =>
        simp [hf'] at h
        obtain ⟨th, hth, q⟩ := hq.th u th1 hf'
        refine ⟨th, hth, ?_⟩
        rw [← h]
        exact ⟨Or.inr (Or.inr ⟨hw th hth, rfl⟩), q.vm, q.hasVM, q.dead, q.inst, q.attached⟩
    · exact hq.th u th' h
  · intro u th h hvm
    rcases hq.lost u th h hvm with h1 | ⟨th1, h1, h2⟩
    · left
      rw [State.setTh_threads, thFind_map_upd]
      split
      · rename_i hut; subst hut; simp [h1]
      · exact h1
    · right
      rw [State.setTh_threads, thFind_map_upd]
      split
      · rename_i hut; subst hut
        exact ⟨{ th1 with ts := .timing }, by simp [h1], h2⟩
      · exact ⟨th1, h1, h2⟩

theorem startTiming_q {stp : State → Nat → State} (hstp : Q1 stp) (D : List Nat) {s : State} (h : NInv s)
    (t : Nat) (hw : ∀ th, thFind s.threads t = some th → th.ts = .waiting) :
    Q D s (startTiming stp s t) := by
  unfold startTiming
  split
  · exact hstp D s t h
  · exact ((hstp D s t h).setTh_timing t hw).trans (Q.of_eq rfl rfl rfl rfl rfl rfl rfl rfl)

theorem endOnLoop_q {dt : State → Nat → State} (hn : N1 dt) (hd : Q1 dt) (D : List Nat) {s : State}
    (h : NInv s) (src name : Nat) (listeners : List Nat) : Q D s (endOnLoop dt s src name listeners).1 := by
  unfold endOnLoop
  generalize listeners.reverse = L
  suffices hs : ∀ (L : List Nat) (acc : State × Bool), NInv acc.1 → Q D s acc.1 →
      Q D s (L.foldl (fun (acc : State × Bool) l =>
        if acc.1.alive l then
          if l == src && (name == nameRemove || name == nameDelete || acc.2) then acc
          else (dt acc.1 l, acc.2 || (l == src))
        else acc) acc).1 from hs L (s, false) h (Q.refl D s)
  intro L
  induction L with
  | nil => intro acc _ h; exact h
  | cons l L ih =>
    intro acc hacc qacc
    simp only [List.foldl_cons]
    split
    · split
      · exact ih _ hacc qacc
      · exact ih _ (hn _ _ hacc) (qacc.trans (hd D _ _ hacc))
    · exact ih _ hacc qacc

theorem unregEndOn_q {dt : State → Nat → State} (hn : N1 dt) (hd : Q1 dt) (D : List Nat) {s : State}
    (h : NInv s) (src name : Nat) : Q D s (unregEndOn dt s src name).1 := by
  unfold unregEndOn
  split
  · exact Q.refl D s
  · split
    · exact Q.refl D s
    · have h1 : NInv { s with endOn := Tbl.removeKey s.endOn (src, name) } :=
        h.setEndOn _ (fun o ho => Or.inl (Tbl.hasOwner_removeKey ho))
      have q1 : Q D s { s with endOn := Tbl.removeKey s.endOn (src, name) } :=
        { Q.refl D s with subE := fun o ho => Tbl.hasOwner_removeKey ho }
      exact q1.trans (endOnLoop_q hn hd D h1 _ _ _)

theorem wakeLoop_q {swf : State → Nat → Nat → Bool → State} (hn : N3 swf) (hswf : Q3 swf) (D : List Nat)
    {s : State} (h : NInv s) (stopped : List Nat) : Q D s (wakeLoop swf s 0 stopped) := by
  unfold wakeLoop
  apply Q.foldl _ _ _ _ _ h
  · intro s a hs
    split
    · exact hn _ _ _ _ hs
    · exact hs
  · intro s a hs
    split
    · exact hswf D _ _ _ _ hs (Or.inl rfl)
    · exact Q.refl D s

/-- the notify part of `Unregister(name)` when it cannot run script code -/
theorem unregNotify_q {swf : State → Nat → Nat → Bool → State} {sn : State → Nat → State}
    (hn3 : N3 swf) (hn1 : N1 sn) (hswf : Q3 swf) (hsn : Q1 sn) (D : List Nat) {s : State} (h : NInv s)
    (src name : Nat) (hq : name = 0 ∨ QSrc src name) : Q D s (unregNotify swf sn s src name) := by
  unfold unregNotify
  split
  · exact Q.refl D s
  · split
    · exact Q.refl D s
    · rename_i list hfind
      -- a thread source has no list under a name other than 0
      have hname : name = 0 := by
        rcases hq with hq | hq
        · exact hq
        · exfalso
          have hk := h.n1 src name hq.1 (by rw [Tbl.find_eq_getD_of_some hfind]; exact h.wfN.find_ne_nil hfind)
          rcases hq.2 with e | e
          · exact hk.1 e
          · exact hk.2 e
      subst hname
      simp only [unregisterTargets_eq_purge]
      have h1 : NInv ({ ({ s with waitFor := (Tbl.purge s.alive s.waitFor src 0 list []).1 } : State) with
          notify := Tbl.removeKey s.notify (src, 0) }) :=
        (h.setWaitFor _ (Tbl.purge_WF _ h.wfW _ _ _ _) (Tbl.Sub.purge _ _ _ _ _ _)).setNotify _
          (h.wfN.removeKey _) (Tbl.Sub.removeKey _ _)
      have q1 : Q D s ({ ({ s with waitFor := (Tbl.purge s.alive s.waitFor src 0 list []).1 } : State) with
          notify := Tbl.removeKey s.notify (src, 0) }) :=
        { Q.refl D s with subN := Tbl.Sub.removeKey _ _, subW := Tbl.Sub.purge _ _ _ _ _ _ }
      split
      · exact (q1.trans (hsn D _ _ h1)).trans (wakeLoop_q hn3 hswf D (hn1 _ _ h1) _)
      · exact q1.trans (wakeLoop_q hn3 hswf D h1 _)

theorem killLoop_q {swf : State → Nat → Nat → Bool → State} (hn : N3 swf) (hswf : Q3 swf) (D : List Nat)
    {s : State} (h : NInv s) (stopped : List (Nat × Nat)) : Q D s (killLoop swf s stopped) := by
  unfold killLoop
  apply Q.foldl _ _ _ _ _ h
  · intro s a hs
    split
    · exact hn _ _ _ _ hs
    · exact hs
  · intro s a hs
    split
    · exact hswf D _ _ _ _ hs (Or.inr rfl)
    · exact Q.refl D s

theorem uaRest_q {swf : State → Nat → Nat → Bool → State} {sn : State → Nat → State}
    (hn3 : N3 swf) (hn1 : N1 sn) (hswf : Q3 swf) (hsn : Q1 sn) (D : List Nat) {s : State} (h : NInv s)
    (src : Nat) : Q D s (uaRest swf sn s src) := by
  unfold uaRest
  split
  · exact Q.refl D s
  · simp only
    rw [uaTargets_frame]
    have h1 : NInv ({ ({ s with waitFor := (Tbl.multiPurge s.alive s.waitFor src (Tbl.keysOf s.notify src) []).1 } : State) with
        notify := Tbl.removeOwner s.notify src }) :=
      (h.setWaitFor _ (Tbl.multiPurge_WF _ _ _ _ _ h.wfW) (Tbl.Sub.multiPurge _ _ _ _ _)).setNotify _
        (h.wfN.removeOwner _) (Tbl.Sub.removeOwner _ _)
    have q1 : Q D s ({ ({ s with waitFor := (Tbl.multiPurge s.alive s.waitFor src (Tbl.keysOf s.notify src) []).1 } : State) with
        notify := Tbl.removeOwner s.notify src }) :=
      { Q.refl D s with subN := Tbl.Sub.removeOwner _ _, subW := Tbl.Sub.multiPurge _ _ _ _ _ }
    exact (q1.trans (hsn D _ _ h1)).trans (killLoop_q hn3 hswf D (hn1 _ _ h1) _)

/-! ### induction -/

structure QAll (fuel : Nat) : Prop where
  dt : Q1 (deleteThread fuel)
  sn : Q1 (stoppedNotify fuel)
  stp : Q1 (stop fuel)
  cwa : Q1 (cancelWaitingAll fuel)
  swf : Q3 (stoppedWaitFor fuel)
  ur : ∀ D s src name, NInv s → (name = 0 ∨ QSrc src name) → Q D s (unregister fuel s src name)
  ua : Q1 (unregisterAll fuel)

theorem Q.fuel (D : List Nat) (s : State) : Q D s { s with outOfFuel := true } :=
  Q.of_eq rfl rfl rfl rfl rfl rfl rfl rfl

theorem qAll_zero : QAll 0 where
  dt := fun D s t _ => by rw [deleteThread_zero]; exact Q.fuel D s
  sn := fun D s t _ => by rw [stoppedNotify_zero]; exact Q.fuel D s
  stp := fun D s t _ => by rw [stop_zero]; exact Q.fuel D s
  cwa := fun D s t _ => by rw [cancelWaitingAll_zero]; exact Q.fuel D s
  swf := fun D s t n d _ _ => by rw [stoppedWaitFor_zero]; exact Q.fuel D s
  ur := fun D s t n _ _ => by rw [unregister_zero]; exact Q.fuel D s
  ua := fun D s t _ => by rw [unregisterAll_zero]; exact Q.fuel D s

theorem qAll_succ {fuel : Nat} (ih : QAll fuel) : QAll (fuel + 1) := by
  have n := nAll fuel
  refine ⟨?_, ?_, ?_, ?_, ?_, ?_, ?_⟩
  · -- deleteThread: inside, `t` is one of the threads being destroyed
    intro D s t h
    rw [deleteThread_succ]
    cases hf : s.th? t with
    | none => exact Q.refl D s
    | some th =>
      simp only
      split
      · exact Q.refl D s
      · rename_i hvm
        have ht : 100 ≤ t := (h.range t th (by rw [← State.th?_eq]; exact hf)).1
        have h0 : NInv (s.setTh t fun th => { th with hasVM := false }) := h.setTh t _
        have q0 : Q (t :: D) s (s.setTh t fun th => { th with hasVM := false }) :=
          Q.setTh s t _ (fun th => ⟨Or.inl rfl, Or.inl rfl, fun h => (by cases h), id, rfl, id⟩)
            (Or.inr List.mem_cons_self)
        have h1 := stopStep_ninv n.cwa h0 t th
        have q1 := q0.trans (stopStep_q ih.cwa (t :: D) h0 t th)
        have h2 := notifyDelete_ninv h1 t
        have q2 := q1.trans (notifyDelete_q (t :: D) _ t)
        have h3 := cancelEvents_ninv h2 t
        have q3 := q2.trans (cancelEvents_q (t :: D) _ t)
        have h4 := n.ur _ t nameDelete h3
        have q4 := q3.trans (ih.ur (t :: D) _ t nameDelete h3 (Or.inr ⟨ht, Or.inl rfl⟩))
        have h5 := n.ur _ t nameRemove h4
        have q5 := q4.trans (ih.ur (t :: D) _ t nameRemove h4 (Or.inr ⟨ht, Or.inr rfl⟩))
        have h6 := n.ua _ t h5
        have q6 := q5.trans (ih.ua (t :: D) _ t h5)
        have q7 := q6.trans (ih.cwa (t :: D) _ t h6)
        have q8 := q7.trans (finishDelete_q (t :: D) _ t)
        -- discharge `t`: it is dead or gone at the end
        refine ⟨q8.objs, q8.tid, q8.cur, q8.depth, q8.th, ?_, q8.subN, q8.subW, q8.subE⟩
        intro u thu hu hvu
        rcases q8.lost u thu hu hvu with h9 | ⟨th', h9, h10⟩
        · exact Or.inl h9
        · rcases h10 with h10 | h10 | h10
          · exact Or.inr ⟨th', h9, Or.inl h10⟩
          · exact Or.inr ⟨th', h9, Or.inr (Or.inl h10)⟩
          · rcases List.mem_cons.1 h10 with h10 | h10
            · subst h10
              rcases finishDelete_gone (cancelWaitingAll fuel (unregisterAll fuel (unregister fuel (unregister fuel
                (cancelEvents (notifyDelete (stopStep (cancelWaitingAll fuel)
                  (s.setTh u (fun th => { th with hasVM := false })) u th) u) u)
                u nameDelete) u nameRemove) u) u) u with g | ⟨th2, g1, g2⟩
              · exact Or.inl g
              · rw [h9] at g1; cases g1
                exact Or.inr ⟨th', h9, Or.inr (Or.inl g2)⟩
            · exact Or.inr ⟨th', h9, Or.inr (Or.inr h10)⟩
  · intro D s l h
    rw [stoppedNotify_succ]
    split
    · split
      · exact ih.dt D _ _ h
      · exact Q.refl D s
    · exact Q.refl D s
  · intro D s t h
    rw [stop_succ]
    split
    · exact Q.refl D s
    · exact stopStep_q ih.cwa D h _ _
  · intro D s w h
    rw [cancelWaitingAll_succ]
    exact (cwaZero_q n.swf n.sn ih.swf ih.sn D h w).trans
      (cwaRest_q n.swf n.sn ih.swf ih.sn D (cwaZero_ninv n.swf n.sn h w) w)
  · intro D s t name d h hq
    rw [stoppedWaitFor_succ]
    split
    · exact Q.refl D s
    · cases hf : s.th? t with
      | none => exact Q.refl D s
      | some th =>
        simp only
        split
        · exact Q.refl D s
        · split
          · exact ih.dt D _ _ h
          · rename_i hd
            have hname : name = 0 := by
              rcases hq with hq | hq
              · exact hq
              · exact absurd hq hd
            subst hname
            split
            · rename_i hw
              simp only [bne_self_eq_false, Bool.false_eq_true, if_false]
              refine (cancelEvents_q D s t).trans (startTiming_q ih.stp D (cancelEvents_ninv h t) t ?_)
              intro th0 hth0
              have : thFind s.threads t = some th := by rw [← State.th?_eq]; exact hf
              have e : th0 = th := by
                have h' : thFind (cancelEvents s t).threads t = thFind s.threads t := rfl
                rw [h', this] at hth0; cases hth0; rfl
              rw [e]; simpa using hw
            · exact cancelEvents_q D s t
  · intro D s src name h hq
    rw [unregister_succ]
    have q1 := unregEndOn_q n.dt ih.dt D h src name
    split
    · exact q1
    · exact q1.trans (unregNotify_q n.swf n.sn ih.swf ih.sn D (unregEndOn_ninv n.dt h src name) src name hq)
  · intro D s src h
    rw [unregisterAll_succ]
    have h1 := n.ur s src 0 h
    have q1 := ih.ur D s src 0 h (Or.inl rfl)
    have h2 : NInv { (unregister fuel s src 0) with endOn := Tbl.removeOwner (unregister fuel s src 0).endOn src } :=
      h1.setEndOn _ (fun o ho => Or.inl (Tbl.hasOwner_removeOwner ho))
    have q2 : Q D (unregister fuel s src 0)
        { (unregister fuel s src 0) with endOn := Tbl.removeOwner (unregister fuel s src 0).endOn src } :=
      { Q.refl D _ with subE := fun o ho => Tbl.hasOwner_removeOwner ho }
    exact (q1.trans q2).trans (uaRest_q n.swf n.sn ih.swf ih.sn D h2 src)

theorem qAll : ∀ fuel, QAll fuel
  | 0 => qAll_zero
  | fuel + 1 => qAll_succ (qAll fuel)

end Morfuse.Sched
