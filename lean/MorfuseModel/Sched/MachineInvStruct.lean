import MorfuseModel.Sched.MachineInvPres
/-!
# Structural invariant of the machine (`NInv`), for every function of the mutual block

The program class: `ProgOK` = object ids are below 100 (ids from 100 on are threads) and a script that
waits on a thread object by name (`local.p0 waittill n`) does not use the two names the engine itself notifies
when a listener is destroyed (`delete`, `remove`), so that `~ScriptThread` never wakes anybody by execution.  `NInv` holds at every call boundary of the machine, with
no exception inside the cascades:

* thread ids are distinct, `≥ 100` and below `nextTid`; parents are threads or 0;
* the notify and wait-for tables have distinct keys and no empty list; waiters and wait-for owners are
  threads; a *thread* is a notify source only under channel 0; `endon` lists belong to objects;
* the current thread and every timer element is a thread id.
-/
namespace Morfuse.Sched
open State

/-- a name a script may wait on: not one of the two event names the engine itself notifies on destruction -/
def NameOK (n : Nat) : Prop := n ≠ nameDelete ∧ n ≠ nameRemove

instance (n : Nat) : Decidable (NameOK n) := by unfold NameOK; infer_instance

theorem nameOK_zero : NameOK 0 := by decide

/-- `src` is a thread and `name` is one of the engine's own destruction events: nobody waits there -/
def QSrc (src name : Nat) : Prop := 100 ≤ src ∧ (name = nameDelete ∨ name = nameRemove)

def Instr.ok : Instr → Prop
  | .spawn o => o < 100
  | .waittillParent names => ∀ n ∈ names, NameOK n
  | _ => True

theorem foldl_mem_inv {α : Type} (P : State → Prop) (f : State → α → State) :
    ∀ (l : List α) (s : State), (∀ a ∈ l, ∀ s, P s → P (f s a)) → P s → P (l.foldl f s)
  | [], _, _, h => h
  | a :: l, s, hf, h => foldl_mem_inv P f l (f s a) (fun b hb => hf b (List.mem_cons_of_mem _ hb))
      (hf a List.mem_cons_self s h)

def ProgOK (prog : List (List Instr)) : Prop := ∀ body ∈ prog, ∀ ins ∈ body, ins.ok

theorem getD_mem_or {α : Type} (l : List α) (i : Nat) (d : α) : l.getD i d ∈ l ∨ l.getD i d = d := by
  rw [List.getD_eq_getElem?_getD]
  cases h : l[i]? with
  | none => right; rfl
  | some x => left; simp only [Option.getD_some]; exact List.mem_of_getElem? h

theorem ProgOK.fetch {prog : List (List Instr)} (h : ProgOK prog) (l pc : Nat) :
    ((prog.getD l []).getD pc (.end_ .none)).ok := by
  rcases getD_mem_or (prog.getD l []) pc (.end_ .none) with hm | hd
  · rcases getD_mem_or prog l [] with hb | hb
    · exact h _ hb _ hm
    · rw [hb] at hm; simp at hm
  · rw [hd]; trivial

namespace Tbl

/-- every list of `a` is contained in the list of `b` under the same key -/
def Sub (a b : Tbl) : Prop := ∀ k x, x ∈ getD a k → x ∈ getD b k

theorem Sub.refl (a : Tbl) : Sub a a := fun _ _ h => h
theorem Sub.trans {a b c : Tbl} (h1 : Sub a b) (h2 : Sub b c) : Sub a c := fun k x h => h2 k x (h1 k x h)

theorem Sub.removeKey (a : Tbl) (k : Key) : Sub (removeKey a k) a := by
  intro k' x h; rw [getD_removeKey] at h; split at h
  · simp at h
  · exact h

theorem Sub.removeOwner (a : Tbl) (o : Nat) : Sub (removeOwner a o) a := by
  intro k' x h; rw [getD_removeOwner] at h; split at h
  · simp at h
  · exact h

theorem Sub.purge (al : Nat → Bool) (a : Tbl) (x name : Nat) (list st : List Nat) :
    Sub (purge al a x name list st).1 a := by
  intro k y h; rw [purge_getD] at h; split at h
  · exact (List.mem_filter.1 h).1
  · exact h

theorem Sub.multiPurge (al : Nat → Bool) (a : Tbl) (x : Nat) (keys : List (Nat × List Nat)) (st : List Nat) :
    Sub (multiPurge al a x keys st).1 a := by
  intro k y h; rw [multiPurge_getD] at h; split at h
  · exact (List.mem_filter.1 h).1
  · exact h

theorem Sub.ne_nil {a b : Tbl} (h : Sub a b) {k : Key} (hn : getD a k ≠ []) : getD b k ≠ [] := by
  obtain ⟨x, hx⟩ := List.exists_mem_of_ne_nil _ hn
  exact List.ne_nil_of_mem (h k x hx)

theorem hasOwner_removeKey {t : Tbl} {k : Key} {o : Nat} (h : hasOwner (Tbl.removeKey t k) o = true) :
    hasOwner t o = true := by
  unfold hasOwner Tbl.removeKey at *
  simp only [List.any_eq_true, List.mem_filter] at *
  obtain ⟨e, ⟨hm, _⟩, he⟩ := h
  exact ⟨e, hm, he⟩

theorem hasOwner_removeOwner {t : Tbl} {o' o : Nat} (h : hasOwner (Tbl.removeOwner t o') o = true) :
    hasOwner t o = true := by
  unfold hasOwner Tbl.removeOwner at *
  simp only [List.any_eq_true, List.mem_filter] at *
  obtain ⟨e, ⟨hm, _⟩, he⟩ := h
  exact ⟨e, hm, he⟩

theorem hasOwner_push {t : Tbl} {k : Key} {x o : Nat} (h : hasOwner (Tbl.push t k x) o = true) :
    hasOwner t o = true ∨ o = k.1 := by
  unfold Tbl.push at h
  split at h
  · left
    unfold hasOwner at *
    simp only [List.any_eq_true, List.mem_map] at *
    obtain ⟨e, ⟨e0, hm, rfl⟩, he⟩ := h
    refine ⟨e0, hm, ?_⟩
    split at he <;> exact he
  · unfold hasOwner at *
    simp only [List.any_append, Bool.or_eq_true, List.any_cons, List.any_nil, Bool.or_false, beq_iff_eq] at h
    rcases h with h | h
    · left; exact h
    · right; exact h.symm

theorem hasOwner_pushUnique {t : Tbl} {k : Key} {x o : Nat} (h : hasOwner (Tbl.pushUnique t k x) o = true) :
    hasOwner t o = true ∨ o = k.1 := by
  unfold Tbl.pushUnique at h
  split at h
  · exact Or.inl h
  · exact hasOwner_push h

end Tbl

structure NInv (s : State) : Prop where
  nodup : (s.threads.map (·.1)).Nodup
  range : ∀ t th, thFind s.threads t = some th → 100 ≤ t ∧ t < s.nextTid
  tid100 : 100 ≤ s.nextTid
  parent : ∀ t th, thFind s.threads t = some th → th.parent = 0 ∨ 100 ≤ th.parent
  wfN : Tbl.WF s.notify
  wfW : Tbl.WF s.waitFor
  prog : ProgOK s.prog
  objs : ∀ o ∈ s.objs, o < 100
  n1 : ∀ src n, 100 ≤ src → Tbl.getD s.notify (src, n) ≠ [] → NameOK n
  n2 : ∀ src, 100 ≤ src → Tbl.hasOwner s.endOn src = false
  nMem : ∀ k x, x ∈ Tbl.getD s.notify k → 100 ≤ x
  wOwn : ∀ o n, Tbl.getD s.waitFor (o, n) ≠ [] → 100 ≤ o
  cur : ∀ c, s.cur = some c → 100 ≤ c
  tim : ∀ e ∈ s.timer.elems, 100 ≤ e.1

namespace NInv

/-- fields `NInv` does not read may change freely -/
theorem congr {s s' : State} (h : NInv s) (e1 : s'.threads = s.threads) (e2 : s'.nextTid = s.nextTid)
    (e3 : s'.notify = s.notify) (e4 : s'.waitFor = s.waitFor) (e5 : s'.endOn = s.endOn)
    (e6 : s'.prog = s.prog) (e7 : s'.objs = s.objs) (e8 : s'.cur = s.cur) (e9 : s'.timer = s.timer) :
    NInv s' := by
  constructor
  · rw [e1]; exact h.nodup
  · rw [e1, e2]; exact h.range
  · rw [e2]; exact h.tid100
  · rw [e1]; exact h.parent
  · rw [e3]; exact h.wfN
  · rw [e4]; exact h.wfW
  · rw [e6]; exact h.prog
  · rw [e7]; exact h.objs
  · rw [e3]; exact h.n1
  · rw [e5]; exact h.n2
  · rw [e3]; exact h.nMem
  · rw [e4]; exact h.wOwn
  · rw [e8]; exact h.cur
  · rw [e9]; exact h.tim

theorem setTh {s : State} (h : NInv s) (t : Nat) (f : Th → Th)
    (hf : ∀ th, (f th).parent = th.parent := by intros; rfl) :
    NInv (s.setTh t f) := by
  have hfind : ∀ u th', thFind (s.setTh t f).threads u = some th' →
      ∃ th, thFind s.threads u = some th ∧ th'.parent = th.parent := by
    intro u th' hu
    rw [State.setTh_threads, thFind_map_upd] at hu
    split at hu
    · rename_i hut
      subst hut
      cases hf' : thFind s.threads u with
      | none => simp [hf'] at hu
      | some th =>
        simp [hf'] at hu
        exact ⟨th, rfl, by rw [← hu, hf]⟩
    · exact ⟨th', hu, rfl⟩
  refine { h with nodup := ?_, range := ?_, parent := ?_ }
  · rw [State.setTh_threads, map_upd_keys]; exact h.nodup
  · intro u th' hu
    obtain ⟨th, h1, _⟩ := hfind u th' hu
    exact h.range u th h1
  · intro u th' hu
    obtain ⟨th, h1, h2⟩ := hfind u th' hu
    rw [h2]; exact h.parent u th h1

theorem filterTh {s : State} (h : NInv s) (t : Nat) :
    NInv { s with threads := s.threads.filter (fun e => !(e.1 == t)) } := by
  refine { h with nodup := ?_, range := ?_, parent := ?_ }
  · exact (List.filter_sublist.map _).nodup h.nodup
  · intro u th hu
    simp only at hu
    rw [thFind_filter_ne] at hu
    split at hu
    · simp at hu
    · exact h.range u th hu
  · intro u th hu
    simp only at hu
    rw [thFind_filter_ne] at hu
    split at hu
    · simp at hu
    · exact h.parent u th hu

theorem timer {s : State} (h : NInv s) (tm : Timer) (hsub : ∀ e ∈ tm.elems, e ∈ s.timer.elems) :
    NInv { s with timer := tm } :=
  { h with tim := fun e he => h.tim e (hsub e he) }

theorem timerAdd {s : State} (h : NInv s) (t d : Nat) (ht : 100 ≤ t) : NInv (addTiming s t d) := by
  refine { h with tim := ?_ }
  intro e he
  simp only [addTiming, Timer.add, List.mem_append, List.mem_singleton] at he
  rcases he with he | he
  · exact h.tim e he
  · subst he; exact ht

theorem setCur {s : State} (h : NInv s) (c : Option Nat) (hc : ∀ x, c = some x → 100 ≤ x) :
    NInv { s with cur := c } := { h with cur := hc }

theorem setNotify {s : State} (h : NInv s) (T : Tbl) (hw : Tbl.WF T) (hs : Tbl.Sub T s.notify) :
    NInv { s with notify := T } :=
  { h with wfN := hw, n1 := fun src n h1 h2 => h.n1 src n h1 (hs.ne_nil h2),
           nMem := fun k x hx => h.nMem k x (hs k x hx) }

theorem setWaitFor {s : State} (h : NInv s) (T : Tbl) (hw : Tbl.WF T) (hs : Tbl.Sub T s.waitFor) :
    NInv { s with waitFor := T } :=
  { h with wfW := hw, wOwn := fun o n h2 => h.wOwn o n (hs.ne_nil h2) }

theorem setEndOn {s : State} (h : NInv s) (T : Tbl)
    (hs : ∀ o, Tbl.hasOwner T o = true → Tbl.hasOwner s.endOn o = true ∨ o < 100) :
    NInv { s with endOn := T } := by
  refine { h with n2 := ?_ }
  intro src hsrc
  rw [Bool.eq_false_iff]
  intro ho
  rcases hs src ho with h1 | h1
  · rw [h.n2 src hsrc] at h1; cases h1
  · omega

end NInv

theorem removeLast_sub (tm : Timer) (e : Nat) : ∀ x ∈ (tm.remove e).elems, x ∈ tm.elems := by
  intro x hx
  unfold Timer.remove at hx
  split at hx
  · exact (List.eraseIdx_sublist _ _).subset hx
  · exact hx

theorem next_sub (tm : Timer) : ∀ x ∈ tm.next.2.elems, x ∈ tm.elems := by
  intro x hx
  unfold Timer.next at hx
  split at hx
  · exact (List.eraseIdx_sublist _ _).subset hx
  · exact hx

theorem next_some_mem (tm : Timer) {e d : Nat} {tm' : Timer} (h : tm.next = (some (e, d), tm')) :
    (e, d) ∈ tm.elems := by
  unfold Timer.next at h
  split at h
  · rename_i i ed hs
    simp only [Prod.mk.injEq, Option.some.injEq] at h
    -- the scan returns an element of the indexed list
    have : ∀ (l : List (Nat × (Nat × Nat))) (best : Nat) (acc : Option (Nat × (Nat × Nat))) (r : Nat × (Nat × Nat)),
        (Timer.scan l best acc).2 = some r → r ∈ l ∨ acc = some r := by
      intro l
      induction l with
      | nil => intro best acc r hr; right; simpa [Timer.scan] using hr
      | cons a l ih =>
        intro best acc r hr
        obtain ⟨i', e', d'⟩ := a
        simp only [Timer.scan] at hr
        split at hr
        · rcases ih _ _ r hr with h1 | h1
          · left; exact List.mem_cons_of_mem _ h1
          · left; simp at h1; rw [← h1]; exact List.mem_cons_self
        · rcases ih _ _ r hr with h1 | h1
          · left; exact List.mem_cons_of_mem _ h1
          · right; exact h1
    rcases this _ _ _ _ hs with h1 | h1
    · have h2 : (i, ed) ∈ Timer.indexed tm.elems := by simpa using h1
      unfold Timer.indexed at h2
      have := (List.of_mem_zip h2).2
      rw [← h.1]; exact this
    · simp at h1
  · simp at h

end Morfuse.Sched

namespace Morfuse.Sched
open State

/-! ### the steps keep `NInv` -/

def N1 (f : State → Nat → State) : Prop := ∀ s a, NInv s → NInv (f s a)
def N0 (f : State → State) : Prop := ∀ s, NInv s → NInv (f s)
def N2 (f : State → Nat → Nat → State) : Prop := ∀ s a b, NInv s → NInv (f s a b)
def N3 (f : State → Nat → Nat → Bool → State) : Prop := ∀ s a b c, NInv s → NInv (f s a b c)
/-- `ScriptExecuteInternal` / `Execute` are only ever applied to thread ids -/
def N1t (f : State → Nat → State) : Prop := ∀ s a, 100 ≤ a → NInv s → NInv (f s a)

theorem NInv.foldl {α : Type} (f : State → α → State) (hf : ∀ s a, NInv s → NInv (f s a)) :
    ∀ (l : List α) (s : State), NInv s → NInv (l.foldl f s)
  | [], _, h => h
  | a :: l, s, h => NInv.foldl f hf l (f s a) (hf s a h)

theorem NInv.fuel {s : State} (h : NInv s) : NInv { s with outOfFuel := true } :=
  h.congr rfl rfl rfl rfl rfl rfl rfl rfl rfl

theorem removeFromInst_ninv {s : State} (h : NInv s) (t i : Nat) : NInv (removeFromInst s t i) := by
  rw [removeFromInst_frame]; exact h.congr rfl rfl rfl rfl rfl rfl rfl rfl rfl

theorem stopStep_ninv {cw : State → Nat → State} (hcw : N1 cw) {s : State} (h : NInv s) (t : Nat) (th : Th) :
    NInv (stopStep cw s t th) := by
  unfold stopStep
  split
  · exact (h.setTh t _).timer _ (removeLast_sub _ _)
  · split
    · exact hcw _ _ (h.setTh t _)
    · exact h

theorem notifyDelete_ninv {s : State} (h : NInv s) (t : Nat) : NInv (notifyDelete s t) := by
  unfold notifyDelete
  split
  · exact h
  · rename_i th _
    have h1 : NInv (if th.attached = true then removeFromInst (s.setTh t fun th => { th with vm := .destroyed }) t th.inst
        else s.setTh t fun th => { th with vm := .destroyed }) := by
      split
      · exact removeFromInst_ninv (h.setTh t _) _ _
      · exact h.setTh t _
    simp only
    split
    · exact h1.setTh t _
    · exact h1

theorem finishDelete_ninv {s : State} (h : NInv s) (t : Nat) : NInv (finishDelete s t) := by
  unfold finishDelete
  split
  · exact h
  · split
    · exact h.setTh t _
    · exact h.filterTh t

theorem cancelEvents_ninv {s : State} (h : NInv s) (t : Nat) : NInv (cancelEvents s t) :=
  h.congr rfl rfl rfl rfl rfl rfl rfl rfl rfl
theorem postEvent_ninv {s : State} (h : NInv s) (t d : Nat) : NInv (postEvent s t d) :=
  h.congr rfl rfl rfl rfl rfl rfl rfl rfl rfl
theorem vmSuspend_ninv {s : State} (h : NInv s) (t : Nat) : NInv (vmSuspend s t) := by
  unfold vmSuspend; exact h.setTh _ _ (by intro th; split <;> rfl)
theorem vmResume_ninv {s : State} (h : NInv s) (t : Nat) : NInv (vmResume s t) := by
  unfold vmResume; exact h.setTh _ _ (by intro th; split <;> rfl)

theorem notifyLoop_ninv {sn : State → Nat → State} (hsn : N1 sn) {s : State} (h : NInv s) (stopped : List Nat) :
    NInv (notifyLoop sn s stopped) := by
  unfold notifyLoop
  apply NInv.foldl _ _ _ _ h
  intro s a hs
  split
  · exact hsn s a hs
  · exact hs

theorem cwaZero_ninv {swf : State → Nat → Nat → Bool → State} {sn : State → Nat → State}
    (hswf : N3 swf) (hsn : N1 sn) {s : State} (h : NInv s) (w : Nat) : NInv (cwaZero swf sn s w) := by
  unfold cwaZero
  split
  · exact h
  · rename_i list _
    simp only [cancelWaitingSources_eq_purge]
    apply notifyLoop_ninv hsn
    have h1 : NInv ({ ({ s with notify := (Tbl.purge s.alive s.notify w 0 list []).1 } : State) with
        waitFor := Tbl.removeKey s.waitFor (w, 0) }) :=
      (h.setNotify _ (Tbl.purge_WF _ h.wfN _ _ _ _) (Tbl.Sub.purge _ _ _ _ _ _)).setWaitFor _
        (h.wfW.removeKey _) (Tbl.Sub.removeKey _ _)
    split
    · exact hswf _ _ _ _ h1
    · exact h1

theorem cwaRest_ninv {swf : State → Nat → Nat → Bool → State} {sn : State → Nat → State}
    (hswf : N3 swf) (hsn : N1 sn) {s : State} (h : NInv s) (w : Nat) : NInv (cwaRest swf sn s w) := by
  unfold cwaRest
  split
  · exact h
  · simp only [cwaSources_frame]
    apply notifyLoop_ninv hsn
    apply hswf
    exact (h.setNotify _ (Tbl.multiPurge_WF _ _ _ _ _ h.wfN) (Tbl.Sub.multiPurge _ _ _ _ _)).setWaitFor _
        (h.wfW.removeOwner _) (Tbl.Sub.removeOwner _ _)

theorem startTiming_ninv {stp : State → Nat → State} (hs : N1 stp) {s : State} (h : NInv s) (t : Nat)
    (ht : 100 ≤ t) : NInv (startTiming stp s t) := by
  unfold startTiming
  split
  · exact hs s t h
  · exact ((hs s t h).setTh t _).timerAdd t 0 ht

theorem endOnLoop_ninv {dt : State → Nat → State} (hd : N1 dt) {s : State} (h : NInv s) (src name : Nat)
    (listeners : List Nat) : NInv (endOnLoop dt s src name listeners).1 := by
  unfold endOnLoop
  generalize listeners.reverse = L
  suffices hs : ∀ (L : List Nat) (acc : State × Bool), NInv acc.1 →
      NInv (L.foldl (fun (acc : State × Bool) l =>
        if acc.1.alive l then
          if l == src && (name == nameRemove || name == nameDelete || acc.2) then acc
          else (dt acc.1 l, acc.2 || (l == src))
        else acc) acc).1 from hs L (s, false) h
  intro L
  induction L with
  | nil => intro acc h; exact h
  | cons l L ih =>
    intro acc hacc
    simp only [List.foldl_cons]
    apply ih
    split
    · split
      · exact hacc
      · exact hd _ _ hacc
    · exact hacc

theorem unregEndOn_ninv {dt : State → Nat → State} (hd : N1 dt) {s : State} (h : NInv s) (src name : Nat) :
    NInv (unregEndOn dt s src name).1 := by
  unfold unregEndOn
  split
  · exact h
  · split
    · exact h
    · apply endOnLoop_ninv hd
      exact h.setEndOn _ (fun o ho => Or.inl (Tbl.hasOwner_removeKey ho))

theorem wakeLoop_ninv {swf : State → Nat → Nat → Bool → State} (hswf : N3 swf) {s : State} (h : NInv s)
    (name : Nat) (stopped : List Nat) : NInv (wakeLoop swf s name stopped) := by
  unfold wakeLoop
  apply NInv.foldl _ _ _ _ h
  intro s a hs
  split
  · exact hswf _ _ _ _ hs
  · exact hs

theorem unregNotify_ninv {swf : State → Nat → Nat → Bool → State} {sn : State → Nat → State}
    (hswf : N3 swf) (hsn : N1 sn) {s : State} (h : NInv s) (src name : Nat) :
    NInv (unregNotify swf sn s src name) := by
  unfold unregNotify
  split
  · exact h
  · split
    · exact h
    · rename_i list _
      simp only [unregisterTargets_eq_purge]
      apply wakeLoop_ninv hswf
      have h1 : NInv ({ ({ s with waitFor := (Tbl.purge s.alive s.waitFor src name list []).1 } : State) with
          notify := Tbl.removeKey s.notify (src, name) }) :=
        (h.setWaitFor _ (Tbl.purge_WF _ h.wfW _ _ _ _) (Tbl.Sub.purge _ _ _ _ _ _)).setNotify _
          (h.wfN.removeKey _) (Tbl.Sub.removeKey _ _)
      split
      · exact hsn _ _ h1
      · exact h1

theorem killLoop_ninv {swf : State → Nat → Nat → Bool → State} (hswf : N3 swf) {s : State} (h : NInv s)
    (stopped : List (Nat × Nat)) : NInv (killLoop swf s stopped) := by
  unfold killLoop
  apply NInv.foldl _ _ _ _ h
  intro s a hs
  split
  · exact hswf _ _ _ _ hs
  · exact hs

theorem uaRest_ninv {swf : State → Nat → Nat → Bool → State} {sn : State → Nat → State}
    (hswf : N3 swf) (hsn : N1 sn) {s : State} (h : NInv s) (src : Nat) : NInv (uaRest swf sn s src) := by
  unfold uaRest
  split
  · exact h
  · simp only
    apply killLoop_ninv hswf
    apply hsn
    rw [uaTargets_frame]
    exact (h.setWaitFor _ (Tbl.multiPurge_WF _ _ _ _ _ h.wfW) (Tbl.Sub.multiPurge _ _ _ _ _)).setNotify _
        (h.wfN.removeOwner _) (Tbl.Sub.removeOwner _ _)

/-- `Register`: the source is an object, or the channel is 0 (`waitthread`); the waiter is a thread -/
theorem regWait_ninv {stp : State → Nat → State} (hs : N1 stp) {s : State} (h : NInv s) (o n c : Nat)
    (hc : 100 ≤ c) (ho : o < 100 ∨ NameOK n) : NInv (regWait stp s o n c) := by
  unfold regWait
  simp only
  have h1 : NInv { s with notify := Tbl.push s.notify (o, n) c } := by
    refine { h with wfN := h.wfN.push _ _, n1 := ?_, nMem := ?_ }
    · intro src n' hsrc hne
      simp only [Tbl.getD_push] at hne
      split at hne
      · rename_i hk
        have : src = o ∧ n' = n := by simpa using hk
        rcases ho with ho | ho
        · omega
        · rw [this.2]; exact ho
      · exact h.n1 src n' hsrc hne
    · intro k x hx
      simp only [Tbl.getD_push] at hx
      split at hx
      · rcases List.mem_append.1 hx with hx | hx
        · exact h.nMem _ x hx
        · simp at hx; omega
      · exact h.nMem k x hx
  have push2 : ∀ s' : State, NInv s' → NInv { s' with waitFor := Tbl.push s'.waitFor (c, n) o } := by
    intro s' h'
    refine { h' with wfW := h'.wfW.push _ _, wOwn := ?_ }
    intro o' n' hne
    simp only [Tbl.getD_push] at hne
    split at hne
    · rename_i hk
      have : o' = c ∧ n' = n := by simpa using hk
      omega
    · exact h'.wOwn o' n' hne
  split
  · apply push2
    apply vmSuspend_ninv
    exact (hs _ _ h1).setTh c _
  · exact push2 _ h1

theorem waitOn_ninv {stp : State → Nat → State} (hs : N1 stp) {s : State} (h : NInv s) (p ms : Nat)
    (hp : 100 ≤ p) : NInv (waitOn stp s p ms) := by
  unfold waitOn
  apply vmSuspend_ninv
  exact ((hs s p h).setTh p _).timerAdd p ms hp

theorem waitOnGuarded_ninv {stp : State → Nat → State} (hs : N1 stp) {s : State} (h : NInv s) (p ms : Nat)
    (hp : 100 ≤ p) : NInv (waitOnGuarded stp s p ms) := by
  unfold waitOnGuarded
  split
  · exact hs s p h
  · exact waitOn_ninv hs h p ms hp

theorem endResult_ninv {s : State} (h : NInv s) (th : Th) (ev : EndV) : NInv (endResult s th ev) := by
  unfold endResult
  simp only
  split
  · exact h
  · split <;> first | exact h.congr rfl rfl rfl rfl rfl rfl rfl rfl rfl | exact h

theorem restoreCur_ninv {s : State} (h : NInv s) (c : Option Nat) (hc : ∀ x, c = some x → 100 ≤ x) :
    NInv (restoreCur s c) := by
  unfold restoreCur
  apply h.setCur
  intro x hx
  cases c with
  | none => simp at hx
  | some c0 =>
    simp only [Option.bind_some] at hx
    split at hx
    · simp at hx; subst hx; exact hc _ rfl
    · simp at hx

theorem execIfAlive_ninv {ev : State → Nat → State} (he : N1t ev) {s : State} (h : NInv s) (t : Nat)
    (ht : 100 ≤ t) : NInv (execIfAlive ev s t) := by
  unfold execIfAlive
  split
  · exact he s t ht h
  · exact h

theorem vmEpilogue_ninv {s : State} (h : NInv s) (t : Nat) : NInv (vmEpilogue s t) := by
  unfold vmEpilogue
  split
  · exact h
  · split
    · exact h.setTh t _
    · exact h.filterTh t
    · exact h

theorem vmPrologue_ninv {s : State} (h : NInv s) (t : Nat) : NInv (vmPrologue s t) := by
  unfold vmPrologue
  have h1 := h.setTh t (fun th => { th with vm := .running })
  exact h1.congr rfl rfl rfl rfl rfl rfl rfl rfl rfl

theorem spawn_ninv {s : State} (h : NInv s) (th : Th) (hp : th.parent = 0 ∨ 100 ≤ th.parent) :
    NInv { s with nextTid := s.nextTid + 1, threads := s.threads ++ [(s.nextTid, th)] } := by
  have hfresh : thFind s.threads s.nextTid = none := by
    cases hf : thFind s.threads s.nextTid with
    | none => rfl
    | some th0 => have := (h.range _ _ hf).2; omega
  have hfind : ∀ u th', thFind (s.threads ++ [(s.nextTid, th)]) u = some th' →
      thFind s.threads u = some th' ∨ (u = s.nextTid ∧ th' = th) := by
    intro u th' hu
    rw [thFind_append] at hu
    split at hu
    · rename_i x hx; left; rw [hx]; exact hu
    · split at hu
      · right; simp at hu; exact ⟨by assumption, hu.symm⟩
      · simp at hu
  refine { h with nodup := ?_, range := ?_, tid100 := ?_, parent := ?_ }
  · simp only [List.map_append, List.map_cons, List.map_nil]
    rw [List.nodup_append]
    refine ⟨h.nodup, by simp, ?_⟩
    intro a ha b hb
    simp at hb; subst hb
    intro e; subst e
    exact (thFind_none_iff.1 hfresh) ha
  · intro u th' hu
    rcases hfind u th' hu with h1 | ⟨h1, _⟩
    · have := h.range u th' h1
      simp only; omega
    · have := h.tid100
      simp only; omega
  · have := h.tid100; simp only; omega
  · intro u th' hu
    rcases hfind u th' hu with h1 | ⟨_, h1⟩
    · exact h.parent u th' h1
    · rw [h1]; exact hp

theorem spawnSame_ninv {s : State} (h : NInv s) (t : Nat) (th : Th) (l : Nat) (ht : 100 ≤ t) :
    NInv (spawnSame s t th l) := by
  unfold spawnSame
  exact (spawn_ninv h _ (Or.inr ht)).congr rfl rfl rfl rfl rfl rfl rfl rfl rfl

theorem spawnNew_ninv {s : State} (h : NInv s) (t : Nat) (l : Nat) (ht : 100 ≤ t) :
    NInv (spawnNew s t l) := by
  unfold spawnNew
  exact (spawn_ninv h _ (Or.inr ht)).congr rfl rfl rfl rfl rfl rfl rfl rfl rfl

end Morfuse.Sched

namespace Morfuse.Sched
open State

/-! ### induction over the mutual block -/

structure NAll (fuel : Nat) : Prop where
  dt : N1 (deleteThread fuel)
  sn : N1 (stoppedNotify fuel)
  stp : N1 (stop fuel)
  cwa : N1 (cancelWaitingAll fuel)
  swf : N3 (stoppedWaitFor fuel)
  ur : N2 (unregister fuel)
  ua : N1 (unregisterAll fuel)
  sei : N1t (scriptExecuteInternal fuel)
  er : N0 (executeRunning fuel)
  dr : N0 (drain fuel)
  ev : N1 (execVM fuel)
  pr : N1 (process fuel)
  ex : ∀ s t th ins, 100 ≤ t → (th.parent = 0 ∨ 100 ≤ th.parent) → Instr.ok ins → NInv s →
    NInv (exec fuel s t th ins)

theorem nAll_zero : NAll 0 where
  dt := fun s t h => by rw [deleteThread_zero]; exact h.fuel
  sn := fun s t h => by rw [stoppedNotify_zero]; exact h.fuel
  stp := fun s t h => by rw [stop_zero]; exact h.fuel
  cwa := fun s t h => by rw [cancelWaitingAll_zero]; exact h.fuel
  swf := fun s t n d h => by rw [stoppedWaitFor_zero]; exact h.fuel
  ur := fun s t n h => by rw [unregister_zero]; exact h.fuel
  ua := fun s t h => by rw [unregisterAll_zero]; exact h.fuel
  sei := fun s t _ h => by rw [scriptExecuteInternal_zero]; exact h.fuel
  er := fun s h => by rw [executeRunning_zero]; exact h.fuel
  dr := fun s h => by rw [drain_zero]; exact h.fuel
  ev := fun s t h => by rw [execVM_zero]; exact h.fuel
  pr := fun s t h => by rw [process_zero]; exact h.fuel
  ex := fun s t th ins _ _ _ h => by rw [exec_zero]; exact h.fuel

theorem objAlive_lt {s : State} (h : NInv s) {o : Nat} (ho : s.objAlive o = true) : o < 100 := by
  unfold State.objAlive at ho
  simp only [Bool.or_eq_true, beq_iff_eq, List.contains_eq_mem, decide_eq_true_eq] at ho
  rcases ho with ho | ho
  · omega
  · exact h.objs o ho

theorem exec_ninv_succ {fuel : Nat} (ih : NAll fuel) (s : State) (t : Nat) (th : Th) (ins : Instr)
    (ht : 100 ≤ t) (hp : th.parent = 0 ∨ 100 ≤ th.parent) (hok : Instr.ok ins) (h : NInv s) :
    NInv (exec (fuel + 1) s t th ins) := by
  cases ins with
  | mark k => rw [exec_mark]; exact h.congr rfl rfl rfl rfl rfl rfl rfl rfl rfl
  | pparam i => rw [exec_pparam]; exact h.congr rfl rfl rfl rfl rfl rfl rfl rfl rfl
  | wait ms => rw [exec_wait]; exact waitOn_ninv ih.stp h _ _ ht
  | waittill o names =>
    rw [exec_waittill]
    split
    · exact h
    · rename_i ho
      have ho' : o < 100 := objAlive_lt h (by simpa using ho)
      split
      · exact h
      · rename_i c hc
        have hc' : 100 ≤ c := h.cur c hc
        exact NInv.foldl _ (fun s n hs => regWait_ninv ih.stp hs _ _ _ hc' (Or.inl ho')) _ _ h
  | waittillTimeout o n ms =>
    rw [exec_waittillTimeout]
    split
    · exact h
    · rename_i ho
      have ho' : o < 100 := objAlive_lt h (by simpa using ho)
      split
      · exact h
      · rename_i c hc
        exact postEvent_ninv (regWait_ninv ih.stp h _ _ _ (h.cur c hc) (Or.inl ho')) _ _
  | notify o n =>
    rw [exec_notify]
    split
    · exact h
    · exact ih.ur _ _ _ h
  | endon o n =>
    rw [exec_endon]
    split
    · exact h
    · rename_i ho
      have ho' : o < 100 := objAlive_lt h (by simpa using ho)
      split
      · exact h
      · apply h.setEndOn
        intro o' ho2
        rcases Tbl.hasOwner_pushUnique ho2 with h1 | h1
        · exact Or.inl h1
        · right; rw [h1]; exact ho'
  | delete o =>
    rw [exec_delete]
    split
    · exact h
    · have h1 := ih.cwa _ o (ih.ua _ o (ih.ur _ o nameRemove (ih.ur _ o nameDelete h)))
      refine { h1 with objs := ?_ }
      intro o' ho'
      exact h1.objs o' (List.mem_of_mem_erase ho')
  | thread l =>
    rw [exec_thread]
    split
    · exact h
    · exact ih.sei _ _ h.tid100 (spawnSame_ninv h t th l ht)
  | waitthread l =>
    rw [exec_waitthread]
    split
    · exact h
    · split
      · exact ih.sei _ _ h.tid100 (spawnNew_ninv h t l ht)
      · rename_i c hc
        apply ih.sei _ _ h.tid100
        have h1 := spawnNew_ninv h t l ht
        exact regWait_ninv ih.stp h1 _ _ _ (h.cur c hc) (Or.inr nameOK_zero)
  | pause => rw [exec_pause]; exact vmSuspend_ninv (ih.stp _ _ h) _
  | waitParent ms =>
    rw [exec_waitParent]
    split
    · exact h
    · rename_i hg
      have hp0 : th.parent ≠ 0 := by
        intro e; apply hg; simp [e]
      have hp' : 100 ≤ th.parent := by
        rcases hp with hp | hp
        · exact absurd hp hp0
        · exact hp
      exact waitOnGuarded_ninv ih.stp h _ _ hp'
  | waittillParent names =>
    rw [exec_waittillParent]
    split
    · exact h
    · split
      · exact h
      · rename_i c hc
        have hc' : 100 ≤ c := h.cur c hc
        exact foldl_mem_inv NInv _ names s
          (fun n hn s hs => regWait_ninv ih.stp hs _ _ _ hc' (Or.inr (hok n hn))) h
  | notifyParent n =>
    rw [exec_notifyParent]
    split
    · exact h
    · exact ih.ur _ _ _ h
  | end_ ev =>
    rw [exec_end]
    exact ih.dt _ _ ((endResult_ninv h th ev).setTh t _)
  | spawn o =>
    rw [exec_spawn]
    split
    · exact h
    · refine { h with objs := ?_ }
      intro o' ho'
      simp only [List.mem_append, List.mem_singleton] at ho'
      rcases ho' with ho' | ho'
      · exact h.objs o' ho'
      · rw [ho']; exact hok

theorem nAll_succ {fuel : Nat} (ih : NAll fuel) : NAll (fuel + 1) where
  dt := fun s t h => by
    rw [deleteThread_succ]
    split
    · exact h
    · split
      · exact h
      · apply finishDelete_ninv
        apply ih.cwa; apply ih.ua; apply ih.ur; apply ih.ur
        apply cancelEvents_ninv
        apply notifyDelete_ninv
        apply stopStep_ninv ih.cwa
        exact h.setTh t _
  sn := fun s l h => by
    rw [stoppedNotify_succ]
    split
    · split
      · exact ih.dt _ _ h
      · exact h
    · exact h
  stp := fun s t h => by
    rw [stop_succ]
    split
    · exact h
    · exact stopStep_ninv ih.cwa h _ _
  cwa := fun s w h => by
    rw [cancelWaitingAll_succ]
    exact cwaRest_ninv ih.swf ih.sn (cwaZero_ninv ih.swf ih.sn h w) w
  swf := fun s t name d h => by
    rw [stoppedWaitFor_succ]
    split
    · exact h
    · rename_i hthr
      have ht : 100 ≤ t := by
        have : State.isThread t = true := by simpa using hthr
        simpa [State.isThread] using this
      split
      · exact h
      · split
        · exact h
        · split
          · exact ih.dt _ _ h
          · split
            · split
              · split
                · exact ih.sei _ _ ht (cancelEvents_ninv h t)
                · exact vmResume_ninv (cancelEvents_ninv h t) t
              · exact startTiming_ninv ih.stp (cancelEvents_ninv h t) t ht
            · exact cancelEvents_ninv h t
  ur := fun s src name h => by
    rw [unregister_succ]
    split
    · exact unregEndOn_ninv ih.dt h _ _
    · exact unregNotify_ninv ih.swf ih.sn (unregEndOn_ninv ih.dt h _ _) _ _
  ua := fun s src h => by
    rw [unregisterAll_succ]
    apply uaRest_ninv ih.swf ih.sn
    exact (ih.ur s src 0 h).setEndOn _ (fun o ho => Or.inl (Tbl.hasOwner_removeOwner ho))
  sei := fun s t ht h => by
    rw [scriptExecuteInternal_succ]
    apply ih.er
    apply restoreCur_ninv _ _ h.cur
    apply execIfAlive_ninv (fun s a _ hs => ih.ev s a hs) _ _ ht
    apply ih.stp
    exact h.setCur _ (fun x hx => by simp at hx; omega)
  er := fun s h => by
    rw [executeRunning_succ]
    split
    · exact h
    · split
      · exact h
      · exact ih.dr _ h
  dr := fun s h => by
    rw [drain_succ]
    split
    · rename_i tm hn
      have : tm = s.timer.next.2 := by rw [hn]
      exact (h.timer tm (by rw [this]; exact next_sub _)).setCur none (by simp)
    · rename_i t d tm hn
      have htm : tm = s.timer.next.2 := by rw [hn]
      have ht : 100 ≤ t := h.tim _ (next_some_mem _ hn)
      apply ih.dr; apply ih.ev
      have h1 : NInv ({ s with timer := tm, cur := some t } : State) :=
        (h.timer tm (by rw [htm]; exact next_sub _)).setCur (some t) (fun x hx => by simp at hx; omega)
      exact h1.setTh t _
  ev := fun s t h => by
    rw [execVM_succ]
    apply vmEpilogue_ninv
    have h1 := ih.pr _ t (vmPrologue_ninv h t)
    exact h1.congr rfl rfl rfl rfl rfl rfl rfl rfl rfl
  pr := fun s t h => by
    rw [process_succ]
    split
    · exact h
    · rename_i th hth
      split
      · exact h
      · apply ih.pr
        rw [State.th?_eq] at hth
        exact ih.ex _ _ _ _ (h.range t th hth).1 (h.parent t th hth) (h.prog.fetch _ _) (h.setTh t _)
  ex := exec_ninv_succ ih

theorem nAll : ∀ fuel, NAll fuel
  | 0 => nAll_zero
  | fuel + 1 => nAll_succ (nAll fuel)

end Morfuse.Sched
