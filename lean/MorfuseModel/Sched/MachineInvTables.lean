import MorfuseModel.Sched.MachineInvBasic
/-!
# The table loops of `Listener` as pure table functions, and the mirror they restore

`UnregisterTargets` and `CancelWaitingSources` are the same loop on the *other* table: walk a list of
listeners from last to first and remove every occurrence of `x` under `(l, name)` for each listed
listener `l` that is still alive.  `purge` is that loop on a bare table; the machine's loops only
change one table of the state and are `purge` on it.
-/
namespace Morfuse.Sched

namespace Tbl

def purgeStep (al : Nat → Bool) (x name : Nat) (acc : Tbl × List Nat) (l : Nat) : Tbl × List Nat :=
  if al l then
    ((removeAll acc.1 (l, name) x).1, if (removeAll acc.1 (l, name) x).2 then acc.2 ++ [l] else acc.2)
  else acc

def purge (al : Nat → Bool) (T : Tbl) (x name : Nat) (list : List Nat) (st : List Nat) : Tbl × List Nat :=
  list.reverse.foldl (purgeStep al x name) (T, st)

theorem purgeStep_getD (al : Nat → Bool) (x name : Nat) (acc : Tbl × List Nat) (l : Nat) (k : Key) :
    getD (purgeStep al x name acc l).1 k =
      if k = (l, name) ∧ al l = true then (getD acc.1 k).filter (· != x) else getD acc.1 k := by
  unfold purgeStep
  by_cases ha : al l = true
  · simp only [ha, if_true, getD_removeAll, and_true]
    by_cases hk : k = (l, name)
    · subst hk; simp
    · simp [hk]
  · simp [ha]

theorem foldl_purgeStep_getD (al : Nat → Bool) (x name : Nat) (k : Key) :
    ∀ (L : List Nat) (acc : Tbl × List Nat),
      getD (L.foldl (purgeStep al x name) acc).1 k =
        if k.2 = name ∧ k.1 ∈ L ∧ al k.1 = true then (getD acc.1 k).filter (· != x) else getD acc.1 k
  | [], acc => by simp
  | l :: L, acc => by
    simp only [List.foldl_cons]
    rw [foldl_purgeStep_getD al x name k L, purgeStep_getD]
    by_cases hk : k = (l, name)
    · subst hk
      by_cases ha : al l = true
      · by_cases hL : l ∈ L
        · simp [ha, hL, List.filter_filter]
        · simp [ha, hL]
      · simp [ha]
    · have h1 : ¬ (k.2 = name ∧ k.1 = l) := by
        intro ⟨a, b⟩; apply hk; cases k; simp_all
      by_cases hn : k.2 = name
      · have hl : ¬ k.1 = l := fun b => h1 ⟨hn, b⟩
        simp [hk, hn, hl]
      · simp [hk, hn]

theorem purge_getD (al : Nat → Bool) (T : Tbl) (x name : Nat) (list st : List Nat) (k : Key) :
    getD (purge al T x name list st).1 k =
      if k.2 = name ∧ k.1 ∈ list ∧ al k.1 = true then (getD T k).filter (· != x) else getD T k := by
  unfold purge
  rw [foldl_purgeStep_getD]
  simp

theorem foldl_purgeStep_WF (al : Nat → Bool) (x name : Nat) :
    ∀ (L : List Nat) (acc : Tbl × List Nat), WF acc.1 → WF (L.foldl (purgeStep al x name) acc).1
  | [], _, h => h
  | l :: L, acc, h => by
    simp only [List.foldl_cons]
    apply foldl_purgeStep_WF al x name L
    unfold purgeStep
    split
    · exact h.removeAll _ _
    · exact h

theorem purge_WF (al : Nat → Bool) {T : Tbl} (h : WF T) (x name : Nat) (list st : List Nat) :
    WF (purge al T x name list st).1 := foldl_purgeStep_WF al x name _ _ h

/-- every list of the purged table is the old list without `x`, or the old list -/
theorem mem_filter_ne_of {l : List Nat} {x y : Nat} (h : y ∈ l.filter (· != x)) : y ∈ l :=
  (List.mem_filter.1 h).1

theorem foldl_purgeStep_stopped (al : Nat → Bool) (x name : Nat) (T : Tbl) :
    ∀ (L : List Nat) (acc : Tbl × List Nat),
      (∀ k y, y ∈ getD acc.1 k → y ∈ getD T k) →
      ∀ l ∈ (L.foldl (purgeStep al x name) acc).2,
        l ∈ acc.2 ∨ (l ∈ L ∧ al l = true ∧ x ∈ getD T (l, name))
  | [], acc, _, l, hl => Or.inl hl
  | a :: L, acc, hsub, l, hl => by
    simp only [List.foldl_cons] at hl
    have hsub' : ∀ k y, y ∈ getD (purgeStep al x name acc a).1 k → y ∈ getD T k := by
      intro k y hy
      rw [purgeStep_getD] at hy
      split at hy
      · exact hsub k y (mem_filter_ne_of hy)
      · exact hsub k y hy
    rcases foldl_purgeStep_stopped al x name T L _ hsub' l hl with h | ⟨h1, h2, h3⟩
    · unfold purgeStep at h
      by_cases ha : al a = true
      · simp only [ha, if_true] at h
        by_cases hf : (removeAll acc.1 (a, name) x).2 = true
        · simp only [hf, if_true, List.mem_append, List.mem_singleton] at h
          rcases h with h | h
          · exact Or.inl h
          · subst h
            refine Or.inr ⟨by simp, ha, ?_⟩
            rw [removeAll_found] at hf
            exact hsub _ _ (by simpa using hf)
        · simp only [hf] at h
          exact Or.inl h
      · simp only [ha] at h
        exact Or.inl h
    · exact Or.inr ⟨List.mem_cons_of_mem _ h1, h2, h3⟩

theorem purge_stopped (al : Nat → Bool) (T : Tbl) (x name : Nat) (list st : List Nat) :
    ∀ l ∈ (purge al T x name list st).2, l ∈ st ∨ (l ∈ list ∧ al l = true ∧ x ∈ getD T (l, name)) := by
  intro l hl
  unfold purge at hl
  rcases foldl_purgeStep_stopped al x name T _ (T, st) (fun _ _ h => h) l hl with h | ⟨h1, h2, h3⟩
  · exact Or.inl h
  · exact Or.inr ⟨by simpa using h1, h2, h3⟩

/-- the loop over several names: `keys` are `(name, list)` pairs -/
def multiPurge (al : Nat → Bool) (T : Tbl) (x : Nat) (keys : List (Nat × List Nat)) (st : List Nat) :
    Tbl × List Nat :=
  keys.foldl (fun acc e => purge al acc.1 x e.1 e.2 acc.2) (T, st)

theorem ite_chain {α : Type} (A B1 B2 C : Prop) [Decidable A] [Decidable B1] [Decidable B2] [Decidable C]
    (f : α → α) (v : α) (hf : f (f v) = f v) :
    (if A ∧ C then f (if B1 ∧ B2 ∧ C then f v else v) else (if B1 ∧ B2 ∧ C then f v else v)) =
      if ((B1 ∧ B2) ∨ A) ∧ C then f v else v := by
  by_cases hA : A <;> by_cases hB1 : B1 <;> by_cases hB2 : B2 <;> by_cases hC : C <;> simp [hA, hB1, hB2, hC, hf]

theorem multiPurge_getD (al : Nat → Bool) (x : Nat) (k : Key) :
    ∀ (keys : List (Nat × List Nat)) (T : Tbl) (st : List Nat),
      getD (multiPurge al T x keys st).1 k =
        if (∃ e ∈ keys, e.1 = k.2 ∧ k.1 ∈ e.2) ∧ al k.1 = true then (getD T k).filter (· != x) else getD T k
  | [], T, st => by simp [multiPurge]
  | e :: keys, T, st => by
    unfold multiPurge
    simp only [List.foldl_cons]
    have ih := multiPurge_getD al x k keys (purge al T x e.1 e.2 st).1 (purge al T x e.1 e.2 st).2
    unfold multiPurge at ih
    rw [ih, purge_getD]
    have hex : (∃ e' ∈ e :: keys, e'.1 = k.2 ∧ k.1 ∈ e'.2) ↔
        ((k.2 = e.1 ∧ k.1 ∈ e.2) ∨ ∃ e' ∈ keys, e'.1 = k.2 ∧ k.1 ∈ e'.2) := by
      constructor
      · rintro ⟨e', hm, h1, h2⟩
        rcases List.mem_cons.1 hm with hm | hm
        · subst hm; exact Or.inl ⟨h1.symm, h2⟩
        · exact Or.inr ⟨e', hm, h1, h2⟩
      · rintro (⟨h1, h2⟩ | ⟨e', hm, h1, h2⟩)
        · exact ⟨e, List.mem_cons_self, h1.symm, h2⟩
        · exact ⟨e', List.mem_cons_of_mem _ hm, h1, h2⟩
    simp only [hex]
    exact ite_chain _ _ _ _ _ _ (by rw [List.filter_filter]; simp)

theorem multiPurge_WF (al : Nat → Bool) (x : Nat) :
    ∀ (keys : List (Nat × List Nat)) (T : Tbl) (st : List Nat), WF T → WF (multiPurge al T x keys st).1
  | [], _, _, h => h
  | e :: keys, T, st, h => by
    unfold multiPurge
    simp only [List.foldl_cons]
    exact multiPurge_WF al x keys _ _ (purge_WF al h x e.1 e.2 st)

theorem foldl_purgeStep_fst_indep (al : Nat → Bool) (x name : Nat) :
    ∀ (L : List Nat) (T : Tbl) (st st' : List Nat),
      (L.foldl (purgeStep al x name) (T, st)).1 = (L.foldl (purgeStep al x name) (T, st')).1
  | [], _, _, _ => rfl
  | l :: L, T, st, st' => by
    simp only [List.foldl_cons]
    unfold purgeStep
    by_cases ha : al l = true
    · simp only [ha, if_true]
      exact foldl_purgeStep_fst_indep al x name L _ _ _
    · simp only [ha]
      exact foldl_purgeStep_fst_indep al x name L _ _ _

theorem purge_fst_indep (al : Nat → Bool) (T : Tbl) (x name : Nat) (list st st' : List Nat) :
    (purge al T x name list st).1 = (purge al T x name list st').1 :=
  foldl_purgeStep_fst_indep al x name _ _ _ _

theorem multiPurge_fst_indep (al : Nat → Bool) (x : Nat) :
    ∀ (keys : List (Nat × List Nat)) (T : Tbl) (st st' : List Nat),
      (multiPurge al T x keys st).1 = (multiPurge al T x keys st').1
  | [], _, _, _ => rfl
  | e :: keys, T, st, st' => by
    unfold multiPurge
    simp only [List.foldl_cons]
    have h1 := multiPurge_fst_indep al x keys (purge al T x e.1 e.2 st).1 (purge al T x e.1 e.2 st).2
      (purge al T x e.1 e.2 st').2
    unfold multiPurge at h1
    rw [h1, purge_fst_indep al T x e.1 e.2 st st']

theorem multiPurge_cons (al : Nat → Bool) (T : Tbl) (x : Nat) (e : Nat × List Nat)
    (keys : List (Nat × List Nat)) (st : List Nat) :
    multiPurge al T x (e :: keys) st =
      multiPurge al (purge al T x e.1 e.2 st).1 x keys (purge al T x e.1 e.2 st).2 := rfl

theorem foldl_purgeStep_mono (al : Nat → Bool) (x name : Nat) :
    ∀ (L : List Nat) (acc : Tbl × List Nat), ∀ y ∈ acc.2, y ∈ (L.foldl (purgeStep al x name) acc).2
  | [], _, y, hy => hy
  | a :: L, acc, y, hy => by
    simp only [List.foldl_cons]
    apply foldl_purgeStep_mono al x name L
    unfold purgeStep
    split
    · split
      · exact List.mem_append_left _ hy
      · exact hy
    · exact hy

/-- completeness of the loop: every listed listener that is alive and still holds `x` is reported -/
theorem foldl_purgeStep_complete (al : Nat → Bool) (x name : Nat) :
    ∀ (L : List Nat) (acc : Tbl × List Nat) (l : Nat), l ∈ L → al l = true → x ∈ getD acc.1 (l, name) →
      l ∈ (L.foldl (purgeStep al x name) acc).2
  | [], _, _, h, _, _ => by simp at h
  | a :: L, acc, l, hl, ha, hx => by
    simp only [List.foldl_cons]
    by_cases hal : a = l
    · subst hal
      apply foldl_purgeStep_mono
      unfold purgeStep
      have : (removeAll acc.1 (a, name) x).2 = true := by rw [removeAll_found]; simpa using hx
      simp [ha, this]
    · have hl' : l ∈ L := by
        rcases List.mem_cons.1 hl with h | h
        · exact absurd h.symm hal
        · exact h
      apply foldl_purgeStep_complete al x name L _ l hl' ha
      rw [purgeStep_getD]
      have : ¬ ((l, name) = (a, name) ∧ al a = true) := by
        intro h; apply hal; exact (Prod.mk.inj h.1).1.symm
      simp only [this, if_false]; exact hx

theorem purge_complete (al : Nat → Bool) (T : Tbl) (x name : Nat) (list st : List Nat) (l : Nat)
    (hl : l ∈ list) (ha : al l = true) (hx : x ∈ getD T (l, name)) : l ∈ (purge al T x name list st).2 :=
  foldl_purgeStep_complete al x name _ _ l (by simpa using hl) ha hx

theorem purge_mono (al : Nat → Bool) (T : Tbl) (x name : Nat) (list st : List Nat) :
    ∀ y ∈ st, y ∈ (purge al T x name list st).2 :=
  fun y hy => foldl_purgeStep_mono al x name _ (T, st) y hy

theorem keysOf_names_nodup {t : Tbl} (h : WF t) (o : Nat) : ((keysOf t o).map (·.1)).Nodup := by
  unfold keysOf
  rw [List.map_map]
  have h1 : ((t.filter (·.1.1 == o)).map (·.1)).Nodup := (List.filter_sublist.map _).nodup h.nodup
  unfold List.Nodup at h1 ⊢
  rw [List.pairwise_map] at h1 ⊢
  apply List.Pairwise.imp_of_mem _ h1
  intro ea eb hea heb hne hab
  apply hne
  have ha' : ea.1.1 = o := by simpa using (List.mem_filter.1 hea).2
  have hb' : eb.1.1 = o := by simpa using (List.mem_filter.1 heb).2
  exact Prod.ext (by rw [ha', hb']) hab

end Tbl

/-! ### the mirror of the two tables -/

/-- every registration is recorded on both sides, with multiplicity: `x` under `(o, n)` in `a` as
    often as `o` under `(x, n)` in `b` -/
def TblMirror (a b : Tbl) : Prop :=
  ∀ o n x, (Tbl.getD a (o, n)).count x = (Tbl.getD b (x, n)).count o

theorem TblMirror.symm {a b : Tbl} (h : TblMirror a b) : TblMirror b a := fun o n x => (h x n o).symm

theorem TblMirror.mem_iff {a b : Tbl} (h : TblMirror a b) (o n x : Nat) :
    x ∈ Tbl.getD a (o, n) ↔ o ∈ Tbl.getD b (x, n) := by
  rw [← List.count_pos_iff, ← List.count_pos_iff (a := o), h o n x]

theorem count_filter_ne' (l : List Nat) (a b : Nat) :
    (l.filter (· != b)).count a = if a = b then 0 else l.count a := by
  by_cases h : a = b
  · subst h
    simp only [if_true]
    apply List.count_eq_zero.2
    intro hm
    have := (List.mem_filter.1 hm).2
    simp at this
  · simp only [h, if_false]
    apply List.count_filter
    simpa using h

/-- `Register`: one more `x` under `(o, n)`, one more `o` under `(x, n)` -/
theorem TblMirror.push {a b : Tbl} (h : TblMirror a b) (o n x : Nat) :
    TblMirror (Tbl.push a (o, n) x) (Tbl.push b (x, n) o) := by
  intro o' n' x'
  simp only [Tbl.getD_push]
  by_cases h1 : (o', n') = (o, n)
  · obtain ⟨rfl, rfl⟩ := Prod.mk.inj h1
    by_cases h2 : x' = x
    · subst h2; simp [h o' n' x']
    · have : ¬ (x', n') = (x, n') := by intro e; exact h2 (Prod.mk.inj e).1
      have h2' : ¬ x = x' := fun e => h2 e.symm
      simp [this, h o' n' x', h2']
  · simp only [h1, if_false]
    by_cases h2 : (x', n') = (x, n)
    · obtain ⟨rfl, rfl⟩ := Prod.mk.inj h2
      have hs : ¬ o = o' := by intro e; exact h1 (by rw [e])
      simp [h o' n' x', hs]
    · simp [h2, h o' n' x']

/-- the single-name loop followed by the removal of the key restores the mirror
    (`Unregister(name)` with `a` = notify, `CancelWaiting(0)` with `a` = waitFor) -/
theorem TblMirror.purge_removeKey {a b : Tbl} (h : TblMirror a b) (al : Nat → Bool) (o n : Nat) (st : List Nat)
    (hal : ∀ l ∈ Tbl.getD a (o, n), al l = true) :
    TblMirror (Tbl.removeKey a (o, n)) (Tbl.purge al b o n (Tbl.getD a (o, n)) st).1 := by
  intro o' n' x
  rw [Tbl.getD_removeKey, Tbl.purge_getD]
  by_cases h1 : (o', n') = (o, n)
  · obtain ⟨rfl, rfl⟩ := Prod.mk.inj h1
    simp only [if_true, List.count_nil, true_and]
    by_cases hx : x ∈ Tbl.getD a (o', n')
    · simp [hx, hal x hx, count_filter_ne']
    · have : ¬ (x ∈ Tbl.getD a (o', n') ∧ al x = true) := fun hh => hx hh.1
      simp only [this, if_false]
      rw [← h o' n' x]
      exact (List.count_eq_zero.2 hx).symm
  · simp only [h1, if_false]
    by_cases h2 : n' = n ∧ x ∈ Tbl.getD a (o, n) ∧ al x = true
    · have hs : ¬ o' = o := by intro e; exact h1 (by rw [e, h2.1])
      simp only [h2, and_self, if_true, count_filter_ne', hs, if_false]
      have := h o' n' x
      rw [h2.1] at this
      exact this
    · simp only [h2, if_false]; exact h o' n' x

/-- the loop over every name of one owner followed by the removal of the owner restores the mirror
    (`UnregisterAll` with `a` = notify, `CancelWaitingAll` with `a` = waitFor) -/
theorem TblMirror.multiPurge_removeOwner {a b : Tbl} (h : TblMirror a b) (ha : Tbl.WF a) (al : Nat → Bool) (o : Nat)
    (st : List Nat) (hal : ∀ n, ∀ l ∈ Tbl.getD a (o, n), al l = true) :
    TblMirror (Tbl.removeOwner a o) (Tbl.multiPurge al b o (Tbl.keysOf a o) st).1 := by
  intro o' n' x
  rw [Tbl.getD_removeOwner, Tbl.multiPurge_getD]
  have hex : (∃ e ∈ Tbl.keysOf a o, e.1 = n' ∧ x ∈ e.2) ↔ x ∈ Tbl.getD a (o, n') := by
    constructor
    · rintro ⟨e, he, h1, h2⟩
      have : (e.1, e.2) ∈ Tbl.keysOf a o := he
      have := (ha.mem_keysOf_iff o e.1 e.2).1 this
      rw [← h1, this.1]; exact h2
    · intro hx
      refine ⟨(n', Tbl.getD a (o, n')), ?_, rfl, hx⟩
      exact (ha.mem_keysOf_iff o n' _).2 ⟨rfl, List.ne_nil_of_mem hx⟩
  by_cases h1 : o' = o
  · subst h1
    simp only [if_true, List.count_nil]
    by_cases hx : x ∈ Tbl.getD a (o', n')
    · have : (∃ e ∈ Tbl.keysOf a o', e.1 = n' ∧ x ∈ e.2) ∧ al x = true := ⟨hex.2 hx, hal n' x hx⟩
      simp [this, count_filter_ne']
    · have : ¬ ((∃ e ∈ Tbl.keysOf a o', e.1 = n' ∧ x ∈ e.2) ∧ al x = true) := fun hh => hx (hex.1 hh.1)
      simp only [this, if_false]
      rw [← h o' n' x]
      exact (List.count_eq_zero.2 hx).symm
  · simp only [h1, if_false]
    split
    · simp only [count_filter_ne', h1, if_false]; exact h o' n' x
    · exact h o' n' x

/-! ### the machine's loops are `purge` on one table -/

open State in
theorem unregisterTargets_eq_purge (s : State) (src name : Nat) (list : List Nat) :
    unregisterTargets s src name list =
      ({ s with waitFor := (Tbl.purge s.alive s.waitFor src name list []).1 },
       (Tbl.purge s.alive s.waitFor src name list []).2) := by
  unfold unregisterTargets Tbl.purge
  generalize list.reverse = L
  suffices hs : ∀ (L : List Nat) (T : Tbl) (st : List Nat),
      L.foldl (fun (acc : State × List Nat) l =>
        if acc.1.alive l then
          let (w', found) := Tbl.removeAll acc.1.waitFor (l, name) src
          ({ acc.1 with waitFor := w' }, if found then acc.2 ++ [l] else acc.2)
        else acc) (({ s with waitFor := T } : State), st) =
      ({ s with waitFor := (L.foldl (Tbl.purgeStep s.alive src name) (T, st)).1 },
        (L.foldl (Tbl.purgeStep s.alive src name) (T, st)).2) from hs L s.waitFor []
  intro L
  induction L with
  | nil => intro T st; rfl
  | cons l L ih =>
    intro T st
    simp only [List.foldl_cons]
    have hal : State.alive ({ s with waitFor := T } : State) l = s.alive l := rfl
    by_cases ha : s.alive l = true
    · have : Tbl.purgeStep s.alive src name (T, st) l =
          ((Tbl.removeAll T (l, name) src).1, if (Tbl.removeAll T (l, name) src).2 then st ++ [l] else st) := by
        simp [Tbl.purgeStep, ha]
      rw [this, ← ih]
      simp only [hal, ha, if_true]
    · have : Tbl.purgeStep s.alive src name (T, st) l = (T, st) := by simp [Tbl.purgeStep, ha]
      rw [this, ← ih]
      simp only [hal, ha]; rfl

open State in
theorem cancelWaitingSources_eq_purge (s : State) (w name : Nat) (list st : List Nat) :
    cancelWaitingSources s w name list st =
      ({ s with notify := (Tbl.purge s.alive s.notify w name list st).1 },
       (Tbl.purge s.alive s.notify w name list st).2) := by
  unfold cancelWaitingSources Tbl.purge
  generalize list.reverse = L
  suffices hs : ∀ (L : List Nat) (T : Tbl) (st : List Nat),
      L.foldl (fun (acc : State × List Nat) src =>
        if acc.1.alive src then
          let (n', found) := Tbl.removeAll acc.1.notify (src, name) w
          ({ acc.1 with notify := n' }, if found then acc.2 ++ [src] else acc.2)
        else acc) (({ s with notify := T } : State), st) =
      ({ s with notify := (L.foldl (Tbl.purgeStep s.alive w name) (T, st)).1 },
        (L.foldl (Tbl.purgeStep s.alive w name) (T, st)).2) from hs L s.notify st
  intro L
  induction L with
  | nil => intro T st; rfl
  | cons l L ih =>
    intro T st
    simp only [List.foldl_cons]
    have hal : State.alive ({ s with notify := T } : State) l = s.alive l := rfl
    by_cases ha : s.alive l = true
    · have : Tbl.purgeStep s.alive w name (T, st) l =
          ((Tbl.removeAll T (l, name) w).1, if (Tbl.removeAll T (l, name) w).2 then st ++ [l] else st) := by
        simp [Tbl.purgeStep, ha]
      rw [this, ← ih]
      simp only [hal, ha, if_true]
    · have : Tbl.purgeStep s.alive w name (T, st) l = (T, st) := by simp [Tbl.purgeStep, ha]
      rw [this, ← ih]
      simp only [hal, ha]; rfl

end Morfuse.Sched
