import MorfuseModel.Sched.MachineInvPrim
/-!
# `Inv` under the three kinds of state update: one thread record, the two tables, a thread's death
-/
namespace Morfuse.Sched
open State

theorem thFind_map_upd_of_none {ths : List (Nat × Th)} {t : Nat} (f : Th → Th) (h : thFind ths t = none)
    (u : Nat) : thFind (ths.map (thUpd t f)) u = thFind ths u := by
  rw [thFind_map_upd]
  split
  · rename_i hut; subst hut; simp [h]
  · rfl

theorem hasOwner_of_sub {T T' : Tbl} (hT : Tbl.WF T) (hT' : Tbl.WF T') (hs : Tbl.Sub T' T) {o : Nat}
    (h : Tbl.hasOwner T' o = true) : Tbl.hasOwner T o = true := by
  rw [hT'.hasOwner_iff] at h
  rw [hT.hasOwner_iff]
  obtain ⟨n, hn⟩ := h
  exact ⟨n, hs.ne_nil hn⟩

/-- NInv's timer clause follows from timer consistency -/
theorem tim_ge_100 {tm : Timer} {ths : List (Nat × Th)} {nt : Nat} (h : TimInv tm ths)
    (hr : ∀ t th, thFind ths t = some th → 100 ≤ t ∧ t < nt) : ∀ e ∈ tm.elems, 100 ≤ e.1 := by
  intro e he
  obtain ⟨th, h1, _⟩ := h.t1 e he
  exact (hr e.1 th h1).1

/-- update of the record of `t` (which exists), possibly together with the timer -/
theorem Inv.setTh {C W C' W' : List Nat} {top top' : Option Nat} {s : State} (h : Inv C W top s)
    (t : Nat) (f : Th → Th) (th : Th) (tm' : Timer)
    (hth : thFind s.threads t = some th)
    (hpar : ∀ x, (f x).parent = x.parent)
    (hok : RecOK (f th))
    (hdead : ∀ x, (f x).dead = x.dead)
    (htim : TimInv tm' (s.threads.map (thUpd t f)))
    (hC' : ∀ x ∈ C, x ≠ t → x ∈ C') (hW' : ∀ x ∈ W, x ≠ t → x ∈ W')
    (htop : top = none ∨ top = top' ∨ top = some t)
    (hC : Tbl.hasOwner s.waitFor t = true → t ∈ C' ∨ (f th).ts = .waiting)
    (hW : (f th).ts = .waiting → t ∈ W' ∨ Tbl.hasOwner s.waitFor t = true)
    (h4 : (f th).ts = .waiting → (f th).vm ≠ .idling →
      top' = some t ∨ ∀ n, Tbl.getD s.waitFor (t, n) ≠ [] → n = 0) :
    Inv C' W' top' { (s.setTh t f) with timer := tm' } := by
  have hn1 : NInv (s.setTh t f) := h.n.setTh t f hpar
  refine ⟨?_, ?_, htim, ?_, ?_⟩
  · exact { hn1 with tim := tim_ge_100 htim hn1.range }
  · exact h.th.setTh t f (fun th0 h0 => by rw [hth] at h0; cases h0; exact hok)
  · refine ⟨h.tab.mir, ?_⟩
    intro o n x hx
    have hal : ∀ l, ({ (s.setTh t f) with timer := tm' } : State).alive l = s.alive l :=
      State.alive_congr (fun l => aliveTh_map_upd _ _ _ hdead l) rfl
    obtain ⟨a1, a2⟩ := h.tab.aN o n x hx
    refine ⟨by rw [hal]; exact a1, ?_⟩
    show aliveTh (s.threads.map (thUpd t f)) x = true
    rw [aliveTh_map_upd _ _ _ hdead]; exact a2
  · refine ⟨?_, ?_, ?_⟩
    · intro u ho
      by_cases hut : u = t
      · subst hut
        rcases hC ho with m | m
        · exact Or.inl m
        · refine Or.inr ⟨f th, ?_, m⟩
          show thFind (s.threads.map (thUpd u f)) u = _
          rw [thFind_map_upd]; simp [hth]
      · rcases h.lnk.linkC u ho with m | ⟨th0, h0, h1⟩
        · exact Or.inl (hC' u m hut)
        · refine Or.inr ⟨th0, ?_, h1⟩
          show thFind (s.threads.map (thUpd t f)) u = _
          rw [thFind_map_upd]; simp [hut, h0]
    · intro u th0 h0 hw
      have h0' : thFind (s.threads.map (thUpd t f)) u = some th0 := h0
      rw [thFind_map_upd] at h0'
      split at h0'
      · rename_i hut; subst hut
        simp [hth] at h0'; subst h0'
        exact hW hw
      · rename_i hut
        exact (h.lnk.linkW u th0 h0' hw).elim (fun m => Or.inl (hW' u m hut)) Or.inr
    · intro u th0 h0 hw hv
      have h0' : thFind (s.threads.map (thUpd t f)) u = some th0 := h0
      rw [thFind_map_upd] at h0'
      split at h0'
      · rename_i hut; subst hut
        simp [hth] at h0'; subst h0'
        exact h4 hw hv
      · rename_i hut
        rcases h.lnk.f4 u th0 h0' hw hv with e | e
        · rcases htop with ht | ht | ht
          · rw [ht] at e; cases e
          · left; rw [← ht]; exact e
          · rw [ht] at e; exact absurd (Option.some.inj e).symm hut
        · exact Or.inr e

/-- `setTh` on an id without record changes nothing the invariant reads -/
theorem Inv.setTh_none {C W : List Nat} {top : Option Nat} {s : State} (h : Inv C W top s)
    (t : Nat) (f : Th → Th) (hth : thFind s.threads t = none) (hpar : ∀ x, (f x).parent = x.parent) :
    Inv C W top (s.setTh t f) := by
  have hfind : ∀ u, thFind (s.setTh t f).threads u = thFind s.threads u := thFind_map_upd_of_none f hth
  have hmap : (s.setTh t f).threads = s.threads := by
    rw [State.setTh_threads]
    have : ∀ e ∈ s.threads, thUpd t f e = e := by
      intro e he
      unfold thUpd
      split
      · rename_i hk
        exfalso
        have := thFind_none_iff.1 hth
        apply this
        have hk' : e.1 = t := by simpa using hk
        rw [← hk']; exact List.mem_map.2 ⟨e, he, rfl⟩
      · rfl
    conv => rhs; rw [← List.map_id s.threads]
    exact List.map_congr_left (fun e he => by simp [this e he])
  refine ⟨h.n.setTh t f hpar, ?_, ?_, ?_, ?_⟩
  · rw [hmap]; exact h.th
  · rw [hmap]; exact h.tim
  · refine ⟨h.tab.mir, ?_⟩
    intro o n x hx
    have hal : ∀ l, (s.setTh t f).alive l = s.alive l :=
      State.alive_congr (fun l => by rw [hmap]) rfl
    obtain ⟨a1, a2⟩ := h.tab.aN o n x hx
    exact ⟨by rw [hal]; exact a1, by rw [hmap]; exact a2⟩
  · refine ⟨?_, ?_, ?_⟩
    · intro u ho
      rcases h.lnk.linkC u ho with m | ⟨th0, h0, h1⟩
      · exact Or.inl m
      · exact Or.inr ⟨th0, by rw [hfind]; exact h0, h1⟩
    · intro u th0 h0 hw
      rw [hfind] at h0
      exact h.lnk.linkW u th0 h0 hw
    · intro u th0 h0 hw hv
      rw [hfind] at h0
      exact h.lnk.f4 u th0 h0 hw hv

/-- fields the invariant does not read -/
theorem Inv.congr {C W : List Nat} {top : Option Nat} {s s' : State} (h : Inv C W top s)
    (e1 : s'.threads = s.threads) (e2 : s'.nextTid = s.nextTid)
    (e3 : s'.notify = s.notify) (e4 : s'.waitFor = s.waitFor) (e5 : s'.endOn = s.endOn)
    (e6 : s'.prog = s.prog) (e7 : s'.objs = s.objs) (e8 : s'.cur = s.cur) (e9 : s'.timer = s.timer) :
    Inv C W top s' := by
  have hal : ∀ l, s'.alive l = s.alive l := State.alive_congr (fun l => by rw [e1]) e7
  refine ⟨h.n.congr e1 e2 e3 e4 e5 e6 e7 e8 e9, by rw [e1]; exact h.th, by rw [e1, e9]; exact h.tim, ?_, ?_⟩
  · refine ⟨by rw [e3, e4]; exact h.tab.mir, ?_⟩
    intro o n x hx
    rw [e3] at hx
    obtain ⟨a1, a2⟩ := h.tab.aN o n x hx
    exact ⟨by rw [hal]; exact a1, by rw [e1]; exact a2⟩
  · refine ⟨?_, ?_, ?_⟩
    · intro u ho; rw [e4] at ho; rw [e1]; exact h.lnk.linkC u ho
    · intro u th0 h0 hw; rw [e1] at h0; rw [e4]; exact h.lnk.linkW u th0 h0 hw
    · intro u th0 h0 hw hv; rw [e1] at h0; rw [e4]; exact h.lnk.f4 u th0 h0 hw hv

/-- the `cur` field is only read by `NInv` -/
theorem Inv.setCur {C W : List Nat} {top : Option Nat} {s : State} (h : Inv C W top s) (c : Option Nat)
    (hc : ∀ x, c = some x → 100 ≤ x) : Inv C W top { s with cur := c } :=
  ⟨h.n.setCur c hc, h.th, h.tim, ⟨h.tab.mir, fun o n x hx => h.tab.aN o n x hx⟩,
    ⟨h.lnk.linkC, h.lnk.linkW, h.lnk.f4⟩⟩

/-- both tables shrink (per key), the mirror holds again, and no `waiting` thread loses its last
    entry — except the ones listed in `Wl'` -/
theorem Inv.setTables {C Wl Wl' : List Nat} {top : Option Nat} {s : State} (h : Inv C Wl top s)
    (N' W' : Tbl) (wfN : Tbl.WF N') (wfW : Tbl.WF W')
    (subN : Tbl.Sub N' s.notify) (subW : Tbl.Sub W' s.waitFor) (mir : TblMirror N' W')
    (hWl : ∀ x ∈ Wl, x ∈ Wl')
    (hW : ∀ x th, thFind s.threads x = some th → th.ts = .waiting → Tbl.hasOwner s.waitFor x = true →
      x ∈ Wl' ∨ Tbl.hasOwner W' x = true) :
    Inv C Wl' top { s with notify := N', waitFor := W' } := by
  refine ⟨(h.n.setNotify N' wfN subN).setWaitFor W' wfW subW, h.th, h.tim, ?_, ?_⟩
  · refine ⟨mir, ?_⟩
    intro o n x hx
    exact h.tab.aN o n x (subN _ _ hx)
  · refine ⟨?_, ?_, ?_⟩
    · intro u ho
      exact h.lnk.linkC u (hasOwner_of_sub h.n.wfW wfW subW ho)
    · intro u th0 h0 hw
      rcases h.lnk.linkW u th0 h0 hw with m | m
      · exact Or.inl (hWl u m)
      · exact hW u th0 h0 hw m
    · intro u th0 h0 hw hv
      rcases h.lnk.f4 u th0 h0 hw hv with e | e
      · exact Or.inl e
      · exact Or.inr (fun n hn => e n (subW.ne_nil hn))

/-- a thread that no table mentions and that is not `timing` dies (`dead := true`) or its record goes -/
theorem notMentioned {s : State} (hm : TblMirror s.notify s.waitFor) (hwN : Tbl.WF s.notify) (hwW : Tbl.WF s.waitFor)
    {t : Nat} (h1 : Tbl.hasOwner s.notify t = false) (h2 : Tbl.hasOwner s.waitFor t = false) :
    ∀ o n x, x ∈ Tbl.getD s.notify (o, n) → o ≠ t ∧ x ≠ t := by
  intro o n x hx
  constructor
  · intro e; subst e
    have := (hwN.hasOwner_false_iff o).1 h1 n
    rw [this] at hx; simp at hx
  · intro e; subst e
    have hx' := (hm.mem_iff o n x).1 hx
    have := (hwW.hasOwner_false_iff x).1 h2 n
    rw [this] at hx'; simp at hx'

theorem Inv.die {C W : List Nat} {top : Option Nat} {s : State} (h : Inv C W top s) (t : Nat) (th : Th)
    (hth : thFind s.threads t = some th) (hvm : th.hasVM = false) (hd : th.vm = .destroyed)
    (h1 : Tbl.hasOwner s.notify t = false) (h2 : Tbl.hasOwner s.waitFor t = false) :
    Inv C W top (s.setTh t (fun th => { th with dead := true })) := by
  generalize hfdef : (fun th : Th => ({ th with dead := true } : Th)) = f
  have hfd : ∀ x, f x = { x with dead := true } := fun x => by rw [← hfdef]
  have hnm := notMentioned h.tab.mir h.n.wfN h.n.wfW h1 h2
  have hts : th.ts = .running := (h.th t th hth).f1 hvm
  have hfind : ∀ u, u ≠ t → thFind (s.threads.map (thUpd t f)) u = thFind s.threads u := by
    intro u hu; rw [thFind_map_upd]; simp [hu]
  have halive : ∀ u, u ≠ t → aliveTh (s.threads.map (thUpd t f)) u = aliveTh s.threads u := by
    intro u hu
    unfold aliveTh
    rw [List.any_map]
    congr 1
    funext e
    simp only [Function.comp, thUpd]
    split
    · rename_i hk
      have hk' : e.1 = t := by simpa using hk
      have : (e.1 == u) = false := by simp; rw [hk']; exact fun e' => hu e'.symm
      simp [this]
    · rfl
  refine ⟨h.n.setTh t f (fun x => by rw [hfd]), ?_, ?_, ?_, ?_⟩
  · show ThInv (s.threads.map (thUpd t f))
    apply h.th.setTh
    intro th0 h0
    rw [hth] at h0; cases h0
    have r := h.th t th hth
    rw [hfd]
    exact ⟨fun _ => r.f1 hvm, fun _ => ⟨hvm, hd⟩, r.f3, r.f5⟩
  · show TimInv s.timer (s.threads.map (thUpd t f))
    exact h.tim.setTh_same t f (fun x => by rw [hfd])
  · refine ⟨h.tab.mir, ?_⟩
    intro o n x hx
    obtain ⟨a1, a2⟩ := h.tab.aN o n x hx
    obtain ⟨n1, n2⟩ := hnm o n x hx
    refine ⟨?_, ?_⟩
    · by_cases ho : State.isThread o = true
      · rw [State.alive_thread _ ho] at a1 ⊢
        show aliveTh (s.threads.map (thUpd t f)) o = true
        rw [halive o n1]; exact a1
      · have ho' : State.isThread o = false := by simpa using ho
        rw [State.alive_obj _ ho'] at a1 ⊢
        exact a1
    · show aliveTh (s.threads.map (thUpd t f)) x = true
      rw [halive x n2]; exact a2
  · refine ⟨?_, ?_, ?_⟩
    · intro u ho
      have ho' : Tbl.hasOwner s.waitFor u = true := ho
      have hut : u ≠ t := by intro e; subst e; rw [h2] at ho'; cases ho'
      rcases h.lnk.linkC u ho' with m | ⟨th0, h0, h3⟩
      · exact Or.inl m
      · exact Or.inr ⟨th0, by rw [State.setTh_threads, hfind u hut]; exact h0, h3⟩
    · intro u th0 h0 hw
      by_cases hut : u = t
      · subst hut
        rw [State.setTh_threads, thFind_map_upd] at h0
        simp [hth] at h0
        rw [← h0, hfd] at hw
        simp only at hw
        rw [hts] at hw; cases hw
      · rw [State.setTh_threads, hfind u hut] at h0
        exact h.lnk.linkW u th0 h0 hw
    · intro u th0 h0 hw hv
      by_cases hut : u = t
      · subst hut
        rw [State.setTh_threads, thFind_map_upd] at h0
        simp [hth] at h0
        rw [← h0, hfd] at hw
        simp only at hw
        rw [hts] at hw; cases hw
      · rw [State.setTh_threads, hfind u hut] at h0
        exact h.lnk.f4 u th0 h0 hw hv

/-- the record of a thread that is not alive (or that no table mentions) and not `timing` is removed -/
theorem Inv.remove {C W : List Nat} {top : Option Nat} {s : State} (h : Inv C W top s) (t : Nat) (th : Th)
    (hth : thFind s.threads t = some th) (hvm : th.hasVM = false)
    (hnm : ∀ o n x, x ∈ Tbl.getD s.notify (o, n) → o ≠ t ∧ x ≠ t) :
    Inv C W top { s with threads := s.threads.filter (fun e => !(e.1 == t)) } := by
  have hts : th.ts = .running := (h.th t th hth).f1 hvm
  have hfind : ∀ u, u ≠ t → thFind (s.threads.filter (fun e => !(e.1 == t))) u = thFind s.threads u := by
    intro u hu; rw [thFind_filter_ne]; simp [hu]
  have hown : Tbl.hasOwner s.waitFor t = false := by
    rw [h.n.wfW.hasOwner_false_iff]
    intro n
    cases hg : Tbl.getD s.waitFor (t, n) with
    | nil => rfl
    | cons src rest =>
      exfalso
      have hm : src ∈ Tbl.getD s.waitFor (t, n) := by rw [hg]; exact List.mem_cons_self
      have := (h.tab.mir.mem_iff src n t).2 hm
      exact (hnm src n t this).2 rfl
  refine ⟨h.n.filterTh t, h.th.filter t, ?_, ?_, ?_⟩
  · exact h.tim.filter t (fun th0 h0 => by rw [hth] at h0; cases h0; rw [hts]; simp)
  · refine ⟨h.tab.mir, ?_⟩
    intro o n x hx
    obtain ⟨a1, a2⟩ := h.tab.aN o n x hx
    obtain ⟨n1, n2⟩ := hnm o n x hx
    refine ⟨?_, ?_⟩
    · by_cases ho : State.isThread o = true
      · rw [State.alive_thread _ ho] at a1 ⊢
        show aliveTh (s.threads.filter (fun e => !(e.1 == t))) o = true
        rw [aliveTh_filter_ne _ _ _ n1]; exact a1
      · have ho' : State.isThread o = false := by simpa using ho
        rw [State.alive_obj _ ho'] at a1 ⊢
        exact a1
    · show aliveTh (s.threads.filter (fun e => !(e.1 == t))) x = true
      rw [aliveTh_filter_ne _ _ _ n2]; exact a2
  · refine ⟨?_, ?_, ?_⟩
    · intro u ho
      have ho' : Tbl.hasOwner s.waitFor u = true := ho
      have hut : u ≠ t := by intro e; subst e; rw [hown] at ho'; cases ho'
      rcases h.lnk.linkC u ho' with m | ⟨th0, h0, h3⟩
      · exact Or.inl m
      · exact Or.inr ⟨th0, by simp only; rw [hfind u hut]; exact h0, h3⟩
    · intro u th0 h0 hw
      simp only at h0
      rw [thFind_filter_ne] at h0
      split at h0
      · simp at h0
      · exact h.lnk.linkW u th0 h0 hw
    · intro u th0 h0 hw hv
      simp only at h0
      rw [thFind_filter_ne] at h0
      split at h0
      · simp at h0
      · exact h.lnk.f4 u th0 h0 hw hv

end Morfuse.Sched
