import MorfuseModel.Sched.MachineInst
import MorfuseModel.Sched.PoolLedger
/-!
# Thread records and script instances are created and freed like pool objects

`LL s s'`: there is a history of `new` / `del` operations leading from the pool of thread ids of `s`
(`(ids of the records, nextTid)`) to that of `s'`, and one for the pool of instance ids
(`(ids of the listed instances, nextInst)`) — the ghost ledgers of this call.  A `del t` is emitted exactly where a
record is removed (end of `~ScriptThread` with the VM already freed; `ScriptVM::Execute`'s epilogue for a destroyed
VM), a `del i` where an instance is unlinked (`ScriptClass::RemoveThread` of the last thread; `~ScriptClass`), a
`new` where a thread / an instance is created (`thread`, `waitthread`, host call).  Unconditional, skeleton of
`presAll`.
-/
namespace Morfuse.Sched
open State

def absT (s : State) : Pool := ⟨s.threads.map (·.1), s.nextTid⟩
def absI (s : State) : Pool := ⟨(s.insts.map (·.1)).reverse, s.nextInst⟩

structure LL (s s' : State) : Prop where
  th : ∃ ops, pRun (absT s) ops = some (absT s')
  inst : ∃ ops, pRun (absI s) ops = some (absI s')

theorem LL.refl (s : State) : LL s s := ⟨⟨[], rfl⟩, ⟨[], rfl⟩⟩
theorem LL.trans {a b c : State} (h1 : LL a b) (h2 : LL b c) : LL a c := by
  obtain ⟨o1, r1⟩ := h1.th
  obtain ⟨o2, r2⟩ := h2.th
  obtain ⟨p1, q1⟩ := h1.inst
  obtain ⟨p2, q2⟩ := h2.inst
  exact ⟨⟨o1 ++ o2, pRun_append _ _ _ _ _ r1 r2⟩, ⟨p1 ++ p2, pRun_append _ _ _ _ _ q1 q2⟩⟩

theorem LL.of_abs {s s' : State} (h1 : absT s' = absT s) (h2 : absI s' = absI s) : LL s s' :=
  ⟨⟨[], by rw [h1]; rfl⟩, ⟨[], by rw [h2]; rfl⟩⟩

/-- a step that keeps threads, instances and both counters -/
theorem LL.of_eq {s s' : State} (h1 : s'.threads = s.threads) (h2 : s'.insts = s.insts)
    (h3 : (s'.nextTid, s'.nextInst) = (s.nextTid, s.nextInst)) : LL s s' := by
  simp only [Prod.mk.injEq] at h3
  exact LL.of_abs (by unfold absT; rw [h1, h3.1]) (by unfold absI; rw [h2, h3.2])

theorem setTh_keys (s : State) (t : Nat) (f : Th → Th) : (s.setTh t f).threads.map (·.1) = s.threads.map (·.1) := by
  rw [State.setTh_threads, map_upd_keys]

/-- a step that keeps the ids of the records, the instance list and both counters -/
theorem LL.keys {s s' : State} (h1 : s'.threads.map (·.1) = s.threads.map (·.1)) (h2 : s'.nextTid = s.nextTid)
    (h3 : s'.insts = s.insts) (h4 : s'.nextInst = s.nextInst) : LL s s' :=
  LL.of_abs (by unfold absT; rw [h1, h2]) (by unfold absI; rw [h3, h4])

theorem LL.fuel (s : State) : LL s { s with outOfFuel := true } := LL.of_eq rfl rfl rfl

theorem LL.setTh (s : State) (t : Nat) (f : Th → Th) : LL s (s.setTh t f) :=
  LL.of_abs (by unfold absT; rw [State.setTh_threads, map_upd_keys]; rfl) rfl

/-- the record of `t`, which exists, is removed -/
theorem LL.filter (s : State) (t : Nat) (th : Th) (h : thFind s.threads t = some th) :
    LL s { s with threads := s.threads.filter (fun e => !(e.1 == t)) } := by
  refine ⟨⟨[.del t], ?_⟩, ⟨[], rfl⟩⟩
  have hm : t ∈ (absT s).ids := List.mem_map.2 ⟨(t, th), thFind_some_mem h, rfl⟩
  simp only [pRun, pStep, hm, if_true, Option.bind_some]
  congr 1
  unfold absT
  simp only [Pool.mk.injEq, and_true]
  induction s.threads with
  | nil => rfl
  | cons e l ih =>
    by_cases he : e.1 = t
    · simp [List.filter_cons, he, ih]
    · have hb : (e.1 == t) = false := by simpa using he
      simp [List.filter_cons, hb, ih]

/-- a new record -/
theorem LL.append (s s' : State) (r : Th) (h1 : s'.threads = s.threads ++ [(s.nextTid, r)])
    (h2 : s'.nextTid = s.nextTid + 1) (h3 : absI s' = absI s) : LL s s' := by
  refine ⟨⟨[.new], ?_⟩, ⟨[], by rw [h3]; rfl⟩⟩
  simp only [pRun, pStep, Option.bind_some]
  congr 1
  unfold absT
  rw [h1, h2]
  simp

/-- a new record with a new script instance of its own -/
theorem LL.spawnFresh (s s' : State) (r : Th) (h1 : s'.threads = s.threads ++ [(s.nextTid, r)])
    (h2 : s'.nextTid = s.nextTid + 1) (h3 : s'.insts = (s.nextInst, [s.nextTid]) :: s.insts)
    (h4 : s'.nextInst = s.nextInst + 1) : LL s s' := by
  refine ⟨⟨[.new], ?_⟩, ⟨[.new], ?_⟩⟩
  · simp only [pRun, pStep, Option.bind_some]
    congr 1
    unfold absT
    rw [h1, h2]
    simp
  · simp only [pRun, pStep, Option.bind_some]
    congr 1
    unfold absI
    rw [h3, h4]
    simp

theorem map_keys_if (L : List (Nat × List Nat)) (i : Nat) (g : Nat × List Nat → List Nat) :
    (L.map (fun e => if e.1 == i then (e.1, g e) else e)).map (·.1) = L.map (·.1) := by
  rw [List.map_map]
  apply List.map_congr_left
  intro e _
  simp only [Function.comp]
  split <;> rfl

theorem LL.rfi (s : State) (t i : Nat) : LL s (Morfuse.Sched.removeFromInst s t i) := by
  refine ⟨⟨[], by rw [removeFromInst_frame]; rfl⟩, ?_⟩
  have hI : absI (Morfuse.Sched.removeFromInst s t i) = ⟨((riInsts s.insts t i).map (·.1)).reverse, s.nextInst⟩ := by
    unfold absI; rw [removeFromInst_insts, removeFromInst_frame]
  rw [hI]
  unfold riInsts
  cases hfd : s.insts.find? (·.1 == i) with
  | none => exact ⟨[], rfl⟩
  | some e =>
    simp only
    split
    · exact ⟨[], rfl⟩
    · split
      · refine ⟨[.del i], ?_⟩
        have he : e ∈ s.insts := List.mem_of_find?_eq_some hfd
        have hk : e.1 = i := by simpa using List.find?_some hfd
        have hm : i ∈ (absI s).ids := by
          unfold absI; simp only [List.mem_reverse, List.mem_map]; exact ⟨e, he, hk⟩
        simp only [pRun, pStep, hm, if_true, Option.bind_some]
        congr 1
        unfold absI
        simp only [Pool.mk.injEq, and_true]
        rw [← List.map_reverse, ← List.map_reverse, ← List.filter_reverse]
        induction s.insts.reverse with
        | nil => rfl
        | cons x l ih =>
          by_cases hx : x.1 = i
          · simp [List.filter_cons, hx, ih]
          · have hb : (x.1 == i) = false := by simpa using hx
            simp [List.filter_cons, hb, ih]
      · refine ⟨[], ?_⟩
        simp only [pRun]
        rw [map_keys_if]
        rfl

/-- functions of one / two / three extra arguments that satisfy `Pres` -/
def LL1 (f : State → Nat → State) : Prop := ∀ s a, LL s (f s a)
def LL0 (f : State → State) : Prop := ∀ s, LL s (f s)
def LL2 (f : State → Nat → Nat → State) : Prop := ∀ s a b, LL s (f s a b)
def LL3 (f : State → Nat → Nat → Bool → State) : Prop := ∀ s a b c, LL s (f s a b c)

theorem LL.foldl {α : Type} (f : State → α → State) (hf : ∀ s a, LL s (f s a)) :
    ∀ (l : List α) (s : State), LL s (l.foldl f s)
  | [], s => LL.refl s
  | a :: l, s => (hf s a).trans (LL.foldl f hf l (f s a))

theorem stopStep_ll {cw : State → Nat → State} (hcw : LL1 cw) (s : State) (t : Nat) (th : Th) :
    LL s (stopStep cw s t th) := by
  unfold stopStep
  split
  · exact LL.keys (show List.map (·.1) (s.setTh t fun th => { th with ts := .running }).threads = _ from setTh_keys s t _) rfl rfl rfl
  · split
    · exact (LL.setTh s t _).trans (hcw _ _)
    · exact LL.refl s

theorem notifyDelete_ll (s : State) (t : Nat) : LL s (notifyDelete s t) := by
  unfold notifyDelete
  split
  · exact LL.refl s
  · rename_i th _
    have h1 : LL s (if th.attached = true then removeFromInst (s.setTh t fun th => { th with vm := .destroyed }) t th.inst
        else s.setTh t fun th => { th with vm := .destroyed }) := by
      split
      · exact (LL.setTh s t _).trans (LL.rfi _ _ _)
      · exact LL.setTh s t _
    simp only
    split
    · exact h1.trans (LL.setTh _ _ _)
    · exact h1

theorem finishDelete_ll (s : State) (t : Nat) : LL s (finishDelete s t) := by
  unfold finishDelete
  cases hf : s.th? t with
  | none => exact LL.refl s
  | some th =>
    simp only
    split
    · exact LL.setTh s t _
    · exact LL.filter s t th (by rw [← State.th?_eq]; exact hf)

theorem cancelEvents_ll (s : State) (t : Nat) : LL s (cancelEvents s t) := LL.of_eq rfl rfl rfl
theorem postEvent_ll (s : State) (t d : Nat) : LL s (postEvent s t d) := LL.of_eq rfl rfl rfl
theorem addTiming_ll (s : State) (t d : Nat) : LL s (addTiming s t d) := LL.of_eq rfl rfl rfl
theorem vmSuspend_ll (s : State) (t : Nat) : LL s (vmSuspend s t) := LL.setTh s t _
theorem vmResume_ll (s : State) (t : Nat) : LL s (vmResume s t) := LL.setTh s t _

theorem notifyLoop_ll {sn : State → Nat → State} (hsn : LL1 sn) (s : State) (stopped : List Nat) :
    LL s (notifyLoop sn s stopped) := by
  unfold notifyLoop
  apply LL.foldl
  intro s a
  split
  · exact hsn s a
  · exact LL.refl s

theorem cwaZero_ll {swf : State → Nat → Nat → Bool → State} {sn : State → Nat → State}
    (hswf : LL3 swf) (hsn : LL1 sn) (s : State) (w : Nat) : LL s (cwaZero swf sn s w) := by
  unfold cwaZero
  split
  · exact LL.refl s
  · rename_i list _
    simp only [cancelWaitingSources_eq_purge]
    refine LL.trans ?_ (notifyLoop_ll hsn _ _)
    split
    · refine LL.trans ?_ (hswf _ _ _ _)
      exact LL.of_eq rfl rfl rfl
    · exact LL.of_eq rfl rfl rfl

theorem cwaRest_ll {swf : State → Nat → Nat → Bool → State} {sn : State → Nat → State}
    (hswf : LL3 swf) (hsn : LL1 sn) (s : State) (w : Nat) : LL s (cwaRest swf sn s w) := by
  unfold cwaRest
  split
  · exact LL.refl s
  · simp only [cwaSources_frame]
    refine LL.trans ?_ (notifyLoop_ll hsn _ _)
    refine LL.trans ?_ (hswf _ _ _ _)
    exact LL.of_eq rfl rfl rfl

theorem startTiming_ll {stp : State → Nat → State} (h : LL1 stp) (s : State) (t : Nat) :
    LL s (startTiming stp s t) := by
  unfold startTiming
  split
  · exact h s t
  · exact ((h s t).trans (LL.setTh _ _ _)).trans (addTiming_ll _ _ _)

theorem endOnLoop_ll {dt : State → Nat → State} (h : LL1 dt) (s : State) (src name : Nat)
    (listeners : List Nat) : LL s (endOnLoop dt s src name listeners).1 := by
  unfold endOnLoop
  generalize listeners.reverse = L
  suffices hs : ∀ (L : List Nat) (acc : State × Bool), LL s acc.1 →
      LL s (L.foldl (fun (acc : State × Bool) l =>
        if acc.1.alive l then
          if l == src && (name == nameRemove || name == nameDelete || acc.2) then acc
          else (dt acc.1 l, acc.2 || (l == src))
        else acc) acc).1 from hs L (s, false) (LL.refl s)
  intro L
  induction L with
  | nil => intro acc h; exact h
  | cons l L ih =>
    intro acc hacc
    simp only [List.foldl_cons]
    apply ih
    split
    · split
      · exact hacc
      · exact hacc.trans (h _ _)
    · exact hacc

theorem unregEndOn_ll {dt : State → Nat → State} (h : LL1 dt) (s : State) (src name : Nat) :
    LL s (unregEndOn dt s src name).1 := by
  unfold unregEndOn
  split
  · exact LL.refl s
  · split
    · exact LL.refl s
    · refine LL.trans ?_ (endOnLoop_ll h _ _ _ _)
      exact LL.of_eq rfl rfl rfl

theorem wakeLoop_ll {swf : State → Nat → Nat → Bool → State} (h : LL3 swf) (s : State) (name : Nat)
    (stopped : List Nat) : LL s (wakeLoop swf s name stopped) := by
  unfold wakeLoop
  apply LL.foldl
  intro s a
  split
  · exact h _ _ _ _
  · exact LL.refl s

theorem unregNotify_ll {swf : State → Nat → Nat → Bool → State} {sn : State → Nat → State}
    (hswf : LL3 swf) (hsn : LL1 sn) (s : State) (src name : Nat) :
    LL s (unregNotify swf sn s src name) := by
  unfold unregNotify
  split
  · exact LL.refl s
  · split
    · exact LL.refl s
    · simp only [unregisterTargets_eq_purge]
      refine LL.trans ?_ (wakeLoop_ll hswf _ _ _)
      split
      · refine LL.trans ?_ (hsn _ _)
        exact LL.of_eq rfl rfl rfl
      · exact LL.of_eq rfl rfl rfl

theorem killLoop_ll {swf : State → Nat → Nat → Bool → State} (h : LL3 swf) (s : State)
    (stopped : List (Nat × Nat)) : LL s (killLoop swf s stopped) := by
  unfold killLoop
  apply LL.foldl
  intro s a
  split
  · exact h _ _ _ _
  · exact LL.refl s

theorem uaRest_ll {swf : State → Nat → Nat → Bool → State} {sn : State → Nat → State}
    (hswf : LL3 swf) (hsn : LL1 sn) (s : State) (src : Nat) : LL s (uaRest swf sn s src) := by
  unfold uaRest
  split
  · exact LL.refl s
  · simp only
    refine LL.trans ?_ (killLoop_ll hswf _ _)
    refine LL.trans ?_ (hsn _ _)
    rw [uaTargets_frame]
    exact LL.of_eq rfl rfl rfl

theorem regWait_ll {stp : State → Nat → State} (h : LL1 stp) (s : State) (o n c : Nat) :
    LL s (regWait stp s o n c) := by
  unfold regWait
  simp only
  split
  · refine LL.trans (b := stp { s with notify := Tbl.push s.notify (o, n) c } c) ?_ ?_
    · refine LL.trans ?_ (h _ _)
      exact LL.of_eq rfl rfl rfl
    · exact LL.keys (by simp [vmSuspend, setTh_keys]) rfl rfl rfl
  · exact LL.of_eq rfl rfl rfl

theorem waitOn_ll {stp : State → Nat → State} (h : LL1 stp) (s : State) (p ms : Nat) :
    LL s (waitOn stp s p ms) := by
  unfold waitOn
  exact (h s p).trans (LL.keys (by simp [vmSuspend, addTiming, setTh_keys]) rfl rfl rfl)

theorem waitOnGuarded_ll {stp : State → Nat → State} (h : LL1 stp) (s : State) (p ms : Nat) :
    LL s (waitOnGuarded stp s p ms) := by
  unfold waitOnGuarded
  split
  · exact h s p
  · exact waitOn_ll h s p ms

theorem setRet_ll (s : State) (c : Nat) (r : Ret) : LL s (s.setRet c r) := LL.of_eq rfl rfl rfl

theorem endResult_ll (s : State) (th : Th) (ev : EndV) : LL s (endResult s th ev) := by
  unfold endResult
  simp only
  split
  · exact LL.refl s
  · split <;> first | exact setRet_ll _ _ _ | exact LL.refl s

theorem restoreCur_ll (s : State) (c : Option Nat) : LL s (restoreCur s c) := LL.of_eq rfl rfl rfl

theorem execIfAlive_ll {ev : State → Nat → State} (h : LL1 ev) (s : State) (t : Nat) :
    LL s (execIfAlive ev s t) := by
  unfold execIfAlive
  split
  · exact h s t
  · exact LL.refl s

theorem vmEpilogue_ll (s : State) (t : Nat) : LL s (vmEpilogue s t) := by
  unfold vmEpilogue
  cases hf : s.th? t with
  | none => exact LL.refl s
  | some th =>
    simp only
    split
    · exact LL.setTh _ _ _
    · exact LL.filter s t th (by rw [← State.th?_eq]; exact hf)
    · exact LL.refl s

theorem vmPrologue_ll (s : State) (t : Nat) : LL s (vmPrologue s t) :=
  LL.keys (show List.map (·.1) (s.setTh t fun th => { th with vm := .running }).threads = _ from setTh_keys s t _) rfl rfl rfl

/-- the statement for one fuel level -/
structure LLAll (fuel : Nat) : Prop where
  dt : LL1 (deleteThread fuel)
  sn : LL1 (stoppedNotify fuel)
  stp : LL1 (stop fuel)
  cwa : LL1 (cancelWaitingAll fuel)
  swf : LL3 (stoppedWaitFor fuel)
  ur : LL2 (unregister fuel)
  ua : LL1 (unregisterAll fuel)
  sei : LL1 (scriptExecuteInternal fuel)
  er : LL0 (executeRunning fuel)
  dr : LL0 (drain fuel)
  ev : LL1 (execVM fuel)
  pr : LL1 (process fuel)
  ex : ∀ s t th ins, LL s (exec fuel s t th ins)

theorem llAll_zero : LLAll 0 where
  dt := fun s t => by rw [deleteThread_zero]; exact LL.fuel s
  sn := fun s t => by rw [stoppedNotify_zero]; exact LL.fuel s
  stp := fun s t => by rw [stop_zero]; exact LL.fuel s
  cwa := fun s t => by rw [cancelWaitingAll_zero]; exact LL.fuel s
  swf := fun s t n d => by rw [stoppedWaitFor_zero]; exact LL.fuel s
  ur := fun s t n => by rw [unregister_zero]; exact LL.fuel s
  ua := fun s t => by rw [unregisterAll_zero]; exact LL.fuel s
  sei := fun s t => by rw [scriptExecuteInternal_zero]; exact LL.fuel s
  er := fun s => by rw [executeRunning_zero]; exact LL.fuel s
  dr := fun s => by rw [drain_zero]; exact LL.fuel s
  ev := fun s t => by rw [execVM_zero]; exact LL.fuel s
  pr := fun s t => by rw [process_zero]; exact LL.fuel s
  ex := fun s t th ins => by rw [exec_zero]; exact LL.fuel s

theorem exec_ll_succ {fuel : Nat} (ih : LLAll fuel) (s : State) (t : Nat) (th : Th) (ins : Instr) :
    LL s (exec (fuel + 1) s t th ins) := by
  cases ins with
  | mark k => rw [exec_mark]; exact LL.of_eq rfl rfl rfl
  | pparam i => rw [exec_pparam]; exact LL.of_eq rfl rfl rfl
  | wait ms => rw [exec_wait]; exact waitOn_ll ih.stp _ _ _
  | waittill o names =>
    rw [exec_waittill]
    split
    · exact LL.refl s
    · split
      · exact LL.refl s
      · exact LL.foldl _ (fun s n => regWait_ll ih.stp _ _ _ _) _ _
  | waittillTimeout o n ms =>
    rw [exec_waittillTimeout]
    split
    · exact LL.refl s
    · split
      · exact LL.refl s
      · exact (regWait_ll ih.stp _ _ _ _).trans (postEvent_ll _ _ _)
  | notify o n =>
    rw [exec_notify]
    split
    · exact LL.refl s
    · exact ih.ur _ _ _
  | endon o n =>
    rw [exec_endon]
    split
    · exact LL.refl s
    · split
      · exact LL.refl s
      · exact LL.of_eq rfl rfl rfl
  | delete o =>
    rw [exec_delete]
    split
    · exact LL.refl s
    · refine LL.trans (b := cancelWaitingAll fuel (unregisterAll fuel (unregister fuel (unregister fuel s o nameDelete) o nameRemove) o) o) ?_ ?_
      · exact (((ih.ur _ _ _).trans (ih.ur _ _ _)).trans (ih.ua _ _)).trans (ih.cwa _ _)
      · exact LL.of_eq rfl rfl rfl
  | thread l =>
    rw [exec_thread]
    split
    · exact LL.refl s
    · refine LL.trans ?_ (ih.sei _ _)
      exact LL.append s (spawnSame s t th l) _ rfl rfl (by unfold absI spawnSame; simp only [map_keys_if])
  | waitthread l =>
    rw [exec_waitthread]
    split
    · exact LL.refl s
    · split
      · refine LL.trans ?_ (ih.sei _ _)
        exact LL.spawnFresh s (spawnNew s t l) _ rfl rfl rfl rfl
      · refine LL.trans ?_ (ih.sei _ _)
        refine LL.trans ?_ (regWait_ll ih.stp _ _ _ _)
        exact LL.spawnFresh s (spawnNew s t l) _ rfl rfl rfl rfl
  | pause => rw [exec_pause]; exact (ih.stp _ _).trans (vmSuspend_ll _ _)
  | waitParent ms =>
    rw [exec_waitParent]
    split
    · exact LL.refl s
    · exact waitOnGuarded_ll ih.stp _ _ _
  | waittillParent names =>
    rw [exec_waittillParent]
    split
    · exact LL.refl s
    · split
      · exact LL.refl s
      · exact LL.foldl _ (fun s n => regWait_ll ih.stp _ _ _ _) _ _
  | notifyParent n =>
    rw [exec_notifyParent]
    split
    · exact LL.refl s
    · exact ih.ur _ _ _
  | end_ ev =>
    rw [exec_end]
    exact ((endResult_ll _ _ _).trans (LL.setTh _ _ _)).trans (ih.dt _ _)
  | spawn o =>
    rw [exec_spawn]
    split
    · exact LL.refl s
    · exact LL.of_eq rfl rfl rfl

theorem llAll_succ {fuel : Nat} (ih : LLAll fuel) : LLAll (fuel + 1) where
  dt := fun s t => by
    rw [deleteThread_succ]
    split
    · exact LL.refl s
    · split
      · exact LL.refl s
      · exact ((((((((LL.setTh s t _).trans (stopStep_ll ih.cwa _ _ _)).trans (notifyDelete_ll _ _)).trans
          (cancelEvents_ll _ _)).trans (ih.ur _ _ _)).trans (ih.ur _ _ _)).trans (ih.ua _ _)).trans
          (ih.cwa _ _)).trans (finishDelete_ll _ _)
  sn := fun s l => by
    rw [stoppedNotify_succ]
    split
    · split
      · exact ih.dt _ _
      · exact LL.refl s
    · exact LL.refl s
  stp := fun s t => by
    rw [stop_succ]
    split
    · exact LL.refl s
    · exact stopStep_ll ih.cwa _ _ _
  cwa := fun s w => by
    rw [cancelWaitingAll_succ]
    exact (cwaZero_ll ih.swf ih.sn _ _).trans (cwaRest_ll ih.swf ih.sn _ _)
  swf := fun s t name d => by
    rw [stoppedWaitFor_succ]
    split
    · exact LL.refl s
    · split
      · exact LL.refl s
      · split
        · exact LL.refl s
        · split
          · exact ih.dt _ _
          · split
            · split
              · split
                · exact (cancelEvents_ll _ _).trans (ih.sei _ _)
                · exact (cancelEvents_ll _ _).trans (vmResume_ll _ _)
              · exact (cancelEvents_ll _ _).trans (startTiming_ll ih.stp _ _)
            · exact cancelEvents_ll _ _
  ur := fun s src name => by
    rw [unregister_succ]
    split
    · exact unregEndOn_ll ih.dt _ _ _
    · exact (unregEndOn_ll ih.dt _ _ _).trans (unregNotify_ll ih.swf ih.sn _ _ _)
  ua := fun s src => by
    rw [unregisterAll_succ]
    refine LL.trans ?_ (uaRest_ll ih.swf ih.sn _ _)
    refine LL.trans (ih.ur s src 0) ?_
    exact LL.of_eq rfl rfl rfl
  sei := fun s t => by
    rw [scriptExecuteInternal_succ]
    refine LL.trans ?_ (ih.er _)
    refine LL.trans ?_ (restoreCur_ll _ _)
    refine LL.trans ?_ (execIfAlive_ll ih.ev _ _)
    refine LL.trans ?_ (ih.stp _ _)
    exact LL.of_eq rfl rfl rfl
  er := fun s => by
    rw [executeRunning_succ]
    split
    · exact LL.refl s
    · split
      · exact LL.refl s
      · exact ih.dr _
  dr := fun s => by
    rw [drain_succ]
    split
    · exact LL.of_eq rfl rfl rfl
    · refine LL.trans ?_ (ih.dr _)
      refine LL.trans ?_ (ih.ev _ _)
      exact LL.keys (by simp [setTh_keys]) rfl rfl rfl
  ev := fun s t => by
    rw [execVM_succ]
    refine LL.trans ?_ (vmEpilogue_ll _ _)
    refine LL.trans (b := process fuel (vmPrologue s t) t) ?_ (LL.of_eq rfl rfl rfl)
    exact (vmPrologue_ll s t).trans (ih.pr _ _)
  pr := fun s t => by
    rw [process_succ]
    split
    · exact LL.refl s
    · split
      · exact LL.refl s
      · exact ((LL.setTh s t _).trans (ih.ex _ _ _ _)).trans (ih.pr _ _)
  ex := exec_ll_succ ih

theorem llAll : ∀ fuel, LLAll fuel
  | 0 => llAll_zero
  | fuel + 1 => llAll_succ (llAll fuel)

end Morfuse.Sched
