import MorfuseModel.Sched.MachineLifeTrace
import MorfuseModel.Sched.MachineHost
/-!
# The creation / destruction ledgers of a reachable state

`reachable_life_history`: for every reachable state (no fuel condition) there are two histories of `new` / `del`
operations — the ghost ledgers — whose replay from the empty pools (`nextTid = 100`, `nextInst = 1`) gives the ids of
the machine's thread records and of its listed script instances.
-/
namespace Morfuse.Sched
open State

theorem killStep_ll (s : State) (t : Nat) : LL s (killStep s t) :=
  (LL.setTh s t _).trans ((llAll defaultFuel).dt _ _)

/-- `~ScriptClass` unlinks a listed instance -/
theorem unlink_ll (s : State) (i : Nat) (e : Nat × List Nat) (hfd : s.insts.find? (·.1 == i) = some e) :
    LL s { s with insts := s.insts.filter (fun e => !(e.1 == i)) } := by
  refine ⟨⟨[], rfl⟩, ⟨[.del i], ?_⟩⟩
  have he : e ∈ s.insts := List.mem_of_find?_eq_some hfd
  have hk : e.1 = i := by simpa using List.find?_some hfd
  have hm : i ∈ (absI s).ids := by
    unfold absI; simp only [List.mem_reverse, List.mem_map]; exact ⟨e, he, hk⟩
  simp only [pRun, pStep, hm, if_true, Option.bind_some]
  congr 1
  unfold absI
  simp only [Pool.mk.injEq, and_true]
  rw [← List.map_reverse, ← List.map_reverse, ← List.filter_reverse]
  induction s.insts.reverse with
  | nil => rfl
  | cons x l ih =>
    by_cases hx : x.1 = i
    · simp [List.filter_cons, hx, ih]
    · have hb : (x.1 == i) = false := by simpa using hx
      simp [List.filter_cons, hb, ih]

theorem killInst_ll (s : State) (i : Nat) : LL s (killInst s i) := by
  unfold killInst
  cases hfd : s.insts.find? (·.1 == i) with
  | none => exact LL.refl s
  | some e =>
    simp only
    exact (unlink_ll s i e hfd).trans (LL.foldl killStep killStep_ll e.2 _)

theorem killAllInsts_ll (s : State) : LL s (killAllInsts s) := by
  unfold killAllInsts
  exact LL.foldl _ killInst_ll _ _

theorem deliver_ll (s : State) (t : Nat) : LL s (deliver s t) := by
  unfold deliver
  split
  · exact (llAll defaultFuel).cwa _ _
  · exact LL.refl s

theorem processEvents_ll : ∀ (fuel : Nat) (s : State), LL s (processEvents fuel s)
  | 0, s => LL.fuel s
  | fuel + 1, s => by
    rw [processEvents_succ]
    split
    · exact LL.refl s
    · split
      · exact LL.refl s
      · rename_i t due rest _ _
        exact ((LL.of_eq (s := s) (s' := { s with events := rest }) rfl rfl rfl).trans (deliver_ll _ _)).trans
          (processEvents_ll fuel _)

theorem hostCall_ll (s : State) (label : Nat) (args : List V) : LL s (hostCall s label args).1 := by
  rw [hostCall_eq]
  split
  · exact LL.refl s
  · refine ((LL.spawnFresh s (callSetup s label args) _ rfl rfl rfl rfl).trans ((llAll defaultFuel).sei _ s.nextTid)).trans ?_
    unfold callFinish
    split
    · exact LL.of_eq rfl rfl rfl
    · exact LL.refl _

theorem hostExecute_ll (s : State) : LL s (hostExecute s) := by
  rw [hostExecute_eq]
  exact ((LL.of_eq (s := s) (s' := frameSetTime s) rfl rfl rfl).trans (processEvents_ll _ _)).trans
    ((llAll defaultFuel).er _)

theorem HostOp.apply_ll (s : State) (op : HostOp) (hne : op ≠ .reset) : LL s (op.apply s) := by
  cases op with
  | reset => exact absurd rfl hne
  | script p ps =>
    show LL s (hostScript s p ps)
    unfold hostScript
    split
    · exact LL.of_eq rfl rfl rfl
    · exact (killAllInsts_ll s).trans (LL.of_eq rfl rfl rfl)
  | call l args => exact hostCall_ll s l args
  | callv l =>
    show LL s (hostCallV s l)
    unfold hostCallV
    exact (hostCall_ll s l []).trans (LL.keys (by simp [List.map_map, Function.comp]) rfl rfl rfl)
  | advance k => exact LL.of_eq rfl rfl rfl
  | resetDirector => exact (killAllInsts_ll s).trans (LL.of_eq rfl rfl rfl)
  | execute => exact hostExecute_ll s
  | step k => exact (LL.of_eq (s := s) (s' := { s with clock := s.clock + k }) rfl rfl rfl).trans (hostExecute_ll _)
  | takeOut => exact LL.of_eq rfl rfl rfl

/-- the empty pools of a new context -/
def pool0T : Pool := ⟨[], 100⟩
def pool0I : Pool := ⟨[], 1⟩

theorem pool0T_good : PGood pool0T := ⟨List.nodup_nil, fun _ h => by cases h⟩
theorem pool0I_good : PGood pool0I := ⟨List.nodup_nil, fun _ h => by cases h⟩

/-- **the ghost ledgers of thread and instance creations / destructions exist** -/
theorem reachable_life_history {s : State} (h : Reachable s) :
    (∃ ops, pRun pool0T ops = some (absT s)) ∧ (∃ ops, pRun pool0I ops = some (absI s)) := by
  induction h with
  | init => exact ⟨⟨[], rfl⟩, ⟨[], rfl⟩⟩
  | @step s0 op _ _ ih =>
    by_cases hr : op = .reset
    · subst hr; exact ⟨⟨[], rfl⟩, ⟨[], rfl⟩⟩
    · obtain ⟨⟨o1, r1⟩, ⟨o2, r2⟩⟩ := ih
      have hl := HostOp.apply_ll s0 op hr
      obtain ⟨p1, q1⟩ := hl.th
      obtain ⟨p2, q2⟩ := hl.inst
      exact ⟨⟨o1 ++ p1, pRun_append _ _ _ _ _ r1 q1⟩, ⟨o2 ++ p2, pRun_append _ _ _ _ _ r2 q2⟩⟩

end Morfuse.Sched
