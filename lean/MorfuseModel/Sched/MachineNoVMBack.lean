import MorfuseModel.Sched.MachineInvPres
import MorfuseModel.Sched.MachineEq
/-!
# A thread never gets its VM back

`HV s s'`: `nextTid` does not decrease, and a record that has its VM afterwards either had it before or is a new
thread (`id ≥` the old `nextTid`).  So "no record, or no VM" (`NoVM`-style facts about an existing id) survives every
function of the machine, nested executions included.  Unconditional, skeleton of `presAll`.
-/
namespace Morfuse.Sched
open State

structure HV (s s' : State) : Prop where
  nt : s.nextTid ≤ s'.nextTid
  hv : ∀ u th', thFind s'.threads u = some th' → th'.hasVM = true →
    (∃ th, thFind s.threads u = some th ∧ th.hasVM = true) ∨ s.nextTid ≤ u

theorem HV.refl (s : State) : HV s s := ⟨Nat.le_refl _, fun u th' h hv => Or.inl ⟨th', h, hv⟩⟩

theorem HV.trans {a b c : State} (h1 : HV a b) (h2 : HV b c) : HV a c := by
  refine ⟨Nat.le_trans h1.nt h2.nt, fun u th' h hv => ?_⟩
  rcases h2.hv u th' h hv with ⟨thb, hb, hvb⟩ | hge
  · exact h1.hv u thb hb hvb
  · exact Or.inr (Nat.le_trans h1.nt hge)

theorem HV.of_eq {s s' : State} (h1 : s'.threads = s.threads) (h2 : s'.nextTid = s.nextTid)
    (_h3 : s'.prog = s.prog) : HV s s' :=
  ⟨by rw [h2]; exact Nat.le_refl _, fun u th' h hv => Or.inl ⟨th', by rw [← h1]; exact h, hv⟩⟩

theorem HV.fuel (s : State) : HV s { s with outOfFuel := true } := HV.of_eq rfl rfl rfl

theorem HV.setTh (s : State) (t : Nat) (f : Th → Th)
    (hf : ∀ x, (f x).hasVM = true → x.hasVM = true := by intro x h; exact h) : HV s (s.setTh t f) := by
  refine ⟨Nat.le_refl _, fun u th' h hv => Or.inl ?_⟩
  rw [State.setTh_threads, thFind_map_upd] at h
  split at h
  · rename_i hut; subst hut
    cases hfd : thFind s.threads u with
    | none => rw [hfd] at h; simp at h
    | some th => rw [hfd] at h; simp at h; subst h; exact ⟨th, rfl, hf th hv⟩
  · exact ⟨th', h, hv⟩

theorem HV.filter (s : State) (t : Nat) : HV s { s with threads := s.threads.filter (fun e => !(e.1 == t)) } := by
  refine ⟨Nat.le_refl _, fun u th' h hv => Or.inl ?_⟩
  simp only at h
  rw [thFind_filter_ne] at h
  split at h
  · cases h
  · exact ⟨th', h, hv⟩

theorem HV.append (s s' : State) (r : Th) (h1 : s'.threads = s.threads ++ [(s.nextTid, r)])
    (h2 : s'.nextTid = s.nextTid + 1) : HV s s' := by
  refine ⟨by rw [h2]; exact Nat.le_succ _, fun u th' h hv => ?_⟩
  rw [h1, thFind_append] at h
  cases hfd : thFind s.threads u with
  | some x => rw [hfd] at h; simp at h; subst h; exact Or.inl ⟨x, rfl, hv⟩
  | none =>
    rw [hfd] at h
    simp only at h
    split at h
    · rename_i hut; right; rw [hut]; exact Nat.le_refl _
    · cases h

theorem HV.removeFromInst (s : State) (t i : Nat) : HV s (removeFromInst s t i) := by
  rw [removeFromInst_frame]; exact HV.of_eq rfl rfl rfl

/-- functions of one / two / three extra arguments that satisfy `Pres` -/
def HV1 (f : State → Nat → State) : Prop := ∀ s a, HV s (f s a)
def HV0 (f : State → State) : Prop := ∀ s, HV s (f s)
def HV2 (f : State → Nat → Nat → State) : Prop := ∀ s a b, HV s (f s a b)
def HV3 (f : State → Nat → Nat → Bool → State) : Prop := ∀ s a b c, HV s (f s a b c)

theorem HV.foldl {α : Type} (f : State → α → State) (hf : ∀ s a, HV s (f s a)) :
    ∀ (l : List α) (s : State), HV s (l.foldl f s)
  | [], s => HV.refl s
  | a :: l, s => (hf s a).trans (HV.foldl f hf l (f s a))

theorem stopStep_hv {cw : State → Nat → State} (hcw : HV1 cw) (s : State) (t : Nat) (th : Th) :
    HV s (stopStep cw s t th) := by
  unfold stopStep
  split
  · exact (HV.setTh s t (fun th => { th with ts := .running })).trans (HV.of_eq rfl rfl rfl)
  · split
    · exact (HV.setTh s t _).trans (hcw _ _)
    · exact HV.refl s

theorem notifyDelete_hv (s : State) (t : Nat) : HV s (notifyDelete s t) := by
  unfold notifyDelete
  split
  · exact HV.refl s
  · rename_i th _
    have h1 : HV s (if th.attached = true then removeFromInst (s.setTh t fun th => { th with vm := .destroyed }) t th.inst
        else s.setTh t fun th => { th with vm := .destroyed }) := by
      split
      · exact (HV.setTh s t _).trans (HV.removeFromInst _ _ _)
      · exact HV.setTh s t _
    simp only
    split
    · exact h1.trans (HV.setTh _ _ _)
    · exact h1

theorem finishDelete_hv (s : State) (t : Nat) : HV s (finishDelete s t) := by
  unfold finishDelete
  split
  · exact HV.refl s
  · split
    · exact HV.setTh s t _
    · exact HV.filter s t

theorem cancelEvents_hv (s : State) (t : Nat) : HV s (cancelEvents s t) := HV.of_eq rfl rfl rfl
theorem postEvent_hv (s : State) (t d : Nat) : HV s (postEvent s t d) := HV.of_eq rfl rfl rfl
theorem addTiming_hv (s : State) (t d : Nat) : HV s (addTiming s t d) := HV.of_eq rfl rfl rfl
theorem vmSuspend_hv (s : State) (t : Nat) : HV s (vmSuspend s t) := by
  unfold vmSuspend; exact HV.setTh s t _ (fun x h => by split at h <;> exact h)
theorem vmResume_hv (s : State) (t : Nat) : HV s (vmResume s t) := by
  unfold vmResume; exact HV.setTh s t _ (fun x h => by split at h <;> exact h)

theorem notifyLoop_hv {sn : State → Nat → State} (hsn : HV1 sn) (s : State) (stopped : List Nat) :
    HV s (notifyLoop sn s stopped) := by
  unfold notifyLoop
  apply HV.foldl
  intro s a
  split
  · exact hsn s a
  · exact HV.refl s

theorem cwaZero_hv {swf : State → Nat → Nat → Bool → State} {sn : State → Nat → State}
    (hswf : HV3 swf) (hsn : HV1 sn) (s : State) (w : Nat) : HV s (cwaZero swf sn s w) := by
  unfold cwaZero
  split
  · exact HV.refl s
  · rename_i list _
    simp only [cancelWaitingSources_eq_purge]
    refine HV.trans ?_ (notifyLoop_hv hsn _ _)
    split
    · refine HV.trans ?_ (hswf _ _ _ _)
      exact HV.of_eq rfl rfl rfl
    · exact HV.of_eq rfl rfl rfl

theorem cwaRest_hv {swf : State → Nat → Nat → Bool → State} {sn : State → Nat → State}
    (hswf : HV3 swf) (hsn : HV1 sn) (s : State) (w : Nat) : HV s (cwaRest swf sn s w) := by
  unfold cwaRest
  split
  · exact HV.refl s
  · simp only [cwaSources_frame]
    refine HV.trans ?_ (notifyLoop_hv hsn _ _)
    refine HV.trans ?_ (hswf _ _ _ _)
    exact HV.of_eq rfl rfl rfl

theorem startTiming_hv {stp : State → Nat → State} (h : HV1 stp) (s : State) (t : Nat) :
    HV s (startTiming stp s t) := by
  unfold startTiming
  split
  · exact h s t
  · exact ((h s t).trans (HV.setTh _ _ _)).trans (addTiming_hv _ _ _)

theorem endOnLoop_hv {dt : State → Nat → State} (h : HV1 dt) (s : State) (src name : Nat)
    (listeners : List Nat) : HV s (endOnLoop dt s src name listeners).1 := by
  unfold endOnLoop
  generalize listeners.reverse = L
  suffices hs : ∀ (L : List Nat) (acc : State × Bool), HV s acc.1 →
      HV s (L.foldl (fun (acc : State × Bool) l =>
        if acc.1.alive l then
          if l == src && (name == nameRemove || name == nameDelete || acc.2) then acc
          else (dt acc.1 l, acc.2 || (l == src))
        else acc) acc).1 from hs L (s, false) (HV.refl s)
  intro L
  induction L with
  | nil => intro acc h; exact h
  | cons l L ih =>
    intro acc hacc
    simp only [List.foldl_cons]
    apply ih
    split
    · split
      · exact hacc
      · exact hacc.trans (h _ _)
    · exact hacc

theorem unregEndOn_hv {dt : State → Nat → State} (h : HV1 dt) (s : State) (src name : Nat) :
    HV s (unregEndOn dt s src name).1 := by
  unfold unregEndOn
  split
  · exact HV.refl s
  · split
    · exact HV.refl s
    · refine HV.trans ?_ (endOnLoop_hv h _ _ _ _)
      exact HV.of_eq rfl rfl rfl

theorem wakeLoop_hv {swf : State → Nat → Nat → Bool → State} (h : HV3 swf) (s : State) (name : Nat)
    (stopped : List Nat) : HV s (wakeLoop swf s name stopped) := by
  unfold wakeLoop
  apply HV.foldl
  intro s a
  split
  · exact h _ _ _ _
  · exact HV.refl s

theorem unregNotify_hv {swf : State → Nat → Nat → Bool → State} {sn : State → Nat → State}
    (hswf : HV3 swf) (hsn : HV1 sn) (s : State) (src name : Nat) :
    HV s (unregNotify swf sn s src name) := by
  unfold unregNotify
  split
  · exact HV.refl s
  · split
    · exact HV.refl s
    · simp only [unregisterTargets_eq_purge]
      refine HV.trans ?_ (wakeLoop_hv hswf _ _ _)
      split
      · refine HV.trans ?_ (hsn _ _)
        exact HV.of_eq rfl rfl rfl
      · exact HV.of_eq rfl rfl rfl

theorem killLoop_hv {swf : State → Nat → Nat → Bool → State} (h : HV3 swf) (s : State)
    (stopped : List (Nat × Nat)) : HV s (killLoop swf s stopped) := by
  unfold killLoop
  apply HV.foldl
  intro s a
  split
  · exact h _ _ _ _
  · exact HV.refl s

theorem uaRest_hv {swf : State → Nat → Nat → Bool → State} {sn : State → Nat → State}
    (hswf : HV3 swf) (hsn : HV1 sn) (s : State) (src : Nat) : HV s (uaRest swf sn s src) := by
  unfold uaRest
  split
  · exact HV.refl s
  · simp only
    refine HV.trans ?_ (killLoop_hv hswf _ _)
    refine HV.trans ?_ (hsn _ _)
    rw [uaTargets_frame]
    exact HV.of_eq rfl rfl rfl

theorem regWait_hv {stp : State → Nat → State} (h : HV1 stp) (s : State) (o n c : Nat) :
    HV s (regWait stp s o n c) := by
  unfold regWait
  simp only
  split
  · refine HV.trans (b := stp { s with notify := Tbl.push s.notify (o, n) c } c) ?_ ?_
    · refine HV.trans ?_ (h _ _)
      exact HV.of_eq rfl rfl rfl
    · exact ((HV.setTh _ c (fun th => { th with ts := .waiting })).trans (vmSuspend_hv _ c)).trans (HV.of_eq rfl rfl rfl)
  · exact HV.of_eq rfl rfl rfl

theorem waitOn_hv {stp : State → Nat → State} (h : HV1 stp) (s : State) (p ms : Nat) :
    HV s (waitOn stp s p ms) := by
  unfold waitOn
  have a1 := h s p
  have a2 := HV.setTh (stp s p) p (fun th => { th with ts := .timing })
  have a3 : HV ((stp s p).setTh p fun th => { th with ts := .timing })
      (addTiming ((stp s p).setTh p fun th => { th with ts := .timing }) p ms) := HV.of_eq rfl rfl rfl
  exact ((a1.trans a2).trans a3).trans (vmSuspend_hv _ p)

theorem waitOnGuarded_hv {stp : State → Nat → State} (h : HV1 stp) (s : State) (p ms : Nat) :
    HV s (waitOnGuarded stp s p ms) := by
  unfold waitOnGuarded
  split
  · exact h s p
  · exact waitOn_hv h s p ms

theorem setRet_hv (s : State) (c : Nat) (r : Ret) : HV s (s.setRet c r) := HV.of_eq rfl rfl rfl

theorem endResult_hv (s : State) (th : Th) (ev : EndV) : HV s (endResult s th ev) := by
  unfold endResult
  simp only
  split
  · exact HV.refl s
  · split <;> first | exact setRet_hv _ _ _ | exact HV.refl s

theorem restoreCur_hv (s : State) (c : Option Nat) : HV s (restoreCur s c) := HV.of_eq rfl rfl rfl

theorem execIfAlive_hv {ev : State → Nat → State} (h : HV1 ev) (s : State) (t : Nat) :
    HV s (execIfAlive ev s t) := by
  unfold execIfAlive
  split
  · exact h s t
  · exact HV.refl s

theorem vmEpilogue_hv (s : State) (t : Nat) : HV s (vmEpilogue s t) := by
  unfold vmEpilogue
  split
  · exact HV.refl s
  · split
    · exact HV.setTh _ _ _
    · exact HV.filter s t
    · exact HV.refl s

theorem vmPrologue_hv (s : State) (t : Nat) : HV s (vmPrologue s t) :=
  (HV.setTh s t (fun th => { th with vm := .running })).trans (HV.of_eq rfl rfl rfl)

/-- the statement for one fuel level -/
structure HVAll (fuel : Nat) : Prop where
  dt : HV1 (deleteThread fuel)
  sn : HV1 (stoppedNotify fuel)
  stp : HV1 (stop fuel)
  cwa : HV1 (cancelWaitingAll fuel)
  swf : HV3 (stoppedWaitFor fuel)
  ur : HV2 (unregister fuel)
  ua : HV1 (unregisterAll fuel)
  sei : HV1 (scriptExecuteInternal fuel)
  er : HV0 (executeRunning fuel)
  dr : HV0 (drain fuel)
  ev : HV1 (execVM fuel)
  pr : HV1 (process fuel)
  ex : ∀ s t th ins, HV s (exec fuel s t th ins)

theorem hvAll_zero : HVAll 0 where
  dt := fun s t => by rw [deleteThread_zero]; exact HV.fuel s
  sn := fun s t => by rw [stoppedNotify_zero]; exact HV.fuel s
  stp := fun s t => by rw [stop_zero]; exact HV.fuel s
  cwa := fun s t => by rw [cancelWaitingAll_zero]; exact HV.fuel s
  swf := fun s t n d => by rw [stoppedWaitFor_zero]; exact HV.fuel s
  ur := fun s t n => by rw [unregister_zero]; exact HV.fuel s
  ua := fun s t => by rw [unregisterAll_zero]; exact HV.fuel s
  sei := fun s t => by rw [scriptExecuteInternal_zero]; exact HV.fuel s
  er := fun s => by rw [executeRunning_zero]; exact HV.fuel s
  dr := fun s => by rw [drain_zero]; exact HV.fuel s
  ev := fun s t => by rw [execVM_zero]; exact HV.fuel s
  pr := fun s t => by rw [process_zero]; exact HV.fuel s
  ex := fun s t th ins => by rw [exec_zero]; exact HV.fuel s

theorem exec_hv_succ {fuel : Nat} (ih : HVAll fuel) (s : State) (t : Nat) (th : Th) (ins : Instr) :
    HV s (exec (fuel + 1) s t th ins) := by
  cases ins with
  | mark k => rw [exec_mark]; exact HV.of_eq rfl rfl rfl
  | pparam i => rw [exec_pparam]; exact HV.of_eq rfl rfl rfl
  | wait ms => rw [exec_wait]; exact waitOn_hv ih.stp _ _ _
  | waittill o names =>
    rw [exec_waittill]
    split
    · exact HV.refl s
    · split
      · exact HV.refl s
      · exact HV.foldl _ (fun s n => regWait_hv ih.stp _ _ _ _) _ _
  | waittillTimeout o n ms =>
    rw [exec_waittillTimeout]
    split
    · exact HV.refl s
    · split
      · exact HV.refl s
      · exact (regWait_hv ih.stp _ _ _ _).trans (postEvent_hv _ _ _)
  | notify o n =>
    rw [exec_notify]
    split
    · exact HV.refl s
    · exact ih.ur _ _ _
  | endon o n =>
    rw [exec_endon]
    split
    · exact HV.refl s
    · split
      · exact HV.refl s
      · exact HV.of_eq rfl rfl rfl
  | delete o =>
    rw [exec_delete]
    split
    · exact HV.refl s
    · refine HV.trans (b := cancelWaitingAll fuel (unregisterAll fuel (unregister fuel (unregister fuel s o nameDelete) o nameRemove) o) o) ?_ ?_
      · exact (((ih.ur _ _ _).trans (ih.ur _ _ _)).trans (ih.ua _ _)).trans (ih.cwa _ _)
      · exact HV.of_eq rfl rfl rfl
  | thread l =>
    rw [exec_thread]
    split
    · exact HV.refl s
    · refine HV.trans ?_ (ih.sei _ _)
      exact HV.append s (spawnSame s t th l) _ rfl rfl
  | waitthread l =>
    rw [exec_waitthread]
    split
    · exact HV.refl s
    · split
      · refine HV.trans ?_ (ih.sei _ _)
        exact HV.append s (spawnNew s t l) _ rfl rfl
      · refine HV.trans ?_ (ih.sei _ _)
        refine HV.trans ?_ (regWait_hv ih.stp _ _ _ _)
        exact HV.append s (spawnNew s t l) _ rfl rfl
  | pause => rw [exec_pause]; exact (ih.stp _ _).trans (vmSuspend_hv _ _)
  | waitParent ms =>
    rw [exec_waitParent]
    split
    · exact HV.refl s
    · exact waitOnGuarded_hv ih.stp _ _ _
  | waittillParent names =>
    rw [exec_waittillParent]
    split
    · exact HV.refl s
    · split
      · exact HV.refl s
      · exact HV.foldl _ (fun s n => regWait_hv ih.stp _ _ _ _) _ _
  | notifyParent n =>
    rw [exec_notifyParent]
    split
    · exact HV.refl s
    · exact ih.ur _ _ _
  | end_ ev =>
    rw [exec_end]
    exact ((endResult_hv _ _ _).trans (HV.setTh _ _ _)).trans (ih.dt _ _)
  | spawn o =>
    rw [exec_spawn]
    split
    · exact HV.refl s
    · exact HV.of_eq rfl rfl rfl

theorem hvAll_succ {fuel : Nat} (ih : HVAll fuel) : HVAll (fuel + 1) where
  dt := fun s t => by
    rw [deleteThread_succ]
    split
    · exact HV.refl s
    · split
      · exact HV.refl s
      · exact ((((((((HV.setTh s t (fun th => { th with hasVM := false }) (fun _ h => by cases h)).trans (stopStep_hv ih.cwa _ _ _)).trans (notifyDelete_hv _ _)).trans
          (cancelEvents_hv _ _)).trans (ih.ur _ _ _)).trans (ih.ur _ _ _)).trans (ih.ua _ _)).trans
          (ih.cwa _ _)).trans (finishDelete_hv _ _)
  sn := fun s l => by
    rw [stoppedNotify_succ]
    split
    · split
      · exact ih.dt _ _
      · exact HV.refl s
    · exact HV.refl s
  stp := fun s t => by
    rw [stop_succ]
    split
    · exact HV.refl s
    · exact stopStep_hv ih.cwa _ _ _
  cwa := fun s w => by
    rw [cancelWaitingAll_succ]
    exact (cwaZero_hv ih.swf ih.sn _ _).trans (cwaRest_hv ih.swf ih.sn _ _)
  swf := fun s t name d => by
    rw [stoppedWaitFor_succ]
    split
    · exact HV.refl s
    · split
      · exact HV.refl s
      · split
        · exact HV.refl s
        · split
          · exact ih.dt _ _
          · split
            · split
              · split
                · exact (cancelEvents_hv _ _).trans (ih.sei _ _)
                · exact (cancelEvents_hv _ _).trans (vmResume_hv _ _)
              · exact (cancelEvents_hv _ _).trans (startTiming_hv ih.stp _ _)
            · exact cancelEvents_hv _ _
  ur := fun s src name => by
    rw [unregister_succ]
    split
    · exact unregEndOn_hv ih.dt _ _ _
    · exact (unregEndOn_hv ih.dt _ _ _).trans (unregNotify_hv ih.swf ih.sn _ _ _)
  ua := fun s src => by
    rw [unregisterAll_succ]
    refine HV.trans ?_ (uaRest_hv ih.swf ih.sn _ _)
    refine HV.trans (ih.ur s src 0) ?_
    exact HV.of_eq rfl rfl rfl
  sei := fun s t => by
    rw [scriptExecuteInternal_succ]
    refine HV.trans ?_ (ih.er _)
    refine HV.trans ?_ (restoreCur_hv _ _)
    refine HV.trans ?_ (execIfAlive_hv ih.ev _ _)
    refine HV.trans ?_ (ih.stp _ _)
    exact HV.of_eq rfl rfl rfl
  er := fun s => by
    rw [executeRunning_succ]
    split
    · exact HV.refl s
    · split
      · exact HV.refl s
      · exact ih.dr _
  dr := fun s => by
    rw [drain_succ]
    split
    · exact HV.of_eq rfl rfl rfl
    · refine HV.trans ?_ (ih.dr _)
      refine HV.trans ?_ (ih.ev _ _)
      exact (HV.of_eq (s := s) (s' := { s with timer := _, cur := some _ }) rfl rfl rfl).trans (HV.setTh _ _ (fun th => { th with ts := .running }))
  ev := fun s t => by
    rw [execVM_succ]
    refine HV.trans ?_ (vmEpilogue_hv _ _)
    refine HV.trans (b := process fuel (vmPrologue s t) t) ?_ (HV.of_eq rfl rfl rfl)
    exact (vmPrologue_hv s t).trans (ih.pr _ _)
  pr := fun s t => by
    rw [process_succ]
    split
    · exact HV.refl s
    · split
      · exact HV.refl s
      · exact ((HV.setTh s t _).trans (ih.ex _ _ _ _)).trans (ih.pr _ _)
  ex := exec_hv_succ ih

theorem hvAll : ∀ fuel, HVAll fuel
  | 0 => hvAll_zero
  | fuel + 1 => hvAll_succ (hvAll fuel)

end Morfuse.Sched
