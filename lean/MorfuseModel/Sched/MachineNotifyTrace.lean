import MorfuseModel.Sched.MachineInvStruct
/-!
# The machine's notify table is the result of a history of table operations

`NOp` = the five ways the machine changes the notify table (`m_NotifyList` of all listeners): a registration
(`Register`), a notify (`Unregister(name)`: the entry is removed), a waiter cancelling channel 0 / all its
registrations (`CancelWaiting`), a source being removed (`UnregisterAll`).  `NN s s'`: there is a list of such
operations — the ghost ledger of the call — leading from the notify table of `s` to that of `s'`.  Proved for every
function of the machine, unconditionally (skeleton of `presAll`).
-/
namespace Morfuse.Sched
open State

inductive NOp
  | reg (o n c : Nat)                                             -- `o.Register(n, c)`: `c` waits on `(o, n)`
  | notify (src name : Nat)                                       -- `src.Unregister(name)`
  | purge (al : Nat → Bool) (w name : Nat) (list : List Nat)      -- `w.CancelWaiting(name)`
  | multiPurge (al : Nat → Bool) (w : Nat) (keys : List (Nat × List Nat))   -- `w.CancelWaitingAll()`
  | removeOwner (src : Nat)                                       -- `src.UnregisterAll()`

def NOp.apply (T : Tbl) : NOp → Tbl
  | .reg o n c => Tbl.push T (o, n) c
  | .notify src name => Tbl.removeKey T (src, name)
  | .purge al w name list => (Tbl.purge al T w name list []).1
  | .multiPurge al w keys => (Tbl.multiPurge al T w keys []).1
  | .removeOwner src => Tbl.removeOwner T src

def nRun (T : Tbl) (ops : List NOp) : Tbl := ops.foldl NOp.apply T

theorem nRun_append (T : Tbl) (a b : List NOp) : nRun T (a ++ b) = nRun (nRun T a) b := by
  unfold nRun; rw [List.foldl_append]

def NN (s s' : State) : Prop := ∃ ops : List NOp, nRun s.notify ops = s'.notify

theorem NN.refl (s : State) : NN s s := ⟨[], rfl⟩
theorem NN.trans {a b c : State} (h1 : NN a b) (h2 : NN b c) : NN a c := by
  obtain ⟨o1, r1⟩ := h1
  obtain ⟨o2, r2⟩ := h2
  exact ⟨o1 ++ o2, by rw [nRun_append, r1, r2]⟩
theorem NN.of_eq {s s' : State} (h1 : s'.notify = s.notify) (_h2 : s'.prog = s.prog)
    (_h3 : s'.progParams = s.progParams) : NN s s' := ⟨[], h1.symm⟩
theorem NN.of_op {s s' : State} (op : NOp) (h : s'.notify = NOp.apply s.notify op) : NN s s' := ⟨[op], h.symm⟩
theorem NN.fuel (s : State) : NN s { s with outOfFuel := true } := NN.of_eq rfl rfl rfl
theorem NN.setTh (s : State) (t : Nat) (f : Th → Th) : NN s (s.setTh t f) := NN.of_eq rfl rfl rfl
theorem NN.removeFromInst (s : State) (t i : Nat) : NN s (removeFromInst s t i) := by
  rw [removeFromInst_frame]; exact NN.of_eq rfl rfl rfl

/-- functions of one / two / three extra arguments that satisfy `Pres` -/
def NN1 (f : State → Nat → State) : Prop := ∀ s a, NN s (f s a)
def NN0 (f : State → State) : Prop := ∀ s, NN s (f s)
def NN2 (f : State → Nat → Nat → State) : Prop := ∀ s a b, NN s (f s a b)
def NN3 (f : State → Nat → Nat → Bool → State) : Prop := ∀ s a b c, NN s (f s a b c)

theorem NN.foldl {α : Type} (f : State → α → State) (hf : ∀ s a, NN s (f s a)) :
    ∀ (l : List α) (s : State), NN s (l.foldl f s)
  | [], s => NN.refl s
  | a :: l, s => (hf s a).trans (NN.foldl f hf l (f s a))

theorem stopStep_nn {cw : State → Nat → State} (hcw : NN1 cw) (s : State) (t : Nat) (th : Th) :
    NN s (stopStep cw s t th) := by
  unfold stopStep
  split
  · exact NN.of_eq rfl rfl rfl
  · split
    · exact (NN.setTh s t _).trans (hcw _ _)
    · exact NN.refl s

theorem notifyDelete_nn (s : State) (t : Nat) : NN s (notifyDelete s t) := by
  unfold notifyDelete
  split
  · exact NN.refl s
  · rename_i th _
    have h1 : NN s (if th.attached = true then removeFromInst (s.setTh t fun th => { th with vm := .destroyed }) t th.inst
        else s.setTh t fun th => { th with vm := .destroyed }) := by
      split
      · exact (NN.setTh s t _).trans (NN.removeFromInst _ _ _)
      · exact NN.setTh s t _
    simp only
    split
    · exact h1.trans (NN.setTh _ _ _)
    · exact h1

theorem finishDelete_nn (s : State) (t : Nat) : NN s (finishDelete s t) := by
  unfold finishDelete
  split
  · exact NN.refl s
  · split
    · exact NN.setTh s t _
    · exact NN.of_eq rfl rfl rfl

theorem cancelEvents_nn (s : State) (t : Nat) : NN s (cancelEvents s t) := NN.of_eq rfl rfl rfl
theorem postEvent_nn (s : State) (t d : Nat) : NN s (postEvent s t d) := NN.of_eq rfl rfl rfl
theorem addTiming_nn (s : State) (t d : Nat) : NN s (addTiming s t d) := NN.of_eq rfl rfl rfl
theorem vmSuspend_nn (s : State) (t : Nat) : NN s (vmSuspend s t) := NN.setTh s t _
theorem vmResume_nn (s : State) (t : Nat) : NN s (vmResume s t) := NN.setTh s t _

theorem notifyLoop_nn {sn : State → Nat → State} (hsn : NN1 sn) (s : State) (stopped : List Nat) :
    NN s (notifyLoop sn s stopped) := by
  unfold notifyLoop
  apply NN.foldl
  intro s a
  split
  · exact hsn s a
  · exact NN.refl s

theorem cwaZero_nn {swf : State → Nat → Nat → Bool → State} {sn : State → Nat → State}
    (hswf : NN3 swf) (hsn : NN1 sn) (s : State) (w : Nat) : NN s (cwaZero swf sn s w) := by
  unfold cwaZero
  split
  · exact NN.refl s
  · rename_i list _
    simp only [cancelWaitingSources_eq_purge]
    refine NN.trans ?_ (notifyLoop_nn hsn _ _)
    split
    · refine NN.trans ?_ (hswf _ _ _ _)
      exact NN.of_op (.purge s.alive w 0 list) rfl
    · exact NN.of_op (.purge s.alive w 0 list) rfl

theorem cwaRest_nn {swf : State → Nat → Nat → Bool → State} {sn : State → Nat → State}
    (hswf : NN3 swf) (hsn : NN1 sn) (s : State) (w : Nat) : NN s (cwaRest swf sn s w) := by
  unfold cwaRest
  split
  · exact NN.refl s
  · simp only [cwaSources_frame]
    refine NN.trans ?_ (notifyLoop_nn hsn _ _)
    refine NN.trans ?_ (hswf _ _ _ _)
    exact NN.of_op (.multiPurge s.alive w (Tbl.keysOf s.waitFor w)) rfl

theorem startTiming_nn {stp : State → Nat → State} (h : NN1 stp) (s : State) (t : Nat) :
    NN s (startTiming stp s t) := by
  unfold startTiming
  split
  · exact h s t
  · exact ((h s t).trans (NN.setTh _ _ _)).trans (addTiming_nn _ _ _)

theorem endOnLoop_nn {dt : State → Nat → State} (h : NN1 dt) (s : State) (src name : Nat)
    (listeners : List Nat) : NN s (endOnLoop dt s src name listeners).1 := by
  unfold endOnLoop
  generalize listeners.reverse = L
  suffices hs : ∀ (L : List Nat) (acc : State × Bool), NN s acc.1 →
      NN s (L.foldl (fun (acc : State × Bool) l =>
        if acc.1.alive l then
          if l == src && (name == nameRemove || name == nameDelete || acc.2) then acc
          else (dt acc.1 l, acc.2 || (l == src))
        else acc) acc).1 from hs L (s, false) (NN.refl s)
  intro L
  induction L with
  | nil => intro acc h; exact h
  | cons l L ih =>
    intro acc hacc
    simp only [List.foldl_cons]
    apply ih
    split
    · split
      · exact hacc
      · exact hacc.trans (h _ _)
    · exact hacc

theorem unregEndOn_nn {dt : State → Nat → State} (h : NN1 dt) (s : State) (src name : Nat) :
    NN s (unregEndOn dt s src name).1 := by
  unfold unregEndOn
  split
  · exact NN.refl s
  · split
    · exact NN.refl s
    · refine NN.trans ?_ (endOnLoop_nn h _ _ _ _)
      exact NN.of_eq rfl rfl rfl

theorem wakeLoop_nn {swf : State → Nat → Nat → Bool → State} (h : NN3 swf) (s : State) (name : Nat)
    (stopped : List Nat) : NN s (wakeLoop swf s name stopped) := by
  unfold wakeLoop
  apply NN.foldl
  intro s a
  split
  · exact h _ _ _ _
  · exact NN.refl s

theorem unregNotify_nn {swf : State → Nat → Nat → Bool → State} {sn : State → Nat → State}
    (hswf : NN3 swf) (hsn : NN1 sn) (s : State) (src name : Nat) :
    NN s (unregNotify swf sn s src name) := by
  unfold unregNotify
  split
  · exact NN.refl s
  · split
    · exact NN.refl s
    · simp only [unregisterTargets_eq_purge]
      refine NN.trans ?_ (wakeLoop_nn hswf _ _ _)
      split
      · refine NN.trans ?_ (hsn _ _)
        exact NN.of_op (.notify src name) rfl
      · exact NN.of_op (.notify src name) rfl

theorem killLoop_nn {swf : State → Nat → Nat → Bool → State} (h : NN3 swf) (s : State)
    (stopped : List (Nat × Nat)) : NN s (killLoop swf s stopped) := by
  unfold killLoop
  apply NN.foldl
  intro s a
  split
  · exact h _ _ _ _
  · exact NN.refl s

theorem uaRest_nn {swf : State → Nat → Nat → Bool → State} {sn : State → Nat → State}
    (hswf : NN3 swf) (hsn : NN1 sn) (s : State) (src : Nat) : NN s (uaRest swf sn s src) := by
  unfold uaRest
  split
  · exact NN.refl s
  · simp only
    refine NN.trans ?_ (killLoop_nn hswf _ _)
    refine NN.trans ?_ (hsn _ _)
    rw [uaTargets_frame]
    exact NN.of_op (.removeOwner src) rfl

theorem regWait_nn {stp : State → Nat → State} (h : NN1 stp) (s : State) (o n c : Nat) :
    NN s (regWait stp s o n c) := by
  unfold regWait
  simp only
  split
  · refine NN.trans (b := stp { s with notify := Tbl.push s.notify (o, n) c } c) ?_ ?_
    · refine NN.trans ?_ (h _ _)
      exact NN.of_op (.reg o n c) rfl
    · exact NN.of_eq rfl rfl rfl
  · exact NN.of_op (.reg o n c) rfl

theorem waitOn_nn {stp : State → Nat → State} (h : NN1 stp) (s : State) (p ms : Nat) :
    NN s (waitOn stp s p ms) := by
  unfold waitOn
  exact (h s p).trans (NN.of_eq rfl rfl rfl)

theorem waitOnGuarded_nn {stp : State → Nat → State} (h : NN1 stp) (s : State) (p ms : Nat) :
    NN s (waitOnGuarded stp s p ms) := by
  unfold waitOnGuarded
  split
  · exact h s p
  · exact waitOn_nn h s p ms

theorem setRet_nn (s : State) (c : Nat) (r : Ret) : NN s (s.setRet c r) := NN.of_eq rfl rfl rfl

theorem endResult_nn (s : State) (th : Th) (ev : EndV) : NN s (endResult s th ev) := by
  unfold endResult
  simp only
  split
  · exact NN.refl s
  · split <;> first | exact setRet_nn _ _ _ | exact NN.refl s

theorem restoreCur_nn (s : State) (c : Option Nat) : NN s (restoreCur s c) := NN.of_eq rfl rfl rfl

theorem execIfAlive_nn {ev : State → Nat → State} (h : NN1 ev) (s : State) (t : Nat) :
    NN s (execIfAlive ev s t) := by
  unfold execIfAlive
  split
  · exact h s t
  · exact NN.refl s

theorem vmEpilogue_nn (s : State) (t : Nat) : NN s (vmEpilogue s t) := by
  unfold vmEpilogue
  split
  · exact NN.refl s
  · split
    · exact NN.setTh _ _ _
    · exact NN.of_eq rfl rfl rfl
    · exact NN.refl s

theorem vmPrologue_nn (s : State) (t : Nat) : NN s (vmPrologue s t) := NN.of_eq rfl rfl rfl

/-- the statement for one fuel level -/
structure NNAll (fuel : Nat) : Prop where
  dt : NN1 (deleteThread fuel)
  sn : NN1 (stoppedNotify fuel)
  stp : NN1 (stop fuel)
  cwa : NN1 (cancelWaitingAll fuel)
  swf : NN3 (stoppedWaitFor fuel)
  ur : NN2 (unregister fuel)
  ua : NN1 (unregisterAll fuel)
  sei : NN1 (scriptExecuteInternal fuel)
  er : NN0 (executeRunning fuel)
  dr : NN0 (drain fuel)
  ev : NN1 (execVM fuel)
  pr : NN1 (process fuel)
  ex : ∀ s t th ins, NN s (exec fuel s t th ins)

theorem nnAll_zero : NNAll 0 where
  dt := fun s t => by rw [deleteThread_zero]; exact NN.fuel s
  sn := fun s t => by rw [stoppedNotify_zero]; exact NN.fuel s
  stp := fun s t => by rw [stop_zero]; exact NN.fuel s
  cwa := fun s t => by rw [cancelWaitingAll_zero]; exact NN.fuel s
  swf := fun s t n d => by rw [stoppedWaitFor_zero]; exact NN.fuel s
  ur := fun s t n => by rw [unregister_zero]; exact NN.fuel s
  ua := fun s t => by rw [unregisterAll_zero]; exact NN.fuel s
  sei := fun s t => by rw [scriptExecuteInternal_zero]; exact NN.fuel s
  er := fun s => by rw [executeRunning_zero]; exact NN.fuel s
  dr := fun s => by rw [drain_zero]; exact NN.fuel s
  ev := fun s t => by rw [execVM_zero]; exact NN.fuel s
  pr := fun s t => by rw [process_zero]; exact NN.fuel s
  ex := fun s t th ins => by rw [exec_zero]; exact NN.fuel s

theorem exec_nn_succ {fuel : Nat} (ih : NNAll fuel) (s : State) (t : Nat) (th : Th) (ins : Instr) :
    NN s (exec (fuel + 1) s t th ins) := by
  cases ins with
  | mark k => rw [exec_mark]; exact NN.of_eq rfl rfl rfl
  | pparam i => rw [exec_pparam]; exact NN.of_eq rfl rfl rfl
  | wait ms => rw [exec_wait]; exact waitOn_nn ih.stp _ _ _
  | waittill o names =>
    rw [exec_waittill]
    split
    · exact NN.refl s
    · split
      · exact NN.refl s
      · exact NN.foldl _ (fun s n => regWait_nn ih.stp _ _ _ _) _ _
  | waittillTimeout o n ms =>
    rw [exec_waittillTimeout]
    split
    · exact NN.refl s
    · split
      · exact NN.refl s
      · exact (regWait_nn ih.stp _ _ _ _).trans (postEvent_nn _ _ _)
  | notify o n =>
    rw [exec_notify]
    split
    · exact NN.refl s
    · exact ih.ur _ _ _
  | endon o n =>
    rw [exec_endon]
    split
    · exact NN.refl s
    · split
      · exact NN.refl s
      · exact NN.of_eq rfl rfl rfl
  | delete o =>
    rw [exec_delete]
    split
    · exact NN.refl s
    · refine NN.trans (b := cancelWaitingAll fuel (unregisterAll fuel (unregister fuel (unregister fuel s o nameDelete) o nameRemove) o) o) ?_ ?_
      · exact (((ih.ur _ _ _).trans (ih.ur _ _ _)).trans (ih.ua _ _)).trans (ih.cwa _ _)
      · exact NN.of_eq rfl rfl rfl
  | thread l =>
    rw [exec_thread]
    split
    · exact NN.refl s
    · refine NN.trans ?_ (ih.sei _ _)
      exact NN.of_eq rfl rfl rfl
  | waitthread l =>
    rw [exec_waitthread]
    split
    · exact NN.refl s
    · split
      · refine NN.trans ?_ (ih.sei _ _)
        exact NN.of_eq rfl rfl rfl
      · refine NN.trans ?_ (ih.sei _ _)
        refine NN.trans ?_ (regWait_nn ih.stp _ _ _ _)
        exact NN.of_eq rfl rfl rfl
  | pause => rw [exec_pause]; exact (ih.stp _ _).trans (vmSuspend_nn _ _)
  | waitParent ms =>
    rw [exec_waitParent]
    split
    · exact NN.refl s
    · exact waitOnGuarded_nn ih.stp _ _ _
  | waittillParent names =>
    rw [exec_waittillParent]
    split
    · exact NN.refl s
    · split
      · exact NN.refl s
      · exact NN.foldl _ (fun s n => regWait_nn ih.stp _ _ _ _) _ _
  | notifyParent n =>
    rw [exec_notifyParent]
    split
    · exact NN.refl s
    · exact ih.ur _ _ _
  | end_ ev =>
    rw [exec_end]
    exact ((endResult_nn _ _ _).trans (NN.setTh _ _ _)).trans (ih.dt _ _)
  | spawn o =>
    rw [exec_spawn]
    split
    · exact NN.refl s
    · exact NN.of_eq rfl rfl rfl

theorem nnAll_succ {fuel : Nat} (ih : NNAll fuel) : NNAll (fuel + 1) where
  dt := fun s t => by
    rw [deleteThread_succ]
    split
    · exact NN.refl s
    · split
      · exact NN.refl s
      · exact ((((((((NN.setTh s t _).trans (stopStep_nn ih.cwa _ _ _)).trans (notifyDelete_nn _ _)).trans
          (cancelEvents_nn _ _)).trans (ih.ur _ _ _)).trans (ih.ur _ _ _)).trans (ih.ua _ _)).trans
          (ih.cwa _ _)).trans (finishDelete_nn _ _)
  sn := fun s l => by
    rw [stoppedNotify_succ]
    split
    · split
      · exact ih.dt _ _
      · exact NN.refl s
    · exact NN.refl s
  stp := fun s t => by
    rw [stop_succ]
    split
    · exact NN.refl s
    · exact stopStep_nn ih.cwa _ _ _
  cwa := fun s w => by
    rw [cancelWaitingAll_succ]
    exact (cwaZero_nn ih.swf ih.sn _ _).trans (cwaRest_nn ih.swf ih.sn _ _)
  swf := fun s t name d => by
    rw [stoppedWaitFor_succ]
    split
    · exact NN.refl s
    · split
      · exact NN.refl s
      · split
        · exact NN.refl s
        · split
          · exact ih.dt _ _
          · split
            · split
              · split
                · exact (cancelEvents_nn _ _).trans (ih.sei _ _)
                · exact (cancelEvents_nn _ _).trans (vmResume_nn _ _)
              · exact (cancelEvents_nn _ _).trans (startTiming_nn ih.stp _ _)
            · exact cancelEvents_nn _ _
  ur := fun s src name => by
    rw [unregister_succ]
    split
    · exact unregEndOn_nn ih.dt _ _ _
    · exact (unregEndOn_nn ih.dt _ _ _).trans (unregNotify_nn ih.swf ih.sn _ _ _)
  ua := fun s src => by
    rw [unregisterAll_succ]
    refine NN.trans ?_ (uaRest_nn ih.swf ih.sn _ _)
    refine NN.trans (ih.ur s src 0) ?_
    exact NN.of_eq rfl rfl rfl
  sei := fun s t => by
    rw [scriptExecuteInternal_succ]
    refine NN.trans ?_ (ih.er _)
    refine NN.trans ?_ (restoreCur_nn _ _)
    refine NN.trans ?_ (execIfAlive_nn ih.ev _ _)
    refine NN.trans ?_ (ih.stp _ _)
    exact NN.of_eq rfl rfl rfl
  er := fun s => by
    rw [executeRunning_succ]
    split
    · exact NN.refl s
    · split
      · exact NN.refl s
      · exact ih.dr _
  dr := fun s => by
    rw [drain_succ]
    split
    · exact NN.of_eq rfl rfl rfl
    · refine NN.trans ?_ (ih.dr _)
      refine NN.trans ?_ (ih.ev _ _)
      exact NN.of_eq rfl rfl rfl
  ev := fun s t => by
    rw [execVM_succ]
    refine NN.trans ?_ (vmEpilogue_nn _ _)
    refine NN.trans (b := process fuel (vmPrologue s t) t) ?_ (NN.of_eq rfl rfl rfl)
    exact (vmPrologue_nn s t).trans (ih.pr _ _)
  pr := fun s t => by
    rw [process_succ]
    split
    · exact NN.refl s
    · split
      · exact NN.refl s
      · exact ((NN.setTh s t _).trans (ih.ex _ _ _ _)).trans (ih.pr _ _)
  ex := exec_nn_succ ih

theorem nnAll : ∀ fuel, NNAll fuel
  | 0 => nnAll_zero
  | fuel + 1 => nnAll_succ (nnAll fuel)

end Morfuse.Sched
