import MorfuseModel.Sched.MachineNotifyTrace
import MorfuseModel.Sched.MachineHost
/-!
# The registration / notify history of a reachable state, and what every such history satisfies

`reachable_notify_history`: for every reachable state (no fuel condition) there is a history of table
operations — the ghost ledger — whose replay from the empty table is the machine's notify table.
Ledger-level facts (about every history): a listener is in an entry only because of a registration in the
history (`nRun_mem`); after a notify the entry is empty.
-/
namespace Morfuse.Sched
open State

/-! ### every history -/

theorem NOp.apply_mem (T : Tbl) (op : NOp) (k : Key) (x : Nat) (h : x ∈ Tbl.getD (NOp.apply T op) k) :
    x ∈ Tbl.getD T k ∨ op = .reg k.1 k.2 x := by
  cases op with
  | reg o n c =>
    simp only [NOp.apply, Tbl.getD_push] at h
    split at h
    · rename_i hk
      have hk' : k = (o, n) := by simpa using hk
      subst hk'
      rcases List.mem_append.1 h with h | h
      · exact Or.inl h
      · right
        simp at h
        rw [h]
    · exact Or.inl h
  | notify src name => exact Or.inl (Tbl.Sub.removeKey T (src, name) k x h)
  | purge al w name list => exact Or.inl (Tbl.Sub.purge al T w name list [] k x h)
  | multiPurge al w keys => exact Or.inl (Tbl.Sub.multiPurge al T w keys [] k x h)
  | removeOwner src => exact Or.inl (Tbl.Sub.removeOwner T src k x h)

/-- **a listener is registered under `(o, n)` only because of a registration in the history** -/
theorem nRun_mem : ∀ (ops : List NOp) (T : Tbl) (k : Key) (x : Nat), x ∈ Tbl.getD (nRun T ops) k →
    x ∈ Tbl.getD T k ∨ NOp.reg k.1 k.2 x ∈ ops
  | [], _, _, _, h => Or.inl h
  | op :: ops, T, k, x, h => by
    have h' : x ∈ Tbl.getD (nRun (NOp.apply T op) ops) k := h
    rcases nRun_mem ops _ k x h' with h1 | h1
    · rcases NOp.apply_mem T op k x h1 with h2 | h2
      · exact Or.inl h2
      · right; rw [h2]; exact List.mem_cons_self
    · exact Or.inr (List.mem_cons_of_mem _ h1)

theorem nRun_notify_clears (T : Tbl) (src name : Nat) : Tbl.getD (nRun T [.notify src name]) (src, name) = [] := by
  show Tbl.getD (Tbl.removeKey T (src, name)) (src, name) = []
  rw [Tbl.getD_removeKey]; simp

theorem nRun_removeOwner_clears (T : Tbl) (src n : Nat) : Tbl.getD (nRun T [.removeOwner src]) (src, n) = [] := by
  show Tbl.getD (Tbl.removeOwner T src) (src, n) = []
  rw [Tbl.getD_removeOwner]; simp

/-! ### who can take a listener out of an entry -/

/-- the operations that can remove `c` from the entry `(t, n)` -/
def Releases (op : NOp) (c t n : Nat) : Prop :=
  op = .notify t n ∨ (∃ al list, op = .purge al c n list) ∨ (∃ al keys, op = .multiPurge al c keys) ∨
    op = .removeOwner t

theorem NOp.apply_keeps (T : Tbl) (op : NOp) (c t n : Nat) (h : c ∈ Tbl.getD T (t, n)) :
    c ∈ Tbl.getD (NOp.apply T op) (t, n) ∨ Releases op c t n := by
  cases op with
  | reg o m x =>
    left
    simp only [NOp.apply, Tbl.getD_push]
    split
    · rename_i hk
      have hk' : (t, n) = (o, m) := hk
      rw [← hk']
      exact List.mem_append_left _ h
    · exact h
  | notify src name =>
    simp only [NOp.apply, Tbl.getD_removeKey]
    split
    · rename_i hk
      right; left
      have : t = src ∧ n = name := by simpa using hk
      rw [this.1, this.2]
    · exact Or.inl h
  | purge al w name list =>
    simp only [NOp.apply, Tbl.purge_getD]
    split
    · rename_i hc
      by_cases hw : w = c
      · right; right; left
        subst hw
        have hn : n = name := hc.1
        exact ⟨al, list, by rw [hn]⟩
      · left
        exact List.mem_filter.2 ⟨h, by simpa using fun e => hw e.symm⟩
    · exact Or.inl h
  | multiPurge al w keys =>
    simp only [NOp.apply, Tbl.multiPurge_getD]
    split
    · by_cases hw : w = c
      · right; right; right; left
        subst hw
        exact ⟨al, keys, rfl⟩
      · left
        exact List.mem_filter.2 ⟨h, by simpa using fun e => hw e.symm⟩
    · exact Or.inl h
  | removeOwner src =>
    simp only [NOp.apply, Tbl.getD_removeOwner]
    split
    · rename_i hk
      right; right; right; right
      have : t = src := hk
      rw [this]
    · exact Or.inl h

/-- **a listener leaves an entry only through `Unregister(name)` on the source, the source's `UnregisterAll`, or its own
    `CancelWaiting`** — in every history -/
theorem nRun_keeps : ∀ (ops : List NOp) (T : Tbl) (c t n : Nat), c ∈ Tbl.getD T (t, n) →
    c ∈ Tbl.getD (nRun T ops) (t, n) ∨ ∃ op ∈ ops, Releases op c t n
  | [], _, _, _, _, h => Or.inl h
  | op :: ops, T, c, t, n, h => by
    rcases NOp.apply_keeps T op c t n h with h1 | h1
    · rcases nRun_keeps ops _ c t n h1 with h2 | ⟨o, ho, hr⟩
      · exact Or.inl h2
      · exact Or.inr ⟨o, List.mem_cons_of_mem _ ho, hr⟩
    · exact Or.inr ⟨op, List.mem_cons_self, h1⟩

/-! ### `NN` for the host operations -/

theorem NN.same {s s' : State} (h : s'.notify = s.notify) : NN s s' := ⟨[], h.symm⟩

theorem killStep_nn (s : State) (t : Nat) : NN s (killStep s t) :=
  (NN.setTh s t _).trans ((nnAll defaultFuel).dt _ _)

theorem killInst_nn (s : State) (i : Nat) : NN s (killInst s i) := by
  unfold killInst
  split
  · exact NN.refl s
  · rename_i chain _
    exact (NN.of_eq (s := s) (s' := { s with insts := s.insts.filter (fun e => !(e.1 == i)) }) rfl rfl rfl).trans
      (NN.foldl killStep killStep_nn chain _)

theorem killAllInsts_nn (s : State) : NN s (killAllInsts s) := by
  unfold killAllInsts
  exact NN.foldl _ killInst_nn _ _

theorem deliver_nn (s : State) (t : Nat) : NN s (deliver s t) := by
  unfold deliver
  split
  · exact (nnAll defaultFuel).cwa _ _
  · exact NN.refl s

theorem processEvents_nn : ∀ (fuel : Nat) (s : State), NN s (processEvents fuel s)
  | 0, s => NN.fuel s
  | fuel + 1, s => by
    rw [processEvents_succ]
    split
    · exact NN.refl s
    · split
      · exact NN.refl s
      · rename_i t due rest _ _
        exact ((NN.of_eq (s := s) (s' := { s with events := rest }) rfl rfl rfl).trans (deliver_nn _ _)).trans
          (processEvents_nn fuel _)

theorem HostOp.apply_nn (s : State) (op : HostOp) (hne : op ≠ .reset) : NN s (op.apply s) := by
  cases op with
  | reset => exact absurd rfl hne
  | script p ps =>
    show NN s (hostScript s p ps)
    unfold hostScript
    split
    · exact NN.same rfl
    · exact (killAllInsts_nn s).trans (NN.same rfl)
  | call l args =>
    show NN s (hostCall s l args).1
    rw [hostCall_eq]
    split
    · exact NN.refl s
    · refine ((NN.same rfl : NN s (callSetup s l args)).trans ((nnAll defaultFuel).sei _ s.nextTid)).trans ?_
      unfold callFinish
      split
      · exact NN.same rfl
      · exact NN.refl _
  | callv l =>
    show NN s (hostCallV s l)
    unfold hostCallV
    have : NN s (hostCall s l []).1 := by
      rw [hostCall_eq]
      split
      · exact NN.refl s
      · refine ((NN.same rfl : NN s (callSetup s l [])).trans ((nnAll defaultFuel).sei _ s.nextTid)).trans ?_
        unfold callFinish
        split
        · exact NN.same rfl
        · exact NN.refl _
    exact this.trans (NN.same rfl)
  | advance k => exact NN.same rfl
  | resetDirector => exact (killAllInsts_nn s).trans (NN.same rfl)
  | execute =>
    show NN s (hostExecute s)
    rw [hostExecute_eq]
    exact ((NN.same rfl : NN s (frameSetTime s)).trans (processEvents_nn _ _)).trans ((nnAll defaultFuel).er _)
  | step k =>
    show NN s (hostExecute { s with clock := s.clock + k })
    rw [hostExecute_eq]
    exact ((NN.same rfl : NN s (frameSetTime { s with clock := s.clock + k })).trans (processEvents_nn _ _)).trans
      ((nnAll defaultFuel).er _)
  | takeOut => exact NN.same rfl

/-- **the ghost ledger of registrations and notifies exists** -/
theorem reachable_notify_history {s : State} (h : Reachable s) : ∃ ops : List NOp, nRun [] ops = s.notify := by
  induction h with
  | init => exact ⟨[], rfl⟩
  | @step s0 op _ _ ih =>
    by_cases hr : op = .reset
    · subst hr; exact ⟨[], rfl⟩
    · obtain ⟨ops, h0⟩ := ih
      obtain ⟨o, h1⟩ := HostOp.apply_nn s0 op hr
      exact ⟨ops ++ o, by rw [nRun_append, h0, h1]⟩

end Morfuse.Sched
