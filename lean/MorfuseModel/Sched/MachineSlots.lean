import MorfuseModel.Sched.MachineInvPres
import MorfuseModel.Sched.MachineEq
/-!
# Who writes a host result slot

`SR s s'` relates the state before and after any function of the machine (unconditionally: no invariant, no
fuel condition):
* `lm` — no thread acquires a link to a host call (`Th.call`): a record linked to slot `c` afterwards was linked
  to `c` before;
* `sl` — a slot whose content changed belonged to a thread that was linked to it before and is not linked to it
  afterwards, it was undecided (`open` / `pending`) before and is decided afterwards (`Written`).
The only place where both happen is the instruction `end` of the linked thread itself (`endResult` followed
by dropping the link).  Same induction skeleton as `presAll`.
-/
namespace Morfuse.Sched
open State

/-! ### slots -/

theorem getRet_setRet (s : State) (c : Nat) (r : Ret) : (s.setRet c r).getRet c = r ∨ (s.setRet c r).getRet c = .none := by
  unfold State.getRet State.setRet
  simp only
  induction s.calls with
  | nil => right; rfl
  | cons e l ih =>
    by_cases he : e.1 = c
    · left; simp [he]
    · have hb : (e.1 == c) = false := by simpa using he
      simp only [List.map_cons, hb, Bool.false_eq_true, if_false, List.find?_cons]
      exact ih

theorem getRet_setRet_ne (s : State) (c c' : Nat) (r : Ret) (h : c' ≠ c) : (s.setRet c r).getRet c' = s.getRet c' := by
  unfold State.getRet State.setRet
  simp only
  induction s.calls with
  | nil => rfl
  | cons e l ih =>
    by_cases he : e.1 = c
    · have hb : (e.1 == c) = true := by simpa using he
      have hb' : (e.1 == c') = false := by simp [he]; exact fun e' => h e'.symm
      simp only [List.map_cons, hb, if_true, List.find?_cons, hb']
      exact ih
    · have hb : (e.1 == c) = false := by simpa using he
      simp only [List.map_cons, hb, Bool.false_eq_true, if_false, List.find?_cons]
      split
      · rfl
      · exact ih

theorem find_setRet_self (c : Nat) (r : Ret) : ∀ (l : List (Nat × Ret)),
    ((l.find? (·.1 == c)).map (·.2)).getD .none ≠ .none →
    (((l.map (fun e => if e.1 == c then (e.1, r) else e)).find? (·.1 == c)).map (·.2)).getD .none = r
  | [], h => absurd rfl h
  | e :: l, h => by
    by_cases he : e.1 = c
    · have hb : (e.1 == c) = true := by simpa using he
      simp only [List.map_cons, hb, if_true, List.find?_cons]
      rfl
    · have hb : (e.1 == c) = false := by simpa using he
      simp only [List.map_cons, hb, Bool.false_eq_true, if_false, List.find?_cons] at h ⊢
      exact find_setRet_self c r l h

theorem getRet_setRet_self (s : State) (c : Nat) (r : Ret) (h : s.getRet c ≠ .none) : (s.setRet c r).getRet c = r :=
  find_setRet_self c r s.calls h

/-- the value an `end` hands to the host -/
def endValue (th : Th) : EndV → Option V
  | .none => none
  | .lit n => some (.int n)
  | .param i => match th.params.getD i .nil with | .nil => none | x => some x

theorem endResult_eq (s : State) (th : Th) (ev : EndV) :
    endResult s th ev = (match th.call with
      | none => s
      | some c =>
        match s.getRet c, endValue th ev with
        | .open_, some x => s.setRet c (.val x)
        | .open_, none => s.setRet c .none
        | .pending, some x => s.setRet c (.val x)
        | .pending, none => s.setRet c .nil
        | _, _ => s) := by
  unfold endResult endValue; cases ev <;> rfl

/-- the slot went from undecided to decided -/
def Written (a b : Ret) : Prop :=
  (a = .open_ ∧ (b = .none ∨ ∃ x, b = .val x)) ∨ (a = .pending ∧ (b = .nil ∨ ∃ x, b = .val x))

theorem Written.ne {a b : Ret} (h : Written a b) : b ≠ .open_ ∧ b ≠ .pending := by
  rcases h with ⟨_, h | ⟨x, h⟩⟩ | ⟨_, h | ⟨x, h⟩⟩ <;> (rw [h]; simp)

structure SR (s s' : State) : Prop where
  lm : ∀ t th' c, thFind s'.threads t = some th' → th'.call = some c →
    ∃ th, thFind s.threads t = some th ∧ th.call = some c
  sl : ∀ c, s'.getRet c ≠ s.getRet c → ∃ t th, thFind s.threads t = some th ∧ th.call = some c ∧
    (∀ th', thFind s'.threads t = some th' → th'.call ≠ some c) ∧ Written (s.getRet c) (s'.getRet c)
  nc : s'.nextCall = s.nextCall

theorem SR.refl (s : State) : SR s s := ⟨fun t th' c h hc => ⟨th', h, hc⟩, fun c h => absurd rfl h, rfl⟩

theorem SR.trans {a b c : State} (h1 : SR a b) (h2 : SR b c) : SR a c := by
  refine ⟨fun t th' k h hc => ?_, fun k hk => ?_, h2.nc.trans h1.nc⟩
  · obtain ⟨th, hb, hcb⟩ := h2.lm t th' k h hc
    exact h1.lm t th k hb hcb
  · by_cases hab : b.getRet k = a.getRet k
    · have hbc : c.getRet k ≠ b.getRet k := by rw [hab]; exact hk
      obtain ⟨t, th, hf, hl, hun, hw⟩ := h2.sl k hbc
      obtain ⟨tha, hfa, hla⟩ := h1.lm t th k hf hl
      exact ⟨t, tha, hfa, hla, hun, by rw [← hab]; exact hw⟩
    · obtain ⟨t, th, hf, hl, hun, hw⟩ := h1.sl k hab
      have hbc : c.getRet k = b.getRet k := by
        apply Classical.byContradiction
        intro hne
        obtain ⟨_, _, _, _, _, hw2⟩ := h2.sl k hne
        have := hw.ne
        rcases hw2 with ⟨e, _⟩ | ⟨e, _⟩
        · exact this.1 e
        · exact this.2 e
      refine ⟨t, th, hf, hl, ?_, by rw [hbc]; exact hw⟩
      intro th' hc' hl'
      obtain ⟨thb, hb, hlb⟩ := h2.lm t th' k hc' hl'
      exact hun thb hb hlb

/-- a step that keeps threads and slots -/
theorem SR.of_eq {s s' : State} (h1 : s'.threads = s.threads) (h2 : s'.calls = s.calls)
    (h3 : s'.nextCall = s.nextCall) : SR s s' :=
  ⟨fun t th' c h hc => ⟨th', by rw [← h1]; exact h, hc⟩,
   fun c h => absurd (by unfold State.getRet; rw [h2]) h, h3⟩

theorem SR.fuel (s : State) : SR s { s with outOfFuel := true } := SR.of_eq rfl rfl rfl

/-- a record update that keeps the link -/
theorem SR.setTh (s : State) (t : Nat) (f : Th → Th) (hf : ∀ x, (f x).call = x.call := by intros; rfl) :
    SR s (s.setTh t f) := by
  refine ⟨fun u th' c h hc => ?_, fun c h => absurd rfl h, rfl⟩
  rw [State.setTh_threads, thFind_map_upd] at h
  split at h
  · rename_i hut; subst hut
    cases hfd : thFind s.threads u with
    | none => rw [hfd] at h; simp at h
    | some th => rw [hfd] at h; simp at h; subst h; exact ⟨th, rfl, by rw [← hf]; exact hc⟩
  · exact ⟨th', h, hc⟩

/-- records disappear -/
theorem SR.filter (s : State) (t : Nat) : SR s { s with threads := s.threads.filter (fun e => !(e.1 == t)) } := by
  refine ⟨fun u th' c h hc => ?_, fun c h => absurd rfl h, rfl⟩
  simp only at h
  rw [thFind_filter_ne] at h
  split at h
  · cases h
  · exact ⟨th', h, hc⟩

/-- a new record without a link -/
theorem SR.append (s : State) (t' : Nat) (r : Th) (hr : r.call = none) (s' : State)
    (h1 : s'.threads = s.threads ++ [(t', r)]) (h2 : s'.calls = s.calls) (h3 : s'.nextCall = s.nextCall := by rfl) :
    SR s s' := by
  refine ⟨fun u th' c h hc => ?_, fun c h => absurd (by unfold State.getRet; rw [h2]) h, h3⟩
  rw [h1, thFind_append] at h
  cases hfd : thFind s.threads u with
  | some x => rw [hfd] at h; simp at h; subst h; exact ⟨x, rfl, hc⟩
  | none =>
    rw [hfd] at h
    simp only at h
    split at h
    · simp at h; subst h; rw [hr] at hc; cases hc
    · cases h

theorem SR.removeFromInst (s : State) (t i : Nat) : SR s (removeFromInst s t i) := by
  rw [removeFromInst_frame]; exact SR.of_eq rfl rfl rfl

/-- functions of one / two / three extra arguments that satisfy `Pres` -/
def SR1 (f : State → Nat → State) : Prop := ∀ s a, SR s (f s a)
def SR0 (f : State → State) : Prop := ∀ s, SR s (f s)
def SR2 (f : State → Nat → Nat → State) : Prop := ∀ s a b, SR s (f s a b)
def SR3 (f : State → Nat → Nat → Bool → State) : Prop := ∀ s a b c, SR s (f s a b c)

theorem SR.foldl {α : Type} (f : State → α → State) (hf : ∀ s a, SR s (f s a)) :
    ∀ (l : List α) (s : State), SR s (l.foldl f s)
  | [], s => SR.refl s
  | a :: l, s => (hf s a).trans (SR.foldl f hf l (f s a))

theorem stopStep_sr {cw : State → Nat → State} (hcw : SR1 cw) (s : State) (t : Nat) (th : Th) :
    SR s (stopStep cw s t th) := by
  unfold stopStep
  split
  · exact (SR.setTh s t (fun th => { th with ts := .running })).trans (SR.of_eq rfl rfl rfl)
  · split
    · exact (SR.setTh s t _).trans (hcw _ _)
    · exact SR.refl s

theorem notifyDelete_sr (s : State) (t : Nat) : SR s (notifyDelete s t) := by
  unfold notifyDelete
  split
  · exact SR.refl s
  · rename_i th _
    have h1 : SR s (if th.attached = true then removeFromInst (s.setTh t fun th => { th with vm := .destroyed }) t th.inst
        else s.setTh t fun th => { th with vm := .destroyed }) := by
      split
      · exact (SR.setTh s t _).trans (SR.removeFromInst _ _ _)
      · exact SR.setTh s t _
    simp only
    split
    · exact h1.trans (SR.setTh _ _ _)
    · exact h1

theorem finishDelete_sr (s : State) (t : Nat) : SR s (finishDelete s t) := by
  unfold finishDelete
  split
  · exact SR.refl s
  · split
    · exact SR.setTh s t _
    · exact SR.filter s t

theorem cancelEvents_sr (s : State) (t : Nat) : SR s (cancelEvents s t) := SR.of_eq rfl rfl rfl
theorem postEvent_sr (s : State) (t d : Nat) : SR s (postEvent s t d) := SR.of_eq rfl rfl rfl
theorem addTiming_sr (s : State) (t d : Nat) : SR s (addTiming s t d) := SR.of_eq rfl rfl rfl
theorem vmSuspend_sr (s : State) (t : Nat) : SR s (vmSuspend s t) := by
  unfold vmSuspend; exact SR.setTh s t _ (fun x => by split <;> rfl)
theorem vmResume_sr (s : State) (t : Nat) : SR s (vmResume s t) := by
  unfold vmResume; exact SR.setTh s t _ (fun x => by split <;> rfl)

theorem notifyLoop_sr {sn : State → Nat → State} (hsn : SR1 sn) (s : State) (stopped : List Nat) :
    SR s (notifyLoop sn s stopped) := by
  unfold notifyLoop
  apply SR.foldl
  intro s a
  split
  · exact hsn s a
  · exact SR.refl s

theorem cwaZero_sr {swf : State → Nat → Nat → Bool → State} {sn : State → Nat → State}
    (hswf : SR3 swf) (hsn : SR1 sn) (s : State) (w : Nat) : SR s (cwaZero swf sn s w) := by
  unfold cwaZero
  split
  · exact SR.refl s
  · rename_i list _
    simp only [cancelWaitingSources_eq_purge]
    refine SR.trans ?_ (notifyLoop_sr hsn _ _)
    split
    · refine SR.trans ?_ (hswf _ _ _ _)
      exact SR.of_eq rfl rfl rfl
    · exact SR.of_eq rfl rfl rfl

theorem cwaRest_sr {swf : State → Nat → Nat → Bool → State} {sn : State → Nat → State}
    (hswf : SR3 swf) (hsn : SR1 sn) (s : State) (w : Nat) : SR s (cwaRest swf sn s w) := by
  unfold cwaRest
  split
  · exact SR.refl s
  · simp only [cwaSources_frame]
    refine SR.trans ?_ (notifyLoop_sr hsn _ _)
    refine SR.trans ?_ (hswf _ _ _ _)
    exact SR.of_eq rfl rfl rfl

theorem startTiming_sr {stp : State → Nat → State} (h : SR1 stp) (s : State) (t : Nat) :
    SR s (startTiming stp s t) := by
  unfold startTiming
  split
  · exact h s t
  · exact ((h s t).trans (SR.setTh _ _ _)).trans (addTiming_sr _ _ _)

theorem endOnLoop_sr {dt : State → Nat → State} (h : SR1 dt) (s : State) (src name : Nat)
    (listeners : List Nat) : SR s (endOnLoop dt s src name listeners).1 := by
  unfold endOnLoop
  generalize listeners.reverse = L
  suffices hs : ∀ (L : List Nat) (acc : State × Bool), SR s acc.1 →
      SR s (L.foldl (fun (acc : State × Bool) l =>
        if acc.1.alive l then
          if l == src && (name == nameRemove || name == nameDelete || acc.2) then acc
          else (dt acc.1 l, acc.2 || (l == src))
        else acc) acc).1 from hs L (s, false) (SR.refl s)
  intro L
  induction L with
  | nil => intro acc h; exact h
  | cons l L ih =>
    intro acc hacc
    simp only [List.foldl_cons]
    apply ih
    split
    · split
      · exact hacc
      · exact hacc.trans (h _ _)
    · exact hacc

theorem unregEndOn_sr {dt : State → Nat → State} (h : SR1 dt) (s : State) (src name : Nat) :
    SR s (unregEndOn dt s src name).1 := by
  unfold unregEndOn
  split
  · exact SR.refl s
  · split
    · exact SR.refl s
    · refine SR.trans ?_ (endOnLoop_sr h _ _ _ _)
      exact SR.of_eq rfl rfl rfl

theorem wakeLoop_sr {swf : State → Nat → Nat → Bool → State} (h : SR3 swf) (s : State) (name : Nat)
    (stopped : List Nat) : SR s (wakeLoop swf s name stopped) := by
  unfold wakeLoop
  apply SR.foldl
  intro s a
  split
  · exact h _ _ _ _
  · exact SR.refl s

theorem unregNotify_sr {swf : State → Nat → Nat → Bool → State} {sn : State → Nat → State}
    (hswf : SR3 swf) (hsn : SR1 sn) (s : State) (src name : Nat) :
    SR s (unregNotify swf sn s src name) := by
  unfold unregNotify
  split
  · exact SR.refl s
  · split
    · exact SR.refl s
    · simp only [unregisterTargets_eq_purge]
      refine SR.trans ?_ (wakeLoop_sr hswf _ _ _)
      split
      · refine SR.trans ?_ (hsn _ _)
        exact SR.of_eq rfl rfl rfl
      · exact SR.of_eq rfl rfl rfl

theorem killLoop_sr {swf : State → Nat → Nat → Bool → State} (h : SR3 swf) (s : State)
    (stopped : List (Nat × Nat)) : SR s (killLoop swf s stopped) := by
  unfold killLoop
  apply SR.foldl
  intro s a
  split
  · exact h _ _ _ _
  · exact SR.refl s

theorem uaRest_sr {swf : State → Nat → Nat → Bool → State} {sn : State → Nat → State}
    (hswf : SR3 swf) (hsn : SR1 sn) (s : State) (src : Nat) : SR s (uaRest swf sn s src) := by
  unfold uaRest
  split
  · exact SR.refl s
  · simp only
    refine SR.trans ?_ (killLoop_sr hswf _ _)
    refine SR.trans ?_ (hsn _ _)
    rw [uaTargets_frame]
    exact SR.of_eq rfl rfl rfl

theorem regWait_sr {stp : State → Nat → State} (h : SR1 stp) (s : State) (o n c : Nat) :
    SR s (regWait stp s o n c) := by
  unfold regWait
  simp only
  split
  · refine SR.trans (b := stp { s with notify := Tbl.push s.notify (o, n) c } c) ?_ ?_
    · refine SR.trans ?_ (h _ _)
      exact SR.of_eq rfl rfl rfl
    · exact ((SR.setTh _ c (fun th => { th with ts := .waiting })).trans (vmSuspend_sr _ c)).trans (SR.of_eq rfl rfl rfl)
  · exact SR.of_eq rfl rfl rfl

theorem waitOn_sr {stp : State → Nat → State} (h : SR1 stp) (s : State) (p ms : Nat) :
    SR s (waitOn stp s p ms) := by
  unfold waitOn
  have a1 := h s p
  have a2 := SR.setTh (stp s p) p (fun th => { th with ts := .timing })
  have a3 : SR ((stp s p).setTh p fun th => { th with ts := .timing })
      (addTiming ((stp s p).setTh p fun th => { th with ts := .timing }) p ms) := SR.of_eq rfl rfl rfl
  exact ((a1.trans a2).trans a3).trans (vmSuspend_sr _ p)

theorem waitOnGuarded_sr {stp : State → Nat → State} (h : SR1 stp) (s : State) (p ms : Nat) :
    SR s (waitOnGuarded stp s p ms) := by
  unfold waitOnGuarded
  split
  · exact h s p
  · exact waitOn_sr h s p ms

theorem restoreCur_sr (s : State) (c : Option Nat) : SR s (restoreCur s c) := SR.of_eq rfl rfl rfl

theorem execIfAlive_sr {ev : State → Nat → State} (h : SR1 ev) (s : State) (t : Nat) :
    SR s (execIfAlive ev s t) := by
  unfold execIfAlive
  split
  · exact h s t
  · exact SR.refl s

theorem vmEpilogue_sr (s : State) (t : Nat) : SR s (vmEpilogue s t) := by
  unfold vmEpilogue
  split
  · exact SR.refl s
  · split
    · exact SR.setTh _ _ _
    · exact SR.filter s t
    · exact SR.refl s

theorem vmPrologue_sr (s : State) (t : Nat) : SR s (vmPrologue s t) :=
  (SR.setTh s t (fun th => { th with vm := .running })).trans (SR.of_eq rfl rfl rfl)

/-- the statement for one fuel level -/
structure SRAll (fuel : Nat) : Prop where
  dt : SR1 (deleteThread fuel)
  sn : SR1 (stoppedNotify fuel)
  stp : SR1 (stop fuel)
  cwa : SR1 (cancelWaitingAll fuel)
  swf : SR3 (stoppedWaitFor fuel)
  ur : SR2 (unregister fuel)
  ua : SR1 (unregisterAll fuel)
  sei : SR1 (scriptExecuteInternal fuel)
  er : SR0 (executeRunning fuel)
  dr : SR0 (drain fuel)
  ev : SR1 (execVM fuel)
  pr : SR1 (process fuel)
  ex : ∀ s t th ins, (∃ th0, thFind s.threads t = some th0 ∧ th0.call = th.call) → SR s (exec fuel s t th ins)

theorem srAll_zero : SRAll 0 where
  dt := fun s t => by rw [deleteThread_zero]; exact SR.fuel s
  sn := fun s t => by rw [stoppedNotify_zero]; exact SR.fuel s
  stp := fun s t => by rw [stop_zero]; exact SR.fuel s
  cwa := fun s t => by rw [cancelWaitingAll_zero]; exact SR.fuel s
  swf := fun s t n d => by rw [stoppedWaitFor_zero]; exact SR.fuel s
  ur := fun s t n => by rw [unregister_zero]; exact SR.fuel s
  ua := fun s t => by rw [unregisterAll_zero]; exact SR.fuel s
  sei := fun s t => by rw [scriptExecuteInternal_zero]; exact SR.fuel s
  er := fun s => by rw [executeRunning_zero]; exact SR.fuel s
  dr := fun s => by rw [drain_zero]; exact SR.fuel s
  ev := fun s t => by rw [execVM_zero]; exact SR.fuel s
  pr := fun s t => by rw [process_zero]; exact SR.fuel s
  ex := fun s t th ins _ => by rw [exec_zero]; exact SR.fuel s

/-- `endResult` followed by dropping the link: the one step that writes a slot -/
theorem endStep_sr (s : State) (t : Nat) (th : Th) (ev : EndV)
    (hl : ∃ th0, thFind s.threads t = some th0 ∧ th0.call = th.call) :
    SR s ((endResult s th ev).setTh t fun th => { th with call := none }) := by
  have hthr : (endResult s th ev).threads = s.threads := by
    unfold endResult; simp only; split
    · rfl
    · split <;> rfl
  obtain ⟨th0, hf0, hc0⟩ := hl
  have hnc : ((endResult s th ev).setTh t fun th => { th with call := none }).nextCall = s.nextCall := by
    show (endResult s th ev).nextCall = s.nextCall
    unfold endResult; simp only; split
    · rfl
    · split <;> rfl
  refine ⟨fun u th' c h hc => ?_, fun c hne => ?_, hnc⟩
  · rw [State.setTh_threads, hthr, thFind_map_upd] at h
    split at h
    · rename_i hut; subst hut
      rw [hf0] at h; simp at h; subst h; cases hc
    · exact ⟨th', h, hc⟩
  · have hget : ((endResult s th ev).setTh t fun th => { th with call := none }).getRet c = (endResult s th ev).getRet c := rfl
    rw [hget] at hne ⊢
    cases hcall : th.call with
    | none =>
      exfalso; apply hne
      unfold endResult; simp only [hcall]
    | some c0 =>
      have hcc : c = c0 := by
        apply Classical.byContradiction
        intro hcc
        apply hne
        unfold endResult; simp only [hcall]
        split <;> first | exact getRet_setRet_ne s c0 c _ hcc | rfl
      subst hcc
      refine ⟨t, th0, hf0, by rw [hc0, hcall], ?_, ?_⟩
      · intro th' h' hc'
        rw [State.setTh_threads, hthr, thFind_map_upd] at h'
        simp [hf0] at h'
        subst h'; cases hc'
      · rw [endResult_eq] at hne ⊢
        simp only [hcall] at hne ⊢
        cases hg : s.getRet c with
        | open_ =>
          cases hv : endValue th ev with
          | none =>
            simp only [hg, hv]
            rw [getRet_setRet_self s c _ (by rw [hg]; simp)]
            exact Or.inl ⟨rfl, Or.inl rfl⟩
          | some x =>
            simp only [hg, hv]
            rw [getRet_setRet_self s c _ (by rw [hg]; simp)]
            exact Or.inl ⟨rfl, Or.inr ⟨x, rfl⟩⟩
        | pending =>
          cases hv : endValue th ev with
          | none =>
            simp only [hg, hv]
            rw [getRet_setRet_self s c _ (by rw [hg]; simp)]
            exact Or.inr ⟨rfl, Or.inl rfl⟩
          | some x =>
            simp only [hg, hv]
            rw [getRet_setRet_self s c _ (by rw [hg]; simp)]
            exact Or.inr ⟨rfl, Or.inr ⟨x, rfl⟩⟩
        | none =>
          exfalso; apply hne
          cases hv : endValue th ev <;> simp only [hg]
        | nil =>
          exfalso; apply hne
          cases hv : endValue th ev <;> simp only [hg]
        | val v =>
          exfalso; apply hne
          cases hv : endValue th ev <;> simp only [hg]

theorem exec_sr_succ {fuel : Nat} (ih : SRAll fuel) (s : State) (t : Nat) (th : Th) (ins : Instr)
    (hl : ∃ th0, thFind s.threads t = some th0 ∧ th0.call = th.call) :
    SR s (exec (fuel + 1) s t th ins) := by
  cases ins with
  | mark k => rw [exec_mark]; exact SR.of_eq rfl rfl rfl
  | pparam i => rw [exec_pparam]; exact SR.of_eq rfl rfl rfl
  | wait ms => rw [exec_wait]; exact waitOn_sr ih.stp _ _ _
  | waittill o names =>
    rw [exec_waittill]
    split
    · exact SR.refl s
    · split
      · exact SR.refl s
      · exact SR.foldl _ (fun s n => regWait_sr ih.stp _ _ _ _) _ _
  | waittillTimeout o n ms =>
    rw [exec_waittillTimeout]
    split
    · exact SR.refl s
    · split
      · exact SR.refl s
      · exact (regWait_sr ih.stp _ _ _ _).trans (postEvent_sr _ _ _)
  | notify o n =>
    rw [exec_notify]
    split
    · exact SR.refl s
    · exact ih.ur _ _ _
  | endon o n =>
    rw [exec_endon]
    split
    · exact SR.refl s
    · split
      · exact SR.refl s
      · exact SR.of_eq rfl rfl rfl
  | delete o =>
    rw [exec_delete]
    split
    · exact SR.refl s
    · refine SR.trans (b := cancelWaitingAll fuel (unregisterAll fuel (unregister fuel (unregister fuel s o nameDelete) o nameRemove) o) o) ?_ ?_
      · exact (((ih.ur _ _ _).trans (ih.ur _ _ _)).trans (ih.ua _ _)).trans (ih.cwa _ _)
      · exact SR.of_eq rfl rfl rfl
  | thread l =>
    rw [exec_thread]
    split
    · exact SR.refl s
    · refine SR.trans ?_ (ih.sei _ _)
      exact SR.append s s.nextTid _ rfl _ rfl rfl
  | waitthread l =>
    rw [exec_waitthread]
    split
    · exact SR.refl s
    · split
      · refine SR.trans ?_ (ih.sei _ _)
        exact SR.append s s.nextTid _ rfl _ rfl rfl
      · refine SR.trans ?_ (ih.sei _ _)
        refine SR.trans ?_ (regWait_sr ih.stp _ _ _ _)
        exact SR.append s s.nextTid _ rfl _ rfl rfl
  | pause => rw [exec_pause]; exact (ih.stp _ _).trans (vmSuspend_sr _ _)
  | waitParent ms =>
    rw [exec_waitParent]
    split
    · exact SR.refl s
    · exact waitOnGuarded_sr ih.stp _ _ _
  | waittillParent names =>
    rw [exec_waittillParent]
    split
    · exact SR.refl s
    · split
      · exact SR.refl s
      · exact SR.foldl _ (fun s n => regWait_sr ih.stp _ _ _ _) _ _
  | notifyParent n =>
    rw [exec_notifyParent]
    split
    · exact SR.refl s
    · exact ih.ur _ _ _
  | end_ ev =>
    rw [exec_end]
    exact (endStep_sr s t th ev hl).trans (ih.dt _ _)
  | spawn o =>
    rw [exec_spawn]
    split
    · exact SR.refl s
    · exact SR.of_eq rfl rfl rfl

theorem srAll_succ {fuel : Nat} (ih : SRAll fuel) : SRAll (fuel + 1) where
  dt := fun s t => by
    rw [deleteThread_succ]
    split
    · exact SR.refl s
    · split
      · exact SR.refl s
      · exact ((((((((SR.setTh s t _).trans (stopStep_sr ih.cwa _ _ _)).trans (notifyDelete_sr _ _)).trans
          (cancelEvents_sr _ _)).trans (ih.ur _ _ _)).trans (ih.ur _ _ _)).trans (ih.ua _ _)).trans
          (ih.cwa _ _)).trans (finishDelete_sr _ _)
  sn := fun s l => by
    rw [stoppedNotify_succ]
    split
    · split
      · exact ih.dt _ _
      · exact SR.refl s
    · exact SR.refl s
  stp := fun s t => by
    rw [stop_succ]
    split
    · exact SR.refl s
    · exact stopStep_sr ih.cwa _ _ _
  cwa := fun s w => by
    rw [cancelWaitingAll_succ]
    exact (cwaZero_sr ih.swf ih.sn _ _).trans (cwaRest_sr ih.swf ih.sn _ _)
  swf := fun s t name d => by
    rw [stoppedWaitFor_succ]
    split
    · exact SR.refl s
    · split
      · exact SR.refl s
      · split
        · exact SR.refl s
        · split
          · exact ih.dt _ _
          · split
            · split
              · split
                · exact (cancelEvents_sr _ _).trans (ih.sei _ _)
                · exact (cancelEvents_sr _ _).trans (vmResume_sr _ _)
              · exact (cancelEvents_sr _ _).trans (startTiming_sr ih.stp _ _)
            · exact cancelEvents_sr _ _
  ur := fun s src name => by
    rw [unregister_succ]
    split
    · exact unregEndOn_sr ih.dt _ _ _
    · exact (unregEndOn_sr ih.dt _ _ _).trans (unregNotify_sr ih.swf ih.sn _ _ _)
  ua := fun s src => by
    rw [unregisterAll_succ]
    refine SR.trans ?_ (uaRest_sr ih.swf ih.sn _ _)
    refine SR.trans (ih.ur s src 0) ?_
    exact SR.of_eq rfl rfl rfl
  sei := fun s t => by
    rw [scriptExecuteInternal_succ]
    refine SR.trans ?_ (ih.er _)
    refine SR.trans ?_ (restoreCur_sr _ _)
    refine SR.trans ?_ (execIfAlive_sr ih.ev _ _)
    refine SR.trans ?_ (ih.stp _ _)
    exact SR.of_eq rfl rfl rfl
  er := fun s => by
    rw [executeRunning_succ]
    split
    · exact SR.refl s
    · split
      · exact SR.refl s
      · exact ih.dr _
  dr := fun s => by
    rw [drain_succ]
    split
    · exact SR.of_eq rfl rfl rfl
    · refine SR.trans ?_ (ih.dr _)
      refine SR.trans ?_ (ih.ev _ _)
      exact (SR.of_eq (s := s) (s' := { s with timer := _, cur := some _ }) rfl rfl rfl).trans (SR.setTh _ _ (fun th => { th with ts := .running }))
  ev := fun s t => by
    rw [execVM_succ]
    refine SR.trans ?_ (vmEpilogue_sr _ _)
    refine SR.trans (b := process fuel (vmPrologue s t) t) ?_ (SR.of_eq rfl rfl rfl)
    exact (vmPrologue_sr s t).trans (ih.pr _ _)
  pr := fun s t => by
    rw [process_succ]
    split
    · exact SR.refl s
    · split
      · exact SR.refl s
      · rename_i th hf _
        refine ((SR.setTh s t (fun th => { th with pc := th.pc + 1 })).trans (ih.ex _ t th _ ⟨{ th with pc := th.pc + 1 }, ?_, rfl⟩)).trans (ih.pr _ _)
        rw [State.setTh_threads, thFind_map_upd]
        rw [State.th?_eq] at hf
        simp [hf]
  ex := exec_sr_succ ih

theorem srAll : ∀ fuel, SRAll fuel
  | 0 => srAll_zero
  | fuel + 1 => srAll_succ (srAll fuel)

end Morfuse.Sched
