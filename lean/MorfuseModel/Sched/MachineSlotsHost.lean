import MorfuseModel.Sched.MachineSlots
import MorfuseModel.Sched.MachineHostSL
/-!
# Result slots at the host level

`SR` for the host operations that create no host call (`Execute`, `Reset`, recompile), the shape of a host
call (link created for the fresh slot, then `SR`, then `open → pending`), and the link invariant `LK`: every
link points below `nextCall` and no two thread records are linked to the same slot — in every reachable
state, with or without fuel.
-/
namespace Morfuse.Sched
open State

theorem killStep_sr (s : State) (t : Nat) : SR s (killStep s t) :=
  (SR.setTh s t (fun th => { th with attached := false })).trans ((srAll defaultFuel).dt _ _)

theorem killInst_sr (s : State) (i : Nat) : SR s (killInst s i) := by
  unfold killInst
  split
  · exact SR.refl s
  · rename_i chain _
    exact (SR.of_eq (s := s) (s' := { s with insts := s.insts.filter (fun e => !(e.1 == i)) }) rfl rfl rfl).trans
      (SR.foldl killStep killStep_sr chain _)

theorem killAllInsts_sr (s : State) : SR s (killAllInsts s) := by
  unfold killAllInsts
  exact SR.foldl _ killInst_sr _ _

theorem hostReset_sr (s : State) : SR s (hostReset s) := (killAllInsts_sr s).trans (SR.of_eq rfl rfl rfl)

theorem hostScript_sr (s : State) (p : List (List Instr)) (ps : List Nat) : SR s (hostScript s p ps) := by
  unfold hostScript
  split
  · exact SR.of_eq rfl rfl rfl
  · exact (killAllInsts_sr s).trans (SR.of_eq rfl rfl rfl)

theorem deliver_sr (s : State) (t : Nat) : SR s (deliver s t) := by
  unfold deliver
  split
  · exact (srAll defaultFuel).cwa _ _
  · exact SR.refl s

theorem processEvents_sr : ∀ (fuel : Nat) (s : State), SR s (processEvents fuel s)
  | 0, s => SR.fuel s
  | fuel + 1, s => by
    rw [processEvents_succ]
    split
    · exact SR.refl s
    · split
      · exact SR.refl s
      · rename_i t due rest _ _
        exact ((SR.of_eq (s := s) (s' := { s with events := rest }) rfl rfl rfl).trans (deliver_sr _ _)).trans
          (processEvents_sr fuel _)

/-- **a frame writes a slot only through the `end` of the thread linked to it** -/
theorem hostExecute_sr (s : State) : SR s (hostExecute s) := by
  rw [hostExecute_eq]
  exact ((SR.of_eq (s := s) (s' := frameSetTime s) rfl rfl rfl).trans (processEvents_sr _ _)).trans
    ((srAll defaultFuel).er _)

/-- inside a host call, after the thread and its slot are created -/
theorem hostCall_sr (s : State) (label : Nat) (args : List V) :
    SR (callSetup s label args) (scriptExecuteInternal defaultFuel (callSetup s label args) s.nextTid) :=
  (srAll defaultFuel).sei _ _

/-! ### the link invariant -/

structure LK (s : State) : Prop where
  lt : ∀ t th c, thFind s.threads t = some th → th.call = some c → c < s.nextCall
  uniq : ∀ t t' th th' c, thFind s.threads t = some th → thFind s.threads t' = some th' →
    th.call = some c → th'.call = some c → t = t'

theorem LK.of_sr {s s' : State} (h : LK s) (r : SR s s') : LK s' := by
  refine ⟨fun t th c hf hc => ?_, fun t t' th th' c hf hf' hc hc' => ?_⟩
  · obtain ⟨th0, h0, hc0⟩ := r.lm t th c hf hc
    rw [r.nc]; exact h.lt t th0 c h0 hc0
  · obtain ⟨th0, h0, hc0⟩ := r.lm t th c hf hc
    obtain ⟨th1, h1, hc1⟩ := r.lm t' th' c hf' hc'
    exact h.uniq t t' th0 th1 c h0 h1 hc0 hc1

theorem LK.congr {s s' : State} (h : LK s) (e1 : s'.threads = s.threads) (e2 : s'.nextCall = s.nextCall) : LK s' :=
  ⟨by rw [e1, e2]; exact h.lt, by rw [e1]; exact h.uniq⟩

theorem callSetup_lk {s : State} (h : LK s) (label : Nat) (args : List V) : LK (callSetup s label args) := by
  have hfind : ∀ u th c, thFind (callSetup s label args).threads u = some th → th.call = some c →
      (thFind s.threads u = some th) ∨ (c = s.nextCall ∧ thFind s.threads u = none) := by
    intro u th c hf hc
    have hf' : thFind (s.threads ++ [(s.nextTid, _)]) u = some th := hf
    rw [thFind_append] at hf'
    cases hu : thFind s.threads u with
    | some x => rw [hu] at hf'; simp at hf'; subst hf'; exact Or.inl rfl
    | none =>
      rw [hu] at hf'
      simp only at hf'
      split at hf'
      · simp at hf'; subst hf'; simp at hc; exact Or.inr ⟨hc.symm, rfl⟩
      · cases hf'
  refine ⟨fun t th c hf hc => ?_, fun t t' th th' c hf hf' hc hc' => ?_⟩
  · show c < s.nextCall + 1
    rcases hfind t th c hf hc with h1 | ⟨h1, _⟩
    · have := h.lt t th c h1 hc; omega
    · omega
  · rcases hfind t th c hf hc with h1 | ⟨h1, n1⟩
    · rcases hfind t' th' c hf' hc' with h2 | ⟨h2, _⟩
      · exact h.uniq t t' th th' c h1 h2 hc hc'
      · have := h.lt t th c h1 hc; omega
    · rcases hfind t' th' c hf' hc' with h2 | ⟨_, n2⟩
      · have := h.lt t' th' c h2 hc'; omega
      · -- both are the new record
        have a1 : thFind (s.threads ++ [(s.nextTid, _)]) t = some th := hf
        have a2 : thFind (s.threads ++ [(s.nextTid, _)]) t' = some th' := hf'
        rw [thFind_append, n1] at a1
        rw [thFind_append, n2] at a2
        simp only at a1 a2
        split at a1
        · split at a2
          · rename_i e1 e2; rw [e1, e2]
          · cases a2
        · cases a1

theorem LK.mapCall {s : State} (h : LK s) (c0 : Nat) :
    LK { s with threads := s.threads.map (fun e => (e.1, if e.2.call == some c0 then { e.2 with call := none } else e.2)) } := by
  have hfind : ∀ u th c, thFind (s.threads.map (fun e => (e.1, if e.2.call == some c0 then { e.2 with call := none } else e.2))) u = some th →
      th.call = some c → ∃ th0, thFind s.threads u = some th0 ∧ th0.call = some c := by
    intro u th c hf hc
    rw [thFind_mapAll (fun x => if x.call == some c0 then { x with call := none } else x)] at hf
    cases hu : thFind s.threads u with
    | none => rw [hu] at hf; cases hf
    | some x =>
      rw [hu] at hf; simp at hf; subst hf
      refine ⟨x, rfl, ?_⟩
      split at hc
      · cases hc
      · exact hc
  refine ⟨fun t th c hf hc => ?_, fun t t' th th' c hf hf' hc hc' => ?_⟩
  · obtain ⟨th0, h0, hc0⟩ := hfind t th c hf hc
    exact h.lt t th0 c h0 hc0
  · obtain ⟨th0, h0, hc0⟩ := hfind t th c hf hc
    obtain ⟨th1, h1, hc1⟩ := hfind t' th' c hf' hc'
    exact h.uniq t t' th0 th1 c h0 h1 hc0 hc1

theorem hostCall_lk {s : State} (h : LK s) (label : Nat) (args : List V) : LK (hostCall s label args).1 := by
  rw [hostCall_eq]
  split
  · exact h
  · have h1 := (callSetup_lk h label args).of_sr (hostCall_sr s label args)
    unfold callFinish
    split
    · exact h1.congr rfl rfl
    · exact h1

/-- every link points to an existing slot number and no two threads share a slot — in every reachable state
    (no fuel condition) -/
theorem reachable_lk {s : State} (h : Reachable s) : LK s := by
  induction h with
  | init => exact ⟨fun t th c hf => by simp [thFind] at hf, fun t t' th th' c hf => by simp [thFind] at hf⟩
  | @step s0 op _ _ ih =>
    cases op with
    | reset => exact ⟨fun t th c hf => by simp [HostOp.apply, thFind] at hf, fun t t' th th' c hf => by simp [HostOp.apply, thFind] at hf⟩
    | script p ps => exact ih.of_sr (hostScript_sr _ p ps)
    | call l args => exact hostCall_lk ih l args
    | callv l => exact (hostCall_lk ih l []).mapCall _
    | advance k => exact ih.congr rfl rfl
    | resetDirector => exact ih.of_sr (hostReset_sr _)
    | execute => exact ih.of_sr (hostExecute_sr _)
    | step k =>
      exact (ih.congr (s' := ({ s0 with clock := s0.clock + k } : State)) rfl rfl).of_sr (hostExecute_sr _)
    | takeOut => exact ih.congr rfl rfl

end Morfuse.Sched
