import MorfuseModel.Sched.MachineInvPres
import MorfuseModel.Sched.MachineEq
import MorfuseModel.Sched.TimerRun
/-!
# The machine's timer is the result of a history of timer operations

`TT s s'`: there is a list of timer operations (the ghost ledger of this call) — `add` (only with a due time
`≥ scaledTime`), `remove`, `next`, never `setTime` — that leads from the timer of `s` to the timer of `s'`; and
`scaledTime` is untouched.  Proved for every function of the machine, unconditionally, with the skeleton of
`presAll`; the three places that touch the timer are `Stop()` (`remove`), `AddTiming` (`add`) and the timer loop
(`next`).
-/
namespace Morfuse.Sched
open State

def NoSet (ops : List TOp) : Prop := ∀ op ∈ ops, ∀ T, op ≠ .setTime T
def AddsFrom (b : Nat) (ops : List TOp) : Prop := ∀ e due, TOp.add e due ∈ ops → b ≤ due

structure TT (s s' : State) : Prop where
  run : ∃ ops : List TOp, timerRun s.timer ops = s'.timer ∧ NoSet ops ∧ AddsFrom s.scaled ops
  scaled : s'.scaled = s.scaled

theorem TT.refl (s : State) : TT s s :=
  ⟨⟨[], rfl, (fun _ h => by cases h), (fun _ _ h => by cases h)⟩, rfl⟩

theorem TT.trans {a b c : State} (h1 : TT a b) (h2 : TT b c) : TT a c := by
  obtain ⟨o1, r1, n1, a1⟩ := h1.run
  obtain ⟨o2, r2, n2, a2⟩ := h2.run
  refine ⟨⟨o1 ++ o2, by rw [timerRun_append, r1, r2], ?_, ?_⟩, h2.scaled.trans h1.scaled⟩
  · intro op hop T
    rcases List.mem_append.1 hop with h | h
    · exact n1 op h T
    · exact n2 op h T
  · intro e due hm
    rcases List.mem_append.1 hm with h | h
    · exact a1 e due h
    · have := a2 e due h; rw [h1.scaled] at this; exact this

/-- a step that keeps the timer and `scaledTime` -/
theorem TT.of_eq {s s' : State} (h1 : s'.timer = s.timer) (h2 : s'.scaled = s.scaled)
    (_h3 : s'.clock = s.clock) : TT s s' :=
  ⟨⟨[], by rw [timerRun_nil, h1], (fun _ h => by cases h), (fun _ _ h => by cases h)⟩, h2⟩

/-- a step that performs one timer operation -/
theorem TT.of_op {s s' : State} (op : TOp) (h1 : s'.timer = timerRun s.timer [op]) (h2 : s'.scaled = s.scaled)
    (hn : ∀ T, op ≠ .setTime T) (ha : ∀ e due, op = .add e due → s.scaled ≤ due) : TT s s' :=
  ⟨⟨[op], h1.symm, fun o ho T => by simp at ho; rw [ho]; exact hn T,
    fun e due hm => by simp at hm; exact ha e due hm.symm⟩, h2⟩

theorem TT.fuel (s : State) : TT s { s with outOfFuel := true } := TT.of_eq rfl rfl rfl
theorem TT.setTh (s : State) (t : Nat) (f : Th → Th) : TT s (s.setTh t f) := TT.of_eq rfl rfl rfl
theorem TT.removeFromInst (s : State) (t i : Nat) : TT s (removeFromInst s t i) := by
  rw [removeFromInst_frame]; exact TT.of_eq rfl rfl rfl

/-- functions of one / two / three extra arguments that satisfy `Pres` -/
def TT1 (f : State → Nat → State) : Prop := ∀ s a, TT s (f s a)
def TT0 (f : State → State) : Prop := ∀ s, TT s (f s)
def TT2 (f : State → Nat → Nat → State) : Prop := ∀ s a b, TT s (f s a b)
def TT3 (f : State → Nat → Nat → Bool → State) : Prop := ∀ s a b c, TT s (f s a b c)

theorem TT.foldl {α : Type} (f : State → α → State) (hf : ∀ s a, TT s (f s a)) :
    ∀ (l : List α) (s : State), TT s (l.foldl f s)
  | [], s => TT.refl s
  | a :: l, s => (hf s a).trans (TT.foldl f hf l (f s a))

theorem stopStep_tt {cw : State → Nat → State} (hcw : TT1 cw) (s : State) (t : Nat) (th : Th) :
    TT s (stopStep cw s t th) := by
  unfold stopStep
  split
  · exact TT.of_op (s := s) (.remove t) (by rw [timerRun_remove]) rfl (fun T h => by cases h) (fun e d h => by cases h)
  · split
    · exact (TT.setTh s t _).trans (hcw _ _)
    · exact TT.refl s

theorem notifyDelete_tt (s : State) (t : Nat) : TT s (notifyDelete s t) := by
  unfold notifyDelete
  split
  · exact TT.refl s
  · rename_i th _
    have h1 : TT s (if th.attached = true then removeFromInst (s.setTh t fun th => { th with vm := .destroyed }) t th.inst
        else s.setTh t fun th => { th with vm := .destroyed }) := by
      split
      · exact (TT.setTh s t _).trans (TT.removeFromInst _ _ _)
      · exact TT.setTh s t _
    simp only
    split
    · exact h1.trans (TT.setTh _ _ _)
    · exact h1

theorem finishDelete_tt (s : State) (t : Nat) : TT s (finishDelete s t) := by
  unfold finishDelete
  split
  · exact TT.refl s
  · split
    · exact TT.setTh s t _
    · exact TT.of_eq rfl rfl rfl

theorem cancelEvents_tt (s : State) (t : Nat) : TT s (cancelEvents s t) := TT.of_eq rfl rfl rfl
theorem postEvent_tt (s : State) (t d : Nat) : TT s (postEvent s t d) := TT.of_eq rfl rfl rfl
theorem addTiming_tt (s : State) (t d : Nat) : TT s (addTiming s t d) :=
  TT.of_op (.add t (s.scaled + d)) (by rw [timerRun_add]; rfl) rfl (fun T h => by cases h)
    (fun e due h => by cases h; exact Nat.le_add_right _ _)
theorem vmSuspend_tt (s : State) (t : Nat) : TT s (vmSuspend s t) := TT.setTh s t _
theorem vmResume_tt (s : State) (t : Nat) : TT s (vmResume s t) := TT.setTh s t _

theorem notifyLoop_tt {sn : State → Nat → State} (hsn : TT1 sn) (s : State) (stopped : List Nat) :
    TT s (notifyLoop sn s stopped) := by
  unfold notifyLoop
  apply TT.foldl
  intro s a
  split
  · exact hsn s a
  · exact TT.refl s

theorem cwaZero_tt {swf : State → Nat → Nat → Bool → State} {sn : State → Nat → State}
    (hswf : TT3 swf) (hsn : TT1 sn) (s : State) (w : Nat) : TT s (cwaZero swf sn s w) := by
  unfold cwaZero
  split
  · exact TT.refl s
  · rename_i list _
    simp only [cancelWaitingSources_eq_purge]
    refine TT.trans ?_ (notifyLoop_tt hsn _ _)
    split
    · refine TT.trans ?_ (hswf _ _ _ _)
      exact TT.of_eq rfl rfl rfl
    · exact TT.of_eq rfl rfl rfl

theorem cwaRest_tt {swf : State → Nat → Nat → Bool → State} {sn : State → Nat → State}
    (hswf : TT3 swf) (hsn : TT1 sn) (s : State) (w : Nat) : TT s (cwaRest swf sn s w) := by
  unfold cwaRest
  split
  · exact TT.refl s
  · simp only [cwaSources_frame]
    refine TT.trans ?_ (notifyLoop_tt hsn _ _)
    refine TT.trans ?_ (hswf _ _ _ _)
    exact TT.of_eq rfl rfl rfl

theorem startTiming_tt {stp : State → Nat → State} (h : TT1 stp) (s : State) (t : Nat) :
    TT s (startTiming stp s t) := by
  unfold startTiming
  split
  · exact h s t
  · exact ((h s t).trans (TT.setTh _ _ _)).trans (addTiming_tt _ _ _)

theorem endOnLoop_tt {dt : State → Nat → State} (h : TT1 dt) (s : State) (src name : Nat)
    (listeners : List Nat) : TT s (endOnLoop dt s src name listeners).1 := by
  unfold endOnLoop
  generalize listeners.reverse = L
  suffices hs : ∀ (L : List Nat) (acc : State × Bool), TT s acc.1 →
      TT s (L.foldl (fun (acc : State × Bool) l =>
        if acc.1.alive l then
          if l == src && (name == nameRemove || name == nameDelete || acc.2) then acc
          else (dt acc.1 l, acc.2 || (l == src))
        else acc) acc).1 from hs L (s, false) (TT.refl s)
  intro L
  induction L with
  | nil => intro acc h; exact h
  | cons l L ih =>
    intro acc hacc
    simp only [List.foldl_cons]
    apply ih
    split
    · split
      · exact hacc
      · exact hacc.trans (h _ _)
    · exact hacc

theorem unregEndOn_tt {dt : State → Nat → State} (h : TT1 dt) (s : State) (src name : Nat) :
    TT s (unregEndOn dt s src name).1 := by
  unfold unregEndOn
  split
  · exact TT.refl s
  · split
    · exact TT.refl s
    · refine TT.trans ?_ (endOnLoop_tt h _ _ _ _)
      exact TT.of_eq rfl rfl rfl

theorem wakeLoop_tt {swf : State → Nat → Nat → Bool → State} (h : TT3 swf) (s : State) (name : Nat)
    (stopped : List Nat) : TT s (wakeLoop swf s name stopped) := by
  unfold wakeLoop
  apply TT.foldl
  intro s a
  split
  · exact h _ _ _ _
  · exact TT.refl s

theorem unregNotify_tt {swf : State → Nat → Nat → Bool → State} {sn : State → Nat → State}
    (hswf : TT3 swf) (hsn : TT1 sn) (s : State) (src name : Nat) :
    TT s (unregNotify swf sn s src name) := by
  unfold unregNotify
  split
  · exact TT.refl s
  · split
    · exact TT.refl s
    · simp only [unregisterTargets_eq_purge]
      refine TT.trans ?_ (wakeLoop_tt hswf _ _ _)
      split
      · refine TT.trans ?_ (hsn _ _)
        exact TT.of_eq rfl rfl rfl
      · exact TT.of_eq rfl rfl rfl

theorem killLoop_tt {swf : State → Nat → Nat → Bool → State} (h : TT3 swf) (s : State)
    (stopped : List (Nat × Nat)) : TT s (killLoop swf s stopped) := by
  unfold killLoop
  apply TT.foldl
  intro s a
  split
  · exact h _ _ _ _
  · exact TT.refl s

theorem uaRest_tt {swf : State → Nat → Nat → Bool → State} {sn : State → Nat → State}
    (hswf : TT3 swf) (hsn : TT1 sn) (s : State) (src : Nat) : TT s (uaRest swf sn s src) := by
  unfold uaRest
  split
  · exact TT.refl s
  · simp only
    refine TT.trans ?_ (killLoop_tt hswf _ _)
    refine TT.trans ?_ (hsn _ _)
    rw [uaTargets_frame]
    exact TT.of_eq rfl rfl rfl

theorem regWait_tt {stp : State → Nat → State} (h : TT1 stp) (s : State) (o n c : Nat) :
    TT s (regWait stp s o n c) := by
  unfold regWait
  simp only
  split
  · refine TT.trans (b := stp { s with notify := Tbl.push s.notify (o, n) c } c) ?_ ?_
    · refine TT.trans ?_ (h _ _)
      exact TT.of_eq rfl rfl rfl
    · exact TT.of_eq rfl rfl rfl
  · exact TT.of_eq rfl rfl rfl

theorem waitOn_tt {stp : State → Nat → State} (h : TT1 stp) (s : State) (p ms : Nat) :
    TT s (waitOn stp s p ms) := by
  unfold waitOn
  exact (((h s p).trans (TT.setTh _ p _)).trans (addTiming_tt _ p ms)).trans (TT.setTh _ p _)

theorem waitOnGuarded_tt {stp : State → Nat → State} (h : TT1 stp) (s : State) (p ms : Nat) :
    TT s (waitOnGuarded stp s p ms) := by
  unfold waitOnGuarded
  split
  · exact h s p
  · exact waitOn_tt h s p ms

theorem setRet_tt (s : State) (c : Nat) (r : Ret) : TT s (s.setRet c r) := TT.of_eq rfl rfl rfl

theorem endResult_tt (s : State) (th : Th) (ev : EndV) : TT s (endResult s th ev) := by
  unfold endResult
  simp only
  split
  · exact TT.refl s
  · split <;> first | exact setRet_tt _ _ _ | exact TT.refl s

theorem restoreCur_tt (s : State) (c : Option Nat) : TT s (restoreCur s c) := TT.of_eq rfl rfl rfl

theorem execIfAlive_tt {ev : State → Nat → State} (h : TT1 ev) (s : State) (t : Nat) :
    TT s (execIfAlive ev s t) := by
  unfold execIfAlive
  split
  · exact h s t
  · exact TT.refl s

theorem vmEpilogue_tt (s : State) (t : Nat) : TT s (vmEpilogue s t) := by
  unfold vmEpilogue
  split
  · exact TT.refl s
  · split
    · exact TT.setTh _ _ _
    · exact TT.of_eq rfl rfl rfl
    · exact TT.refl s

theorem vmPrologue_tt (s : State) (t : Nat) : TT s (vmPrologue s t) := TT.of_eq rfl rfl rfl

/-- the statement for one fuel level -/
structure TTAll (fuel : Nat) : Prop where
  dt : TT1 (deleteThread fuel)
  sn : TT1 (stoppedNotify fuel)
  stp : TT1 (stop fuel)
  cwa : TT1 (cancelWaitingAll fuel)
  swf : TT3 (stoppedWaitFor fuel)
  ur : TT2 (unregister fuel)
  ua : TT1 (unregisterAll fuel)
  sei : TT1 (scriptExecuteInternal fuel)
  er : TT0 (executeRunning fuel)
  dr : TT0 (drain fuel)
  ev : TT1 (execVM fuel)
  pr : TT1 (process fuel)
  ex : ∀ s t th ins, TT s (exec fuel s t th ins)

theorem ttAll_zero : TTAll 0 where
  dt := fun s t => by rw [deleteThread_zero]; exact TT.fuel s
  sn := fun s t => by rw [stoppedNotify_zero]; exact TT.fuel s
  stp := fun s t => by rw [stop_zero]; exact TT.fuel s
  cwa := fun s t => by rw [cancelWaitingAll_zero]; exact TT.fuel s
  swf := fun s t n d => by rw [stoppedWaitFor_zero]; exact TT.fuel s
  ur := fun s t n => by rw [unregister_zero]; exact TT.fuel s
  ua := fun s t => by rw [unregisterAll_zero]; exact TT.fuel s
  sei := fun s t => by rw [scriptExecuteInternal_zero]; exact TT.fuel s
  er := fun s => by rw [executeRunning_zero]; exact TT.fuel s
  dr := fun s => by rw [drain_zero]; exact TT.fuel s
  ev := fun s t => by rw [execVM_zero]; exact TT.fuel s
  pr := fun s t => by rw [process_zero]; exact TT.fuel s
  ex := fun s t th ins => by rw [exec_zero]; exact TT.fuel s

theorem exec_tt_succ {fuel : Nat} (ih : TTAll fuel) (s : State) (t : Nat) (th : Th) (ins : Instr) :
    TT s (exec (fuel + 1) s t th ins) := by
  cases ins with
  | mark k => rw [exec_mark]; exact TT.of_eq rfl rfl rfl
  | pparam i => rw [exec_pparam]; exact TT.of_eq rfl rfl rfl
  | wait ms => rw [exec_wait]; exact waitOn_tt ih.stp _ _ _
  | waittill o names =>
    rw [exec_waittill]
    split
    · exact TT.refl s
    · split
      · exact TT.refl s
      · exact TT.foldl _ (fun s n => regWait_tt ih.stp _ _ _ _) _ _
  | waittillTimeout o n ms =>
    rw [exec_waittillTimeout]
    split
    · exact TT.refl s
    · split
      · exact TT.refl s
      · exact (regWait_tt ih.stp _ _ _ _).trans (postEvent_tt _ _ _)
  | notify o n =>
    rw [exec_notify]
    split
    · exact TT.refl s
    · exact ih.ur _ _ _
  | endon o n =>
    rw [exec_endon]
    split
    · exact TT.refl s
    · split
      · exact TT.refl s
      · exact TT.of_eq rfl rfl rfl
  | delete o =>
    rw [exec_delete]
    split
    · exact TT.refl s
    · refine TT.trans (b := cancelWaitingAll fuel (unregisterAll fuel (unregister fuel (unregister fuel s o nameDelete) o nameRemove) o) o) ?_ ?_
      · exact (((ih.ur _ _ _).trans (ih.ur _ _ _)).trans (ih.ua _ _)).trans (ih.cwa _ _)
      · exact TT.of_eq rfl rfl rfl
  | thread l =>
    rw [exec_thread]
    split
    · exact TT.refl s
    · refine TT.trans ?_ (ih.sei _ _)
      exact TT.of_eq rfl rfl rfl
  | waitthread l =>
    rw [exec_waitthread]
    split
    · exact TT.refl s
    · split
      · refine TT.trans ?_ (ih.sei _ _)
        exact TT.of_eq rfl rfl rfl
      · refine TT.trans ?_ (ih.sei _ _)
        refine TT.trans ?_ (regWait_tt ih.stp _ _ _ _)
        exact TT.of_eq rfl rfl rfl
  | pause => rw [exec_pause]; exact (ih.stp _ _).trans (vmSuspend_tt _ _)
  | waitParent ms =>
    rw [exec_waitParent]
    split
    · exact TT.refl s
    · exact waitOnGuarded_tt ih.stp _ _ _
  | waittillParent names =>
    rw [exec_waittillParent]
    split
    · exact TT.refl s
    · split
      · exact TT.refl s
      · exact TT.foldl _ (fun s n => regWait_tt ih.stp _ _ _ _) _ _
  | notifyParent n =>
    rw [exec_notifyParent]
    split
    · exact TT.refl s
    · exact ih.ur _ _ _
  | end_ ev =>
    rw [exec_end]
    exact ((endResult_tt _ _ _).trans (TT.setTh _ _ _)).trans (ih.dt _ _)
  | spawn o =>
    rw [exec_spawn]
    split
    · exact TT.refl s
    · exact TT.of_eq rfl rfl rfl

theorem ttAll_succ {fuel : Nat} (ih : TTAll fuel) : TTAll (fuel + 1) where
  dt := fun s t => by
    rw [deleteThread_succ]
    split
    · exact TT.refl s
    · split
      · exact TT.refl s
      · exact ((((((((TT.setTh s t _).trans (stopStep_tt ih.cwa _ _ _)).trans (notifyDelete_tt _ _)).trans
          (cancelEvents_tt _ _)).trans (ih.ur _ _ _)).trans (ih.ur _ _ _)).trans (ih.ua _ _)).trans
          (ih.cwa _ _)).trans (finishDelete_tt _ _)
  sn := fun s l => by
    rw [stoppedNotify_succ]
    split
    · split
      · exact ih.dt _ _
      · exact TT.refl s
    · exact TT.refl s
  stp := fun s t => by
    rw [stop_succ]
    split
    · exact TT.refl s
    · exact stopStep_tt ih.cwa _ _ _
  cwa := fun s w => by
    rw [cancelWaitingAll_succ]
    exact (cwaZero_tt ih.swf ih.sn _ _).trans (cwaRest_tt ih.swf ih.sn _ _)
  swf := fun s t name d => by
    rw [stoppedWaitFor_succ]
    split
    · exact TT.refl s
    · split
      · exact TT.refl s
      · split
        · exact TT.refl s
        · split
          · exact ih.dt _ _
          · split
            · split
              · split
                · exact (cancelEvents_tt _ _).trans (ih.sei _ _)
                · exact (cancelEvents_tt _ _).trans (vmResume_tt _ _)
              · exact (cancelEvents_tt _ _).trans (startTiming_tt ih.stp _ _)
            · exact cancelEvents_tt _ _
  ur := fun s src name => by
    rw [unregister_succ]
    split
    · exact unregEndOn_tt ih.dt _ _ _
    · exact (unregEndOn_tt ih.dt _ _ _).trans (unregNotify_tt ih.swf ih.sn _ _ _)
  ua := fun s src => by
    rw [unregisterAll_succ]
    refine TT.trans ?_ (uaRest_tt ih.swf ih.sn _ _)
    refine TT.trans (ih.ur s src 0) ?_
    exact TT.of_eq rfl rfl rfl
  sei := fun s t => by
    rw [scriptExecuteInternal_succ]
    refine TT.trans ?_ (ih.er _)
    refine TT.trans ?_ (restoreCur_tt _ _)
    refine TT.trans ?_ (execIfAlive_tt ih.ev _ _)
    refine TT.trans ?_ (ih.stp _ _)
    exact TT.of_eq rfl rfl rfl
  er := fun s => by
    rw [executeRunning_succ]
    split
    · exact TT.refl s
    · split
      · exact TT.refl s
      · exact ih.dr _
  dr := fun s => by
    rw [drain_succ]
    split
    · rename_i tm hn
      exact TT.of_op (s' := { s with timer := tm, cur := none }) .next (by rw [timerRun_next, hn]) rfl (fun T h => by cases h) (fun e d h => by cases h)
    · refine TT.trans ?_ (ih.dr _)
      refine TT.trans ?_ (ih.ev _ _)
      rename_i t d tm hn
      exact (TT.of_op (s := s) (s' := { s with timer := tm, cur := some t }) .next (by rw [timerRun_next, hn]) rfl (fun T h => by cases h) (fun e d h => by cases h)).trans (TT.setTh _ t _)
  ev := fun s t => by
    rw [execVM_succ]
    refine TT.trans ?_ (vmEpilogue_tt _ _)
    refine TT.trans (b := process fuel (vmPrologue s t) t) ?_ (TT.of_eq rfl rfl rfl)
    exact (vmPrologue_tt s t).trans (ih.pr _ _)
  pr := fun s t => by
    rw [process_succ]
    split
    · exact TT.refl s
    · split
      · exact TT.refl s
      · exact ((TT.setTh s t _).trans (ih.ex _ _ _ _)).trans (ih.pr _ _)
  ex := exec_tt_succ ih

theorem ttAll : ∀ fuel, TTAll fuel
  | 0 => ttAll_zero
  | fuel + 1 => ttAll_succ (ttAll fuel)

end Morfuse.Sched
