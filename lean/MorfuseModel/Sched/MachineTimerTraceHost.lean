import MorfuseModel.Sched.MachineTimerTrace
import MorfuseModel.Sched.MachineHost
/-!
# The timer history of a reachable state

`reachable_timer_history`: for every state reachable by host operations (no fuel condition) there is a history
of timer operations — the ghost ledger — that, replayed from the empty timer, gives the machine's timer; every
`add` in it has a due time not before the timer's `m_time` at that moment (`AddsLate`: `due = scaledTime + d` and
`scaledTime = m_time` whenever script code runs); `setTime` occurs exactly once per `ScriptContext::Execute`.
-/
namespace Morfuse.Sched
open State

/-- every `add` of the history carries a due time `≥` the timer's `m_time` at that moment -/
def AddsLate : Timer → List TOp → Prop
  | _, [] => True
  | tm, op :: ops =>
    (match op with
      | .add _ due => tm.mtime ≤ due
      | _ => True) ∧ AddsLate (timerRun tm [op]) ops

theorem timerRun_cons (tm : Timer) (op : TOp) (ops : List TOp) :
    timerRun tm (op :: ops) = timerRun (timerRun tm [op]) ops := timerRun_append tm [op] ops

theorem AddsLate.append : ∀ (a b : List TOp) (tm : Timer), AddsLate tm a → AddsLate (timerRun tm a) b →
    AddsLate tm (a ++ b)
  | [], _, _, _, hb => hb
  | op :: a, b, tm, ha, hb => by
    refine ⟨ha.1, AddsLate.append a b _ ha.2 ?_⟩
    rw [← timerRun_cons]; exact hb

theorem timerRun_one_mtime (tm : Timer) (op : TOp) (h : ∀ T, op ≠ .setTime T) : (timerRun tm [op]).mtime = tm.mtime := by
  cases op with
  | add e d => rfl
  | remove e => rw [timerRun_remove]; unfold Timer.remove; split <;> rfl
  | setTime T => exact absurd rfl (h T)
  | next => rw [timerRun_next]; unfold Timer.next; split <;> rfl

theorem addsLate_of : ∀ (ops : List TOp) (tm : Timer) (b : Nat), NoSet ops → AddsFrom b ops → tm.mtime ≤ b →
    AddsLate tm ops
  | [], _, _, _, _, _ => trivial
  | op :: ops, tm, b, hn, ha, hb => by
    refine ⟨?_, addsLate_of ops _ b (fun o ho => hn o (List.mem_cons_of_mem _ ho))
      (fun e d hm => ha e d (List.mem_cons_of_mem _ hm)) ?_⟩
    · cases op with
      | add e due => exact Nat.le_trans hb (ha e due List.mem_cons_self)
      | _ => trivial
    · rw [timerRun_one_mtime tm op (hn op List.mem_cons_self)]; exact hb

/-! ### `TT` for the host operations that do not move the clock -/

theorem killStep_tt (s : State) (t : Nat) : TT s (killStep s t) :=
  (TT.setTh s t _).trans ((ttAll defaultFuel).dt _ _)

theorem killInst_tt (s : State) (i : Nat) : TT s (killInst s i) := by
  unfold killInst
  split
  · exact TT.refl s
  · rename_i chain _
    exact (TT.of_eq (s := s) (s' := { s with insts := s.insts.filter (fun e => !(e.1 == i)) }) rfl rfl rfl).trans
      (TT.foldl killStep killStep_tt chain _)

theorem killAllInsts_tt (s : State) : TT s (killAllInsts s) := by
  unfold killAllInsts
  exact TT.foldl _ killInst_tt _ _

theorem hostReset_tt (s : State) : TT s (hostReset s) := (killAllInsts_tt s).trans (TT.of_eq rfl rfl rfl)

theorem hostScript_tt (s : State) (p : List (List Instr)) (ps : List Nat) : TT s (hostScript s p ps) := by
  unfold hostScript
  split
  · exact TT.of_eq rfl rfl rfl
  · exact (killAllInsts_tt s).trans (TT.of_eq rfl rfl rfl)

theorem hostCall_tt (s : State) (label : Nat) (args : List V) : TT s (hostCall s label args).1 := by
  rw [hostCall_eq]
  split
  · exact TT.refl s
  · refine ((TT.of_eq (s := s) (s' := callSetup s label args) rfl rfl rfl).trans ((ttAll defaultFuel).sei _ s.nextTid)).trans ?_
    unfold callFinish
    split
    · exact TT.of_eq rfl rfl rfl
    · exact TT.refl _

theorem hostCallV_tt (s : State) (label : Nat) : TT s (hostCallV s label) :=
  (hostCall_tt s label []).trans (TT.of_eq rfl rfl rfl)

theorem deliver_tt (s : State) (t : Nat) : TT s (deliver s t) := by
  unfold deliver
  split
  · exact (ttAll defaultFuel).cwa _ _
  · exact TT.refl s

theorem processEvents_tt : ∀ (fuel : Nat) (s : State), TT s (processEvents fuel s)
  | 0, s => TT.fuel s
  | fuel + 1, s => by
    rw [processEvents_succ]
    split
    · exact TT.refl s
    · split
      · exact TT.refl s
      · rename_i t due rest _ _
        exact ((TT.of_eq (s := s) (s' := { s with events := rest }) rfl rfl rfl).trans (deliver_tt _ _)).trans
          (processEvents_tt fuel _)

/-- after `Frame()` / `SetTime()`: the rest of `ScriptContext::Execute` -/
theorem hostExecute_tt (s : State) : TT (frameSetTime s) (hostExecute s) := by
  rw [hostExecute_eq]
  exact (processEvents_tt _ _).trans ((ttAll defaultFuel).er _)

/-! ### the history of a reachable state -/

structure Hist (s : State) (ops : List TOp) : Prop where
  run : timerRun {} ops = s.timer
  late : AddsLate {} ops

theorem Hist.step {s s' : State} {ops : List TOp} (h : Hist s ops) (hm : s.timer.mtime ≤ s.scaled) (r : TT s s') :
    ∃ ops', Hist s' (ops ++ ops') := by
  obtain ⟨o, hr, hn, ha⟩ := r.run
  refine ⟨o, ?_, ?_⟩
  · rw [timerRun_append, h.run, hr]
  · apply AddsLate.append _ _ _ h.late
    rw [h.run]
    exact addsLate_of o _ s.scaled hn ha hm

/-- **the ghost ledger exists** -/
theorem reachable_timer_history {s : State} (h : Reachable s) : ∃ ops, Hist s ops := by
  induction h with
  | init => exact ⟨[], rfl, trivial⟩
  | @step s0 op hreach _ ih =>
    obtain ⟨ops, hh⟩ := ih
    have hm : s0.timer.mtime ≤ s0.scaled := by
      rw [reachable_mtime hreach, (reachable_scaled hreach).1]; exact Nat.le_refl _
    have hex : ∀ a : State, Hist a ops → a.lastClock ≤ a.clock → a.scaled = a.lastClock →
        ∃ ops', Hist (hostExecute a) ops' := by
      intro a ha h1 h2
      have hf : Hist (frameSetTime a) (ops ++ [.setTime a.clock]) := by
        refine ⟨?_, ?_⟩
        · rw [timerRun_append, ha.run]; rfl
        · exact AddsLate.append _ _ _ ha.late ⟨trivial, trivial⟩
      obtain ⟨o', h'⟩ := hf.step (s' := hostExecute a) (by
        show a.clock ≤ a.scaled + (a.clock - a.lastClock); omega) (hostExecute_tt a)
      exact ⟨_, h'⟩
    cases op with
    | reset => exact ⟨[], rfl, trivial⟩
    | script p ps => obtain ⟨o, h'⟩ := hh.step hm (hostScript_tt s0 p ps); exact ⟨_, h'⟩
    | call l args => obtain ⟨o, h'⟩ := hh.step hm (hostCall_tt s0 l args); exact ⟨_, h'⟩
    | callv l => obtain ⟨o, h'⟩ := hh.step hm (hostCallV_tt s0 l); exact ⟨_, h'⟩
    | advance k => exact ⟨ops, hh.run, hh.late⟩
    | resetDirector => obtain ⟨o, h'⟩ := hh.step hm (hostReset_tt s0); exact ⟨_, h'⟩
    | execute => exact hex s0 hh (reachable_scaled hreach).2 (reachable_scaled hreach).1
    | step k =>
      exact hex { s0 with clock := s0.clock + k } ⟨hh.run, hh.late⟩
        (Nat.le_trans (reachable_scaled hreach).2 (Nat.le_add_right _ _)) (reachable_scaled hreach).1
    | takeOut => exact ⟨ops, hh.run, hh.late⟩

end Morfuse.Sched
