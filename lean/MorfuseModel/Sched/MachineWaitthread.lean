import MorfuseModel.Sched.MachineNoVMBack
import MorfuseModel.Sched.MachineInvTables
/-!
# A `waitthread` caller is released only by the end of the callee

Fixed: a listener `c0` and a thread id `t0 ≥ 100`.  `WR c0 t0 s s'`: under the program side condition `WTSafe s.prog`
(no `local.p0 notify 0`; the object literals of `notify` / `delete` are object ids `< 100`) and `t0 < s.nextTid`:
the program and the fuel flag are kept, `t0` does not get a live VM back, and **if `c0` is registered on channel 0 of `t0`
before, then afterwards it still is, or `t0` has no live VM any more (no record / VM gone / destroyed), or the fuel ran out**.
`wrAll`: every function of the machine satisfies it — nested executions, cascades, wake loops included.  Unconditional in
the state (no invariant); skeleton of `hvAll`.

Why it holds: `c0` leaves entry `(t0, 0)` through
* `Unregister(0)` / `UnregisterAll` on `t0` — reached only from `t0`'s destructor (after `hasVM := false`), the script
  instructions `o notify n` / `delete o` (objects, `o < 100 ≤ t0`) and `local.p0 notify n` (`n ≠ 0` by `WTSafe`);
* `CancelWaiting` of `c0` (its own `Stop()`: destruction, re-timing, `Wait(d)` sent to it, a `waittill_timeout` event):
  `CancelWaitingSources` puts `t0` on the stopped list and the loop after it calls `t0->StoppedNotify()`, which **deletes the
  thread `t0`** — a thread nobody waits for any more deletes itself.  So even `local.p0 wait d` (the `hub` family) ends the
  callee; the side condition does not need to exclude it.
-/
namespace Morfuse.Sched
open State

/-- program side condition of the `waitthread` clause -/
def Instr.wtSafe : Instr → Prop
  | .notifyParent n => n ≠ 0
  | .notify o _ => o < 100
  | .delete o => o < 100
  | _ => True

def WTSafe (p : List (List Instr)) : Prop := ∀ body ∈ p, ∀ ins ∈ body, ins.wtSafe

instance (i : Instr) : Decidable i.wtSafe := by
  cases i <;> unfold Instr.wtSafe <;> infer_instance

instance (p : List (List Instr)) : Decidable (WTSafe p) := by unfold WTSafe; infer_instance

theorem getD_mem_or_default {α : Type} (l : List α) (i : Nat) (d : α) : l.getD i d ∈ l ∨ l.getD i d = d := by
  by_cases h : i < l.length
  · left; rw [List.getD_eq_getElem?_getD, List.getElem?_eq_getElem h]; exact List.getElem_mem h
  · right; rw [List.getD_eq_getElem?_getD, List.getElem?_eq_none (by omega)]; rfl

theorem WTSafe.fetch {p : List (List Instr)} (h : WTSafe p) (l pc : Nat) :
    ((p.getD l []).getD pc (.end_ .none)).wtSafe := by
  rcases getD_mem_or_default (p.getD l []) pc (.end_ .none) with hi | hi
  · rcases getD_mem_or_default p l [] with hb | hb
    · exact h _ hb _ hi
    · rw [hb] at hi; cases hi
  · rw [hi]; trivial

/-- thread `u` has a record with its VM and not destroyed -/
def LiveVM (s : State) (u : Nat) : Prop := ∃ th, thFind s.threads u = some th ∧ th.hasVM = true ∧ th.dead = false

theorem LiveVM.congr {s s' : State} {u : Nat} (h : s'.threads = s.threads) (l : LiveVM s' u) : LiveVM s u := by
  obtain ⟨th, h1, h2, h3⟩ := l
  exact ⟨th, by rw [← h]; exact h1, h2, h3⟩

theorem LiveVM.of_setTh {s : State} {t : Nat} {f : Th → Th} {u : Nat}
    (hf : ∀ x, (f x).hasVM = true → (f x).dead = false → x.hasVM = true ∧ x.dead = false)
    (l : LiveVM (s.setTh t f) u) : LiveVM s u := by
  obtain ⟨th', h, hv, hd⟩ := l
  rw [State.setTh_threads, thFind_map_upd] at h
  split at h
  · rename_i hut; subst hut
    cases hfd : thFind s.threads u with
    | none => rw [hfd] at h; simp at h
    | some th => rw [hfd] at h; simp at h; subst h; exact ⟨th, hfd, hf th hv hd⟩
  · exact ⟨th', h, hv, hd⟩

theorem not_live_of_not_alive {s : State} {u : Nat} (hu : 100 ≤ u) (h : ¬ (s.alive u = true)) : ¬ LiveVM s u := by
  rintro ⟨th, h1, _, h3⟩
  apply h
  unfold State.alive
  have : isThread u = true := by unfold isThread; simpa using hu
  rw [if_pos this, List.any_eq_true]
  exact ⟨(u, th), thFind_some_mem h1, by simp [h3]⟩

theorem not_live_of_noVM {s : State} {u : Nat} (h : ¬ (s.hasVM u = true)) : ¬ LiveVM s u := by
  rintro ⟨th, h1, h2, _⟩
  apply h
  unfold State.hasVM
  rw [State.th?_eq, h1]; exact h2

section
variable (c0 t0 : Nat)

/-- the callee has ended (or the run is out of fuel) -/
def Ended (s : State) : Prop := ¬ LiveVM s t0 ∨ s.outOfFuel = true

structure WR0 (s s' : State) : Prop where
  prog : s'.prog = s.prog
  nt : s.nextTid ≤ s'.nextTid
  lv : LiveVM s' t0 → LiveVM s t0
  oof : s.outOfFuel = true → s'.outOfFuel = true
  core : c0 ∈ Tbl.getD s.notify (t0, 0) → c0 ∈ Tbl.getD s'.notify (t0, 0) ∨ Ended t0 s'

def WR (s s' : State) : Prop := WTSafe s.prog → t0 < s.nextTid → WR0 c0 t0 s s'
end

variable {c0 t0 : Nat}

theorem WR0.gone {a b : State} (r : WR0 c0 t0 a b) (g : Ended t0 a) : Ended t0 b := by
  rcases g with g | g
  · exact Or.inl (fun l => g (r.lv l))
  · exact Or.inr (r.oof g)

theorem WR0.pw {a b : State} (r : WR0 c0 t0 a b) (h : WTSafe a.prog) : WTSafe b.prog := by rw [r.prog]; exact h
theorem WR0.lt {a b : State} (r : WR0 c0 t0 a b) (h : t0 < a.nextTid) : t0 < b.nextTid := Nat.lt_of_lt_of_le h r.nt

theorem WR0.trans {a b c : State} (h1 : WR0 c0 t0 a b) (h2 : WR0 c0 t0 b c) : WR0 c0 t0 a c := by
  refine ⟨h2.prog.trans h1.prog, Nat.le_trans h1.nt h2.nt, fun l => h1.lv (h2.lv l), fun h => h2.oof (h1.oof h), fun hc => ?_⟩
  rcases h1.core hc with h | g
  · exact h2.core h
  · exact Or.inr (h2.gone g)

theorem WR.refl (s : State) : WR c0 t0 s s := fun _ _ => ⟨rfl, Nat.le_refl _, fun l => l, fun h => h, fun h => Or.inl h⟩

theorem WR.trans {a b c : State} (h1 : WR c0 t0 a b) (h2 : WR c0 t0 b c) : WR c0 t0 a c := fun hp hlt =>
  (h1 hp hlt).trans (h2 ((h1 hp hlt).pw hp) ((h1 hp hlt).lt hlt))

/-- a step that keeps threads, `nextTid`, program, fuel flag; the notify table may change as long as `c0` stays -/
theorem WR.step {s s' : State} (h1 : s'.threads = s.threads) (h2 : s'.nextTid = s.nextTid) (h3 : s'.prog = s.prog)
    (h5 : s'.outOfFuel = s.outOfFuel)
    (hn : c0 ∈ Tbl.getD s.notify (t0, 0) → c0 ∈ Tbl.getD s'.notify (t0, 0) ∨ Ended t0 s') : WR c0 t0 s s' := fun _ _ =>
  ⟨h3, by rw [h2]; exact Nat.le_refl _, fun l => l.congr h1, fun h => by rw [h5]; exact h, hn⟩

theorem WR.of_eq {s s' : State} (h1 : s'.threads = s.threads) (h2 : s'.nextTid = s.nextTid) (h3 : s'.prog = s.prog)
    (h4 : s'.notify = s.notify) (h5 : s'.outOfFuel = s.outOfFuel) : WR c0 t0 s s' :=
  WR.step h1 h2 h3 h5 (fun h => Or.inl (by rw [h4]; exact h))

theorem WR.fuel (s : State) : WR c0 t0 s { s with outOfFuel := true } := fun _ _ =>
  ⟨rfl, Nat.le_refl _, fun l => l.congr rfl, fun _ => rfl, fun _ => Or.inr (Or.inr rfl)⟩

theorem WR.setTh (s : State) (t : Nat) (f : Th → Th)
    (hf : ∀ x, (f x).hasVM = true → (f x).dead = false → x.hasVM = true ∧ x.dead = false := by
      intro x h1 h2; first | exact ⟨h1, h2⟩ | cases h2 | cases h1) : WR c0 t0 s (s.setTh t f) := fun _ _ =>
  ⟨rfl, Nat.le_refl _, fun l => l.of_setTh hf, fun h => h, fun h => Or.inl h⟩

theorem WR.filter (s : State) (t : Nat) : WR c0 t0 s { s with threads := s.threads.filter (fun e => !(e.1 == t)) } := fun _ _ => by
  refine ⟨rfl, Nat.le_refl _, fun l => ?_, fun h => h, fun h => Or.inl h⟩
  obtain ⟨th', h, hv, hd⟩ := l
  simp only at h
  rw [thFind_filter_ne] at h
  split at h
  · cases h
  · exact ⟨th', h, hv, hd⟩

theorem WR.append (s s' : State) (r : Th) (h1 : s'.threads = s.threads ++ [(s.nextTid, r)])
    (h2 : s'.nextTid = s.nextTid + 1) (h3 : s'.prog = s.prog) (h4 : s'.notify = s.notify)
    (h5 : s'.outOfFuel = s.outOfFuel) : WR c0 t0 s s' := fun _ hlt => by
  refine ⟨h3, by rw [h2]; exact Nat.le_succ _, fun l => ?_, fun h => by rw [h5]; exact h, fun h => Or.inl (by rw [h4]; exact h)⟩
  obtain ⟨th', h, hv, hd⟩ := l
  rw [h1, thFind_append] at h
  cases hfd : thFind s.threads t0 with
  | some x => rw [hfd] at h; simp at h; subst h; exact ⟨x, hfd, hv, hd⟩
  | none =>
    rw [hfd] at h
    simp only at h
    split at h
    · rename_i hut; omega
    · cases h

theorem WR.removeFromInst (s : State) (t i : Nat) : WR c0 t0 s (removeFromInst s t i) := by
  rw [removeFromInst_frame]; exact WR.of_eq rfl rfl rfl rfl rfl

/-- functions of one / two / three extra arguments that satisfy `Pres` -/
def WR1 (c0 t0 : Nat) (f : State → Nat → State) : Prop := ∀ s a, WR c0 t0 s (f s a)
def WRz (c0 t0 : Nat) (f : State → State) : Prop := ∀ s, WR c0 t0 s (f s)
def WR2 (c0 t0 : Nat) (f : State → Nat → Nat → State) : Prop := ∀ s a b, WR c0 t0 s (f s a b)
def WR3 (c0 t0 : Nat) (f : State → Nat → Nat → Bool → State) : Prop := ∀ s a b c, WR c0 t0 s (f s a b c)

theorem WR.foldl {α : Type} (f : State → α → State) (hf : ∀ s a, WR c0 t0 s (f s a)) :
    ∀ (l : List α) (s : State), WR c0 t0 s (l.foldl f s)
  | [], s => WR.refl s
  | a :: l, s => (hf s a).trans (WR.foldl f hf l (f s a))

theorem stopStep_wr {cw : State → Nat → State} (hcw : WR1 c0 t0 cw) (s : State) (t : Nat) (th : Th) :
    WR c0 t0 s (stopStep cw s t th) := by
  unfold stopStep
  split
  · exact (WR.setTh s t (fun th => { th with ts := .running })).trans (WR.of_eq rfl rfl rfl rfl rfl)
  · split
    · exact (WR.setTh s t _).trans (hcw _ _)
    · exact WR.refl s

theorem notifyDelete_wr (s : State) (t : Nat) : WR c0 t0 s (notifyDelete s t) := by
  unfold notifyDelete
  split
  · exact WR.refl s
  · rename_i th _
    have h1 : WR c0 t0 s (if th.attached = true then removeFromInst (s.setTh t fun th => { th with vm := .destroyed }) t th.inst
        else s.setTh t fun th => { th with vm := .destroyed }) := by
      split
      · exact (WR.setTh s t _).trans (WR.removeFromInst _ _ _)
      · exact WR.setTh s t _
    simp only
    split
    · exact h1.trans (WR.setTh _ _ _)
    · exact h1

theorem finishDelete_wr (s : State) (t : Nat) : WR c0 t0 s (finishDelete s t) := by
  unfold finishDelete
  split
  · exact WR.refl s
  · split
    · exact WR.setTh s t _
    · exact WR.filter s t

theorem cancelEvents_wr (s : State) (t : Nat) : WR c0 t0 s (cancelEvents s t) := WR.of_eq rfl rfl rfl rfl rfl
theorem postEvent_wr (s : State) (t d : Nat) : WR c0 t0 s (postEvent s t d) := WR.of_eq rfl rfl rfl rfl rfl
theorem addTiming_wr (s : State) (t d : Nat) : WR c0 t0 s (addTiming s t d) := WR.of_eq rfl rfl rfl rfl rfl
theorem vmSuspend_wr (s : State) (t : Nat) : WR c0 t0 s (vmSuspend s t) := by
  unfold vmSuspend; exact WR.setTh s t _ (fun x => by split <;> exact fun h1 h2 => ⟨h1, h2⟩)
theorem vmResume_wr (s : State) (t : Nat) : WR c0 t0 s (vmResume s t) := by
  unfold vmResume; exact WR.setTh s t _ (fun x => by split <;> exact fun h1 h2 => ⟨h1, h2⟩)

theorem notifyLoop_wr {sn : State → Nat → State} (hsn : WR1 c0 t0 sn) (s : State) (stopped : List Nat) :
    WR c0 t0 s (notifyLoop sn s stopped) := by
  unfold notifyLoop
  apply WR.foldl
  intro s a
  split
  · exact hsn s a
  · exact WR.refl s

/-- `StoppedNotify` on the callee ends it -/
def SnE (t0 : Nat) (sn : State → Nat → State) : Prop := ∀ s, WTSafe s.prog → t0 < s.nextTid → Ended t0 (sn s t0)

theorem notifyFold_gone {sn : State → Nat → State} (hsn : WR1 c0 t0 sn) (hsnE : SnE t0 sn) (ht0 : 100 ≤ t0) :
    ∀ (L : List Nat) (s : State), WTSafe s.prog → t0 < s.nextTid → t0 ∈ L →
      Ended t0 (L.foldl (fun s src => if s.alive src then sn s src else s) s)
  | [], _, _, _, h => by cases h
  | a :: L, s, hp, hlt, h => by
    simp only [List.foldl_cons]
    have hstep : WR c0 t0 s (if s.alive a then sn s a else s) := by
      split
      · exact hsn s a
      · exact WR.refl s
    have r := hstep hp hlt
    by_cases ha : a = t0
    · have g : Ended t0 (if s.alive a then sn s a else s) := by
        rw [ha]
        split
        · exact hsnE s hp hlt
        · rename_i hal; exact Or.inl (not_live_of_not_alive ht0 hal)
      have rf := (WR.foldl (c0 := c0) (t0 := t0) (fun s src => if s.alive src then sn s src else s) (fun s a => by
        split
        · exact hsn s a
        · exact WR.refl s) L _) (r.pw hp) (r.lt hlt)
      exact rf.gone g
    · have hm : t0 ∈ L := by
        rcases List.mem_cons.1 h with e | e
        · exact absurd e.symm ha
        · exact e
      exact notifyFold_gone hsn hsnE ht0 L _ (r.pw hp) (r.lt hlt) hm

/-- the pattern of `CancelWaiting`: purge the notify table (`s → s1`), something in between (`s1 → s2`), then
    `StoppedNotify` on every stopped source: if the purge removed `c0` from `(t0, 0)`, `t0` is among the stopped -/
theorem purgeThenLoop_wr {sn : State → Nat → State} (hsn : WR1 c0 t0 sn) (hsnE : SnE t0 sn) (ht0 : 100 ≤ t0)
    (s s1 s2 : State) (stopped : List Nat)
    (e1 : s1.threads = s.threads) (e2 : s1.nextTid = s.nextTid) (e3 : s1.prog = s.prog)
    (e5 : s1.outOfFuel = s.outOfFuel)
    (hkeep : c0 ∈ Tbl.getD s.notify (t0, 0) → c0 ∈ Tbl.getD s1.notify (t0, 0) ∨ t0 ∈ stopped)
    (h12 : WR c0 t0 s1 s2) : WR c0 t0 s (notifyLoop sn s2 stopped) := fun hp hlt => by
  have hp1 : WTSafe s1.prog := by rw [e3]; exact hp
  have hlt1 : t0 < s1.nextTid := by rw [e2]; exact hlt
  have r12 := h12 hp1 hlt1
  have rl := notifyLoop_wr hsn s2 stopped (r12.pw hp1) (r12.lt hlt1)
  have r := r12.trans rl
  refine ⟨r.prog.trans e3, by rw [← e2]; exact r.nt, fun l => (r.lv l).congr e1, fun h => r.oof (by rw [e5]; exact h),
    fun hc => ?_⟩
  rcases hkeep hc with h | h
  · exact r.core h
  · right
    unfold notifyLoop
    exact notifyFold_gone hsn hsnE ht0 _ s2 (r12.pw hp1) (r12.lt hlt1) (List.mem_reverse.2 h)

theorem Tbl.purge_keeps (al : Nat → Bool) (T : Tbl) (x name : Nat) (list st : List Nat) (c t n : Nat)
    (h : c ∈ Tbl.getD T (t, n)) :
    c ∈ Tbl.getD (Tbl.purge al T x name list st).1 (t, n) ∨ t ∈ (Tbl.purge al T x name list st).2 := by
  rw [Tbl.purge_getD]
  split
  · rename_i hc
    obtain ⟨hn, hl, ha⟩ := hc
    simp only at hn hl ha
    by_cases hx : c = x
    · right; subst hx; subst hn; exact Tbl.purge_complete al T c n list st t hl ha h
    · left; exact List.mem_filter.2 ⟨h, by simpa using hx⟩
  · exact Or.inl h

theorem Tbl.multiPurge_mono (al : Nat → Bool) (x : Nat) :
    ∀ (keys : List (Nat × List Nat)) (T : Tbl) (st : List Nat), ∀ y ∈ st, y ∈ (Tbl.multiPurge al T x keys st).2
  | [], _, _, _, hy => hy
  | e :: keys, T, st, y, hy => by
    rw [Tbl.multiPurge_cons]
    exact Tbl.multiPurge_mono al x keys _ _ y (Tbl.purge_mono al T x e.1 e.2 st y hy)

theorem Tbl.multiPurge_keeps (al : Nat → Bool) (x : Nat) (c t n : Nat) :
    ∀ (keys : List (Nat × List Nat)) (T : Tbl) (st : List Nat), c ∈ Tbl.getD T (t, n) →
      c ∈ Tbl.getD (Tbl.multiPurge al T x keys st).1 (t, n) ∨ t ∈ (Tbl.multiPurge al T x keys st).2
  | [], _, _, h => Or.inl h
  | e :: keys, T, st, h => by
    rw [Tbl.multiPurge_cons]
    rcases Tbl.purge_keeps al T x e.1 e.2 st c t n h with h1 | h1
    · exact Tbl.multiPurge_keeps al x c t n keys _ _ h1
    · exact Or.inr (Tbl.multiPurge_mono al x keys _ _ t h1)

theorem cwaZero_wr {swf : State → Nat → Nat → Bool → State} {sn : State → Nat → State}
    (hswf : WR3 c0 t0 swf) (hsn : WR1 c0 t0 sn) (hsnE : SnE t0 sn) (ht0 : 100 ≤ t0) (s : State) (w : Nat) :
    WR c0 t0 s (cwaZero swf sn s w) := by
  unfold cwaZero
  split
  · exact WR.refl s
  · rename_i list _
    simp only [cancelWaitingSources_eq_purge]
    refine purgeThenLoop_wr hsn hsnE ht0 s
      { s with notify := (Tbl.purge s.alive s.notify w 0 list []).1, waitFor := Tbl.removeKey s.waitFor (w, 0) } _ _
      rfl rfl rfl rfl (fun hc => Tbl.purge_keeps _ _ _ _ _ _ _ _ _ hc) ?_
    split
    · exact hswf _ _ _ _
    · exact WR.refl _

theorem cwaRest_wr {swf : State → Nat → Nat → Bool → State} {sn : State → Nat → State}
    (hswf : WR3 c0 t0 swf) (hsn : WR1 c0 t0 sn) (hsnE : SnE t0 sn) (ht0 : 100 ≤ t0) (s : State) (w : Nat) :
    WR c0 t0 s (cwaRest swf sn s w) := by
  unfold cwaRest
  split
  · exact WR.refl s
  · simp only [cwaSources_frame]
    exact purgeThenLoop_wr hsn hsnE ht0 s
      { s with notify := (Tbl.multiPurge s.alive s.notify w (Tbl.keysOf s.waitFor w) []).1, waitFor := Tbl.removeOwner s.waitFor w } _ _
      rfl rfl rfl rfl (fun hc => Tbl.multiPurge_keeps _ _ _ _ _ _ _ _ hc) (hswf _ _ _ _)

theorem startTiming_wr {stp : State → Nat → State} (h : WR1 c0 t0 stp) (s : State) (t : Nat) :
    WR c0 t0 s (startTiming stp s t) := by
  unfold startTiming
  split
  · exact h s t
  · exact ((h s t).trans (WR.setTh _ _ _)).trans (addTiming_wr _ _ _)

theorem endOnLoop_wr {dt : State → Nat → State} (h : WR1 c0 t0 dt) (s : State) (src name : Nat)
    (listeners : List Nat) : WR c0 t0 s (endOnLoop dt s src name listeners).1 := by
  unfold endOnLoop
  generalize listeners.reverse = L
  suffices hs : ∀ (L : List Nat) (acc : State × Bool), WR c0 t0 s acc.1 →
      WR c0 t0 s (L.foldl (fun (acc : State × Bool) l =>
        if acc.1.alive l then
          if l == src && (name == nameRemove || name == nameDelete || acc.2) then acc
          else (dt acc.1 l, acc.2 || (l == src))
        else acc) acc).1 from hs L (s, false) (WR.refl s)
  intro L
  induction L with
  | nil => intro acc h; exact h
  | cons l L ih =>
    intro acc hacc
    simp only [List.foldl_cons]
    apply ih
    split
    · split
      · exact hacc
      · exact hacc.trans (h _ _)
    · exact hacc

theorem unregEndOn_wr {dt : State → Nat → State} (h : WR1 c0 t0 dt) (s : State) (src name : Nat) :
    WR c0 t0 s (unregEndOn dt s src name).1 := by
  unfold unregEndOn
  split
  · exact WR.refl s
  · split
    · exact WR.refl s
    · refine WR.trans ?_ (endOnLoop_wr h _ _ _ _)
      exact WR.of_eq rfl rfl rfl rfl rfl

theorem wakeLoop_wr {swf : State → Nat → Nat → Bool → State} (h : WR3 c0 t0 swf) (s : State) (name : Nat)
    (stopped : List Nat) : WR c0 t0 s (wakeLoop swf s name stopped) := by
  unfold wakeLoop
  apply WR.foldl
  intro s a
  split
  · exact h _ _ _ _
  · exact WR.refl s

theorem unregNotify_wr {swf : State → Nat → Nat → Bool → State} {sn : State → Nat → State}
    (hswf : WR3 c0 t0 swf) (hsn : WR1 c0 t0 sn) (s : State) (src name : Nat)
    (hpre : src = t0 ∧ name = 0 → Ended t0 s) :
    WR c0 t0 s (unregNotify swf sn s src name) := by
  unfold unregNotify
  split
  · exact WR.refl s
  · split
    · exact WR.refl s
    · simp only [unregisterTargets_eq_purge]
      refine WR.trans ?_ (wakeLoop_wr hswf _ _ _)
      have hk : ∀ T : Tbl, c0 ∈ Tbl.getD s.notify (t0, 0) →
          c0 ∈ Tbl.getD (Tbl.removeKey s.notify (src, name)) (t0, 0) ∨
            Ended t0 { s with notify := Tbl.removeKey s.notify (src, name), waitFor := T } := by
        intro T hc
        rw [Tbl.getD_removeKey]
        by_cases hkk : (t0, 0) = (src, name)
        · right
          simp only [Prod.mk.injEq] at hkk
          exact hpre ⟨hkk.1.symm, hkk.2.symm⟩
        · left; rw [if_neg hkk]; exact hc
      split
      · refine WR.trans ?_ (hsn _ _)
        exact WR.step rfl rfl rfl rfl (hk _)
      · exact WR.step rfl rfl rfl rfl (hk _)

theorem killLoop_wr {swf : State → Nat → Nat → Bool → State} (h : WR3 c0 t0 swf) (s : State)
    (stopped : List (Nat × Nat)) : WR c0 t0 s (killLoop swf s stopped) := by
  unfold killLoop
  apply WR.foldl
  intro s a
  split
  · exact h _ _ _ _
  · exact WR.refl s

theorem uaRest_wr {swf : State → Nat → Nat → Bool → State} {sn : State → Nat → State}
    (hswf : WR3 c0 t0 swf) (hsn : WR1 c0 t0 sn) (s : State) (src : Nat) (hpre : src = t0 → Ended t0 s) :
    WR c0 t0 s (uaRest swf sn s src) := by
  unfold uaRest
  split
  · exact WR.refl s
  · simp only
    refine WR.trans ?_ (killLoop_wr hswf _ _)
    refine WR.trans ?_ (hsn _ _)
    rw [uaTargets_frame]
    refine WR.step rfl rfl rfl rfl (fun hc => ?_)
    simp only
    rw [Tbl.getD_removeOwner]
    by_cases hkk : t0 = src
    · right; exact hpre hkk.symm
    · left; rw [if_neg hkk]; exact hc

theorem regWait_wr {stp : State → Nat → State} (h : WR1 c0 t0 stp) (s : State) (o n c : Nat) :
    WR c0 t0 s (regWait stp s o n c) := by
  unfold regWait
  simp only
  have hpush : WR c0 t0 s { s with notify := Tbl.push s.notify (o, n) c } :=
    WR.step rfl rfl rfl rfl (fun hc => Or.inl (by
      show c0 ∈ Tbl.getD (Tbl.push s.notify (o, n) c) (t0, 0)
      rw [Tbl.getD_push]
      split
      · rename_i hk; rw [← hk]; exact List.mem_append_left _ hc
      · exact hc))
  split
  · refine WR.trans (b := stp { s with notify := Tbl.push s.notify (o, n) c } c) ?_ ?_
    · exact hpush.trans (h _ _)
    · exact ((WR.setTh _ c (fun th => { th with ts := .waiting })).trans (vmSuspend_wr _ c)).trans (WR.of_eq rfl rfl rfl rfl rfl)
  · exact hpush.trans (WR.of_eq rfl rfl rfl rfl rfl)

theorem waitOn_wr {stp : State → Nat → State} (h : WR1 c0 t0 stp) (s : State) (p ms : Nat) :
    WR c0 t0 s (waitOn stp s p ms) := by
  unfold waitOn
  have a1 := h s p
  have a2 : WR c0 t0 (stp s p) ((stp s p).setTh p fun th => { th with ts := .timing }) := WR.setTh (stp s p) p _
  have a3 : WR c0 t0 ((stp s p).setTh p fun th => { th with ts := .timing })
      (addTiming ((stp s p).setTh p fun th => { th with ts := .timing }) p ms) := WR.of_eq rfl rfl rfl rfl rfl
  exact ((a1.trans a2).trans a3).trans (vmSuspend_wr _ p)

theorem waitOnGuarded_wr {stp : State → Nat → State} (h : WR1 c0 t0 stp) (s : State) (p ms : Nat) :
    WR c0 t0 s (waitOnGuarded stp s p ms) := by
  unfold waitOnGuarded
  split
  · exact h s p
  · exact waitOn_wr h s p ms

theorem setRet_wr (s : State) (c : Nat) (r : Ret) : WR c0 t0 s (s.setRet c r) := WR.of_eq rfl rfl rfl rfl rfl

theorem endResult_wr (s : State) (th : Th) (ev : EndV) : WR c0 t0 s (endResult s th ev) := by
  unfold endResult
  simp only
  split
  · exact WR.refl s
  · split <;> first | exact setRet_wr _ _ _ | exact WR.refl s

theorem restoreCur_wr (s : State) (c : Option Nat) : WR c0 t0 s (restoreCur s c) := WR.of_eq rfl rfl rfl rfl rfl

theorem execIfAlive_wr {ev : State → Nat → State} (h : WR1 c0 t0 ev) (s : State) (t : Nat) :
    WR c0 t0 s (execIfAlive ev s t) := by
  unfold execIfAlive
  split
  · exact h s t
  · exact WR.refl s

theorem vmEpilogue_wr (s : State) (t : Nat) : WR c0 t0 s (vmEpilogue s t) := by
  unfold vmEpilogue
  split
  · exact WR.refl s
  · split
    · exact WR.setTh _ _ _
    · exact WR.filter s t
    · exact WR.refl s

theorem vmPrologue_wr (s : State) (t : Nat) : WR c0 t0 s (vmPrologue s t) :=
  (WR.setTh s t (fun th => { th with vm := .running })).trans (WR.of_eq rfl rfl rfl rfl rfl)

/-- the statement for one fuel level -/
structure WRAll (c0 t0 : Nat) (fuel : Nat) : Prop where
  dt : WR1 c0 t0 (deleteThread fuel)
  dtE : SnE t0 (deleteThread fuel)
  sn : WR1 c0 t0 (stoppedNotify fuel)
  snE : SnE t0 (stoppedNotify fuel)
  stp : WR1 c0 t0 (stop fuel)
  cwa : WR1 c0 t0 (cancelWaitingAll fuel)
  swf : WR3 c0 t0 (stoppedWaitFor fuel)
  ur : ∀ s src name, (src = t0 ∧ name = 0 → Ended t0 s) → WR c0 t0 s (unregister fuel s src name)
  ua : ∀ s src, (src = t0 → Ended t0 s) → WR c0 t0 s (unregisterAll fuel s src)
  sei : WR1 c0 t0 (scriptExecuteInternal fuel)
  er : WRz c0 t0 (executeRunning fuel)
  dr : WRz c0 t0 (drain fuel)
  ev : WR1 c0 t0 (execVM fuel)
  pr : WR1 c0 t0 (process fuel)
  ex : ∀ s t th ins, ins.wtSafe → WR c0 t0 s (exec fuel s t th ins)

theorem wrAll_zero : WRAll c0 t0 0 where
  dt := fun s t => by rw [deleteThread_zero]; exact WR.fuel s
  dtE := fun s _ _ => by rw [deleteThread_zero]; exact Or.inr rfl
  sn := fun s t => by rw [stoppedNotify_zero]; exact WR.fuel s
  snE := fun s _ _ => by rw [stoppedNotify_zero]; exact Or.inr rfl
  stp := fun s t => by rw [stop_zero]; exact WR.fuel s
  cwa := fun s t => by rw [cancelWaitingAll_zero]; exact WR.fuel s
  swf := fun s t n d => by rw [stoppedWaitFor_zero]; exact WR.fuel s
  ur := fun s t n _ => by rw [unregister_zero]; exact WR.fuel s
  ua := fun s t _ => by rw [unregisterAll_zero]; exact WR.fuel s
  sei := fun s t => by rw [scriptExecuteInternal_zero]; exact WR.fuel s
  er := fun s => by rw [executeRunning_zero]; exact WR.fuel s
  dr := fun s => by rw [drain_zero]; exact WR.fuel s
  ev := fun s t => by rw [execVM_zero]; exact WR.fuel s
  pr := fun s t => by rw [process_zero]; exact WR.fuel s
  ex := fun s t th ins _ => by rw [exec_zero]; exact WR.fuel s

theorem exec_wr_succ {fuel : Nat} (ih : WRAll c0 t0 fuel) (ht0 : 100 ≤ t0) (s : State) (t : Nat) (th : Th) (ins : Instr)
    (hins : ins.wtSafe) : WR c0 t0 s (exec (fuel + 1) s t th ins) := by
  cases ins with
  | mark k => rw [exec_mark]; exact WR.of_eq rfl rfl rfl rfl rfl
  | pparam i => rw [exec_pparam]; exact WR.of_eq rfl rfl rfl rfl rfl
  | wait ms => rw [exec_wait]; exact waitOn_wr ih.stp _ _ _
  | waittill o names =>
    rw [exec_waittill]
    split
    · exact WR.refl s
    · split
      · exact WR.refl s
      · exact WR.foldl _ (fun s n => regWait_wr ih.stp _ _ _ _) _ _
  | waittillTimeout o n ms =>
    rw [exec_waittillTimeout]
    split
    · exact WR.refl s
    · split
      · exact WR.refl s
      · exact (regWait_wr ih.stp _ _ _ _).trans (postEvent_wr _ _ _)
  | notify o n =>
    rw [exec_notify]
    split
    · exact WR.refl s
    · exact ih.ur _ _ _ (fun h => by have : o < 100 := hins; omega)
  | endon o n =>
    rw [exec_endon]
    split
    · exact WR.refl s
    · split
      · exact WR.refl s
      · exact WR.of_eq rfl rfl rfl rfl rfl
  | delete o =>
    rw [exec_delete]
    split
    · exact WR.refl s
    · refine WR.trans (b := cancelWaitingAll fuel (unregisterAll fuel (unregister fuel (unregister fuel s o nameDelete) o nameRemove) o) o) ?_ ?_
      · have ho : o < 100 := hins
        exact (((ih.ur _ _ _ (fun h => by omega)).trans (ih.ur _ _ _ (fun h => by omega))).trans
          (ih.ua _ _ (fun h => by omega))).trans (ih.cwa _ _)
      · exact WR.of_eq rfl rfl rfl rfl rfl
  | thread l =>
    rw [exec_thread]
    split
    · exact WR.refl s
    · refine WR.trans ?_ (ih.sei _ _)
      exact WR.append s (spawnSame s t th l) _ rfl rfl rfl rfl rfl
  | waitthread l =>
    rw [exec_waitthread]
    split
    · exact WR.refl s
    · split
      · refine WR.trans ?_ (ih.sei _ _)
        exact WR.append s (spawnNew s t l) _ rfl rfl rfl rfl rfl
      · refine WR.trans ?_ (ih.sei _ _)
        refine WR.trans ?_ (regWait_wr ih.stp _ _ _ _)
        exact WR.append s (spawnNew s t l) _ rfl rfl rfl rfl rfl
  | pause => rw [exec_pause]; exact (ih.stp _ _).trans (vmSuspend_wr _ _)
  | waitParent ms =>
    rw [exec_waitParent]
    split
    · exact WR.refl s
    · exact waitOnGuarded_wr ih.stp _ _ _
  | waittillParent names =>
    rw [exec_waittillParent]
    split
    · exact WR.refl s
    · split
      · exact WR.refl s
      · exact WR.foldl _ (fun s n => regWait_wr ih.stp _ _ _ _) _ _
  | notifyParent n =>
    rw [exec_notifyParent]
    split
    · exact WR.refl s
    · exact ih.ur _ _ _ (fun h => absurd h.2 hins)
  | end_ ev =>
    rw [exec_end]
    exact ((endResult_wr _ _ _).trans (WR.setTh _ _ _)).trans (ih.dt _ _)
  | spawn o =>
    rw [exec_spawn]
    split
    · exact WR.refl s
    · exact WR.of_eq rfl rfl rfl rfl rfl

theorem WR.trans_gone {a b c : State} {P : Prop} (hpre : P → Ended t0 a) (h1 : WR c0 t0 a b)
    (h2 : (P → Ended t0 b) → WR c0 t0 b c) : WR c0 t0 a c := fun hp hlt =>
  (WR.trans h1 (h2 (fun p => (h1 hp hlt).gone (hpre p)))) hp hlt

theorem not_live_setTh_noVM (s : State) (t : Nat) :
    ¬ LiveVM (s.setTh t (fun th => { th with hasVM := false })) t := by
  rintro ⟨th', h, hv, _⟩
  rw [State.setTh_threads, thFind_map_upd] at h
  split at h
  · cases hfd : thFind s.threads t with
    | none => rw [hfd] at h; simp at h
    | some th => rw [hfd] at h; simp at h; subst h; cases hv
  · rename_i hne; exact hne rfl

theorem not_live_of_th_none {s : State} {u : Nat} (h : s.th? u = none) : ¬ LiveVM s u := by
  rintro ⟨th, h1, _, _⟩
  rw [State.th?_eq, h1] at h; cases h

theorem not_live_of_th_noVM {s : State} {u : Nat} {th : Th} (h : s.th? u = some th) (hv : ¬ (th.hasVM = true)) :
    ¬ LiveVM s u := by
  rintro ⟨th', h1, h2, _⟩
  rw [State.th?_eq, h1] at h
  cases h; exact hv h2

/-- `~ScriptThread` after `m_ScriptVM = nullptr` -/
theorem deleteChain_wr {fuel : Nat} (ih : WRAll c0 t0 fuel) (s : State) (t : Nat) (th : Th) :
    WR c0 t0 (s.setTh t (fun th => { th with hasVM := false }))
      (finishDelete (cancelWaitingAll fuel (unregisterAll fuel (unregister fuel (unregister fuel
          (cancelEvents (notifyDelete (stopStep (cancelWaitingAll fuel)
            (s.setTh t (fun th => { th with hasVM := false })) t th) t) t)
          t nameDelete) t nameRemove) t) t) t) := by
  have g0 : t = t0 → Ended t0 (s.setTh t (fun th => { th with hasVM := false })) := by
    intro h; subst h; exact Or.inl (not_live_setTh_noVM s t)
  have l1 := ((stopStep_wr (c0 := c0) (t0 := t0) ih.cwa (s.setTh t (fun th => { th with hasVM := false })) t th).trans
    (notifyDelete_wr _ t)).trans (cancelEvents_wr _ t)
  have l2 := (l1.trans (ih.ur _ t nameDelete (fun h => by cases h.2))).trans (ih.ur _ t nameRemove (fun h => by cases h.2))
  exact WR.trans_gone g0 l2 (fun g => ((ih.ua _ t g).trans (ih.cwa _ t)).trans (finishDelete_wr _ t))

theorem wrAll_succ {fuel : Nat} (ih : WRAll c0 t0 fuel) (ht0 : 100 ≤ t0) : WRAll c0 t0 (fuel + 1) where
  dt := fun s t => by
    rw [deleteThread_succ]
    split
    · exact WR.refl s
    · rename_i th _
      split
      · exact WR.refl s
      · exact (WR.setTh s t (fun th => { th with hasVM := false }) (fun _ h => by cases h)).trans (deleteChain_wr ih s t th)
  dtE := fun s hp hlt => by
    rw [deleteThread_succ]
    split
    · rename_i h; exact Or.inl (not_live_of_th_none h)
    · rename_i th h
      split
      · rename_i hv; exact Or.inl (not_live_of_th_noVM h (by simpa using hv))
      · exact (deleteChain_wr (c0 := c0) ih s t0 th hp hlt).gone (Or.inl (not_live_setTh_noVM s t0))
  sn := fun s l => by
    rw [stoppedNotify_succ]
    split
    · split
      · exact ih.dt _ _
      · exact WR.refl s
    · exact WR.refl s
  snE := fun s hp hlt => by
    rw [stoppedNotify_succ]
    split
    · split
      · exact ih.dtE s hp hlt
      · rename_i h; exact Or.inl (not_live_of_noVM h)
    · rename_i h; exact absurd (by unfold isThread; simpa using ht0) h
  stp := fun s t => by
    rw [stop_succ]
    split
    · exact WR.refl s
    · exact stopStep_wr ih.cwa _ _ _
  cwa := fun s w => by
    rw [cancelWaitingAll_succ]
    exact (cwaZero_wr ih.swf ih.sn ih.snE ht0 _ _).trans (cwaRest_wr ih.swf ih.sn ih.snE ht0 _ _)
  swf := fun s t name d => by
    rw [stoppedWaitFor_succ]
    split
    · exact WR.refl s
    · split
      · exact WR.refl s
      · split
        · exact WR.refl s
        · split
          · exact ih.dt _ _
          · split
            · split
              · split
                · exact (cancelEvents_wr _ _).trans (ih.sei _ _)
                · exact (cancelEvents_wr _ _).trans (vmResume_wr _ _)
              · exact (cancelEvents_wr _ _).trans (startTiming_wr ih.stp _ _)
            · exact cancelEvents_wr _ _
  ur := fun s src name hpre => by
    rw [unregister_succ]
    split
    · exact unregEndOn_wr ih.dt _ _ _
    · exact WR.trans_gone hpre (unregEndOn_wr ih.dt _ _ _) (fun g => unregNotify_wr ih.swf ih.sn _ _ _ g)
  ua := fun s src hpre => by
    rw [unregisterAll_succ]
    exact WR.trans_gone hpre ((ih.ur s src 0 (fun h => hpre h.1)).trans
        (WR.of_eq (s' := { (unregister fuel s src 0) with endOn := Tbl.removeOwner (unregister fuel s src 0).endOn src }) rfl rfl rfl rfl rfl))
      (fun g => uaRest_wr ih.swf ih.sn _ _ g)
  sei := fun s t => by
    rw [scriptExecuteInternal_succ]
    refine WR.trans ?_ (ih.er _)
    refine WR.trans ?_ (restoreCur_wr _ _)
    refine WR.trans ?_ (execIfAlive_wr ih.ev _ _)
    refine WR.trans ?_ (ih.stp _ _)
    exact WR.of_eq rfl rfl rfl rfl rfl
  er := fun s => by
    rw [executeRunning_succ]
    split
    · exact WR.refl s
    · split
      · exact WR.refl s
      · exact ih.dr _
  dr := fun s => by
    rw [drain_succ]
    split
    · exact WR.of_eq rfl rfl rfl rfl rfl
    · refine WR.trans ?_ (ih.dr _)
      refine WR.trans ?_ (ih.ev _ _)
      exact (WR.of_eq (s := s) (s' := { s with timer := _, cur := some _ }) rfl rfl rfl rfl rfl).trans (WR.setTh _ _ (fun th => { th with ts := .running }))
  ev := fun s t => by
    rw [execVM_succ]
    refine WR.trans ?_ (vmEpilogue_wr _ _)
    refine WR.trans (b := process fuel (vmPrologue s t) t) ?_ (WR.of_eq rfl rfl rfl rfl rfl)
    exact (vmPrologue_wr s t).trans (ih.pr _ _)
  pr := fun s t => by
    rw [process_succ]
    split
    · exact WR.refl s
    · split
      · exact WR.refl s
      · intro hp hlt
        exact (((WR.setTh s t _).trans (ih.ex _ _ _ _ (hp.fetch _ _))).trans (ih.pr _ _)) hp hlt
  ex := exec_wr_succ ih ht0

theorem wrAll (ht0 : 100 ≤ t0) : ∀ fuel, WRAll c0 t0 fuel
  | 0 => wrAll_zero
  | fuel + 1 => wrAll_succ (wrAll ht0 fuel) ht0

end Morfuse.Sched
