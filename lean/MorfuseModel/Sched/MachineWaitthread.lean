import MorfuseModel.Sched.MachineNoVMBack
import MorfuseModel.Sched.MachineInvTables
/-!
# A `waitthread` caller is released only by the end of the callee

Fixed: a listener `c0` and a thread id `t0 ≥ 100`.  `WTR c0 t0 s s'`: under the program side condition `WTSafe s.prog`
(no `local.p0 notify 0`; the object literals of `notify` / `delete` are object ids `< 100`) and `t0 < s.nextTid`:
the program and the fuel flag are kept, `t0` does not get a live VM back, and **if `c0` is registered on channel 0 of `t0`
before, then afterwards it still is, or `t0` has no live VM any more (no record / VM gone / destroyed), or the fuel ran out**.
`wtrAll`: every function of the machine satisfies it — nested executions, cascades, wake loops included.  Unconditional in
the state (no invariant); skeleton of `hvAll`.

Why it holds: `c0` leaves entry `(t0, 0)` through
* `Unregister(0)` / `UnregisterAll` on `t0` — reached only from `t0`'s destructor (after `hasVM := false`), the script
  instructions `o notify n` / `delete o` (objects, `o < 100 ≤ t0`) and `local.p0 notify n` (`n ≠ 0` by `WTSafe`);
* `CancelWaiting` of `c0` (its own `Stop()`: destruction, re-timing, `Wait(d)` sent to it, a `waittill_timeout` event):
  `CancelWaitingSources` puts `t0` on the stopped list and the loop after it calls `t0->StoppedNotify()`, which **deletes the
  thread `t0`** — a thread nobody waits for any more deletes itself.  So even `local.p0 wait d` (the `hub` family) ends the
  callee; the side condition does not need to exclude it.
-/
namespace Morfuse.Sched
open State

/-- program side condition of the `waitthread` clause -/
def Instr.wtSafe : Instr → Prop
  | .notifyParent n => n ≠ 0
  | .notify o _ => o < 100
  | .delete o => o < 100
  | _ => True

def WTSafe (p : List (List Instr)) : Prop := ∀ body ∈ p, ∀ ins ∈ body, ins.wtSafe

instance (i : Instr) : Decidable i.wtSafe := by
  cases i <;> unfold Instr.wtSafe <;> infer_instance

instance (p : List (List Instr)) : Decidable (WTSafe p) := by unfold WTSafe; infer_instance

theorem getD_mem_or_default {α : Type} (l : List α) (i : Nat) (d : α) : l.getD i d ∈ l ∨ l.getD i d = d := by
  by_cases h : i < l.length
  · left; rw [List.getD_eq_getElem?_getD, List.getElem?_eq_getElem h]; exact List.getElem_mem h
  · right; rw [List.getD_eq_getElem?_getD, List.getElem?_eq_none (by omega)]; rfl

theorem WTSafe.fetch {p : List (List Instr)} (h : WTSafe p) (l pc : Nat) :
    ((p.getD l []).getD pc (.end_ .none)).wtSafe := by
  rcases getD_mem_or_default (p.getD l []) pc (.end_ .none) with hi | hi
  · rcases getD_mem_or_default p l [] with hb | hb
    · exact h _ hb _ hi
    · rw [hb] at hi; cases hi
  · rw [hi]; trivial

/-- thread `u` has a record with its VM and not destroyed -/
def LiveVM (s : State) (u : Nat) : Prop := ∃ th, thFind s.threads u = some th ∧ th.hasVM = true ∧ th.dead = false

theorem LiveVM.congr {s s' : State} {u : Nat} (h : s'.threads = s.threads) (l : LiveVM s' u) : LiveVM s u := by
  obtain ⟨th, h1, h2, h3⟩ := l
  exact ⟨th, by rw [← h]; exact h1, h2, h3⟩

theorem LiveVM.of_setTh {s : State} {t : Nat} {f : Th → Th} {u : Nat}
    (hf : ∀ x, (f x).hasVM = true → (f x).dead = false → x.hasVM = true ∧ x.dead = false)
    (l : LiveVM (s.setTh t f) u) : LiveVM s u := by
  obtain ⟨th', h, hv, hd⟩ := l
  rw [State.setTh_threads, thFind_map_upd] at h
  split at h
  · rename_i hut; subst hut
    cases hfd : thFind s.threads u with
    | none => rw [hfd] at h; simp at h
    | some th => rw [hfd] at h; simp at h; subst h; exact ⟨th, hfd, hf th hv hd⟩
  · exact ⟨th', h, hv, hd⟩

theorem not_live_of_not_alive {s : State} {u : Nat} (hu : 100 ≤ u) (h : ¬ (s.alive u = true)) : ¬ LiveVM s u := by
  rintro ⟨th, h1, _, h3⟩
  apply h
  unfold State.alive
  have : isThread u = true := by unfold isThread; simpa using hu
  rw [if_pos this, List.any_eq_true]
  exact ⟨(u, th), thFind_some_mem h1, by simp [h3]⟩

theorem not_live_of_noVM {s : State} {u : Nat} (h : ¬ (s.hasVM u = true)) : ¬ LiveVM s u := by
  rintro ⟨th, h1, h2, _⟩
  apply h
  unfold State.hasVM
  rw [State.th?_eq, h1]; exact h2

section
variable (c0 t0 : Nat)

/-- the callee has ended (or the run is out of fuel) -/
def Ended (s : State) : Prop := ¬ LiveVM s t0 ∨ s.outOfFuel = true

structure WTR0 (s s' : State) : Prop where
  prog : s'.prog = s.prog
  nt : s.nextTid ≤ s'.nextTid
  lv : LiveVM s' t0 → LiveVM s t0
  oof : s.outOfFuel = true → s'.outOfFuel = true
  core : c0 ∈ Tbl.getD s.notify (t0, 0) → c0 ∈ Tbl.getD s'.notify (t0, 0) ∨ Ended t0 s'

def WTR (s s' : State) : Prop := WTSafe s.prog → t0 < s.nextTid → WTR0 c0 t0 s s'
end

variable {c0 t0 : Nat}

theorem WTR0.gone {a b : State} (r : WTR0 c0 t0 a b) (g : Ended t0 a) : Ended t0 b := by
  rcases g with g | g
  · exact Or.inl (fun l => g (r.lv l))
  · exact Or.inr (r.oof g)

theorem WTR0.pw {a b : State} (r : WTR0 c0 t0 a b) (h : WTSafe a.prog) : WTSafe b.prog := by rw [r.prog]; exact h
theorem WTR0.lt {a b : State} (r : WTR0 c0 t0 a b) (h : t0 < a.nextTid) : t0 < b.nextTid := Nat.lt_of_lt_of_le h r.nt

theorem WTR0.trans {a b c : State} (h1 : WTR0 c0 t0 a b) (h2 : WTR0 c0 t0 b c) : WTR0 c0 t0 a c := by
  refine ⟨h2.prog.trans h1.prog, Nat.le_trans h1.nt h2.nt, fun l => h1.lv (h2.lv l), fun h => h2.oof (h1.oof h), fun hc => ?_⟩
  rcases h1.core hc with h | g
  · exact h2.core h
  · exact Or.inr (h2.gone g)

theorem WTR.refl (s : State) : WTR c0 t0 s s := fun _ _ => ⟨rfl, Nat.le_refl _, fun l => l, fun h => h, fun h => Or.inl h⟩

theorem WTR.trans {a b c : State} (h1 : WTR c0 t0 a b) (h2 : WTR c0 t0 b c) : WTR c0 t0 a c := fun hp hlt =>
  (h1 hp hlt).trans (h2 ((h1 hp hlt).pw hp) ((h1 hp hlt).lt hlt))

/-- a step that keeps threads, `nextTid`, program, fuel flag; the notify table may change as long as `c0` stays -/
theorem WTR.step {s s' : State} (h1 : s'.threads = s.threads) (h2 : s'.nextTid = s.nextTid) (h3 : s'.prog = s.prog)
    (h5 : s'.outOfFuel = s.outOfFuel)
    (hn : c0 ∈ Tbl.getD s.notify (t0, 0) → c0 ∈ Tbl.getD s'.notify (t0, 0) ∨ Ended t0 s') : WTR c0 t0 s s' := fun _ _ =>
  ⟨h3, by rw [h2]; exact Nat.le_refl _, fun l => l.congr h1, fun h => by rw [h5]; exact h, hn⟩

theorem WTR.of_eq {s s' : State} (h1 : s'.threads = s.threads) (h2 : s'.nextTid = s.nextTid) (h3 : s'.prog = s.prog)
    (h4 : s'.notify = s.notify) (h5 : s'.outOfFuel = s.outOfFuel) : WTR c0 t0 s s' :=
  WTR.step h1 h2 h3 h5 (fun h => Or.inl (by rw [h4]; exact h))

theorem WTR.fuel (s : State) : WTR c0 t0 s { s with outOfFuel := true } := fun _ _ =>
  ⟨rfl, Nat.le_refl _, fun l => l.congr rfl, fun _ => rfl, fun _ => Or.inr (Or.inr rfl)⟩

theorem WTR.setTh (s : State) (t : Nat) (f : Th → Th)
    (hf : ∀ x, (f x).hasVM = true → (f x).dead = false → x.hasVM = true ∧ x.dead = false := by
      intro x h1 h2; first | exact ⟨h1, h2⟩ | cases h2 | cases h1) : WTR c0 t0 s (s.setTh t f) := fun _ _ =>
  ⟨rfl, Nat.le_refl _, fun l => l.of_setTh hf, fun h => h, fun h => Or.inl h⟩

theorem WTR.filter (s : State) (t : Nat) : WTR c0 t0 s { s with threads := s.threads.filter (fun e => !(e.1 == t)) } := fun _ _ => by
  refine ⟨rfl, Nat.le_refl _, fun l => ?_, fun h => h, fun h => Or.inl h⟩
  obtain ⟨th', h, hv, hd⟩ := l
  simp only at h
  rw [thFind_filter_ne] at h
  split at h
  · cases h
  · exact ⟨th', h, hv, hd⟩

theorem WTR.append (s s' : State) (r : Th) (h1 : s'.threads = s.threads ++ [(s.nextTid, r)])
    (h2 : s'.nextTid = s.nextTid + 1) (h3 : s'.prog = s.prog) (h4 : s'.notify = s.notify)
    (h5 : s'.outOfFuel = s.outOfFuel) : WTR c0 t0 s s' := fun _ hlt => by
  refine ⟨h3, by rw [h2]; exact Nat.le_succ _, fun l => ?_, fun h => by rw [h5]; exact h, fun h => Or.inl (by rw [h4]; exact h)⟩
  obtain ⟨th', h, hv, hd⟩ := l
  rw [h1, thFind_append] at h
  cases hfd : thFind s.threads t0 with
  | some x => rw [hfd] at h; simp at h; subst h; exact ⟨x, hfd, hv, hd⟩
  | none =>
    rw [hfd] at h
    simp only at h
    split at h
    · rename_i hut; omega
    · cases h

theorem WTR.removeFromInst (s : State) (t i : Nat) : WTR c0 t0 s (removeFromInst s t i) := by
  rw [removeFromInst_frame]; exact WTR.of_eq rfl rfl rfl rfl rfl

/-- functions of one / two / three extra arguments that satisfy `Pres` -/
def WTR1 (c0 t0 : Nat) (f : State → Nat → State) : Prop := ∀ s a, WTR c0 t0 s (f s a)
def WTRz (c0 t0 : Nat) (f : State → State) : Prop := ∀ s, WTR c0 t0 s (f s)
def WTR2 (c0 t0 : Nat) (f : State → Nat → Nat → State) : Prop := ∀ s a b, WTR c0 t0 s (f s a b)
def WTR3 (c0 t0 : Nat) (f : State → Nat → Nat → Bool → State) : Prop := ∀ s a b c, WTR c0 t0 s (f s a b c)

theorem WTR.foldl {α : Type} (f : State → α → State) (hf : ∀ s a, WTR c0 t0 s (f s a)) :
    ∀ (l : List α) (s : State), WTR c0 t0 s (l.foldl f s)
  | [], s => WTR.refl s
  | a :: l, s => (hf s a).trans (WTR.foldl f hf l (f s a))

theorem stopStep_wtr {cw : State → Nat → State} (hcw : WTR1 c0 t0 cw) (s : State) (t : Nat) (th : Th) :
    WTR c0 t0 s (stopStep cw s t th) := by
  unfold stopStep
  split
  · exact (WTR.setTh s t (fun th => { th with ts := .running })).trans (WTR.of_eq rfl rfl rfl rfl rfl)
  · split
    · exact (WTR.setTh s t _).trans (hcw _ _)
    · exact WTR.refl s

theorem notifyDelete_wtr (s : State) (t : Nat) : WTR c0 t0 s (notifyDelete s t) := by
  unfold notifyDelete
  split
  · exact WTR.refl s
  · rename_i th _
    have h1 : WTR c0 t0 s (if th.attached = true then removeFromInst (s.setTh t fun th => { th with vm := .destroyed }) t th.inst
        else s.setTh t fun th => { th with vm := .destroyed }) := by
      split
      · exact (WTR.setTh s t _).trans (WTR.removeFromInst _ _ _)
      · exact WTR.setTh s t _
    simp only
    split
    · exact h1.trans (WTR.setTh _ _ _)
    · exact h1

theorem finishDelete_wtr (s : State) (t : Nat) : WTR c0 t0 s (finishDelete s t) := by
  unfold finishDelete
  split
  · exact WTR.refl s
  · split
    · exact WTR.setTh s t _
    · exact WTR.filter s t

theorem cancelEvents_wtr (s : State) (t : Nat) : WTR c0 t0 s (cancelEvents s t) := WTR.of_eq rfl rfl rfl rfl rfl
theorem postEvent_wtr (s : State) (t d : Nat) : WTR c0 t0 s (postEvent s t d) := WTR.of_eq rfl rfl rfl rfl rfl
theorem addTiming_wtr (s : State) (t d : Nat) : WTR c0 t0 s (addTiming s t d) := WTR.of_eq rfl rfl rfl rfl rfl
theorem vmSuspend_wtr (s : State) (t : Nat) : WTR c0 t0 s (vmSuspend s t) := by
  unfold vmSuspend; exact WTR.setTh s t _ (fun x => by split <;> exact fun h1 h2 => ⟨h1, h2⟩)
theorem vmResume_wtr (s : State) (t : Nat) : WTR c0 t0 s (vmResume s t) := by
  unfold vmResume; exact WTR.setTh s t _ (fun x => by split <;> exact fun h1 h2 => ⟨h1, h2⟩)

theorem notifyLoop_wtr {sn : State → Nat → State} (hsn : WTR1 c0 t0 sn) (s : State) (stopped : List Nat) :
    WTR c0 t0 s (notifyLoop sn s stopped) := by
  unfold notifyLoop
  apply WTR.foldl
  intro s a
  split
  · exact hsn s a
  · exact WTR.refl s

/-- `StoppedNotify` on the callee ends it -/
def SnE (t0 : Nat) (sn : State → Nat → State) : Prop := ∀ s, WTSafe s.prog → t0 < s.nextTid → Ended t0 (sn s t0)

theorem notifyFold_gone {sn : State → Nat → State} (hsn : WTR1 c0 t0 sn) (hsnE : SnE t0 sn) (ht0 : 100 ≤ t0) :
    ∀ (L : List Nat) (s : State), WTSafe s.prog → t0 < s.nextTid → t0 ∈ L →
      Ended t0 (L.foldl (fun s src => if s.alive src then sn s src else s) s)
  | [], _, _, _, h => by cases h
  | a :: L, s, hp, hlt, h => by
    simp only [List.foldl_cons]
    have hstep : WTR c0 t0 s (if s.alive a then sn s a else s) := by
      split
      · exact hsn s a
      · exact WTR.refl s
    have r := hstep hp hlt
    by_cases ha : a = t0
    · have g : Ended t0 (if s.alive a then sn s a else s) := by
        rw [ha]
        split
        · exact hsnE s hp hlt
        · rename_i hal; exact Or.inl (not_live_of_not_alive ht0 hal)
      have rf := (WTR.foldl (c0 := c0) (t0 := t0) (fun s src => if s.alive src then sn s src else s) (fun s a => by
        split
        · exact hsn s a
        · exact WTR.refl s) L _) (r.pw hp) (r.lt hlt)
      exact rf.gone g
    · have hm : t0 ∈ L := by
        rcases List.mem_cons.1 h with e | e
        · exact absurd e.symm ha
        · exact e
      exact notifyFold_gone hsn hsnE ht0 L _ (r.pw hp) (r.lt hlt) hm

/-- the pattern of `CancelWaiting`: purge the notify table (`s → s1`), something in between (`s1 → s2`), then
    `StoppedNotify` on every stopped source: if the purge removed `c0` from `(t0, 0)`, `t0` is among the stopped -/
theorem purgeThenLoop_wtr {sn : State → Nat → State} (hsn : WTR1 c0 t0 sn) (hsnE : SnE t0 sn) (ht0 : 100 ≤ t0)
    (s s1 s2 : State) (stopped : List Nat)
    (e1 : s1.threads = s.threads) (e2 : s1.nextTid = s.nextTid) (e3 : s1.prog = s.prog)
    (e5 : s1.outOfFuel = s.outOfFuel)
    (hkeep : c0 ∈ Tbl.getD s.notify (t0, 0) → c0 ∈ Tbl.getD s1.notify (t0, 0) ∨ t0 ∈ stopped)
    (h12 : WTR c0 t0 s1 s2) : WTR c0 t0 s (notifyLoop sn s2 stopped) := fun hp hlt => by
  have hp1 : WTSafe s1.prog := by rw [e3]; exact hp
  have hlt1 : t0 < s1.nextTid := by rw [e2]; exact hlt
  have r12 := h12 hp1 hlt1
  have rl := notifyLoop_wtr hsn s2 stopped (r12.pw hp1) (r12.lt hlt1)
  have r := r12.trans rl
  refine ⟨r.prog.trans e3, by rw [← e2]; exact r.nt, fun l => (r.lv l).congr e1, fun h => r.oof (by rw [e5]; exact h),
    fun hc => ?_⟩
  rcases hkeep hc with h | h
  · exact r.core h
  · right
    unfold notifyLoop
    exact notifyFold_gone hsn hsnE ht0 _ s2 (r12.pw hp1) (r12.lt hlt1) (List.mem_reverse.2 h)

theorem Tbl.purge_keeps (al : Nat → Bool) (T : Tbl) (x name : Nat) (list st : List Nat) (c t n : Nat)
    (h : c ∈ Tbl.getD T (t, n)) :
    c ∈ Tbl.getD (Tbl.purge al T x name list st).1 (t, n) ∨ t ∈ (Tbl.purge al T x name list st).2 := by
  rw [Tbl.purge_getD]
  split
  · rename_i hc
    obtain ⟨hn, hl, ha⟩ := hc
    simp only at hn hl ha
    by_cases hx : c = x
    · right; subst hx; subst hn; exact Tbl.purge_complete al T c n list st t hl ha h
    · left; exact List.mem_filter.2 ⟨h, by simpa using hx⟩
  · exact Or.inl h

theorem Tbl.multiPurge_mono (al : Nat → Bool) (x : Nat) :
    ∀ (keys : List (Nat × List Nat)) (T : Tbl) (st : List Nat), ∀ y ∈ st, y ∈ (Tbl.multiPurge al T x keys st).2
  | [], _, _, _, hy => hy
  | e :: keys, T, st, y, hy => by
    rw [Tbl.multiPurge_cons]
    exact Tbl.multiPurge_mono al x keys _ _ y (Tbl.purge_mono al T x e.1 e.2 st y hy)

theorem Tbl.multiPurge_keeps (al : Nat → Bool) (x : Nat) (c t n : Nat) :
    ∀ (keys : List (Nat × List Nat)) (T : Tbl) (st : List Nat), c ∈ Tbl.getD T (t, n) →
      c ∈ Tbl.getD (Tbl.multiPurge al T x keys st).1 (t, n) ∨ t ∈ (Tbl.multiPurge al T x keys st).2
  | [], _, _, h => Or.inl h
  | e :: keys, T, st, h => by
    rw [Tbl.multiPurge_cons]
    rcases Tbl.purge_keeps al T x e.1 e.2 st c t n h with h1 | h1
    · exact Tbl.multiPurge_keeps al x c t n keys _ _ h1
    · exact Or.inr (Tbl.multiPurge_mono al x keys _ _ t h1)

theorem cwaZero_wtr {swf : State → Nat → Nat → Bool → State} {sn : State → Nat → State}
    (hswf : WTR3 c0 t0 swf) (hsn : WTR1 c0 t0 sn) (hsnE : SnE t0 sn) (ht0 : 100 ≤ t0) (s : State) (w : Nat) :
    WTR c0 t0 s (cwaZero swf sn s w) := by
  unfold cwaZero
  split
  · exact WTR.refl s
  · rename_i list _
    simp only [cancelWaitingSources_eq_purge]
    refine purgeThenLoop_wtr hsn hsnE ht0 s
      { s with notify := (Tbl.purge s.alive s.notify w 0 list []).1, waitFor := Tbl.removeKey s.waitFor (w, 0) } _ _
      rfl rfl rfl rfl (fun hc => Tbl.purge_keeps _ _ _ _ _ _ _ _ _ hc) ?_
    split
    · exact hswf _ _ _ _
    · exact WTR.refl _

theorem cwaRest_wtr {swf : State → Nat → Nat → Bool → State} {sn : State → Nat → State}
    (hswf : WTR3 c0 t0 swf) (hsn : WTR1 c0 t0 sn) (hsnE : SnE t0 sn) (ht0 : 100 ≤ t0) (s : State) (w : Nat) :
    WTR c0 t0 s (cwaRest swf sn s w) := by
  unfold cwaRest
  split
  · exact WTR.refl s
  · simp only [cwaSources_frame]
    exact purgeThenLoop_wtr hsn hsnE ht0 s
      { s with notify := (Tbl.multiPurge s.alive s.notify w (Tbl.keysOf s.waitFor w) []).1, waitFor := Tbl.removeOwner s.waitFor w } _ _
      rfl rfl rfl rfl (fun hc => Tbl.multiPurge_keeps _ _ _ _ _ _ _ _ hc) (hswf _ _ _ _)

theorem startTiming_wtr {stp : State → Nat → State} (h : WTR1 c0 t0 stp) (s : State) (t : Nat) :
    WTR c0 t0 s (startTiming stp s t) := by
  unfold startTiming
  split
  · exact h s t
  · exact ((h s t).trans (WTR.setTh _ _ _)).trans (addTiming_wtr _ _ _)

theorem endOnLoop_wtr {dt : State → Nat → State} (h : WTR1 c0 t0 dt) (s : State) (src name : Nat)
    (listeners : List Nat) : WTR c0 t0 s (endOnLoop dt s src name listeners).1 := by
  unfold endOnLoop
  generalize listeners.reverse = L
  suffices hs : ∀ (L : List Nat) (acc : State × Bool), WTR c0 t0 s acc.1 →
      WTR c0 t0 s (L.foldl (fun (acc : State × Bool) l =>
        if acc.1.alive l then
          if l == src && (name == nameRemove || name == nameDelete || acc.2) then acc
          else (dt acc.1 l, acc.2 || (l == src))
        else acc) acc).1 from hs L (s, false) (WTR.refl s)
  intro L
  induction L with
  | nil => intro acc h; exact h
  | cons l L ih =>
    intro acc hacc
    simp only [List.foldl_cons]
    apply ih
    split
    · split
      · exact hacc
      · exact hacc.trans (h _ _)
    · exact hacc

theorem unregEndOn_wtr {dt : State → Nat → State} (h : WTR1 c0 t0 dt) (s : State) (src name : Nat) :
    WTR c0 t0 s (unregEndOn dt s src name).1 := by
  unfold unregEndOn
  split
  · exact WTR.refl s
  · split
    · exact WTR.refl s
    · refine WTR.trans ?_ (endOnLoop_wtr h _ _ _ _)
      exact WTR.of_eq rfl rfl rfl rfl rfl

theorem wakeLoop_wtr {swf : State → Nat → Nat → Bool → State} (h : WTR3 c0 t0 swf) (s : State) (name : Nat)
    (stopped : List Nat) : WTR c0 t0 s (wakeLoop swf s name stopped) := by
  unfold wakeLoop
  apply WTR.foldl
  intro s a
  split
  · exact h _ _ _ _
  · exact WTR.refl s

theorem unregNotify_wtr {swf : State → Nat → Nat → Bool → State} {sn : State → Nat → State}
    (hswf : WTR3 c0 t0 swf) (hsn : WTR1 c0 t0 sn) (s : State) (src name : Nat)
    (hpre : src = t0 ∧ name = 0 → Ended t0 s) :
    WTR c0 t0 s (unregNotify swf sn s src name) := by
  unfold unregNotify
  split
  · exact WTR.refl s
  · split
    · exact WTR.refl s
    · simp only [unregisterTargets_eq_purge]
      refine WTR.trans ?_ (wakeLoop_wtr hswf _ _ _)
      have hk : ∀ T : Tbl, c0 ∈ Tbl.getD s.notify (t0, 0) →
          c0 ∈ Tbl.getD (Tbl.removeKey s.notify (src, name)) (t0, 0) ∨
            Ended t0 { s with notify := Tbl.removeKey s.notify (src, name), waitFor := T } := by
        intro T hc
        rw [Tbl.getD_removeKey]
        by_cases hkk : (t0, 0) = (src, name)
        · right
          simp only [Prod.mk.injEq] at hkk
          exact hpre ⟨hkk.1.symm, hkk.2.symm⟩
        · left; rw [if_neg hkk]; exact hc
      split
      · refine WTR.trans ?_ (hsn _ _)
        exact WTR.step rfl rfl rfl rfl (hk _)
      · exact WTR.step rfl rfl rfl rfl (hk _)

theorem killLoop_wtr {swf : State → Nat → Nat → Bool → State} (h : WTR3 c0 t0 swf) (s : State)
    (stopped : List (Nat × Nat)) : WTR c0 t0 s (killLoop swf s stopped) := by
  unfold killLoop
  apply WTR.foldl
  intro s a
  split
  · exact h _ _ _ _
  · exact WTR.refl s

theorem uaRest_wtr {swf : State → Nat → Nat → Bool → State} {sn : State → Nat → State}
    (hswf : WTR3 c0 t0 swf) (hsn : WTR1 c0 t0 sn) (s : State) (src : Nat) (hpre : src = t0 → Ended t0 s) :
    WTR c0 t0 s (uaRest swf sn s src) := by
  unfold uaRest
  split
  · exact WTR.refl s
  · simp only
    refine WTR.trans ?_ (killLoop_wtr hswf _ _)
    refine WTR.trans ?_ (hsn _ _)
    rw [uaTargets_frame]
    refine WTR.step rfl rfl rfl rfl (fun hc => ?_)
    simp only
    rw [Tbl.getD_removeOwner]
    by_cases hkk : t0 = src
    · right; exact hpre hkk.symm
    · left; rw [if_neg hkk]; exact hc

theorem regWait_wtr {stp : State → Nat → State} (h : WTR1 c0 t0 stp) (s : State) (o n c : Nat) :
    WTR c0 t0 s (regWait stp s o n c) := by
  unfold regWait
  simp only
  have hpush : WTR c0 t0 s { s with notify := Tbl.push s.notify (o, n) c } :=
    WTR.step rfl rfl rfl rfl (fun hc => Or.inl (by
      show c0 ∈ Tbl.getD (Tbl.push s.notify (o, n) c) (t0, 0)
      rw [Tbl.getD_push]
      split
      · rename_i hk; rw [← hk]; exact List.mem_append_left _ hc
      · exact hc))
  split
  · refine WTR.trans (b := stp { s with notify := Tbl.push s.notify (o, n) c } c) ?_ ?_
    · exact hpush.trans (h _ _)
    · exact ((WTR.setTh _ c (fun th => { th with ts := .waiting })).trans (vmSuspend_wtr _ c)).trans (WTR.of_eq rfl rfl rfl rfl rfl)
  · exact hpush.trans (WTR.of_eq rfl rfl rfl rfl rfl)

theorem waitOn_wtr {stp : State → Nat → State} (h : WTR1 c0 t0 stp) (s : State) (p ms : Nat) :
    WTR c0 t0 s (waitOn stp s p ms) := by
  unfold waitOn
  have a1 := h s p
  have a2 : WTR c0 t0 (stp s p) ((stp s p).setTh p fun th => { th with ts := .timing }) := WTR.setTh (stp s p) p _
  have a3 : WTR c0 t0 ((stp s p).setTh p fun th => { th with ts := .timing })
      (addTiming ((stp s p).setTh p fun th => { th with ts := .timing }) p ms) := WTR.of_eq rfl rfl rfl rfl rfl
  exact ((a1.trans a2).trans a3).trans (vmSuspend_wtr _ p)

theorem waitOnGuarded_wtr {stp : State → Nat → State} (h : WTR1 c0 t0 stp) (s : State) (p ms : Nat) :
    WTR c0 t0 s (waitOnGuarded stp s p ms) := by
  unfold waitOnGuarded
  split
  · exact h s p
  · exact waitOn_wtr h s p ms

theorem setRet_wtr (s : State) (c : Nat) (r : Ret) : WTR c0 t0 s (s.setRet c r) := WTR.of_eq rfl rfl rfl rfl rfl

theorem endResult_wtr (s : State) (th : Th) (ev : EndV) : WTR c0 t0 s (endResult s th ev) := by
  unfold endResult
  simp only
  split
  · exact WTR.refl s
  · split <;> first | exact setRet_wtr _ _ _ | exact WTR.refl s

theorem restoreCur_wtr (s : State) (c : Option Nat) : WTR c0 t0 s (restoreCur s c) := WTR.of_eq rfl rfl rfl rfl rfl

theorem execIfAlive_wtr {ev : State → Nat → State} (h : WTR1 c0 t0 ev) (s : State) (t : Nat) :
    WTR c0 t0 s (execIfAlive ev s t) := by
  unfold execIfAlive
  split
  · exact h s t
  · exact WTR.refl s

theorem vmEpilogue_wtr (s : State) (t : Nat) : WTR c0 t0 s (vmEpilogue s t) := by
  unfold vmEpilogue
  split
  · exact WTR.refl s
  · split
    · exact WTR.setTh _ _ _
    · exact WTR.filter s t
    · exact WTR.refl s

theorem vmPrologue_wtr (s : State) (t : Nat) : WTR c0 t0 s (vmPrologue s t) :=
  (WTR.setTh s t (fun th => { th with vm := .running })).trans (WTR.of_eq rfl rfl rfl rfl rfl)

/-- the statement for one fuel level -/
structure WTRAll (c0 t0 : Nat) (fuel : Nat) : Prop where
  dt : WTR1 c0 t0 (deleteThread fuel)
  dtE : SnE t0 (deleteThread fuel)
  sn : WTR1 c0 t0 (stoppedNotify fuel)
  snE : SnE t0 (stoppedNotify fuel)
  stp : WTR1 c0 t0 (stop fuel)
  cwa : WTR1 c0 t0 (cancelWaitingAll fuel)
  swf : WTR3 c0 t0 (stoppedWaitFor fuel)
  ur : ∀ s src name, (src = t0 ∧ name = 0 → Ended t0 s) → WTR c0 t0 s (unregister fuel s src name)
  ua : ∀ s src, (src = t0 → Ended t0 s) → WTR c0 t0 s (unregisterAll fuel s src)
  sei : WTR1 c0 t0 (scriptExecuteInternal fuel)
  er : WTRz c0 t0 (executeRunning fuel)
  dr : WTRz c0 t0 (drain fuel)
  ev : WTR1 c0 t0 (execVM fuel)
  pr : WTR1 c0 t0 (process fuel)
  ex : ∀ s t th ins, ins.wtSafe → WTR c0 t0 s (exec fuel s t th ins)

theorem wtrAll_zero : WTRAll c0 t0 0 where
  dt := fun s t => by rw [deleteThread_zero]; exact WTR.fuel s
  dtE := fun s _ _ => by rw [deleteThread_zero]; exact Or.inr rfl
  sn := fun s t => by rw [stoppedNotify_zero]; exact WTR.fuel s
  snE := fun s _ _ => by rw [stoppedNotify_zero]; exact Or.inr rfl
  stp := fun s t => by rw [stop_zero]; exact WTR.fuel s
  cwa := fun s t => by rw [cancelWaitingAll_zero]; exact WTR.fuel s
  swf := fun s t n d => by rw [stoppedWaitFor_zero]; exact WTR.fuel s
  ur := fun s t n _ => by rw [unregister_zero]; exact WTR.fuel s
  ua := fun s t _ => by rw [unregisterAll_zero]; exact WTR.fuel s
  sei := fun s t => by rw [scriptExecuteInternal_zero]; exact WTR.fuel s
  er := fun s => by rw [executeRunning_zero]; exact WTR.fuel s
  dr := fun s => by rw [drain_zero]; exact WTR.fuel s
  ev := fun s t => by rw [execVM_zero]; exact WTR.fuel s
  pr := fun s t => by rw [process_zero]; exact WTR.fuel s
  ex := fun s t th ins _ => by rw [exec_zero]; exact WTR.fuel s

theorem exec_wr_succ {fuel : Nat} (ih : WTRAll c0 t0 fuel) (ht0 : 100 ≤ t0) (s : State) (t : Nat) (th : Th) (ins : Instr)
    (hins : ins.wtSafe) : WTR c0 t0 s (exec (fuel + 1) s t th ins) := by
  cases ins with
  | mark k => rw [exec_mark]; exact WTR.of_eq rfl rfl rfl rfl rfl
  | pparam i => rw [exec_pparam]; exact WTR.of_eq rfl rfl rfl rfl rfl
  | wait ms => rw [exec_wait]; exact waitOn_wtr ih.stp _ _ _
  | waittill o names =>
    rw [exec_waittill]
    split
    · exact WTR.refl s
    · split
      · exact WTR.refl s
      · exact WTR.foldl _ (fun s n => regWait_wtr ih.stp _ _ _ _) _ _
  | waittillTimeout o n ms =>
    rw [exec_waittillTimeout]
    split
    · exact WTR.refl s
    · split
      · exact WTR.refl s
      · exact (regWait_wtr ih.stp _ _ _ _).trans (postEvent_wtr _ _ _)
  | notify o n =>
    rw [exec_notify]
    split
    · exact WTR.refl s
    · exact ih.ur _ _ _ (fun h => by have : o < 100 := hins; omega)
  | endon o n =>
    rw [exec_endon]
    split
    · exact WTR.refl s
    · split
      · exact WTR.refl s
      · exact WTR.of_eq rfl rfl rfl rfl rfl
  | delete o =>
    rw [exec_delete]
    split
    · exact WTR.refl s
    · refine WTR.trans (b := cancelWaitingAll fuel (unregisterAll fuel (unregister fuel (unregister fuel s o nameDelete) o nameRemove) o) o) ?_ ?_
      · have ho : o < 100 := hins
        exact (((ih.ur _ _ _ (fun h => by omega)).trans (ih.ur _ _ _ (fun h => by omega))).trans
          (ih.ua _ _ (fun h => by omega))).trans (ih.cwa _ _)
      · exact WTR.of_eq rfl rfl rfl rfl rfl
  | thread l =>
    rw [exec_thread]
    split
    · exact WTR.refl s
    · refine WTR.trans ?_ (ih.sei _ _)
      exact WTR.append s (spawnSame s t th l) _ rfl rfl rfl rfl rfl
  | waitthread l =>
    rw [exec_waitthread]
    split
    · exact WTR.refl s
    · split
      · refine WTR.trans ?_ (ih.sei _ _)
        exact WTR.append s (spawnNew s t l) _ rfl rfl rfl rfl rfl
      · refine WTR.trans ?_ (ih.sei _ _)
        refine WTR.trans ?_ (regWait_wtr ih.stp _ _ _ _)
        exact WTR.append s (spawnNew s t l) _ rfl rfl rfl rfl rfl
  | pause => rw [exec_pause]; exact (ih.stp _ _).trans (vmSuspend_wtr _ _)
  | waitParent ms =>
    rw [exec_waitParent]
    split
    · exact WTR.refl s
    · exact waitOnGuarded_wtr ih.stp _ _ _
  | waittillParent names =>
    rw [exec_waittillParent]
    split
    · exact WTR.refl s
    · split
      · exact WTR.refl s
      · exact WTR.foldl _ (fun s n => regWait_wtr ih.stp _ _ _ _) _ _
  | notifyParent n =>
    rw [exec_notifyParent]
    split
    · exact WTR.refl s
    · exact ih.ur _ _ _ (fun h => absurd h.2 hins)
  | end_ ev =>
    rw [exec_end]
    exact ((endResult_wtr _ _ _).trans (WTR.setTh _ _ _)).trans (ih.dt _ _)
  | spawn o =>
    rw [exec_spawn]
    split
    · exact WTR.refl s
    · exact WTR.of_eq rfl rfl rfl rfl rfl

theorem WTR.trans_gone {a b c : State} {P : Prop} (hpre : P → Ended t0 a) (h1 : WTR c0 t0 a b)
    (h2 : (P → Ended t0 b) → WTR c0 t0 b c) : WTR c0 t0 a c := fun hp hlt =>
  (WTR.trans h1 (h2 (fun p => (h1 hp hlt).gone (hpre p)))) hp hlt

theorem not_live_setTh_noVM (s : State) (t : Nat) :
    ¬ LiveVM (s.setTh t (fun th => { th with hasVM := false })) t := by
  rintro ⟨th', h, hv, _⟩
  rw [State.setTh_threads, thFind_map_upd] at h
  split at h
  · cases hfd : thFind s.threads t with
    | none => rw [hfd] at h; simp at h
    | some th => rw [hfd] at h; simp at h; subst h; cases hv
  · rename_i hne; exact hne rfl

theorem not_live_of_th_none {s : State} {u : Nat} (h : s.th? u = none) : ¬ LiveVM s u := by
  rintro ⟨th, h1, _, _⟩
  rw [State.th?_eq, h1] at h; cases h

theorem not_live_of_th_noVM {s : State} {u : Nat} {th : Th} (h : s.th? u = some th) (hv : ¬ (th.hasVM = true)) :
    ¬ LiveVM s u := by
  rintro ⟨th', h1, h2, _⟩
  rw [State.th?_eq, h1] at h
  cases h; exact hv h2

/-- `~ScriptThread` after `m_ScriptVM = nullptr` -/
theorem deleteChain_wtr {fuel : Nat} (ih : WTRAll c0 t0 fuel) (s : State) (t : Nat) (th : Th) :
    WTR c0 t0 (s.setTh t (fun th => { th with hasVM := false }))
      (finishDelete (cancelWaitingAll fuel (unregisterAll fuel (unregister fuel (unregister fuel
          (cancelEvents (notifyDelete (stopStep (cancelWaitingAll fuel)
            (s.setTh t (fun th => { th with hasVM := false })) t th) t) t)
          t nameDelete) t nameRemove) t) t) t) := by
  have g0 : t = t0 → Ended t0 (s.setTh t (fun th => { th with hasVM := false })) := by
    intro h; subst h; exact Or.inl (not_live_setTh_noVM s t)
  have l1 := ((stopStep_wtr (c0 := c0) (t0 := t0) ih.cwa (s.setTh t (fun th => { th with hasVM := false })) t th).trans
    (notifyDelete_wtr _ t)).trans (cancelEvents_wtr _ t)
  have l2 := (l1.trans (ih.ur _ t nameDelete (fun h => by cases h.2))).trans (ih.ur _ t nameRemove (fun h => by cases h.2))
  exact WTR.trans_gone g0 l2 (fun g => ((ih.ua _ t g).trans (ih.cwa _ t)).trans (finishDelete_wtr _ t))

theorem wtrAll_succ {fuel : Nat} (ih : WTRAll c0 t0 fuel) (ht0 : 100 ≤ t0) : WTRAll c0 t0 (fuel + 1) where
  dt := fun s t => by
    rw [deleteThread_succ]
    split
    · exact WTR.refl s
    · rename_i th _
      split
      · exact WTR.refl s
      · exact (WTR.setTh s t (fun th => { th with hasVM := false }) (fun _ h => by cases h)).trans (deleteChain_wtr ih s t th)
  dtE := fun s hp hlt => by
    rw [deleteThread_succ]
    split
    · rename_i h; exact Or.inl (not_live_of_th_none h)
    · rename_i th h
      split
      · rename_i hv; exact Or.inl (not_live_of_th_noVM h (by simpa using hv))
      · exact (deleteChain_wtr (c0 := c0) ih s t0 th hp hlt).gone (Or.inl (not_live_setTh_noVM s t0))
  sn := fun s l => by
    rw [stoppedNotify_succ]
    split
    · split
      · exact ih.dt _ _
      · exact WTR.refl s
    · exact WTR.refl s
  snE := fun s hp hlt => by
    rw [stoppedNotify_succ]
    split
    · split
      · exact ih.dtE s hp hlt
      · rename_i h; exact Or.inl (not_live_of_noVM h)
    · rename_i h; exact absurd (by unfold isThread; simpa using ht0) h
  stp := fun s t => by
    rw [stop_succ]
    split
    · exact WTR.refl s
    · exact stopStep_wtr ih.cwa _ _ _
  cwa := fun s w => by
    rw [cancelWaitingAll_succ]
    exact (cwaZero_wtr ih.swf ih.sn ih.snE ht0 _ _).trans (cwaRest_wtr ih.swf ih.sn ih.snE ht0 _ _)
  swf := fun s t name d => by
    rw [stoppedWaitFor_succ]
    split
    · exact WTR.refl s
    · split
      · exact WTR.refl s
      · split
        · exact WTR.refl s
        · split
          · exact ih.dt _ _
          · split
            · split
              · split
                · exact (cancelEvents_wtr _ _).trans (ih.sei _ _)
                · exact (cancelEvents_wtr _ _).trans (vmResume_wtr _ _)
              · exact (cancelEvents_wtr _ _).trans (startTiming_wtr ih.stp _ _)
            · exact cancelEvents_wtr _ _
  ur := fun s src name hpre => by
    rw [unregister_succ]
    split
    · exact unregEndOn_wtr ih.dt _ _ _
    · exact WTR.trans_gone hpre (unregEndOn_wtr ih.dt _ _ _) (fun g => unregNotify_wtr ih.swf ih.sn _ _ _ g)
  ua := fun s src hpre => by
    rw [unregisterAll_succ]
    exact WTR.trans_gone hpre ((ih.ur s src 0 (fun h => hpre h.1)).trans
        (WTR.of_eq (s' := { (unregister fuel s src 0) with endOn := Tbl.removeOwner (unregister fuel s src 0).endOn src }) rfl rfl rfl rfl rfl))
      (fun g => uaRest_wtr ih.swf ih.sn _ _ g)
  sei := fun s t => by
    rw [scriptExecuteInternal_succ]
    refine WTR.trans ?_ (ih.er _)
    refine WTR.trans ?_ (restoreCur_wtr _ _)
    refine WTR.trans ?_ (execIfAlive_wtr ih.ev _ _)
    refine WTR.trans ?_ (ih.stp _ _)
    exact WTR.of_eq rfl rfl rfl rfl rfl
  er := fun s => by
    rw [executeRunning_succ]
    split
    · exact WTR.refl s
    · split
      · exact WTR.refl s
      · exact ih.dr _
  dr := fun s => by
    rw [drain_succ]
    split
    · exact WTR.of_eq rfl rfl rfl rfl rfl
    · refine WTR.trans ?_ (ih.dr _)
      refine WTR.trans ?_ (ih.ev _ _)
      exact (WTR.of_eq (s := s) (s' := { s with timer := _, cur := some _ }) rfl rfl rfl rfl rfl).trans (WTR.setTh _ _ (fun th => { th with ts := .running }))
  ev := fun s t => by
    rw [execVM_succ]
    refine WTR.trans ?_ (vmEpilogue_wtr _ _)
    refine WTR.trans (b := process fuel (vmPrologue s t) t) ?_ (WTR.of_eq rfl rfl rfl rfl rfl)
    exact (vmPrologue_wtr s t).trans (ih.pr _ _)
  pr := fun s t => by
    rw [process_succ]
    split
    · exact WTR.refl s
    · split
      · exact WTR.refl s
      · intro hp hlt
        exact (((WTR.setTh s t _).trans (ih.ex _ _ _ _ (hp.fetch _ _))).trans (ih.pr _ _)) hp hlt
  ex := exec_wr_succ ih ht0

theorem wtrAll (ht0 : 100 ≤ t0) : ∀ fuel, WTRAll c0 t0 fuel
  | 0 => wtrAll_zero
  | fuel + 1 => wtrAll_succ (wtrAll ht0 fuel) ht0

end Morfuse.Sched
