import MorfuseModel.Sched.MachineWaitthread
import MorfuseModel.Sched.MachineHost
/-!
# The `waitthread` relation for the host operations

`HostOp.apply_wr`: for every driver command (`reset` included) from any state whose program satisfies `WTSafe`: a listener
registered on channel 0 of thread `t0` before is still registered afterwards, or `t0` has no live VM afterwards, or the
operation ran out of fuel.
-/
namespace Morfuse.Sched
open State

variable {c0 t0 : Nat}

theorem killStep_wr (ht0 : 100 ≤ t0) (s : State) (t : Nat) : WR c0 t0 s (killStep s t) :=
  (WR.setTh s t _).trans ((wrAll ht0 defaultFuel).dt _ _)

theorem killInst_wr (ht0 : 100 ≤ t0) (s : State) (i : Nat) : WR c0 t0 s (killInst s i) := by
  unfold killInst
  split
  · exact WR.refl s
  · rename_i chain _
    exact (WR.of_eq (s := s) (s' := { s with insts := s.insts.filter (fun e => !(e.1 == i)) }) rfl rfl rfl rfl rfl).trans
      (WR.foldl killStep (killStep_wr ht0) chain _)

theorem killAllInsts_wr (ht0 : 100 ≤ t0) (s : State) : WR c0 t0 s (killAllInsts s) := by
  unfold killAllInsts
  exact WR.foldl _ (killInst_wr ht0) _ _

theorem deliver_wr (ht0 : 100 ≤ t0) (s : State) (t : Nat) : WR c0 t0 s (deliver s t) := by
  unfold deliver
  split
  · exact (wrAll ht0 defaultFuel).cwa _ _
  · exact WR.refl s

theorem processEvents_wr (ht0 : 100 ≤ t0) : ∀ (fuel : Nat) (s : State), WR c0 t0 s (processEvents fuel s)
  | 0, s => WR.fuel s
  | fuel + 1, s => by
    rw [processEvents_succ]
    split
    · exact WR.refl s
    · split
      · exact WR.refl s
      · rename_i t due rest _ _
        exact ((WR.of_eq (s := s) (s' := { s with events := rest }) rfl rfl rfl rfl rfl).trans (deliver_wr ht0 _ _)).trans
          (processEvents_wr ht0 fuel _)

theorem hostCall_wr (ht0 : 100 ≤ t0) (s : State) (l : Nat) (args : List V) : WR c0 t0 s (hostCall s l args).1 := by
  rw [hostCall_eq]
  split
  · exact WR.refl s
  · refine ((WR.append s (callSetup s l args) _ rfl rfl rfl rfl rfl).trans ((wrAll ht0 defaultFuel).sei _ s.nextTid)).trans ?_
    unfold callFinish
    split
    · exact WR.of_eq rfl rfl rfl rfl rfl
    · exact WR.refl _

theorem hostCallV_wr (ht0 : 100 ≤ t0) (s : State) (l : Nat) : WR c0 t0 s (hostCallV s l) := by
  unfold hostCallV
  refine (hostCall_wr ht0 s l []).trans (fun _ _ => ?_)
  refine ⟨rfl, Nat.le_refl _, fun lv => ?_, fun h => h, fun h => Or.inl h⟩
  obtain ⟨th', h, hv, hd⟩ := lv
  simp only at h
  rw [thFind_mapAll (fun x => if x.call == some s.nextCall then { x with call := none } else x)] at h
  cases hf : thFind (hostCall s l []).1.threads t0 with
  | none => rw [hf] at h; cases h
  | some x =>
    rw [hf] at h
    simp only [Option.map_some, Option.some.injEq] at h
    subst h
    refine ⟨x, hf, ?_, ?_⟩
    · revert hv; split <;> exact fun h => h
    · revert hd; split <;> exact fun h => h

theorem hostExecute_wr (ht0 : 100 ≤ t0) (s : State) : WR c0 t0 s (hostExecute s) := by
  rw [hostExecute_eq]
  exact ((WR.of_eq rfl rfl rfl rfl rfl : WR c0 t0 s (frameSetTime s)).trans (processEvents_wr ht0 _ _)).trans
    ((wrAll ht0 defaultFuel).er _)

/-- **every driver command** -/
theorem HostOp.apply_wr (ht0 : 100 ≤ t0) (s : State) (op : HostOp) (hp : WTSafe s.prog) (hlt : t0 < s.nextTid)
    (hc : c0 ∈ Tbl.getD s.notify (t0, 0)) :
    c0 ∈ Tbl.getD (op.apply s).notify (t0, 0) ∨ Ended t0 (op.apply s) := by
  cases op with
  | reset => exact Or.inr (Or.inl (fun ⟨_, h, _⟩ => by cases h))
  | script p ps =>
    show _ ∈ Tbl.getD (hostScript s p ps).notify _ ∨ Ended t0 (hostScript s p ps)
    unfold hostScript
    split
    · exact Or.inl hc
    · exact (killAllInsts_wr (c0 := c0) ht0 s hp hlt).core hc
  | call l args => exact (hostCall_wr ht0 s l args hp hlt).core hc
  | callv l => exact (hostCallV_wr ht0 s l hp hlt).core hc
  | advance k => exact Or.inl hc
  | resetDirector => exact (killAllInsts_wr (c0 := c0) ht0 s hp hlt).core hc
  | execute => exact (hostExecute_wr ht0 s hp hlt).core hc
  | step k => exact (hostExecute_wr ht0 { s with clock := s.clock + k } hp hlt).core hc
  | takeOut => exact Or.inl hc

end Morfuse.Sched
