import MorfuseModel.Sched.MachineWaitthread
import MorfuseModel.Sched.MachineHost
/-!
# The `waitthread` relation for the host operations

`HostOp.apply_wtr`: for every driver command (`reset` included) from any state whose program satisfies `WTSafe`: a listener
registered on channel 0 of thread `t0` before is still registered afterwards, or `t0` has no live VM afterwards, or the
operation ran out of fuel.
-/
namespace Morfuse.Sched
open State

variable {c0 t0 : Nat}

theorem killStep_wtr (ht0 : 100 ≤ t0) (s : State) (t : Nat) : WTR c0 t0 s (killStep s t) :=
  (WTR.setTh s t _).trans ((wtrAll ht0 defaultFuel).dt _ _)

theorem killInst_wtr (ht0 : 100 ≤ t0) (s : State) (i : Nat) : WTR c0 t0 s (killInst s i) := by
  unfold killInst
  split
  · exact WTR.refl s
  · rename_i chain _
    exact (WTR.of_eq (s := s) (s' := { s with insts := s.insts.filter (fun e => !(e.1 == i)) }) rfl rfl rfl rfl rfl).trans
      (WTR.foldl killStep (killStep_wtr ht0) chain _)

theorem killAllInsts_wtr (ht0 : 100 ≤ t0) (s : State) : WTR c0 t0 s (killAllInsts s) := by
  unfold killAllInsts
  exact WTR.foldl _ (killInst_wtr ht0) _ _

theorem deliver_wtr (ht0 : 100 ≤ t0) (s : State) (t : Nat) : WTR c0 t0 s (deliver s t) := by
  unfold deliver
  split
  · exact (wtrAll ht0 defaultFuel).cwa _ _
  · exact WTR.refl s

theorem processEvents_wtr (ht0 : 100 ≤ t0) : ∀ (fuel : Nat) (s : State), WTR c0 t0 s (processEvents fuel s)
  | 0, s => WTR.fuel s
  | fuel + 1, s => by
    rw [processEvents_succ]
    split
    · exact WTR.refl s
    · split
      · exact WTR.refl s
      · rename_i t due rest _ _
        exact ((WTR.of_eq (s := s) (s' := { s with events := rest }) rfl rfl rfl rfl rfl).trans (deliver_wtr ht0 _ _)).trans
          (processEvents_wtr ht0 fuel _)

theorem hostCall_wtr (ht0 : 100 ≤ t0) (s : State) (l : Nat) (args : List V) : WTR c0 t0 s (hostCall s l args).1 := by
  rw [hostCall_eq]
  split
  · exact WTR.refl s
  · refine ((WTR.append s (callSetup s l args) _ rfl rfl rfl rfl rfl).trans ((wtrAll ht0 defaultFuel).sei _ s.nextTid)).trans ?_
    unfold callFinish
    split
    · exact WTR.of_eq rfl rfl rfl rfl rfl
    · exact WTR.refl _

theorem hostCallV_wtr (ht0 : 100 ≤ t0) (s : State) (l : Nat) : WTR c0 t0 s (hostCallV s l) := by
  unfold hostCallV
  refine (hostCall_wtr ht0 s l []).trans (fun _ _ => ?_)
  refine ⟨rfl, Nat.le_refl _, fun lv => ?_, fun h => h, fun h => Or.inl h⟩
  obtain ⟨th', h, hv, hd⟩ := lv
  simp only at h
  rw [thFind_mapAll (fun x => if x.call == some s.nextCall then { x with call := none } else x)] at h
  cases hf : thFind (hostCall s l []).1.threads t0 with
  | none => rw [hf] at h; cases h
  | some x =>
    rw [hf] at h
    simp only [Option.map_some, Option.some.injEq] at h
    subst h
    refine ⟨x, hf, ?_, ?_⟩
    · revert hv; split <;> exact fun h => h
    · revert hd; split <;> exact fun h => h

theorem hostExecute_wtr (ht0 : 100 ≤ t0) (s : State) : WTR c0 t0 s (hostExecute s) := by
  rw [hostExecute_eq]
  exact ((WTR.of_eq rfl rfl rfl rfl rfl : WTR c0 t0 s (frameSetTime s)).trans (processEvents_wtr ht0 _ _)).trans
    ((wtrAll ht0 defaultFuel).er _)

/-- **every driver command** -/
theorem HostOp.apply_wtr (ht0 : 100 ≤ t0) (s : State) (op : HostOp) (hp : WTSafe s.prog) (hlt : t0 < s.nextTid)
    (hc : c0 ∈ Tbl.getD s.notify (t0, 0)) :
    c0 ∈ Tbl.getD (op.apply s).notify (t0, 0) ∨ Ended t0 (op.apply s) := by
  cases op with
  | reset => exact Or.inr (Or.inl (fun ⟨_, h, _⟩ => by cases h))
  | script p ps =>
    show _ ∈ Tbl.getD (hostScript s p ps).notify _ ∨ Ended t0 (hostScript s p ps)
    unfold hostScript
    split
    · exact Or.inl hc
    · exact (killAllInsts_wtr (c0 := c0) ht0 s hp hlt).core hc
  | call l args => exact (hostCall_wtr ht0 s l args hp hlt).core hc
  | callv l => exact (hostCallV_wtr ht0 s l hp hlt).core hc
  | advance k => exact Or.inl hc
  | resetDirector => exact (killAllInsts_wtr (c0 := c0) ht0 s hp hlt).core hc
  | execute => exact (hostExecute_wtr ht0 s hp hlt).core hc
  | step k => exact (hostExecute_wtr ht0 { s with clock := s.clock + k } hp hlt).core hc
  | takeOut => exact Or.inl hc

end Morfuse.Sched
