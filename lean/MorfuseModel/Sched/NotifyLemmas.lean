import MorfuseModel.Sched.TablesLemmas
import MorfuseModel.Sched.Machine
/-!
# `notify` on the two mirrored tables (pure part of `Listener::Unregister(name)`)
-/
namespace Morfuse.Sched

/-- the two tables of all listeners -/
structure Tabs where
  n : Tbl      -- m_NotifyList : (source, name) ↦ waiters
  w : Tbl      -- m_WaitForList : (waiter, name) ↦ sources

/-- every registration is recorded on both sides, with multiplicity -/
def Mirror (T : Tabs) : Prop :=
  ∀ src name x, (Tbl.getD T.n (src, name)).count x = (Tbl.getD T.w (x, name)).count src

/-- `Listener::Register(name, waiter)` -/
def registerT (T : Tabs) (src name x : Nat) : Tabs :=
  ⟨T.n.push (src, name) x, T.w.push (x, name) src⟩

def dstep (acc : List Nat) (x : Nat) : List Nat := if acc.contains x then acc else acc ++ [x]
/-- keep the first occurrence of every element -/
def dedup (l : List Nat) : List Nat := l.foldl dstep []

theorem dstep_fold_spec : ∀ (P acc : List Nat), acc.Nodup →
    (P.foldl dstep acc).Nodup ∧ ∀ x, x ∈ P.foldl dstep acc ↔ x ∈ acc ∨ x ∈ P
  | [], acc, h => by simp [h]
  | a :: P, acc, h => by
    simp only [List.foldl_cons]
    have hn : (dstep acc a).Nodup := by
      unfold dstep; split
      · exact h
      · rename_i hc
        rw [List.nodup_append]
        refine ⟨h, by simp, ?_⟩
        intro x hx y hy; simp at hy; subst hy
        intro e; subst e; exact hc (by simpa using hx)
    have hm : ∀ x, x ∈ dstep acc a ↔ x ∈ acc ∨ x = a := by
      intro x; unfold dstep; split
      · rename_i hc
        have : a ∈ acc := by simpa using hc
        constructor
        · intro h; exact Or.inl h
        · intro h; rcases h with h | h
          · exact h
          · rw [h]; exact this
      · simp
    obtain ⟨h1, h2⟩ := dstep_fold_spec P (dstep acc a) hn
    refine ⟨h1, ?_⟩
    intro x; rw [h2 x, hm x]; simp [or_assoc]

theorem dedup_nodup (l : List Nat) : (dedup l).Nodup := (dstep_fold_spec l [] (by simp)).1
theorem mem_dedup (l : List Nat) (x : Nat) : x ∈ dedup l ↔ x ∈ l := by
  have := (dstep_fold_spec l [] (by simp)).2 x
  simpa [dedup] using this
theorem dedup_append_singleton (P : List Nat) (l : Nat) : dedup (P ++ [l]) = dstep (dedup P) l := by
  simp [dedup, List.foldl_append]

theorem dstep_fold_nodup : ∀ (P acc : List Nat), (∀ x ∈ P, x ∉ acc) → P.Nodup →
    P.foldl dstep acc = acc ++ P
  | [], acc, _, _ => by simp
  | a :: P, acc, h, hn => by
    simp only [List.foldl_cons]
    have ha : a ∉ acc := h a (by simp)
    have hd : dstep acc a = acc ++ [a] := by
      unfold dstep
      simp [ha]
    rw [hd, dstep_fold_nodup P (acc ++ [a])]
    · simp
    · intro x hx hm
      rcases List.mem_append.1 hm with hm | hm
      · exact h x (List.mem_cons_of_mem _ hx) hm
      · simp at hm; subst hm; exact (List.nodup_cons.1 hn).1 hx
    · exact (List.nodup_cons.1 hn).2

theorem dedup_of_nodup (l : List Nat) (h : l.Nodup) : dedup l = l := by
  have := dstep_fold_nodup l [] (by simp) h
  simpa [dedup] using this

/-- the loop of `UnregisterTargets`: one step -/
def tstep (src name : Nat) (acc : Tbl × List Nat) (l : Nat) : Tbl × List Nat :=
  let r := Tbl.removeAll acc.1 (l, name) src
  (r.1, if r.2 then acc.2 ++ [l] else acc.2)

/-- `UnregisterTargets(name, list, stopped)` on the wait-for table alone (every listed listener alive) -/
def targetsT (w : Tbl) (src name : Nat) (list : List Nat) : Tbl × List Nat :=
  list.reverse.foldl (tstep src name) (w, [])

theorem tstep_fold_spec (w : Tbl) (src name : Nat) :
    ∀ (rest P : List Nat) (acc : Tbl × List Nat),
      (∀ l ∈ P ++ rest, src ∈ Tbl.getD w (l, name)) →
      (∀ k, Tbl.getD acc.1 k = if k.2 = name ∧ k.1 ∈ P then (Tbl.getD w k).filter (· != src) else Tbl.getD w k) →
      acc.2 = dedup P →
      (∀ k, Tbl.getD (rest.foldl (tstep src name) acc).1 k =
          if k.2 = name ∧ k.1 ∈ P ++ rest then (Tbl.getD w k).filter (· != src) else Tbl.getD w k) ∧
      (rest.foldl (tstep src name) acc).2 = dedup (P ++ rest)
  | [], P, acc, _, hW, hS => by simpa using And.intro hW hS
  | l :: rest, P, acc, hH, hW, hS => by
    simp only [List.foldl_cons]
    have hfound : (Tbl.removeAll acc.1 (l, name) src).2 = !(dedup P).contains l := by
      rw [Tbl.removeAll_found, hW (l, name)]
      by_cases hl : l ∈ P
      · simp [hl, (mem_dedup P l).2 hl]
      · have h1 : src ∈ Tbl.getD w (l, name) := hH l (by simp)
        simp [hl, mt (mem_dedup P l).1 hl, h1]
    have hS' : (tstep src name acc l).2 = dedup (P ++ [l]) := by
      rw [dedup_append_singleton]
      simp only [tstep, hfound, hS, dstep]
      cases (dedup P).contains l <;> simp
    have hW' : ∀ k, Tbl.getD (tstep src name acc l).1 k =
        if k.2 = name ∧ k.1 ∈ P ++ [l] then (Tbl.getD w k).filter (· != src) else Tbl.getD w k := by
      intro k
      simp only [tstep, Tbl.getD_removeAll]
      by_cases hk : k = (l, name)
      · subst hk
        simp only [if_true, hW]
        by_cases hl : l ∈ P
        · simp [hl, List.filter_filter]
        · simp [hl]
      · simp only [hk, if_false, hW]
        have : (k.2 = name ∧ k.1 ∈ P ++ [l]) ↔ (k.2 = name ∧ k.1 ∈ P) := by
          constructor
          · intro ⟨a, b⟩
            refine ⟨a, ?_⟩
            rcases List.mem_append.1 b with b | b
            · exact b
            · simp at b; exfalso; apply hk; cases k; simp_all
          · intro ⟨a, b⟩; exact ⟨a, List.mem_append_left _ b⟩
        simp only [this]
    have := tstep_fold_spec w src name rest (P ++ [l]) (tstep src name acc l)
      (by simpa using hH) hW' hS'
    simpa using this

/-- script `notify`: the waiters to wake (in wake order) and the tables afterwards -/
def notifyT (T : Tabs) (src name : Nat) : Tabs × List Nat :=
  let r := targetsT T.w src name (Tbl.getD T.n (src, name))
  (⟨T.n.removeKey (src, name), r.1⟩, r.2.reverse)

theorem targetsT_spec (T : Tabs) (hm : Mirror T) (src name : Nat) :
    let list := Tbl.getD T.n (src, name)
    (∀ k, Tbl.getD (targetsT T.w src name list).1 k =
        if k.2 = name ∧ k.1 ∈ list then (Tbl.getD T.w k).filter (· != src) else Tbl.getD T.w k) ∧
    (targetsT T.w src name list).2 = dedup list.reverse := by
  intro list
  have hH : ∀ l ∈ [] ++ list.reverse, src ∈ Tbl.getD T.w (l, name) := by
    intro l hl
    have hl' : l ∈ list := by simpa using hl
    have := hm src name l
    have hc : 0 < (Tbl.getD T.n (src, name)).count l := List.count_pos_iff.2 hl'
    rw [this] at hc
    exact List.count_pos_iff.1 hc
  have := tstep_fold_spec T.w src name list.reverse [] (T.w, []) hH (by intro k; simp) rfl
  simpa [targetsT] using this

end Morfuse.Sched
