/-!
# Ledgers of creations and destructions of numbered objects

A pool hands out fresh ids (`new`: the next number) and frees them (`del i`, valid only for an id that is present).
For every valid history from a good pool (distinct ids, all below the counter): ids are never reused, an id is
freed at most once, the ids present at the end are exactly the old and the created ones that were not freed — so
when nothing is left every created id was freed exactly once.
-/
namespace Morfuse.Sched

structure Pool where
  ids : List Nat
  next : Nat
  deriving DecidableEq

inductive POp
  | new
  | del (i : Nat)
  deriving DecidableEq

def pStep (P : Pool) : POp → Option Pool
  | .new => some ⟨P.ids ++ [P.next], P.next + 1⟩
  | .del i => if i ∈ P.ids then some ⟨P.ids.filter (fun x => !(x == i)), P.next⟩ else none

def pRun : Pool → List POp → Option Pool
  | P, [] => some P
  | P, op :: ops => (pStep P op).bind (fun P1 => pRun P1 ops)

theorem pRun_cons {P P' : Pool} {op : POp} {ops : List POp} :
    pRun P (op :: ops) = some P' ↔ ∃ Q, pStep P op = some Q ∧ pRun Q ops = some P' := by
  simp only [pRun]
  cases pStep P op with
  | none => simp
  | some Q => simp

theorem pRun_append : ∀ (a b : List POp) (P P1 P2 : Pool), pRun P a = some P1 → pRun P1 b = some P2 →
    pRun P (a ++ b) = some P2
  | [], _, _, _, _, h1, h2 => by cases h1; exact h2
  | op :: a, b, P, P1, P2, h1, h2 => by
    obtain ⟨Q, hs, h1⟩ := pRun_cons.1 h1
    rw [List.cons_append]
    exact pRun_cons.2 ⟨Q, hs, pRun_append a b Q P1 P2 h1 h2⟩

/-- the ids handed out during the history -/
def created : Pool → List POp → List Nat
  | _, [] => []
  | P, .new :: ops => P.next :: created ⟨P.ids ++ [P.next], P.next + 1⟩ ops
  | P, .del i :: ops => created ⟨P.ids.filter (fun x => !(x == i)), P.next⟩ ops

structure PGood (P : Pool) : Prop where
  nodup : P.ids.Nodup
  lt : ∀ i ∈ P.ids, i < P.next

theorem PGood.step {P P1 : Pool} (h : PGood P) (op : POp) (hs : pStep P op = some P1) : PGood P1 := by
  cases op with
  | new =>
    simp only [pStep, Option.some.injEq] at hs
    subst hs
    refine ⟨?_, ?_⟩
    · refine List.nodup_append.2 ⟨h.nodup, by simp, ?_⟩
      intro a ha b hb
      simp at hb
      have := h.lt a ha
      omega
    · intro i hi
      rcases List.mem_append.1 hi with hi | hi
      · have := h.lt i hi; show i < P.next + 1; omega
      · simp at hi; show i < P.next + 1; omega
  | del i =>
    simp only [pStep] at hs
    split at hs
    · simp only [Option.some.injEq] at hs
      subst hs
      exact ⟨h.nodup.filter _, fun j hj => h.lt j (List.mem_filter.1 hj).1⟩
    · cases hs

theorem PGood.run : ∀ (ops : List POp) {P P' : Pool}, PGood P → pRun P ops = some P' → PGood P'
  | [], _, _, h, hr => by cases hr; exact h
  | op :: ops, P, P', h, hr => by
    obtain ⟨Q, hs, hr⟩ := pRun_cons.1 hr
    exact PGood.run ops (h.step op hs) hr

theorem pRun_next_le : ∀ (ops : List POp) {P P' : Pool}, pRun P ops = some P' → P.next ≤ P'.next
  | [], _, _, hr => by cases hr; exact Nat.le_refl _
  | op :: ops, P, P', hr => by
    obtain ⟨Q, hs, hr⟩ := pRun_cons.1 hr
    have hQ : True := trivial
    cases hQ with
    | intro =>
      have := pRun_next_le ops hr
      cases op with
      | new => simp only [pStep, Option.some.injEq] at hs; subst hs; exact Nat.le_trans (Nat.le_succ _) this
      | del i =>
        simp only [pStep] at hs
        split at hs
        · simp only [Option.some.injEq] at hs; subst hs; exact this
        · cases hs

/-- **ids are never reused**: the ids handed out are fresh (not below the counter at the start), and distinct -/
theorem created_fresh : ∀ (ops : List POp) (P : Pool), ∀ c ∈ created P ops, P.next ≤ c
  | [], _, c, h => by cases h
  | .new :: ops, P, c, h => by
    simp only [created, List.mem_cons] at h
    rcases h with h | h
    · omega
    · have := created_fresh ops _ c h
      exact Nat.le_trans (Nat.le_succ _) this
  | .del i :: ops, P, c, h => by
    simp only [created] at h
    exact created_fresh ops ⟨P.ids.filter (fun x => !(x == i)), P.next⟩ c h

theorem created_nodup : ∀ (ops : List POp) (P : Pool), (created P ops).Nodup
  | [], _ => List.nodup_nil
  | .new :: ops, P => by
    simp only [created]
    refine List.nodup_cons.2 ⟨?_, created_nodup ops _⟩
    intro h
    have := created_fresh ops _ _ h
    simp only at this
    omega
  | .del i :: ops, P => by simp only [created]; exact created_nodup ops _

/-- an id that is absent and below the counter is never freed (again) -/
theorem no_del_of_absent : ∀ (ops : List POp) {P P' : Pool} (i : Nat), i ∉ P.ids → i < P.next →
    pRun P ops = some P' → POp.del i ∉ ops
  | [], _, _, _, _, _, _ => by simp
  | op :: ops, P, P', i, hn, hl, hr => by
    obtain ⟨Q, hs, hr⟩ := pRun_cons.1 hr
    have hQ : True := trivial
    cases hQ with
    | intro =>
      cases op with
      | new =>
        simp only [pStep, Option.some.injEq] at hs
        subst hs
        have := no_del_of_absent ops (P := ⟨P.ids ++ [P.next], P.next + 1⟩) i
          (by simp only [List.mem_append, List.mem_singleton, not_or]; exact ⟨hn, by omega⟩)
          (by show i < P.next + 1; omega) hr
        simpa using this
      | del j =>
        simp only [pStep] at hs
        split at hs
        · rename_i hj
          simp only [Option.some.injEq] at hs
          subst hs
          have hne : j ≠ i := fun e => hn (e ▸ hj)
          have := no_del_of_absent ops (P := ⟨P.ids.filter (fun x => !(x == j)), P.next⟩) i
            (fun hm => hn (List.mem_filter.1 hm).1) hl hr
          simp only [List.mem_cons, not_or]
          exact ⟨fun e => hne (by cases e; rfl), this⟩
        · cases hs

/-- **freed at most once** -/
theorem del_count_le_one : ∀ (ops : List POp) {P P' : Pool} (i : Nat), PGood P → pRun P ops = some P' →
    ops.count (POp.del i) ≤ 1
  | [], _, _, _, _, _ => by simp
  | op :: ops, P, P', i, hg, hr => by
    obtain ⟨Q, hs, hr⟩ := pRun_cons.1 hr
    have hQ : True := trivial
    cases hQ with
    | intro =>
      have ih := del_count_le_one ops i (hg.step op hs) hr
      by_cases hop : op = POp.del i
      · subst hop
        simp only [pStep] at hs
        split at hs
        · rename_i hi
          simp only [Option.some.injEq] at hs
          subst hs
          have := no_del_of_absent ops (P := ⟨P.ids.filter (fun x => !(x == i)), P.next⟩) i
            (by simp [List.mem_filter]) (hg.lt i hi) hr
          rw [List.count_cons_self, List.count_eq_zero.2 this]; exact Nat.le_refl _
        · cases hs
      · rw [List.count_cons_of_ne (fun e => hop e)]; exact ih

/-- **the ids present at the end are the old and the created ones that were not freed** -/
theorem mem_after : ∀ (ops : List POp) {P P' : Pool} (i : Nat), PGood P → pRun P ops = some P' →
    (i ∈ P'.ids ↔ (i ∈ P.ids ∨ i ∈ created P ops) ∧ POp.del i ∉ ops)
  | [], _, _, i, _, hr => by cases hr; simp [created]
  | op :: ops, P, P', i, hg, hr => by
    obtain ⟨Q, hs, hr⟩ := pRun_cons.1 hr
    have hQ : True := trivial
    cases hQ with
    | intro =>
      have ih := mem_after ops i (hg.step op hs) hr
      cases op with
      | new =>
        simp only [pStep, Option.some.injEq] at hs
        subst hs
        rw [ih]
        simp only [created, List.mem_append, List.mem_singleton, List.mem_cons, List.not_mem_nil, or_false, not_or]
        constructor
        · rintro ⟨h1 | h1, h2⟩
          · rcases h1 with h1 | h1
            · exact ⟨Or.inl h1, by simp, h2⟩
            · exact ⟨Or.inr (Or.inl h1), by simp, h2⟩
          · exact ⟨Or.inr (Or.inr h1), by simp, h2⟩
        · rintro ⟨h1 | h1 | h1, _, h2⟩
          · exact ⟨Or.inl (Or.inl h1), h2⟩
          · exact ⟨Or.inl (Or.inr h1), h2⟩
          · exact ⟨Or.inr h1, h2⟩
      | del j =>
        simp only [pStep] at hs
        split at hs
        · rename_i hj
          simp only [Option.some.injEq] at hs
          subst hs
          rw [ih]
          simp only [created, List.mem_cons, not_or, List.mem_filter]
          by_cases hij : i = j
          · subst hij
            constructor
            · rintro ⟨h1 | h1, _⟩
              · simp at h1
              · have := created_fresh ops _ i h1
                have := hg.lt i hj
                simp at *; omega
            · rintro ⟨_, h2, _⟩; exact absurd rfl h2
          · constructor
            · rintro ⟨h1 | h1, h2⟩
              · exact ⟨Or.inl h1.1, fun e => hij (by cases e; rfl), h2⟩
              · exact ⟨Or.inr h1, fun e => hij (by cases e; rfl), h2⟩
            · rintro ⟨h1 | h1, _, h2⟩
              · exact ⟨Or.inl ⟨h1, by simpa using hij⟩, h2⟩
              · exact ⟨Or.inr h1, h2⟩
        · cases hs

/-- **all destroyed exactly once**: when nothing is left, every id that was present or created has exactly one
    destruction record -/
theorem all_freed_exactly_once {ops : List POp} {P P' : Pool} (hg : PGood P) (hr : pRun P ops = some P')
    (he : P'.ids = []) (i : Nat) (hi : i ∈ P.ids ∨ i ∈ created P ops) : ops.count (POp.del i) = 1 := by
  have h1 := del_count_le_one ops i hg hr
  have h2 : POp.del i ∈ ops := by
    apply Classical.byContradiction
    intro hn
    have := (mem_after ops i hg hr).2 ⟨hi, hn⟩
    rw [he] at this; cases this
  have := List.count_pos_iff.2 h2
  omega

end Morfuse.Sched
