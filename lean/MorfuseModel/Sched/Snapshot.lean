import MorfuseModel.Sched.Machine
/-!
# What `ScriptMaster::Archive` saves and restores, as a function on machine states

`save` keeps what the engine writes: every script instance with its VM chain, every thread (code
position, thread state, VM state, bound parameters), the listener tables of threads, and the timer
list (`m_time`, dirty flag, elements).  It does **not** keep: the host's `Event` result slots
(`call` links), the output, the clock (`TimeManager` is not reset by `Reset()` and keeps running),
host-owned objects.  `load` is `Reset()` followed by reading the snapshot back into the present
context.
-/
namespace Morfuse.Sched

structure Snap where
  insts : List (Nat × List Nat)
  threads : List (Nat × Th)
  timer : Timer
  notify : Tbl
  waitFor : Tbl
  endOn : Tbl
  nextTid : Nat
  nextInst : Nat

/-- `director.Archive(arc)` while writing -/
def save (s : State) : Snap :=
  ⟨s.insts, s.threads, s.timer, s.notify, s.waitFor, s.endOn, s.nextTid, s.nextInst⟩

/-- `director.Reset(); director.Archive(arc)` while reading, in the context `cur` (its clock, its
    compiled programs — reloaded by name through the host's file interface —, its objects, its old
    host-call records) -/
def load (cur : State) (k : Snap) : State :=
  { cur with insts := k.insts, threads := k.threads.map (fun e => (e.1, { e.2 with call := none })), timer := k.timer, notify := k.notify, waitFor := k.waitFor, endOn := k.endOn, nextTid := k.nextTid, nextInst := k.nextInst, cur := none, depth := 0, outOfFuel := false }

end Morfuse.Sched
