/-!
# The `m_NotifyList` / `m_WaitForList` / `m_EndList` tables of `Listener` (src/Script/Listener.cpp)

One table for all listeners: key `(owner, name)` ↦ `ConList` (list of listener ids, duplicates
allowed, insertion order).  "The owner has no table" is "no key with that owner".
-/
namespace Morfuse.Sched

abbrev Key := Nat × Nat
abbrev Tbl := List (Key × List Nat)

namespace Tbl

def find (t : Tbl) (k : Key) : Option (List Nat) := (t.find? (·.1 == k)).map (·.2)

def getD (t : Tbl) (k : Key) : List Nat := (find t k).getD []

def hasOwner (t : Tbl) (o : Nat) : Bool := t.any (·.1.1 == o)

/-- `addKeyValue(name).AddObject(x)` -/
def push (t : Tbl) (k : Key) (x : Nat) : Tbl :=
  if t.any (·.1 == k) then t.map (fun e => if e.1 == k then (e.1, e.2 ++ [x]) else e)
  else t ++ [(k, [x])]

/-- `addKeyValue(name).AddUniqueObject(x)` -/
def pushUnique (t : Tbl) (k : Key) (x : Nat) : Tbl :=
  if (getD t k).contains x then t else push t k x

def removeKey (t : Tbl) (k : Key) : Tbl := t.filter (fun e => !(e.1 == k))

def removeOwner (t : Tbl) (o : Nat) : Tbl := t.filter (fun e => !(e.1.1 == o))

/-- keys of one owner, in table order -/
def keysOf (t : Tbl) (o : Nat) : List (Nat × List Nat) :=
  (t.filter (·.1.1 == o)).map (fun e => (e.1.2, e.2))

/-- `UnregisterSource` / `UnregisterTarget`: remove every occurrence of `x` from the list at `k`;
    drop the key when the list becomes empty.  Returns whether `x` was found. -/
def removeAll (t : Tbl) (k : Key) (x : Nat) : Tbl × Bool :=
  match find t k with
  | none => (t, false)
  | some l =>
    let l' := l.filter (· != x)
    let found := l.contains x
    if l'.isEmpty then (removeKey t k, found)
    else (t.map (fun e => if e.1 == k then (e.1, l') else e), found)

end Tbl
end Morfuse.Sched
