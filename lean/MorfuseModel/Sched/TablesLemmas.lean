import MorfuseModel.Sched.Tables
/-!
# The listener tables seen as functions `key ↦ list`
-/
namespace Morfuse.Sched.Tbl

theorem find_eq_none_getD {t : Tbl} {k : Key} (h : find t k = none) : getD t k = [] := by
  simp [getD, h]

theorem getD_nil (k : Key) : getD [] k = [] := by simp [getD, find]

theorem getD_cons (e : Key × List Nat) (t : Tbl) (k : Key) :
    getD (e :: t) k = if e.1 = k then e.2 else getD t k := by
  unfold getD find
  by_cases h : e.1 = k
  · simp [List.find?_cons, h]
  · have : (e.1 == k) = false := by simpa using h
    simp [List.find?_cons, this, h]

theorem any_key_iff (t : Tbl) (k : Key) : t.any (·.1 == k) = true ↔ ∃ e ∈ t, e.1 = k := by
  simp [List.any_eq_true]

theorem getD_of_not_any {t : Tbl} {k : Key} (h : ¬ (t.any (·.1 == k) = true)) : getD t k = [] := by
  induction t with
  | nil => exact getD_nil k
  | cons e t ih =>
    rw [getD_cons]
    have he : ¬ e.1 = k := by
      intro e'; apply h; simp [e']
    simp only [he, if_false]
    apply ih
    intro h'; apply h
    simp only [List.any_cons, h', Bool.or_true]

theorem getD_map_upd (t : Tbl) (k : Key) (f : List Nat → List Nat) (k' : Key) :
    getD (t.map (fun e => if e.1 == k then (e.1, f e.2) else e)) k' =
      if k' = k then (if t.any (·.1 == k) then f (getD t k) else []) else getD t k' := by
  induction t with
  | nil => simp [getD_nil]
  | cons e t ih =>
    simp only [List.map_cons, getD_cons]
    by_cases hek : e.1 = k
    · have hb : (e.1 == k) = true := by simpa using hek
      simp only [hb, if_true]
      by_cases hk' : k' = k
      · subst hk'; simp [hek, getD_cons]
      · have : ¬ e.1 = k' := by rw [hek]; exact fun h => hk' h.symm
        simp only [this, if_false, hk', ih]
    · have hb : (e.1 == k) = false := by simpa using hek
      simp only [hb, Bool.false_eq_true, if_false, ih]
      by_cases hk' : k' = k
      · subst hk'
        simp only [hek, if_false, if_true, List.any_cons, hb, Bool.false_or]
      · simp [hk']

/-- (P1) -/
theorem getD_push (t : Tbl) (k : Key) (x : Nat) (k' : Key) :
    getD (push t k x) k' = if k' = k then getD t k ++ [x] else getD t k' := by
  unfold push
  split
  · rename_i h
    rw [getD_map_upd t k (· ++ [x]) k']
    simp [h]
  · rename_i h
    by_cases hk' : k' = k
    · subst hk'
      rw [getD_of_not_any h]
      simp only [if_true, List.nil_append]
      have : ∀ (t : Tbl), ¬ (t.any (·.1 == k') = true) → getD (t ++ [(k', [x])]) k' = [x] := by
        intro t
        induction t with
        | nil => intro _; simp [getD_cons]
        | cons e t ih =>
          intro h
          have he : ¬ e.1 = k' := by intro e'; apply h; simp [e']
          simp only [List.cons_append, getD_cons, he, if_false]
          apply ih
          intro h'; apply h; simp only [List.any_cons, h', Bool.or_true]
      exact this t h
    · simp only [hk', if_false]
      have : ∀ (t : Tbl), getD (t ++ [(k, [x])]) k' = getD t k' := by
        intro t
        induction t with
        | nil =>
          have : ¬ k = k' := fun h => hk' h.symm
          simp [getD_cons, getD_nil, this]
        | cons e t ih => simp only [List.cons_append, getD_cons, ih]
      exact this t

/-- (P2) -/
theorem getD_removeKey (t : Tbl) (k k' : Key) :
    getD (removeKey t k) k' = if k' = k then [] else getD t k' := by
  unfold removeKey
  induction t with
  | nil => simp [getD_nil]
  | cons e t ih =>
    by_cases hek : e.1 = k
    · have hb : (e.1 == k) = true := by simpa using hek
      simp only [List.filter_cons, hb, Bool.not_true, Bool.false_eq_true, if_false, ih, getD_cons]
      by_cases hk' : k' = k
      · simp [hk']
      · have : ¬ e.1 = k' := by rw [hek]; exact fun h => hk' h.symm
        simp [hk', this]
    · have hb : (e.1 == k) = false := by simpa using hek
      simp only [List.filter_cons, hb, Bool.not_false, if_true, getD_cons, ih]
      by_cases hk' : k' = k
      · subst hk'; simp [hek]
      · simp [hk']

/-- (P4) -/
theorem getD_removeOwner (t : Tbl) (o : Nat) (k' : Key) :
    getD (removeOwner t o) k' = if k'.1 = o then [] else getD t k' := by
  unfold removeOwner
  induction t with
  | nil => simp [getD_nil]
  | cons e t ih =>
    by_cases heo : e.1.1 = o
    · have hb : (e.1.1 == o) = true := by simpa using heo
      simp only [List.filter_cons, hb, Bool.not_true, Bool.false_eq_true, if_false, ih, getD_cons]
      by_cases hk' : k'.1 = o
      · simp [hk']
      · have : ¬ e.1 = k' := by intro h; apply hk'; rw [← h]; exact heo
        simp [hk', this]
    · have hb : (e.1.1 == o) = false := by simpa using heo
      simp only [List.filter_cons, hb, Bool.not_false, if_true, getD_cons, ih]
      by_cases hk' : k'.1 = o
      · have : ¬ e.1 = k' := by intro h; apply heo; rw [h]; exact hk'
        simp [hk', this]
      · simp [hk']

theorem find_some_any {t : Tbl} {k : Key} {l : List Nat} (h : find t k = some l) : t.any (·.1 == k) = true := by
  unfold find at h
  cases hf : t.find? (·.1 == k) with
  | none => simp [hf] at h
  | some e =>
    have := List.mem_of_find?_eq_some hf
    have hk := List.find?_some hf
    simp only [List.any_eq_true]
    exact ⟨e, this, hk⟩

/-- (P3) -/
theorem getD_removeAll (t : Tbl) (k : Key) (x : Nat) (k' : Key) :
    getD (removeAll t k x).1 k' = if k' = k then (getD t k).filter (· != x) else getD t k' := by
  unfold removeAll
  cases hf : find t k with
  | none =>
    by_cases hk' : k' = k
    · subst hk'; simp [find_eq_none_getD hf]
    · simp [hk']
  | some l =>
    have hg : getD t k = l := by simp [getD, hf]
    simp only
    split
    · rename_i he
      rw [getD_removeKey]
      by_cases hk' : k' = k
      · simp only [hk', if_true, hg]
        exact (List.isEmpty_iff.1 he).symm
      · simp [hk']
    · rw [getD_map_upd t k (fun _ => l.filter (· != x)) k']
      simp [find_some_any hf, hg]

theorem removeAll_found (t : Tbl) (k : Key) (x : Nat) :
    (removeAll t k x).2 = (getD t k).contains x := by
  unfold removeAll
  cases hf : find t k with
  | none => simp [find_eq_none_getD hf]
  | some l =>
    have hg : getD t k = l := by simp [getD, hf]
    simp only
    split <;> simp [hg]

theorem mem_keysOf {t : Tbl} {o n : Nat} {l : List Nat} (h : (n, l) ∈ keysOf t o) : ((o, n), l) ∈ t := by
  unfold keysOf at h
  simp only [List.mem_map, List.mem_filter] at h
  obtain ⟨e, ⟨he, ho⟩, heq⟩ := h
  have ho' : e.1.1 = o := by simpa using ho
  have : e = ((o, n), l) := by
    cases e with | mk k v => cases k with | mk a b =>
    simp at heq ho'; simp [heq, ho']
  rw [← this]; exact he

end Morfuse.Sched.Tbl
