/-!
# `con::timer` (src/Script/timer.cpp) — the list of timed waits

Elements are `(thread, due)` in insertion order; index 1 of the C++ container is the list head.
-/
namespace Morfuse.Sched

structure Timer where
  mtime : Nat := 0
  dirty : Bool := false
  elems : List (Nat × Nat) := []
  deriving Repr, DecidableEq

namespace Timer

/-- `timer::AddElement` -/
def add (t : Timer) (e due : Nat) : Timer :=
  { t with elems := t.elems ++ [(e, due)], dirty := t.dirty || decide (due ≤ t.mtime) }

/-- index (0-based) of the last element whose object is `e` — the loop runs from the highest index down -/
def lastIdxOf (l : List (Nat × Nat)) (e : Nat) : Option Nat :=
  (List.range l.length).reverse.find? (fun i => (l.getD i (0, 0)).1 == e)

/-- `timer::RemoveElement`: removes one element (the one with the highest index) -/
def remove (t : Timer) (e : Nat) : Timer :=
  match lastIdxOf t.elems e with
  | some i => { t with elems := t.elems.eraseIdx i }
  | none => t

/-- the scan of `GetNextElement`: from the highest index down, `<=` against the best so far, so the
    result is the smallest due time `≤ bound` and, among equals, the lowest index.
    `scan l base bound acc`: `l` is the part not yet visited *in visiting order* paired with indices. -/
def scan : List (Nat × (Nat × Nat)) → Nat → Option (Nat × (Nat × Nat)) → Nat × Option (Nat × (Nat × Nat))
  | [], best, acc => (best, acc)
  | (i, (e, d)) :: rest, best, acc =>
    if d ≤ best then scan rest d (some (i, (e, d))) else scan rest best acc

def indexed (l : List (Nat × Nat)) : List (Nat × (Nat × Nat)) :=
  (List.range l.length).zip l

/-- `timer::GetNextElement` -/
def next (t : Timer) : Option (Nat × Nat) × Timer :=
  match (scan (indexed t.elems).reverse t.mtime none).2 with
  | some (i, ed) => (some ed, { t with elems := t.elems.eraseIdx i })
  | none => (none, { t with dirty := false })

/-- `timer::SetTime` -/
def setTime (t : Timer) (time : Nat) : Timer := { t with mtime := time, dirty := true }

end Timer
end Morfuse.Sched
