import MorfuseModel.Sched.Timer
/-!
# What `timer::GetNextElement` returns (for every list of elements and every time)
-/
namespace Morfuse.Sched.Timer

abbrev IE := Nat × (Nat × Nat)     -- (index, (thread, due))

/-- `scan` never raises the bound, and an accumulator that is already set stays set -/
theorem scan_le : ∀ (l : List IE) (best : Nat) (acc : Option IE), (scan l best acc).1 ≤ best
  | [], _, _ => Nat.le_refl _
  | (i, (e, d)) :: rest, best, acc => by
    simp only [scan]
    split
    · rename_i h; exact Nat.le_trans (scan_le rest d _) h
    · exact scan_le rest best acc

/-- nothing is found exactly when nothing was due -/
theorem scan_none : ∀ (l : List IE) (best : Nat) (acc : Option IE),
    (scan l best acc).2 = none → acc = none ∧ ∀ x ∈ l, best < x.2.2
  | [], _, _ => by intro h; exact ⟨h, by simp⟩
  | (i, (e, d)) :: rest, best, acc => by
    simp only [scan]
    split
    · intro h; have := (scan_none rest d _ h).1; cases this
    · rename_i hd
      intro h
      obtain ⟨h1, h2⟩ := scan_none rest best acc h
      refine ⟨h1, ?_⟩
      intro x hx
      rcases List.mem_cons.1 hx with rfl | hx
      · exact Nat.lt_of_not_le hd
      · exact h2 x hx

/-- the due time of what is found is the final bound, provided the accumulator was consistent -/
theorem scan_some_due : ∀ (l : List IE) (best : Nat) (acc : Option IE),
    (∀ c, acc = some c → c.2.2 = best) →
    ∀ c, (scan l best acc).2 = some c → c.2.2 = (scan l best acc).1
  | [], _, _ => by intro hc c h; exact hc c h
  | (i, (e, d)) :: rest, best, acc => by
    intro hc c
    simp only [scan]
    split
    · exact scan_some_due rest d _ (by intro c' h'; cases h'; rfl) c
    · exact scan_some_due rest best acc hc c

/-- what is found is an element of the list (or the initial accumulator) -/
theorem scan_some_mem : ∀ (l : List IE) (best : Nat) (acc : Option IE),
    ∀ c, (scan l best acc).2 = some c → c ∈ l ∨ acc = some c
  | [], _, _ => by intro c h; exact Or.inr h
  | (i, (e, d)) :: rest, best, acc => by
    intro c
    simp only [scan]
    split
    · intro h
      rcases scan_some_mem rest d _ c h with h | h
      · exact Or.inl (List.mem_cons_of_mem _ h)
      · cases h; exact Or.inl (by simp)
    · intro h
      rcases scan_some_mem rest best acc c h with h | h
      · exact Or.inl (List.mem_cons_of_mem _ h)
      · exact Or.inr h

/-- the final bound is below every candidate (every element that was due w.r.t. the initial bound) -/
theorem scan_min : ∀ (l : List IE) (best : Nat) (acc : Option IE),
    ∀ x ∈ l, x.2.2 ≤ best → (scan l best acc).1 ≤ x.2.2
  | [], _, _ => by simp
  | (i, (e, d)) :: rest, best, acc => by
    intro x hx hxb
    simp only [scan]
    split
    · rename_i hd
      rcases List.mem_cons.1 hx with rfl | hx
      · exact scan_le rest _ _
      · by_cases hxd : x.2.2 ≤ d
        · exact scan_min rest d _ x hx hxd
        · exact Nat.le_trans (scan_le rest d _) (Nat.le_of_lt (Nat.lt_of_not_le hxd))
    · rename_i hd
      rcases List.mem_cons.1 hx with rfl | hx
      · exact absurd hxb hd
      · exact scan_min rest best acc x hx hxb

/-- an accumulator that survives the scan was not tied or beaten by anything visited later -/
theorem scan_keeps : ∀ (l : List IE) (best : Nat) (a : IE),
    (scan l best (some a)).2 = some a → (∀ x ∈ l, x.1 ≠ a.1) → ∀ x ∈ l, best < x.2.2
  | [], _, _ => by simp
  | (i, (e, d)) :: rest, best, a => by
    simp only [scan]
    split
    · intro h hne
      -- the head replaced the accumulator, so `a` can only come back as an element of `rest`
      rcases scan_some_mem rest d _ a h with hm | hm
      · exact absurd rfl (hne a (List.mem_cons_of_mem _ hm))
      · cases hm; exact absurd rfl (hne _ (by simp))
    · rename_i hd
      intro h hne x hx
      rcases List.mem_cons.1 hx with rfl | hx
      · exact Nat.lt_of_not_le hd
      · exact scan_keeps rest best a h (fun y hy => hne y (List.mem_cons_of_mem _ hy)) x hx

/-- tie-breaking: everything visited after the chosen element is strictly later -/
theorem scan_tie : ∀ (l : List IE) (best : Nat) (acc : Option IE) (c : IE),
    (l.map (·.1)).Nodup → (∀ a, acc = some a → ∀ x ∈ l, x.1 ≠ a.1) →
    (scan l best acc).2 = some c →
    ∀ pre post, l = pre ++ c :: post → ∀ x ∈ post, c.2.2 < x.2.2
  | [], _, _, _ => by intro _ _ _ pre post h; simp at h
  | (i, (e, d)) :: rest, best, acc, c => by
    intro hnd hacc
    have hnd' : (rest.map (·.1)).Nodup := by simp at hnd; exact hnd.2
    have hi : ∀ y ∈ rest, y.1 ≠ i := by
      simp at hnd; intro y hy e'; exact hnd.1 y.2.1 y.2.2 (by rw [← e']; exact hy)
    have hacc' : ∀ a, acc = some a → ∀ x ∈ rest, x.1 ≠ a.1 :=
      fun a ha x hx => hacc a ha x (List.mem_cons_of_mem _ hx)
    simp only [scan]
    split
    · intro h pre post hl x hx
      cases pre with
      | nil =>
        simp at hl
        obtain ⟨hc, hpost⟩ := hl
        subst hpost
        rw [← hc] at h ⊢
        exact scan_keeps rest d (i, (e, d)) h (by intro y hy; exact hi y hy) x hx
      | cons p pre' =>
        simp at hl
        exact scan_tie rest d _ c hnd' (by intro a ha y hy; cases ha; exact hi y hy) h pre' post hl.2 x hx
    · intro h pre post hl x hx
      cases pre with
      | nil =>
        simp at hl
        obtain ⟨hc, hpost⟩ := hl
        rcases scan_some_mem rest best acc c h with hm | hm
        · rw [← hc] at hm; exact absurd rfl (hi _ hm)
        · exact absurd rfl (hacc c hm (i, (e, d)) (by simp) |> fun hne => by rw [← hc] at hne; exact hne)
      | cons p pre' =>
        simp at hl
        exact scan_tie rest best acc c hnd' hacc' h pre' post hl.2 x hx

end Morfuse.Sched.Timer

namespace Morfuse.Sched.Timer

theorem indexed_getElem?_iff (l : List (Nat × Nat)) (i : Nat) (x : IE) :
    (indexed l)[i]? = some x ↔ x.1 = i ∧ l[i]? = some x.2 := by
  unfold indexed
  rw [List.getElem?_zip_eq_some]
  constructor
  · intro ⟨h1, h2⟩
    have := List.getElem?_range (n := l.length) (i := i)
    rcases Nat.lt_or_ge i l.length with hl | hl
    · rw [List.getElem?_range hl] at h1
      exact ⟨(Option.some.inj h1).symm, h2⟩
    · rw [List.getElem?_eq_none (by simpa using hl)] at h2; cases h2
  · intro ⟨h1, h2⟩
    have hl : i < l.length := by
      rcases Nat.lt_or_ge i l.length with hl | hl
      · exact hl
      · rw [List.getElem?_eq_none (by simpa using hl)] at h2; cases h2
    exact ⟨by rw [List.getElem?_range hl, h1], h2⟩

theorem mem_indexed (l : List (Nat × Nat)) (x : IE) : x ∈ indexed l ↔ l[x.1]? = some x.2 := by
  rw [List.mem_iff_getElem?]
  constructor
  · intro ⟨i, hi⟩
    obtain ⟨h1, h2⟩ := (indexed_getElem?_iff l i x).1 hi
    rw [h1]; exact h2
  · intro h
    exact ⟨x.1, (indexed_getElem?_iff l x.1 x).2 ⟨rfl, h⟩⟩

theorem indexed_fst_nodup (l : List (Nat × Nat)) : ((indexed l).map (·.1)).Nodup := by
  unfold indexed
  rw [List.map_fst_zip (by simp)]
  exact List.nodup_range

/-- Specification of `timer::GetNextElement` when it returns an element. -/
theorem next_some {t t' : Timer} {e d : Nat} (h : t.next = (some (e, d), t')) :
    ∃ i, t.elems[i]? = some (e, d) ∧ d ≤ t.mtime ∧
      (∀ j e' d', t.elems[j]? = some (e', d') → d' ≤ t.mtime → d ≤ d' ∧ (d' = d → i ≤ j)) ∧
      t' = { t with elems := t.elems.eraseIdx i } := by
  unfold next at h
  split at h
  · rename_i i ed hs
    have hed : ed = (e, d) := by simp at h; exact h.1
    have ht' : t' = { t with elems := t.elems.eraseIdx i } := by simp at h; exact h.2.symm
    subst hed
    refine ⟨i, ?_, ?_, ?_, ht'⟩
    · rcases scan_some_mem _ _ _ _ hs with hm | hm
      · have := (mem_indexed t.elems (i, (e, d))).1 (List.mem_reverse.1 hm)
        exact this
      · cases hm
    · have h1 := scan_some_due _ t.mtime none (by intro c hc; cases hc) _ hs
      have h2 := scan_le (indexed t.elems).reverse t.mtime none
      simp only at h1; omega
    · intro j e' d' hj hd'
      have hmem : (j, (e', d')) ∈ (indexed t.elems).reverse :=
        List.mem_reverse.2 ((mem_indexed t.elems (j, (e', d'))).2 hj)
      have h1 := scan_some_due _ t.mtime none (by intro c hc; cases hc) _ hs
      have hmin := scan_min (indexed t.elems).reverse t.mtime none _ hmem hd'
      simp only at h1 hmin
      refine ⟨by omega, ?_⟩
      intro hdd
      -- tie: an equal element with a smaller index would have replaced the chosen one
      rcases Nat.lt_or_ge j i with hji | hji
      · exfalso
        have hci : (indexed t.elems)[i]? = some (i, (e, d)) := by
          rcases scan_some_mem _ _ _ _ hs with hm | hm
          · exact (indexed_getElem?_iff _ _ _).2 ⟨rfl, (mem_indexed t.elems (i, (e, d))).1 (List.mem_reverse.1 hm)⟩
          · cases hm
        have hilt : i < (indexed t.elems).length := by
          rcases Nat.lt_or_ge i (indexed t.elems).length with h | h
          · exact h
          · rw [List.getElem?_eq_none h] at hci; cases hci
        have hdecomp : indexed t.elems =
            (indexed t.elems).take i ++ (i, (e, d)) :: (indexed t.elems).drop (i + 1) := by
          have hget : (indexed t.elems)[i] = (i, (e, d)) := by
            rw [List.getElem?_eq_getElem hilt] at hci; exact Option.some.inj hci
          rw [← hget]
          exact (List.take_append_drop i _).symm.trans (by rw [List.drop_eq_getElem_cons hilt])
        have hrev : (indexed t.elems).reverse =
            ((indexed t.elems).drop (i + 1)).reverse ++ (i, (e, d)) :: ((indexed t.elems).take i).reverse := by
          conv => lhs; rw [hdecomp]
          simp
        have hjmem : (j, (e', d')) ∈ ((indexed t.elems).take i).reverse := by
          apply List.mem_reverse.2
          rw [List.mem_iff_getElem?]
          refine ⟨j, ?_⟩
          rw [List.getElem?_take_of_lt hji]
          exact (indexed_getElem?_iff _ _ _).2 ⟨rfl, hj⟩
        have hnd : (((indexed t.elems).reverse).map (·.1)).Nodup := by
          rw [List.map_reverse]; exact (List.reverse_perm _).nodup_iff.2 (indexed_fst_nodup _)
        have := scan_tie _ t.mtime none (i, (e, d)) hnd (by intro a ha; cases ha) hs _ _ hrev _ hjmem
        simp only at this
        omega
      · exact hji
  · simp at h

/-- Specification of `timer::GetNextElement` when it returns nothing. -/
theorem next_none {t t' : Timer} (h : t.next = (none, t')) :
    (∀ ed ∈ t.elems, t.mtime < ed.2) ∧ t' = { t with dirty := false } := by
  unfold next at h
  split at h
  · simp at h
  · rename_i hs
    obtain ⟨_, hall⟩ := scan_none _ _ _ hs
    refine ⟨?_, by simp at h; exact h.symm⟩
    intro ed hed
    obtain ⟨i, hi⟩ := List.mem_iff_getElem?.1 hed
    have := hall (i, ed) (List.mem_reverse.2 ((mem_indexed t.elems (i, ed)).2 hi))
    exact this

end Morfuse.Sched.Timer
