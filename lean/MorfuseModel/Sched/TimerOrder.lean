import MorfuseModel.Sched.MachineTimerTraceHost
import MorfuseModel.Sched.MachineInvStruct
/-!
# Resumption order over a whole drain / a whole frame

`chronDues tm ops`: the due times of the elements returned by the `next` operations of a history, in chronological
order.  For a history without `setTime` in which every `add` carries a due time `≥ m_time` (what the machine does
between two `SetTime`s: `due = scaledTime + d`, `scaledTime = m_time`), the returned due times are **nondecreasing**:
elements present at the start come out by increasing due time, elements registered meanwhile (`wait 0`, re-timed
`waitthread` callers: due `= m_time`) come after every element that was due earlier.
-/
namespace Morfuse.Sched

def chronDues : Timer → List TOp → List Nat
  | _, [] => []
  | tm, .next :: ops =>
    match tm.next with
    | (some (_, d), tm') => d :: chronDues tm' ops
    | (none, tm') => chronDues tm' ops
  | tm, op :: ops => chronDues (timerRun tm [op]) ops

/-- every due element of the timer is not before `lb` -/
def LowerBound (tm : Timer) (lb : Nat) : Prop := ∀ e ∈ tm.elems, e.2 ≤ tm.mtime → lb ≤ e.2

theorem chronDues_sorted : ∀ (ops : List TOp) (tm : Timer) (lb : Nat), NoSet ops → AddsLate tm ops →
    LowerBound tm lb → lb ≤ tm.mtime →
    (∀ d ∈ chronDues tm ops, lb ≤ d) ∧ (chronDues tm ops).Pairwise (· ≤ ·)
  | [], _, _, _, _, _, _ => ⟨(fun d h => by cases h), List.Pairwise.nil⟩
  | op :: ops, tm, lb, hn, ha, hl, hm => by
    have hn' : NoSet ops := fun o ho => hn o (List.mem_cons_of_mem _ ho)
    cases op with
    | add e due =>
      have hdue : tm.mtime ≤ due := ha.1
      have hl' : LowerBound (timerRun tm [.add e due]) lb := by
        intro x hx hxd
        rw [timerRun_add] at hx hxd
        simp only [Timer.add, List.mem_append, List.mem_singleton] at hx
        rcases hx with hx | hx
        · exact hl x hx hxd
        · subst hx
          have : due ≤ tm.mtime := hxd
          show lb ≤ due
          omega
      exact chronDues_sorted ops _ lb hn' ha.2 hl' (by rw [timerRun_add]; exact hm)
    | remove e =>
      have hl' : LowerBound (timerRun tm [.remove e]) lb := by
        intro x hx hxd
        rw [timerRun_remove] at hx hxd
        have hmt : (tm.remove e).mtime = tm.mtime := by unfold Timer.remove; split <;> rfl
        rw [hmt] at hxd
        exact hl x (removeLast_sub tm e x hx) hxd
      exact chronDues_sorted ops _ lb hn' ha.2 hl'
        (by rw [timerRun_one_mtime tm (.remove e) (fun T h => by cases h)]; exact hm)
    | setTime T => exact absurd rfl (hn (.setTime T) List.mem_cons_self T)
    | next =>
      have ha2 : AddsLate tm.next.2 ops := by have := ha.2; rw [timerRun_next] at this; exact this
      simp only [chronDues]
      cases hnx : tm.next with
      | mk r tm' =>
        rw [hnx] at ha2
        cases r with
        | none =>
          simp only
          obtain ⟨_, h2⟩ := Timer.next_none hnx
          subst h2
          exact chronDues_sorted ops _ lb hn' ha2 (fun x hx hxd => hl x hx hxd) hm
        | some ed =>
          obtain ⟨e, d⟩ := ed
          simp only
          obtain ⟨i, hi, hd, hmin, h2⟩ := Timer.next_some hnx
          subst h2
          have hmem : (e, d) ∈ tm.elems := List.mem_of_getElem? hi
          have hlbd : lb ≤ d := hl (e, d) hmem hd
          have hl' : LowerBound ({ tm with elems := tm.elems.eraseIdx i } : Timer) d := by
            intro x hx hxd
            have hx' : x ∈ tm.elems := (List.eraseIdx_sublist _ _).subset hx
            obtain ⟨j, hj⟩ := List.mem_iff_getElem?.1 hx'
            exact (hmin j x.1 x.2 hj hxd).1
          obtain ⟨r1, r2⟩ := chronDues_sorted ops _ d hn' ha2 hl' hd
          refine ⟨?_, List.Pairwise.cons (fun y hy => r1 y hy) r2⟩
          intro y hy
          rcases List.mem_cons.1 hy with hy | hy
          · rw [hy]; exact hlbd
          · exact Nat.le_trans hlbd (r1 y hy)

/-- **one call: the resumed due times are nondecreasing** (from a state whose `m_time` is not ahead of
    `scaledTime`, as between host operations and after `SetTime`) -/
theorem tt_dues_sorted {s s' : State} (r : TT s s') (hm : s.timer.mtime ≤ s.scaled) :
    ∃ ops : List TOp, timerRun s.timer ops = s'.timer ∧ NoSet ops ∧ AddsLate s.timer ops ∧
      (chronDues s.timer ops).Pairwise (· ≤ ·) := by
  obtain ⟨ops, hr, hn, ha⟩ := r.run
  have hl := addsLate_of ops s.timer s.scaled hn ha hm
  exact ⟨ops, hr, hn, hl, (chronDues_sorted ops s.timer 0 hn hl (fun _ _ _ => Nat.zero_le _) (Nat.zero_le _)).2⟩

end Morfuse.Sched
