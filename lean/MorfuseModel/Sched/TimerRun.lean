import MorfuseModel.Sched.Timer
/-!
# Histories of timer operations and their ledger

`TOp` = the four operations of `con::timer`; `TRun` = a timer together with the ledger of everything that ever
happened to it (added, returned with the `m_time` of the moment, removed).  The theorems about every history are
in `Props/C06.lean`; `Sched/MachineTimerTrace.lean` shows that the scheduler machine's timer is the result of such a
history.
-/
namespace Morfuse.Sched

inductive TOp
  | add (e due : Nat)        -- `AddElement` (a thread executed `wait`, or was re-timed)
  | remove (e : Nat)         -- `RemoveElement` (`Stop()` of a timing thread, thread destruction)
  | setTime (t : Nat)        -- `SetTime` (host frame)
  | next                     -- one iteration of the `ExecuteRunning` loop
  deriving Repr, DecidableEq

/-- a timer together with the ledger of everything that ever happened to it -/
structure TRun where
  t : Timer := {}
  added : List (Nat × Nat) := []
  returned : List ((Nat × Nat) × Nat) := []     -- element and `m_time` at the moment it was returned
  removed : List (Nat × Nat) := []

def TRun.step (r : TRun) : TOp → TRun
  | .add e d => { r with t := r.t.add e d, added := (e, d) :: r.added }
  | .remove e =>
    match Timer.lastIdxOf r.t.elems e with
    | some i => { r with t := r.t.remove e, removed := r.t.elems.getD i (0, 0) :: r.removed }
    | none => r
  | .setTime time => { r with t := r.t.setTime time }
  | .next =>
    match r.t.next with
    | (some ed, t') => { r with t := t', returned := (ed, r.t.mtime) :: r.returned }
    | (none, t') => { r with t := t' }

def TRun.run (r : TRun) (ops : List TOp) : TRun := ops.foldl TRun.step r


/-- the timer after a history (the ledger forgotten) -/
def timerRun (tm : Timer) (ops : List TOp) : Timer := (TRun.run { t := tm } ops).t

theorem TRun.step_t (r r' : TRun) (h : r.t = r'.t) (op : TOp) : (r.step op).t = (r'.step op).t := by
  cases op with
  | add e d => simp only [TRun.step, h]
  | remove e =>
    simp only [TRun.step, h]
    split <;> simp [h]
  | setTime T => simp only [TRun.step, h]
  | next =>
    simp only [TRun.step, h]
    split <;> rfl

theorem TRun.run_t : ∀ (ops : List TOp) (r r' : TRun), r.t = r'.t → (r.run ops).t = (r'.run ops).t
  | [], _, _, h => h
  | op :: ops, r, r', h => by
    simp only [TRun.run, List.foldl_cons]
    exact TRun.run_t ops _ _ (TRun.step_t r r' h op)

theorem timerRun_of_run (r : TRun) (ops : List TOp) : (r.run ops).t = timerRun r.t ops :=
  TRun.run_t ops r { t := r.t } rfl

theorem timerRun_nil (tm : Timer) : timerRun tm [] = tm := rfl

theorem timerRun_append (tm : Timer) (a b : List TOp) : timerRun tm (a ++ b) = timerRun (timerRun tm a) b := by
  unfold timerRun
  simp only [TRun.run, List.foldl_append]
  exact TRun.run_t b _ _ rfl

theorem timerRun_add (tm : Timer) (e d : Nat) : timerRun tm [.add e d] = tm.add e d := rfl
theorem timerRun_setTime (tm : Timer) (T : Nat) : timerRun tm [.setTime T] = tm.setTime T := rfl
theorem timerRun_next (tm : Timer) : timerRun tm [.next] = tm.next.2 := by
  unfold timerRun TRun.run
  simp only [List.foldl_cons, List.foldl_nil, TRun.step]
  split <;> (rename_i h; simp [h])
theorem timerRun_remove (tm : Timer) (e : Nat) : timerRun tm [.remove e] = tm.remove e := by
  unfold timerRun TRun.run
  simp only [List.foldl_cons, List.foldl_nil, TRun.step]
  cases h : Timer.lastIdxOf tm.elems e with
  | none => simp [Timer.remove, h]
  | some i => simp

end Morfuse.Sched
