import MorfuseModel.Str.Model
/-!
# Lemmas for the `mfuse::str` model: heap invariant and the four balanced pointer moves

`U` is the (finite, duplicate-free) family of `str` objects a history talks about.  The invariant
says: every block in the heap is well formed (`alloced` = what was allocated, `len` = `strlen`, the
terminator fits), its `refcount + 1` is the number of objects of `U` that point to it (so no block
is leaked and none is freed while in use), and no object of `U` points to a freed block.
-/
namespace Morfuse.Str

@[simp] theorem ok_bind {β γ : Type} (a : β) (f : β → R γ) : (Except.ok a >>= f) = f a := rfl
@[simp] theorem error_bind {β γ : Type} (e : Fault) (f : β → R γ) : ((Except.error e : R β) >>= f) = .error e := rfl

/-! ### counting -/

theorem countP_update (f : Nat → Nat) (h q p : Nat) : ∀ (U : List Nat), U.Nodup → h ∈ U →
    (U.countP fun x => (if x = h then q else f x) = p) + (if f h = p then 1 else 0) =
      (U.countP fun x => f x = p) + (if q = p then 1 else 0)
  | [], _, hm => by cases hm
  | u :: U, hn, hm => by
    rw [List.nodup_cons] at hn
    simp only [List.countP_cons]
    by_cases hu : u = h
    · subst hu
      -- `u` does not occur in the tail: the tail counts agree
      have htail : (U.countP fun x => (if x = u then q else f x) = p) = U.countP fun x => f x = p := by
        apply List.countP_congr
        intro x hx
        have : x ≠ u := fun e => hn.1 (e ▸ hx)
        simp [this]
      rw [htail]
      simp only [if_true]
      by_cases h1 : f u = p <;> by_cases h2 : q = p <;> simp [h1, h2] <;> omega
    · have hm' : h ∈ U := by
        rcases List.mem_cons.mp hm with e | e
        · exact absurd e.symm hu
        · exact e
      have ih := countP_update f h q p U hn.2 hm'
      simp only [hu, if_false]
      by_cases h1 : f u = p <;> simp [h1] <;> omega

theorem two_le_countP (P : Nat → Bool) : ∀ (U : List Nat) {h g : Nat}, h ∈ U → g ∈ U → h ≠ g → P h = true → P g = true →
    2 ≤ U.countP P
  | [], _, _, hh, _, _, _, _ => by cases hh
  | u :: U, h, g, hh, hg, hne, ph, pg => by
    simp only [List.countP_cons]
    rcases List.mem_cons.mp hh with rfl | hh' <;> rcases List.mem_cons.mp hg with rfl | hg'
    · exact absurd rfl hne
    · have : 0 < U.countP P := List.countP_pos_iff.mpr ⟨g, hg', pg⟩
      rw [if_pos ph]; omega
    · have : 0 < U.countP P := List.countP_pos_iff.mpr ⟨h, hh', ph⟩
      rw [if_pos pg]; omega
    · have := two_le_countP P U hh' hg' hne ph pg
      omega

/-! ### state helpers -/

def setPtr (s : State) (h q : Nat) : State := { s with hs := s.hs.set h q }
def setData (s : State) (p : Nat) (d : Data) : State := { s with heap := s.heap.set p d }
def dropData (s : State) (p : Nat) : State := { s with heap := s.heap.erase p }

@[simp] theorem ptr_setPtr (s : State) (h q x : Nat) : ptr (setPtr s h q) x = if x = h then q else ptr s x := by
  simp [ptr, setPtr, Mem.get_set]
@[simp] theorem ptr_setData (s : State) (p : Nat) (d : Data) (x : Nat) : ptr (setData s p d) x = ptr s x := rfl
@[simp] theorem ptr_dropData (s : State) (p x : Nat) : ptr (dropData s p) x = ptr s x := rfl
@[simp] theorem heap_setPtr (s : State) (h q : Nat) : (setPtr s h q).heap = s.heap := rfl
@[simp] theorem get_setData (s : State) (p : Nat) (d : Data) (x : Nat) :
    (setData s p d).heap.get? x = if x = p then some d else s.heap.get? x := by
  simp [setData, Heap.get?_set]
@[simp] theorem get_dropData (s : State) (p x : Nat) :
    (dropData s p).heap.get? x = if x = p then none else s.heap.get? x := by
  simp [dropData, Heap.get?_erase]
@[simp] theorem nextId_setPtr (s : State) (h q : Nat) : (setPtr s h q).nextId = s.nextId := rfl
@[simp] theorem nextId_setData (s : State) (p : Nat) (d : Data) : (setData s p d).nextId = s.nextId := rfl
@[simp] theorem nextId_dropData (s : State) (p : Nat) : (dropData s p).nextId = s.nextId := rfl

/-- number of objects of `U` whose `m_data` is `p` -/
def cnt (U : List Nat) (s : State) (p : Nat) : Nat := U.countP fun h => ptr s h = p

/-- a block is well formed -/
def WFd (d : Data) : Prop := d.alloced = d.cap ∧ d.len = d.bytes.length ∧ d.bytes.length + 1 ≤ d.cap

structure Inv (U : List Nat) (s : State) : Prop where
  nodup : U.Nodup
  nid : 0 < s.nextId
  heap : ∀ p d, s.heap.get? p = some d → 0 < p ∧ p < s.nextId ∧ WFd d ∧ d.refcount + 1 = cnt U s p
  live : ∀ h ∈ U, ptr s h ≠ 0 → ∃ d, s.heap.get? (ptr s h) = some d

theorem inv_init (U : List Nat) (hU : U.Nodup) : Inv U init where
  nodup := hU
  nid := by simp [init]
  heap := by intro p d h; simp [init] at h
  live := by intro h _ hp; simp [ptr, init] at hp

theorem cnt_setPtr {U : List Nat} (hU : U.Nodup) (s : State) (h q p : Nat) (hh : h ∈ U) :
    cnt U (setPtr s h q) p + (if ptr s h = p then 1 else 0) = cnt U s p + (if q = p then 1 else 0) := by
  have := countP_update (ptr s) h q p U hU hh
  simpa [cnt] using this

theorem cnt_setData (U : List Nat) (s : State) (p' : Nat) (d : Data) (p : Nat) : cnt U (setData s p' d) p = cnt U s p := rfl
theorem cnt_dropData (U : List Nat) (s : State) (p' p : Nat) : cnt U (dropData s p') p = cnt U s p := rfl

theorem cnt_pos_of_mem {U : List Nat} {s : State} {h : Nat} (hh : h ∈ U) : 0 < cnt U s (ptr s h) := by
  unfold cnt
  exact List.countP_pos_iff.mpr ⟨h, hh, by simp⟩

/-- a handle of `U` never points at or beyond `nextId` -/
theorem Inv.ptr_lt {U : List Nat} {s : State} (hi : Inv U s) {h : Nat} (hh : h ∈ U) : ptr s h < s.nextId := by
  by_cases hp : ptr s h = 0
  · rw [hp]; exact hi.nid
  · obtain ⟨d, hd⟩ := hi.live h hh hp
    exact (hi.heap _ _ hd).2.1

theorem Inv.cnt_fresh {U : List Nat} {s : State} (hi : Inv U s) : cnt U s s.nextId = 0 := by
  unfold cnt
  rw [List.countP_eq_zero]
  intro h hh
  have := hi.ptr_lt hh
  simp; omega

theorem Inv.cnt_zero_of_free {U : List Nat} {s : State} (hi : Inv U s) {p : Nat} (hp : 0 < p)
    (hf : s.heap.get? p = none) : cnt U s p = 0 := by
  unfold cnt
  rw [List.countP_eq_zero]
  intro h hh
  simp only [decide_eq_true_eq]
  intro e
  have : ptr s h ≠ 0 := by omega
  obtain ⟨d, hd⟩ := hi.live h hh this
  rw [e, hf] at hd; cases hd

end Morfuse.Str
