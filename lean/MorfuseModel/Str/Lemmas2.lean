import MorfuseModel.Str.Lemmas
/-!
# Lemmas for the `mfuse::str` model, part 2: the balanced moves

Every member function is a composition of
* `fresh`    — a null string gets a new private block,
* `release`  — a string lets go of its block (`DelRef`, pointer := null),
* `share`    — a null string starts sharing an existing block (`AddRef`),
* `transfer` — a null string takes over another string's pointer, which becomes null,
* `replace`  — a string swaps its block for a new private one (`DelRef` old, allocate),
* `update`   — the characters / length of a block change (refcount and capacity stay).
Each keeps `Inv`; what the other strings read (`cstr`) is unchanged, except for `update` of a block
they share — which is why the mutators first make the block private.
-/
namespace Morfuse.Str
variable {U : List Nat}

theorem Inv.get_zero {s : State} (hi : Inv U s) : s.heap.get? 0 = none := by
  cases h : s.heap.get? 0 with
  | none => rfl
  | some d => have := (hi.heap 0 d h).1; omega

theorem cstr_of_get {s : State} {h : Nat} {d : Data} (hd : s.heap.get? (ptr s h) = some d) (hp : ptr s h ≠ 0) :
    cstr s h = d.bytes ∧ length s h = d.len := by
  simp [cstr, length, hd, hp]

theorem cstr_null {s : State} {h : Nat} (hp : ptr s h = 0) (hi : Inv U s) : cstr s h = [] ∧ length s h = 0 := by
  simp [cstr, length, hp, hi.get_zero]

theorem Inv.length_eq {s : State} (hi : Inv U s) {h : Nat} (hh : h ∈ U) : length s h = (cstr s h).length := by
  by_cases hp : ptr s h = 0
  · simp [cstr_null hp hi]
  · obtain ⟨d, hd⟩ := hi.live h hh hp
    obtain ⟨a, b⟩ := cstr_of_get hd hp
    rw [a, b]; exact (hi.heap _ _ hd).2.2.1.2.1

/-- reading through a handle depends only on the pointer and the block it points to -/
theorem cstr_congr {s s' : State} {g : Nat} (hp : ptr s' g = ptr s g)
    (hb : (s'.heap.get? (ptr s g)).map (·.bytes) = (s.heap.get? (ptr s g)).map (·.bytes)) :
    cstr s' g = cstr s g := by
  simp only [cstr, hp]
  cases h1 : s.heap.get? (ptr s g) <;> cases h2 : s'.heap.get? (ptr s g) <;> simp_all

/-! ### fresh -/

theorem fresh_spec {s : State} (hi : Inv U s) {h : Nat} (hh : h ∈ U) (hp : ptr s h = 0) (d : Data)
    (hd : WFd d) (hr : d.refcount = 0) :
    Inv U (setPtr (alloc s d).1 h (alloc s d).2) ∧
    ptr (setPtr (alloc s d).1 h (alloc s d).2) h = s.nextId ∧
    (setPtr (alloc s d).1 h (alloc s d).2).heap.get? s.nextId = some d ∧
    (∀ g, g ≠ h → ptr (setPtr (alloc s d).1 h (alloc s d).2) g = ptr s g) ∧
    (∀ p, p ≠ s.nextId → (setPtr (alloc s d).1 h (alloc s d).2).heap.get? p = s.heap.get? p) := by
  have e1 : (alloc s d).1 = { setData s s.nextId d with nextId := s.nextId + 1 } := rfl
  have e2 : (alloc s d).2 = s.nextId := rfl
  have hget : ∀ p, (setPtr (alloc s d).1 h (alloc s d).2).heap.get? p = if p = s.nextId then some d else s.heap.get? p := by
    intro p; rw [e1]; simp [setPtr, setData, Heap.get?_set]
  have hptr : ∀ g, ptr (setPtr (alloc s d).1 h (alloc s d).2) g = if g = h then s.nextId else ptr s g := by
    intro g; rw [e1, e2]; simp [ptr, setPtr, setData, Mem.get_set]
  have hcnt : ∀ p, cnt U (setPtr (alloc s d).1 h (alloc s d).2) p + (if (0 : Nat) = p then 1 else 0)
      = cnt U s p + (if s.nextId = p then 1 else 0) := by
    intro p
    have := cnt_setPtr hi.nodup { setData s s.nextId d with nextId := s.nextId + 1 } h s.nextId p hh
    have e3 : ptr { setData s s.nextId d with nextId := s.nextId + 1 } h = 0 := hp
    rw [e3] at this
    rw [e1, e2]
    exact this
  refine ⟨?_, by rw [hptr]; simp, by rw [hget]; simp, fun g hg => by rw [hptr]; simp [hg],
    fun p hp' => by rw [hget]; simp [hp']⟩
  refine { nodup := hi.nodup, nid := by rw [e1]; simp [setPtr], heap := ?_, live := ?_ }
  · intro p d' hd'
    rw [hget] at hd'
    have hn : (setPtr (alloc s d).1 h (alloc s d).2).nextId = s.nextId + 1 := by rw [e1]; rfl
    rw [hn]
    by_cases hpn : p = s.nextId
    · subst hpn
      simp only [if_true, Option.some.injEq] at hd'
      subst hd'
      have := hcnt s.nextId
      have h0 : ¬ (0 = s.nextId) := by have := hi.nid; omega
      rw [hi.cnt_fresh] at this
      simp only [h0, if_false, if_true] at this
      exact ⟨hi.nid, by omega, hd, by omega⟩
    · simp only [hpn, if_false] at hd'
      obtain ⟨a, b, c, e⟩ := hi.heap p d' hd'
      have := hcnt p
      have h0 : ¬ (0 = p) := by omega
      have h1 : ¬ (s.nextId = p) := fun e => hpn e.symm
      simp only [h0, h1, if_false] at this
      exact ⟨a, by omega, c, by omega⟩
  · intro g hg hpg
    rw [hptr] at hpg ⊢
    by_cases hgh : g = h
    · simp only [hgh, if_true]
      exact ⟨d, by rw [hget]; simp⟩
    · simp only [hgh, if_false] at hpg ⊢
      obtain ⟨d', hd'⟩ := hi.live g hg hpg
      have : ptr s g ≠ s.nextId := by have := hi.ptr_lt hg; omega
      exact ⟨d', by rw [hget]; simp [this, hd']⟩

/-! ### release: `DelRef` + pointer := null -/

/-- the heap after `strdata::DelRef()` on block `p` holding `d` -/
def afterDelRef (s : State) (p : Nat) (d : Data) : State :=
  if d.refcount = 0 then dropData s p else setData s p { d with refcount := d.refcount - 1 }

theorem delRef_eq {s : State} {p : Nat} {d : Data} (hp : p ≠ 0) (hd : s.heap.get? p = some d) :
    delRef s p = .ok (afterDelRef s p d) := by
  simp only [delRef, deref, hp, if_false, hd, ok_bind, afterDelRef]
  split <;> rfl

theorem addRef_eq {s : State} {p : Nat} {d : Data} (hp : p ≠ 0) (hd : s.heap.get? p = some d) :
    addRef s p = .ok (setData s p { d with refcount := d.refcount + 1 }) := by
  simp only [addRef, deref, hp, if_false, hd, ok_bind]; rfl

theorem get_afterDelRef (s : State) (p : Nat) (d : Data) (x : Nat) :
    (afterDelRef s p d).heap.get? x =
      if x = p then (if d.refcount = 0 then none else some { d with refcount := d.refcount - 1 })
      else s.heap.get? x := by
  unfold afterDelRef
  split <;> simp <;> split <;> simp_all

@[simp] theorem ptr_afterDelRef (s : State) (p : Nat) (d : Data) (x : Nat) : ptr (afterDelRef s p d) x = ptr s x := by
  unfold afterDelRef; split <;> rfl
@[simp] theorem nextId_afterDelRef (s : State) (p : Nat) (d : Data) : (afterDelRef s p d).nextId = s.nextId := by
  unfold afterDelRef; split <;> rfl
theorem cnt_afterDelRef (s : State) (p : Nat) (d : Data) (x : Nat) : cnt U (afterDelRef s p d) x = cnt U s x := by
  unfold afterDelRef; split <;> rfl

theorem release_spec {s : State} (hi : Inv U s) {h : Nat} (hh : h ∈ U) {p : Nat} (hp : ptr s h = p) (hp0 : p ≠ 0)
    {d : Data} (hd : s.heap.get? p = some d) :
    Inv U (setPtr (afterDelRef s p d) h 0) ∧
    (∀ g ∈ U, g ≠ h → cstr (setPtr (afterDelRef s p d) h 0) g = cstr s g) := by
  have hcnt : ∀ x, cnt U (setPtr (afterDelRef s p d) h 0) x + (if p = x then 1 else 0)
      = cnt U s x + (if (0 : Nat) = x then 1 else 0) := by
    intro x
    have := cnt_setPtr hi.nodup (afterDelRef s p d) h 0 x hh
    rw [ptr_afterDelRef, hp, cnt_afterDelRef] at this
    exact this
  obtain ⟨a, b, c, e⟩ := hi.heap p d hd
  constructor
  · refine { nodup := hi.nodup, nid := by simpa using hi.nid, heap := ?_, live := ?_ }
    · intro x d' hd'
      rw [heap_setPtr, get_afterDelRef] at hd'
      rw [nextId_setPtr, nextId_afterDelRef]
      by_cases hx : x = p
      · subst hx
        simp only [if_true] at hd'
        split at hd'
        · cases hd'
        · rename_i hr
          cases hd'
          have := hcnt x
          have h0 : ¬ (0 = x) := by omega
          simp only [if_true, h0, if_false] at this
          exact ⟨a, b, c, by simp only; omega⟩
      · simp only [hx, if_false] at hd'
        obtain ⟨a', b', c', e'⟩ := hi.heap x d' hd'
        have := hcnt x
        have h0 : ¬ (0 = x) := by omega
        have h1 : ¬ (p = x) := fun e => hx e.symm
        simp only [h0, h1, if_false] at this
        exact ⟨a', b', c', by omega⟩
    · intro g hg hpg
      rw [ptr_setPtr] at hpg ⊢
      by_cases hgh : g = h
      · simp [hgh] at hpg
      · simp only [hgh, if_false, ptr_afterDelRef] at hpg ⊢
        obtain ⟨d', hd'⟩ := hi.live g hg hpg
        rw [heap_setPtr, get_afterDelRef]
        by_cases hgp : ptr s g = p
        · -- `g` shares the block with `h`: the refcount was positive
          have h2 : 2 ≤ cnt U s p :=
            two_le_countP (fun x => decide (ptr s x = p)) U hh hg (fun e => hgh e.symm) (by simp [hp]) (by simp [hgp])
          have : d.refcount ≠ 0 := by omega
          simp [hgp, this]
        · simp only [hgp, if_false]; exact ⟨d', hd'⟩
  · intro g hg hgh
    apply cstr_congr
    · simp [hgh]
    · rw [heap_setPtr, get_afterDelRef]
      by_cases hgp : ptr s g = p
      · rw [hgp, hd]
        simp only [if_true]
        split
        · -- the block was private to `h`, nobody else reads it
          rename_i hr
          exfalso
          have h1 : cnt U s p = 1 := by omega
          have h2 := hcnt p
          have h0 : ¬ (0 = p) := fun e => hp0 e.symm
          simp only [if_true, h0, if_false] at h2
          have : 0 < cnt U (setPtr (afterDelRef s p d) h 0) p := by
            unfold cnt
            apply List.countP_pos_iff.mpr
            exact ⟨g, hg, by simp [hgh, hgp]⟩
          omega
        · rfl
      · simp [hgp]

end Morfuse.Str

namespace Morfuse.Str
variable {U : List Nat}

/-! ### extensional equality of states -/

def Ext (s s' : State) : Prop :=
  (∀ x, ptr s x = ptr s' x) ∧ (∀ p, s.heap.get? p = s'.heap.get? p) ∧ s.nextId = s'.nextId

theorem Ext.refl (s : State) : Ext s s := ⟨fun _ => rfl, fun _ => rfl, rfl⟩

theorem Ext.symm' {s s' : State} (e : Ext s s') : Ext s' s :=
  ⟨fun x => (e.1 x).symm, fun p => (e.2.1 p).symm, e.2.2.symm⟩

theorem Ext.trans' {s s' s'' : State} (e : Ext s s') (f : Ext s' s'') : Ext s s'' :=
  ⟨fun x => (e.1 x).trans (f.1 x), fun p => (e.2.1 p).trans (f.2.1 p), e.2.2.trans f.2.2⟩

theorem Ext.cnt {s s' : State} (e : Ext s s') (p : Nat) : cnt U s p = cnt U s' p := by
  unfold Morfuse.Str.cnt
  apply List.countP_congr
  intro x _
  simp [e.1 x]

theorem Ext.inv {s s' : State} (e : Ext s s') (hi : Inv U s) : Inv U s' where
  nodup := hi.nodup
  nid := by rw [← e.2.2]; exact hi.nid
  heap := by
    intro p d hd
    rw [← e.2.1] at hd
    obtain ⟨a, b, c, f⟩ := hi.heap p d hd
    exact ⟨a, by rw [← e.2.2]; exact b, c, by rw [← e.cnt]; exact f⟩
  live := by
    intro h hh hp
    rw [← e.1] at hp ⊢
    obtain ⟨d, hd⟩ := hi.live h hh hp
    exact ⟨d, by rw [← e.2.1]; exact hd⟩

theorem Ext.cstr {s s' : State} (e : Ext s s') (g : Nat) : cstr s g = cstr s' g := by
  simp [Morfuse.Str.cstr, e.1 g, e.2.1]

theorem Ext.length {s s' : State} (e : Ext s s') (g : Nat) : length s g = length s' g := by
  simp [Morfuse.Str.length, e.1 g, e.2.1]

/-! ### share / transfer / update -/

theorem share_spec {s : State} (hi : Inv U s) {h : Nat} (hh : h ∈ U) (hp : ptr s h = 0) {q : Nat} (hq : q ≠ 0)
    {d : Data} (hd : s.heap.get? q = some d) :
    Inv U (setData (setPtr s h q) q { d with refcount := d.refcount + 1 }) ∧
    cstr (setData (setPtr s h q) q { d with refcount := d.refcount + 1 }) h = d.bytes ∧
    (∀ g, g ≠ h → cstr (setData (setPtr s h q) q { d with refcount := d.refcount + 1 }) g = cstr s g) := by
  have hcnt : ∀ x, cnt U (setData (setPtr s h q) q { d with refcount := d.refcount + 1 }) x + (if (0 : Nat) = x then 1 else 0)
      = cnt U s x + (if q = x then 1 else 0) := by
    intro x
    have := cnt_setPtr hi.nodup s h q x hh
    rw [hp] at this
    rw [cnt_setData]; exact this
  refine ⟨?_, ?_, ?_⟩
  · refine { nodup := hi.nodup, nid := hi.nid, heap := ?_, live := ?_ }
    · intro x d' hd'
      rw [get_setData, heap_setPtr] at hd'
      by_cases hx : x = q
      · subst hx
        simp only [if_true, Option.some.injEq] at hd'
        subst hd'
        obtain ⟨a, b, c, e⟩ := hi.heap x d hd
        have := hcnt x
        have h0 : ¬ (0 = x) := by omega
        simp only [h0, if_false, if_true] at this
        exact ⟨a, b, c, by simp only; omega⟩
      · simp only [hx, if_false] at hd'
        obtain ⟨a, b, c, e⟩ := hi.heap x d' hd'
        have := hcnt x
        have h0 : ¬ (0 = x) := by omega
        have h1 : ¬ (q = x) := fun e => hx e.symm
        simp only [h0, h1, if_false] at this
        exact ⟨a, b, c, by omega⟩
    · intro g hg hpg
      rw [ptr_setData, ptr_setPtr] at hpg ⊢
      rw [get_setData, heap_setPtr]
      by_cases hgh : g = h
      · simp [hgh]
      · simp only [hgh, if_false] at hpg ⊢
        obtain ⟨d', hd'⟩ := hi.live g hg hpg
        by_cases hgq : ptr s g = q
        · simp [hgq]
        · simp [hgq, hd']
  · simp [cstr, hq]
  · intro g hgh
    apply cstr_congr
    · simp [hgh]
    · rw [get_setData, heap_setPtr]
      by_cases hgq : ptr s g = q
      · simp [hgq, hd]
      · simp [hgq]

theorem transfer_spec {s : State} (hi : Inv U s) {h g : Nat} (hh : h ∈ U) (hg : g ∈ U) (hne : h ≠ g)
    (hp : ptr s h = 0) :
    Inv U (setPtr (setPtr s h (ptr s g)) g 0) ∧
    cstr (setPtr (setPtr s h (ptr s g)) g 0) h = cstr s g ∧
    cstr (setPtr (setPtr s h (ptr s g)) g 0) g = [] ∧
    (∀ x, x ≠ h → x ≠ g → cstr (setPtr (setPtr s h (ptr s g)) g 0) x = cstr s x) := by
  have hcnt : ∀ x, cnt U (setPtr (setPtr s h (ptr s g)) g 0) x = cnt U s x := by
    intro x
    have h1 := cnt_setPtr hi.nodup s h (ptr s g) x hh
    have h2 := cnt_setPtr hi.nodup (setPtr s h (ptr s g)) g 0 x hg
    have e : ptr (setPtr s h (ptr s g)) g = ptr s g := by simp [Ne.symm hne]
    rw [e] at h2
    rw [hp] at h1
    omega
  have hptr : ∀ x, ptr (setPtr (setPtr s h (ptr s g)) g 0) x = if x = g then 0 else if x = h then ptr s g else ptr s x := by
    intro x; simp
  refine ⟨?_, ?_, ?_, ?_⟩
  · refine { nodup := hi.nodup, nid := hi.nid, heap := ?_, live := ?_ }
    · intro x d hd
      obtain ⟨a, b, c, e⟩ := hi.heap x d hd
      exact ⟨a, b, c, by rw [hcnt]; exact e⟩
    · intro x hx hpx
      rw [hptr] at hpx ⊢
      by_cases hxg : x = g
      · simp [hxg] at hpx
      · simp only [hxg, if_false] at hpx ⊢
        by_cases hxh : x = h
        · simp only [hxh, if_true] at hpx ⊢
          exact hi.live g hg hpx
        · simp only [hxh, if_false] at hpx ⊢
          exact hi.live x hx hpx
  · simp [cstr, hne]
  · simp [cstr, hi.get_zero]
  · intro x hxh hxg
    simp [cstr, hxh, hxg]

theorem update_spec {s : State} (hi : Inv U s) {p : Nat} {d d' : Data} (hd : s.heap.get? p = some d)
    (hr : d'.refcount = d.refcount) (hw : WFd d') :
    Inv U (setData s p d') ∧
    (∀ g, ptr s g = p → p ≠ 0 → cstr (setData s p d') g = d'.bytes) ∧
    (∀ g, ptr s g ≠ p → cstr (setData s p d') g = cstr s g) := by
  refine ⟨?_, ?_, ?_⟩
  · refine { nodup := hi.nodup, nid := hi.nid, heap := ?_, live := ?_ }
    · intro x dx hdx
      rw [get_setData] at hdx
      by_cases hx : x = p
      · subst hx
        simp only [if_true, Option.some.injEq] at hdx
        subst hdx
        obtain ⟨a, b, _, e⟩ := hi.heap x d hd
        exact ⟨a, b, hw, by rw [hr, cnt_setData]; exact e⟩
      · simp only [hx, if_false] at hdx
        exact hi.heap x dx hdx
    · intro g hg hpg
      rw [ptr_setData] at hpg ⊢
      obtain ⟨dg, hdg⟩ := hi.live g hg hpg
      rw [get_setData]
      by_cases hgp : ptr s g = p
      · simp [hgp]
      · simp [hgp, hdg]
  · intro g hgp hp0
    simp [cstr, hgp, hp0]
  · intro g hgp
    apply cstr_congr
    · rfl
    · rw [get_setData]; simp [hgp]

/-- a block with `refcount = 0` is read by exactly one object of `U` -/
theorem Inv.private_unique {s : State} (hi : Inv U s) {h g : Nat} (hh : h ∈ U) (hg : g ∈ U) {p : Nat} {d : Data}
    (hd : s.heap.get? p = some d) (hr : d.refcount = 0) (hph : ptr s h = p) (hpg : ptr s g = p) : g = h := by
  by_cases e : g = h
  · exact e
  · have := two_le_countP (fun x => decide (ptr s x = p)) U hh hg (fun e' => e e'.symm) (by simp [hph]) (by simp [hpg])
    have h2 := (hi.heap p d hd).2.2.2
    unfold cnt at h2
    omega

end Morfuse.Str
