import MorfuseModel.Str.Lemmas2
/-!
# Lemmas for the `mfuse::str` model, part 3: `EnsureAlloced`, `EnsureDataWritable`, private writes
-/
namespace Morfuse.Str
variable {U : List Nat}

/-- `s'` is well formed, string `h` reads `bs` in it and every other string of `U` reads what it
    read in `s` -/
def Writes (U : List Nat) (s s' : State) (h : Nat) (bs : List UInt8) : Prop :=
  Inv U s' ∧ cstr s' h = bs ∧ (∀ g ∈ U, g ≠ h → cstr s' g = cstr s g) ∧ (∀ g, g ≠ h → ptr s' g = ptr s g)

theorem Writes.others {s s' : State} {h : Nat} {bs : List UInt8} (w : Writes U s s' h bs) :
    ∀ g ∈ U, g ≠ h → cstr s' g = cstr s g := w.2.2.1

theorem Writes.ptrs {s s' : State} {h : Nat} {bs : List UInt8} (w : Writes U s s' h bs) :
    ∀ g, g ≠ h → ptr s' g = ptr s g := w.2.2.2

theorem Writes.trans {s s1 s2 : State} {h : Nat} {b1 b2 : List UInt8} (w1 : Writes U s s1 h b1)
    (w2 : Writes U s1 s2 h b2) : Writes U s s2 h b2 :=
  ⟨w2.1, w2.2.1, fun g hg hgh => (w2.others g hg hgh).trans (w1.others g hg hgh),
   fun g hgh => (w2.ptrs g hgh).trans (w1.ptrs g hgh)⟩

theorem Writes.refl {s : State} (hi : Inv U s) (h : Nat) : Writes U s s h (cstr s h) :=
  ⟨hi, rfl, fun _ _ _ => rfl, fun _ _ => rfl⟩

theorem Writes.ext {s s1 s2 : State} {h : Nat} {bs : List UInt8} (w : Writes U s s1 h bs) (e : Ext s1 s2) :
    Writes U s s2 h bs :=
  ⟨e.inv w.1, by rw [← e.cstr]; exact w.2.1, fun g hg hgh => by rw [← e.cstr]; exact w.others g hg hgh,
   fun g hgh => by rw [← e.1]; exact w.ptrs g hgh⟩

theorem deref_eq {s : State} {p : Nat} {d : Data} (hp : p ≠ 0) (hd : s.heap.get? p = some d) : deref s p = .ok d := by
  simp [deref, hp, hd]

theorem store_eq {s : State} {p : Nat} {d : Data} (hp : p ≠ 0) (hd : s.heap.get? p = some d) (bs : List UInt8)
    (w : Nat) (hw : w ≤ d.cap) : store s p bs w = .ok (setData s p { d with bytes := bs }) := by
  have : ¬ w > d.cap := by omega
  simp only [store, deref_eq hp hd, ok_bind, this, if_false]; rfl

theorem setLen_eq {s : State} {p : Nat} {d : Data} (hp : p ≠ 0) (hd : s.heap.get? p = some d) (n : Nat) :
    setLen s p n = .ok (setData s p { d with len := n }) := by
  simp only [setLen, deref_eq hp hd, ok_bind]; rfl

theorem setData_setData_ext (s : State) (p : Nat) (d1 d2 : Data) : Ext (setData (setData s p d1) p d2) (setData s p d2) := by
  refine ⟨fun _ => rfl, fun x => ?_, rfl⟩
  simp only [get_setData]; split <;> rfl

/-- overwriting the characters of the private block of `h` -/
theorem privWrite {s : State} (hi : Inv U s) {h : Nat} (hh : h ∈ U) {p : Nat} (hp : ptr s h = p) (hp0 : p ≠ 0)
    {d : Data} (hd : s.heap.get? p = some d) (hr : d.refcount = 0) (bs : List UInt8) (hfit : bs.length + 1 ≤ d.cap) :
    Writes U s (setData s p { d with bytes := bs, len := bs.length }) h bs := by
  have hw : WFd { d with bytes := bs, len := bs.length } := by
    obtain ⟨_, _, c, _⟩ := hi.heap p d hd
    exact ⟨c.1, rfl, hfit⟩
  obtain ⟨a, b, c⟩ := update_spec hi hd (d' := { d with bytes := bs, len := bs.length }) rfl hw
  refine ⟨a, b h hp hp0, fun g hg hgh => c g ?_, fun _ _ => rfl⟩
  intro hgp
  exact hgh (hi.private_unique hh hg hd hr hp hgp)

/-! ### EnsureAlloced -/

theorem ensureAlloced_spec {s : State} (hi : Inv U s) {h : Nat} (hh : h ∈ U) (amount : Nat) (ha : 0 < amount) :
    ∃ s' d, ensureAlloced s h amount true = .ok s' ∧ Writes U s s' h (cstr s h) ∧ ptr s' h ≠ 0 ∧
      s'.heap.get? (ptr s' h) = some d ∧ d.refcount = 0 ∧ amount ≤ d.cap := by
  by_cases hp : ptr s h = 0
  · -- a null string gets a fresh block
    obtain ⟨nd, hnd⟩ : ∃ nd : Data, nd = { refcount := 0, alloced := amount, cap := amount, len := 0, bytes := [] } := ⟨_, rfl⟩
    have hw : WFd nd := by rw [hnd]; exact ⟨rfl, rfl, by simp; omega⟩
    obtain ⟨f1, f2, f3, f4, f5⟩ := fresh_spec hi hh hp nd hw (by rw [hnd])
    refine ⟨_, nd, ?_, ⟨f1, ?_, ?_, f4⟩, by rw [f2]; have := hi.nid; omega, by rw [f2]; exact f3, by rw [hnd], by rw [hnd]; exact Nat.le_refl _⟩
    · have : amount > 0 := ha
      simp only [ensureAlloced, hp, if_true, this, ← hnd]; rfl
    · rw [(cstr_null hp hi).1]
      have : ptr (setPtr (alloc s nd).1 h (alloc s nd).2) h ≠ 0 := by rw [f2]; have := hi.nid; omega
      rw [(cstr_of_get (by rw [f2]; exact f3) this).1, hnd]
    · intro g hg hgh
      apply cstr_congr (f4 g hgh)
      rw [f5 _ (by have := hi.ptr_lt hg; omega)]
  · obtain ⟨d, hd⟩ := hi.live h hh hp
    obtain ⟨_, _, hwd, _⟩ := hi.heap _ _ hd
    by_cases hk : amount ≤ d.alloced ∧ d.refcount = 0
    · refine ⟨s, d, ?_, Writes.refl hi h, hp, hd, hk.2, by rw [← hwd.1]; exact hk.1⟩
      simp [ensureAlloced, hp, deref_eq hp hd, hk]
    · -- a new private block replaces the old one
      obtain ⟨am, ham⟩ : ∃ am, am = if amount < d.len + 1 then d.len + 1 else amount := ⟨_, rfl⟩
      have ham1 : d.len + 1 ≤ am ∧ amount ≤ am := by rw [ham]; split <;> omega
      obtain ⟨nd, hnd⟩ : ∃ nd : Data, nd = { refcount := 0, alloced := am, cap := am, len := d.len, bytes := d.bytes } := ⟨_, rfl⟩
      have hw : WFd nd := by rw [hnd]; exact ⟨rfl, hwd.2.1, by rw [← hwd.2.1]; exact ham1.1⟩
      -- release, then fresh
      obtain ⟨r1, r2⟩ := release_spec hi hh rfl hp hd
      have hp1 : ptr (setPtr (afterDelRef s (ptr s h) d) h 0) h = 0 := by simp
      obtain ⟨f1, f2, f3, f4, f5⟩ := fresh_spec r1 hh hp1 nd hw (by rw [hnd])
      -- the state the code builds
      obtain ⟨s', hs'⟩ : ∃ s', s' = setPtr (alloc (afterDelRef s (ptr s h) d) nd).1 h (alloc (afterDelRef s (ptr s h) d) nd).2 := ⟨_, rfl⟩
      have hext : Ext (setPtr (alloc (setPtr (afterDelRef s (ptr s h) d) h 0) nd).1 h
          (alloc (setPtr (afterDelRef s (ptr s h) d) h 0) nd).2) s' := by
        rw [hs']
        refine ⟨fun x => ?_, fun x => rfl, rfl⟩
        simp only [alloc, ptr, setPtr, Mem.get_set]
        split <;> rfl
      have hrun : ensureAlloced s h amount true = .ok s' := by
        have hk' : ¬ (amount ≤ d.alloced ∧ d.refcount = 0) := hk
        have hov : ¬ (d.bytes.length + 1 > am) := by rw [← hwd.2.1]; omega
        simp only [ensureAlloced, hp, if_false, deref_eq hp hd, ok_bind, hk', Bool.true_and, decide_eq_true_eq,
          ← ham, if_true, hov, delRef_eq hp hd, true_and]
        rw [hs', hnd]; rfl
      have hn : (setPtr (afterDelRef s (ptr s h) d) h 0).nextId = s.nextId := by simp
      rw [hn] at f2 f3 f5
      refine ⟨s', nd, hrun, ⟨hext.inv f1, ?_, ?_, fun g hgh => by rw [← hext.1, f4 g hgh]; simp [hgh]⟩, ?_, ?_, by rw [hnd], by rw [hnd]; exact ham1.2⟩
      · rw [← hext.cstr]
        have hne : ptr (setPtr (alloc (setPtr (afterDelRef s (ptr s h) d) h 0) nd).1 h
            (alloc (setPtr (afterDelRef s (ptr s h) d) h 0) nd).2) h ≠ 0 := by rw [f2]; have := hi.nid; omega
        rw [(cstr_of_get (by rw [f2]; exact f3) hne).1, (cstr_of_get hd hp).1, hnd]
      · intro g hg hgh
        rw [← hext.cstr, ← r2 g hg hgh]
        apply cstr_congr (f4 g hgh)
        rw [f5 _ (by have := r1.ptr_lt hg; simp only [nextId_setPtr, nextId_afterDelRef] at this; omega)]
      · rw [← hext.1, f2]; have := hi.nid; omega
      · rw [← hext.1, ← hext.2.1, f2]; exact f3

end Morfuse.Str

namespace Morfuse.Str
variable {U : List Nat}

/-! ### EnsureDataWritable -/

theorem ensureDataWritable_spec {s : State} (hi : Inv U s) {h : Nat} (hh : h ∈ U) :
    ∃ s', ensureDataWritable s h = .ok s' ∧ Writes U s s' h (cstr s h) ∧ (ptr s h = 0 → s' = s) ∧
      (ptr s h ≠ 0 → ∃ d, ptr s' h ≠ 0 ∧ s'.heap.get? (ptr s' h) = some d ∧ d.refcount = 0) := by
  by_cases hp : ptr s h = 0
  · exact ⟨s, by simp [ensureDataWritable, hp], Writes.refl hi h, fun _ => rfl, fun e => absurd hp e⟩
  · obtain ⟨d, hd⟩ := hi.live h hh hp
    obtain ⟨_, hlt, hwd, _⟩ := hi.heap _ _ hd
    by_cases hr : d.refcount = 0
    · refine ⟨s, ?_, Writes.refl hi h, fun _ => rfl, fun _ => ⟨d, hp, hd, hr⟩⟩
      simp [ensureDataWritable, hp, deref_eq hp hd, hr]
    · -- the block is shared: copy it
      obtain ⟨old, hold⟩ : ∃ old, old = ptr s h := ⟨_, rfl⟩
      rw [← hold] at hd hp hlt
      obtain ⟨nd, hnd⟩ : ∃ nd : Data, nd = { refcount := 0, alloced := d.len + 1, cap := d.len + 1, len := d.len, bytes := d.bytes } := ⟨_, rfl⟩
      have hw : WFd nd := by rw [hnd]; exact ⟨rfl, hwd.2.1, by rw [← hwd.2.1]; exact Nat.le_refl _⟩
      obtain ⟨r1, r2⟩ := release_spec hi hh hold.symm hp hd
      have hp1 : ptr (setPtr (afterDelRef s old d) h 0) h = 0 := by simp
      obtain ⟨f1, f2, f3, f4, f5⟩ := fresh_spec r1 hh hp1 nd hw (by rw [hnd])
      have hn : (setPtr (afterDelRef s old d) h 0).nextId = s.nextId := by simp
      rw [hn] at f2 f3 f5
      obtain ⟨G, hG⟩ : ∃ G, G = setPtr (alloc (setPtr (afterDelRef s old d) h 0) nd).1 h
          (alloc (setPtr (afterDelRef s old d) h 0) nd).2 := ⟨_, rfl⟩
      rw [← hG] at f1 f2 f3 f4 f5
      -- what the code computes
      obtain ⟨nd0, hnd0⟩ : ∃ nd0 : Data, nd0 = { refcount := 0, alloced := d.len + 1, cap := d.len + 1, len := 0, bytes := [] } := ⟨_, rfl⟩
      obtain ⟨s2, hs2⟩ : ∃ s2, s2 = setPtr (alloc (setPtr s h 0) nd0).1 h (alloc (setPtr s h 0) nd0).2 := ⟨_, rfl⟩
      have hq : ptr s2 h = s.nextId := by rw [hs2]; simp [alloc, ptr, setPtr, Mem.get_set]
      have hq0 : s.nextId ≠ 0 := by have := hi.nid; omega
      have hget2 : ∀ x, s2.heap.get? x = if x = s.nextId then some nd0 else s.heap.get? x := by
        intro x; rw [hs2]; simp [alloc, setPtr, Heap.get?_set]
      have e1 : ensureAlloced (setPtr s h 0) h (d.len + 1) false = .ok s2 := by
        have : ptr (setPtr s h 0) h = 0 := by simp
        have hpos : d.len + 1 > 0 := by omega
        simp only [ensureAlloced, this, if_true, hpos, ← hnd0]
        rw [hs2]; rfl
      have g2 : s2.heap.get? s.nextId = some nd0 := by rw [hget2]; simp
      have e2 := store_eq hq0 g2 (d.bytes.take (d.len + 1)) (Nat.min (d.bytes.length + 1) (d.len + 2))
        (by rw [hnd0, ← hwd.2.1]; simp)
      have htake : d.bytes.take (d.len + 1) = d.bytes := List.take_of_length_le (by rw [hwd.2.1]; omega)
      rw [htake] at e2
      have g3 : (setData s2 s.nextId { nd0 with bytes := d.bytes }).heap.get? s.nextId = some { nd0 with bytes := d.bytes } := by
        simp
      have e3 := setLen_eq hq0 g3 d.len
      have hold_ne : old ≠ s.nextId := by omega
      have g4 : (setData (setData s2 s.nextId { nd0 with bytes := d.bytes }) s.nextId
          { nd0 with bytes := d.bytes, len := d.len }).heap.get? old = some d := by
        simp only [get_setData, hold_ne, if_false, hget2]; exact hd
      have e4 := delRef_eq hp g4
      obtain ⟨F, hF⟩ : ∃ F, F = afterDelRef (setData (setData s2 s.nextId { nd0 with bytes := d.bytes }) s.nextId
          { nd0 with bytes := d.bytes, len := d.len }) old d := ⟨_, rfl⟩
      have hrun : ensureDataWritable s h = .ok F := by
        have hs1 : ({ s with hs := s.hs.set h 0 } : State) = setPtr s h 0 := rfl
        simp only [ensureDataWritable, ← hold, hp, if_false, deref_eq hp hd, ok_bind, hr, hs1, e1, hq, htake, e2, e3, e4]
        rw [hF]
      have hext : Ext G F := by
        rw [hG, hF]
        refine ⟨fun x => ?_, fun x => ?_, ?_⟩
        · have hhs : (afterDelRef s old d).hs = s.hs := by unfold afterDelRef; split <;> rfl
          simp only [ptr_afterDelRef, ptr_setData, hs2]
          simp [alloc, ptr, setPtr, Mem.get_set, hhs]
        · rw [get_afterDelRef]
          simp only [get_setData, hget2]
          have : (setPtr (alloc (setPtr (afterDelRef s old d) h 0) nd).1 h
              (alloc (setPtr (afterDelRef s old d) h 0) nd).2).heap.get? x
              = if x = s.nextId then some nd else (afterDelRef s old d).heap.get? x := by
            simp [alloc, setPtr, Heap.get?_set]
          rw [this, get_afterDelRef]
          by_cases hx : x = s.nextId
          · have h1 : s.nextId ≠ old := fun e => hold_ne e.symm
            simp [hx, hnd, hnd0, h1]
          · simp [hx]
        · rw [hs2]; simp [alloc, setPtr, afterDelRef]; split <;> rfl
      have hGne : ptr G h ≠ 0 := by rw [f2]; exact hq0
      refine ⟨F, hrun, Writes.ext ⟨f1, ?_, ?_, fun g hgh => by rw [f4 g hgh]; simp [hgh]⟩ hext, fun e => absurd (hold ▸ e) hp, fun _ => ⟨nd, ?_, ?_, by rw [hnd]⟩⟩
      · rw [(cstr_of_get (by rw [f2]; exact f3) hGne).1, (cstr_of_get (by rw [← hold]; exact hd) (by rw [← hold]; exact hp)).1, hnd]
      · intro g hg hgh
        rw [← r2 g hg hgh]
        apply cstr_congr (f4 g hgh)
        rw [f5 _ (by have := r1.ptr_lt hg; simp only [nextId_setPtr, nextId_afterDelRef] at this; omega)]
      · rw [← hext.1]; exact hGne
      · rw [← hext.1, ← hext.2.1, f2]; exact f3

end Morfuse.Str
