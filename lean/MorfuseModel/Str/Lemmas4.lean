import MorfuseModel.Str.Lemmas3
/-!
# Lemmas for the `mfuse::str` model, part 4: the mutating member functions on one string
-/
namespace Morfuse.Str
variable {U : List Nat}

/-- the private block of `h`: what `EnsureAlloced` / `EnsureDataWritable` establish -/
structure Priv (U : List Nat) (s : State) (h : Nat) (d : Data) : Prop where
  inv : Inv U s
  mem : h ∈ U
  ne : ptr s h ≠ 0
  get : s.heap.get? (ptr s h) = some d
  rc : d.refcount = 0

theorem Priv.bytes {s : State} {h : Nat} {d : Data} (p : Priv U s h d) : d.bytes = cstr s h :=
  (cstr_of_get p.get p.ne).1.symm

theorem Priv.wf {s : State} {h : Nat} {d : Data} (p : Priv U s h d) : WFd d := (p.inv.heap _ _ p.get).2.2.1

/-- `store` then `setLen` on the private block -/
theorem write_seq1 {s : State} {h : Nat} {d : Data} (p : Priv U s h d) (bs : List UInt8) (w : Nat) (hw : w ≤ d.cap)
    (hfit : bs.length + 1 ≤ d.cap) :
    ∃ F, (store s (ptr s h) bs w >>= fun s1 => setLen s1 (ptr s h) bs.length) = .ok F ∧ Writes U s F h bs := by
  have e1 := store_eq p.ne p.get bs w hw
  have g1 : (setData s (ptr s h) { d with bytes := bs }).heap.get? (ptr s h) = some { d with bytes := bs } := by simp
  have e2 := setLen_eq p.ne g1 bs.length
  refine ⟨_, by rw [e1, ok_bind, e2], ?_⟩
  exact (privWrite p.inv p.mem rfl p.ne p.get p.rc bs hfit).ext (Ext.symm' (setData_setData_ext _ _ _ _))

/-- `setLen` then `store` on the private block -/
theorem write_seq2 {s : State} {h : Nat} {d : Data} (p : Priv U s h d) (bs : List UInt8) (w : Nat) (hw : w ≤ d.cap)
    (hfit : bs.length + 1 ≤ d.cap) :
    ∃ F, (setLen s (ptr s h) bs.length >>= fun s1 => store s1 (ptr s h) bs w) = .ok F ∧ Writes U s F h bs := by
  have e1 := setLen_eq p.ne p.get bs.length
  have g1 : (setData s (ptr s h) { d with len := bs.length }).heap.get? (ptr s h) = some { d with len := bs.length } := by simp
  have e2 := store_eq p.ne g1 bs w hw
  refine ⟨_, by rw [e1, ok_bind, e2], ?_⟩
  exact (privWrite p.inv p.mem rfl p.ne p.get p.rc bs hfit).ext (Ext.symm' (setData_setData_ext _ _ _ _))

/-- `store` alone, same number of characters -/
theorem write_same {s : State} {h : Nat} {d : Data} (p : Priv U s h d) (bs : List UInt8) (w : Nat) (hw : w ≤ d.cap)
    (hl : bs.length = d.bytes.length) :
    store s (ptr s h) bs w = .ok (setData s (ptr s h) { d with bytes := bs }) ∧
    Writes U s (setData s (ptr s h) { d with bytes := bs }) h bs := by
  refine ⟨store_eq p.ne p.get bs w hw, ?_⟩
  have hwf := p.wf
  have := privWrite p.inv p.mem rfl p.ne p.get p.rc bs (by rw [hl]; exact hwf.2.2)
  have e : ({ d with bytes := bs, len := bs.length } : Data) = { d with bytes := bs } := by
    rw [hl, ← hwf.2.1]
  rwa [e] at this

/-- `EnsureAlloced(amount)` packaged for the mutators -/
theorem ensureAlloced_priv {s : State} (hi : Inv U s) {h : Nat} (hh : h ∈ U) (amount : Nat) (ha : 0 < amount) :
    ∃ s' d, ensureAlloced s h amount true = .ok s' ∧ Writes U s s' h (cstr s h) ∧ Priv U s' h d ∧ amount ≤ d.cap := by
  obtain ⟨s', d, e, w, n, g, r, c⟩ := ensureAlloced_spec hi hh amount ha
  exact ⟨s', d, e, w, ⟨w.1, hh, n, g, r⟩, c⟩

theorem ensureDataWritable_priv {s : State} (hi : Inv U s) {h : Nat} (hh : h ∈ U) (hp : ptr s h ≠ 0) :
    ∃ s' d, ensureDataWritable s h = .ok s' ∧ Writes U s s' h (cstr s h) ∧ Priv U s' h d := by
  obtain ⟨s', e, w, _, f⟩ := ensureDataWritable_spec hi hh
  obtain ⟨d, n, g, r⟩ := f hp
  exact ⟨s', d, e, w, ⟨w.1, hh, n, g, r⟩⟩

theorem Priv.len {s : State} {h : Nat} {d : Data} (p : Priv U s h d) : d.len = (cstr s h).length := by
  rw [← p.bytes]; exact p.wf.2.1

/-! ### append -/

theorem appendChar_spec {s : State} (hi : Inv U s) {h : Nat} (hh : h ∈ U) (c : UInt8) :
    ∃ s', appendChar s h c = .ok s' ∧ Writes U s s' h (if c = 0 then cstr s h else cstr s h ++ [c]) := by
  by_cases hc : c = 0
  · exact ⟨s, by simp [appendChar, hc], by simpa [hc] using Writes.refl hi h⟩
  · obtain ⟨s1, d, e1, w1, p1, c1⟩ := ensureAlloced_priv hi hh (length s h + 1 + 1) (by omega)
    have hl : length s h = (cstr s h).length := hi.length_eq hh
    have hb : d.bytes = cstr s h := by rw [p1.bytes, w1.2.1]
    have hnl : ¬ d.bytes.length < length s h := by rw [hb, hl]; omega
    have ht : d.bytes.take (length s h) = cstr s h := by rw [hb, hl]; exact List.take_length
    obtain ⟨F, e2, w2⟩ := write_seq1 p1 (cstr s h ++ [c]) (length s h + 1 + 1) c1 (by simp; omega)
    refine ⟨F, ?_, by simpa [hc] using w1.trans w2⟩
    have hlen : (cstr s h ++ [c]).length = length s h + 1 := by simp [hl]
    rw [hlen] at e2
    simp only [appendChar, hc, if_true, ne_eq, not_false_eq_true, e1, ok_bind, deref_eq p1.ne p1.get, hnl, if_false, ht]
    exact e2

theorem appendText_spec {s : State} (hi : Inv U s) {h : Nat} (hh : h ∈ U) (t : List UInt8) :
    ∃ s', appendText s h t = .ok s' ∧ Writes U s s' h (cstr s h ++ t) := by
  have hl : length s h = (cstr s h).length := hi.length_eq hh
  by_cases h0 : length s h + t.length = 0
  · have h1 : cstr s h = [] := List.eq_nil_of_length_eq_zero (by omega)
    have h2 : t = [] := List.eq_nil_of_length_eq_zero (by omega)
    refine ⟨s, by simp [appendText, h0], ?_⟩
    have := Writes.refl hi h
    rwa [h2, List.append_nil]
  · obtain ⟨s1, d, e1, w1, p1, c1⟩ := ensureAlloced_priv hi hh (length s h + t.length + 1) (by omega)
    have hb : d.bytes = cstr s h := by rw [p1.bytes, w1.2.1]
    obtain ⟨F, e2, w2⟩ := write_seq1 p1 (cstr s h ++ t) (d.bytes.length + t.length + 1)
      (by rw [hb, ← hl]; exact c1) (by simp; omega)
    refine ⟨F, ?_, w1.trans w2⟩
    have hlen : (cstr s h ++ t).length = length s h + t.length := by simp [hl]
    rw [hlen] at e2
    simp only [appendText, h0, if_false, e1, ok_bind, deref_eq p1.ne p1.get]
    rw [hb] at e2 ⊢
    exact e2

theorem appendStr_spec {s : State} (hi : Inv U s) {h g : Nat} (hh : h ∈ U) (hg : g ∈ U) :
    ∃ s', appendStr s h g = .ok s' ∧ Writes U s s' h (cstr s h ++ cstr s g) := by
  have hl : length s h = (cstr s h).length := hi.length_eq hh
  have hlg : length s g = (cstr s g).length := hi.length_eq hg
  by_cases h0 : length s h + length s g = 0
  · have h1 : cstr s h = [] := List.eq_nil_of_length_eq_zero (by omega)
    have h2 : cstr s g = [] := List.eq_nil_of_length_eq_zero (by omega)
    refine ⟨s, by simp [appendStr, h0], ?_⟩
    have := Writes.refl hi h
    rwa [h2, List.append_nil]
  · obtain ⟨s1, d, e1, w1, p1, c1⟩ := ensureAlloced_priv hi hh (length s h + length s g + 1) (by omega)
    have hb : d.bytes = cstr s h := by rw [p1.bytes, w1.2.1]
    have hsrc : cstr s1 g = cstr s g := by
      by_cases hgh : g = h
      · subst hgh; exact w1.2.1
      · exact w1.others g hg hgh
    obtain ⟨F, e2, w2⟩ := write_seq1 p1 (cstr s h ++ cstr s g) (length s h + length s g + 1) c1 (by simp; omega)
    refine ⟨F, ?_, w1.trans w2⟩
    have hlen : (cstr s h ++ cstr s g).length = length s h + length s g := by simp [hl, hlg]
    rw [hlen] at e2
    have hn : ¬ (d.bytes.length < length s h ∨ (cstr s1 g).length < length s g) := by
      rw [hb, hsrc, hl, hlg]; omega
    have ht : d.bytes.take (length s h) ++ (cstr s1 g).take (length s g) = cstr s h ++ cstr s g := by
      rw [hb, hsrc, hl, hlg, List.take_length, List.take_length]
    simp only [appendStr, h0, if_false, e1, ok_bind, deref_eq p1.ne p1.get, hn, ht]
    exact e2

end Morfuse.Str
