import MorfuseModel.Str.Lemmas4
/-!
# Lemmas for the `mfuse::str` model, part 5: in-place mutators, `reserve`, `clear`, `operator=(const char*)`, `assign`
-/
namespace Morfuse.Str
variable {U : List Nat}

theorem setChar_null {s : State} (hi : Inv U s) {h : Nat} (hh : h ∈ U) (hp : ptr s h = 0) (i : Nat) (c : UInt8) :
    setChar s h i c = .error .nullDeref := by
  obtain ⟨s', e, _, f, _⟩ := ensureDataWritable_spec hi hh
  have := f hp; subst this
  simp [setChar, e, deref, hp]

theorem setChar_spec {s : State} (hi : Inv U s) {h : Nat} (hh : h ∈ U) (hp : ptr s h ≠ 0) (i : Nat) (c : UInt8) :
    ∃ s', setChar s h i c = .ok s' ∧
      Writes U s s' h (if i < (cstr s h).length then (cstr s h).set i c else cstr s h) := by
  obtain ⟨s1, d, e1, w1, p1⟩ := ensureDataWritable_priv hi hh hp
  have hb : d.bytes = cstr s h := by rw [p1.bytes, w1.2.1]
  have hlen : d.len = (cstr s h).length := by rw [p1.len, w1.2.1]
  by_cases hi' : i < (cstr s h).length
  · have hn : ¬ i ≥ d.len := by omega
    obtain ⟨e2, w2⟩ := write_same p1 (d.bytes.set i c) (i + 1) (by have := p1.wf.2.2; rw [← p1.wf.2.1] at this; omega) (by simp)
    refine ⟨setData s1 (ptr s1 h) { d with bytes := d.bytes.set i c }, ?_, ?_⟩
    · simp only [setChar, e1, ok_bind, deref_eq p1.ne p1.get, hn, if_false]
      exact e2
    · rw [if_pos hi', ← hb]; exact w1.trans w2
  · have hn : i ≥ d.len := by omega
    refine ⟨s1, ?_, by simpa [hi'] using w1⟩
    simp [setChar, e1, deref_eq p1.ne p1.get, hn]

theorem capLength_spec {s : State} (hi : Inv U s) {h : Nat} (hh : h ∈ U) (n : Nat) :
    ∃ s', capLength s h n = .ok s' ∧ Writes U s s' h ((cstr s h).take n) := by
  have hl : length s h = (cstr s h).length := hi.length_eq hh
  by_cases hle : length s h ≤ n
  · refine ⟨s, by simp [capLength, hle], ?_⟩
    have := Writes.refl hi h
    rwa [List.take_of_length_le (by omega)]
  · have hp : ptr s h ≠ 0 := by
      intro e; have := (cstr_null e hi).2; omega
    obtain ⟨s1, d, e1, w1, p1⟩ := ensureDataWritable_priv hi hh hp
    have hb : d.bytes = cstr s h := by rw [p1.bytes, w1.2.1]
    have hcap := p1.wf.2.2
    obtain ⟨F, e2, w2⟩ := write_seq1 p1 ((cstr s h).take n) (n + 1) (by rw [hb] at hcap; omega)
      (by rw [hb] at hcap; simp; omega)
    have hlen : ((cstr s h).take n).length = n := by simp; omega
    rw [hlen] at e2
    refine ⟨F, ?_, w1.trans w2⟩
    simp only [capLength, hle, if_false, e1, ok_bind, deref_eq p1.ne p1.get, hb]
    exact e2

theorem minus_spec {s : State} (hi : Inv U s) {h : Nat} (hh : h ∈ U) (n : Nat) :
    ∃ s', minus s h n = .ok s' ∧ Writes U s s' h ((cstr s h).take ((cstr s h).length - n)) := by
  have hl : length s h = (cstr s h).length := hi.length_eq hh
  by_cases hp : ptr s h = 0
  · refine ⟨s, by simp [minus, hp], ?_⟩
    have := Writes.refl hi h
    simpa [(cstr_null hp hi).1] using this
  · by_cases h0 : length s h = 0
    · refine ⟨s, by simp [minus, hp, h0], ?_⟩
      have h1 : cstr s h = [] := List.eq_nil_of_length_eq_zero (by omega)
      have := Writes.refl hi h
      simpa [h1] using this
    · obtain ⟨s1, d, e1, w1, p1⟩ := ensureDataWritable_priv hi hh hp
      have hb : d.bytes = cstr s h := by rw [p1.bytes, w1.2.1]
      have hlen : d.len = (cstr s h).length := by rw [p1.len, w1.2.1]
      have hcap := p1.wf.2.2
      obtain ⟨m, hm⟩ : ∃ m, m = if n > 0 then (if n < d.len then d.len - n else 0) else d.len := ⟨_, rfl⟩
      have hmv : m = (cstr s h).length - n := by rw [hm, hlen]; split <;> (try split) <;> omega
      obtain ⟨F, e2, w2⟩ := write_seq2 p1 ((cstr s h).take m) (m + 1) (by rw [hb] at hcap; omega)
        (by rw [hb] at hcap; simp; omega)
      have hlen2 : ((cstr s h).take m).length = m := by simp; omega
      rw [hlen2] at e2
      refine ⟨F, ?_, by rw [← hmv]; exact w1.trans w2⟩
      simp only [minus, hp, if_false, h0, e1, ok_bind, deref_eq p1.ne p1.get, ← hm, hb]
      exact e2

theorem dropWhile_length_le {β : Type} (p : β → Bool) : ∀ l : List β, (l.dropWhile p).length ≤ l.length
  | [] => by simp
  | x :: l => by
    simp only [List.dropWhile_cons]
    split
    · have := dropWhile_length_le p l; simp; omega
    · simp

theorem trim_length_le (bs : List UInt8) : (trim bs).length ≤ bs.length := by
  unfold trim
  have h1 := dropWhile_length_le isSpace bs
  have h2 := dropWhile_length_le isSpace (bs.dropWhile isSpace).reverse
  simp only [List.length_reverse] at h2 ⊢
  omega

theorem strip_spec {s : State} (hi : Inv U s) {h : Nat} (hh : h ∈ U) :
    ∃ s', strip s h = .ok s' ∧ Writes U s s' h (trim (cstr s h)) := by
  by_cases hp : ptr s h = 0
  · refine ⟨s, by simp [strip, hp], ?_⟩
    have := Writes.refl hi h
    rwa [(cstr_null hp hi).1] at this ⊢
  · obtain ⟨s1, d, e1, w1, p1⟩ := ensureDataWritable_priv hi hh hp
    have hb : d.bytes = cstr s h := by rw [p1.bytes, w1.2.1]
    have hcap := p1.wf.2.2
    have ht := trim_length_le (cstr s h)
    obtain ⟨F, e2, w2⟩ := write_seq2 p1 (trim (cstr s h)) ((trim (cstr s h)).length + 1)
      (by rw [hb] at hcap; omega) (by rw [hb] at hcap; omega)
    refine ⟨F, ?_, w1.trans w2⟩
    simp only [strip, hp, if_false, e1, ok_bind, deref_eq p1.ne p1.get, hb]
    exact e2

theorem mapCase_null {s : State} (hi : Inv U s) {h : Nat} (hh : h ∈ U) (hp : ptr s h = 0) (f : UInt8 → UInt8) :
    mapCase f s h = .error .nullDeref := by
  obtain ⟨s', e, _, g, _⟩ := ensureDataWritable_spec hi hh
  have := g hp; subst this
  simp [mapCase, e, deref, hp]

theorem mapCase_spec {s : State} (hi : Inv U s) {h : Nat} (hh : h ∈ U) (hp : ptr s h ≠ 0) (f : UInt8 → UInt8) :
    ∃ s', mapCase f s h = .ok s' ∧ Writes U s s' h ((cstr s h).map f) := by
  obtain ⟨s1, d, e1, w1, p1⟩ := ensureDataWritable_priv hi hh hp
  have hb : d.bytes = cstr s h := by rw [p1.bytes, w1.2.1]
  obtain ⟨e2, w2⟩ := write_same p1 (d.bytes.map f) d.bytes.length (by have := p1.wf.2.2; omega) (by simp)
  refine ⟨_, ?_, by rw [← hb]; exact w1.trans w2⟩
  simp only [mapCase, e1, ok_bind, deref_eq p1.ne p1.get]
  exact e2

theorem reserve_spec {s : State} (hi : Inv U s) {h : Nat} (hh : h ∈ U) (n : Nat) :
    ∃ s', reserve s h n = .ok s' ∧ Writes U s s' h (cstr s h) := by
  obtain ⟨s1, d, e1, w1, _, _⟩ := ensureAlloced_priv hi hh (n + 1) (by omega)
  exact ⟨s1, e1, w1⟩

theorem setPtr_same_ext (s : State) (h : Nat) : Ext (setPtr s h (ptr s h)) s := by
  refine ⟨fun x => ?_, fun _ => rfl, rfl⟩
  rw [ptr_setPtr]; split
  · rename_i e; rw [e]
  · rfl

theorem clear_spec {s : State} (hi : Inv U s) {h : Nat} (hh : h ∈ U) :
    ∃ s', clear s h = .ok s' ∧ Writes U s s' h [] ∧ ptr s' h = 0 := by
  by_cases hp : ptr s h = 0
  · refine ⟨s, by simp [clear, hp], ?_, hp⟩
    have := Writes.refl hi h
    rwa [(cstr_null hp hi).1] at this
  · obtain ⟨d, hd⟩ := hi.live h hh hp
    obtain ⟨r1, r2⟩ := release_spec hi hh rfl hp hd
    refine ⟨setPtr (afterDelRef s (ptr s h) d) h 0, ?_, ⟨r1, ?_, r2, fun g hgh => by simp [hgh]⟩, by simp⟩
    · simp only [clear, ne_eq, hp, not_false_eq_true, if_true, delRef_eq hp hd, ok_bind]
      rfl
    · exact (cstr_null (by simp) r1).1

theorem assignText_spec {s : State} (hi : Inv U s) {h : Nat} (hh : h ∈ U) (t : List UInt8) :
    ∃ s', assignText s h t = .ok s' ∧ Writes U s s' h t := by
  obtain ⟨s1, e1, w1, p1⟩ := clear_spec hi hh
  by_cases ht : t = []
  · subst ht
    refine ⟨s1, ?_, w1⟩
    simp only [assignText, e1, ok_bind]; rfl
  · have hl : t.length ≠ 0 := by simpa using ht
    obtain ⟨nd, hnd⟩ : ∃ nd : Data, nd = { refcount := 0, alloced := t.length + 1, cap := t.length + 1, len := t.length, bytes := t } := ⟨_, rfl⟩
    have hw : WFd nd := by rw [hnd]; exact ⟨rfl, rfl, Nat.le_refl _⟩
    obtain ⟨f1, f2, f3, f4, f5⟩ := fresh_spec w1.1 hh p1 nd hw (by rw [hnd])
    refine ⟨setPtr (alloc s1 nd).1 h (alloc s1 nd).2, ?_, ⟨f1, ?_, ?_, fun g hgh => (f4 g hgh).trans (w1.ptrs g hgh)⟩⟩
    · simp only [assignText, e1, ok_bind, hl, ne_eq, not_false_eq_true, if_true, ← hnd]; rfl
    · have hne : ptr (setPtr (alloc s1 nd).1 h (alloc s1 nd).2) h ≠ 0 := by rw [f2]; have := w1.1.nid; omega
      rw [(cstr_of_get (by rw [f2]; exact f3) hne).1, hnd]
    · intro g hg hgh
      rw [← w1.others g hg hgh]
      apply cstr_congr (f4 g hgh)
      rw [f5 _ (by have := w1.1.ptr_lt hg; omega)]

theorem assignN_spec {s : State} (hi : Inv U s) {h : Nat} (hh : h ∈ U) (t : List UInt8) (n : Nat) (hn : n ≤ t.length) :
    ∃ s', assignN s h t n = .ok s' ∧ Writes U s s' h (t.take n) := by
  obtain ⟨s1, d, e1, w1, p1, c1⟩ := ensureAlloced_priv hi hh (n + 1) (by omega)
  have hlen : (t.take n).length = n := by simp; omega
  obtain ⟨F, e2, w2⟩ := write_seq2 p1 (t.take n) (n + 1) c1 (by rw [hlen]; exact c1)
  rw [hlen] at e2
  refine ⟨F, ?_, w1.trans w2⟩
  simp only [assignN, e1, ok_bind]
  exact e2

end Morfuse.Str
