import MorfuseModel.Str.Lemmas5
/-!
# Lemmas for the `mfuse::str` model, part 6: constructors, copy / move, `operator=`
-/
namespace Morfuse.Str
variable {U : List Nat}

/-- point update of a family of strings -/
def upd1 (m : Nat → List UInt8) (h : Nat) (bs : List UInt8) : Nat → List UInt8 := fun x => if x = h then bs else m x

/-- `s'` is well formed and string `x` of `U` reads `m x` -/
def Reads (U : List Nat) (s' : State) (m : Nat → List UInt8) : Prop := Inv U s' ∧ ∀ x ∈ U, cstr s' x = m x

theorem Writes.reads {s s' : State} {h : Nat} {bs : List UInt8} (w : Writes U s s' h bs) :
    Reads U s' (upd1 (cstr s) h bs) := by
  refine ⟨w.1, fun x hx => ?_⟩
  unfold upd1
  split
  · rename_i e; rw [e]; exact w.2.1
  · rename_i e; exact w.others x hx e

theorem null_ext {s : State} {t : Nat} (hp : ptr s t = 0) : Ext (setPtr s t 0) s := by
  have := setPtr_same_ext s t
  rwa [hp] at this

/-- a constructor starts from `m_data` unset -/
theorem prep {s : State} (hi : Inv U s) {t : Nat} (hp : ptr s t = 0) : Writes U s (setPtr s t 0) t [] := by
  have e := null_ext hp
  refine ⟨e.symm'.inv hi, ?_, fun g _ _ => e.cstr g, fun g _ => e.1 g⟩
  rw [e.cstr]; exact (cstr_null hp hi).1

theorem ptr_prep (s : State) (t : Nat) : ptr (setPtr s t 0) t = 0 := by simp

theorem ctorText_spec {s : State} (hi : Inv U s) {t : Nat} (ht : t ∈ U) (hp : ptr s t = 0) (txt : List UInt8) :
    ∃ s', ctorText s t txt = .ok s' ∧ Writes U s s' t txt := by
  have w0 := prep hi hp
  have hs0 : ({ s with hs := s.hs.set t 0 } : State) = setPtr s t 0 := rfl
  by_cases hl : txt.length = 0
  · have : txt = [] := List.eq_nil_of_length_eq_zero hl
    subst this
    exact ⟨setPtr s t 0, by simp [ctorText, hs0], w0⟩
  · obtain ⟨s1, d, e1, w1, p1, c1⟩ := ensureAlloced_priv w0.1 ht (txt.length + 1) (by omega)
    obtain ⟨F, e2, w2⟩ := write_seq1 p1 txt (txt.length + 1) c1 c1
    refine ⟨F, ?_, (w0.trans w1).trans w2⟩
    simp only [ctorText, hs0, hl, ne_eq, not_false_eq_true, if_true, e1, ok_bind]
    exact e2

theorem ctorTextN_spec {s : State} (hi : Inv U s) {t : Nat} (ht : t ∈ U) (hp : ptr s t = 0) (txt : List UInt8)
    (n : Nat) (hn : n ≤ txt.length) :
    ∃ s', ctorTextN s t txt n = .ok s' ∧ Writes U s s' t (txt.take n) := by
  have w0 := prep hi hp
  have hs0 : ({ s with hs := s.hs.set t 0 } : State) = setPtr s t 0 := rfl
  by_cases hc : txt.length ≠ 0 ∧ n ≠ 0
  · obtain ⟨s1, d, e1, w1, p1, c1⟩ := ensureAlloced_priv w0.1 ht (n + 1) (by omega)
    have hlen : (txt.take n).length = n := by simp; omega
    obtain ⟨F, e2, w2⟩ := write_seq1 p1 (txt.take n) (n + 1) c1 (by rw [hlen]; exact c1)
    rw [hlen] at e2
    refine ⟨F, ?_, (w0.trans w1).trans w2⟩
    simp only [ctorTextN, hs0]
    rw [if_pos hc]
    simp only [e1, ok_bind]
    exact e2
  · have he : txt.take n = [] := by
      by_cases h1 : txt.length = 0
      · rw [List.eq_nil_of_length_eq_zero h1]; simp
      · have : n = 0 := by
          by_cases h2 : n = 0
          · exact h2
          · exact absurd ⟨h1, h2⟩ hc
        rw [this]; simp
    rw [he]
    refine ⟨setPtr s t 0, ?_, w0⟩
    simp only [ctorTextN, hs0]
    rw [if_neg hc]

theorem ctorChar_spec {s : State} (hi : Inv U s) {t : Nat} (ht : t ∈ U) (hp : ptr s t = 0) (c : UInt8) :
    ∃ s', ctorChar s t c = .ok s' ∧ Writes U s s' t [c] := by
  have w0 := prep hi hp
  have hs0 : ({ s with hs := s.hs.set t 0 } : State) = setPtr s t 0 := rfl
  obtain ⟨s1, d, e1, w1, p1, c1⟩ := ensureAlloced_priv w0.1 ht 2 (by omega)
  obtain ⟨F, e2, w2⟩ := write_seq1 p1 [c] 2 c1 (by simpa using c1)
  refine ⟨F, ?_, (w0.trans w1).trans w2⟩
  simp only [ctorChar, hs0, e1, ok_bind]
  exact e2

/-- the characters `base_str(text, start, end)` copies -/
def subOf (bs : List UInt8) (start stop : Nat) : List UInt8 :=
  let stop := if stop > bs.length then bs.length else stop
  let start := if start > bs.length then bs.length else start
  (bs.drop start).take (if stop > start then stop - start else 0)

theorem ctorSub_spec {s : State} (hi : Inv U s) {t g : Nat} (ht : t ∈ U) (hg : g ∈ U) (hgt : g ≠ t) (hp : ptr s t = 0)
    (a b : Nat) :
    ∃ s', ctorSub s t g a b = .ok s' ∧ Writes U s s' t (subOf (cstr s g) a b) := by
  have w0 := prep hi hp
  have hs0 : ({ s with hs := s.hs.set t 0 } : State) = setPtr s t 0 := rfl
  have hg0 : cstr (setPtr s t 0) g = cstr s g := w0.others g hg hgt
  have hl0 : length (setPtr s t 0) g = (cstr s g).length := by rw [w0.1.length_eq hg, hg0]
  obtain ⟨stop, hstop⟩ : ∃ stop, stop = if b > (cstr s g).length then (cstr s g).length else b := ⟨_, rfl⟩
  obtain ⟨start, hstart⟩ : ∃ start, start = if a > (cstr s g).length then (cstr s g).length else a := ⟨_, rfl⟩
  obtain ⟨len, hlen⟩ : ∃ len, len = if stop > start then stop - start else 0 := ⟨_, rfl⟩
  obtain ⟨s1, d, e1, w1, p1, c1⟩ := ensureAlloced_priv w0.1 ht (len + 1) (by omega)
  have hg1 : cstr s1 g = cstr s g := (w1.others g hg hgt).trans hg0
  have hbl : (((cstr s g).drop start).take len).length = len := by
    have h1 : stop ≤ (cstr s g).length := by rw [hstop]; split <;> omega
    have h2 : start ≤ (cstr s g).length := by rw [hstart]; split <;> omega
    simp only [List.length_take, List.length_drop]
    rw [hlen]; split <;> omega
  obtain ⟨F, e2, w2⟩ := write_seq1 p1 (((cstr s g).drop start).take len) (len + 1) c1 (by rw [hbl]; exact c1)
  rw [hbl] at e2
  refine ⟨F, ?_, ?_⟩
  · simp only [ctorSub, hs0, hl0, ← hstop, ← hstart, ← hlen, e1, ok_bind, hg1]
    exact e2
  · have : subOf (cstr s g) a b = ((cstr s g).drop start).take len := by
      simp only [subOf, ← hstop, ← hstart, ← hlen]
    rw [this]
    exact (w0.trans w1).trans w2

theorem ctorCopy_spec {s : State} (hi : Inv U s) {t g : Nat} (ht : t ∈ U) (hg : g ∈ U) (hp : ptr s t = 0) :
    ∃ s', ctorCopy s t g = .ok s' ∧ Writes U s s' t (cstr s g) := by
  have hs0 : ∀ q, ({ s with hs := s.hs.set t q } : State) = setPtr s t q := fun _ => rfl
  by_cases hq : ptr s g = 0
  · have := prep hi hp
    rw [← (cstr_null hq hi).1] at this
    exact ⟨setPtr s t 0, by simp [ctorCopy, hs0, hq], this⟩
  · obtain ⟨d, hd⟩ := hi.live g hg hq
    obtain ⟨a, b, c⟩ := share_spec hi ht hp hq hd
    refine ⟨_, ?_, ⟨a, ?_, fun x _ hx => c x hx, fun x hx => by simp [hx]⟩⟩
    · have hget : (setPtr s t (ptr s g)).heap.get? (ptr s g) = some d := hd
      simp only [ctorCopy, hs0, ne_eq, hq, not_false_eq_true, if_true, addRef_eq hq hget]
    · rw [b, (cstr_of_get hd hq).1]

/-- `h.~str(); new (&h) str(std::move(tmp))` -/
theorem installTmp_spec {s : State} (hi : Inv U s) {h t : Nat} (hh : h ∈ U) (ht : t ∈ U) (hne : h ≠ t) :
    ∃ s', (clear s h >>= fun s1 => Except.ok (ctorMove s1 h t)) = .ok s' ∧
      Reads U s' (upd1 (upd1 (cstr s) h (cstr s t)) t []) ∧ ptr s' t = 0 := by
  obtain ⟨s1, e1, w1, p1⟩ := clear_spec hi hh
  obtain ⟨a, b, c, d⟩ := transfer_spec w1.1 hh ht hne p1
  refine ⟨setPtr (setPtr s1 h (ptr s1 t)) t 0, by rw [e1]; rfl, ⟨a, fun x hx => ?_⟩, by simp⟩
  unfold upd1
  by_cases hxt : x = t
  · subst hxt; simp [c]
  · by_cases hxh : x = h
    · subst hxh
      simp only [hxt, if_false, if_true]
      rw [b]; exact w1.others t ht (Ne.symm hne)
    · simp only [hxt, hxh, if_false]
      rw [d x hxh hxt]; exact w1.others x hx hxh

end Morfuse.Str
