import MorfuseModel.Str.Lemmas6
/-!
# Lemmas for the `mfuse::str` model, part 7: `operator=(const str&)`, `operator=(str&&)`
-/
namespace Morfuse.Str
variable {U : List Nat}

theorem data_eta (d : Data) : ({ d with refcount := d.refcount + 1 - 1 } : Data) = d := by
  cases d; simp

theorem assignStr_spec {s : State} (hi : Inv U s) {h g : Nat} (hh : h ∈ U) (hg : g ∈ U) :
    ∃ s', assignStr s h g = .ok s' ∧ Writes U s s' h (cstr s g) := by
  have hset : ∀ (s0 : State) q, ({ s0 with hs := s0.hs.set h q } : State) = setPtr s0 h q := fun _ _ => rfl
  by_cases hq : ptr s g = 0
  · -- assigning an empty (null) string: release
    rw [(cstr_null hq hi).1]
    obtain ⟨s1, e1, w1, _⟩ := clear_spec hi hh
    by_cases hp : ptr s h = 0
    · refine ⟨setPtr s h 0, ?_, prep hi hp⟩
      simp [assignStr, acqRef, relRef, hq, hp, hset]
    · obtain ⟨d, hd⟩ := hi.live h hh hp
      obtain ⟨r1, r2⟩ := release_spec hi hh rfl hp hd
      refine ⟨setPtr (afterDelRef s (ptr s h) d) h 0, ?_, ⟨r1, (cstr_null (by simp) r1).1, r2, fun x hx => by simp [hx]⟩⟩
      simp [assignStr, acqRef, relRef, hq, hp, hset, delRef_eq hp hd]
  · obtain ⟨dq, hdq⟩ := hi.live g hg hq
    have ea : acqRef s (ptr s g) = .ok (setData s (ptr s g) { dq with refcount := dq.refcount + 1 }) := by
      simp [acqRef, hq, addRef_eq hq hdq]
    by_cases hp : ptr s h = 0
    · -- a null string starts sharing
      obtain ⟨a, b, c⟩ := share_spec hi hh hp hq hdq
      have hext : Ext (setData (setPtr s h (ptr s g)) (ptr s g) { dq with refcount := dq.refcount + 1 })
          (setPtr (setData s (ptr s g) { dq with refcount := dq.refcount + 1 }) h (ptr s g)) :=
        ⟨fun _ => rfl, fun _ => rfl, rfl⟩
      refine ⟨_, ?_, Writes.ext ⟨a, ?_, fun x _ hx => c x hx, fun x hx => by simp [hx]⟩ hext⟩
      · simp only [assignStr, ea, ok_bind, ptr_setData, hp, relRef, ne_eq, not_true_eq_false, if_false, hset]
      · rw [b, (cstr_of_get hdq hq).1]
    · by_cases hpq : ptr s h = ptr s g
      · -- already the same block: AddRef then DelRef
        have hg1 : (setData s (ptr s g) { dq with refcount := dq.refcount + 1 }).heap.get? (ptr s h)
            = some { dq with refcount := dq.refcount + 1 } := by rw [hpq]; simp
        have hext : Ext (setPtr (afterDelRef (setData s (ptr s g) { dq with refcount := dq.refcount + 1 }) (ptr s h)
            { dq with refcount := dq.refcount + 1 }) h (ptr s g)) s := by
          refine ⟨fun x => ?_, fun x => ?_, by simp⟩
          · rw [ptr_setPtr, ptr_afterDelRef, ptr_setData]
            split
            · rename_i e; rw [e, hpq]
            · rfl
          · rw [heap_setPtr, get_afterDelRef, get_setData, hpq]
            split
            · rename_i e
              simp only [Nat.add_eq_zero_iff, Nat.succ_ne_self, and_false, if_false, Nat.add_one_ne_zero]
              rw [e, hdq]
              congr 1 <;> exact data_eta dq
            · rfl
        have w := Writes.ext (Writes.refl hi h) hext.symm'
        have hcs : cstr s h = cstr s g := by simp [cstr, hpq]
        rw [hcs] at w
        refine ⟨_, ?_, w⟩
        simp only [assignStr, ea, ok_bind, ptr_setData, relRef, ne_eq, hp, not_false_eq_true, if_true,
          delRef_eq hp hg1, hset]
      · -- release the old block, share the new one
        obtain ⟨dp, hdp⟩ := hi.live h hh hp
        obtain ⟨r1, r2⟩ := release_spec hi hh rfl hp hdp
        have hgq : (setPtr (afterDelRef s (ptr s h) dp) h 0).heap.get? (ptr s g) = some dq := by
          rw [heap_setPtr, get_afterDelRef]; simp [Ne.symm hpq, hdq]
        obtain ⟨a, b, c⟩ := share_spec r1 hh (by simp) hq hgq
        have hg1 : (setData s (ptr s g) { dq with refcount := dq.refcount + 1 }).heap.get? (ptr s h) = some dp := by
          simp [hpq, hdp]
        obtain ⟨F, hF⟩ : ∃ F, F = setPtr (afterDelRef (setData s (ptr s g) { dq with refcount := dq.refcount + 1 })
            (ptr s h) dp) h (ptr s g) := ⟨_, rfl⟩
        have hext : Ext (setData (setPtr (setPtr (afterDelRef s (ptr s h) dp) h 0) h (ptr s g)) (ptr s g)
            { dq with refcount := dq.refcount + 1 }) F := by
          rw [hF]
          refine ⟨fun x => ?_, fun x => ?_, by simp⟩
          · simp only [ptr_setData, ptr_setPtr, ptr_afterDelRef]
            split <;> rfl
          · simp only [get_setData, heap_setPtr, get_afterDelRef]
            by_cases hx : x = ptr s g
            · have : x ≠ ptr s h := fun e => hpq (e ▸ hx ▸ rfl)
              simp [hx, Ne.symm hpq]
            · simp [hx]
        refine ⟨F, ?_, Writes.ext ⟨a, ?_, fun x hx hxh => (c x hxh).trans (r2 x hx hxh), fun x hx => by simp [hx]⟩ hext⟩
        · simp only [assignStr, ea, ok_bind, ptr_setData, relRef, ne_eq, hp, not_false_eq_true, if_true,
            delRef_eq hp hg1, hset]
          rw [hF]
        · rw [b, (cstr_of_get hdq hq).1]

theorem assignMove_spec {s : State} (hi : Inv U s) {h g : Nat} (hh : h ∈ U) (hg : g ∈ U) :
    ∃ s', assignMove s h g = .ok s' ∧
      Reads U s' (upd1 (upd1 (cstr s) g []) h (if h = g then [] else cstr s g)) ∧ ptr s' g = 0 := by
  have hset : ∀ (s0 : State) x q, ({ s0 with hs := s0.hs.set x q } : State) = setPtr s0 x q := fun _ _ _ => rfl
  by_cases hhg : h = g
  · subst hhg
    -- self move-assignment: the string ends up empty
    obtain ⟨s1, e1, w1, p1⟩ := clear_spec hi hh
    by_cases hp : ptr s h = 0
    · refine ⟨setPtr (setPtr s h (ptr s h)) h 0, ?_, ⟨?_, fun x hx => ?_⟩, by simp⟩
      · simp only [assignMove, relRef, hp, ne_eq, not_true_eq_false, if_false, ok_bind]; rfl
      · have : Ext (setPtr (setPtr s h (ptr s h)) h 0) s := by
          refine ⟨fun x => ?_, fun _ => rfl, rfl⟩
          simp only [ptr_setPtr]; split
          · rename_i e; rw [e, hp]
          · rfl
        exact this.symm'.inv hi
      · have : cstr (setPtr (setPtr s h (ptr s h)) h 0) x = cstr s x := by
          apply cstr_congr
          · simp only [ptr_setPtr]; split
            · rename_i e; rw [e, hp]
            · rfl
          · rfl
        rw [this]; unfold upd1
        split
        · rename_i e; rw [e, (cstr_null hp hi).1]; simp
        · rfl
    · obtain ⟨d, hd⟩ := hi.live h hh hp
      obtain ⟨r1, r2⟩ := release_spec hi hh rfl hp hd
      have hext : Ext (setPtr (afterDelRef s (ptr s h) d) h 0)
          (setPtr (setPtr (afterDelRef s (ptr s h) d) h (ptr (afterDelRef s (ptr s h) d) h)) h 0) := by
        refine ⟨fun x => ?_, fun _ => rfl, rfl⟩
        simp only [ptr_setPtr]; split <;> rfl
      refine ⟨_, ?_, ⟨hext.inv r1, fun x hx => ?_⟩, by simp⟩
      · simp only [assignMove, relRef, ne_eq, hp, not_false_eq_true, if_true, delRef_eq hp hd, ok_bind, hset]; rfl
      · have hnull : cstr (setPtr (afterDelRef s (ptr s h) d) h 0) h = [] := (cstr_null (by simp) r1).1
        rw [← hext.cstr]; unfold upd1
        by_cases hx' : x = h
        · subst hx'; simp [hnull]
        · simp only [hx', if_false]; exact r2 x hx hx'
  · by_cases hp : ptr s h = 0
    · obtain ⟨a, b, c, d⟩ := transfer_spec hi hh hg hhg hp
      refine ⟨setPtr (setPtr s h (ptr s g)) g 0, ?_, ⟨a, fun x hx => ?_⟩, by simp⟩
      · simp only [assignMove, relRef, hp, ne_eq, not_true_eq_false, if_false, ok_bind]; rfl
      · unfold upd1
        by_cases hxh : x = h
        · subst hxh; simp [hhg, b]
        · by_cases hxg : x = g
          · subst hxg; simp [hxh, c]
          · simp only [hxh, hxg, if_false]; exact d x hxh hxg
    · obtain ⟨dp, hdp⟩ := hi.live h hh hp
      obtain ⟨r1, r2⟩ := release_spec hi hh rfl hp hdp
      obtain ⟨a, b, c, d⟩ := transfer_spec r1 hh hg hhg (by simp)
      have hpg : ptr (setPtr (afterDelRef s (ptr s h) dp) h 0) g = ptr s g := by simp [Ne.symm hhg]
      rw [hpg] at a b c d
      have hext : Ext (setPtr (setPtr (setPtr (afterDelRef s (ptr s h) dp) h 0) h (ptr s g)) g 0)
          (setPtr (setPtr (afterDelRef s (ptr s h) dp) h (ptr (afterDelRef s (ptr s h) dp) g)) g 0) := by
        refine ⟨fun x => ?_, fun _ => rfl, rfl⟩
        simp only [ptr_setPtr, ptr_afterDelRef]; split <;> (try split) <;> rfl
      refine ⟨_, ?_, ⟨hext.inv a, fun x hx => ?_⟩, by simp⟩
      · simp only [assignMove, relRef, ne_eq, hp, not_false_eq_true, if_true, delRef_eq hp hdp, ok_bind, hset]; rfl
      · rw [← hext.cstr]; unfold upd1
        by_cases hxh : x = h
        · subst hxh
          simp only [if_true, hhg, if_false]
          rw [b]; exact r2 g hg (Ne.symm hhg)
        · by_cases hxg : x = g
          · subst hxg; simp [hxh, c]
          · simp only [hxh, hxg, if_false]
            rw [d x hxh hxg]; exact r2 x hx hxh

end Morfuse.Str

namespace Morfuse.Str

theorem delRef_ptr {s s1 : State} {p : Nat} (h : delRef s p = .ok s1) (x : Nat) : ptr s1 x = ptr s x := by
  unfold delRef at h
  cases hd : deref s p with
  | error e => rw [hd] at h; cases h
  | ok d =>
    rw [hd] at h
    simp only [ok_bind] at h
    split at h <;> (cases h; rfl)

theorem assignMove_ptrs {s s' : State} {h g : Nat} (hm : assignMove s h g = .ok s') :
    ∀ x, x ≠ h → x ≠ g → ptr s' x = ptr s x := by
  intro x hxh hxg
  unfold assignMove relRef at hm
  split at hm
  · cases hd : delRef s (ptr s h) with
    | error e => rw [hd] at hm; cases hm
    | ok s1 =>
      rw [hd] at hm
      simp only [ok_bind, Except.ok.injEq] at hm
      subst hm
      have := delRef_ptr hd x
      simp only [ptr, Mem.get_set, hxg, hxh, if_false] at this ⊢
      exact this
  · simp only [ok_bind, Except.ok.injEq] at hm
    subst hm
    simp [ptr, Mem.get_set, hxg, hxh]

end Morfuse.Str
