import MorfuseModel.Common.Mem
/-!
# Model of `mfuse::str` = `base_str<char>` (src/Common/str.cpp, include/morfuse/Common/str.h)

A `str` is one pointer `m_data` to a heap block `strdata {refcount, alloced, len}` followed by the
characters.  Several `str` objects may point to the same block (copy construction / assignment
share it, `refcount` = number of sharers − 1); every mutating member function is supposed to obtain
a private block first (`EnsureDataWritable`, or the reallocation inside `EnsureAlloced`).

State.  `heap : id ↦ Data` (id `0` is `nullptr`, ids are never reused), `hs : handle ↦ id` for the
`str` objects the history talks about.  `Data.bytes` is the C string in the block (everything before
the first NUL; the model's strings are NUL-free, the terminator is implicit), `len` and `alloced`
are the two header fields, `cap` is what the allocator was asked for (ghost: the C++ has it only as
`alloced`).  A write that does not fit `cap` is the fault `overflow`; using a block after
`freeMemory` is `useAfterFree`; `m_data->…` with `m_data == nullptr` is `nullDeref`.

Transcribed statement by statement, loops over characters as list operations on `bytes`
(`copy`/`cat`/`copyn` write `strlen + 1` resp. at most `max + 1` characters: that count is what is
checked against `cap`).  `Props/C18.lean` proves that from empty strings no history faults except
through the `assert`-only guards (`tolower/toupper/operator[] (non-const)/icmpn(str)/icmp(const char*)`
on a string that never had a buffer).

Not modelled: the numeric constructors and `operator+`/`+=` for numbers (formatting, property C03),
`resize` (raw buffer for the archiver), the path helpers, `wchar_t`/`char16_t`/`char32_t`
instantiations, `base_strview`, `const_str_static`; C-string arguments that point into the string's
own buffer; characters with value 0 written through `operator[]`.
-/
namespace Morfuse.Str

inductive Fault
  | nullDeref      -- `m_data->` on a null `m_data`
  | overflow       -- write past the end of the allocated block
  | useAfterFree   -- block used after `freeMemory`
  | uninit         -- characters between `strlen` and `len` that nothing ever wrote
  deriving DecidableEq, Repr

abbrev R (β : Type) := Except Fault β

structure Data where
  refcount : Nat
  alloced : Nat
  cap : Nat
  len : Nat
  bytes : List UInt8

/-- `id ↦ Data`, executable (hash map) with the three lemmas proofs need -/
structure Heap where
  m : Std.HashMap Nat Data

namespace Heap
def empty : Heap := ⟨∅⟩
def get? (s : Heap) (a : Nat) : Option Data := s.m[a]?
def set (s : Heap) (a : Nat) (v : Data) : Heap := ⟨s.m.insert a v⟩
def erase (s : Heap) (a : Nat) : Heap := ⟨s.m.erase a⟩
def size (s : Heap) : Nat := s.m.size

@[simp] theorem get?_empty (a : Nat) : empty.get? a = none := by simp [empty, get?]

theorem get?_set (s : Heap) (a : Nat) (v : Data) (x : Nat) :
    (s.set a v).get? x = if x = a then some v else s.get? x := by
  simp only [get?, set, Std.HashMap.getElem?_insert]
  by_cases h : x = a
  · subst h; simp
  · have : (a == x) = false := by simp; exact fun e => h e.symm
    simp [this, h]

theorem get?_erase (s : Heap) (a x : Nat) :
    (s.erase a).get? x = if x = a then none else s.get? x := by
  simp only [get?, erase, Std.HashMap.getElem?_erase]
  by_cases h : x = a
  · subst h; simp
  · have : (a == x) = false := by simp; exact fun e => h e.symm
    simp [this, h]
end Heap

structure State where
  heap : Heap := .empty
  hs : Mem := .empty           -- handle ↦ m_data (0 = nullptr)
  nextId : Nat := 1

def init : State := {}

/-- `m_data` of handle `h` -/
def ptr (s : State) (h : Nat) : Nat := s.hs.get h

/-- `*m_data` -/
def deref (s : State) (p : Nat) : R Data :=
  if p = 0 then .error .nullDeref
  else match s.heap.get? p with
    | some d => .ok d
    | none => .error .useAfterFree

/-- `allocateMemory(sizeof(strdata) + amount)` + `new (buf) strdata` -/
def alloc (s : State) (d : Data) : State × Nat :=
  ({ s with heap := s.heap.set s.nextId d, nextId := s.nextId + 1 }, s.nextId)

/-- `strdata::DelRef()` -/
def delRef (s : State) (p : Nat) : R State := do
  let d ← deref s p
  if d.refcount = 0 then .ok { s with heap := s.heap.erase p }       -- freeMemory(this)
  else .ok { s with heap := s.heap.set p { d with refcount := d.refcount - 1 } }

/-- `strdata::AddRef()` -/
def addRef (s : State) (p : Nat) : R State := do
  let d ← deref s p
  .ok { s with heap := s.heap.set p { d with refcount := d.refcount + 1 } }

/-- the characters of a block are replaced by `bs`; `written` characters (terminator included)
    were stored starting at the beginning of the buffer or behind existing ones -/
def store (s : State) (p : Nat) (bs : List UInt8) (written : Nat) : R State := do
  let d ← deref s p
  if written > d.cap then .error .overflow
  else .ok { s with heap := s.heap.set p { d with bytes := bs } }

def setLen (s : State) (p : Nat) (n : Nat) : R State := do
  let d ← deref s p
  .ok { s with heap := s.heap.set p { d with len := n } }

/-- `length()` -/
def length (s : State) (h : Nat) : Nat :=
  match s.heap.get? (ptr s h) with
  | some d => if ptr s h = 0 then 0 else d.len
  | none => 0

/-- `c_str()` as a list -/
def cstr (s : State) (h : Nat) : List UInt8 :=
  match s.heap.get? (ptr s h) with
  | some d => if ptr s h = 0 then [] else d.bytes
  | none => []

/-- `EnsureAlloced(amount, keepold)` -/
def ensureAlloced (s : State) (h : Nat) (amount : Nat) (keepold : Bool := true) : R State :=
  if ptr s h = 0 then
    if amount > 0 then
      -- m_data->alloced = amount; m_data->data()[0] = '\0';
      let (s, q) := alloc s { refcount := 0, alloced := amount, cap := amount, len := 0, bytes := [] }
      .ok { s with hs := s.hs.set h q }
    else .ok s
  else do
    let p := ptr s h
    let d ← deref s p
    -- a private block that is large enough is kept
    if amount ≤ d.alloced ∧ d.refcount = 0 then .ok s
    else
      -- the old characters must fit the new block
      let amount := if keepold ∧ amount < d.len + 1 then d.len + 1 else amount
      let nd : Data := { refcount := 0, alloced := amount, cap := amount,
                         len := if keepold then d.len else 0, bytes := if keepold then d.bytes else [] }
      -- copy(newbuffer, m_data->data()) writes strlen + 1 characters
      if keepold ∧ d.bytes.length + 1 > amount then .error .overflow
      else do
        let s ← delRef s p
        let (s, q) := alloc s nd
        .ok { s with hs := s.hs.set h q }

/-- `EnsureDataWritable()` -/
def ensureDataWritable (s : State) (h : Nat) : R State :=
  if ptr s h = 0 then .ok s
  else do
    let old := ptr s h
    let d ← deref s old
    if d.refcount = 0 then .ok s
    else do
      let len := d.len
      let s := { s with hs := s.hs.set h 0 }             -- m_data = nullptr
      let s ← ensureAlloced s h (len + 1) false
      let p := ptr s h
      -- copyn(m_data->data(), olddata->data(), len + 1): min(strlen + 1, len + 2) characters
      let s ← store s p (d.bytes.take (len + 1)) (Nat.min (d.bytes.length + 1) (len + 2))
      let s ← setLen s p len
      delRef s old

/-! ### constructors (on a handle whose `m_data` is still unset = null) -/

/-- `base_str(const CharT* text)` -/
def ctorText (s : State) (h : Nat) (text : List UInt8) : R State :=
  let s := { s with hs := s.hs.set h 0 }
  if text.length ≠ 0 then do
    let len := text.length
    let s ← ensureAlloced s h (len + 1)
    let p := ptr s h
    let s ← store s p text (len + 1)             -- copyn(..., len); data()[len] = 0
    setLen s p len
  else .ok s

/-- `base_str(const CharT* text, size_t len)`, `len ≤ strlen(text)` -/
def ctorTextN (s : State) (h : Nat) (text : List UInt8) (len : Nat) : R State :=
  let s := { s with hs := s.hs.set h 0 }
  if text.length ≠ 0 ∧ len ≠ 0 then do
    let s ← ensureAlloced s h (len + 1)
    let p := ptr s h
    let s ← store s p (text.take len) (len + 1)
    setLen s p len
  else .ok s

/-- `base_str(const CharT ch)`, `ch ≠ 0` -/
def ctorChar (s : State) (h : Nat) (ch : UInt8) : R State := do
  let s := { s with hs := s.hs.set h 0 }
  let s ← ensureAlloced s h 2
  let p := ptr s h
  let s ← store s p [ch] 2
  setLen s p 1

/-- `base_str(const base_str& text, size_t start, size_t end)` -/
def ctorSub (s : State) (h g : Nat) (start stop : Nat) : R State := do
  let s := { s with hs := s.hs.set h 0 }
  let tl := length s g
  let stop := if stop > tl then tl else stop
  let start := if start > tl then tl else start
  let len := if stop > start then stop - start else 0
  let s ← ensureAlloced s h (len + 1)
  let p := ptr s h
  -- for (i < len) data()[i] = text[start + i];  data()[len] = 0;
  let s ← store s p (((cstr s g).drop start).take len) (len + 1)
  setLen s p len

/-- `base_str(const base_str& text)` -/
def ctorCopy (s : State) (h g : Nat) : R State :=
  let p := ptr s g
  let s := { s with hs := s.hs.set h p }
  if p ≠ 0 then addRef s p else .ok s

/-- `base_str(base_str&& string)` -/
def ctorMove (s : State) (h g : Nat) : State :=
  let p := ptr s g
  let s := { s with hs := s.hs.set h p }
  { s with hs := s.hs.set g 0 }

/-- `clear()` / `~base_str()` -/
def clear (s : State) (h : Nat) : R State :=
  if ptr s h ≠ 0 then do
    let s ← delRef s (ptr s h)
    .ok { s with hs := s.hs.set h 0 }
  else .ok s

/-! ### assignment -/

/-- `if (p) p->AddRef();` -/
def acqRef (s : State) (p : Nat) : R State := if p ≠ 0 then addRef s p else .ok s

/-- `if (p) p->DelRef();` -/
def relRef (s : State) (p : Nat) : R State := if p ≠ 0 then delRef s p else .ok s

/-- `operator=(const base_str& text)` -/
def assignStr (s : State) (h g : Nat) : R State := do
  let q := ptr s g
  -- adding the reference before deleting our current reference: safe when copying from ourself
  let s ← acqRef s q
  let s ← relRef s (ptr s h)
  .ok { s with hs := s.hs.set h q }

/-- `operator=(base_str&& text)` -/
def assignMove (s : State) (h g : Nat) : R State := do
  let s ← relRef s (ptr s h)
  let s := { s with hs := s.hs.set h (ptr s g) }
  .ok { s with hs := s.hs.set g 0 }

/-- `operator=(const CharT* text)`, `text` not inside the own buffer -/
def assignText (s : State) (h : Nat) (text : List UInt8) : R State := do
  -- if (m_data) { m_data->DelRef(); m_data = nullptr; }
  let s ← clear s h
  if text.length ≠ 0 then
    let len := text.length
    let (s, q) := alloc s { refcount := 0, alloced := len + 1, cap := len + 1, len := len, bytes := text }
    .ok { s with hs := s.hs.set h q }
  else .ok s

/-- `assign(const CharT* text, size_t sz)`, `sz ≤ strlen(text)` -/
def assignN (s : State) (h : Nat) (text : List UInt8) (sz : Nat) : R State := do
  let s ← ensureAlloced s h (sz + 1) true
  let p := ptr s h
  let s ← setLen s p sz
  store s p (text.take sz) (sz + 1)

/-! ### append -/

/-- `append(const CharT* text)` / `operator+=(const CharT*)` / `operator+=(const CharT)` -/
def appendText (s : State) (h : Nat) (text : List UInt8) : R State :=
  let len := length s h + text.length
  if len = 0 then .ok s
  else do
    let s ← ensureAlloced s h (len + 1)
    let p := ptr s h
    let d ← deref s p
    -- cat(data(), text): strlen(data()) + strlen(text) + 1 characters end up in the buffer
    let s ← store s p (d.bytes ++ text) (d.bytes.length + text.length + 1)
    setLen s p len

/-- `append(const CharT c)` -/
def appendChar (s : State) (h : Nat) (c : UInt8) : R State :=
  if c ≠ 0 then do
    let len := length s h
    let newLen := len + 1
    let s ← ensureAlloced s h (newLen + 1)
    let p := ptr s h
    let d ← deref s p
    if d.bytes.length < len then .error .uninit
    else do
      -- data[len] = c; data[newLen] = 0;
      let s ← store s p (d.bytes.take len ++ [c]) (newLen + 1)
      setLen s p newLen
  else .ok s

/-- `append(const base_str& text)` / `operator+=(const base_str&)`; `g = h` is `s.append(s)` -/
def appendStr (s : State) (h g : Nat) : R State :=
  let oldLen := length s h
  let addLen := length s g
  let len := oldLen + addLen
  if len = 0 then .ok s
  else do
    -- the characters of `text` as they are when they are read, i.e. after a possible reallocation
    let s ← ensureAlloced s h (len + 1)
    let p := ptr s h
    let d ← deref s p
    let src := cstr s g
    if d.bytes.length < oldLen ∨ src.length < addLen then .error .uninit
    else do
      -- for (i < addLen) data()[oldLen + i] = src[i];  data()[len] = 0;
      let s ← store s p (d.bytes.take oldLen ++ src.take addLen) (len + 1)
      setLen s p len

/-! ### character access -/

/-- `operator[](index) const` -/
def getChar (s : State) (h : Nat) (index : Nat) : UInt8 :=
  if index ≥ length s h then 0 else (cstr s h).getD index 0

/-- `operator[](index) = c` (non-const `operator[]`, then the store through the reference), `c ≠ 0` -/
def setChar (s : State) (h : Nat) (index : Nat) (c : UInt8) : R State := do
  let s ← ensureDataWritable s h
  let p := ptr s h
  let d ← deref s p                     -- `m_data->len` : the `assert(m_data)` is compiled out
  if index ≥ d.len then .ok s           -- the store goes to a static dummy
  else store s p (d.bytes.set index c) (index + 1)

/-! ### shortening -/

/-- `CapLength(newlen)` -/
def capLength (s : State) (h : Nat) (newlen : Nat) : R State :=
  if length s h ≤ newlen then .ok s
  else do
    let s ← ensureDataWritable s h
    let p := ptr s h
    let d ← deref s p
    let s ← store s p (d.bytes.take newlen) (newlen + 1)
    setLen s p newlen

/-- `operator-=(int c)` for `c ≥ 0`; `operator--(int)` is `c = 1` -/
def minus (s : State) (h : Nat) (c : Nat) : R State :=
  if ptr s h = 0 then .ok s
  else if length s h = 0 then .ok s
  else do
    let s ← ensureDataWritable s h
    let p := ptr s h
    let d ← deref s p
    let newLen := if c > 0 then (if c < d.len then d.len - c else 0) else d.len
    let s ← setLen s p newLen
    store s p (d.bytes.take newLen) (newLen + 1)

def isSpace (c : UInt8) : Bool := c = 32 ∨ (9 ≤ c ∧ c ≤ 13)
def lowerC (c : UInt8) : UInt8 := if 65 ≤ c ∧ c ≤ 90 then c + 32 else c
def upperC (c : UInt8) : UInt8 := if 97 ≤ c ∧ c ≤ 122 then c - 32 else c

def trim (bs : List UInt8) : List UInt8 :=
  ((bs.dropWhile isSpace).reverse.dropWhile isSpace).reverse

/-- `strip()` -/
def strip (s : State) (h : Nat) : R State :=
  if ptr s h = 0 then .ok s
  else do
    let s ← ensureDataWritable s h
    let p := ptr s h
    let d ← deref s p
    let t := trim d.bytes
    let s ← setLen s p t.length
    store s p t (t.length + 1)

/-- `tolower()` / `toupper()`; the `assert(m_data)` is compiled out -/
def mapCase (f : UInt8 → UInt8) (s : State) (h : Nat) : R State := do
  let s ← ensureDataWritable s h
  let p := ptr s h
  let d ← deref s p                     -- null `m_data`: the loop reads through address 24
  store s p (d.bytes.map f) d.bytes.length

/-- `reserve(len)` -/
def reserve (s : State) (h : Nat) (n : Nat) : R State := ensureAlloced s h (n + 1) true

/-! ### comparison (`char` is signed) -/

def sc (c : UInt8) : Int := if c.toNat < 128 then c.toNat else (c.toNat : Int) - 256

/-- `cmpn(s1, s2, n)`; `cmp` is `n = ∞` (any `n` > both lengths) -/
def cmpn : List UInt8 → List UInt8 → Nat → Int
  | _, _, 0 => 0
  | a, b, n + 1 =>
    let c1 := a.headD 0
    let c2 := b.headD 0
    if sc c1 < sc c2 then -1
    else if sc c1 > sc c2 then 1
    else if c1 = 0 then 0
    else cmpn a.tail b.tail n

/-- `icmpn(s1, s2, n)`; `icmp` is `n = ∞` -/
def icmpn : List UInt8 → List UInt8 → Nat → Int
  | _, _, 0 => 0
  | a, b, n + 1 =>
    let c1 := a.headD 0
    let c2 := b.headD 0
    let u1 := if c1 ≠ c2 then upperC c1 else c1
    let u2 := if c1 ≠ c2 then upperC c2 else c2
    if sc u1 < sc u2 then -1
    else if sc u1 > sc u2 then 1
    else if c1 = 0 then 0
    else icmpn a.tail b.tail n

/-- `operator==(const base_str&)` -/
def eqStr (s : State) (a b : Nat) : Bool :=
  cmpn (cstr s a) (cstr s b) ((cstr s a).length + (cstr s b).length + 1) = 0

/-- `icmpn(const base_str& text, n)`: both `m_data` are dereferenced (asserts compiled out) -/
def icmpnStr (s : State) (a b : Nat) (n : Nat) : R Int := do
  let da ← deref s (ptr s a)
  let db ← deref s (ptr s b)
  .ok (icmpn da.bytes db.bytes n)

/-! ### operations on a family of `str` objects; handle `tmpH` is the temporary of an expression -/

def tmpH : Nat := 1000

inductive Op
  | ctorText (h : Nat) (t : List UInt8)          -- { str tmp(t); h.~str(); new (&h) str(std::move(tmp)); }
  | ctorTextN (h : Nat) (t : List UInt8) (n : Nat)
  | ctorChar (h : Nat) (c : UInt8)
  | ctorSub (h g : Nat) (start stop : Nat)
  | ctorCopy (h g : Nat)
  | assignStr (h g : Nat)                        -- h = g
  | assignMove (h g : Nat)                       -- h = std::move(g)
  | assignText (h : Nat) (t : List UInt8)        -- h = t
  | assignN (h : Nat) (t : List UInt8) (n : Nat)
  | appendStr (h g : Nat)
  | appendText (h : Nat) (t : List UInt8)
  | appendChar (h : Nat) (c : UInt8)
  | plus (h a b : Nat)                           -- h = a + b
  | setChar (h : Nat) (i : Nat) (c : UInt8)
  | capLength (h : Nat) (n : Nat)
  | minus (h : Nat) (n : Nat)
  | lower (h : Nat)
  | upper (h : Nat)
  | strip (h : Nat)
  | reserve (h : Nat) (n : Nat)
  | clear (h : Nat)

/-- `h.~str(); new (&h) str(std::move(tmp));` -/
def installTmp (s : State) (h : Nat) : R State := do
  let s ← clear s h
  .ok (ctorMove s h tmpH)

def step (s : State) : Op → R State
  | .ctorText h t => do let s ← ctorText s tmpH t; installTmp s h
  | .ctorTextN h t n => do let s ← ctorTextN s tmpH t n; installTmp s h
  | .ctorChar h c => do let s ← ctorChar s tmpH c; installTmp s h
  | .ctorSub h g a b => do let s ← ctorSub s tmpH g a b; installTmp s h
  | .ctorCopy h g => do let s ← ctorCopy s tmpH g; installTmp s h
  | .assignStr h g => assignStr s h g
  | .assignMove h g => assignMove s h g
  | .assignText h t => assignText s h t
  | .assignN h t n => assignN s h t n
  | .appendStr h g => appendStr s h g
  | .appendText h t => appendText s h t
  | .appendChar h c => appendChar s h c
  | .plus h a b => do
    -- base_str result(*this); result.append(b); return result;   then   h = std::move(result)
    let s ← ctorCopy s tmpH a
    let s ← appendStr s tmpH b
    assignMove s h tmpH
  | .setChar h i c => setChar s h i c
  | .capLength h n => capLength s h n
  | .minus h n => minus s h n
  | .lower h => mapCase lowerC s h
  | .upper h => mapCase upperC s h
  | .strip h => strip s h
  | .reserve h n => reserve s h n
  | .clear h => clear s h

def run : State → List Op → R State
  | s, [] => .ok s
  | s, op :: ops => do
    let s ← step s op
    run s ops

end Morfuse.Str
