import MorfuseModel.Str.Lemmas7
/-!
# `mfuse::str`: every operation on a family of strings is the operation on independent abstract
strings (refinement **and** isolation in one statement), refcounts count handles, nothing leaks
-/
namespace Morfuse.Str

/-- the abstract specification: a family of independent byte strings -/
def Spec.step (m : Nat → List UInt8) : Op → (Nat → List UInt8)
  | .ctorText h t => upd1 m h t
  | .ctorTextN h t n => upd1 m h (t.take n)
  | .ctorChar h c => upd1 m h [c]
  | .ctorSub h g a b => upd1 m h (subOf (m g) a b)
  | .ctorCopy h g => upd1 m h (m g)
  | .assignStr h g => upd1 m h (m g)
  | .assignMove h g => upd1 (upd1 m g []) h (if h = g then [] else m g)
  | .assignText h t => upd1 m h t
  | .assignN h t n => upd1 m h (t.take n)
  | .appendStr h g => upd1 m h (m h ++ m g)
  | .appendText h t => upd1 m h (m h ++ t)
  | .appendChar h c => upd1 m h (if c = 0 then m h else m h ++ [c])
  | .plus h a b => upd1 m h (m a ++ m b)
  | .setChar h i c => upd1 m h (if i < (m h).length then (m h).set i c else m h)
  | .capLength h n => upd1 m h ((m h).take n)
  | .minus h n => upd1 m h ((m h).take ((m h).length - n))
  | .lower h => upd1 m h ((m h).map lowerC)
  | .upper h => upd1 m h ((m h).map upperC)
  | .strip h => upd1 m h (trim (m h))
  | .reserve _ _ => m
  | .clear h => upd1 m h []

/-- the operation names only strings of `U`, and counts do not exceed the C string they index -/
def Valid (U : List Nat) : Op → Prop
  | .ctorText h _ | .ctorChar h _ | .assignText h _ | .appendText h _ | .appendChar h _ | .setChar h _ _
  | .capLength h _ | .minus h _ | .lower h | .upper h | .strip h | .reserve h _ | .clear h => h ∈ U
  | .ctorTextN h t n | .assignN h t n => h ∈ U ∧ n ≤ t.length
  | .ctorSub h g _ _ | .ctorCopy h g | .assignStr h g | .assignMove h g | .appendStr h g => h ∈ U ∧ g ∈ U
  | .plus h a b => h ∈ U ∧ a ∈ U ∧ b ∈ U

/-- the guards the C++ states only as `assert(m_data)` -/
def UB (s : State) : Op → Prop
  | .setChar h _ _ | .lower h | .upper h => ptr s h = 0
  | _ => False

/-- invariant of a history over the strings `U` (plus the expression temporary) -/
structure HInv (U : List Nat) (s : State) : Prop where
  inv : Inv (tmpH :: U) s
  tmp : ptr s tmpH = 0
  notin : tmpH ∉ U

variable {U : List Nat}

theorem HInv.mem {s : State} (_ : HInv U s) {h : Nat} (hh : h ∈ U) : h ∈ tmpH :: U := List.mem_cons_of_mem _ hh
theorem HInv.ne {s : State} (hi : HInv U s) {h : Nat} (hh : h ∈ U) : h ≠ tmpH := fun e => hi.notin (e ▸ hh)

/-- packaging for operations that write one string of `U` directly -/
theorem direct {s s' : State} (hi : HInv U s) {h : Nat} (hh : h ∈ U) {bs : List UInt8}
    (w : Writes (tmpH :: U) s s' h bs) :
    HInv U s' ∧ ∀ x ∈ U, cstr s' x = upd1 (cstr s) h bs x := by
  refine ⟨⟨w.1, ?_, hi.notin⟩, fun x hx => w.reads.2 x (hi.mem hx)⟩
  rw [w.ptrs tmpH (Ne.symm (hi.ne hh))]; exact hi.tmp

/-- packaging for the constructors: build in the temporary, then move it into `h` -/
theorem viaTmp {s s1 : State} (hi : HInv U s) {h : Nat} (hh : h ∈ U) {bs : List UInt8}
    (w : Writes (tmpH :: U) s s1 tmpH bs) :
    ∃ s', installTmp s1 h = .ok s' ∧ HInv U s' ∧ ∀ x ∈ U, cstr s' x = upd1 (cstr s) h bs x := by
  obtain ⟨s', e, r, p⟩ := installTmp_spec w.1 (hi.mem hh) (List.mem_cons_self ..) (hi.ne hh)
  refine ⟨s', e, ⟨r.1, p, hi.notin⟩, fun x hx => ?_⟩
  rw [r.2 x (hi.mem hx)]
  have hxt : x ≠ tmpH := hi.ne hx
  unfold upd1
  simp only [hxt, if_false]
  split
  · exact w.2.1
  · rename_i hxh; exact w.others x (hi.mem hx) hxt

theorem step_refines {s : State} (hi : HInv U s) (op : Op) (hv : Valid U op) :
    (UB s op ∧ ∃ e, step s op = .error e) ∨
    (¬ UB s op ∧ ∃ s', step s op = .ok s' ∧ HInv U s' ∧ ∀ x ∈ U, cstr s' x = Spec.step (cstr s) op x) := by
  have htm : tmpH ∈ tmpH :: U := List.mem_cons_self ..
  cases op with
  | ctorText h t =>
    obtain ⟨s1, e1, w1⟩ := ctorText_spec hi.inv htm hi.tmp t
    obtain ⟨s', e2, a, b⟩ := viaTmp hi hv w1
    exact Or.inr ⟨id, s', by simp [step, e1, e2], a, b⟩
  | ctorTextN h t n =>
    obtain ⟨s1, e1, w1⟩ := ctorTextN_spec hi.inv htm hi.tmp t n hv.2
    obtain ⟨s', e2, a, b⟩ := viaTmp hi hv.1 w1
    exact Or.inr ⟨id, s', by simp [step, e1, e2], a, b⟩
  | ctorChar h c =>
    obtain ⟨s1, e1, w1⟩ := ctorChar_spec hi.inv htm hi.tmp c
    obtain ⟨s', e2, a, b⟩ := viaTmp hi hv w1
    exact Or.inr ⟨id, s', by simp [step, e1, e2], a, b⟩
  | ctorSub h g a b =>
    obtain ⟨s1, e1, w1⟩ := ctorSub_spec hi.inv htm (hi.mem hv.2) (hi.ne hv.2) hi.tmp a b
    obtain ⟨s', e2, c, d⟩ := viaTmp hi hv.1 w1
    exact Or.inr ⟨id, s', by simp [step, e1, e2], c, d⟩
  | ctorCopy h g =>
    obtain ⟨s1, e1, w1⟩ := ctorCopy_spec hi.inv htm (hi.mem hv.2) hi.tmp
    obtain ⟨s', e2, c, d⟩ := viaTmp hi hv.1 w1
    exact Or.inr ⟨id, s', by simp [step, e1, e2], c, d⟩
  | assignStr h g =>
    obtain ⟨s', e1, w1⟩ := assignStr_spec hi.inv (hi.mem hv.1) (hi.mem hv.2)
    obtain ⟨a, b⟩ := direct hi hv.1 w1
    exact Or.inr ⟨id, s', by simp [step, e1], a, b⟩
  | assignMove h g =>
    obtain ⟨s', e1, r1, _⟩ := assignMove_spec hi.inv (hi.mem hv.1) (hi.mem hv.2)
    refine Or.inr ⟨id, s', by simp [step, e1], ⟨r1.1, ?_, hi.notin⟩, fun x hx => r1.2 x (hi.mem hx)⟩
    rw [assignMove_ptrs e1 tmpH (Ne.symm (hi.ne hv.1)) (Ne.symm (hi.ne hv.2))]; exact hi.tmp
  | assignText h t =>
    obtain ⟨s', e1, w1⟩ := assignText_spec hi.inv (hi.mem hv) t
    obtain ⟨a, b⟩ := direct hi hv w1
    exact Or.inr ⟨id, s', by simp [step, e1], a, b⟩
  | assignN h t n =>
    obtain ⟨s', e1, w1⟩ := assignN_spec hi.inv (hi.mem hv.1) t n hv.2
    obtain ⟨a, b⟩ := direct hi hv.1 w1
    exact Or.inr ⟨id, s', by simp [step, e1], a, b⟩
  | appendStr h g =>
    obtain ⟨s', e1, w1⟩ := appendStr_spec hi.inv (hi.mem hv.1) (hi.mem hv.2)
    obtain ⟨a, b⟩ := direct hi hv.1 w1
    exact Or.inr ⟨id, s', by simp [step, e1], a, b⟩
  | appendText h t =>
    obtain ⟨s', e1, w1⟩ := appendText_spec hi.inv (hi.mem hv) t
    obtain ⟨a, b⟩ := direct hi hv w1
    exact Or.inr ⟨id, s', by simp [step, e1], a, b⟩
  | appendChar h c =>
    obtain ⟨s', e1, w1⟩ := appendChar_spec hi.inv (hi.mem hv) c
    obtain ⟨a, b⟩ := direct hi hv w1
    exact Or.inr ⟨id, s', by simp [step, e1], a, b⟩
  | plus h a b =>
    -- result(*this); result.append(b); h = std::move(result)
    obtain ⟨s1, e1, w1⟩ := ctorCopy_spec hi.inv htm (hi.mem hv.2.1) hi.tmp
    obtain ⟨s2, e2, w2⟩ := appendStr_spec w1.1 htm (hi.mem hv.2.2)
    obtain ⟨s3, e3, r3, p3⟩ := assignMove_spec w2.1 (hi.mem hv.1) htm
    have hb1 : cstr s1 b = cstr s b := w1.others b (hi.mem hv.2.2) (hi.ne hv.2.2)
    have ht2 : cstr s2 tmpH = cstr s a ++ cstr s b := by rw [w2.2.1, w1.2.1, hb1]
    refine Or.inr ⟨id, s3, by simp [step, e1, e2, e3], ⟨r3.1, p3, hi.notin⟩, fun x hx => ?_⟩
    rw [r3.2 x (hi.mem hx)]
    have hxt : x ≠ tmpH := hi.ne hx
    have hht : h ≠ tmpH := hi.ne hv.1
    simp only [Spec.step, upd1, hht, if_false, hxt]
    split
    · exact ht2
    · rename_i hxh
      rw [w2.others x (hi.mem hx) hxt, w1.others x (hi.mem hx) hxt]
  | setChar h i c =>
    by_cases hp : ptr s h = 0
    · exact Or.inl ⟨hp, .nullDeref, by simp [step, setChar_null hi.inv (hi.mem hv) hp]⟩
    · obtain ⟨s', e1, w1⟩ := setChar_spec hi.inv (hi.mem hv) hp i c
      obtain ⟨a, b⟩ := direct hi hv w1
      exact Or.inr ⟨hp, s', by simp [step, e1], a, b⟩
  | capLength h n =>
    obtain ⟨s', e1, w1⟩ := capLength_spec hi.inv (hi.mem hv) n
    obtain ⟨a, b⟩ := direct hi hv w1
    exact Or.inr ⟨id, s', by simp [step, e1], a, b⟩
  | minus h n =>
    obtain ⟨s', e1, w1⟩ := minus_spec hi.inv (hi.mem hv) n
    obtain ⟨a, b⟩ := direct hi hv w1
    exact Or.inr ⟨id, s', by simp [step, e1], a, b⟩
  | lower h =>
    by_cases hp : ptr s h = 0
    · exact Or.inl ⟨hp, .nullDeref, by simp [step, mapCase_null hi.inv (hi.mem hv) hp]⟩
    · obtain ⟨s', e1, w1⟩ := mapCase_spec hi.inv (hi.mem hv) hp lowerC
      obtain ⟨a, b⟩ := direct hi hv w1
      exact Or.inr ⟨hp, s', by simp [step, e1], a, b⟩
  | upper h =>
    by_cases hp : ptr s h = 0
    · exact Or.inl ⟨hp, .nullDeref, by simp [step, mapCase_null hi.inv (hi.mem hv) hp]⟩
    · obtain ⟨s', e1, w1⟩ := mapCase_spec hi.inv (hi.mem hv) hp upperC
      obtain ⟨a, b⟩ := direct hi hv w1
      exact Or.inr ⟨hp, s', by simp [step, e1], a, b⟩
  | strip h =>
    obtain ⟨s', e1, w1⟩ := strip_spec hi.inv (hi.mem hv)
    obtain ⟨a, b⟩ := direct hi hv w1
    exact Or.inr ⟨id, s', by simp [step, e1], a, b⟩
  | reserve h n =>
    obtain ⟨s', e1, w1⟩ := reserve_spec hi.inv (hi.mem hv) n
    obtain ⟨a, b⟩ := direct hi hv w1
    refine Or.inr ⟨id, s', by simp [step, e1], a, fun x hx => ?_⟩
    rw [b x hx]; unfold upd1; split
    · rename_i e; rw [e]; rfl
    · rfl
  | clear h =>
    obtain ⟨s', e1, w1, _⟩ := clear_spec hi.inv (hi.mem hv)
    obtain ⟨a, b⟩ := direct hi hv w1
    exact Or.inr ⟨id, s', by simp [step, e1], a, b⟩

theorem hinv_init (hU : U.Nodup) (ht : tmpH ∉ U) : HInv U init :=
  ⟨inv_init _ (List.nodup_cons.mpr ⟨ht, hU⟩), by simp [ptr, init], ht⟩

end Morfuse.Str

namespace Morfuse.Str
variable {U : List Nat}

/-- the abstract history -/
def Spec.run (m : Nat → List UInt8) : List Op → (Nat → List UInt8)
  | [] => m
  | op :: ops => Spec.run (Spec.step m op) ops

/-- the strings an operation writes -/
def targets : Op → List Nat
  | .assignMove h g => [h, g]
  | .ctorText h _ | .ctorTextN h _ _ | .ctorChar h _ | .ctorSub h _ _ _ | .ctorCopy h _ | .assignStr h _
  | .assignText h _ | .assignN h _ _ | .appendStr h _ | .appendText h _ | .appendChar h _ | .plus h _ _
  | .setChar h _ _ | .capLength h _ | .minus h _ | .lower h | .upper h | .strip h | .reserve h _ | .clear h => [h]

theorem spec_step_frame (m : Nat → List UInt8) (op : Op) (x : Nat) (hx : x ∉ targets op) : Spec.step m op x = m x := by
  cases op <;> simp only [targets, List.mem_cons, List.not_mem_nil, or_false, not_or] at hx <;>
    simp [Spec.step, upd1, hx]

/-- Spec.step only depends on the strings of `U` when the operation is valid -/
theorem spec_step_congr {m m' : Nat → List UInt8} {op : Op} (hv : Valid U op) (hm : ∀ x ∈ U, m x = m' x) :
    ∀ x ∈ U, Spec.step m op x = Spec.step m' op x := by
  intro x hx
  cases op <;> simp only [Valid] at hv <;> simp only [Spec.step, upd1] <;>
    (try split) <;> simp_all

def ValidAll (U : List Nat) (ops : List Op) : Prop := ∀ op ∈ ops, Valid U op

/-- states reachable by a history that only names strings of `U` -/
def Reachable (U : List Nat) (s : State) : Prop := ∃ ops, ValidAll U ops ∧ run init ops = .ok s

theorem run_refines : ∀ (ops : List Op) {s s' : State} {m : Nat → List UInt8}, HInv U s → ValidAll U ops →
    (∀ x ∈ U, cstr s x = m x) → run s ops = .ok s' →
    HInv U s' ∧ ∀ x ∈ U, cstr s' x = Spec.run m ops x := by
  intro ops
  induction ops with
  | nil => intro s s' m hi _ hm h; simp [run] at h; subst h; exact ⟨hi, hm⟩
  | cons op ops ih =>
    intro s s' m hi hv hm h
    have hvo : Valid U op := hv op (List.mem_cons_self ..)
    rcases step_refines hi op hvo with ⟨_, e, he⟩ | ⟨_, s1, h1, hi1, hs1⟩
    · simp [run, he] at h
    · simp only [run, h1, ok_bind] at h
      refine ih hi1 (fun o ho => hv o (List.mem_cons_of_mem _ ho)) (fun x hx => ?_) h
      rw [hs1 x hx]
      exact spec_step_congr hvo hm x hx

theorem reachable_hinv (hU : U.Nodup) (ht : tmpH ∉ U) {s : State} (h : Reachable U s) : HInv U s := by
  obtain ⟨ops, hv, hr⟩ := h
  have hm : ∀ x ∈ U, cstr init x = (fun _ => ([] : List UInt8)) x := fun x _ => by simp [cstr, init, ptr]
  exact (run_refines ops (hinv_init hU ht) hv hm hr).1

end Morfuse.Str

namespace Morfuse.Str
variable {U : List Nat}

/-- operations without an `assert(m_data)` guard -/
def Unguarded : Op → Prop
  | .setChar .. | .lower _ | .upper _ => False
  | _ => True

theorem not_ub_of_unguarded {s : State} {op : Op} (h : Unguarded op) : ¬ UB s op := by
  cases op <;> simp_all [Unguarded, UB]

/-- a history of unguarded operations never faults -/
theorem run_defined : ∀ (ops : List Op) {s : State}, HInv U s → ValidAll U ops → (∀ op ∈ ops, Unguarded op) →
    ∃ s', run s ops = .ok s' := by
  intro ops
  induction ops with
  | nil => intro s _ _ _; exact ⟨s, rfl⟩
  | cons op ops ih =>
    intro s hi hv hu
    rcases step_refines hi op (hv op (List.mem_cons_self ..)) with ⟨hub, _⟩ | ⟨_, s1, h1, hi1, _⟩
    · exact absurd hub (not_ub_of_unguarded (hu op (List.mem_cons_self ..)))
    · obtain ⟨s', hs'⟩ := ih hi1 (fun o ho => hv o (List.mem_cons_of_mem _ ho)) (fun o ho => hu o (List.mem_cons_of_mem _ ho))
      exact ⟨s', by simp [run, h1, hs']⟩

end Morfuse.Str
