import MorfuseModel.Target.Lemmas
/-! # `$name` evaluation against the specification, and the fan-out loop (helpers for `Props/C15.lean`) -/
namespace Morfuse.Target

/-! ### what `OP_UN_TARGETNAME` yields, in terms of the specification -/

theorem evalTarget_spec (cfg : Cfg) {s : State} (i : Inv s) (n : Name) :
    (bearers s.log n = [] ∧ evalTarget cfg s n = .obj none) ∨
    (∃ o, bearers s.log n = [o] ∧ evalTarget cfg s n = .obj (some o)) ∨
    (2 ≤ (bearers s.log n).length ∧
      ((cfg.snapshot = true ∧ evalTarget cfg s n = .arr ((bearers s.log n).map some)) ∨
       (cfg.snapshot = false ∧ ∃ l, s.tbl n = some l ∧ s.lists l = some ((bearers s.log n).map some) ∧
          evalTarget cfg s n = .cont l))) := by
  cases e : s.tbl n with
  | none =>
    left
    have h := i.refine n
    rw [listOf_none e] at h
    exact ⟨List.map_eq_nil_iff.mp h.symm, by simp [evalTarget, e]⟩
  | some l =>
    obtain ⟨rs, hrs, hne⟩ := i.nonempty n l e
    have h : rs = (bearers s.log n).map some := by
      rw [← i.refine n, ← lists_eq_listOf e, hrs]; rfl
    right
    cases hb : bearers s.log n with
    | nil => rw [hb] at h; exact absurd h hne
    | cons o t =>
      cases t with
      | nil =>
        left
        rw [hb] at h
        exact ⟨o, rfl, by simp [evalTarget, e, hrs, h]⟩
      | cons p t =>
        right
        rw [hb] at h
        refine ⟨by simp, ?_⟩
        cases hs : cfg.snapshot with
        | true => left; exact ⟨rfl, by simp [evalTarget, e, hrs, h, hs]⟩
        | false =>
          right
          refine ⟨rfl, l, rfl, by rw [hrs, h], by simp [evalTarget, e, hrs, h, hs]⟩

/-! ### extension without visits -/

theorem visits_append (a b : List Ev) : visits (a ++ b) = visits a ++ visits b := by
  induction a with
  | nil => rfl
  | cons e t ih => cases e <;> simp [visits, ih]

/-- `s'` comes after `s` without any fanned-out command having been executed in between: the log
    grew by events that are not visits, no object id was reused, no destroyed object came back -/
structure Ext (s s' : State) : Prop where
  log : ∃ seg, s'.log = s.log ++ seg ∧ visits seg = []
  next : s.nextObj ≤ s'.nextObj
  dead : ∀ x, x < s.nextObj → s'.alive x = true → s.alive x = true

theorem Ext.refl (s : State) : Ext s s := ⟨⟨[], by simp, rfl⟩, Nat.le_refl _, fun _ _ h => h⟩

theorem Ext.trans {a b c : State} (h1 : Ext a b) (h2 : Ext b c) : Ext a c := by
  obtain ⟨s1, e1, v1⟩ := h1.log
  obtain ⟨s2, e2, v2⟩ := h2.log
  refine ⟨⟨s1 ++ s2, by rw [e2, e1, List.append_assoc], by rw [visits_append, v1, v2]; rfl⟩,
    Nat.le_trans h1.next h2.next, ?_⟩
  intro x hx hc
  exact h1.dead x hx (h2.dead x (Nat.lt_of_lt_of_le hx h1.next) hc)

theorem Ext.of_same {s s' : State} (h1 : s'.log = s.log) (h2 : s'.nextObj = s.nextObj) (h3 : s'.alive = s.alive) :
    Ext s s' := ⟨⟨[], by simp [h1], rfl⟩, by rw [h2]; exact Nat.le_refl _, fun x _ h => by rw [h3] at h; exact h⟩

theorem say_ext (s : State) (t : String) : Ext s (say s t) := Ext.of_same rfl rfl rfl

theorem sayId_ext (s : State) (tag : String) (r : WeakRef) : Ext s (sayId s tag r) := by
  unfold sayId; split <;> exact say_ext _ _

theorem setTargetName_ext (s : State) (o : ObjId) (n : Name) : Ext s (setTargetName s o n) := by
  obtain ⟨f1, f2, -, f4, -⟩ := setTargetName_fields s o n
  exact ⟨⟨[.named o (normName n)], f4, rfl⟩, by rw [f2]; exact Nat.le_refl _, fun x _ h => by rw [f1] at h; exact h⟩

theorem destroy_ext (s : State) (o : ObjId) : Ext s (destroy s o) := by
  obtain ⟨f1, f2, -, f4, -⟩ := destroy_fields s o
  refine ⟨⟨[.destroyed o], f4, rfl⟩, by rw [f2]; exact Nat.le_refl _, ?_⟩
  intro x _ h
  rw [f1] at h
  by_cases e : x = o
  · subst e; simp at h
  · rwa [upd_other _ _ e] at h

theorem spawnObj_ext (s : State) : Ext s (spawnObj s) := by
  refine ⟨⟨[.spawned s.nextObj], rfl, rfl⟩, Nat.le_succ _, ?_⟩
  intro x hx h
  have e : x ≠ s.nextObj := Nat.ne_of_lt hx
  simpa [spawnObj, upd_other _ _ e] using h

theorem foldl_sayId_ext (rs : List WeakRef) (s : State) : Ext s (rs.foldl (fun st r => sayId st "e" r) s) := by
  induction rs generalizing s with
  | nil => exact Ext.refl s
  | cons a t ih => exact (sayId_ext s _ a).trans (ih _)

theorem sayIndex_ext {s s' : State} {a : Value} {k : Nat} (h : sayIndex s a k = .ok s') : Ext s s' := by
  unfold sayIndex at h
  cases a with
  | nil => cases h; exact say_ext _ _
  | obj r =>
    simp only at h
    split at h <;> cases h
    · exact sayId_ext _ _ _
    · exact (say_ext _ _).trans (say_ext _ _)
  | cont l =>
    simp only at h
    cases e : s.lists l with
    | none => simp [e] at h
    | some rs =>
      simp only [e] at h
      split at h <;> cases h
      · exact (say_ext _ _).trans (say_ext _ _)
      · exact sayId_ext _ _ _
  | arr rs =>
    simp only at h
    split at h <;> cases h
    · exact (say_ext _ _).trans (say_ext _ _)
    · exact sayId_ext _ _ _

theorem actCore_ext {cfg : Cfg} {self : Option ObjId} {s s' : State} {a : Act}
    (h : actCore cfg self s a = .ok s') : Ext s s' := by
  cases a with
  | spawn n =>
    simp only [actCore] at h
    split at h
    · cases h; exact say_ext _ _
    · split at h
      · cases h; exact (spawnObj_ext s).trans (say_ext _ _)
      · cases h; exact ((spawnObj_ext s).trans (setTargetName_ext _ _ _)).trans (say_ext _ _)
  | setName w n =>
    simp only [actCore] at h
    split at h <;> cases h
    · exact say_ext _ _
    · exact say_ext _ _
    · exact setTargetName_ext _ _ _
  | delete w =>
    simp only [actCore] at h
    split at h <;> cases h
    · exact say_ext _ _
    · exact say_ext _ _
    · exact destroy_ext _ _
  | mark w =>
    simp only [actCore] at h
    split at h <;> cases h
    · exact Ext.of_same rfl rfl rfl
    · exact say_ext _ _
  | hello =>
    simp only [actCore] at h
    split at h <;> cases h <;> exact say_ext _ _
  | capture v n => cases h; exact Ext.of_same rfl rfl rfl
  | copy v w => cases h; exact Ext.of_same rfl rfl rfl
  | query src =>
    simp only [actCore] at h
    split at h
    · cases h; exact (say_ext _ _).trans (foldl_sayId_ext _ _)
    · cases h
  | size src =>
    simp only [actCore] at h
    split at h <;> cases h
    exact say_ext _ _
  | index src k => exact sayIndex_ext h

theorem note_fields (cfg : Cfg) (s : State) (x : Option Src) :
    (note cfg s x).log = s.log ∧ (note cfg s x).nextObj = s.nextObj ∧ (note cfg s x).alive = s.alive ∧
    (note cfg s x).tbl = s.tbl ∧ (note cfg s x).lists = s.lists ∧ (note cfg s x).vals = s.vals ∧
    (note cfg s x).fld = s.fld ∧ (note cfg s x).cnt = s.cnt ∧ (note cfg s x).comp = s.comp := by
  unfold note
  split
  · split <;> simp [say]
  · simp

theorem note_tgt (cfg : Cfg) (s : State) (x : Option Src) : (note cfg s x).tgt = s.tgt := by
  unfold note
  split
  · split <;> simp [say]
  · simp

theorem note_ext (cfg : Cfg) (s : State) (x : Option Src) : Ext s (note cfg s x) :=
  Ext.of_same (note_fields cfg s x).1 (note_fields cfg s x).2.1 (note_fields cfg s x).2.2.1

theorem act_ext {cfg : Cfg} {self : Option ObjId} {s s' : State} {a : Act}
    (h : act cfg self s a = .ok s') : Ext s s' := (note_ext cfg s _).trans (actCore_ext h)

theorem Res.bind_ok {r : Res} {f : State → Res} {s' : State} (h : r.bind f = .ok s') :
    ∃ s1, r = .ok s1 ∧ f s1 = .ok s' := by
  cases r with
  | ok s1 => exact ⟨s1, rfl, h⟩
  | ub => cases h

theorem acts_ext {cfg : Cfg} {self : Option ObjId} (l : List Act) {s s' : State}
    (h : acts cfg self l s = .ok s') : Ext s s' := by
  induction l generalizing s with
  | nil => cases h; exact Ext.refl _
  | cons a t ih =>
    obtain ⟨s1, h1, h2⟩ := Res.bind_ok h
    exact (act_ext h1).trans (ih h2)

/-! ### the loop of `ExecCmdMethodCommon` -/

/-- what the fan-out loop over the copied references `rs` guarantees -/
structure FanSpec (rs : List WeakRef) (s s' : State) : Prop where
  log : ∃ seg, s'.log = s.log ++ seg ∧ (visits seg).Sublist (rs.filterMap id) ∧
    (∀ o, some o ∈ rs → o < s.nextObj → o ∈ visits seg ∨ s'.alive o = false)
  next : s.nextObj ≤ s'.nextObj
  dead : ∀ x, x < s.nextObj → s'.alive x = true → s.alive x = true

theorem fanLoop_spec {run : State → ObjId → Res} (hrun : ∀ s o s', run s o = .ok s' → Ext s s')
    (rs : List WeakRef) {s s' : State} (h : fanLoop run rs s = .ok s') : FanSpec rs s s' := by
  induction rs generalizing s with
  | nil => cases h; exact ⟨⟨[], by simp, by simp [visits], by simp⟩, Nat.le_refl _, fun _ _ h => h⟩
  | cons r t ih =>
    cases r with
    | none =>
      have ht := ih (s := s) h
      obtain ⟨seg, e, sub, cov⟩ := ht.log
      refine ⟨⟨seg, e, by simpa using sub, ?_⟩, ht.next, ht.dead⟩
      intro o ho hlt
      exact cov o (by simpa using ho) hlt
    | some o =>
      simp only [fanLoop] at h
      by_cases ha : s.alive o = true
      · simp only [ha, if_true] at h
        obtain ⟨s2, h1, h2⟩ := Res.bind_ok h
        have e1 := hrun _ o s2 h1
        have ht := ih h2
        obtain ⟨seg1, l1, v1⟩ := e1.log
        obtain ⟨seg2, l2, sub, cov⟩ := ht.log
        have n1 : s.nextObj ≤ s2.nextObj := e1.next
        refine ⟨⟨[.visited o] ++ seg1 ++ seg2, ?_, ?_, ?_⟩, Nat.le_trans n1 ht.next, ?_⟩
        · rw [l2, l1]; simp [List.append_assoc]
        · rw [visits_append, visits_append, v1]
          simpa [visits] using sub.cons_cons o
        · intro x hx hlt
          rw [visits_append, visits_append, v1]
          simp only [visits, List.append_nil, List.singleton_append, List.mem_cons]
          simp only [List.mem_cons, Option.some.injEq] at hx
          rcases hx with hx | hx
          · left; left; exact hx
          · rcases cov x hx (Nat.lt_of_lt_of_le hlt n1) with c | c
            · left; right; exact c
            · right; exact c
        · intro x hx hc
          exact e1.dead x hx (ht.dead x (Nat.lt_of_lt_of_le hx n1) hc)
      · simp only [ha] at h
        have ht := ih (s := s) h
        obtain ⟨seg, e, sub, cov⟩ := ht.log
        refine ⟨⟨seg, e, ?_, ?_⟩, ht.next, ht.dead⟩
        · simpa using sub.cons o
        · intro x hx hlt
          simp only [List.mem_cons, Option.some.injEq] at hx
          rcases hx with hx | hx
          · subst hx
            right
            cases hc : s'.alive x with
            | false => rfl
            | true => exact absurd (ht.dead x hlt hc) ha
          · exact cov x hx hlt

/-! ### the loop when no handler destroys anything: every live member is reached -/

/-- like `Ext`, and every object that existed keeps its liveness -/
structure Keep (s s' : State) : Prop extends Ext s s' where
  keep : ∀ x, x < s.nextObj → s'.alive x = s.alive x

theorem Keep.refl (s : State) : Keep s s := ⟨Ext.refl s, fun _ _ => rfl⟩

theorem Keep.trans {a b c : State} (h1 : Keep a b) (h2 : Keep b c) : Keep a c :=
  ⟨h1.toExt.trans h2.toExt, fun x hx => by
    rw [h2.keep x (Nat.lt_of_lt_of_le hx h1.next), h1.keep x hx]⟩

theorem Keep.of_same {s s' : State} (h1 : s'.log = s.log) (h2 : s'.nextObj = s.nextObj) (h3 : s'.alive = s.alive) :
    Keep s s' := ⟨Ext.of_same h1 h2 h3, fun x _ => by rw [h3]⟩

theorem setTargetName_keep (s : State) (o : ObjId) (n : Name) : Keep s (setTargetName s o n) :=
  ⟨setTargetName_ext s o n, fun x _ => by rw [(setTargetName_fields s o n).1]⟩

theorem spawnObj_keep (s : State) : Keep s (spawnObj s) :=
  ⟨spawnObj_ext s, fun x hx => by
    have e : x ≠ s.nextObj := Nat.ne_of_lt hx
    simp [spawnObj, upd_other _ _ e]⟩

def Act.noDelete : Act → Bool
  | .delete _ => false
  | _ => true

theorem actCore_keep {cfg : Cfg} {self : Option ObjId} {s s' : State} {a : Act} (hd : a.noDelete = true)
    (h : actCore cfg self s a = .ok s') : Keep s s' := by
  have hext := actCore_ext h
  refine ⟨hext, ?_⟩
  cases a with
  | delete w => cases hd
  | spawn n =>
    simp only [actCore] at h
    split at h
    · cases h; intro x _; rfl
    · split at h
      · cases h; exact ((spawnObj_keep s).trans (Keep.of_same rfl rfl rfl)).keep
      · cases h; exact (((spawnObj_keep s).trans (setTargetName_keep _ _ _)).trans (Keep.of_same rfl rfl rfl)).keep
  | setName w n =>
    simp only [actCore] at h
    split at h <;> cases h
    · intro x _; rfl
    · intro x _; rfl
    · exact (setTargetName_keep _ _ _).keep
  | mark w =>
    simp only [actCore] at h
    split at h <;> cases h <;> (intro x _; rfl)
  | hello =>
    simp only [actCore] at h
    split at h <;> cases h <;> (intro x _; rfl)
  | capture v n => cases h; intro x _; rfl
  | copy v w => cases h; intro x _; rfl
  | query src =>
    simp only [actCore] at h
    split at h
    · cases h
      intro x _
      have : ∀ (rs : List WeakRef) (st : State), (rs.foldl (fun st r => sayId st "e" r) st).alive = st.alive := by
        intro rs
        induction rs with
        | nil => intro st; rfl
        | cons r t ih => intro st; rw [List.foldl_cons, ih]; unfold sayId; split <;> rfl
      rw [this]; rfl
    · cases h
  | size src =>
    simp only [actCore] at h
    split at h <;> cases h
    intro x _; rfl
  | index src k =>
    simp only [actCore] at h
    unfold sayIndex at h
    split at h
    · cases h; intro x _; rfl
    · split at h <;> cases h
      · intro x _; unfold sayId; split <;> rfl
      · intro x _; rfl
    · split at h
      · cases h
      · split at h <;> cases h
        · intro x _; rfl
        · intro x _; unfold sayId; split <;> rfl
    · split at h <;> cases h
      · intro x _; rfl
      · intro x _; unfold sayId; split <;> rfl

theorem note_keep (cfg : Cfg) (s : State) (x : Option Src) : Keep s (note cfg s x) :=
  Keep.of_same (note_fields cfg s x).1 (note_fields cfg s x).2.1 (note_fields cfg s x).2.2.1

theorem act_keep {cfg : Cfg} {self : Option ObjId} {s s' : State} {a : Act} (hd : a.noDelete = true)
    (h : act cfg self s a = .ok s') : Keep s s' := (note_keep cfg s _).trans (actCore_keep hd h)

theorem acts_keep {cfg : Cfg} {self : Option ObjId} (l : List Act) (hd : ∀ a ∈ l, a.noDelete = true)
    {s s' : State} (h : acts cfg self l s = .ok s') : Keep s s' := by
  induction l generalizing s with
  | nil => cases h; exact Keep.refl _
  | cons a t ih =>
    obtain ⟨s1, h1, h2⟩ := Res.bind_ok h
    exact (act_keep (hd a (by simp)) h1).trans (ih (fun b hb => hd b (by simp [hb])) h2)

/-- when no handler destroys an object, the loop executes the command on exactly the members that
    were alive when it started, in order -/
theorem fanLoop_all {run : State → ObjId → Res} (hrun : ∀ s o s', run s o = .ok s' → Keep s s')
    (rs : List WeakRef) {s s' : State} (h : fanLoop run rs s = .ok s')
    (hlt : ∀ o, some o ∈ rs → o < s.nextObj) :
    (∃ seg, s'.log = s.log ++ seg ∧ visits seg = (rs.filterMap id).filter (fun o => s.alive o)) ∧
    s.nextObj ≤ s'.nextObj ∧ (∀ x, x < s.nextObj → s'.alive x = s.alive x) := by
  induction rs generalizing s with
  | nil => cases h; exact ⟨⟨[], by simp, rfl⟩, Nat.le_refl _, fun _ _ => rfl⟩
  | cons r t ih =>
    cases r with
    | none => exact ih (s := s) h (fun o ho => hlt o (by simp [ho]))
    | some o =>
      simp only [fanLoop] at h
      have hlt' : ∀ x, some x ∈ t → x < s.nextObj := fun x hx => hlt x (by simp [hx])
      by_cases ha : s.alive o = true
      · simp only [ha, if_true] at h
        obtain ⟨s2, h1, h2⟩ := Res.bind_ok h
        have k := hrun _ o s2 h1
        obtain ⟨seg1, e1, v1⟩ := k.log
        have n1 : s.nextObj ≤ s2.nextObj := k.next
        have a1 : ∀ x, x < s.nextObj → s2.alive x = s.alive x := k.keep
        obtain ⟨⟨seg2, e2, v2⟩, n2, a2⟩ := ih h2 (fun x hx => Nat.lt_of_lt_of_le (hlt' x hx) n1)
        refine ⟨⟨[.visited o] ++ seg1 ++ seg2, ?_, ?_⟩, Nat.le_trans n1 n2, ?_⟩
        · rw [e2, e1]; simp [List.append_assoc]
        · rw [visits_append, visits_append, v1, v2]
          have hc : (t.filterMap id).filter (fun x => s2.alive x) = (t.filterMap id).filter (fun x => s.alive x) := by
            apply List.filter_congr
            intro x hx
            have : some x ∈ t := by simpa using hx
            rw [a1 x (hlt' x this)]
          simp [visits, hc, ha]
        · intro x hx
          rw [a2 x (Nat.lt_of_lt_of_le hx n1), a1 x hx]
      · simp only [ha] at h
        obtain ⟨⟨seg, e, v⟩, k⟩ := ih (s := s) h hlt'
        refine ⟨⟨seg, e, ?_⟩, k⟩
        rw [v]; simp [ha]

/-! ### the loop when a handler destroys at most its own `self` -/

/-- like `Ext`, and every object other than `o` that existed keeps its liveness -/
structure KeepBut (o : ObjId) (s s' : State) : Prop extends Ext s s' where
  keep : ∀ x, x < s.nextObj → x ≠ o → s'.alive x = s.alive x

theorem Keep.keepBut {s s' : State} (k : Keep s s') (o : ObjId) : KeepBut o s s' :=
  ⟨k.toExt, fun x hx _ => k.keep x hx⟩

theorem KeepBut.trans {o : ObjId} {a b c : State} (h1 : KeepBut o a b) (h2 : KeepBut o b c) : KeepBut o a c :=
  ⟨h1.toExt.trans h2.toExt, fun x hx hne => by
    rw [h2.keep x (Nat.lt_of_lt_of_le hx h1.next) hne, h1.keep x hx hne]⟩

theorem destroy_keepBut (s : State) (o : ObjId) : KeepBut o s (destroy s o) :=
  ⟨destroy_ext s o, fun x _ hne => by rw [(destroy_fields s o).1, upd_other _ _ hne]⟩

/-- the statement does not destroy any object other than (possibly) `self` -/
def Act.selfDeleteOnly : Act → Bool
  | .delete (.obj _) => false
  | _ => true

theorem actCore_keepBut {cfg : Cfg} {o : ObjId} {s s' : State} {a : Act} (hd : a.selfDeleteOnly = true)
    (h : actCore cfg (some o) s a = .ok s') : KeepBut o s s' := by
  cases hn : a.noDelete with
  | true => exact (actCore_keep hn h).keepBut o
  | false =>
    cases a with
    | delete w =>
      cases w with
      | obj k => cases hd
      | self =>
        simp only [actCore, resolve] at h
        split at h
        · rename_i e; split at e <;> cases e
        · cases h; exact (Keep.of_same (s := s) (s' := say s "!null") rfl rfl rfl).keepBut o
        · rename_i p e
          cases h
          split at e
          · cases e; exact destroy_keepBut s o
          · cases e
    | _ => cases hn

theorem act_keepBut {cfg : Cfg} {o : ObjId} {s s' : State} {a : Act} (hd : a.selfDeleteOnly = true)
    (h : act cfg (some o) s a = .ok s') : KeepBut o s s' :=
  ((note_keep cfg s _).keepBut o).trans (actCore_keepBut hd h)

theorem acts_keepBut {cfg : Cfg} {o : ObjId} (l : List Act) (hd : ∀ a ∈ l, a.selfDeleteOnly = true)
    {s s' : State} (h : acts cfg (some o) l s = .ok s') : KeepBut o s s' := by
  induction l generalizing s with
  | nil => cases h; exact (Keep.refl _).keepBut o
  | cons a t ih =>
    obtain ⟨s1, h1, h2⟩ := Res.bind_ok h
    exact (act_keepBut (hd a (by simp)) h1).trans (ih (fun b hb => hd b (by simp [hb])) h2)

/-- when every handler destroys at most its own `self`, the loop executes the command on exactly
    the members that were alive when it started, each once, in order -/
theorem fanLoop_selfonly {run : State → ObjId → Res} (hrun : ∀ s o s', run s o = .ok s' → KeepBut o s s')
    (rs : List WeakRef) (hnd : (rs.filterMap id).Nodup) {s s' : State} (h : fanLoop run rs s = .ok s')
    (hlt : ∀ o, some o ∈ rs → o < s.nextObj) :
    (∃ seg, s'.log = s.log ++ seg ∧ visits seg = (rs.filterMap id).filter (fun o => s.alive o)) ∧
    s.nextObj ≤ s'.nextObj ∧ (∀ x, x < s.nextObj → some x ∉ rs → s'.alive x = s.alive x) := by
  induction rs generalizing s with
  | nil => cases h; exact ⟨⟨[], by simp, rfl⟩, Nat.le_refl _, fun _ _ _ => rfl⟩
  | cons r t ih =>
    cases r with
    | none =>
      obtain ⟨a, b, c⟩ := ih (by simpa using hnd) (s := s) h (fun o ho => hlt o (by simp [ho]))
      exact ⟨by simpa using a, b, fun x hx hn => c x hx (fun hm => hn (by simp [hm]))⟩
    | some o =>
      simp only [fanLoop] at h
      have hnd' : o ∉ t.filterMap id ∧ (t.filterMap id).Nodup := by simpa using hnd
      have hot : some o ∉ t := fun hm => hnd'.1 (by simpa using hm)
      have hlt' : ∀ x, some x ∈ t → x < s.nextObj := fun x hx => hlt x (by simp [hx])
      by_cases ha : s.alive o = true
      · simp only [ha, if_true] at h
        obtain ⟨s2, h1, h2⟩ := Res.bind_ok h
        have k := hrun _ o s2 h1
        obtain ⟨seg1, e1, v1⟩ := k.log
        have n1 : s.nextObj ≤ s2.nextObj := k.next
        have a1 : ∀ x, x < s.nextObj → x ≠ o → s2.alive x = s.alive x := k.keep
        obtain ⟨⟨seg2, e2, v2⟩, n2, a2⟩ := ih hnd'.2 h2 (fun x hx => Nat.lt_of_lt_of_le (hlt' x hx) n1)
        refine ⟨⟨[.visited o] ++ seg1 ++ seg2, ?_, ?_⟩, Nat.le_trans n1 n2, ?_⟩
        · rw [e2, e1]; simp [List.append_assoc]
        · rw [visits_append, visits_append, v1, v2]
          have hc : (t.filterMap id).filter (fun x => s2.alive x) = (t.filterMap id).filter (fun x => s.alive x) := by
            apply List.filter_congr
            intro x hx
            have hxt : some x ∈ t := by simpa using hx
            have hxo : x ≠ o := fun e => hot (e ▸ hxt)
            rw [a1 x (hlt' x hxt) hxo]
          simp [visits, hc, ha]
        · intro x hx hn
          have hxo : x ≠ o := fun e => hn (by simp [e])
          rw [a2 x (Nat.lt_of_lt_of_le hx n1) (fun hm => hn (by simp [hm])), a1 x hx hxo]
      · simp only [ha] at h
        obtain ⟨⟨seg, e, v⟩, b, c⟩ := ih hnd'.2 (s := s) h hlt'
        refine ⟨⟨seg, e, ?_⟩, b, fun x hx hn => c x hx (fun hm => hn (by simp [hm]))⟩
        rw [v]; simp [ha]

/-- the loop of the (repaired) field assignment over live members -/
theorem fanLoop_setOne (x : Nat) (rs : List WeakRef) {s s' : State}
    (h : fanLoop (fun st o => .ok { st with fld := upd st.fld o x }) rs s = .ok s')
    (ha : ∀ o, some o ∈ rs → s.alive o = true) :
    ∀ o, s'.fld o = if some o ∈ rs then x else s.fld o := by
  induction rs generalizing s with
  | nil => cases h; intro o; simp
  | cons r t ih =>
    cases r with
    | none =>
      intro o
      rw [ih (s := s) h (fun p hp => ha p (by simp [hp])) o]
      simp
    | some p =>
      simp only [fanLoop, ha p (by simp), if_true, Res.bind] at h
      intro o
      rw [ih h (fun q hq => ha q (by simp [hq])) o]
      by_cases e : o = p
      · subst e; simp
      · have : ¬ (some o = some p) := fun h' => e (Option.some.inj h')
        simp [upd_other _ _ e, e]

/-! ### reachable states -/

/-- states reachable from the initial one by any finite sequence of statements -/
def Reachable (cfg : Cfg) (s : State) : Prop := ∃ l, run cfg l init = .ok s

theorem run_append (cfg : Cfg) (l1 l2 : List Stmt) (s : State) :
    run cfg (l1 ++ l2) s = (run cfg l1 s).bind (run cfg l2) := by
  induction l1 generalizing s with
  | nil => rfl
  | cons a t ih =>
    simp only [List.cons_append, run]
    cases stmt cfg s a with
    | ok s1 => exact ih s1
    | ub => rfl

theorem reachable_init (cfg : Cfg) : Reachable cfg init := ⟨[], rfl⟩

theorem Reachable.step {cfg : Cfg} {s s' : State} (h : Reachable cfg s) {st : Stmt}
    (hs : stmt cfg s st = .ok s') : Reachable cfg s' := by
  obtain ⟨l, hl⟩ := h
  refine ⟨l ++ [st], ?_⟩
  rw [run_append, hl]
  simp [Res.bind, run, hs]

theorem Reachable.good {cfg : Cfg} {s : State} (h : Reachable cfg s) : Good s := by
  obtain ⟨l, hl⟩ := h
  have := run_good cfg l init_good
  rw [hl] at this
  exact this

/-! ### the Debug-stream branch of `OP_UN_TARGETNAME` -/

/-- the zero-bearers test of `OP_UN_TARGETNAME` is true exactly when nobody bears the name -/
theorem noTarget_iff {s : State} (i : Inv s) (n : Name) : noTarget s n = true ↔ bearers s.log n = [] := by
  unfold noTarget
  cases e : s.tbl n with
  | none =>
    have h := i.refine n
    rw [listOf_none e] at h
    simp [List.map_eq_nil_iff.mp h.symm]
  | some l =>
    obtain ⟨rs, hrs, hne⟩ := i.nonempty n l e
    have h : rs = (bearers s.log n).map some := by
      rw [← i.refine n, ← lists_eq_listOf e, hrs]; rfl
    simp only [hrs, Option.getD_some, beq_iff_eq, List.length_eq_zero_iff]
    constructor
    · intro h0; exact absurd h0 hne
    · intro hb; rw [hb] at h; exact absurd h hne

theorem note_name {cfg : Cfg} {s : State} (i : Inv s) (n : Name) :
    note cfg s (some (.name n)) =
      if cfg.dbg = true ∧ bearers s.log n = [] then say s "!notarget" else s := by
  unfold note
  simp only [Bool.and_eq_true, noTarget_iff i n]

theorem evalTarget_note (cfg : Cfg) (s : State) (x : Option Src) (n : Name) :
    evalTarget cfg (note cfg s x) n = evalTarget cfg s n := by
  unfold evalTarget
  rw [(note_fields cfg s x).2.2.2.1, (note_fields cfg s x).2.2.2.2.1]

/-! ### cores of the fan-out theorems, for any state satisfying the invariant -/

theorem fanOut_once_core {cfg : Cfg} {s s' : State} (g : Good s) {n : Name} {run : State → ObjId → Res}
    (hrun : ∀ s o s', run s o = .ok s' → Ext s s') (hok : fanOut cfg s (.name n) run = .ok s') :
    ∃ seg, s'.log = s.log ++ seg ∧ (visits seg).Nodup ∧ (visits seg).Sublist (bearers s.log n) ∧
      (∀ o ∈ bearers s.log n, o ∈ visits seg ∨ s'.alive o = false) := by
  have i := g.inv
  unfold fanOut at hok
  have key : ∀ seg, (visits seg).Sublist (bearers s.log n) → (visits seg).Nodup :=
    fun seg hs => hs.nodup (i.nodup n)
  simp only [evalSrc] at hok
  rcases evalTarget_spec cfg i n with ⟨hb, he⟩ | ⟨o, hb, he⟩ | ⟨h2, hcase⟩
  · rw [he] at hok
    simp only [receivers] at hok
    cases hok
    exact ⟨[], by simp [say], by simp [visits], by simp [visits], by simp [hb]⟩
  · rw [he] at hok
    simp only [receivers] at hok
    obtain ⟨seg, e, v⟩ := (hrun _ o s' hok).log
    refine ⟨[.visited o] ++ seg, by rw [e]; simp, ?_, ?_, ?_⟩
    · rw [visits_append, v]; simp [visits]
    · rw [visits_append, v, hb]; simp [visits]
    · intro x hx; rw [hb] at hx; left
      rw [visits_append, v]; simpa [visits] using hx
  · have hgroup : ∃ rs, receivers s (evalTarget cfg s n) = .group rs ∧ rs = (bearers s.log n).map some := by
      rcases hcase with ⟨_, he⟩ | ⟨_, l, _, hl, he⟩
      · rw [he]; simp only [receivers, List.length_map]
        rw [if_pos (by omega)]; exact ⟨_, rfl, rfl⟩
      · rw [he]; simp only [receivers, hl, List.length_map]
        rw [if_pos (by omega)]; exact ⟨_, rfl, rfl⟩
    obtain ⟨rs, hr, hrs⟩ := hgroup
    rw [hr] at hok
    have sp := fanLoop_spec hrun rs hok
    obtain ⟨seg, e, sub, cov⟩ := sp.log
    have hfm : rs.filterMap id = bearers s.log n := by rw [hrs]; simp [List.filterMap_map]
    rw [hfm] at sub
    refine ⟨seg, e, key seg sub, sub, ?_⟩
    intro o ho
    exact cov o (by rw [hrs]; exact List.mem_map.mpr ⟨o, ho, rfl⟩) (i.alive_lt o (i.bearer n o ho).1)


theorem fanOut_all_core {cfg : Cfg} {s s' : State} (g : Good s) {n : Name} {run : State → ObjId → Res}
    (hrun : ∀ s o s', run s o = .ok s' → KeepBut o s s') (hok : fanOut cfg s (.name n) run = .ok s') :
    ∃ seg, s'.log = s.log ++ seg ∧ visits seg = bearers s.log n := by
  have i := g.inv
  unfold fanOut at hok
  simp only [evalSrc] at hok
  rcases evalTarget_spec cfg i n with ⟨hb, he⟩ | ⟨o, hb, he⟩ | ⟨h2, hcase⟩
  · rw [he] at hok
    simp only [receivers] at hok
    cases hok
    exact ⟨[], by simp [say], by simp [visits, hb]⟩
  · rw [he] at hok
    simp only [receivers] at hok
    obtain ⟨seg, e, v⟩ := (hrun _ o s' hok).log
    exact ⟨[.visited o] ++ seg, by rw [e]; simp, by rw [visits_append, v, hb]; simp [visits]⟩
  · have hgroup : receivers s (evalTarget cfg s n) = .group ((bearers s.log n).map some) := by
      rcases hcase with ⟨_, he⟩ | ⟨_, l, _, hl, he⟩
      · rw [he]; simp only [receivers, List.length_map]; rw [if_pos (by omega)]
      · rw [he]; simp only [receivers, hl, List.length_map]; rw [if_pos (by omega)]
    rw [hgroup] at hok
    have hlt : ∀ o, some o ∈ (bearers s.log n).map some → o < s.nextObj := by
      intro o ho
      obtain ⟨x, hx, e⟩ := List.mem_map.mp ho
      cases e
      exact i.alive_lt o (i.bearer n o hx).1
    have hfm : ((bearers s.log n).map some).filterMap id = bearers s.log n := by
      rw [List.filterMap_map]; simp only [Function.comp_def, id, List.filterMap_some]
    obtain ⟨⟨seg, e, v⟩, -⟩ := fanLoop_selfonly hrun _ (by rw [hfm]; exact i.nodup n) hok hlt
    refine ⟨seg, e, ?_⟩
    rw [v, hfm]
    exact List.filter_eq_self.mpr (fun o ho => (i.bearer n o ho).1)


theorem fieldSet_fan_core {cfg : Cfg} (hfix : cfg.fieldFan = true) {s s' : State} (g : Good s)
    {n : Name} {x : Nat} (hok : fieldSet cfg s (.name n) x = .ok s') :
    (∃ seg, s'.log = s.log ++ seg ∧ visits seg = bearers s.log n) ∧
    (∀ o, s'.fld o = if o ∈ bearers s.log n then x else s.fld o) := by
  have i := g.inv
  rcases evalTarget_spec cfg i n with ⟨hb, he⟩ | ⟨o, hb, he⟩ | ⟨h2, hcase⟩
  · simp only [fieldSet, evalSrc, he] at hok
    cases hok
    exact ⟨⟨[], by simp [say], by simp [visits, hb]⟩, fun o => by simp [hb, say]⟩
  · simp only [fieldSet, evalSrc, he] at hok
    cases hok
    refine ⟨⟨[.visited o], rfl, by simp [visits, hb]⟩, fun p => ?_⟩
    simp only [hb, List.mem_singleton, upd]
  · have hgroup : receivers s (evalTarget cfg s n) = .group ((bearers s.log n).map some) ∧
        (∀ r, evalTarget cfg s n ≠ .obj r) ∧ evalTarget cfg s n ≠ .nil := by
      rcases hcase with ⟨_, he⟩ | ⟨_, l, _, hl, he⟩
      · rw [he]; simp only [receivers, List.length_map]; rw [if_pos (by omega)]; simp
      · rw [he]; simp only [receivers, hl, List.length_map]; rw [if_pos (by omega)]; simp
    obtain ⟨hg, hno, hnn⟩ := hgroup
    have hfs : fieldSet cfg s (.name n) x =
        fanLoop (fun st o => .ok { st with fld := upd st.fld o x }) ((bearers s.log n).map some) s := by
      unfold fieldSet
      simp only [evalSrc]
      split
      · rename_i e; exact absurd e hnn
      · rename_i e; exact absurd e (hno _)
      · rename_i e; exact absurd e (hno _)
      · simp only [hfix, if_true, hg]
    simp only [hfs] at hok
    have halive : ∀ o, some o ∈ (bearers s.log n).map some → s.alive o = true := by
      intro o ho
      obtain ⟨y, hy, e⟩ := List.mem_map.mp ho
      cases e
      exact (i.bearer n o hy).1
    have hlt : ∀ o, some o ∈ (bearers s.log n).map some → o < s.nextObj :=
      fun o ho => i.alive_lt o (halive o ho)
    obtain ⟨⟨seg, e, v⟩, -⟩ := fanLoop_all (fun st o st' e => by cases e; exact Keep.of_same rfl rfl rfl) _ hok hlt
    refine ⟨⟨seg, e, ?_⟩, ?_⟩
    · rw [v, List.filterMap_map]
      simp only [Function.comp_def, id, List.filterMap_some]
      exact List.filter_eq_self.mpr (fun o ho => (i.bearer n o ho).1)
    · have key := fanLoop_setOne x ((bearers s.log n).map some) hok halive
      intro o
      rw [key o]
      simp

/-! ### setter-backed fields (`src.target = x`, `src.targetname = n`) -/

theorem applySetter_keep (f : Setter) {s s' : State} {o : ObjId} (h : applySetter f s o = .ok s') : Keep s s' := by
  cases f with
  | target x => cases h; exact Keep.of_same rfl rfl rfl
  | name n => cases h; exact setTargetName_keep _ _ _

/-- the loop of a `.target` assignment: every live member of the walked copy gets the one value `x` -/
theorem fanLoop_setTgt (x : Nat) (rs : List WeakRef) {s s' : State}
    (h : fanLoop (applySetter (.target x)) rs s = .ok s')
    (ha : ∀ o, some o ∈ rs → s.alive o = true) :
    ∀ o, s'.tgt o = if some o ∈ rs then x else s.tgt o := by
  induction rs generalizing s with
  | nil => cases h; intro o; simp
  | cons r t ih =>
    cases r with
    | none =>
      intro o
      rw [ih (s := s) h (fun p hp => ha p (by simp [hp])) o]
      simp
    | some p =>
      simp only [fanLoop, ha p (by simp), if_true, Res.bind, applySetter] at h
      intro o
      rw [ih h (fun q hq => ha q (by simp [hq])) o]
      by_cases e : o = p
      · subst e; simp
      · have : ¬ (some o = some p) := fun h' => e (Option.some.inj h')
        simp [upd_other _ _ e, e]

/-- `$n.<setter field> = v` with the repair: the setter is processed on every bearer of `n` (as of the
    start of the statement), each exactly once, in naming order -/
theorem fieldSetter_visits_core {cfg : Cfg} (hfix : cfg.fieldFan = true) {s s' : State} (g : Good s)
    {n : Name} {f : Setter} (hok : fieldSetter cfg s (.name n) f = .ok s') :
    ∃ seg, s'.log = s.log ++ seg ∧ visits seg = bearers s.log n := by
  rw [fieldSetter_eq_fanOut hfix] at hok
  exact fanOut_all_core g (fun s o s' e => (applySetter_keep f e).keepBut o) hok

/-- `$n.target = x` with the repair: exactly the bearers of `n` end with target `x` (the SAME value for
    the first member and for every later one), nobody else's target changes -/
theorem fieldSetter_target_core {cfg : Cfg} (hfix : cfg.fieldFan = true) {s s' : State} (g : Good s)
    {n : Name} {x : Nat} (hok : fieldSetter cfg s (.name n) (.target x) = .ok s') :
    ∀ o, s'.tgt o = if o ∈ bearers s.log n then x else s.tgt o := by
  have i := g.inv
  rcases evalTarget_spec cfg i n with ⟨hb, he⟩ | ⟨o, hb, he⟩ | ⟨h2, hcase⟩
  · simp only [fieldSetter, evalSrc, he] at hok
    cases hok
    exact fun o => by simp [hb, say]
  · simp only [fieldSetter, evalSrc, he, applySetter] at hok
    cases hok
    intro p
    simp only [hb, List.mem_singleton, upd]
  · have hgroup : receivers s (evalTarget cfg s n) = .group ((bearers s.log n).map some) ∧
        (∀ r, evalTarget cfg s n ≠ .obj r) ∧ evalTarget cfg s n ≠ .nil := by
      rcases hcase with ⟨_, he⟩ | ⟨_, l, _, hl, he⟩
      · rw [he]; simp only [receivers, List.length_map]; rw [if_pos (by omega)]; simp
      · rw [he]; simp only [receivers, hl, List.length_map]; rw [if_pos (by omega)]; simp
    obtain ⟨hg, hno, hnn⟩ := hgroup
    have hfs : fieldSetter cfg s (.name n) (.target x) =
        fanLoop (applySetter (.target x)) ((bearers s.log n).map some) s := by
      unfold fieldSetter
      simp only [evalSrc]
      split
      · rename_i e; exact absurd e hnn
      · rename_i e; exact absurd e (hno _)
      · rename_i e; exact absurd e (hno _)
      · simp only [hfix, if_true, hg]
    simp only [hfs] at hok
    have halive : ∀ o, some o ∈ (bearers s.log n).map some → s.alive o = true := by
      intro o ho
      obtain ⟨y, hy, e⟩ := List.mem_map.mp ho
      cases e
      exact (i.bearer n o hy).1
    have key := fanLoop_setTgt x ((bearers s.log n).map some) hok halive
    intro o
    rw [key o]
    simp

end Morfuse.Target
