import MorfuseModel.Target.Spec
/-! # Invariant and refinement lemmas for the `$name` model (helpers for `Props/C15.lean`) -/
namespace Morfuse.Target

@[simp] theorem upd_same {β : Type} (f : Nat → β) (k : Nat) (v : β) : upd f k v k = v := by simp [upd]
theorem upd_other {β : Type} (f : Nat → β) {k x : Nat} (v : β) (h : x ≠ k) : upd f k v x = f x := by
  simp [upd, h]

/-- structural invariant of the table -/
structure Wf (s : State) : Prop where
  tbl0 : s.tbl 0 = none
  inj : ∀ n m l, s.tbl n = some l → s.tbl m = some l → n = m
  fresh : ∀ n l, s.tbl n = some l → l < s.nextList
  nonempty : ∀ n l, s.tbl n = some l → ∃ rs, s.lists l = some rs ∧ rs ≠ []

theorem listOf_none {s : State} {n : Name} (h : s.tbl n = none) : listOf s n = [] := by
  simp [listOf, h]

theorem listOf_zero {s : State} (w : Wf s) : listOf s 0 = [] := listOf_none w.tbl0

theorem listOf_ne_nil {s : State} (w : Wf s) {n : Name} {l : ListId} (h : s.tbl n = some l) :
    listOf s n ≠ [] := by
  obtain ⟨rs, h1, h2⟩ := w.nonempty n l h
  simp [listOf, h, h1, h2]

theorem tbl_none_of_listOf_nil {s : State} (w : Wf s) {n : Name} (h : listOf s n = []) : s.tbl n = none := by
  cases e : s.tbl n with
  | none => rfl
  | some l => exact absurd h (listOf_ne_nil w e)

/-! ### AddListener -/

theorem addListener_zero (s : State) (o : ObjId) : addListener s o 0 = s := by simp [addListener]

theorem addListener_listOf {s : State} (w : Wf s) (o : ObjId) {n : Name} (hn : n ≠ 0) (m : Name) :
    listOf (addListener s o n) m = if m = n then listOf s n ++ [some o] else listOf s m := by
  unfold addListener
  simp only [hn, if_false]
  cases e : s.tbl n with
  | some l =>
    simp only [listOf]
    by_cases hm : m = n
    · subst hm; simp [e]
    · simp only [hm, if_false]
      cases e2 : s.tbl m with
      | none => rfl
      | some l2 =>
        have : l2 ≠ l := fun h => hm (w.inj m n l (h ▸ e2) e)
        simp [upd_other _ _ this]
  | none =>
    simp only [listOf]
    by_cases hm : m = n
    · subst hm; simp [e]
    · simp only [hm, if_false, upd_other _ _ hm]
      cases e2 : s.tbl m with
      | none => rfl
      | some l2 =>
        have : l2 ≠ s.nextList := Nat.ne_of_lt (w.fresh m l2 e2)
        simp [upd_other _ _ this]

theorem addListener_wf {s : State} (w : Wf s) (o : ObjId) (n : Name) : Wf (addListener s o n) := by
  unfold addListener
  by_cases hn : n = 0
  · simp [hn, w]
  simp only [hn, if_false]
  cases e : s.tbl n with
  | some l =>
    refine ⟨w.tbl0, w.inj, w.fresh, ?_⟩
    intro m l2 h2
    by_cases hl : l2 = l
    · subst hl; exact ⟨_, upd_same _ _ _, by simp⟩
    · simpa [upd_other _ _ hl] using w.nonempty m l2 h2
  | none =>
    refine ⟨?_, ?_, ?_, ?_⟩
    · simp [upd_other _ _ (Ne.symm hn), w.tbl0]
    · intro a b l ha hb
      by_cases h1 : a = n <;> by_cases h2 : b = n
      · rw [h1, h2]
      · subst h1
        simp only [upd_same, upd_other _ _ h2] at ha hb
        cases ha
        exact absurd (w.fresh b _ hb) (Nat.lt_irrefl _)
      · subst h2
        simp only [upd_same, upd_other _ _ h1] at ha hb
        cases hb
        exact absurd (w.fresh a _ ha) (Nat.lt_irrefl _)
      · simp only [upd_other _ _ h1, upd_other _ _ h2] at ha hb
        exact w.inj a b l ha hb
    · intro a l ha
      by_cases h1 : a = n
      · subst h1; simp only [upd_same] at ha; cases ha; exact Nat.lt_succ_self _
      · simp only [upd_other _ _ h1] at ha; exact Nat.lt_succ_of_lt (w.fresh a l ha)
    · intro a l ha
      by_cases h1 : a = n
      · subst h1; simp only [upd_same] at ha; cases ha; exact ⟨_, upd_same _ _ _, by simp⟩
      · simp only [upd_other _ _ h1] at ha
        have : l ≠ s.nextList := Nat.ne_of_lt (w.fresh a l ha)
        simpa [upd_other _ _ this] using w.nonempty a l ha

/-! ### RemoveListener -/

theorem removeListener_zero (s : State) (o : ObjId) : removeListener s o 0 = s := by simp [removeListener]

theorem removeListener_listOf {s : State} (w : Wf s) (o : ObjId) (n : Name) (m : Name) :
    listOf (removeListener s o n) m = if m = n then (listOf s n).erase (some o) else listOf s m := by
  unfold removeListener
  by_cases hn : n = 0
  · subst hn
    by_cases hm : m = 0
    · subst hm; simp [listOf_zero w]
    · simp [hm]
  simp only [hn, if_false]
  cases e : s.tbl n with
  | none =>
    by_cases hm : m = n
    · subst hm; simp [listOf, e]
    · simp [hm]
  | some l =>
    obtain ⟨rs, hrs, _⟩ := w.nonempty n l e
    simp only [hrs, Option.getD_some]
    by_cases hlen : (rs.erase (some o)).length = 0
    · simp only [hlen, if_true]
      have hnil : rs.erase (some o) = [] := List.length_eq_zero_iff.mp hlen
      by_cases hm : m = n
      · subst hm; simp [listOf, e, hrs, hnil]
      · simp only [hm, if_false, listOf, upd_other _ _ hm]
        cases e2 : s.tbl m with
        | none => rfl
        | some l2 =>
          have : l2 ≠ l := fun h => hm (w.inj m n l (h ▸ e2) e)
          simp [upd_other _ _ this]
    · simp only [hlen, if_false]
      by_cases hm : m = n
      · subst hm; simp [listOf, e, hrs]
      · simp only [hm, if_false, listOf]
        cases e2 : s.tbl m with
        | none => rfl
        | some l2 =>
          have : l2 ≠ l := fun h => hm (w.inj m n l (h ▸ e2) e)
          simp [upd_other _ _ this]

theorem removeListener_wf {s : State} (w : Wf s) (o : ObjId) (n : Name) : Wf (removeListener s o n) := by
  unfold removeListener
  by_cases hn : n = 0
  · simp [hn, w]
  simp only [hn, if_false]
  cases e : s.tbl n with
  | none => exact w
  | some l =>
    obtain ⟨rs, hrs, _⟩ := w.nonempty n l e
    simp only [hrs, Option.getD_some]
    by_cases hlen : (rs.erase (some o)).length = 0
    · simp only [hlen, if_true]
      refine ⟨?_, ?_, ?_, ?_⟩
      · simp [upd_other _ _ (Ne.symm hn), w.tbl0]
      · intro a b l2 ha hb
        have h1 : a ≠ n := fun h => by subst h; simp at ha
        have h2 : b ≠ n := fun h => by subst h; simp at hb
        simp only [upd_other _ _ h1, upd_other _ _ h2] at ha hb
        exact w.inj a b l2 ha hb
      · intro a l2 ha
        have h1 : a ≠ n := fun h => by subst h; simp at ha
        simp only [upd_other _ _ h1] at ha
        exact w.fresh a l2 ha
      · intro a l2 ha
        have h1 : a ≠ n := fun h => by subst h; simp at ha
        simp only [upd_other _ _ h1] at ha
        have : l2 ≠ l := fun h => h1 (w.inj a n l (h ▸ ha) e)
        simpa [upd_other _ _ this] using w.nonempty a l2 ha
    · simp only [hlen, if_false]
      refine ⟨w.tbl0, w.inj, w.fresh, ?_⟩
      intro a l2 ha
      by_cases hl : l2 = l
      · subst hl
        exact ⟨_, upd_same _ _ _, fun h => hlen (by simp [h])⟩
      · simpa [upd_other _ _ hl] using w.nonempty a l2 ha

/-! ### the specification -/

theorem bearers_append (log : List Ev) (e : Ev) : bearers (log ++ [e]) = specStep (bearers log) e := by
  simp [bearers, List.foldl_append]

theorem filter_ne_of_not_mem {l : List ObjId} {o : ObjId} (h : o ∉ l) : l.filter (· ≠ o) = l := by
  induction l with
  | nil => rfl
  | cons a t ih =>
    have ha : a ≠ o := fun e => h (by simp [e])
    have ht : o ∉ t := fun e => h (by simp [e])
    rw [List.filter_cons_of_pos (by simpa using ha), ih ht]

theorem filter_cons_self (a : ObjId) (t : List ObjId) : (a :: t).filter (· ≠ a) = t.filter (· ≠ a) := by
  rw [List.filter_cons_of_neg (by simp)]

theorem filter_cons_ne {a o : ObjId} (h : a ≠ o) (t : List ObjId) :
    (a :: t).filter (· ≠ o) = a :: t.filter (· ≠ o) := by
  rw [List.filter_cons_of_pos (by simpa using h)]

theorem map_some_erase {l : List ObjId} (hn : l.Nodup) (o : ObjId) :
    (l.map some).erase (some o) = (l.filter (· ≠ o)).map some := by
  induction l with
  | nil => rfl
  | cons a t ih =>
    have hn' := (List.nodup_cons.mp hn)
    by_cases h : a = o
    · subst h
      rw [filter_cons_self, filter_ne_of_not_mem hn'.1, List.map_cons, List.erase_cons_head]
    · have h' : ¬ (some a == some o) = true := by simpa using h
      rw [filter_cons_ne h, List.map_cons, List.map_cons, List.erase_cons_tail h', ih hn'.2]

theorem map_nullRef_some {l : List ObjId} {o : ObjId} (h : o ∉ l) :
    (l.map some).map (nullRef o) = l.map some := by
  induction l with
  | nil => rfl
  | cons a t ih =>
    have ha : a ≠ o := fun e => h (by simp [e])
    have ht : o ∉ t := fun e => h (by simp [e])
    simp [nullRef, ha, ih ht]

/-- full invariant: structural + refinement of the specification -/
structure Inv (s : State) : Prop extends Wf s where
  refine : ∀ n, listOf s n = (bearers s.log n).map some
  bearer : ∀ n o, o ∈ bearers s.log n → s.alive o = true ∧ s.comp o = n ∧ n ≠ 0
  nodup : ∀ n, (bearers s.log n).Nodup
  alive_lt : ∀ o, s.alive o = true → o < s.nextObj
  comp_ne : ∀ o, s.comp o ≠ 0
  /-- declarative reading of the specification -/
  last : ∀ o n, o ∈ bearers s.log n ↔ (s.alive o = true ∧ lastName s.log o = some n)
  unborn : ∀ o, s.nextObj ≤ o → lastName s.log o = none
  alive_log : ∀ o, s.alive o = aliveIn s.log o

theorem lastName_append (log : List Ev) (e : Ev) (o : ObjId) :
    lastName (log ++ [e]) o = match e with
      | .named p n => if p = o then some n else lastName log o
      | _ => lastName log o := by
  simp only [lastName, List.foldl_append, List.foldl_cons, List.foldl_nil]
  cases e <;> rfl

theorem aliveIn_append (log : List Ev) (e : Ev) (o : ObjId) :
    aliveIn (log ++ [e]) o = match e with
      | .spawned p => if p = o then true else aliveIn log o
      | .destroyed p => if p = o then false else aliveIn log o
      | _ => aliveIn log o := by
  simp only [aliveIn, List.foldl_append, List.foldl_cons, List.foldl_nil]
  cases e <;> rfl

theorem init_inv : Inv init := by
  refine ⟨⟨rfl, ?_, ?_, ?_⟩, ?_, ?_, ?_, ?_, ?_, ?_, ?_, ?_⟩ <;>
    simp [init, listOf, bearers, emptyName, lastName, aliveIn]

theorem Wf.of_same {s s' : State} (w : Wf s) (h1 : s'.tbl = s.tbl) (h2 : s'.lists = s.lists)
    (h3 : s'.nextList = s.nextList) : Wf s' := by
  refine ⟨?_, ?_, ?_, ?_⟩
  · rw [h1]; exact w.tbl0
  · rw [h1]; exact w.inj
  · rw [h1, h3]; exact w.fresh
  · rw [h1, h2]; exact w.nonempty

theorem listOf_of_same {s s' : State} (h1 : s'.tbl = s.tbl) (h2 : s'.lists = s.lists) (n : Name) :
    listOf s' n = listOf s n := by simp [listOf, h1, h2]

theorem Inv.of_same {s s' : State} (i : Inv s) (h1 : s'.tbl = s.tbl) (h2 : s'.lists = s.lists)
    (h3 : s'.nextList = s.nextList) (h4 : s'.log = s.log) (h5 : s'.alive = s.alive)
    (h6 : s'.comp = s.comp) (h7 : s'.nextObj = s.nextObj) : Inv s' := by
  refine ⟨i.toWf.of_same h1 h2 h3, ?_, ?_, ?_, ?_, ?_, ?_, ?_, ?_⟩
  · intro n; rw [listOf_of_same h1 h2, h4]; exact i.refine n
  · rw [h4, h5, h6]; exact i.bearer
  · rw [h4]; exact i.nodup
  · rw [h5, h7]; exact i.alive_lt
  · rw [h6]; exact i.comp_ne
  · rw [h4, h5]; exact i.last
  · rw [h4, h7]; exact i.unborn
  · rw [h4, h5]; exact i.alive_log

theorem normName_ne (n : Name) : normName n ≠ 0 := by
  unfold normName
  split
  · decide
  · assumption

/-- the list registered under `m` once `o` has been removed from the list of its component name -/
theorem removed_listOf {s : State} (i : Inv s) (o : ObjId) (m : Name) :
    (if m = s.comp o then (listOf s (s.comp o)).erase (some o) else listOf s m)
      = ((bearers s.log m).filter (· ≠ o)).map some := by
  by_cases hm : m = s.comp o
  · simp only [hm, if_true]
    rw [i.refine, map_some_erase (i.nodup _)]
  · simp only [hm, if_false]
    have : o ∉ bearers s.log m := fun h => hm (i.bearer m o h).2.1.symm
    rw [i.refine, filter_ne_of_not_mem this]

theorem mem_filter_ne {l : List ObjId} {o x : ObjId} : x ∈ l.filter (· ≠ o) ↔ x ∈ l ∧ x ≠ o := by
  simp [List.mem_filter]

/-! ### SetTargetName -/

theorem setTargetName_listOf {s : State} (i : Inv s) (o : ObjId) (n : Name) (m : Name) :
    listOf (setTargetName s o n) m =
      if m = normName n then ((bearers s.log m).filter (· ≠ o)).map some ++ [some o]
      else ((bearers s.log m).filter (· ≠ o)).map some := by
  have w1 := removeListener_wf i.toWf o (s.comp o)
  let s1 := removeListener s o (s.comp o)
  let s2 : State := { s1 with comp := upd s1.comp o (normName n) }
  have w2 : Wf s2 := w1.of_same rfl rfl rfl
  have hc : s2.comp o = normName n := by simp [s2]
  have e3 : listOf (setTargetName s o n) m = listOf (addListener s2 o (s2.comp o)) m := rfl
  rw [e3, hc, addListener_listOf w2 o (normName_ne n) m]
  have e2 : ∀ k, listOf s2 k = listOf s1 k := fun k => rfl
  rw [e2, e2, removeListener_listOf i.toWf, removeListener_listOf i.toWf, removed_listOf i, removed_listOf i]
  by_cases hm : m = normName n
  · subst hm; simp
  · simp [hm]

theorem setTargetName_wf {s : State} (w : Wf s) (o : ObjId) (n : Name) : Wf (setTargetName s o n) := by
  have w1 := removeListener_wf w o (s.comp o)
  let s1 := removeListener s o (s.comp o)
  let s2 : State := { s1 with comp := upd s1.comp o (normName n) }
  have w2 : Wf s2 := w1.of_same rfl rfl rfl
  have w3 := addListener_wf w2 o (s2.comp o)
  exact w3.of_same rfl rfl rfl

theorem setTargetName_fields (s : State) (o : ObjId) (n : Name) :
    (setTargetName s o n).alive = s.alive ∧ (setTargetName s o n).nextObj = s.nextObj ∧
    (setTargetName s o n).comp = upd s.comp o (normName n) ∧
    (setTargetName s o n).log = s.log ++ [.named o (normName n)] ∧
    (setTargetName s o n).vals = s.vals ∧ (setTargetName s o n).cnt = s.cnt ∧
    (setTargetName s o n).fld = s.fld ∧ (setTargetName s o n).out = s.out := by
  unfold setTargetName addListener removeListener
  simp only
  repeat' split
  all_goals simp

theorem setTargetName_inv {s : State} (i : Inv s) {o : ObjId} (ho : s.alive o = true) (n : Name) :
    Inv (setTargetName s o n) := by
  obtain ⟨f1, f2, f3, f4, -⟩ := setTargetName_fields s o n
  have hb : ∀ m, bearers (setTargetName s o n).log m =
      if m = normName n then (bearers s.log m).filter (· ≠ o) ++ [o] else (bearers s.log m).filter (· ≠ o) := by
    intro m; rw [f4, bearers_append]; rfl
  refine ⟨setTargetName_wf i.toWf o n, ?_, ?_, ?_, ?_, ?_, ?_, ?_, ?_⟩
  · intro m
    rw [setTargetName_listOf i, hb]
    by_cases hm : m = normName n <;> simp [hm]
  · intro m x hx
    rw [hb] at hx
    rw [f1, f3]
    by_cases hm : m = normName n
    · simp only [hm, if_true, List.mem_append, List.mem_singleton] at hx
      rcases hx with hx | hx
      · obtain ⟨h1, h2⟩ := mem_filter_ne.mp hx
        obtain ⟨a, b, c⟩ := i.bearer _ x h1
        exact ⟨a, by rw [upd_other _ _ h2, b, hm], by rw [hm]; exact normName_ne n⟩
      · subst hx; exact ⟨ho, by rw [upd_same, hm], by rw [hm]; exact normName_ne n⟩
    · simp only [hm, if_false] at hx
      obtain ⟨h1, h2⟩ := mem_filter_ne.mp hx
      obtain ⟨a, b, c⟩ := i.bearer _ x h1
      exact ⟨a, by rw [upd_other _ _ h2, b], c⟩
  · intro m
    rw [hb]
    have hf : ((bearers s.log m).filter (· ≠ o)).Nodup := (i.nodup m).filter _
    by_cases hm : m = normName n
    · simp only [hm, if_true]
      rw [← hm]
      refine List.nodup_append.mpr ⟨hf, by simp, ?_⟩
      intro a ha b hb'
      simp only [List.mem_singleton] at hb'
      subst hb'
      exact (mem_filter_ne.mp ha).2
    · simpa [hm] using hf
  · rw [f1, f2]; exact i.alive_lt
  · intro x
    rw [f3]
    by_cases hx : x = o
    · subst hx; rw [upd_same]; exact normName_ne n
    · rw [upd_other _ _ hx]; exact i.comp_ne x
  · intro x m
    rw [hb, f1, f4, lastName_append]
    simp only
    by_cases hx : o = x
    · subst hx
      simp only [if_true, Option.some.injEq]
      by_cases hm : m = normName n
      · simp [hm, ho]
      · simp only [hm, if_false]
        constructor
        · intro h; exact absurd rfl (mem_filter_ne.mp h).2
        · intro h; exact absurd h.2.symm hm
    · simp only [hx, if_false]
      have hx' : x ≠ o := Ne.symm hx
      by_cases hm : m = normName n
      · simp only [hm, if_true, List.mem_append, List.mem_singleton, hx', or_false]
        rw [mem_filter_ne, ← hm, i.last x m]; simp [hx']
      · simp only [hm, if_false]
        rw [mem_filter_ne, i.last x m]; simp [hx']
  · intro x hx
    rw [f2] at hx
    rw [f4, lastName_append]
    have : o ≠ x := fun e => absurd (i.alive_lt o ho) (by rw [e]; exact Nat.not_lt.mpr hx)
    simp only [this, if_false]
    exact i.unborn x hx
  · intro x
    rw [f1, f4, aliveIn_append]
    exact i.alive_log x

/-! ### destruction -/

theorem nullRefs_listOf (s : State) (o : ObjId) (m : Name) :
    listOf (nullRefs s o) m = (listOf s m).map (nullRef o) := by
  unfold listOf nullRefs
  simp only
  cases s.tbl m with
  | none => rfl
  | some l =>
    show (Option.map (fun x => List.map (nullRef o) x) (s.lists l)).getD [] = _
    cases e : s.lists l <;> simp [e]

theorem nullRefs_wf {s : State} (w : Wf s) (o : ObjId) : Wf (nullRefs s o) := by
  refine ⟨w.tbl0, w.inj, w.fresh, ?_⟩
  intro n l h
  obtain ⟨rs, h1, h2⟩ := w.nonempty n l h
  refine ⟨rs.map (nullRef o), by simp [nullRefs, h1], by simpa using h2⟩

theorem removeListener_fields (s : State) (o : ObjId) (n : Name) :
    (removeListener s o n).alive = s.alive ∧ (removeListener s o n).nextObj = s.nextObj ∧
    (removeListener s o n).comp = s.comp ∧ (removeListener s o n).log = s.log ∧
    (removeListener s o n).vals = s.vals ∧ (removeListener s o n).cnt = s.cnt ∧
    (removeListener s o n).fld = s.fld ∧ (removeListener s o n).out = s.out := by
  unfold removeListener
  simp only
  repeat' split
  all_goals simp

theorem destroy_fields (s : State) (o : ObjId) :
    (destroy s o).alive = upd s.alive o false ∧ (destroy s o).nextObj = s.nextObj ∧
    (destroy s o).comp = s.comp ∧ (destroy s o).log = s.log ++ [.destroyed o] ∧
    (destroy s o).cnt = s.cnt ∧ (destroy s o).fld = s.fld ∧ (destroy s o).out = s.out := by
  obtain ⟨a, b, c, d, e, f, g, h⟩ := removeListener_fields s o (s.comp o)
  simp [destroy, nullRefs, a, b, c, d, f, g, h]

theorem destroy_listOf {s : State} (i : Inv s) (o : ObjId) (m : Name) :
    listOf (destroy s o) m = ((bearers s.log m).filter (· ≠ o)).map some := by
  have e1 : listOf (destroy s o) m = listOf (nullRefs (removeListener s o (s.comp o)) o) m := rfl
  rw [e1, nullRefs_listOf, removeListener_listOf i.toWf, removed_listOf i]
  exact map_nullRef_some (fun h => (mem_filter_ne.mp h).2 rfl)

theorem destroy_inv {s : State} (i : Inv s) (o : ObjId) : Inv (destroy s o) := by
  obtain ⟨f1, f2, f3, f4, -⟩ := destroy_fields s o
  have hb : ∀ m, bearers (destroy s o).log m = (bearers s.log m).filter (· ≠ o) := by
    intro m; rw [f4, bearers_append]; rfl
  have w : Wf (destroy s o) :=
    (nullRefs_wf (removeListener_wf i.toWf o (s.comp o)) o).of_same rfl rfl rfl
  refine ⟨w, ?_, ?_, ?_, ?_, ?_, ?_, ?_, ?_⟩
  · intro m; rw [destroy_listOf i, hb]
  · intro m x hx
    rw [hb] at hx
    obtain ⟨h1, h2⟩ := mem_filter_ne.mp hx
    obtain ⟨a, b, c⟩ := i.bearer _ x h1
    rw [f1, f3]
    exact ⟨by rw [upd_other _ _ h2]; exact a, b, c⟩
  · intro m; rw [hb]; exact (i.nodup m).filter _
  · intro x hx
    rw [f1] at hx
    rw [f2]
    by_cases e : x = o
    · subst e; simp at hx
    · rw [upd_other _ _ e] at hx; exact i.alive_lt x hx
  · rw [f3]; exact i.comp_ne
  · intro x m
    rw [hb, f1, f4, lastName_append, mem_filter_ne, i.last x m]
    simp only
    by_cases hx : x = o
    · subst hx; simp
    · simp [upd_other _ _ hx, hx]
  · intro x hx
    rw [f2] at hx
    rw [f4, lastName_append]
    exact i.unborn x hx
  · intro x
    rw [f1, f4, aliveIn_append]
    simp only
    by_cases hx : x = o
    · subst hx; simp
    · have : o ≠ x := Ne.symm hx
      simp [upd_other _ _ hx, this, i.alive_log x]

theorem spawnObj_inv {s : State} (i : Inv s) : Inv (spawnObj s) := by
  have hb : bearers (spawnObj s).log = bearers s.log := by
    show bearers (s.log ++ [.spawned s.nextObj]) = _
    rw [bearers_append]; rfl
  have hne : ∀ n x, x ∈ bearers s.log n → x ≠ s.nextObj := fun n x hx e =>
    absurd (i.alive_lt x (i.bearer n x hx).1) (by rw [e]; exact Nat.lt_irrefl _)
  have hl : ∀ x, lastName (spawnObj s).log x = lastName s.log x := by
    intro x
    show lastName (s.log ++ [.spawned s.nextObj]) x = _
    rw [lastName_append]
  refine ⟨i.toWf.of_same rfl rfl rfl, ?_, ?_, ?_, ?_, ?_, ?_, ?_, ?_⟩
  · intro n; rw [hb]; exact i.refine n
  · intro n x hx
    rw [hb] at hx
    obtain ⟨a, b, c⟩ := i.bearer n x hx
    have := hne n x hx
    exact ⟨by simp [spawnObj, upd_other _ _ this, a], by simp [spawnObj, upd_other _ _ this, b], c⟩
  · rw [hb]; exact i.nodup
  · intro x hx
    show x < s.nextObj + 1
    by_cases e : x = s.nextObj
    · rw [e]; exact Nat.lt_succ_self _
    · have : s.alive x = true := by simpa [spawnObj, upd_other _ _ e] using hx
      exact Nat.lt_succ_of_lt (i.alive_lt x this)
  · intro x
    by_cases e : x = s.nextObj
    · subst e; simp [spawnObj, emptyName]
    · simpa [spawnObj, upd_other _ _ e] using i.comp_ne x
  · intro x m
    rw [hb, hl, i.last x m]
    by_cases e : x = s.nextObj
    · subst e
      simp [spawnObj, i.unborn s.nextObj (Nat.le_refl _)]
    · simp [spawnObj, upd_other _ _ e]
  · intro x hx
    rw [hl]
    exact i.unborn x (Nat.le_of_succ_le hx)
  · intro x
    show upd s.alive s.nextObj true x = aliveIn (s.log ++ [.spawned s.nextObj]) x
    rw [aliveIn_append]
    simp only
    by_cases e : x = s.nextObj
    · subst e; simp
    · have : s.nextObj ≠ x := Ne.symm e
      simp [upd_other _ _ e, this, i.alive_log x]

/-! ### weak references held by script values never designate a destroyed object -/

def Value.live (alive : ObjId → Bool) : Value → Prop
  | .obj (some o) => alive o = true
  | .arr rs => ∀ o, some o ∈ rs → alive o = true
  | _ => True

def ValsLive (s : State) : Prop := ∀ v, (s.vals v).live s.alive

/-- invariant + live values -/
structure Good (s : State) : Prop where
  inv : Inv s
  vals : ValsLive s

theorem init_good : Good init := ⟨init_inv, fun _ => trivial⟩

theorem lists_eq_listOf {s : State} {n : Name} {l : ListId} (h : s.tbl n = some l) :
    (s.lists l).getD [] = listOf s n := by simp [listOf, h]

theorem mem_listOf_alive {s : State} (i : Inv s) {n : Name} {o : ObjId} (h : some o ∈ listOf s n) :
    s.alive o = true := by
  rw [i.refine] at h
  obtain ⟨x, hx, e⟩ := List.mem_map.mp h
  cases e
  exact (i.bearer n o hx).1

theorem evalTarget_live (cfg : Cfg) {s : State} (i : Inv s) (n : Name) :
    (evalTarget cfg s n).live s.alive := by
  unfold evalTarget
  cases e : s.tbl n with
  | none => trivial
  | some l =>
    simp only [lists_eq_listOf e]
    split
    · trivial
    · split
      · cases h : (listOf s n).head? with
        | none => trivial
        | some r =>
          cases r with
          | none => trivial
          | some o => exact mem_listOf_alive i (List.mem_of_mem_head? h)
      · split
        · intro o ho; exact mem_listOf_alive i ho
        · trivial

theorem Value.nullRef_live {alive : ObjId → Bool} {a : Value} (h : a.live alive) (o : ObjId) :
    (a.nullRef o).live (upd alive o false) := by
  cases a with
  | nil => trivial
  | cont l => trivial
  | obj r =>
    cases r with
    | none => trivial
    | some p =>
      by_cases e : p = o
      · subst e; simp [Value.nullRef, Target.nullRef, Value.live]
      · have : (some p = some o) = False := by simp [e]
        simp only [Value.nullRef, Target.nullRef, this, if_false, Value.live, upd_other _ _ e]
        exact h
  | arr rs =>
    intro p hp
    simp only [List.mem_map] at hp
    obtain ⟨r, hr, e⟩ := hp
    unfold Target.nullRef at e
    split at e
    · cases e
    · subst e
      rename_i hne
      have hpo : p ≠ o := fun e => hne (by rw [e])
      rw [upd_other _ _ hpo]
      exact h p hr

theorem destroy_vals (s : State) (o : ObjId) : (destroy s o).vals = fun v => (s.vals v).nullRef o := by
  obtain ⟨-, -, -, -, e, -⟩ := removeListener_fields s o (s.comp o)
  simp [destroy, nullRefs, e]

theorem destroy_good {s : State} (g : Good s) (o : ObjId) : Good (destroy s o) := by
  refine ⟨destroy_inv g.inv o, ?_⟩
  intro v
  rw [destroy_vals, (destroy_fields s o).1]
  exact Value.nullRef_live (g.vals v) o

theorem setTargetName_good {s : State} (g : Good s) {o : ObjId} (ho : s.alive o = true) (n : Name) :
    Good (setTargetName s o n) := by
  refine ⟨setTargetName_inv g.inv ho n, ?_⟩
  obtain ⟨f1, -, -, -, f5, -⟩ := setTargetName_fields s o n
  intro v; rw [f1, f5]; exact g.vals v

theorem Value.live_mono {alive alive' : ObjId → Bool} (h : ∀ o, alive o = true → alive' o = true)
    {a : Value} (ha : a.live alive) : a.live alive' := by
  cases a with
  | nil => trivial
  | cont l => trivial
  | obj r =>
    cases r with
    | none => trivial
    | some p => exact h p ha
  | arr rs => exact fun p hp => h p (ha p hp)

theorem spawnObj_good {s : State} (g : Good s) : Good (spawnObj s) := by
  refine ⟨spawnObj_inv g.inv, ?_⟩
  intro v
  refine Value.live_mono ?_ (g.vals v)
  intro o ho
  have : o ≠ s.nextObj := fun e => absurd (g.inv.alive_lt o ho) (by rw [e]; exact Nat.lt_irrefl _)
  simp [spawnObj, upd_other _ _ this, ho]

theorem Good.of_same {s s' : State} (g : Good s) (h1 : s'.tbl = s.tbl) (h2 : s'.lists = s.lists)
    (h3 : s'.nextList = s.nextList) (h4 : s'.log = s.log) (h5 : s'.alive = s.alive)
    (h6 : s'.comp = s.comp) (h7 : s'.nextObj = s.nextObj) (h8 : s'.vals = s.vals) : Good s' :=
  ⟨g.inv.of_same h1 h2 h3 h4 h5 h6 h7, by intro v; rw [h5, h8]; exact g.vals v⟩

/-! ### statements preserve the invariant -/

/-- a predicate holds of the outcome (vacuously for `ub`) -/
def Res.All (P : State → Prop) : Res → Prop
  | .ok s => P s
  | .ub => True

theorem Res.All_bind {P : State → Prop} {r : Res} {f : State → Res} (h : r.All P)
    (hf : ∀ s, P s → (f s).All P) : (r.bind f).All P := by
  cases r with
  | ok s => exact hf s h
  | ub => trivial

theorem say_good {s : State} (g : Good s) (t : String) : Good (say s t) :=
  g.of_same rfl rfl rfl rfl rfl rfl rfl rfl

theorem sayId_good {s : State} (g : Good s) (tag : String) (r : WeakRef) : Good (sayId s tag r) := by
  unfold sayId; split <;> exact say_good g _

theorem visited_inv {s : State} (i : Inv s) (o : ObjId) : Inv { s with log := s.log ++ [.visited o] } := by
  have hb : bearers (s.log ++ [.visited o]) = bearers s.log := by rw [bearers_append]; rfl
  have hl : ∀ x, lastName (s.log ++ [.visited o]) x = lastName s.log x := fun x => by rw [lastName_append]
  have ha : ∀ x, aliveIn (s.log ++ [.visited o]) x = aliveIn s.log x := fun x => by rw [aliveIn_append]
  refine ⟨i.toWf.of_same rfl rfl rfl, ?_, ?_, ?_, i.alive_lt, i.comp_ne, ?_, ?_, ?_⟩
  · intro n; show listOf s n = _; rw [hb]; exact i.refine n
  · show ∀ n x, x ∈ bearers (s.log ++ [.visited o]) n → _; rw [hb]; exact i.bearer
  · show ∀ n, (bearers (s.log ++ [.visited o]) n).Nodup; rw [hb]; exact i.nodup
  · intro x m; show x ∈ bearers (s.log ++ [.visited o]) m ↔ _ ∧ lastName (s.log ++ [.visited o]) x = _
    rw [hb, hl]; exact i.last x m
  · intro x hx; show lastName (s.log ++ [.visited o]) x = none; rw [hl]; exact i.unborn x hx
  · intro x; show s.alive x = aliveIn (s.log ++ [.visited o]) x; rw [ha]; exact i.alive_log x

theorem visited_good {s : State} (g : Good s) (o : ObjId) : Good { s with log := s.log ++ [.visited o] } :=
  ⟨visited_inv g.inv o, g.vals⟩

theorem foldl_sayId_good (rs : List WeakRef) {s : State} (g : Good s) :
    Good (rs.foldl (fun st r => sayId st "e" r) s) := by
  induction rs generalizing s with
  | nil => exact g
  | cons a t ih => exact ih (sayId_good g _ a)

theorem resolve_live {s : State} {self : Option ObjId} {w : Who} {o : ObjId}
    (h : resolve s self w = .live o) : s.alive o = true := by
  unfold resolve at h
  cases w with
  | self =>
    cases self with
    | none => simp at h
    | some p =>
      simp only at h
      split at h
      · cases h; assumption
      · cases h
  | obj k =>
    simp only at h
    split at h
    · cases h
    · split at h
      · cases h; assumption
      · cases h

theorem sayIndex_good {s : State} (g : Good s) (a : Value) (k : Nat) : (sayIndex s a k).All Good := by
  unfold sayIndex
  cases a with
  | nil => exact say_good g _
  | obj r => simp only; split <;> first | exact sayId_good g _ _ | exact say_good (say_good g _) _
  | cont l =>
    simp only
    cases s.lists l with
    | none => trivial
    | some rs => simp only; split <;> first | exact sayId_good g _ _ | exact say_good (say_good g _) _
  | arr rs => simp only; split <;> first | exact sayId_good g _ _ | exact say_good (say_good g _) _

theorem evalSrc_live (cfg : Cfg) {s : State} (g : Good s) (src : Src) : (evalSrc cfg s src).live s.alive := by
  cases src with
  | name n => exact evalTarget_live cfg g.inv n
  | val v => exact g.vals v

theorem actCore_good (cfg : Cfg) (self : Option ObjId) {s : State} (g : Good s) (a : Act) :
    (actCore cfg self s a).All Good := by
  cases a with
  | spawn n =>
    simp only [actCore]
    split
    · exact say_good g _
    · split
      · exact say_good (spawnObj_good g) _
      · refine say_good (setTargetName_good (spawnObj_good g) ?_ n) _
        simp [spawnObj]
  | setName w n =>
    simp only [actCore]
    split
    · exact say_good g _
    · exact say_good g _
    · rename_i o h; exact setTargetName_good g (resolve_live h) n
  | delete w =>
    simp only [actCore]
    split
    · exact say_good g _
    · exact say_good g _
    · exact destroy_good g _
  | mark w =>
    simp only [actCore]
    split
    · exact g.of_same rfl rfl rfl rfl rfl rfl rfl rfl
    · exact say_good g _
  | hello =>
    simp only [actCore]
    split <;> exact say_good g _
  | capture v n =>
    refine ⟨g.inv.of_same rfl rfl rfl rfl rfl rfl rfl, ?_⟩
    intro k
    show (upd s.vals v (evalTarget cfg s n) k).live s.alive
    by_cases e : k = v
    · subst e; rw [upd_same]; exact evalTarget_live cfg g.inv n
    · rw [upd_other _ _ e]; exact g.vals k
  | copy v w =>
    refine ⟨g.inv.of_same rfl rfl rfl rfl rfl rfl rfl, ?_⟩
    intro k
    show (upd s.vals v (s.vals w) k).live s.alive
    by_cases e : k = v
    · subst e; rw [upd_same]; exact g.vals w
    · rw [upd_other _ _ e]; exact g.vals k
  | query src =>
    simp only [actCore]
    split
    · exact foldl_sayId_good _ (say_good g _)
    · trivial
  | size src =>
    simp only [actCore]
    split
    · exact say_good g _
    · trivial
  | index src k => exact sayIndex_good g _ k

theorem note_good (cfg : Cfg) {s : State} (g : Good s) (x : Option Src) : Good (note cfg s x) := by
  unfold note
  split
  · split
    · exact say_good g _
    · exact g
  · exact g

theorem act_good (cfg : Cfg) (self : Option ObjId) {s : State} (g : Good s) (a : Act) :
    (act cfg self s a).All Good := actCore_good cfg self (note_good cfg g _) a

theorem acts_good (cfg : Cfg) (self : Option ObjId) (h : List Act) {s : State} (g : Good s) :
    (acts cfg self h s).All Good := by
  induction h generalizing s with
  | nil => exact g
  | cons a t ih => exact Res.All_bind (act_good cfg self g a) (fun s' g' => ih g')

theorem fanLoop_good {run : State → ObjId → Res}
    (hrun : ∀ s o, Good s → s.alive o = true → (run s o).All Good)
    (rs : List WeakRef) {s : State} (g : Good s) : (fanLoop run rs s).All Good := by
  induction rs generalizing s with
  | nil => exact g
  | cons r t ih =>
    cases r with
    | none => exact ih g
    | some o =>
      simp only [fanLoop]
      split
      · rename_i ho
        exact Res.All_bind (hrun _ o (visited_good g o) ho) (fun s' g' => ih g')
      · exact ih g

theorem receivers_single_alive {s : State} {a : Value} {o : ObjId} (h : receivers s a = .single o)
    (ha : a.live s.alive) : s.alive o = true := by
  cases a with
  | nil => simp [receivers] at h
  | obj r =>
    cases r with
    | none => simp [receivers] at h
    | some p => simp only [receivers, Receivers.single.injEq] at h; subst h; exact ha
  | cont l =>
    simp only [receivers] at h
    split at h
    · cases h
    · split at h <;> cases h
  | arr rs =>
    simp only [receivers] at h
    split at h <;> cases h

theorem fanOut_good (cfg : Cfg) {run : State → ObjId → Res}
    (hrun : ∀ s o, Good s → s.alive o = true → (run s o).All Good)
    (src : Src) {s : State} (g : Good s) : (fanOut cfg s src run).All Good := by
  unfold fanOut
  split
  · exact say_good g _
  · rename_i o h
    exact hrun _ _ (visited_good g _) (receivers_single_alive h (evalSrc_live cfg g src))
  · exact fanLoop_good hrun _ g
  · trivial

theorem fieldSet_good (cfg : Cfg) (src : Src) (x : Nat) {s : State} (g : Good s) :
    (fieldSet cfg s src x).All Good := by
  have hset : ∀ (st : State) (o : ObjId), Good st → st.alive o = true →
      (Res.ok { st with fld := upd st.fld o x }).All Good :=
    fun st o gst _ => gst.of_same rfl rfl rfl rfl rfl rfl rfl rfl
  unfold fieldSet
  simp only
  split
  · exact say_good g _
  · exact say_good g _
  · rename_i o h
    have hl := evalSrc_live cfg g src
    rw [h] at hl
    exact hset _ _ (visited_good g _) hl
  · split
    · split
      · exact fanLoop_good hset _ g
      · trivial
      · exact say_good g _
    · exact say_good g _

/-- with the repair, a setter-backed field assignment is dispatched exactly like a command applied to
    the same source (`ExecCmdMethodCommon`): same errors, same single case, same loop over the copy -/
theorem fieldSetter_eq_fanOut {cfg : Cfg} (hfix : cfg.fieldFan = true) (s : State) (src : Src) (f : Setter) :
    fieldSetter cfg s src f = fanOut cfg s src (applySetter f) := by
  unfold fieldSetter fanOut
  cases h : evalSrc cfg s src with
  | nil => simp [receivers]
  | obj r => cases r <;> simp [receivers]
  | cont l =>
    simp only [hfix, if_true, receivers]
    cases s.lists l with
    | none => rfl
    | some rs => by_cases hl : 1 < rs.length <;> simp [hl]
  | arr rs =>
    simp only [hfix, if_true, receivers]
    by_cases hl : 1 < rs.length <;> simp [hl]

theorem applySetter_good (f : Setter) {st : State} (o : ObjId) (g : Good st) (ho : st.alive o = true) :
    (applySetter f st o).All Good := by
  cases f with
  | target x => exact g.of_same rfl rfl rfl rfl rfl rfl rfl rfl
  | name n => exact setTargetName_good g ho n

theorem fieldSetter_good (cfg : Cfg) (src : Src) (f : Setter) {s : State} (g : Good s) :
    (fieldSetter cfg s src f).All Good := by
  have hset : ∀ (st : State) (o : ObjId), Good st → st.alive o = true → (applySetter f st o).All Good :=
    fun st o gst ho => applySetter_good f o gst ho
  unfold fieldSetter
  split
  · exact say_good g _
  · exact say_good g _
  · rename_i o h
    have hl := evalSrc_live cfg g src
    rw [h] at hl
    exact hset _ _ (visited_good g _) hl
  · split
    · split
      · exact fanLoop_good hset _ g
      · trivial
      · exact say_good g _
    · exact say_good g _

theorem stmt_good (cfg : Cfg) {s : State} (g : Good s) (st : Stmt) : (stmt cfg s st).All Good := by
  cases st with
  | act a => exact act_good cfg none g a
  | fan src h => exact fanOut_good cfg (fun st o gst _ => acts_good cfg (some o) h gst) src (note_good cfg g _)
  | fanName src n =>
    exact fanOut_good cfg (run := fun st o => .ok (setTargetName st o n))
      (fun st o gst ho => setTargetName_good gst ho n) src (note_good cfg g _)
  | fanDelete src =>
    exact fanOut_good cfg (run := fun st o => .ok (destroy st o)) (fun st o gst _ => destroy_good gst o) src (note_good cfg g _)
  | fieldSet src x => exact fieldSet_good cfg src x (note_good cfg g _)
  | fieldSetter src f => exact fieldSetter_good cfg src f (note_good cfg g _)

theorem run_good (cfg : Cfg) (l : List Stmt) {s : State} (g : Good s) : (run cfg l s).All Good := by
  induction l generalizing s with
  | nil => exact g
  | cons a t ih => exact Res.All_bind (stmt_good cfg g a) (fun s' g' => ih g')

end Morfuse.Target
