import MorfuseModel.Target.Spec
/-! # Invariant and refinement lemmas for the `$name` model (helpers for `Props/C15.lean`) -/
namespace Morfuse.Target

@[simp] theorem upd_same {β : Type} (f : Nat → β) (k : Nat) (v : β) : upd f k v k = v := by simp [upd]
theorem upd_other {β : Type} (f : Nat → β) {k x : Nat} (v : β) (h : x ≠ k) : upd f k v x = f x := by
  simp [upd, h]

/-- structural invariant of the table -/
structure Wf (s : State) : Prop where
  tbl0 : s.tbl 0 = none
  inj : ∀ n m l, s.tbl n = some l → s.tbl m = some l → n = m
  fresh : ∀ n l, s.tbl n = some l → l < s.nextList
  nonempty : ∀ n l, s.tbl n = some l → ∃ rs, s.lists l = some rs ∧ rs ≠ []

theorem listOf_none {s : State} {n : Name} (h : s.tbl n = none) : listOf s n = [] := by
  simp [listOf, h]

theorem listOf_zero {s : State} (w : Wf s) : listOf s 0 = [] := listOf_none w.tbl0

theorem listOf_ne_nil {s : State} (w : Wf s) {n : Name} {l : ListId} (h : s.tbl n = some l) :
    listOf s n ≠ [] := by
  obtain ⟨rs, h1, h2⟩ := w.nonempty n l h
  simp [listOf, h, h1, h2]

theorem tbl_none_of_listOf_nil {s : State} (w : Wf s) {n : Name} (h : listOf s n = []) : s.tbl n = none := by
  cases e : s.tbl n with
  | none => rfl
  | some l => exact absurd h (listOf_ne_nil w e)

/-! ### AddListener -/

theorem addListener_zero (s : State) (o : ObjId) : addListener s o 0 = s := by simp [addListener]

theorem addListener_listOf {s : State} (w : Wf s) (o : ObjId) {n : Name} (hn : n ≠ 0) (m : Name) :
    listOf (addListener s o n) m = if m = n then listOf s n ++ [some o] else listOf s m := by
  unfold addListener
  simp only [hn, if_false]
  cases e : s.tbl n with
  | some l =>
    simp only [listOf]
    by_cases hm : m = n
    · subst hm; simp [e]
    · simp only [hm, if_false]
      cases e2 : s.tbl m with
      | none => rfl
      | some l2 =>
        have : l2 ≠ l := fun h => hm (w.inj m n l (h ▸ e2) e)
        simp [upd_other _ _ this]
  | none =>
    simp only [listOf]
    by_cases hm : m = n
    · subst hm; simp [e]
    · simp only [hm, if_false, upd_other _ _ hm]
      cases e2 : s.tbl m with
      | none => rfl
      | some l2 =>
        have : l2 ≠ s.nextList := Nat.ne_of_lt (w.fresh m l2 e2)
        simp [upd_other _ _ this]

theorem addListener_wf {s : State} (w : Wf s) (o : ObjId) (n : Name) : Wf (addListener s o n) := by
  unfold addListener
  by_cases hn : n = 0
  · simp [hn, w]
  simp only [hn, if_false]
  cases e : s.tbl n with
  | some l =>
    refine ⟨w.tbl0, w.inj, w.fresh, ?_⟩
    intro m l2 h2
    by_cases hl : l2 = l
    · subst hl; exact ⟨_, upd_same _ _ _, by simp⟩
    · simpa [upd_other _ _ hl] using w.nonempty m l2 h2
  | none =>
    refine ⟨?_, ?_, ?_, ?_⟩
    · simp [upd_other _ _ (Ne.symm hn), w.tbl0]
    · intro a b l ha hb
      by_cases h1 : a = n <;> by_cases h2 : b = n
      · rw [h1, h2]
      · subst h1
        simp only [upd_same, upd_other _ _ h2] at ha hb
        cases ha
        exact absurd (w.fresh b _ hb) (Nat.lt_irrefl _)
      · subst h2
        simp only [upd_same, upd_other _ _ h1] at ha hb
        cases hb
        exact absurd (w.fresh a _ ha) (Nat.lt_irrefl _)
      · simp only [upd_other _ _ h1, upd_other _ _ h2] at ha hb
        exact w.inj a b l ha hb
    · intro a l ha
      by_cases h1 : a = n
      · subst h1; simp only [upd_same] at ha; cases ha; exact Nat.lt_succ_self _
      · simp only [upd_other _ _ h1] at ha; exact Nat.lt_succ_of_lt (w.fresh a l ha)
    · intro a l ha
      by_cases h1 : a = n
      · subst h1; simp only [upd_same] at ha; cases ha; exact ⟨_, upd_same _ _ _, by simp⟩
      · simp only [upd_other _ _ h1] at ha
        have : l ≠ s.nextList := Nat.ne_of_lt (w.fresh a l ha)
        simpa [upd_other _ _ this] using w.nonempty a l ha

/-! ### RemoveListener -/

theorem removeListener_zero (s : State) (o : ObjId) : removeListener s o 0 = s := by simp [removeListener]

theorem removeListener_listOf {s : State} (w : Wf s) (o : ObjId) (n : Name) (m : Name) :
    listOf (removeListener s o n) m = if m = n then (listOf s n).erase (some o) else listOf s m := by
  unfold removeListener
  by_cases hn : n = 0
  · subst hn
    by_cases hm : m = 0
    · subst hm; simp [listOf_zero w]
    · simp [hm]
  simp only [hn, if_false]
  cases e : s.tbl n with
  | none =>
    by_cases hm : m = n
    · subst hm; simp [listOf, e]
    · simp [hm]
  | some l =>
    obtain ⟨rs, hrs, _⟩ := w.nonempty n l e
    simp only [hrs, Option.getD_some]
    by_cases hlen : (rs.erase (some o)).length = 0
    · simp only [hlen, if_true]
      have hnil : rs.erase (some o) = [] := List.length_eq_zero_iff.mp hlen
      by_cases hm : m = n
      · subst hm; simp [listOf, e, hrs, hnil]
      · simp only [hm, if_false, listOf, upd_other _ _ hm]
        cases e2 : s.tbl m with
        | none => rfl
        | some l2 =>
          have : l2 ≠ l := fun h => hm (w.inj m n l (h ▸ e2) e)
          simp [upd_other _ _ this]
    · simp only [hlen, if_false]
      by_cases hm : m = n
      · subst hm; simp [listOf, e, hrs]
      · simp only [hm, if_false, listOf]
        cases e2 : s.tbl m with
        | none => rfl
        | some l2 =>
          have : l2 ≠ l := fun h => hm (w.inj m n l (h ▸ e2) e)
          simp [upd_other _ _ this]

theorem removeListener_wf {s : State} (w : Wf s) (o : ObjId) (n : Name) : Wf (removeListener s o n) := by
  unfold removeListener
  by_cases hn : n = 0
  · simp [hn, w]
  simp only [hn, if_false]
  cases e : s.tbl n with
  | none => exact w
  | some l =>
    obtain ⟨rs, hrs, _⟩ := w.nonempty n l e
    simp only [hrs, Option.getD_some]
    by_cases hlen : (rs.erase (some o)).length = 0
    · simp only [hlen, if_true]
      refine ⟨?_, ?_, ?_, ?_⟩
      · simp [upd_other _ _ (Ne.symm hn), w.tbl0]
      · intro a b l2 ha hb
        have h1 : a ≠ n := fun h => by subst h; simp at ha
        have h2 : b ≠ n := fun h => by subst h; simp at hb
        simp only [upd_other _ _ h1, upd_other _ _ h2] at ha hb
        exact w.inj a b l2 ha hb
      · intro a l2 ha
        have h1 : a ≠ n := fun h => by subst h; simp at ha
        simp only [upd_other _ _ h1] at ha
        exact w.fresh a l2 ha
      · intro a l2 ha
        have h1 : a ≠ n := fun h => by subst h; simp at ha
        simp only [upd_other _ _ h1] at ha
        have : l2 ≠ l := fun h => h1 (w.inj a n l (h ▸ ha) e)
        simpa [upd_other _ _ this] using w.nonempty a l2 ha
    · simp only [hlen, if_false]
      refine ⟨w.tbl0, w.inj, w.fresh, ?_⟩
      intro a l2 ha
      by_cases hl : l2 = l
      · subst hl
        exact ⟨_, upd_same _ _ _, fun h => hlen (by simp [h])⟩
      · simpa [upd_other _ _ hl] using w.nonempty a l2 ha

/-! ### the specification -/

theorem bearers_append (log : List Ev) (e : Ev) : bearers (log ++ [e]) = specStep (bearers log) e := by
  simp [bearers, List.foldl_append]

theorem filter_ne_of_not_mem {l : List ObjId} {o : ObjId} (h : o ∉ l) : l.filter (· ≠ o) = l := by
  induction l with
  | nil => rfl
  | cons a t ih =>
    have ha : a ≠ o := fun e => h (by simp [e])
    have ht : o ∉ t := fun e => h (by simp [e])
    rw [List.filter_cons_of_pos (by simpa using ha), ih ht]

theorem filter_cons_self (a : ObjId) (t : List ObjId) : (a :: t).filter (· ≠ a) = t.filter (· ≠ a) := by
  rw [List.filter_cons_of_neg (by simp)]

theorem filter_cons_ne {a o : ObjId} (h : a ≠ o) (t : List ObjId) :
    (a :: t).filter (· ≠ o) = a :: t.filter (· ≠ o) := by
  rw [List.filter_cons_of_pos (by simpa using h)]

theorem map_some_erase {l : List ObjId} (hn : l.Nodup) (o : ObjId) :
    (l.map some).erase (some o) = (l.filter (· ≠ o)).map some := by
  induction l with
  | nil => rfl
  | cons a t ih =>
    have hn' := (List.nodup_cons.mp hn)
    by_cases h : a = o
    · subst h
      rw [filter_cons_self, filter_ne_of_not_mem hn'.1, List.map_cons, List.erase_cons_head]
    · have h' : ¬ (some a == some o) = true := by simpa using h
      rw [filter_cons_ne h, List.map_cons, List.map_cons, List.erase_cons_tail h', ih hn'.2]

theorem map_nullRef_some {l : List ObjId} {o : ObjId} (h : o ∉ l) :
    (l.map some).map (nullRef o) = l.map some := by
  induction l with
  | nil => rfl
  | cons a t ih =>
    have ha : a ≠ o := fun e => h (by simp [e])
    have ht : o ∉ t := fun e => h (by simp [e])
    simp [nullRef, ha, ih ht]

/-- full invariant: structural + refinement of the specification -/
structure Inv (s : State) : Prop extends Wf s where
  refine : ∀ n, listOf s n = (bearers s.log n).map some
  bearer : ∀ n o, o ∈ bearers s.log n → s.alive o = true ∧ s.comp o = n ∧ n ≠ 0
  nodup : ∀ n, (bearers s.log n).Nodup
  alive_lt : ∀ o, s.alive o = true → o < s.nextObj
  comp_ne : ∀ o, s.comp o ≠ 0

theorem init_inv : Inv init := by
  refine ⟨⟨rfl, ?_, ?_, ?_⟩, ?_, ?_, ?_, ?_, ?_⟩ <;> simp [init, listOf, bearers, emptyName]

theorem Wf.of_same {s s' : State} (w : Wf s) (h1 : s'.tbl = s.tbl) (h2 : s'.lists = s.lists)
    (h3 : s'.nextList = s.nextList) : Wf s' := by
  refine ⟨?_, ?_, ?_, ?_⟩
  · rw [h1]; exact w.tbl0
  · rw [h1]; exact w.inj
  · rw [h1, h3]; exact w.fresh
  · rw [h1, h2]; exact w.nonempty

theorem listOf_of_same {s s' : State} (h1 : s'.tbl = s.tbl) (h2 : s'.lists = s.lists) (n : Name) :
    listOf s' n = listOf s n := by simp [listOf, h1, h2]

theorem Inv.of_same {s s' : State} (i : Inv s) (h1 : s'.tbl = s.tbl) (h2 : s'.lists = s.lists)
    (h3 : s'.nextList = s.nextList) (h4 : bearers s'.log = bearers s.log) (h5 : s'.alive = s.alive)
    (h6 : s'.comp = s.comp) (h7 : s'.nextObj = s.nextObj) : Inv s' := by
  refine ⟨i.toWf.of_same h1 h2 h3, ?_, ?_, ?_, ?_, ?_⟩
  · intro n; rw [listOf_of_same h1 h2, h4]; exact i.refine n
  · rw [h4, h5, h6]; exact i.bearer
  · rw [h4]; exact i.nodup
  · rw [h5, h7]; exact i.alive_lt
  · rw [h6]; exact i.comp_ne

theorem normName_ne (n : Name) : normName n ≠ 0 := by
  unfold normName
  split
  · decide
  · assumption

/-- the list registered under `m` once `o` has been removed from the list of its component name -/
theorem removed_listOf {s : State} (i : Inv s) (o : ObjId) (m : Name) :
    (if m = s.comp o then (listOf s (s.comp o)).erase (some o) else listOf s m)
      = ((bearers s.log m).filter (· ≠ o)).map some := by
  by_cases hm : m = s.comp o
  · simp only [hm, if_true]
    rw [i.refine, map_some_erase (i.nodup _)]
  · simp only [hm, if_false]
    have : o ∉ bearers s.log m := fun h => hm (i.bearer m o h).2.1.symm
    rw [i.refine, filter_ne_of_not_mem this]

theorem mem_filter_ne {l : List ObjId} {o x : ObjId} : x ∈ l.filter (· ≠ o) ↔ x ∈ l ∧ x ≠ o := by
  simp [List.mem_filter]

/-! ### SetTargetName -/

theorem setTargetName_listOf {s : State} (i : Inv s) (o : ObjId) (n : Name) (m : Name) :
    listOf (setTargetName s o n) m =
      if m = normName n then ((bearers s.log m).filter (· ≠ o)).map some ++ [some o]
      else ((bearers s.log m).filter (· ≠ o)).map some := by
  have w1 := removeListener_wf i.toWf o (s.comp o)
  let s1 := removeListener s o (s.comp o)
  let s2 : State := { s1 with comp := upd s1.comp o (normName n) }
  have w2 : Wf s2 := w1.of_same rfl rfl rfl
  have hc : s2.comp o = normName n := by simp [s2]
  have e3 : listOf (setTargetName s o n) m = listOf (addListener s2 o (s2.comp o)) m := rfl
  rw [e3, hc, addListener_listOf w2 o (normName_ne n) m]
  have e2 : ∀ k, listOf s2 k = listOf s1 k := fun k => rfl
  rw [e2, e2, removeListener_listOf i.toWf, removeListener_listOf i.toWf, removed_listOf i, removed_listOf i]
  by_cases hm : m = normName n
  · subst hm; simp
  · simp [hm]

theorem setTargetName_wf {s : State} (w : Wf s) (o : ObjId) (n : Name) : Wf (setTargetName s o n) := by
  have w1 := removeListener_wf w o (s.comp o)
  let s1 := removeListener s o (s.comp o)
  let s2 : State := { s1 with comp := upd s1.comp o (normName n) }
  have w2 : Wf s2 := w1.of_same rfl rfl rfl
  have w3 := addListener_wf w2 o (s2.comp o)
  exact w3.of_same rfl rfl rfl

theorem setTargetName_fields (s : State) (o : ObjId) (n : Name) :
    (setTargetName s o n).alive = s.alive ∧ (setTargetName s o n).nextObj = s.nextObj ∧
    (setTargetName s o n).comp = upd s.comp o (normName n) ∧
    (setTargetName s o n).log = s.log ++ [.named o (normName n)] ∧
    (setTargetName s o n).vals = s.vals ∧ (setTargetName s o n).cnt = s.cnt ∧
    (setTargetName s o n).fld = s.fld ∧ (setTargetName s o n).out = s.out := by
  unfold setTargetName addListener removeListener
  simp only
  repeat' split
  all_goals simp

theorem setTargetName_inv {s : State} (i : Inv s) {o : ObjId} (ho : s.alive o = true) (n : Name) :
    Inv (setTargetName s o n) := by
  obtain ⟨f1, f2, f3, f4, -⟩ := setTargetName_fields s o n
  have hb : ∀ m, bearers (setTargetName s o n).log m =
      if m = normName n then (bearers s.log m).filter (· ≠ o) ++ [o] else (bearers s.log m).filter (· ≠ o) := by
    intro m; rw [f4, bearers_append]; rfl
  refine ⟨setTargetName_wf i.toWf o n, ?_, ?_, ?_, ?_, ?_⟩
  · intro m
    rw [setTargetName_listOf i, hb]
    by_cases hm : m = normName n <;> simp [hm]
  · intro m x hx
    rw [hb] at hx
    rw [f1, f3]
    by_cases hm : m = normName n
    · simp only [hm, if_true, List.mem_append, List.mem_singleton] at hx
      rcases hx with hx | hx
      · obtain ⟨h1, h2⟩ := mem_filter_ne.mp hx
        obtain ⟨a, b, c⟩ := i.bearer _ x h1
        exact ⟨a, by rw [upd_other _ _ h2, b, hm], by rw [hm]; exact normName_ne n⟩
      · subst hx; exact ⟨ho, by rw [upd_same, hm], by rw [hm]; exact normName_ne n⟩
    · simp only [hm, if_false] at hx
      obtain ⟨h1, h2⟩ := mem_filter_ne.mp hx
      obtain ⟨a, b, c⟩ := i.bearer _ x h1
      exact ⟨a, by rw [upd_other _ _ h2, b], c⟩
  · intro m
    rw [hb]
    have hf : ((bearers s.log m).filter (· ≠ o)).Nodup := (i.nodup m).filter _
    by_cases hm : m = normName n
    · simp only [hm, if_true]
      rw [← hm]
      refine List.nodup_append.mpr ⟨hf, by simp, ?_⟩
      intro a ha b hb'
      simp only [List.mem_singleton] at hb'
      subst hb'
      exact (mem_filter_ne.mp ha).2
    · simpa [hm] using hf
  · rw [f1, f2]; exact i.alive_lt
  · intro x
    rw [f3]
    by_cases hx : x = o
    · subst hx; rw [upd_same]; exact normName_ne n
    · rw [upd_other _ _ hx]; exact i.comp_ne x

end Morfuse.Target
