/-!
# Model of `$name`: `TargetList`, `TargetComponent`, `OP_UN_TARGETNAME`, command fan-out

Transcribed from
* `src/Script/TargetList.cpp` (`AddListener`, `RemoveListener`, `GetTarget`, `GetNextTarget`,
  `FindTarget`, `GetTargetnameIndex`, `GetExistingTargetList`),
* `src/Script/Components/TargetComponent.cpp` (`SetTargetName`, `~TargetComponent`),
* `src/Script/SimpleEntity.cpp` (`EventSetTargetname`, destruction order: the component member is
  destroyed before the `Listener`/`AbstractClass` bases),
* `src/Script/ScriptVMOperation.cpp` (`OP_UN_TARGETNAME` incl. its Debug-stream branch,
  `ScriptVM::Execute`'s warning handler, `ExecCmdMethodCommon`,
  `OP_LOAD_FIELD_VAR`, `OP_UN_SIZE`, `OP_STORE_ARRAY`),
* `src/Script/ScriptVariable.cpp` (`setContainerValue`, `setDataInternal`, `size`, `arraysize`,
  `evalArrayAt`, `listenerValue`, `listenerAt`, `CastConstArrayValue`).

Representation.
* `Name` is a `const_str`: `0` is `const_str::None()`, `emptyName` is `ConstStrings::Empty`
  (the harness reports that it is non-zero), other numbers are user names.
* A weak reference `SafePtr<Listener>` is an `Option ObjId`; destroying an object nulls exactly the
  references that point at it (`nullRefs`) — this is theorem `C12_destroy_nulls_exactly` of the
  SafePtr layer, taken here as the behaviour of the abstract weak reference.  Object ids are never
  reused, so a `level.o[k]` handle is read as `if alive k then some k else none`.
* `m_targetList : con::set<const_str, ConTarget>` is `tbl : Name → Option ListId` plus a heap
  `lists : ListId → Option (List WeakRef)`: the `ConTarget` lives *inside* the set's entry, the
  `ListId` stands for the entry's address, `lists l = none` means the entry has been freed
  (`set::remove` → `DeleteEntry`).  A `ScriptVariable` of type `Container` holds such an address.
  Addresses are modelled as never reused; in the real allocator the slot is recycled, which only
  widens what an access to a freed entry can do — every such access is the outcome `Res.ub`.
* `log` (ghost, write-only): the primitive events in the order they took effect.  The property's
  specification (`bearers` in `Spec.lean`) is a function of this log alone.
* `out` is what the script printed (tokens), rendered by the driver.
-/
namespace Morfuse.Target

abbrev ObjId := Nat
abbrev Name := Nat
abbrev ListId := Nat
abbrev WeakRef := Option ObjId

/-- `ConstStrings::Empty` (any non-zero constant) -/
def emptyName : Name := 1

/-- pointwise update -/
def upd {β : Type} (f : Nat → β) (k : Nat) (v : β) : Nat → β := fun x => if x = k then v else f x

/-- a `ScriptVariable` as far as `$name` is concerned -/
inductive Value
  | nil                        -- variableType_e::None
  | obj (r : WeakRef)          -- Listener: `SafePtr<Listener>`
  | cont (l : ListId)          -- Container: raw `const ConTarget*` into the table entry
  | arr (rs : List WeakRef)    -- ConstArray whose elements are Listener values
  deriving Repr, DecidableEq

/-- primitive events (ghost log) -/
inductive Ev
  | spawned (o : ObjId)
  | named (o : ObjId) (n : Name)       -- `SetTargetName` ran on live `o` with (normalised) name `n`
  | destroyed (o : ObjId)
  | visited (o : ObjId)                -- a fanned-out command / field assignment was executed on `o`
  deriving Repr, DecidableEq

/-- which code is modelled: the tree as found (`snapshot = false`, `fieldFan = false`) or with
    the suggested repairs (see notes/C15-findings.md) -/
structure Cfg where
  /-- `OP_UN_TARGETNAME` with n > 1 yields a const array of listener values instead of a raw pointer -/
  snapshot : Bool := false
  /-- `OP_LOAD_FIELD_VAR` fans a field assignment out over an array of listeners -/
  fieldFan : Bool := false
  /-- the generated scripts stop spawning at this many objects (`if (level.n < maxObj)`) -/
  maxObj : Nat := 8
  /-- a Debug output stream is attached to the context (`OutputInfo::GetOutput(Debug) != nullptr`) -/
  dbg : Bool := false

structure State where
  nextObj : Nat := 1
  alive : ObjId → Bool := fun _ => false
  /-- `TargetComponent::targetName.GetConstString()` -/
  comp : ObjId → Name := fun _ => emptyName
  tbl : Name → Option ListId := fun _ => none
  lists : ListId → Option (List WeakRef) := fun _ => none
  nextList : Nat := 1
  /-- `level.v<k>`: script variables that captured a `$name` result -/
  vals : Nat → Value := fun _ => .nil
  /-- `.cnt` field of each object (incremented by handlers) -/
  cnt : ObjId → Nat := fun _ => 0
  /-- `.fld` field of each object (last value assigned through `src.fld = x`), 0 = never -/
  fld : ObjId → Nat := fun _ => 0
  /-- `TargetComponent::target` of each object, as set through the setter-backed field `.target`
      (`"t<k>"` is `k`, 0 = never set) -/
  tgt : ObjId → Nat := fun _ => 0
  log : List Ev := []
  out : List String := []

def init : State := {}

/-- outcome of a statement: a new state, or undefined behaviour of the C++ code (a read through a
    pointer to a freed table entry) -/
inductive Res
  | ok (s : State)
  | ub

def Res.bind (r : Res) (f : State → Res) : Res :=
  match r with
  | .ok s => f s
  | .ub => .ub

/-! ## TargetList -/

/-- contents of the list registered under `n` (`[]` when there is none) -/
def listOf (s : State) (n : Name) : List WeakRef :=
  match s.tbl n with
  | some l => (s.lists l).getD []
  | none => []

/-- `TargetList::AddListener` -/
def addListener (s : State) (o : ObjId) (n : Name) : State :=
  if n = 0 then s else           -- `if (!targetName) return;`
  match s.tbl n with
  | some l =>                    -- GetTargetList: addKeyValue finds the entry; `list->AddObject(&ent)`
    { s with lists := upd s.lists l (some ((s.lists l).getD [] ++ [some o])) }
  | none =>                      -- addKeyValue creates the entry
    let l := s.nextList
    { s with tbl := upd s.tbl n (some l), lists := upd s.lists l (some [some o]), nextList := l + 1 }

/-- `TargetList::RemoveListener` -/
def removeListener (s : State) (o : ObjId) (n : Name) : State :=
  if n = 0 then s else
  match s.tbl n with
  | none => s                    -- GetExistingTargetList == nullptr
  | some l =>
    -- `list->RemoveObject(&ent)`: IndexOfObject (first equal SafePtr), RemoveObjectAt; no-op if absent
    let rs := ((s.lists l).getD []).erase (some o)
    if rs.length = 0 then        -- `if (list->NumObjects() <= 0) m_targetList.remove(targetName);`
      { s with tbl := upd s.tbl n none, lists := upd s.lists l none }
    else
      { s with lists := upd s.lists l (some rs) }

/-- `StringResolvable::GetConstString` never yields 0: an empty resolvable resolves to
    `ConstStrings::Empty` -/
def normName (n : Name) : Name := if n = 0 then emptyName else n

/-- `TargetComponent::SetTargetName` -/
def setTargetName (s : State) (o : ObjId) (n : Name) : State :=
  let s1 := removeListener s o (s.comp o)
  let s2 := { s1 with comp := upd s1.comp o (normName n) }
  let s3 := addListener s2 o (s2.comp o)
  { s3 with log := s3.log ++ [.named o (normName n)] }

/-- the weak-reference layer: every `SafePtr` that points at `o` reads null afterwards
    (`AbstractClass::~AbstractClass`, theorem `C12_destroy_nulls_exactly`) -/
def nullRef (o : ObjId) (r : WeakRef) : WeakRef := if r = some o then none else r

def Value.nullRef (o : ObjId) : Value → Value
  | .obj r => .obj (Target.nullRef o r)
  | .arr rs => .arr (rs.map (Target.nullRef o))
  | v => v

def nullRefs (s : State) (o : ObjId) : State :=
  { s with lists := fun l => (s.lists l).map (·.map (nullRef o)),
           vals := fun v => (s.vals v).nullRef o }

/-- `delete entity`: `~SimpleEntity` destroys the member `targetComp` (`~TargetComponent` →
    `RemoveListener`) and then the bases (`~AbstractClass` nulls the weak references) -/
def destroy (s : State) (o : ObjId) : State :=
  let s1 := removeListener s o (s.comp o)
  let s2 := nullRefs s1 o
  { s2 with alive := upd s2.alive o false, log := s2.log ++ [.destroyed o] }

/-- `new SimpleEntity` -/
def spawnObj (s : State) : State :=
  let o := s.nextObj
  { s with nextObj := o + 1, alive := upd s.alive o true, comp := upd s.comp o emptyName,
           log := s.log ++ [.spawned o] }

/-! ## host-side queries -/

/-- result of `TargetList::GetTarget` -/
inductive Target1
  | none
  | one (r : WeakRef)
  | multiple (k : Nat)      -- `MultipleTargetsException(k, name)`
  deriving Repr, DecidableEq

/-- `TargetList::GetTarget` -/
def getTarget (s : State) (n : Name) : Target1 :=
  match s.tbl n with
  | none => .none
  | some _ =>
    let rs := listOf s n
    if rs.length = 0 then .none
    else if rs.length = 1 then .one (rs.head?.getD none)
    else .multiple rs.length

/-- `TargetList::FindTarget`: 1-based position of `ent`, `NumObjects()+1` when absent -/
def findTarget (rs : List WeakRef) (ent : ObjId) : Nat :=
  match rs.idxOf? (some ent) with
  | some i => i + 1
  | none => rs.length + 1

/-- `TargetList::GetNextTarget(ent, name)`; `ent = none` is `nullptr`.  As written, the entry
    *at* the position of `ent` is returned (i.e. `ent` itself), not its successor. -/
def getNextTarget (s : State) (ent : Option ObjId) (n : Name) : WeakRef :=
  match s.tbl n with
  | none => none
  | some _ =>
    let rs := listOf s n
    let index := match ent with
      | some e => findTarget rs e
      | none => 1
    if index ≤ rs.length then (rs[index - 1]?).getD none else none

/-- `TargetList::GetTargetnameIndex` (`IndexOfObject`, 0 when absent or no list) -/
def getTargetnameIndex (s : State) (ent : ObjId) (n : Name) : Nat :=
  match s.tbl n with
  | none => 0
  | some _ =>
    match (listOf s n).idxOf? (some ent) with
    | some i => i + 1
    | none => 0

/-! ## `$name` -/

/-- the value `OP_UN_TARGETNAME` leaves on the stack (the same with or without a Debug stream; with
    one, the zero-bearers branch additionally raises a warning: `note`) -/
def evalTarget (cfg : Cfg) (s : State) (n : Name) : Value :=
  match s.tbl n with
  | none => .obj none                                  -- `!foundTargetList`
  | some l =>
    let rs := (s.lists l).getD []
    if rs.length = 0 then .obj none                    -- `!foundTargetList->NumObjects()`
    else if rs.length = 1 then .obj (rs.head?.getD none)   -- `setListenerValue(ObjectAt(1))`
    else if cfg.snapshot then .arr rs                  -- repaired: const array of listener values
    else .cont l                                       -- `setContainerValue(foundTargetList)`

/-- where a statement takes its value from: `$name` evaluated now, or a variable that captured an
    earlier result -/
inductive Src
  | name (n : Name)
  | val (v : Nat)
  deriving Repr, DecidableEq

def evalSrc (cfg : Cfg) (s : State) : Src → Value
  | .name n => evalTarget cfg s n
  | .val v => s.vals v

/-- the elements `x[1] .. x[x.size]` a script loop over the value sees: `none` = the read goes
    through a freed entry -/
def Value.elems (s : State) : Value → Option (List WeakRef)
  | .nil => some []
  | .obj none => some []          -- size 0
  | .obj (some o) => some [some o]
  | .cont l => s.lists l
  | .arr rs => some rs

/-! ## script statements -/

inductive Who
  | self
  | obj (k : Nat)        -- `level.o[k]`
  deriving Repr, DecidableEq

/-- what a script expression denoting an object evaluates to -/
inductive Ref
  | nil                  -- NIL (no such variable)
  | null                 -- NULL listener (destroyed, or no `self`)
  | live (o : ObjId)
  deriving Repr, DecidableEq

def resolve (s : State) (self : Option ObjId) : Who → Ref
  | .self =>
    match self with
    | none => .null
    | some o => if s.alive o then .live o else .null
  | .obj k => if s.nextObj ≤ k then .nil else if s.alive k then .live k else .null

/-- simple statements (usable at top level and inside a handler thread) -/
inductive Act
  | spawn (n : Name)               -- `spawn SimpleEntity [targetname n]`, `n = 0`: no argument
  | setName (w : Who) (n : Name)   -- `w.targetname = n` / `w targetname n`
  | delete (w : Who)               -- `w remove` / `w delete` / `w immediateremove`
  | mark (w : Who)                 -- `w.cnt++`
  | hello                          -- `println ("h " + self.id)`
  | capture (v : Nat) (n : Name)   -- `level.v<v> = $n`
  | copy (v w : Nat)               -- `level.v<v> = level.v<w>`
  | query (src : Src)              -- print type, size and the ids of all elements
  | size (src : Src)               -- print `.size`
  | index (src : Src) (i : Nat)    -- print `src[i].id`
  deriving Repr, DecidableEq

/-- a field backed by a setter event (`eventInfo.setterNum`, `ScriptVM::executeSetter`): the assigned
    value is COPIED from the stack top into a one-argument `ScriptEvent` and the listener processes it.
    `target x` = `EV_SimpleEntity_SetterTarget` → `TargetComponent::SetTarget("t<x>")`,
    `name n` = `EV_SimpleEntity_SetterTargetname` → `TargetComponent::SetTargetName(n)`.  The value is
    part of the constructor: every member a group assignment reaches gets this one value. -/
inductive Setter
  | target (x : Nat)
  | name (n : Name)
  deriving Repr, DecidableEq

inductive Stmt
  | act (a : Act)
  | fan (src : Src) (h : List Act)     -- `src thread handler` (handler body `h`, self = each member)
  | fanName (src : Src) (n : Name)     -- `src targetname n`   (command applied to the group)
  | fanDelete (src : Src)              -- `src remove`
  | fieldSet (src : Src) (x : Nat)     -- `src.fld = x`
  | fieldSetter (src : Src) (f : Setter)  -- `src.target = "t<x>"` / `src.targetname = n` (setter-backed fields)
  deriving Repr, DecidableEq

def say (s : State) (t : String) : State := { s with out := s.out ++ [t] }

def typeName : Value → String
  | .nil => "none"
  | .obj _ => "listener"
  | .cont _ => "array"
  | .arr _ => "const array"

/-- `if (x) println (tag + " " + x.id) else println (tag + " 0")` for a listener value `x` -/
def sayId (s : State) (tag : String) (r : WeakRef) : State :=
  match r with
  | some o => say s s!"{tag} {o}"
  | none => say s s!"{tag} 0"

/-- `ScriptVariable::size()` as printed by `OP_UN_SIZE`; `none` = read through a freed entry -/
def Value.size (s : State) : Value → Option Int
  | .nil => some (-1)
  | .obj r => some (if r.isSome then 1 else 0)
  | .cont l => (s.lists l).map (fun rs => (rs.length : Int))
  | .arr rs => some rs.length

/-- `local.e = src[i]` (`OP_STORE_ARRAY`: `evalArrayAt`, the value is cleared on error) followed
    by the guarded print of `local.e.id` -/
def sayIndex (s : State) (a : Value) (i : Nat) : Res :=
  let bad : Res := .ok (say (say s "!range") "i 0")
  match a with
  | .nil => .ok (say s "i 0")                                   -- NIL[i] is NIL
  | .obj r => if i = 1 then .ok (sayId s "i" r) else bad        -- `index != 1`
  | .cont l =>
    match s.lists l with
    | none => .ub
    | some rs => if i = 0 ∨ rs.length < i then bad else .ok (sayId s "i" ((rs[i - 1]?).getD none))
  | .arr rs => if i = 0 ∨ rs.length < i then bad else .ok (sayId s "i" ((rs[i - 1]?).getD none))

/-- the test of the zero-bearers branch of `OP_UN_TARGETNAME`:
    `!foundTargetList || !foundTargetList->NumObjects()` -/
def noTarget (s : State) (n : Name) : Bool :=
  match s.tbl n with
  | none => true
  | some l => ((s.lists l).getD []).length == 0

/-- With a Debug stream attached the zero-bearers branch of `OP_UN_TARGETNAME` throws
    `NoTargetException` *after* it has replaced the stack top by the NULL listener; `ScriptVM::Execute`
    catches it, `HandleScriptException` prints the warning ("Can't find target name …") and the
    program goes on with the next opcode.  So the only effect is the warning: the value is the one
    `evalTarget` gives.  `note` is applied where a statement evaluates `$name`. -/
def note (cfg : Cfg) (s : State) : Option Src → State
  | some (.name n) => if cfg.dbg && noTarget s n then say s "!notarget" else s
  | _ => s

/-- the `$name` / variable a simple statement evaluates -/
def Act.src : Act → Option Src
  | .capture _ n => some (.name n)
  | .query x => some x
  | .size x => some x
  | .index x _ => some x
  | _ => none

/-- one simple statement after its `$name` operand (if any) has been evaluated; `self` is the
    thread's `self` -/
def actCore (cfg : Cfg) (self : Option ObjId) (s : State) : Act → Res
  | .spawn n =>
    if cfg.maxObj < s.nextObj then .ok (say s "full") else
    let o := s.nextObj
    let s1 := spawnObj s
    let s2 := if n = 0 then s1 else setTargetName s1 o n
    .ok (say s2 s!"sp {o}")
  | .setName w n =>
    match resolve s self w with
    | .nil => .ok (say s "!nil")
    | .null => .ok (say s "!null")
    | .live o => .ok (setTargetName s o n)
  | .delete w =>
    match resolve s self w with
    | .nil => .ok (say s "!nil")
    | .null => .ok (say s "!null")
    | .live o => .ok (destroy s o)
  | .mark w =>            -- instrumentation, guarded by `if (w)`
    match resolve s self w with
    | .live o => .ok { s with cnt := upd s.cnt o (s.cnt o + 1) }
    | _ => .ok (say s "m0")
  | .hello =>             -- instrumentation, guarded by `if (self)`
    match resolve s self .self with
    | .live o => .ok (say s s!"h {o}")
    | _ => .ok (say s "h0")
  | .capture v n => .ok { s with vals := upd s.vals v (evalTarget cfg s n) }
  | .copy v w => .ok { s with vals := upd s.vals v (s.vals w) }
  | .query src =>
    let a := evalSrc cfg s src
    match a.size s, a.elems s with
    | some sz, some rs =>
      let s1 := say s s!"q {typeName a} {sz}"
      .ok (rs.foldl (fun st r => sayId st "e" r) s1)
    | _, _ => .ub
  | .size src =>
    match (evalSrc cfg s src).size s with
    | some sz => .ok (say s s!"s {sz}")
    | none => .ub
  | .index src i => sayIndex s (evalSrc cfg s src) i

/-- one simple statement -/
def act (cfg : Cfg) (self : Option ObjId) (s : State) (a : Act) : Res :=
  actCore cfg self (note cfg s a.src) a

def acts (cfg : Cfg) (self : Option ObjId) : List Act → State → Res
  | [], s => .ok s
  | a :: rest, s => (act cfg self s a).bind (acts cfg self rest)

/-- the loop of `ExecCmdMethodCommon` over the copied array: the copy holds weak references, a
    member destroyed by an earlier handler reads null (`if (listener)`) and is skipped -/
def fanLoop (run : State → ObjId → Res) : List WeakRef → State → Res
  | [], s => .ok s
  | none :: rest, s => fanLoop run rest s
  | some o :: rest, s =>
    if s.alive o then
      (run { s with log := s.log ++ [.visited o] } o).bind (fanLoop run rest)
    else fanLoop run rest s

/-- what `ExecCmdMethodCommon` does with the popped receiver -/
inductive Receivers
  | error (tok : String)
  | single (o : ObjId)
  | group (rs : List WeakRef)
  | ub

/-- `ExecCmdMethodCommon`: `arraysize()`, then either the single `listenerValue()` or the copy -/
def receivers (s : State) : Value → Receivers
  | .nil => .error "!nil"                      -- arraysize() == -1: NilListenerCommand
  | .obj none => .error "!null"                -- NullListenerCommand
  | .obj (some o) => .single o
  | .cont l =>
    match s.lists l with
    | none => .ub                              -- `a.arraysize()` reads the freed entry
    | some rs => if 1 < rs.length then .group rs else .error "!cast"   -- listenerValue() of a Container
  | .arr rs => if 1 < rs.length then .group rs else .error "!cast"

def fanOut (cfg : Cfg) (s : State) (src : Src) (run : State → ObjId → Res) : Res :=
  match receivers s (evalSrc cfg s src) with
  | .error tok => .ok (say s tok)
  | .single o => run { s with log := s.log ++ [.visited o] } o
  | .group rs => fanLoop run rs s
  | .ub => .ub

/-- `OP_LOAD_FIELD_VAR` (`src.fld = x`): `a.listenerValue()` accepts a single listener only and
    rejects an array by its type (the pointer is not followed).  With the suggested repair
    (`cfg.fieldFan`) an array of more than one listener is fanned out over a copy, exactly like a
    command in `ExecCmdMethodCommon`. -/
def fieldSet (cfg : Cfg) (s : State) (src : Src) (x : Nat) : Res :=
  let setOne : State → ObjId → Res := fun st o => .ok { st with fld := upd st.fld o x }
  match evalSrc cfg s src with
  | .nil => .ok (say s "!nil")
  | .obj none => .ok (say s "!null")
  | .obj (some o) => setOne { s with log := s.log ++ [.visited o] } o
  | a =>
    if cfg.fieldFan then
      match receivers s a with
      | .group rs => fanLoop setOne rs s
      | .ub => .ub
      | _ => .ok (say s "!cast")
    else .ok (say s "!cast")

/-- what processing the setter event does on one listener -/
def applySetter (f : Setter) (st : State) (o : ObjId) : Res :=
  match f with
  | .target x => .ok { st with tgt := upd st.tgt o x }
  | .name n => .ok (setTargetName st o n)

/-- `OP_LOAD_FIELD_VAR` on a setter-backed field: the same dispatch as `fieldSet` (single listener:
    `loadTop`; group of more than one with the repair: `loadStoreTop` per member of the COPY —
    `array = a; array.CastConstArrayValue()` — with `if (member)` skipping members that died), the
    per-member effect is `executeSetter`.  `$g.targetname = "h"` empties the table's list of `g` while
    the loop runs; the loop walks the copy, so every member of the snapshot is still reached. -/
def fieldSetter (cfg : Cfg) (s : State) (src : Src) (f : Setter) : Res :=
  match evalSrc cfg s src with
  | .nil => .ok (say s "!nil")
  | .obj none => .ok (say s "!null")
  | .obj (some o) => applySetter f { s with log := s.log ++ [.visited o] } o
  | a =>
    if cfg.fieldFan then
      match receivers s a with
      | .group rs => fanLoop (applySetter f) rs s
      | .ub => .ub
      | _ => .ok (say s "!cast")
    else .ok (say s "!cast")

def stmt (cfg : Cfg) (s : State) : Stmt → Res
  | .act a => act cfg none s a
  | .fan src h => fanOut cfg (note cfg s (some src)) src (fun st o => acts cfg (some o) h st)
  | .fanName src n => fanOut cfg (note cfg s (some src)) src (fun st o => .ok (setTargetName st o n))
  | .fanDelete src => fanOut cfg (note cfg s (some src)) src (fun st o => .ok (destroy st o))
  | .fieldSet src x => fieldSet cfg (note cfg s (some src)) src x
  | .fieldSetter src f => fieldSetter cfg (note cfg s (some src)) src f

def run (cfg : Cfg) : List Stmt → State → Res
  | [], s => .ok s
  | st :: rest, s => (stmt cfg s st).bind (run cfg rest)

end Morfuse.Target
