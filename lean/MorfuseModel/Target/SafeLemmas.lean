import MorfuseModel.Target.Lemmas
/-! # with snapshot values no statement reads through a table entry (helpers for `C15_captured_value_safe`) -/
namespace Morfuse.Target

def Value.noCont : Value → Prop
  | .cont _ => False
  | _ => True

/-- no script variable holds a raw pointer into the table -/
def NoCont (s : State) : Prop := ∀ v, (s.vals v).noCont

/-- the statement completes (no undefined behaviour) and leaves no raw pointer behind -/
def Res.Safe (r : Res) : Prop := ∃ s', r = .ok s' ∧ NoCont s'

theorem Res.Safe_bind {r : Res} {f : State → Res} (h : r.Safe) (hf : ∀ s, NoCont s → (f s).Safe) :
    (r.bind f).Safe := by
  obtain ⟨s1, e, n1⟩ := h
  rw [e]; exact hf s1 n1

theorem ok_safe {s : State} (h : NoCont s) : (Res.ok s).Safe := ⟨s, rfl, h⟩

theorem evalTarget_noCont {cfg : Cfg} (hs : cfg.snapshot = true) (s : State) (n : Name) :
    (evalTarget cfg s n).noCont := by
  unfold evalTarget
  cases s.tbl n with
  | none => trivial
  | some l =>
    simp only [hs]
    split
    · trivial
    · split <;> trivial

theorem evalSrc_noCont {cfg : Cfg} (hs : cfg.snapshot = true) {s : State} (h : NoCont s) (src : Src) :
    (evalSrc cfg s src).noCont := by
  cases src with
  | name n => exact evalTarget_noCont hs s n
  | val v => exact h v

theorem Value.nullRef_noCont {a : Value} (h : a.noCont) (o : ObjId) : (a.nullRef o).noCont := by
  cases a <;> first | trivial | exact h

theorem say_noCont {s : State} (h : NoCont s) (t : String) : NoCont (say s t) := h

theorem sayId_noCont {s : State} (h : NoCont s) (tag : String) (r : WeakRef) : NoCont (sayId s tag r) := by
  unfold sayId; split <;> exact h

theorem foldl_sayId_noCont (rs : List WeakRef) {s : State} (h : NoCont s) :
    NoCont (rs.foldl (fun st r => sayId st "e" r) s) := by
  induction rs generalizing s with
  | nil => exact h
  | cons a t ih => exact ih (sayId_noCont h _ a)

theorem setTargetName_noCont {s : State} (h : NoCont s) (o : ObjId) (n : Name) : NoCont (setTargetName s o n) := by
  intro v; rw [(setTargetName_fields s o n).2.2.2.2.1]; exact h v

theorem destroy_noCont {s : State} (h : NoCont s) (o : ObjId) : NoCont (destroy s o) := by
  intro v; rw [destroy_vals]; exact Value.nullRef_noCont (h v) o

theorem spawnObj_noCont {s : State} (h : NoCont s) : NoCont (spawnObj s) := h

theorem size_some {s : State} {a : Value} (h : a.noCont) : ∃ z, a.size s = some z := by
  cases a with
  | nil => exact ⟨_, rfl⟩
  | obj r => exact ⟨_, rfl⟩
  | cont l => exact absurd h id
  | arr rs => exact ⟨_, rfl⟩

theorem elems_some {s : State} {a : Value} (h : a.noCont) : ∃ z, a.elems s = some z := by
  cases a with
  | nil => exact ⟨_, rfl⟩
  | obj r => cases r <;> exact ⟨_, rfl⟩
  | cont l => exact absurd h id
  | arr rs => exact ⟨_, rfl⟩

theorem sayIndex_safe {s : State} (h : NoCont s) {a : Value} (ha : a.noCont) (k : Nat) : (sayIndex s a k).Safe := by
  unfold sayIndex
  cases a with
  | nil => exact ok_safe h
  | obj r => simp only; split <;> first | exact ok_safe (sayId_noCont h _ _) | exact ok_safe h
  | cont l => exact absurd ha id
  | arr rs => simp only; split <;> first | exact ok_safe (sayId_noCont h _ _) | exact ok_safe h

theorem actCore_safe {cfg : Cfg} (hs : cfg.snapshot = true) (self : Option ObjId) {s : State} (h : NoCont s) (a : Act) :
    (actCore cfg self s a).Safe := by
  cases a with
  | spawn n =>
    simp only [actCore]
    split
    · exact ok_safe h
    · split
      · exact ok_safe (spawnObj_noCont h)
      · exact ok_safe (say_noCont (setTargetName_noCont (spawnObj_noCont h) _ _) _)
  | setName w n =>
    simp only [actCore]
    split
    · exact ok_safe h
    · exact ok_safe h
    · exact ok_safe (setTargetName_noCont h _ _)
  | delete w =>
    simp only [actCore]
    split
    · exact ok_safe h
    · exact ok_safe h
    · exact ok_safe (destroy_noCont h _)
  | mark w =>
    simp only [actCore]
    split <;> exact ok_safe h
  | hello =>
    simp only [actCore]
    split <;> exact ok_safe h
  | capture v n =>
    refine ok_safe ?_
    intro k
    show (upd s.vals v (evalTarget cfg s n) k).noCont
    by_cases e : k = v
    · subst e; rw [upd_same]; exact evalTarget_noCont hs s n
    · rw [upd_other _ _ e]; exact h k
  | copy v w =>
    refine ok_safe ?_
    intro k
    show (upd s.vals v (s.vals w) k).noCont
    by_cases e : k = v
    · subst e; rw [upd_same]; exact h w
    · rw [upd_other _ _ e]; exact h k
  | query src =>
    simp only [actCore]
    obtain ⟨z, hz⟩ := size_some (s := s) (evalSrc_noCont hs h src)
    obtain ⟨y, hy⟩ := elems_some (s := s) (evalSrc_noCont hs h src)
    rw [hz, hy]
    exact ok_safe (foldl_sayId_noCont _ h)
  | size src =>
    simp only [actCore]
    obtain ⟨z, hz⟩ := size_some (s := s) (evalSrc_noCont hs h src)
    rw [hz]
    exact ok_safe h
  | index src k => exact sayIndex_safe h (evalSrc_noCont hs h src) k

theorem note_noCont (cfg : Cfg) {s : State} (h : NoCont s) (x : Option Src) : NoCont (note cfg s x) := by
  unfold note
  split
  · split
    · exact say_noCont h _
    · exact h
  · exact h

theorem act_safe {cfg : Cfg} (hs : cfg.snapshot = true) (self : Option ObjId) {s : State} (h : NoCont s) (a : Act) :
    (act cfg self s a).Safe := actCore_safe hs self (note_noCont cfg h _) a

theorem acts_safe {cfg : Cfg} (hs : cfg.snapshot = true) (self : Option ObjId) (l : List Act) {s : State}
    (h : NoCont s) : (acts cfg self l s).Safe := by
  induction l generalizing s with
  | nil => exact ok_safe h
  | cons a t ih => exact Res.Safe_bind (act_safe hs self h a) (fun s' h' => ih h')

theorem fanLoop_safe {run : State → ObjId → Res} (hrun : ∀ s o, NoCont s → (run s o).Safe)
    (rs : List WeakRef) {s : State} (h : NoCont s) : (fanLoop run rs s).Safe := by
  induction rs generalizing s with
  | nil => exact ok_safe h
  | cons r t ih =>
    cases r with
    | none => exact ih h
    | some o =>
      simp only [fanLoop]
      split
      · exact Res.Safe_bind (hrun _ o h) (fun s' h' => ih h')
      · exact ih h

theorem receivers_ne_ub {s : State} {a : Value} (ha : a.noCont) : receivers s a ≠ .ub := by
  cases a with
  | nil => simp [receivers]
  | obj r => cases r <;> simp [receivers]
  | cont l => exact absurd ha id
  | arr rs => simp only [receivers]; split <;> simp

theorem fanOut_safe {cfg : Cfg} (hs : cfg.snapshot = true) {run : State → ObjId → Res}
    (hrun : ∀ s o, NoCont s → (run s o).Safe) (src : Src) {s : State} (h : NoCont s) :
    (fanOut cfg s src run).Safe := by
  unfold fanOut
  split
  · exact ok_safe h
  · exact hrun _ _ h
  · exact fanLoop_safe hrun _ h
  · rename_i e; exact absurd e (receivers_ne_ub (evalSrc_noCont hs h src))

theorem fieldSet_safe {cfg : Cfg} (hs : cfg.snapshot = true) (src : Src) (x : Nat) {s : State} (h : NoCont s) :
    (fieldSet cfg s src x).Safe := by
  have hset : ∀ (st : State) (o : ObjId), NoCont st → (Res.ok { st with fld := upd st.fld o x }).Safe :=
    fun st o hst => ok_safe hst
  unfold fieldSet
  simp only
  split
  · exact ok_safe h
  · exact ok_safe h
  · exact hset { s with log := s.log ++ [.visited _] } _ h
  · split
    · split
      · exact fanLoop_safe hset _ h
      · rename_i e; exact absurd e (receivers_ne_ub (evalSrc_noCont hs h src))
      · exact ok_safe h
    · exact ok_safe h

theorem fieldSetter_safe {cfg : Cfg} (hs : cfg.snapshot = true) (src : Src) (f : Setter) {s : State} (h : NoCont s) :
    (fieldSetter cfg s src f).Safe := by
  have hset : ∀ (st : State) (o : ObjId), NoCont st → (applySetter f st o).Safe := by
    intro st o hst
    cases f with
    | target x => exact ok_safe hst
    | name n => exact ok_safe (setTargetName_noCont hst o n)
  unfold fieldSetter
  split
  · exact ok_safe h
  · exact ok_safe h
  · exact hset { s with log := s.log ++ [.visited _] } _ h
  · split
    · split
      · exact fanLoop_safe hset _ h
      · rename_i e; exact absurd e (receivers_ne_ub (evalSrc_noCont hs h src))
      · exact ok_safe h
    · exact ok_safe h

theorem stmt_safe {cfg : Cfg} (hs : cfg.snapshot = true) {s : State} (h : NoCont s) (st : Stmt) :
    (stmt cfg s st).Safe := by
  cases st with
  | act a => exact act_safe hs none h a
  | fan src hd => exact fanOut_safe hs (fun st o hst => acts_safe hs (some o) hd hst) src (note_noCont cfg h _)
  | fanName src n =>
    exact fanOut_safe hs (run := fun st o => .ok (setTargetName st o n))
      (fun st o hst => ok_safe (setTargetName_noCont hst o n)) src (note_noCont cfg h _)
  | fanDelete src =>
    exact fanOut_safe hs (run := fun st o => .ok (destroy st o)) (fun st o hst => ok_safe (destroy_noCont hst o)) src (note_noCont cfg h _)
  | fieldSet src x => exact fieldSet_safe hs src x (note_noCont cfg h _)
  | fieldSetter src f => exact fieldSetter_safe hs src f (note_noCont cfg h _)

theorem run_safe {cfg : Cfg} (hs : cfg.snapshot = true) (l : List Stmt) {s : State} (h : NoCont s) :
    (run cfg l s).Safe := by
  induction l generalizing s with
  | nil => exact ok_safe h
  | cons a t ih => exact Res.Safe_bind (stmt_safe hs h a) (fun s' h' => ih h')

end Morfuse.Target
