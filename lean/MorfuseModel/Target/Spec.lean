import MorfuseModel.Target.Model
/-!
# Specification of `$name`: who bears a name, as a function of the event log alone

`bearers log n` is the list of objects that bear target name `n` after the primitive events `log`,
in naming order: a `named o n` event removes `o` from wherever it is and appends it to `n`; a
`destroyed o` event removes `o`; nothing else changes anything.  It never looks at the model's
table, lists or components.
-/
namespace Morfuse.Target

def specStep (b : Name → List ObjId) : Ev → Name → List ObjId
  | .named o n => fun m => if m = n then (b m).filter (· ≠ o) ++ [o] else (b m).filter (· ≠ o)
  | .destroyed o => fun m => (b m).filter (· ≠ o)
  | .spawned _ => b
  | .visited _ => b

def bearers (log : List Ev) : Name → List ObjId := log.foldl specStep (fun _ => [])

/-- the objects on which a fanned-out command / field assignment was executed, in order -/
def visits : List Ev → List ObjId
  | [] => []
  | .visited o :: rest => o :: visits rest
  | _ :: rest => visits rest

/-- declarative reading of the log: is `o` alive after `log`? -/
def aliveIn (log : List Ev) (o : ObjId) : Bool :=
  log.foldl (fun a e => match e with
    | .spawned p => if p = o then true else a
    | .destroyed p => if p = o then false else a
    | _ => a) false

/-- declarative reading of the log: the name `o` was last given (`none`: never named) -/
def lastName (log : List Ev) (o : ObjId) : Option Name :=
  log.foldl (fun a e => match e with
    | .named p n => if p = o then some n else a
    | _ => a) none

end Morfuse.Target
