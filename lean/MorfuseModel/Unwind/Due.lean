import MorfuseModel.Unwind.Nested
import MorfuseModel.Sched.TimerLemmas
/-!
# Unwind model — due timer elements, and the two clocks a host call never moves

`dueCount`: the number of timer elements `ExecuteRunning` would resume now (`due ≤ m_time`).  `scaledTime` and
`m_time` are only written by `ScriptContext::Execute` before it calls `ExecuteRunning`; no step changes them.
-/
namespace Morfuse.Unwind
open Morfuse.Sched

def dueCount (tm : Timer) : Nat := (tm.elems.filter (fun e => decide (e.2 ≤ tm.mtime))).length

theorem filter_eraseIdx_length {α : Type} (p : α → Bool) : ∀ (l : List α) (i : Nat) (x : α), l[i]? = some x → p x = true →
    ((l.eraseIdx i).filter p).length + 1 = (l.filter p).length
  | [], _, _, h, _ => by simp at h
  | a :: l, 0, x, h, hp => by
    simp at h; subst h; simp [List.filter_cons, hp]
  | a :: l, i + 1, x, h, hp => by
    have ih := filter_eraseIdx_length p l i x (by simpa using h) hp
    simp only [List.eraseIdx_cons_succ, List.filter_cons]
    by_cases hpa : p a = true
    · simp only [hpa, if_true, List.length_cons]; omega
    · simp only [hpa, Bool.false_eq_true, if_false]; exact ih

theorem filter_eraseIdx_le {α : Type} (p : α → Bool) (l : List α) (i : Nat) :
    ((l.eraseIdx i).filter p).length ≤ (l.filter p).length :=
  ((List.eraseIdx_sublist l i).filter p).length_le

theorem dueCount_remove (tm : Timer) (t : Nat) : dueCount (tm.remove t) ≤ dueCount tm := by
  unfold Timer.remove
  split
  · exact filter_eraseIdx_le _ _ _
  · exact Nat.le_refl _

theorem dueCount_add_later (tm : Timer) (t d : Nat) (h : tm.mtime < d) : dueCount (tm.add t d) = dueCount tm := by
  have : ¬ d ≤ tm.mtime := by omega
  simp [dueCount, Timer.add, List.filter_append, this]

theorem dueCount_next_some {tm tm' : Timer} {e d : Nat} (h : tm.next = (some (e, d), tm')) : dueCount tm' + 1 = dueCount tm := by
  obtain ⟨i, hi, hd, _, htm⟩ := Timer.next_some h
  rw [htm]
  exact filter_eraseIdx_length _ tm.elems i (e, d) hi (by simpa using hd)

theorem dueCount_next_none {tm tm' : Timer} (h : tm.next = (none, tm')) : dueCount tm' = dueCount tm := by
  obtain ⟨_, htm⟩ := Timer.next_none h
  rw [htm]; rfl

theorem remove_mtime (tm : Timer) (t : Nat) : (tm.remove t).mtime = tm.mtime := by
  unfold Timer.remove; split <;> rfl

theorem stopThread_due (s : St) (t : Tid) : dueCount (stopThread s t).timer ≤ dueCount s.timer := by
  unfold stopThread
  split
  · split
    · exact dueCount_remove _ _
    · exact Nat.le_refl _
    · exact Nat.le_refl _
  · exact Nat.le_refl _

theorem stopThread_mtime (s : St) (t : Tid) : (stopThread s t).timer.mtime = s.timer.mtime := by
  unfold stopThread
  split
  · split
    · exact remove_mtime _ _
    · rfl
    · rfl
  · rfl

@[simp] theorem stopThread_scaled (s : St) (t : Tid) : (stopThread s t).scaled = s.scaled := by
  unfold stopThread; split <;> (try split) <;> rfl

theorem endThread_due {s : St} (h : NoJoin s.threads) (t : Tid) : dueCount (endThread s t).timer ≤ dueCount s.timer := by
  unfold endThread
  split
  · exact Nat.le_refl _
  · rename_i th hth
    obtain ⟨a, ha⟩ := find_mem hth
    have hj : th.joinedBy = none := h _ ha
    simp only [hj]
    exact stopThread_due s t

/-! ### no step moves `scaledTime` or `m_time` -/

/-- the pair the invariance is about -/
def clocks (s : St) : Nat × Nat := (s.scaled, s.timer.mtime)

theorem next_mtime (tm : Timer) : tm.next.2.mtime = tm.mtime := by
  unfold Timer.next; split <;> rfl

theorem stopThread_clocks (s : St) (t : Tid) : clocks (stopThread s t) = clocks s := by
  simp [clocks, stopThread_mtime]

theorem startedWaitFor_clocks (s : St) (t : Tid) : clocks (startedWaitFor s t) = clocks s := by
  simp [clocks, startedWaitFor, stopThread_mtime]

theorem endThread_clocks (s : St) (t : Tid) : clocks (endThread s t) = clocks s := by
  unfold endThread
  split
  · rfl
  · simp only
    split
    · split
      · split
        · simp [clocks, stopThread_mtime, Timer.add]
        · simp [clocks, stopThread_mtime]
      · simp [clocks, stopThread_mtime]
    · simp [clocks, stopThread_mtime]

theorem enterVM_clocks (E : Env) (s : St) (t : Tid) : clocks (enterVM E s t) = clocks s := by
  unfold enterVM; (repeat' split) <;> simp [clocks, tick]

theorem enterSei_clocks (E : Env) (s : St) (t : Tid) : clocks (enterSei E s t) = clocks s := by
  unfold enterSei
  rw [enterVM_clocks]
  simp [clocks, stopThread_mtime]

theorem execOp_clocks (E : Env) (s : St) (t : Tid) (th : Thr) (dl ct n : Nat) (rest : List Frame) (op : Op) :
    clocks (execOp E s t th dl ct n rest op) = clocks s := by
  cases op <;> simp only [execOp]
  case nop => rfl
  case jmp => rfl
  case setc => rfl
  case loopTest => split <;> rfl
  case print => rfl
  case raise => rfl
  case done => exact endThread_clocks s t
  case wait => simp [clocks, stopThread_mtime, Timer.add]
  case waittill => split <;> simp [clocks, setUb, startedWaitFor, stopThread_mtime]
  case notify => rfl
  case spawn =>
    split
    · rfl
    · split
      · rw [enterSei_clocks]
        simp only [newThread]
        split <;> simp [clocks, startedWaitFor, stopThread_mtime]
      · rfl

theorem step_clocks (E : Env) (s : St) : clocks (step E s) = clocks s := by
  unfold step
  split
  · rfl
  split
  · rfl
  rename_i f rest hst
  split
  · rename_i e he
    cases f <;> cases e <;> simp only [unwindFrame, vmAbort, vmExtend] <;> (try split) <;> simp [clocks, tick]
  · cases f with
    | vm t dl ct post n =>
      simp only [runFrame]
      split
      · split <;> simp [clocks, tick]
      · split
        · simp [clocks, exitVM]
        · split
          · simp [clocks, exitVM]
          · exact execOp_clocks E s t _ dl ct n rest _
    | sei t saved => simp only [runFrame, execRunningCall]; (repeat' split) <;> simp [clocks]
    | thrExec => simp [runFrame, clocks]
    | notify p =>
      simp only [runFrame]
      split
      · simp [clocks]
      · split
        · simp [clocks]
        · split
          · split
            · rw [enterSei_clocks]; simp [clocks]
            · simp [clocks]
          · simp [clocks]
    | execRunning =>
      simp only [runFrame]
      split
      · rename_i tm hnx
        have := next_mtime s.timer; rw [hnx] at this
        simp [clocks]; exact this
      · rename_i t d tm hnx
        have := next_mtime s.timer; rw [hnx] at this
        split
        · rw [enterVM_clocks]; simp [clocks]; exact this
        · simp [clocks, setUb]
    | ctxExec => simp [runFrame, clocks]

end Morfuse.Unwind
