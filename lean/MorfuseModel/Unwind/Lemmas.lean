import MorfuseModel.Unwind.Model
/-!
# Unwind model — invariants and step lemmas (used by Props/C14.lean)
-/
namespace Morfuse.Unwind

/-! ### helpers leave the control fields alone -/
section fields
variable (E : Env) (s : St) (t : Tid)

@[simp] theorem tick_stack : (tick E s).stack = s.stack := rfl
@[simp] theorem tick_exc : (tick E s).exc = s.exc := rfl
@[simp] theorem tick_ub : (tick E s).ub = s.ub := rfl
@[simp] theorem tick_depth : (tick E s).depth = s.depth := rfl
@[simp] theorem tick_cur : (tick E s).cur = s.cur := rfl
@[simp] theorem tick_prev : (tick E s).prev = s.prev := rfl
@[simp] theorem tick_threads : (tick E s).threads = s.threads := rfl
@[simp] theorem tick_timer : (tick E s).timer = s.timer := rfl
@[simp] theorem tick_now : (tick E s).now = s.now + E.inc s.reads := rfl


@[simp] theorem stopThread_stack : (stopThread s t).stack = s.stack := by
  unfold stopThread; split <;> (try split) <;> rfl
@[simp] theorem stopThread_exc : (stopThread s t).exc = s.exc := by
  unfold stopThread; split <;> (try split) <;> rfl
@[simp] theorem stopThread_ub : (stopThread s t).ub = s.ub := by
  unfold stopThread; split <;> (try split) <;> rfl
@[simp] theorem stopThread_depth : (stopThread s t).depth = s.depth := by
  unfold stopThread; split <;> (try split) <;> rfl
@[simp] theorem stopThread_cur : (stopThread s t).cur = s.cur := by
  unfold stopThread; split <;> (try split) <;> rfl
@[simp] theorem stopThread_prev : (stopThread s t).prev = s.prev := by
  unfold stopThread; split <;> (try split) <;> rfl
@[simp] theorem stopThread_now : (stopThread s t).now = s.now := by
  unfold stopThread; split <;> (try split) <;> rfl
@[simp] theorem stopThread_reads : (stopThread s t).reads = s.reads := by
  unfold stopThread; split <;> (try split) <;> rfl

@[simp] theorem startedWaitFor_stack : (startedWaitFor s t).stack = s.stack := by simp [startedWaitFor]
@[simp] theorem startedWaitFor_exc : (startedWaitFor s t).exc = s.exc := by simp [startedWaitFor]
@[simp] theorem startedWaitFor_ub : (startedWaitFor s t).ub = s.ub := by simp [startedWaitFor]
@[simp] theorem startedWaitFor_depth : (startedWaitFor s t).depth = s.depth := by simp [startedWaitFor]
@[simp] theorem startedWaitFor_cur : (startedWaitFor s t).cur = s.cur := by simp [startedWaitFor]
@[simp] theorem startedWaitFor_now : (startedWaitFor s t).now = s.now := by simp [startedWaitFor]
@[simp] theorem startedWaitFor_reads : (startedWaitFor s t).reads = s.reads := by simp [startedWaitFor]

@[simp] theorem endThread_stack : (endThread s t).stack = s.stack := by
  unfold endThread; split <;> simp <;> (repeat' split) <;> simp
@[simp] theorem endThread_exc : (endThread s t).exc = s.exc := by
  unfold endThread; split <;> simp <;> (repeat' split) <;> simp
@[simp] theorem endThread_ub : (endThread s t).ub = s.ub := by
  unfold endThread; split <;> simp <;> (repeat' split) <;> simp
@[simp] theorem endThread_depth : (endThread s t).depth = s.depth := by
  unfold endThread; split <;> simp <;> (repeat' split) <;> simp
@[simp] theorem endThread_now : (endThread s t).now = s.now := by
  unfold endThread; split <;> simp <;> (repeat' split) <;> simp
@[simp] theorem endThread_reads : (endThread s t).reads = s.reads := by
  unfold endThread; split <;> simp <;> (repeat' split) <;> simp
/-- ending a thread can only clear `m_CurrentThread` (it is a `SafePtr`) -/
theorem endThread_cur : (endThread s t).cur = s.cur ∨ (endThread s t).cur = none := by
  unfold endThread; split <;> simp <;> (repeat' split) <;> simp_all

end fields

/-! ### entering a VM / ScriptExecuteInternal -/

theorem enterVM_over (E : Env) (s : St) (t : Tid) (h : s.depth > E.cfg.maxDepth) :
    (enterVM E s t).stack = s.stack ∧ (enterVM E s t).depth = s.depth ∧ (enterVM E s t).exc = some .depth ∧
    (enterVM E s t).cur = s.cur ∧ (enterVM E s t).ub = s.ub ∧ (enterVM E s t).prev = s.prev ∧
    (enterVM E s t).now = s.now ∧ (enterVM E s t).reads = s.reads := by
  simp [enterVM, h]

theorem enterVM_ok (E : Env) (s : St) (t : Tid) (h : ¬ s.depth > E.cfg.maxDepth) :
    ∃ dl ct, (enterVM E s t).stack = .vm t dl ct false 0 :: s.stack ∧ (enterVM E s t).depth = s.depth + 1 ∧
      (enterVM E s t).exc = s.exc ∧ (enterVM E s t).cur = s.cur ∧ (enterVM E s t).ub = s.ub ∧
      (enterVM E s t).prev = s.prev ∧ s.now ≤ (enterVM E s t).now ∧
      (dl ≠ 0 → E.cfg.maxExec ≠ 0 ∧ ∃ r0, dl = r0 + E.cfg.maxExec ∧ s.now ≤ r0 ∧ r0 + E.inc s.reads = ct ∧
         ct + E.inc (s.reads + 1) = (enterVM E s t).now) := by
  unfold enterVM
  rw [if_neg h]
  by_cases hm : E.cfg.maxExec ≠ 0
  · rw [if_pos hm]
    refine ⟨_, _, rfl, rfl, rfl, rfl, rfl, rfl, ?_, ?_⟩
    · simp [tick]; omega
    · intro _; exact ⟨hm, s.now, by simp, Nat.le_refl _, by simp [tick], by simp [tick]⟩
  · rw [if_neg hm]
    refine ⟨_, _, rfl, rfl, rfl, rfl, rfl, rfl, ?_, ?_⟩
    · simp [tick]
    · intro h0; exact absurd rfl h0

def vmCount : List Frame → Nat
  | [] => 0
  | .vm _ _ _ _ _ :: r => vmCount r + 1
  | .thrExec :: r => vmCount r
  | .sei _ _ :: r => vmCount r
  | .notify _ :: r => vmCount r
  | .execRunning :: r => vmCount r
  | .ctxExec :: r => vmCount r

/-- `m_CurrentThread` will be null once every frame has been left (normally or by an exception):
    the outermost `ScriptExecuteInternal` frame restores null, or an `ExecuteRunning` frame clears it -/
def finalNone : List Frame → Option Tid → Prop
  | [], cur => cur = none
  | .sei _ saved :: r, _ => finalNone r saved
  | .execRunning :: r, _ => finalNone r none
  | .vm _ _ _ _ _ :: r, cur => finalNone r cur
  | .thrExec :: r, cur => finalNone r cur
  | .notify _ :: r, cur => finalNone r cur
  | .ctxExec :: r, cur => finalNone r cur

theorem finalNone_mono : ∀ (l : List Frame) (c : Option Tid), finalNone l c → finalNone l none
  | [], c, h => by simp [finalNone]
  | .sei _ _ :: r, c, h => by simpa [finalNone] using h
  | .execRunning :: r, c, h => by simpa [finalNone] using h
  | .vm _ _ _ _ _ :: r, c, h => by simp only [finalNone] at *; exact finalNone_mono r c h
  | .thrExec :: r, c, h => by simp only [finalNone] at *; exact finalNone_mono r c h
  | .notify _ :: r, c, h => by simp only [finalNone] at *; exact finalNone_mono r c h
  | .ctxExec :: r, c, h => by simp only [finalNone] at *; exact finalNone_mono r c h

theorem finalNone_safe (l : List Frame) (s : St) (c : Option Tid) (h : finalNone l c) : finalNone l (safe s c) := by
  unfold safe
  cases c with
  | none => simpa using h
  | some x =>
    simp only [Option.filter]
    split
    · exact h
    · exact finalNone_mono l _ h

/-- the control invariant: the nesting counter counts the live `ScriptVM::Execute` frames, and
    the chain of saved `currentThread` values ends in null -/
structure Inv (d0 : Nat) (s : St) : Prop where
  depth : s.depth = d0 + vmCount s.stack
  cur : finalNone s.stack s.cur

theorem enterVM_inv (E : Env) (s : St) (t : Tid) (d0 : Nat) (h : Inv d0 s) : Inv d0 (enterVM E s t) := by
  by_cases hd : s.depth > E.cfg.maxDepth
  · obtain ⟨h1, h2, _, h4, _⟩ := enterVM_over E s t hd
    exact ⟨by rw [h1, h2]; exact h.depth, by rw [h1, h4]; exact h.cur⟩
  · obtain ⟨dl, ct, h1, h2, _, h4, _⟩ := enterVM_ok E s t hd
    refine ⟨?_, ?_⟩
    · rw [h1, h2, vmCount, h.depth]; omega
    · rw [h1, h4, finalNone]; exact h.cur

theorem enterSei_inv (E : Env) (s : St) (t : Tid) (d0 : Nat) (h : Inv d0 s) : Inv d0 (enterSei E s t) := by
  unfold enterSei
  apply enterVM_inv
  refine ⟨?_, ?_⟩
  · simp [vmCount]; exact h.depth
  · simp [finalNone]; exact h.cur

theorem unwindFrame_inv (E : Env) (s : St) (d0 : Nat) (e : Exc) (f : Frame) (rest : List Frame)
    (hst : s.stack = f :: rest) (h : Inv d0 s) : Inv d0 (unwindFrame E s e f rest) := by
  have hd := h.depth
  have hc := h.cur
  rw [hst] at hd hc
  cases f with
  | vm t dl ct post n =>
    simp only [vmCount, finalNone] at hd hc
    cases e <;> simp only [unwindFrame]
    · split
      · exact ⟨by simp [vmAbort]; omega, by simpa [vmAbort] using hc⟩
      · exact ⟨by simp [vmExtend, vmCount]; omega, by simpa [vmExtend, finalNone] using hc⟩
    · exact ⟨by simp [vmAbort]; omega, by simpa [vmAbort] using hc⟩
    · exact ⟨by simp [vmAbort]; omega, by simpa [vmAbort] using hc⟩
    · exact ⟨by simp [vmCount]; omega, by simpa [finalNone] using hc⟩
  | sei t saved =>
    simp only [vmCount, finalNone] at hd hc
    simp only [unwindFrame]
    exact ⟨by simpa using hd, by simpa using finalNone_safe rest s saved hc⟩
  | thrExec =>
    simp only [vmCount, finalNone] at hd hc
    simp only [unwindFrame]
    split
    · exact ⟨by simpa using hd, by simpa using hc⟩
    · exact ⟨by simpa using hd, by simpa using hc⟩
  | notify p =>
    simp only [vmCount, finalNone] at hd hc
    simp only [unwindFrame]
    exact ⟨by simpa using hd, by simpa using hc⟩
  | execRunning =>
    simp only [vmCount, finalNone] at hd hc
    simp only [unwindFrame]
    exact ⟨by simpa using hd, by simpa using hc⟩
  | ctxExec =>
    simp only [vmCount, finalNone] at hd hc
    simp only [unwindFrame]
    exact ⟨by simpa using hd, by simpa using hc⟩

theorem execOp_inv (E : Env) (s : St) (d0 : Nat) (t : Tid) (th : Thr) (dl ct n : Nat) (rest : List Frame) (op : Op)
    (hst : s.stack = .vm t dl ct false n :: rest) (h : Inv d0 s) : Inv d0 (execOp E s t th dl ct n rest op) := by
  have hd := h.depth
  have hc := h.cur
  rw [hst] at hd hc
  simp only [vmCount, finalNone] at hd hc
  cases op <;> simp only [execOp]
  · exact ⟨by simp [vmCount]; omega, by simpa [finalNone] using hc⟩
  · exact ⟨by simp [vmCount]; omega, by simpa [finalNone] using hc⟩
  · exact ⟨by simp [vmCount]; omega, by simpa [finalNone] using hc⟩
  · split
    · exact ⟨by simp [vmCount]; omega, by simpa [finalNone] using hc⟩
    · exact ⟨by simp [vmCount]; omega, by simpa [finalNone] using hc⟩
  · -- spawn
    split
    · exact ⟨by simp [setUb, hst, vmCount]; omega, by simpa [setUb, hst, finalNone] using hc⟩
    · split
      · apply enterSei_inv
        refine ⟨?_, ?_⟩
        · simp only [newThread]; split <;> simp [vmCount] <;> omega
        · simp only [newThread]; split <;> simpa [finalNone] using hc
      · exact ⟨by simp [vmCount]; omega, by simpa [finalNone] using hc⟩
  · exact ⟨by simp [vmCount]; omega, by simpa [finalNone] using hc⟩
  · split
    · exact ⟨by simp [setUb, hst, vmCount]; omega, by simpa [setUb, hst, finalNone] using hc⟩
    · exact ⟨by simp [vmCount]; omega, by simpa [finalNone] using hc⟩
  · exact ⟨by simp [vmCount]; omega, by simpa [finalNone] using hc⟩
  · exact ⟨by simp [vmCount]; omega, by simpa [finalNone] using hc⟩
  · exact ⟨by simp [vmCount]; omega, by simpa [finalNone] using hc⟩
  · refine ⟨by simp [vmCount]; omega, ?_⟩
    simp only [finalNone]
    rcases endThread_cur s t with h1 | h1
    · rw [h1]; exact hc
    · rw [h1]; exact finalNone_mono _ _ hc

theorem runFrame_inv (E : Env) (s : St) (d0 : Nat) (f : Frame) (rest : List Frame)
    (hst : s.stack = f :: rest) (h : Inv d0 s) : Inv d0 (runFrame E s f rest) := by
  have hd := h.depth
  have hc := h.cur
  rw [hst] at hd hc
  cases f with
  | vm t dl ct post n =>
    simp only [vmCount, finalNone] at hd hc
    simp only [runFrame]
    split
    · split
      · exact ⟨by simp [hst, vmCount]; omega, by simpa [hst, finalNone] using hc⟩
      · exact ⟨by simp [vmCount]; omega, by simpa [finalNone] using hc⟩
    · rename_i hpost
      have hp : post = false := by simpa using hpost
      subst hp
      split
      · exact ⟨by simp [exitVM]; omega, by simpa [exitVM] using hc⟩
      · split
        · exact ⟨by simp [exitVM]; omega, by simpa [exitVM] using hc⟩
        · exact execOp_inv E s d0 t _ dl ct n rest _ hst h
  | sei t saved =>
    simp only [vmCount, finalNone] at hd hc
    simp only [runFrame]
    unfold execRunningCall
    have hc' := finalNone_safe rest s saved hc
    split
    · exact ⟨by simpa using hd, by simpa using hc'⟩
    · split
      · exact ⟨by simpa [vmCount] using hd, by simpa [finalNone] using finalNone_mono _ _ hc'⟩
      · exact ⟨by simpa using hd, by simpa using hc'⟩
  | thrExec =>
    simp only [vmCount, finalNone] at hd hc
    simp only [runFrame]
    exact ⟨by simpa using hd, by simpa using hc⟩
  | notify p =>
    simp only [vmCount, finalNone] at hd hc
    simp only [runFrame]
    split
    · exact ⟨by simpa using hd, by simpa using hc⟩
    · split
      · exact ⟨by simpa [vmCount] using hd, by simpa [finalNone] using hc⟩
      · split
        · split
          · apply enterSei_inv
            exact ⟨by simpa [vmCount] using hd, by simpa [finalNone] using hc⟩
          · exact ⟨by simpa [vmCount] using hd, by simpa [finalNone] using hc⟩
        · exact ⟨by simpa [vmCount] using hd, by simpa [finalNone] using hc⟩
  | execRunning =>
    simp only [vmCount, finalNone] at hd hc
    simp only [runFrame]
    split
    · exact ⟨by simpa using hd, by simpa using hc⟩
    · split
      · apply enterVM_inv
        exact ⟨by simpa [hst, vmCount] using hd, by simpa [hst, finalNone] using hc⟩
      · exact ⟨by simpa [setUb, hst, vmCount] using hd, by simpa [setUb, hst, finalNone] using hc⟩
  | ctxExec =>
    simp only [vmCount, finalNone] at hd hc
    simp only [runFrame]
    exact ⟨by simpa using hd, by simpa using hc⟩

theorem step_inv (E : Env) (s : St) (d0 : Nat) (h : Inv d0 s) : Inv d0 (step E s) := by
  unfold step
  split
  · exact h
  · split
    · exact h
    · rename_i f rest hst
      split
      · exact unwindFrame_inv E s d0 _ f rest hst h
      · exact runFrame_inv E s d0 f rest hst h

theorem run_inv (E : Env) (d0 : Nat) : ∀ (k : Nat) (s : St), Inv d0 s → Inv d0 (run E k s)
  | 0, _, h => h
  | k + 1, s, h => run_inv E d0 k (step E s) (step_inv E s d0 h)

/-! ### an abort in flight reaches the host: one frame per step, no frame swallows it -/

theorem unwind_step (E : Env) (s : St) (e : Exc) (f : Frame) (rest : List Frame)
    (hst : s.stack = f :: rest) (he : s.exc = some e) (ha : e.isAbort = true)
    (hp : e = .overflow → E.cfg.prot = true) (hub : s.ub = false) :
    (step E s).stack = rest ∧ (step E s).exc = some e ∧ (step E s).ub = false := by
  unfold step
  simp only [hub, hst, he]
  cases f with
  | vm t dl ct post n =>
    cases e <;> simp only [unwindFrame]
    · simp [hp rfl, vmAbort, he, hub]
    · simp [vmAbort, he, hub]
    · simp [vmAbort, he, hub]
    · simp [Exc.isAbort] at ha
  | sei t saved => simp [unwindFrame, he, hub]
  | thrExec => simp [unwindFrame, ha, he, hub]
  | notify p => simp [unwindFrame, he, hub]
  | execRunning => simp [unwindFrame, he, hub]
  | ctxExec => simp [unwindFrame, he, hub]

theorem unwind_run (E : Env) (e : Exc) (ha : e.isAbort = true) (hp : e = .overflow → E.cfg.prot = true) :
    ∀ (l : List Frame) (s : St), s.stack = l → s.exc = some e → s.ub = false →
      (run E l.length s).stack = [] ∧ (run E l.length s).exc = some e ∧ (run E l.length s).ub = false
  | [], s, hst, he, hub => by simp [run, hst, he, hub]
  | f :: rest, s, hst, he, hub => by
    obtain ⟨h1, h2, h3⟩ := unwind_step E s e f rest hst he ha hp hub
    simpa [run] using unwind_run E e ha hp rest (step E s) h1 h2 h3

/-! ### the nesting counter -/

theorem enterVM_depth (E : Env) (s : St) (t : Tid) (d : Nat) (h : s.depth = d) :
    (enterVM E s t).depth ≤ d ∨ ((enterVM E s t).depth = d + 1 ∧ d ≤ E.cfg.maxDepth) := by
  subst h
  by_cases hd : s.depth > E.cfg.maxDepth
  · exact Or.inl (Nat.le_of_eq (enterVM_over E s t hd).2.1)
  · obtain ⟨_, _, _, h2, _⟩ := enterVM_ok E s t hd
    exact Or.inr ⟨h2, by omega⟩

theorem enterSei_depth (E : Env) (s : St) (t : Tid) (d : Nat) (h : s.depth = d) :
    (enterSei E s t).depth ≤ d ∨ ((enterSei E s t).depth = d + 1 ∧ d ≤ E.cfg.maxDepth) := by
  unfold enterSei
  apply enterVM_depth
  simpa using h

theorem step_depth (E : Env) (s : St) :
    (step E s).depth ≤ s.depth ∨ ((step E s).depth = s.depth + 1 ∧ s.depth ≤ E.cfg.maxDepth) := by
  unfold step
  split
  · simp
  split
  · simp
  rename_i f rest hst
  split
  · rename_i e he
    cases f <;> cases e <;> simp only [unwindFrame, vmAbort, vmExtend] <;> (try split) <;> simp <;> omega
  · cases f with
    | vm t dl ct post n =>
      simp only [runFrame]
      split
      · split <;> simp
      · split
        · simp [exitVM]
        · split
          · simp [exitVM]
          · rename_i th _ _
            generalize (E.prog.getD th.label []).getD th.pc Op.done = op
            cases op <;> simp only [execOp]
            all_goals (try split)
            all_goals (try split)
            all_goals (try (simp [setUb]; done))
            · apply enterSei_depth
              simp only [newThread]
              split <;> simp
    | sei t saved => simp only [runFrame, execRunningCall]; (repeat' split) <;> simp
    | thrExec => simp [runFrame]
    | notify p =>
      simp only [runFrame]
      split
      · simp
      · split
        · simp
        · split
          · split
            · apply enterSei_depth; simp
            · simp
          · simp
    | execRunning =>
      simp only [runFrame]
      split
      · simp
      · split
        · apply enterVM_depth; simp
        · simp [setUb]
    | ctxExec => simp [runFrame]

/-- nesting never exceeds `maxStackDepth + 1` live VM activations -/
theorem step_depth_bound (E : Env) (s : St) (h : s.depth ≤ E.cfg.maxDepth + 1) : (step E s).depth ≤ E.cfg.maxDepth + 1 := by
  rcases step_depth E s with h1 | ⟨h1, h2⟩ <;> omega

theorem run_depth_bound (E : Env) : ∀ (k : Nat) (s : St), s.depth ≤ E.cfg.maxDepth + 1 → (run E k s).depth ≤ E.cfg.maxDepth + 1
  | 0, _, h => h
  | k + 1, s, h => run_depth_bound E k (step E s) (step_depth_bound E s h)


/-! ### where exceptions come from -/

theorem enterVM_exc (E : Env) (s : St) (t : Tid) (x : Option Exc) (hx : s.exc = x) (d : Nat) (hd' : s.depth = d) :
    (enterVM E s t).exc = x ∨ ((enterVM E s t).exc = some .depth ∧ d > E.cfg.maxDepth ∧ (enterVM E s t).depth = d) := by
  subst hx; subst hd'
  by_cases hd : s.depth > E.cfg.maxDepth
  · exact Or.inr ⟨(enterVM_over E s t hd).2.2.1, hd, (enterVM_over E s t hd).2.1⟩
  · obtain ⟨_, _, _, _, h3, _⟩ := enterVM_ok E s t hd
    exact Or.inl h3

theorem enterSei_exc (E : Env) (s : St) (t : Tid) (x : Option Exc) (hx : s.exc = x) (d : Nat) (hd' : s.depth = d) :
    (enterSei E s t).exc = x ∨ ((enterSei E s t).exc = some .depth ∧ d > E.cfg.maxDepth ∧ (enterSei E s t).depth = d) := by
  unfold enterSei
  apply enterVM_exc <;> simpa

/-- what a normal step can raise, and where -/
inductive Raised (E : Env) (s : St) (f : Frame) (rest : List Frame) (s' : St) : Prop
  | none (h : s'.exc = none)
  /-- the time check of `Process` after an instruction -/
  | overflow (t : Tid) (dl ct n : Nat) (hf : f = .vm t dl ct true n) (hs : s' = { s with exc := some .overflow })
      (hdl : dl ≠ 0) (hct : ct ≥ dl)
  /-- the `ScriptExecutionStack` constructor of a new activation -/
  | depth (h : s'.exc = some .depth) (hd : s.depth > E.cfg.maxDepth) (hd' : s'.depth = s.depth)
  /-- `error` inside an instruction -/
  | raise (t : Tid) (dl ct n : Nat) (hf : f = .vm t dl ct false n) (h : s'.exc = some .abort ∨ s'.exc = some .scriptError)
      (hst : s'.stack = .vm t dl ct true (n + 1) :: rest)

theorem raised_of_enterSei (E : Env) (s : St) (f : Frame) (rest : List Frame) (s' : St) (c : Tid)
    (hx : s'.exc = none) (hd : s'.depth = s.depth) : Raised E s f rest (enterSei E s' c) := by
  rcases enterSei_exc E s' c none hx s.depth hd with h | ⟨h1, h2, h3⟩
  · exact .none h
  · exact .depth h1 h2 h3

theorem raised_of_enterVM (E : Env) (s : St) (f : Frame) (rest : List Frame) (s' : St) (c : Tid)
    (hx : s'.exc = none) (hd : s'.depth = s.depth) : Raised E s f rest (enterVM E s' c) := by
  rcases enterVM_exc E s' c none hx s.depth hd with h | ⟨h1, h2, h3⟩
  · exact .none h
  · exact .depth h1 h2 h3

theorem runFrame_raised (E : Env) (s : St) (f : Frame) (rest : List Frame) (hn : s.exc = none) :
    Raised E s f rest (runFrame E s f rest) := by
  cases f with
  | vm t dl ct post n =>
    simp only [runFrame]
    split
    · rename_i hpost
      subst hpost
      split
      · rename_i hc
        exact .overflow t dl ct n rfl rfl hc.1 hc.2.1
      · exact .none (by simpa using hn)
    · rename_i hpost
      have hp : post = false := by simpa using hpost
      subst hp
      split
      · exact .none (by simpa [exitVM] using hn)
      · split
        · exact .none (by simpa [exitVM] using hn)
        · rename_i th _ _
          generalize (E.prog.getD th.label []).getD th.pc Op.done = op
          cases op <;> simp only [execOp]
          all_goals (try split)
          all_goals (try split)
          all_goals (try (exact .none (by simpa [setUb] using hn)))
          · apply raised_of_enterSei <;> (simp only [newThread]; split <;> simp [hn])
          · exact .raise t dl ct n rfl (Or.inr rfl) rfl
          · exact .raise t dl ct n rfl (Or.inl rfl) rfl
          · exact .raise t dl ct n rfl (Or.inr rfl) rfl
  | sei t saved =>
    simp only [runFrame, execRunningCall]
    (repeat' split) <;> exact .none (by simpa using hn)
  | thrExec => exact .none (by simpa [runFrame] using hn)
  | notify p =>
    simp only [runFrame]
    split
    · exact .none (by simpa using hn)
    · split
      · exact .none (by simpa using hn)
      · split
        · split
          · apply raised_of_enterSei <;> simp [hn]
          · exact .none (by simpa using hn)
        · exact .none (by simpa using hn)
  | execRunning =>
    simp only [runFrame]
    split
    · exact .none (by simpa using hn)
    · split
      · apply raised_of_enterVM <;> simp [hn]
      · exact .none (by simpa [setUb] using hn)
  | ctxExec => exact .none (by simpa [runFrame] using hn)

/-- an in-flight `CommandOverflow` sits directly on the VM frame whose `catch` will see it -/
def OverflowLocal (s : St) : Prop :=
  s.exc = some .overflow → ∃ t dl ct p n rest, s.stack = .vm t dl ct p n :: rest

theorem step_overflow_local (E : Env) (s : St) (hp : E.cfg.prot = false) (h : OverflowLocal s) :
    OverflowLocal (step E s) := by
  unfold step
  split
  · exact h
  split
  · exact h
  rename_i f rest hst
  split
  · rename_i e he
    intro hov
    exfalso
    cases f with
    | vm t dl ct post n =>
      cases e <;> simp [unwindFrame, vmAbort, vmExtend, hp, he] at hov
    | sei t saved =>
      obtain ⟨_, _, _, _, _, _, h2⟩ := h (by simpa [unwindFrame, he] using hov)
      rw [hst] at h2; cases h2
    | thrExec =>
      cases e <;> simp [unwindFrame, Exc.isAbort, he] at hov
      obtain ⟨_, _, _, _, _, _, h2⟩ := h he
      rw [hst] at h2; cases h2
    | notify p =>
      obtain ⟨_, _, _, _, _, _, h2⟩ := h (by simpa [unwindFrame, he] using hov)
      rw [hst] at h2; cases h2
    | execRunning =>
      obtain ⟨_, _, _, _, _, _, h2⟩ := h (by simpa [unwindFrame, he] using hov)
      rw [hst] at h2; cases h2
    | ctxExec =>
      obtain ⟨_, _, _, _, _, _, h2⟩ := h (by simpa [unwindFrame, he] using hov)
      rw [hst] at h2; cases h2
  · rename_i hn
    intro hov
    cases runFrame_raised E s f rest hn with
    | none h1 => rw [h1] at hov; cases hov
    | overflow t dl ct n hf hs _ _ => exact ⟨t, dl, ct, true, n, rest, by rw [hs]; simpa [hf] using hst⟩
    | depth h1 _ _ => rw [h1] at hov; cases hov
    | raise t dl ct n hf h1 _ => rcases h1 with h1 | h1 <;> (rw [h1] at hov; cases hov)

theorem run_overflow_local (E : Env) (hp : E.cfg.prot = false) : ∀ (k : Nat) (s : St), OverflowLocal s → OverflowLocal (run E k s)
  | 0, _, h => h
  | k + 1, s, h => run_overflow_local E hp k (step E s) (step_overflow_local E s hp h)


/-! ### host operations establish the invariant -/

/-- between host operations: nothing on the native stack, no current thread -/
structure Quiescent (d : Nat) (s : St) : Prop where
  stack : s.stack = []
  cur : s.cur = none
  depth : s.depth = d
  ub : s.ub = false

theorem startCall_inv (E : Env) (s0 : St) (label : Nat) (hc : s0.cur = none) :
    Inv s0.depth (startCall E s0 label) := by
  unfold startCall
  apply enterSei_inv
  exact ⟨by simp [vmCount], by simp [finalNone, hc]⟩

theorem startExecute_inv (E : Env) (s0 : St) (hc : s0.cur = none) :
    Inv s0.depth (startExecute E s0) := by
  unfold startExecute execRunningCall
  simp only
  split
  · exact ⟨by simp [vmCount, tick], by simp [finalNone, tick, hc]⟩
  · split
    · exact ⟨by simp [vmCount, tick], by simp [finalNone]⟩
    · exact ⟨by simp [vmCount, tick], by simp [finalNone, tick, hc]⟩

theorem inv_halted {d : Nat} {s : St} (h : Inv d s) (hs : s.stack = []) : s.depth = d ∧ s.cur = none := by
  have h1 := h.depth; have h2 := h.cur
  rw [hs] at h1 h2
  exact ⟨by simpa [vmCount] using h1, by simpa [finalNone] using h2⟩

theorem enterSei_exc_none (E : Env) (s : St) (t : Tid) (h : s.exc = none) :
    (enterSei E s t).exc = none ∨ (enterSei E s t).exc = some .depth := by
  rcases enterSei_exc E s t none h s.depth rfl with h | ⟨h, _⟩
  · exact Or.inl h
  · exact Or.inr h

theorem startCall_exc (E : Env) (s0 : St) (label : Nat) :
    (startCall E s0 label).exc = none ∨ (startCall E s0 label).exc = some .depth := by
  unfold startCall
  apply enterSei_exc_none
  rfl

/-! ### the transition function does not read the stream flags -/

/-- two environments that differ only in which streams are attached / the developer flag -/
structure SameCore (E E' : Env) : Prop where
  prog : E.prog = E'.prog
  inc : E.inc = E'.inc
  prot : E.cfg.prot = E'.cfg.prot
  maxExec : E.cfg.maxExec = E'.cfg.maxExec
  maxDepth : E.cfg.maxDepth = E'.cfg.maxDepth

theorem tick_same {E E' : Env} (h : SameCore E E') (s : St) : tick E s = tick E' s := by simp [tick, h.inc]

theorem enterVM_same {E E' : Env} (h : SameCore E E') (s : St) (t : Tid) : enterVM E s t = enterVM E' s t := by
  simp [enterVM, tick, h.inc, h.maxExec, h.maxDepth]

theorem enterSei_same {E E' : Env} (h : SameCore E E') (s : St) (t : Tid) : enterSei E s t = enterSei E' s t := by
  simp [enterSei, enterVM_same h]

theorem vmExtend_same {E E' : Env} (h : SameCore E E') (s : St) (t : Tid) (r : List Frame) :
    vmExtend E s t r = vmExtend E' s t r := by
  simp [vmExtend, tick, h.inc, h.maxExec]

theorem unwindFrame_same {E E' : Env} (h : SameCore E E') (s : St) (e : Exc) (f : Frame) (r : List Frame) :
    unwindFrame E s e f r = unwindFrame E' s e f r := by
  cases f <;> cases e <;> simp [unwindFrame, h.prot, vmExtend_same h, tick_same h]

theorem execOp_same {E E' : Env} (h : SameCore E E') (s : St) (t : Tid) (th : Thr) (dl ct n : Nat) (r : List Frame) (op : Op) :
    execOp E s t th dl ct n r op = execOp E' s t th dl ct n r op := by
  cases op <;> simp [execOp, h.prog, enterSei_same h]

theorem runFrame_same {E E' : Env} (h : SameCore E E') (s : St) (f : Frame) (r : List Frame) :
    runFrame E s f r = runFrame E' s f r := by
  cases f <;> simp [runFrame, h.prog, execOp_same h, enterSei_same h, enterVM_same h, tick_same h]

theorem step_same {E E' : Env} (h : SameCore E E') (s : St) : step E s = step E' s := by
  simp [step, unwindFrame_same h, runFrame_same h]

theorem run_same {E E' : Env} (h : SameCore E E') : ∀ (k : Nat) (s : St), run E k s = run E' k s
  | 0, _ => rfl
  | k + 1, s => by simp [run, step_same h, run_same h k]

theorem runD_fst (E : Env) : ∀ (k : Nat) (x : St × List Diag), (runD E k x).1 = run E k x.1
  | 0, _ => rfl
  | k + 1, x => by simp [runD, run, stepD, runD_fst E k]

end Morfuse.Unwind
