import MorfuseModel.Unwind.Model
/-!
# Unwind model — invariants and step lemmas (used by Props/C14.lean)
-/
namespace Morfuse.Unwind

/-! ### helpers leave the control fields alone -/
section fields
variable (E : Env) (s : St) (t : Tid)

@[simp] theorem tick_stack : (tick E s).stack = s.stack := rfl
@[simp] theorem tick_exc : (tick E s).exc = s.exc := rfl
@[simp] theorem tick_ub : (tick E s).ub = s.ub := rfl
@[simp] theorem tick_depth : (tick E s).depth = s.depth := rfl
@[simp] theorem tick_cur : (tick E s).cur = s.cur := rfl
@[simp] theorem tick_prev : (tick E s).prev = s.prev := rfl
@[simp] theorem tick_threads : (tick E s).threads = s.threads := rfl
@[simp] theorem tick_timer : (tick E s).timer = s.timer := rfl
@[simp] theorem tick_diag : (tick E s).diag = s.diag := rfl
@[simp] theorem tick_now : (tick E s).now = s.now + E.inc s.reads := rfl

@[simp] theorem emit_stack (b : Bool) (d : Diag) : (emit b d s).stack = s.stack := rfl
@[simp] theorem emit_exc (b : Bool) (d : Diag) : (emit b d s).exc = s.exc := rfl
@[simp] theorem emit_ub (b : Bool) (d : Diag) : (emit b d s).ub = s.ub := rfl
@[simp] theorem emit_depth (b : Bool) (d : Diag) : (emit b d s).depth = s.depth := rfl
@[simp] theorem emit_cur (b : Bool) (d : Diag) : (emit b d s).cur = s.cur := rfl
@[simp] theorem emit_prev (b : Bool) (d : Diag) : (emit b d s).prev = s.prev := rfl
@[simp] theorem emit_threads (b : Bool) (d : Diag) : (emit b d s).threads = s.threads := rfl
@[simp] theorem emit_now (b : Bool) (d : Diag) : (emit b d s).now = s.now := rfl
@[simp] theorem emit_reads (b : Bool) (d : Diag) : (emit b d s).reads = s.reads := rfl
@[simp] theorem emit_timer (b : Bool) (d : Diag) : (emit b d s).timer = s.timer := rfl

@[simp] theorem stopThread_stack : (stopThread s t).stack = s.stack := by
  unfold stopThread; split <;> (try split) <;> rfl
@[simp] theorem stopThread_exc : (stopThread s t).exc = s.exc := by
  unfold stopThread; split <;> (try split) <;> rfl
@[simp] theorem stopThread_ub : (stopThread s t).ub = s.ub := by
  unfold stopThread; split <;> (try split) <;> rfl
@[simp] theorem stopThread_depth : (stopThread s t).depth = s.depth := by
  unfold stopThread; split <;> (try split) <;> rfl
@[simp] theorem stopThread_cur : (stopThread s t).cur = s.cur := by
  unfold stopThread; split <;> (try split) <;> rfl
@[simp] theorem stopThread_prev : (stopThread s t).prev = s.prev := by
  unfold stopThread; split <;> (try split) <;> rfl
@[simp] theorem stopThread_now : (stopThread s t).now = s.now := by
  unfold stopThread; split <;> (try split) <;> rfl
@[simp] theorem stopThread_reads : (stopThread s t).reads = s.reads := by
  unfold stopThread; split <;> (try split) <;> rfl
@[simp] theorem stopThread_diag : (stopThread s t).diag = s.diag := by
  unfold stopThread; split <;> (try split) <;> rfl

@[simp] theorem startedWaitFor_stack : (startedWaitFor s t).stack = s.stack := by simp [startedWaitFor]
@[simp] theorem startedWaitFor_exc : (startedWaitFor s t).exc = s.exc := by simp [startedWaitFor]
@[simp] theorem startedWaitFor_ub : (startedWaitFor s t).ub = s.ub := by simp [startedWaitFor]
@[simp] theorem startedWaitFor_depth : (startedWaitFor s t).depth = s.depth := by simp [startedWaitFor]
@[simp] theorem startedWaitFor_cur : (startedWaitFor s t).cur = s.cur := by simp [startedWaitFor]
@[simp] theorem startedWaitFor_now : (startedWaitFor s t).now = s.now := by simp [startedWaitFor]
@[simp] theorem startedWaitFor_reads : (startedWaitFor s t).reads = s.reads := by simp [startedWaitFor]

@[simp] theorem endThread_stack : (endThread s t).stack = s.stack := by
  unfold endThread; split <;> simp <;> (repeat' split) <;> simp
@[simp] theorem endThread_exc : (endThread s t).exc = s.exc := by
  unfold endThread; split <;> simp <;> (repeat' split) <;> simp
@[simp] theorem endThread_ub : (endThread s t).ub = s.ub := by
  unfold endThread; split <;> simp <;> (repeat' split) <;> simp
@[simp] theorem endThread_depth : (endThread s t).depth = s.depth := by
  unfold endThread; split <;> simp <;> (repeat' split) <;> simp
@[simp] theorem endThread_now : (endThread s t).now = s.now := by
  unfold endThread; split <;> simp <;> (repeat' split) <;> simp
@[simp] theorem endThread_reads : (endThread s t).reads = s.reads := by
  unfold endThread; split <;> simp <;> (repeat' split) <;> simp
/-- ending a thread can only clear `m_CurrentThread` (it is a `SafePtr`) -/
theorem endThread_cur : (endThread s t).cur = s.cur ∨ (endThread s t).cur = none := by
  unfold endThread; split <;> simp <;> (repeat' split) <;> simp_all

end fields

/-! ### entering a VM / ScriptExecuteInternal -/

theorem enterVM_over (E : Env) (s : St) (t : Tid) (h : s.depth > E.cfg.maxDepth) :
    (enterVM E s t).stack = s.stack ∧ (enterVM E s t).depth = s.depth ∧ (enterVM E s t).exc = some .depth ∧
    (enterVM E s t).cur = s.cur ∧ (enterVM E s t).ub = s.ub ∧ (enterVM E s t).prev = s.prev ∧
    (enterVM E s t).now = s.now ∧ (enterVM E s t).reads = s.reads ∧ (enterVM E s t).diag = s.diag := by
  simp [enterVM, h]

theorem enterVM_ok (E : Env) (s : St) (t : Tid) (h : ¬ s.depth > E.cfg.maxDepth) :
    ∃ dl ct, (enterVM E s t).stack = .vm t dl ct false 0 :: s.stack ∧ (enterVM E s t).depth = s.depth + 1 ∧
      (enterVM E s t).exc = s.exc ∧ (enterVM E s t).cur = s.cur ∧ (enterVM E s t).ub = s.ub ∧
      (enterVM E s t).prev = s.prev ∧ (enterVM E s t).diag = s.diag ∧ s.now ≤ (enterVM E s t).now ∧
      (dl ≠ 0 → E.cfg.maxExec ≠ 0 ∧ ∃ r0, dl = r0 + E.cfg.maxExec ∧ s.now ≤ r0 ∧ r0 + E.inc s.reads = ct ∧
         ct + E.inc (s.reads + 1) = (enterVM E s t).now) := by
  unfold enterVM
  rw [if_neg h]
  by_cases hm : E.cfg.maxExec ≠ 0
  · rw [if_pos hm]
    refine ⟨_, _, rfl, rfl, rfl, rfl, rfl, rfl, rfl, ?_, ?_⟩
    · simp [tick]; omega
    · intro _; exact ⟨hm, s.now, by simp, Nat.le_refl _, by simp [tick], by simp [tick]⟩
  · rw [if_neg hm]
    refine ⟨_, _, rfl, rfl, rfl, rfl, rfl, rfl, rfl, ?_, ?_⟩
    · simp [tick]
    · intro h0; exact absurd rfl h0

def vmCount : List Frame → Nat
  | [] => 0
  | .vm _ _ _ _ _ :: r => vmCount r + 1
  | .thrExec :: r => vmCount r
  | .sei _ _ :: r => vmCount r
  | .notify _ :: r => vmCount r
  | .execRunning :: r => vmCount r
  | .ctxExec :: r => vmCount r

/-- `m_CurrentThread` will be null once every frame has been left (normally or by an exception):
    the outermost `ScriptExecuteInternal` frame restores null, or an `ExecuteRunning` frame clears it -/
def finalNone : List Frame → Option Tid → Prop
  | [], cur => cur = none
  | .sei _ saved :: r, _ => finalNone r saved
  | .execRunning :: r, _ => finalNone r none
  | .vm _ _ _ _ _ :: r, cur => finalNone r cur
  | .thrExec :: r, cur => finalNone r cur
  | .notify _ :: r, cur => finalNone r cur
  | .ctxExec :: r, cur => finalNone r cur

theorem finalNone_mono : ∀ (l : List Frame) (c : Option Tid), finalNone l c → finalNone l none
  | [], c, h => by simp [finalNone]
  | .sei _ _ :: r, c, h => by simpa [finalNone] using h
  | .execRunning :: r, c, h => by simpa [finalNone] using h
  | .vm _ _ _ _ _ :: r, c, h => by simp only [finalNone] at *; exact finalNone_mono r c h
  | .thrExec :: r, c, h => by simp only [finalNone] at *; exact finalNone_mono r c h
  | .notify _ :: r, c, h => by simp only [finalNone] at *; exact finalNone_mono r c h
  | .ctxExec :: r, c, h => by simp only [finalNone] at *; exact finalNone_mono r c h

theorem finalNone_safe (l : List Frame) (s : St) (c : Option Tid) (h : finalNone l c) : finalNone l (safe s c) := by
  unfold safe
  cases c with
  | none => simpa using h
  | some x =>
    simp only [Option.filter]
    split
    · exact h
    · exact finalNone_mono l _ h

/-- the control invariant: the nesting counter counts the live `ScriptVM::Execute` frames, and
    the chain of saved `currentThread` values ends in null -/
structure Inv (d0 : Nat) (s : St) : Prop where
  depth : s.depth = d0 + vmCount s.stack
  cur : finalNone s.stack s.cur

theorem enterVM_inv (E : Env) (s : St) (t : Tid) (d0 : Nat) (h : Inv d0 s) : Inv d0 (enterVM E s t) := by
  by_cases hd : s.depth > E.cfg.maxDepth
  · obtain ⟨h1, h2, _, h4, _⟩ := enterVM_over E s t hd
    exact ⟨by rw [h1, h2]; exact h.depth, by rw [h1, h4]; exact h.cur⟩
  · obtain ⟨dl, ct, h1, h2, _, h4, _⟩ := enterVM_ok E s t hd
    refine ⟨?_, ?_⟩
    · rw [h1, h2, vmCount, h.depth]; omega
    · rw [h1, h4, finalNone]; exact h.cur

theorem enterSei_inv (E : Env) (s : St) (t : Tid) (d0 : Nat) (h : Inv d0 s) : Inv d0 (enterSei E s t) := by
  unfold enterSei
  apply enterVM_inv
  refine ⟨?_, ?_⟩
  · simp [vmCount]; exact h.depth
  · simp [finalNone]; exact h.cur

theorem unwindFrame_inv (E : Env) (s : St) (d0 : Nat) (e : Exc) (f : Frame) (rest : List Frame)
    (hst : s.stack = f :: rest) (h : Inv d0 s) : Inv d0 (unwindFrame E s e f rest) := by
  have hd := h.depth
  have hc := h.cur
  rw [hst] at hd hc
  cases f with
  | vm t dl ct post n =>
    simp only [vmCount, finalNone] at hd hc
    cases e <;> simp only [unwindFrame]
    · split
      · exact ⟨by simp [vmAbort]; omega, by simpa [vmAbort] using hc⟩
      · exact ⟨by simp [vmExtend, vmCount]; omega, by simpa [vmExtend, finalNone] using hc⟩
    · exact ⟨by simp [vmAbort]; omega, by simpa [vmAbort] using hc⟩
    · exact ⟨by simp [vmAbort]; omega, by simpa [vmAbort] using hc⟩
    · exact ⟨by simp [vmCount]; omega, by simpa [finalNone] using hc⟩
  | sei t saved =>
    simp only [vmCount, finalNone] at hd hc
    simp only [unwindFrame]
    exact ⟨by simpa using hd, by simpa using finalNone_safe rest s saved hc⟩
  | thrExec =>
    simp only [vmCount, finalNone] at hd hc
    simp only [unwindFrame]
    split
    · exact ⟨by simpa using hd, by simpa using hc⟩
    · exact ⟨by simpa using hd, by simpa using hc⟩
  | notify p =>
    simp only [vmCount, finalNone] at hd hc
    simp only [unwindFrame]
    exact ⟨by simpa using hd, by simpa using hc⟩
  | execRunning =>
    simp only [vmCount, finalNone] at hd hc
    simp only [unwindFrame]
    exact ⟨by simpa using hd, by simpa using hc⟩
  | ctxExec =>
    simp only [vmCount, finalNone] at hd hc
    simp only [unwindFrame]
    exact ⟨by simpa using hd, by simpa using hc⟩

theorem execOp_inv (E : Env) (s : St) (d0 : Nat) (t : Tid) (th : Thr) (dl ct n : Nat) (rest : List Frame) (op : Op)
    (hst : s.stack = .vm t dl ct false n :: rest) (h : Inv d0 s) : Inv d0 (execOp E s t th dl ct n rest op) := by
  have hd := h.depth
  have hc := h.cur
  rw [hst] at hd hc
  simp only [vmCount, finalNone] at hd hc
  cases op <;> simp only [execOp]
  · exact ⟨by simp [vmCount]; omega, by simpa [finalNone] using hc⟩
  · exact ⟨by simp [vmCount]; omega, by simpa [finalNone] using hc⟩
  · exact ⟨by simp [vmCount]; omega, by simpa [finalNone] using hc⟩
  · split
    · exact ⟨by simp [vmCount]; omega, by simpa [finalNone] using hc⟩
    · exact ⟨by simp [vmCount]; omega, by simpa [finalNone] using hc⟩
  · -- spawn
    split
    · exact ⟨by simp [setUb, hst, vmCount]; omega, by simpa [setUb, hst, finalNone] using hc⟩
    · split
      · apply enterSei_inv
        refine ⟨?_, ?_⟩
        · simp only [newThread]; split <;> simp [vmCount] <;> omega
        · simp only [newThread]; split <;> simpa [finalNone] using hc
      · exact ⟨by simp [vmCount]; omega, by simpa [finalNone] using hc⟩
  · exact ⟨by simp [vmCount]; omega, by simpa [finalNone] using hc⟩
  · split
    · exact ⟨by simp [setUb, hst, vmCount]; omega, by simpa [setUb, hst, finalNone] using hc⟩
    · exact ⟨by simp [vmCount]; omega, by simpa [finalNone] using hc⟩
  · exact ⟨by simp [vmCount]; omega, by simpa [finalNone] using hc⟩
  · exact ⟨by simp [vmCount]; omega, by simpa [finalNone] using hc⟩
  · exact ⟨by simp [vmCount]; omega, by simpa [finalNone] using hc⟩
  · refine ⟨by simp [vmCount]; omega, ?_⟩
    simp only [finalNone]
    rcases endThread_cur s t with h1 | h1
    · rw [h1]; exact hc
    · rw [h1]; exact finalNone_mono _ _ hc

theorem runFrame_inv (E : Env) (s : St) (d0 : Nat) (f : Frame) (rest : List Frame)
    (hst : s.stack = f :: rest) (h : Inv d0 s) : Inv d0 (runFrame E s f rest) := by
  have hd := h.depth
  have hc := h.cur
  rw [hst] at hd hc
  cases f with
  | vm t dl ct post n =>
    simp only [vmCount, finalNone] at hd hc
    simp only [runFrame]
    split
    · split
      · exact ⟨by simp [hst, vmCount]; omega, by simpa [hst, finalNone] using hc⟩
      · exact ⟨by simp [vmCount]; omega, by simpa [finalNone] using hc⟩
    · rename_i hpost
      have hp : post = false := by simpa using hpost
      subst hp
      split
      · exact ⟨by simp [exitVM]; omega, by simpa [exitVM] using hc⟩
      · split
        · exact ⟨by simp [exitVM]; omega, by simpa [exitVM] using hc⟩
        · exact execOp_inv E s d0 t _ dl ct n rest _ hst h
  | sei t saved =>
    simp only [vmCount, finalNone] at hd hc
    simp only [runFrame]
    unfold execRunningCall
    have hc' := finalNone_safe rest s saved hc
    split
    · exact ⟨by simpa using hd, by simpa using hc'⟩
    · split
      · exact ⟨by simpa [vmCount] using hd, by simpa [finalNone] using finalNone_mono _ _ hc'⟩
      · exact ⟨by simpa using hd, by simpa using hc'⟩
  | thrExec =>
    simp only [vmCount, finalNone] at hd hc
    simp only [runFrame]
    exact ⟨by simpa using hd, by simpa using hc⟩
  | notify p =>
    simp only [vmCount, finalNone] at hd hc
    simp only [runFrame]
    split
    · exact ⟨by simpa using hd, by simpa using hc⟩
    · split
      · exact ⟨by simpa [vmCount] using hd, by simpa [finalNone] using hc⟩
      · split
        · split
          · apply enterSei_inv
            exact ⟨by simpa [vmCount] using hd, by simpa [finalNone] using hc⟩
          · exact ⟨by simpa [vmCount] using hd, by simpa [finalNone] using hc⟩
        · exact ⟨by simpa [vmCount] using hd, by simpa [finalNone] using hc⟩
  | execRunning =>
    simp only [vmCount, finalNone] at hd hc
    simp only [runFrame]
    split
    · exact ⟨by simpa using hd, by simpa using hc⟩
    · split
      · apply enterVM_inv
        exact ⟨by simpa [hst, vmCount] using hd, by simpa [hst, finalNone] using hc⟩
      · exact ⟨by simpa [setUb, hst, vmCount] using hd, by simpa [setUb, hst, finalNone] using hc⟩
  | ctxExec =>
    simp only [vmCount, finalNone] at hd hc
    simp only [runFrame]
    exact ⟨by simpa using hd, by simpa using hc⟩

theorem step_inv (E : Env) (s : St) (d0 : Nat) (h : Inv d0 s) : Inv d0 (step E s) := by
  unfold step
  split
  · exact h
  · split
    · exact h
    · rename_i f rest hst
      split
      · exact unwindFrame_inv E s d0 _ f rest hst h
      · exact runFrame_inv E s d0 f rest hst h

theorem run_inv (E : Env) (d0 : Nat) : ∀ (k : Nat) (s : St), Inv d0 s → Inv d0 (run E k s)
  | 0, _, h => h
  | k + 1, s, h => run_inv E d0 k (step E s) (step_inv E s d0 h)

end Morfuse.Unwind
