import MorfuseModel.Sched.Timer
/-!
# Unwind model — the exception paths of the interpreter, frame by frame (property C14)

A small-step machine whose state carries the **native call stack** of the C++ activations that are
live while a host call runs:

```
host call ─ ScriptThread::Execute(Event&)            Frame.thrExec   try{…} catch(Abort&){throw;} catch(ScriptException&){}
          └ ScriptThread::ScriptExecuteInternal      Frame.sei       saves/sets/restores m_CurrentThread, m_PreviousThread (try/catch(...))
            └ ScriptVM::Execute (+ Process)           Frame.vm        ScriptExecutionStack object, deadline, cmdTime, catch clauses
              └ Listener::Unregister (notify loop)    Frame.notify    no handler
                └ ScriptThread::Execute() → …         thrExec, sei, vm …
ScriptContext::Execute                                Frame.ctxExec
          └ ScriptMaster::ExecuteRunning              Frame.execRunning  while((cur = next())) try{Resume()} catch(...){cur = null; throw;}
            └ ScriptVM::Execute                       Frame.vm
```

`St.exc = some e` means: an exception `e` is in flight; one `step` then runs the handler of the top
frame exactly as transcribed (catch / rethrow / restore / destructor of the frame's locals) and pops
it, or — where the C++ handler swallows the exception — resumes normal execution in that frame.

Sources (as of /repo HEAD, after fixes 62e9d65 e689d04 56147d9 415a6d2 3effa49 c597775):
* src/Script/ScriptVMOperation.cpp `ScriptVM::Execute` (469–572), `ScriptVM::Process` (574–1610)
* src/Script/ScriptVM.cpp `HandleScriptException` / `HandleScriptExceptionAbort` (383–415),
  `ScriptExecutionStack` (659–671), `NotifyDelete`
* src/Script/ScriptThread.cpp `Execute` (3199–3242), `ScriptExecuteInternal` (3325–3363),
  `StoppedWaitFor`, `StartTiming`, `Stop`, `Wait`, `Resume`, `~ScriptThread`
* src/Script/ScriptMaster.cpp `ExecuteRunning` (331–357), `ExecuteThread`, `AddTiming`, `Reset`
* src/Script/Context.cpp `ScriptContext::Execute`; src/Common/Time.cpp (hook H1)
* src/Script/Listener.cpp `Register`, `Unregister(name)`, `WaitTill`, `WaitExecuteThreadInternal`

Programs are at opcode granularity (the time guard reads the clock once per opcode): every opcode
that neither yields nor nests is `nop`; the renderer `tools/props/c14.py` knows how many opcodes each
script statement compiles to.
-/
namespace Morfuse.Unwind
open Morfuse.Sched

abbrev Tid := Nat

/-- abstract opcodes -/
inductive Op
  | nop                                   -- arithmetic / load / store / conditional jump not taken
  | jmp (pc : Nat)                        -- OP_JUMP4 / OP_JUMP_BACK4 / `goto`
  | setc (k : Nat)                        -- loop counter := k
  | loopTest (exit : Nat)                 -- counter = 0 → jump `exit`, else counter -= 1
  | spawn (label : Nat) (wait : Bool)     -- `thread l` / `waitthread l`
  | notify (name : Nat)                   -- `level notify "n"`
  | waittill (name : Nat)                 -- `level waittill "n"`
  | wait (ms : Nat)                       -- `wait`
  | print (m : Nat)                       -- `println "m<m>"`
  | raise (abort : Bool)                  -- `error "x"` (ScriptException) / `error "x" 1` (ScriptAbortException)
  | done                                  -- `end` / OP_DONE
  deriving Repr, DecidableEq, Inhabited

abbrev Prog := List (List Op)

/-- exceptions that travel through the frames.  `overflow`, `depth`, `abort` derive from
    `ScriptAbortExceptionBase`; `scriptError` is `ScriptException` (a `ScriptExceptionBase`) -/
inductive Exc | overflow | depth | abort | scriptError
  deriving Repr, DecidableEq, Inhabited

def Exc.isAbort : Exc → Bool
  | .scriptError => false
  | _ => true

inductive TState | running | timing | waiting
  deriving Repr, DecidableEq, Inhabited
inductive VState | running | suspended | idling
  deriving Repr, DecidableEq, Inhabited

structure Thr where
  label : Nat
  /-- the `ScriptClass` (group) the thread belongs to: `thread l` stays in the caller's group,
      a host call and `waitthread l` create a new one -/
  grp : Nat := 0
  pc : Nat := 0
  cnt : Nat := 0
  ts : TState := .running
  vs : VState := .running
  /-- the thread registered on this one under name 0 (`waitthread` caller) -/
  joinedBy : Option Tid := none
  deriving Repr, DecidableEq, Inhabited

inductive Frame
  /-- `ScriptThread::Execute()` / `Execute(Event&)` -/
  | thrExec
  /-- `ScriptThread::ScriptExecuteInternal` of thread `tid`; `saved` = local `currentThread` -/
  | sei (tid : Tid) (saved : Option Tid)
  /-- `ScriptVM::Execute` of thread `tid`'s VM, inside `Process`: `dl` = `nextTime`, `ct` = `cmdTime`,
      `post` = the instruction body has run and the time check is next, `n` = instructions executed
      since `dl` was set (ghost) -/
  | vm (tid : Tid) (dl ct : Nat) (post : Bool) (n : Nat)
  /-- `Listener::Unregister(name)`: loop over `stoppedListeners` -/
  | notify (pending : List Tid)
  /-- `ScriptMaster::ExecuteRunning`: inside the `while`, `Resume()` in progress -/
  | execRunning
  /-- `ScriptContext::Execute` -/
  | ctxExec
  deriving Repr, DecidableEq, Inhabited

structure Cfg where
  prot : Bool := false          -- ThreadExecutionProtection::loopProtection
  maxExec : Nat := 5000         -- maxExecutionTime (0 = no limit)
  maxDepth : Nat := 20          -- ScriptExecutionStack::maxStackDepth
  sOut : Bool := true           -- which OutputInfo streams are attached
  sWarn : Bool := true
  sDbg : Bool := true
  sErr : Bool := true
  sVerb : Bool := false
  dev : Bool := true            -- developer mode: source map exists, PrintSourcePos prints
  deriving Repr, DecidableEq, Inhabited

inductive Diag
  | dbgUpdate                   -- Debug: "Update of script position - This is not an error."
  | errPos                      -- Error: source position of an aborted VM
  | verbFrame (depth : Nat)     -- Verbose: "----FRAME: <depth>"
  | warn                        -- Warn: "^~^~^ Script Warning"
  | out (m : Nat)               -- Output: println marker
  deriving Repr, DecidableEq, Inhabited

structure St where
  stack : List Frame := []
  exc : Option Exc := none
  ub : Bool := false
  cur : Option Tid := none
  prev : Option Tid := none
  depth : Nat := 0
  now : Nat := 0                 -- value the next clock read returns
  reads : Nat := 0
  start : Nat := 0               -- TimeManager::verifStart
  last : Nat := 0                -- TimeManager::verifLast
  scaled : Nat := 0              -- TimeManager::scaledTime
  threads : List (Tid × Thr) := []
  nextTid : Nat := 1
  timer : Timer := {}
  lvl : List (Nat × Tid) := []   -- level's notify table: (name, waiter) in registration order
  deriving Repr, DecidableEq, Inhabited

/-- what a step may read besides the state -/
structure Env where
  cfg : Cfg
  prog : Prog
  /-- how much the injected clock advances at its k-th reading -/
  inc : Nat → Nat

/-! ### thread table -/
def find (l : List (Tid × Thr)) (t : Tid) : Option Thr := (l.find? (fun p => p.1 == t)).map (·.2)
def upd (l : List (Tid × Thr)) (t : Tid) (f : Thr → Thr) : List (Tid × Thr) :=
  l.map (fun p => if p.1 == t then (p.1, f p.2) else p)
def del (l : List (Tid × Thr)) (t : Tid) : List (Tid × Thr) := l.filter (fun p => p.1 != t)

def alive (s : St) (t : Tid) : Bool := (find s.threads t).isSome
/-- a `SafePtr<ScriptThread>` read: null once the thread is gone -/
def safe (s : St) (o : Option Tid) : Option Tid := o.filter (alive s)
def vmRunning (s : St) (t : Tid) : Bool :=
  match find s.threads t with
  | some th => th.vs == .running
  | none => false

/-- one clock reading has been taken (`verif::now_ms`) -/
def tick (E : Env) (s : St) : St := { s with now := s.now + E.inc s.reads, reads := s.reads + 1 }

/-- undefined behaviour reached (null `m_CurrentThread` dereferenced, dangling timer element): the
    machine stops where it is -/
def setUb (s : St) : St := { s with ub := true }

/-- `ScriptThread::Stop()` -/
def stopThread (s : St) (t : Tid) : St :=
  match find s.threads t with
  | some th =>
    match th.ts with
    | .timing => { s with threads := upd s.threads t (fun th => { th with ts := .running }), timer := s.timer.remove t }
    | .waiting =>
      -- CancelWaitingAll: leave every table the thread is registered in
      { s with threads := (upd s.threads t (fun th => { th with ts := .running })).map
                 (fun p => if p.2.joinedBy == some t then (p.1, { p.2 with joinedBy := none }) else p),
               lvl := s.lvl.filter (fun p => p.2 != t) }
    | .running => s
  | none => s

/-- first target registration of thread `c`: `StartedWaitFor` = `Stop(); StartWaiting(); vm->Suspend()` -/
def startedWaitFor (s : St) (c : Tid) : St :=
  let s := stopThread s c
  { s with threads := upd s.threads c (fun th =>
      { th with ts := .waiting, vs := if th.vs == .running then .suspended else th.vs }) }

/-- entry of `ScriptVM::Execute`: `state = Idling; ScriptExecutionStack executionStack; state = Running;
    nextTime = maxExecTime ? GetTime() + maxExecTime : 0;` then the first line of `Process` -/
def enterVM (E : Env) (s : St) (t : Tid) : St :=
  if s.depth > E.cfg.maxDepth then
    -- the constructor throws before the increment; no destructor will run; outside Execute's try
    { s with threads := upd s.threads t (fun th => { th with vs := .idling }), exc := some .depth }
  else
    let s := { s with depth := s.depth + 1, threads := upd s.threads t (fun th => { th with vs := .running }) }
    if E.cfg.maxExec ≠ 0 then
      let dl := s.now + E.cfg.maxExec
      let s := tick E s
      let ct := s.now
      let s := tick E s
      { s with stack := .vm t dl ct false 0 :: s.stack }
    else
      let ct := s.now
      let s := tick E s
      { s with stack := .vm t 0 ct false 0 :: s.stack }

/-- body of `ScriptExecuteInternal` up to and including the call of `vm->Execute` -/
def enterSei (E : Env) (s : St) (t : Tid) : St :=
  let saved := s.cur
  let s := { s with prev := s.cur, cur := some t }
  let s := stopThread s t
  enterVM E { s with stack := .sei t saved :: s.stack } t

/-- `new ScriptThread` at `label` -/
def newThread (s : St) (label : Nat) (grp : Option Nat) (joinedBy : Option Tid) : Tid × St :=
  (s.nextTid, { s with threads := s.threads ++ [(s.nextTid, { label := label, grp := grp.getD s.nextTid, joinedBy := joinedBy })],
                       nextTid := s.nextTid + 1 })

/-- `delete thread` from inside its own `end`: `~ScriptThread`, `NotifyDelete`, `~Listener`
    (`Unregister(0)` re-times the `waitthread` caller), and every `SafePtr` to it becomes null -/
def endThread (s : St) (t : Tid) : St :=
  match find s.threads t with
  | none => s
  | some th =>
    let s := stopThread s t
    let s := { s with threads := del s.threads t,
                      cur := if s.cur == some t then none else s.cur,
                      prev := if s.prev == some t then none else s.prev }
    match th.joinedBy with
    | some p =>
      match find s.threads p with
      | some pt =>
        if pt.ts == .waiting then
          -- StoppedWaitFor(0) → StartTiming(): Stop(); Timing; AddTiming(this, 0)
          let s := stopThread s p
          { s with threads := upd s.threads p (fun x => { x with ts := .timing }),
                   timer := s.timer.add p s.scaled }
        else s
      | none => s
    | none => s

/-- `HandleScriptExceptionAbort(info); throw;` followed by `~ScriptExecutionStack`
    (what it writes to the Verbose / Error streams: `diagOf`) -/
def vmAbort (s : St) (t : Tid) (rest : List Frame) : St :=
  { s with threads := upd s.threads t (fun th => { th with vs := .idling }),
           depth := s.depth - 1, stack := rest }

/-- `catch (CommandOverflow&)` with protection off: log (`diagOf`), new deadline, `Process` again -/
def vmExtend (E : Env) (s : St) (t : Tid) (rest : List Frame) : St :=
  let dl := s.now + E.cfg.maxExec
  let s := tick E s
  let ct := s.now
  let s := tick E s
  { s with exc := none, stack := .vm t dl ct false 0 :: rest }

/-- leaving `ScriptVM::Execute` normally: `Suspended → Idling`, `Destroyed → delete this`,
    then `~ScriptExecutionStack` -/
def exitVM (s : St) (t : Tid) (rest : List Frame) : St :=
  { s with threads := upd s.threads t (fun th => { th with vs := if th.vs == .suspended then .idling else th.vs }),
           depth := s.depth - 1, stack := rest }

/-- `ScriptMaster::ExecuteRunning` as a tail of the frame list `rest` -/
def execRunningCall (s : St) (rest : List Frame) : St :=
  if s.cur.isSome || s.depth > 0 then { s with stack := rest }
  else if s.timer.dirty then { s with stack := .execRunning :: rest }
  else { s with stack := rest }

/-- the handler of the top frame `f` for the in-flight exception `e` -/
def unwindFrame (E : Env) (s : St) (e : Exc) (f : Frame) (rest : List Frame) : St :=
  match f with
  | .vm t dl _ _ n =>
    match e with
    | .overflow => if E.cfg.prot then vmAbort s t rest else vmExtend E s t rest
    | .scriptError =>
      -- catch (ScriptExceptionBase&) { HandleScriptException } ; while (!doneProcessing) → Process again
      let ct := s.now
      let s := tick E s
      { s with exc := none, stack := .vm t dl ct false n :: rest }
    | _ => vmAbort s t rest
  | .sei t saved =>
    -- catch (...) { m_CurrentThread = currentThread; m_PreviousThread = previousThread; throw; }
    { s with cur := safe s saved, prev := safe s (some t), stack := rest }
  | .thrExec =>
    -- catch (ScriptAbortExceptionBase&) { throw; } catch (ScriptException&) {}
    if e.isAbort then { s with stack := rest } else { s with exc := none, stack := rest }
  | .notify _ => { s with stack := rest }
  | .execRunning =>
    -- catch (...) { m_CurrentThread = nullptr; throw; }
    { s with cur := none, stack := rest }
  | .ctxExec => { s with stack := rest }

/-- one opcode of thread `t` (record `th`), whose VM frame is `vm t dl ct false n` above `rest` -/
def execOp (E : Env) (s : St) (t : Tid) (th : Thr) (dl ct n : Nat) (rest : List Frame) (op : Op) : St :=
  let me : Frame := .vm t dl ct true (n + 1)
  let adv (s : St) : St := { s with threads := upd s.threads t (fun x => { x with pc := th.pc + 1 }) }
  match op with
  | .nop => { adv s with stack := me :: rest }
  | .jmp pc => { s with threads := upd s.threads t (fun x => { x with pc := pc }), stack := me :: rest }
  | .setc k => { s with threads := upd s.threads t (fun x => { x with pc := th.pc + 1, cnt := k }), stack := me :: rest }
  | .loopTest ex =>
    if th.cnt = 0 then { s with threads := upd s.threads t (fun x => { x with pc := ex }), stack := me :: rest }
    else { s with threads := upd s.threads t (fun x => { x with pc := th.pc + 1, cnt := th.cnt - 1 }), stack := me :: rest }
  | .print _ => { adv s with stack := me :: rest }
  | .raise ab => { adv s with stack := me :: rest, exc := some (if ab then .abort else .scriptError) }
  | .done => { endThread s t with stack := me :: rest }
  | .wait ms =>
    -- Wait: StartTiming(ms) = Stop(); Timing; AddTiming; then vm->Suspend()
    let s := stopThread (adv s) t
    { s with threads := upd s.threads t (fun x => { x with ts := .timing, vs := .suspended }),
             timer := s.timer.add t (s.scaled + ms), stack := me :: rest }
  | .waittill name =>
    -- Listener::WaitTill: Register(name, Director.CurrentThread())
    match s.cur with
    | none => setUb s
    | some c =>
      let s := adv s
      let s := { s with lvl := s.lvl ++ [(name, c)] }
      { startedWaitFor s c with stack := me :: rest }
  | .notify name =>
    -- Listener::Unregister(name): waiters leave the tables first, then are resumed in registration order
    let ws := (s.lvl.filter (fun p => p.1 == name)).map (·.2)
    let s := adv s
    { s with lvl := s.lvl.filter (fun p => p.1 != name), stack := .notify ws :: me :: rest }
  | .spawn label w =>
    -- CreateThreadInternal dereferences Director.CurrentThread()
    match s.cur with
    | none => setUb s
    | some c =>
      if label < E.prog.length then
        let s := adv s
        -- `thread`: ScriptClass::CreateThreadInternal (same group); `waitthread`: Listener::CreateThreadInternal (new ScriptClass)
        let (child, s) := newThread s label (if w then none else some th.grp) (if w then some c else none)
        let s := if w then startedWaitFor s c else s
        enterSei E { s with stack := me :: rest } child
      else
        -- LabelNotFound is a ScriptException
        { adv s with stack := me :: rest, exc := some .scriptError }

/-- normal execution of the top frame `f` -/
def runFrame (E : Env) (s : St) (f : Frame) (rest : List Frame) : St :=
  match f with
  | .vm t dl ct post n =>
    if post then
      -- `if (interruptTime && cmdTime >= interruptTime && state == Running) throw CommandOverflow();`
      if dl ≠ 0 ∧ ct ≥ dl ∧ vmRunning s t = true then { s with exc := some .overflow }
      else
        -- `cmdTime = GetTime();`
        let ct' := s.now
        let s := tick E s
        { s with stack := .vm t dl ct' false n :: rest }
    else
      match find s.threads t with
      | none => exitVM s t rest
      | some th =>
        if th.vs ≠ .running then exitVM s t rest
        else execOp E s t th dl ct n rest (((E.prog.getD th.label []).getD th.pc .done))
  | .sei t saved =>
    -- restore, then `Director.ExecuteRunning()`
    let s := { s with cur := safe s saved, prev := safe s (some t) }
    execRunningCall s rest
  | .thrExec => { s with stack := rest }
  | .notify pending =>
    match pending with
    | [] => { s with stack := rest }
    | w :: ws =>
      let s := { s with stack := .notify ws :: rest }
      match find s.threads w with
      | none => s                       -- weak reference already cleared
      | some wt =>
        -- StoppedWaitFor(name ≠ 0, false)
        if wt.ts == .waiting then
          if wt.vs == .idling then enterSei E { s with stack := .thrExec :: s.stack } w
          else { s with threads := upd s.threads w (fun x => { x with vs := if x.vs == .suspended then .running else x.vs }) }
        else s
  | .execRunning =>
    -- `while ((m_CurrentThread = timerList.GetNextElement(i))) { try { Resume(); } … }`
    match s.timer.next with
    | (none, tm) => { s with cur := none, timer := tm, stack := rest }
    | (some (t, _), tm) =>
      if alive s t then
        let s := { s with cur := some t, timer := tm, threads := upd s.threads t (fun x => { x with ts := .running }) }
        enterVM E s t
      else setUb s                      -- a timer element is a raw pointer
  | .ctxExec => { s with stack := rest }

/-- What the step taken from `s` writes to the streams.  Every write in the transcribed code has the
    form `if (stream) *stream << …` (after fixes e689d04, 56147d9) and no other effect, so the
    transition function `step` below does not read the stream flags at all; the guards are here.
    * `HandleScriptExceptionAbort`: Verbose "----FRAME: <depth>", Error source position (developer mode)
    * `catch (CommandOverflow&)` with protection off: Debug "Update of script position"
    * `HandleScriptException`: Warn "^~^~^ Script Warning"
    * `println`: Output -/
def diagOf (E : Env) (s : St) : List Diag :=
  if s.ub then [] else
  match s.stack, s.exc with
  | .vm _ _ _ _ _ :: _, some .overflow =>
    if E.cfg.prot then
      (if E.cfg.sVerb then [.verbFrame s.depth] else []) ++ (if E.cfg.sErr && E.cfg.dev then [.errPos] else [])
    else (if E.cfg.sDbg then [.dbgUpdate] else [])
  | .vm _ _ _ _ _ :: _, some .scriptError => if E.cfg.sWarn then [.warn] else []
  | .vm _ _ _ _ _ :: _, some _ =>
    (if E.cfg.sVerb then [.verbFrame s.depth] else []) ++ (if E.cfg.sErr && E.cfg.dev then [.errPos] else [])
  | .vm t _ _ false _ :: _, none =>
    match find s.threads t with
    | some th =>
      if th.vs == .running then
        match (E.prog.getD th.label []).getD th.pc .done with
        | .print m => if E.cfg.sOut then [.out m] else []
        | _ => []
      else []
    | none => []
  | _, _ => []

def step (E : Env) (s : St) : St :=
  if s.ub then s else
  match s.stack with
  | [] => s
  | f :: rest =>
    match s.exc with
    | some e => unwindFrame E s e f rest
    | none => runFrame E s f rest

def run (E : Env) : Nat → St → St
  | 0, s => s
  | k + 1, s => run E k (step E s)

def halted (s : St) : Bool := s.stack.isEmpty || s.ub

/-- the machine together with what it has written to the streams -/
def stepD (E : Env) (x : St × List Diag) : St × List Diag := (step E x.1, x.2 ++ diagOf E x.1)

def runD (E : Env) : Nat → St × List Diag → St × List Diag
  | 0, x => x
  | k + 1, x => runD E k (stepD E x)

/-! ### host operations (each starts in a halted state and pushes the outermost frames) -/

/-- `ScriptMaster::ExecuteThread(script, Event, label)`: `CreateScriptThread`, then `thread->Execute(parms)` -/
def startCall (E : Env) (s : St) (label : Nat) : St :=
  let s := { s with exc := none }
  let (t, s) := newThread s label none none
  enterSei E { s with stack := [.thrExec] } t

/-- `ScriptContext::Execute()`: `Frame()`, `SetTime(GetTime())`, `ProcessPendingEvents()`, `ExecuteRunning()` -/
def startExecute (E : Env) (s : St) : St :=
  let s := { s with exc := none }
  let r1 := s.now
  let s := tick E s
  let s := { s with scaled := s.scaled + (r1 - s.last), last := r1 }
  let r2 := s.now
  let s := tick E s
  let s := { s with timer := s.timer.setTime (r2 - s.start) }
  let s := tick E s            -- ProcessPendingEvents reads the clock; the queue is empty in this class
  execRunningCall s [.ctxExec]

/-- `ScriptMaster::Reset()`: every instance, thread and VM is destroyed; the `SafePtr`s become null;
    `ScriptExecutionStack::stackDepth` is a thread_local static and is *not* touched -/
def resetDirector (s : St) : St :=
  { s with exc := none, threads := [], timer := { s.timer with elems := [] }, lvl := [], cur := none, prev := none }

/-- a fresh `ScriptContext` (harness `c14reset`): new director, new `TimeManager` (reads the clock) -/
def fresh (E : Env) (s : St) : St :=
  let s' : St := { depth := s.depth, now := s.now, reads := s.reads, start := s.now, last := s.now }
  tick E s'

/-- run to completion with fuel; `none` = still running (the host call did not return) -/
def runToHalt (E : Env) : Nat → St × List Diag → Option (St × List Diag)
  | 0, x => if halted x.1 then some x else none
  | k + 1, x => if halted x.1 then some x else runToHalt E k (stepD E x)

end Morfuse.Unwind
