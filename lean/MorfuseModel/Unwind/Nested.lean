import MorfuseModel.Unwind.Timing
/-!
# Unwind model — one termination bound for programs that nest (thread chains, mutual recursion)

Class `Nest prog` (decidable, syntactic): every opcode is `nop`, a jump, a counter opcode, `println`, `end`,
`error "x" 1` (abort), `thread l` with a valid label or `wait d` (its delay is constrained by `WaitOK`:
not due before the next frame) — no `waitthread`, `waittill`, `notify`
(nothing that re-times a thread or wakes another one), no recoverable `error "x"`.

Potential: a `ScriptVM::Execute` frame with `n` instructions executed, sitting at height
`h = maxStackDepth − (VM frames below it)`, weighs `(N − n)·W(h) + (2 after / 1 before the instruction body)`
with `N = L/δ + 1`, `W(0) = 3`, `W(h+1) = N·W(h) + 6`; `ScriptExecuteInternal` weighs 2, every other frame 1;
each timer element weighs `C = N·W(maxStackDepth) + 3` (one top-level activation); an exception in flight
weighs the number of frames.  Every step of a non-halted good state lowers the potential.
-/
namespace Morfuse.Unwind

/-! ### the class -/
def GOp (nlabels : Nat) : Op → Bool
  | .nop => true
  | .jmp _ => true
  | .setc _ => true
  | .loopTest _ => true
  | .print _ => true
  | .done => true
  | .wait _ => true
  | .raise ab => ab
  | .spawn l w => !w && decide (l < nlabels)
  | _ => false

def Nest (prog : Prog) : Bool := prog.all (fun code => code.all (GOp prog.length))

theorem nest_op {prog : Prog} (h : Nest prog = true) (l pc : Nat) :
    GOp prog.length ((prog.getD l []).getD pc .done) = true := by
  unfold Nest at h
  rw [List.all_eq_true] at h
  by_cases hl : l < prog.length
  · have hc := h (prog[l]) (List.getElem_mem hl)
    rw [List.all_eq_true] at hc
    have e1 : prog.getD l [] = prog[l] := by simp [List.getD, hl]
    rw [e1]
    by_cases hp : pc < prog[l].length
    · have e2 : (prog[l]).getD pc .done = (prog[l])[pc] := by simp [List.getD, hp]
      rw [e2]; exact hc _ (List.getElem_mem hp)
    · have e2 : (prog[l]).getD pc .done = .done := by simp [List.getD, hp]
      rw [e2]; rfl
  · have e1 : prog.getD l [] = [] := by simp [List.getD, hl]
    rw [e1]; rfl

/-! ### structural invariants -/
def NoJoin (l : List (Tid × Thr)) : Prop := ∀ p ∈ l, p.2.joinedBy = none

theorem nojoin_upd {l : List (Tid × Thr)} (h : NoJoin l) (t : Tid) (f : Thr → Thr)
    (hf : ∀ x, x.joinedBy = none → (f x).joinedBy = none) : NoJoin (upd l t f) := by
  intro p hp
  unfold upd at hp
  obtain ⟨q, hq, rfl⟩ := List.mem_map.mp hp
  split
  · exact hf _ (h q hq)
  · exact h q hq

theorem nojoin_del {l : List (Tid × Thr)} (h : NoJoin l) (t : Tid) : NoJoin (del l t) := by
  intro p hp
  exact h p (List.mem_filter.mp hp).1

theorem nojoin_append {l : List (Tid × Thr)} (h : NoJoin l) (t : Tid) (th : Thr) (ht : th.joinedBy = none) :
    NoJoin (l ++ [(t, th)]) := by
  intro p hp
  rcases List.mem_append.mp hp with hp | hp
  · exact h p hp
  · simp at hp; subst hp; exact ht

theorem stopThread_nojoin {s : St} (h : NoJoin s.threads) (t : Tid) : NoJoin (stopThread s t).threads := by
  unfold stopThread
  split
  · split
    · dsimp only; apply nojoin_upd h; intro _ hx; exact hx
    · intro p hp
      simp only at hp
      obtain ⟨q, hq, rfl⟩ := List.mem_map.mp hp
      have := nojoin_upd h t (fun th => { th with ts := TState.running }) (fun _ hx => hx) q hq
      split
      · rfl
      · exact this
    · exact h
  · exact h

theorem enterVM_nojoin (E : Env) {s : St} (h : NoJoin s.threads) (t : Tid) : NoJoin (enterVM E s t).threads := by
  unfold enterVM
  split
  · dsimp only; apply nojoin_upd h; intro _ hx; exact hx
  · split <;> (dsimp only [tick]; apply nojoin_upd h; intro _ hx; exact hx)

theorem enterSei_nojoin (E : Env) {s : St} (h : NoJoin s.threads) (t : Tid) : NoJoin (enterSei E s t).threads := by
  unfold enterSei
  apply enterVM_nojoin
  exact stopThread_nojoin (s := { s with prev := s.cur, cur := some t }) h t

theorem find_mem {l : List (Tid × Thr)} {t : Tid} {th : Thr} (h : find l t = some th) : ∃ a, (a, th) ∈ l := by
  unfold find at h
  cases hx : l.find? (fun p => p.1 == t) with
  | none => rw [hx] at h; cases h
  | some p =>
    rw [hx] at h
    simp at h
    exact ⟨p.1, by have := List.mem_of_find?_eq_some hx; rw [← h]; exact this⟩

theorem endThread_nojoin {s : St} (h : NoJoin s.threads) (t : Tid) : NoJoin (endThread s t).threads := by
  unfold endThread
  split
  · exact h
  · rename_i th hth
    obtain ⟨a, ha⟩ := find_mem hth
    have hj : th.joinedBy = none := h _ ha
    simp only [hj]
    exact nojoin_del (stopThread_nojoin h t) t

/-- with no `waitthread` caller registered, ending a thread never adds a timer element -/
theorem endThread_timer {s : St} (h : NoJoin s.threads) (t : Tid) :
    (endThread s t).timer.elems.length ≤ s.timer.elems.length := by
  unfold endThread
  split
  · exact Nat.le_refl _
  · rename_i th hth
    obtain ⟨a, ha⟩ := find_mem hth
    have hj : th.joinedBy = none := h _ ha
    simp only [hj]
    unfold stopThread
    split
    · split
      · simp only [Sched.Timer.remove]
        split
        · simp [List.length_eraseIdx]; split <;> omega
        · exact Nat.le_refl _
      · exact Nat.le_refl _
      · exact Nat.le_refl _
    · exact Nat.le_refl _

theorem stopThread_timer (s : St) (t : Tid) : (stopThread s t).timer.elems.length ≤ s.timer.elems.length := by
  unfold stopThread
  split
  · split
    · simp only [Sched.Timer.remove]
      split
      · simp [List.length_eraseIdx]; split <;> omega
      · exact Nat.le_refl _
    · exact Nat.le_refl _
    · exact Nat.le_refl _
  · exact Nat.le_refl _

/-- below the top: no notify loop, every VM frame is in the middle of an instruction -/
def lowOK : List Frame → Prop
  | [] => True
  | .vm _ _ _ post _ :: r => post = true ∧ lowOK r
  | .notify _ :: _ => False
  | .thrExec :: r => lowOK r
  | .sei _ _ :: r => lowOK r
  | .execRunning :: r => lowOK r
  | .ctxExec :: r => lowOK r

def topOK : Frame → Prop
  | .notify _ => False
  | _ => True

def StackG : List Frame → Prop
  | [] => True
  | f :: r => topOK f ∧ lowOK r

theorem lowOK_stackG : ∀ {l : List Frame}, lowOK l → StackG l
  | [], _ => trivial
  | .vm _ _ _ _ _ :: _, h => ⟨trivial, h.2⟩
  | .notify _ :: _, h => h.elim
  | .thrExec :: _, h => ⟨trivial, h⟩
  | .sei _ _ :: _, h => ⟨trivial, h⟩
  | .execRunning :: _, h => ⟨trivial, h⟩
  | .ctxExec :: _, h => ⟨trivial, h⟩

structure GoodS (s : St) : Prop where
  stack : StackG s.stack
  nojoin : NoJoin s.threads
  exc : ∀ e, s.exc = some e → e.isAbort = true

theorem enterVM_stackG (E : Env) (s : St) (t : Tid) (h : lowOK s.stack) : StackG (enterVM E s t).stack := by
  by_cases hd : s.depth > E.cfg.maxDepth
  · rw [(enterVM_over E s t hd).1]; exact lowOK_stackG h
  · obtain ⟨dl, ct, h1, _⟩ := enterVM_ok E s t hd
    rw [h1]; exact ⟨trivial, h⟩

theorem enterVM_excAbort (E : Env) (s : St) (t : Tid) (h : s.exc = none) : ∀ e, (enterVM E s t).exc = some e → e.isAbort = true := by
  intro e he
  rcases enterVM_exc E s t none h s.depth rfl with h1 | ⟨h1, _⟩
  · rw [h1] at he; cases he
  · rw [h1] at he; cases he; rfl

theorem enterSei_good (E : Env) (s : St) (t : Tid) (hl : lowOK s.stack) (hj : NoJoin s.threads) (he : s.exc = none) :
    GoodS (enterSei E s t) := by
  unfold enterSei
  refine ⟨?_, ?_, ?_⟩
  · apply enterVM_stackG; simpa [lowOK] using hl
  · apply enterVM_nojoin; exact stopThread_nojoin (s := { s with prev := s.cur, cur := some t }) hj t
  · apply enterVM_excAbort; simpa using he

theorem endThread_exc' (s : St) (t : Tid) : (endThread s t).exc = s.exc := endThread_exc s t

theorem execOp_good (E : Env) (hcls : Nest E.prog = true) (s : St) (t : Tid) (th : Thr) (dl ct n : Nat) (rest : List Frame)
    (op : Op) (hop : GOp E.prog.length op = true) (hst : s.stack = .vm t dl ct false n :: rest) (hexc : s.exc = none)
    (h : GoodS s) : GoodS (execOp E s t th dl ct n rest op) := by
  have hlow : lowOK rest := by have := h.stack; rw [hst] at this; exact this.2
  have hme : StackG (Frame.vm t dl ct true (n + 1) :: rest) := ⟨trivial, hlow⟩
  have hupd : ∀ f : Thr → Thr, (∀ x, x.joinedBy = none → (f x).joinedBy = none) → NoJoin (upd s.threads t f) :=
    fun f hf => nojoin_upd h.nojoin t f hf
  have hnone : ∀ e, s.exc = some e → e.isAbort = true := h.exc
  cases op <;> simp only [GOp, Bool.false_eq_true] at hop <;> simp only [execOp]
  case nop => exact ⟨hme, (by dsimp only; apply nojoin_upd h.nojoin; intro _ hx; exact hx), hnone⟩
  case jmp => exact ⟨hme, (by dsimp only; apply nojoin_upd h.nojoin; intro _ hx; exact hx), hnone⟩
  case setc => exact ⟨hme, (by dsimp only; apply nojoin_upd h.nojoin; intro _ hx; exact hx), hnone⟩
  case loopTest => split <;> exact ⟨hme, (by dsimp only; apply nojoin_upd h.nojoin; intro _ hx; exact hx), hnone⟩
  case print => exact ⟨hme, (by dsimp only; apply nojoin_upd h.nojoin; intro _ hx; exact hx), hnone⟩
  case done => exact ⟨hme, endThread_nojoin h.nojoin t, by simpa using hnone⟩
  case wait ms =>
    refine ⟨hme, ?_, by simpa using hnone⟩
    dsimp only
    have h1 : NoJoin (upd s.threads t (fun x => { x with pc := th.pc + 1 })) := by
      apply nojoin_upd h.nojoin; intro _ hx; exact hx
    have h2 := stopThread_nojoin (s := { s with threads := upd s.threads t (fun x => { x with pc := th.pc + 1 }) }) h1 t
    apply nojoin_upd h2; intro _ hx; exact hx
  case raise ab =>
    subst hop
    exact ⟨hme, (by dsimp only; apply nojoin_upd h.nojoin; intro _ hx; exact hx), by intro e he; simp at he; subst he; rfl⟩
  case spawn l w =>
    have hw : w = false := by cases w <;> simp_all
    subst hw
    have hl : l < E.prog.length := by simpa using hop
    split
    · exact ⟨by simpa [setUb] using h.stack, h.nojoin, hnone⟩
    · simp only [hl, if_true, newThread]
      apply enterSei_good
      · simp only [Bool.false_eq_true, if_false]; exact ⟨rfl, hlow⟩
      · simp only [Bool.false_eq_true, if_false]
        apply nojoin_append _ _ _ rfl; apply nojoin_upd h.nojoin; intro _ hx; exact hx
      · simp only [Bool.false_eq_true, if_false]; exact hexc

theorem step_good (E : Env) (hcls : Nest E.prog = true) (hp : E.cfg.prot = true) (s : St) (h : GoodS s) : GoodS (step E s) := by
  unfold step
  split
  · exact h
  split
  · exact h
  rename_i f rest hst
  have hsg := h.stack
  rw [hst] at hsg
  have hlow : lowOK rest := hsg.2
  have hrest : StackG rest := lowOK_stackG hlow
  split
  · rename_i e he
    have ha := h.exc e he
    cases f with
    | vm t dl ct post n =>
      have hab : GoodS (vmAbort s t rest) :=
        ⟨hrest, by dsimp only [vmAbort]; apply nojoin_upd h.nojoin; intro _ hx; exact hx, h.exc⟩
      cases e <;> simp only [unwindFrame, hp, if_true]
      · exact hab
      · exact hab
      · exact hab
      · simp [Exc.isAbort] at ha
    | sei t saved => exact ⟨hrest, h.nojoin, h.exc⟩
    | thrExec => simp only [unwindFrame, ha, if_true]; exact ⟨hrest, h.nojoin, h.exc⟩
    | notify p => exact hsg.1.elim
    | execRunning => exact ⟨hrest, h.nojoin, h.exc⟩
    | ctxExec => exact ⟨hrest, h.nojoin, h.exc⟩
  · rename_i hn
    cases f with
    | vm t dl ct post n =>
      simp only [runFrame]
      split
      · split
        · exact ⟨by rw [hst]; exact hsg, h.nojoin, by intro e he; simp at he; subst he; rfl⟩
        · exact ⟨⟨trivial, hlow⟩, h.nojoin, by simpa [hn]⟩
      · rename_i hpost
        have hpf : post = false := by simpa using hpost
        subst hpf
        split
        · exact ⟨hrest, by dsimp only [exitVM]; apply nojoin_upd h.nojoin; intro _ hx; exact hx, by simpa [exitVM, hn]⟩
        · split
          · exact ⟨hrest, by dsimp only [exitVM]; apply nojoin_upd h.nojoin; intro _ hx; exact hx, by simpa [exitVM, hn]⟩
          · exact execOp_good E hcls s t _ dl ct n rest _ (nest_op hcls _ _) hst hn h
    | sei t saved =>
      simp only [runFrame, execRunningCall]
      split
      · exact ⟨hrest, h.nojoin, by simpa [hn]⟩
      · split
        · exact ⟨⟨trivial, hlow⟩, h.nojoin, by simpa [hn]⟩
        · exact ⟨hrest, h.nojoin, by simpa [hn]⟩
    | thrExec => exact ⟨hrest, h.nojoin, by simpa [runFrame, hn]⟩
    | notify p => exact hsg.1.elim
    | execRunning =>
      simp only [runFrame]
      split
      · exact ⟨hrest, h.nojoin, by simpa [hn]⟩
      · split
        · refine ⟨?_, ?_, ?_⟩
          · apply enterVM_stackG; simpa [hst, lowOK] using hlow
          · apply enterVM_nojoin; dsimp only; apply nojoin_upd h.nojoin; intro _ hx; exact hx
          · apply enterVM_excAbort; simpa using hn
        · exact ⟨by simpa [setUb, hst] using hsg, h.nojoin, h.exc⟩
    | ctxExec => exact ⟨hrest, h.nojoin, by simpa [runFrame, hn]⟩

end Morfuse.Unwind
