import MorfuseModel.Unwind.Due
/-!
# Unwind model — the potential that every step lowers (class `Nest`, protection on)
-/
namespace Morfuse.Unwind
open Morfuse.Sched

/-- weight of one instruction of an activation at height `h` (= nesting still available below the limit) -/
def W (N : Nat) : Nat → Nat
  | 0 => 3
  | h + 1 => N * W N h + 6

theorem W_ge3 (N : Nat) : ∀ h, 3 ≤ W N h
  | 0 => Nat.le_refl _
  | h + 1 => by simp only [W]; omega

theorem W_step_le (N : Nat) (hN : 1 ≤ N) (h : Nat) : W N h ≤ W N (h + 1) := by
  simp only [W]
  have : W N h ≤ N * W N h := Nat.le_mul_of_pos_left _ hN
  omega

theorem W_mono (N : Nat) (hN : 1 ≤ N) : ∀ {a b : Nat}, a ≤ b → W N a ≤ W N b := by
  intro a b hab
  induction b with
  | zero => have : a = 0 := by omega
            subst this; exact Nat.le_refl _
  | succ b ih =>
    by_cases h : a = b + 1
    · subst h; exact Nat.le_refl _
    · exact Nat.le_trans (ih (by omega)) (W_step_le N hN b)

def pot (N D : Nat) : List Frame → Nat
  | [] => 0
  | .vm _ _ _ post n :: r => (N - n) * W N (D - vmCount r) + (if post then 2 else 1) + pot N D r
  | .sei _ _ :: r => 2 + pot N D r
  | .thrExec :: r => 1 + pot N D r
  | .notify _ :: r => 1 + pot N D r
  | .execRunning :: r => 1 + pot N D r
  | .ctxExec :: r => 1 + pot N D r

theorem pot_ge_length (N D : Nat) : ∀ l : List Frame, l.length ≤ pot N D l
  | [] => Nat.le_refl _
  | .vm _ _ _ post n :: r => by
    have := pot_ge_length N D r
    cases post <;> simp [pot] <;> omega
  | .sei _ _ :: r => by have := pot_ge_length N D r; simp [pot]; omega
  | .thrExec :: r => by have := pot_ge_length N D r; simp [pot]; omega
  | .notify _ :: r => by have := pot_ge_length N D r; simp [pot]; omega
  | .execRunning :: r => by have := pot_ge_length N D r; simp [pot]; omega
  | .ctxExec :: r => by have := pot_ge_length N D r; simp [pot]; omega

/-- what one timer element may still cost: a whole top-level activation -/
def Cw (N D : Nat) : Nat := N * W N D + 3

def phi (N D : Nat) (s : St) : Nat :=
  if s.ub then 0
  else if s.exc.isSome then s.stack.length
  else pot N D s.stack + dueCount s.timer * Cw N D

theorem phi_exc {N D : Nat} {s : St} {e : Exc} (hu : s.ub = false) (he : s.exc = some e) :
    phi N D s = s.stack.length := by simp [phi, hu, he]

theorem phi_norm {N D : Nat} {s : St} (hu : s.ub = false) (he : s.exc = none) :
    phi N D s = pot N D s.stack + dueCount s.timer * Cw N D := by simp [phi, hu, he]

theorem sub_mul_step {N n : Nat} (a : Nat) (h : n < N) : (N - n) * a = (N - (n + 1)) * a + a := by
  have : N - n = (N - (n + 1)) + 1 := by omega
  rw [this, Nat.add_mul, Nat.one_mul]

/-- a VM in the fetch phase whose thread is still running has passed all its checks: `n·δ < L` -/
def TopFetch (δ L : Nat) (s : St) : Prop :=
  ∀ t dl ct n rest, s.stack = .vm t dl ct false n :: rest → vmRunning s t = true → n * δ < L

theorem lowOK_no_fetch {t : Tid} {dl ct n : Nat} {r : List Frame} (h : lowOK (.vm t dl ct false n :: r)) : False := by
  simp [lowOK] at h

theorem topFetch_of_low {δ L : Nat} {s : St} (h : lowOK s.stack) : TopFetch δ L s := by
  intro t dl ct n rest hst _
  rw [hst] at h
  exact (lowOK_no_fetch h).elim

theorem enterVM_timer (E : Env) (s : St) (t : Tid) : (enterVM E s t).timer = s.timer := by
  unfold enterVM; (repeat' split) <;> simp [tick]

/-- `ScriptExecuteInternal` entered: either the new VM is refused or it is on top -/
theorem enterSei_cases (E : Env) (s : St) (t : Tid) :
    (dueCount (enterSei E s t).timer ≤ dueCount s.timer ∧ (enterSei E s t).ub = s.ub) ∧
    ((s.depth > E.cfg.maxDepth ∧ (enterSei E s t).stack = .sei t s.cur :: s.stack ∧ (enterSei E s t).exc = some .depth) ∨
     (¬ s.depth > E.cfg.maxDepth ∧ ∃ dl ct, (enterSei E s t).stack = .vm t dl ct false 0 :: .sei t s.cur :: s.stack ∧
        (enterSei E s t).exc = s.exc)) := by
  unfold enterSei
  have ht := stopThread_due { s with prev := s.cur, cur := some t } t
  by_cases hd : s.depth > E.cfg.maxDepth
  · obtain ⟨h1, _, h3, _, h5, _⟩ := enterVM_over E { (stopThread { s with prev := s.cur, cur := some t } t) with
        stack := .sei t s.cur :: (stopThread { s with prev := s.cur, cur := some t } t).stack } t (by simpa using hd)
    refine ⟨⟨?_, ?_⟩, Or.inl ⟨hd, ?_, h3⟩⟩
    · rw [enterVM_timer]; simpa using ht
    · rw [h5]; simp
    · rw [h1]; simp
  · obtain ⟨dl, ct, h1, _, h3, _, h5, _⟩ := enterVM_ok E { (stopThread { s with prev := s.cur, cur := some t } t) with
        stack := .sei t s.cur :: (stopThread { s with prev := s.cur, cur := some t } t).stack } t (by simpa using hd)
    refine ⟨⟨?_, ?_⟩, Or.inr ⟨hd, dl, ct, ?_, ?_⟩⟩
    · rw [enterVM_timer]; simpa using ht
    · rw [h5]; simp
    · rw [h1]; simp
    · rw [h3]; simp

/-- the standing assumptions: class, protection on, non-zero limit, a clock that advances -/
structure Ctx (E : Env) (δ : Nat) : Prop where
  cls : Nest E.prog = true
  prot : E.cfg.prot = true
  hL : E.cfg.maxExec ≠ 0
  hδ : 0 < δ
  inc : ∀ i, E.inc i ≥ δ

/-- every `wait d` of the program is not due before the next frame: `m_time < scaledTime + d` -/
def WaitOK (E : Env) (s : St) : Prop :=
  ∀ l pc ms, (E.prog.getD l []).getD pc .done = .wait ms → s.timer.mtime < s.scaled + ms

structure Good (E : Env) (δ : Nat) (s : St) : Prop where
  inv : Inv 0 s
  ok : AllOK δ E.cfg.maxExec s
  gs : GoodS s
  tf : TopFetch δ E.cfg.maxExec s
  wok : WaitOK E s

theorem execOp_dec (E : Env) (δ : Nat) (C : Ctx E δ) (s : St) (g : Good E δ s) (t : Tid) (th : Thr) (dl ct n : Nat)
    (rest : List Frame) (op : Op) (hop : GOp E.prog.length op = true) (hst : s.stack = .vm t dl ct false n :: rest)
    (hexc : s.exc = none) (hub : s.ub = false) (hrun : vmRunning s t = true)
    (hw : ∀ ms, op = .wait ms → s.timer.mtime < s.scaled + ms) :
    let N := E.cfg.maxExec / δ + 1
    let D := E.cfg.maxDepth
    TopFetch δ E.cfg.maxExec (execOp E s t th dl ct n rest op) ∧
    phi N D (execOp E s t th dl ct n rest op) < phi N D s := by
  intro N D
  have hn : n < N := by
    have := g.tf t dl ct n rest hst hrun
    have h2 : n ≤ E.cfg.maxExec / δ := (Nat.le_div_iff_mul_le C.hδ).mpr (Nat.le_of_lt this)
    show n < E.cfg.maxExec / δ + 1
    omega
  have hlow : lowOK rest := by have := g.gs.stack; rw [hst] at this; exact this.2
  have ha3 := W_ge3 N (D - vmCount rest)
  have hsm := sub_mul_step (W N (D - vmCount rest)) hn
  have hpl := pot_ge_length N D rest
  have hold : phi N D s = (N - n) * W N (D - vmCount rest) + 1 + pot N D rest + dueCount s.timer * Cw N D := by
    simp [phi, hub, hexc, hst, pot]
  have hdep : s.depth = vmCount rest + 1 := by have := g.inv.depth; rw [hst] at this; simpa [vmCount] using this
  -- the frame after the instruction body, on top of `rest`, with a timer that did not grow
  have simple : ∀ s' : St, s'.stack = .vm t dl ct true (n + 1) :: rest → s'.exc = none → s'.ub = false →
      dueCount s'.timer ≤ dueCount s.timer →
      TopFetch δ E.cfg.maxExec s' ∧ phi N D s' < phi N D s := by
    intro s' h1 h2 h3 h4
    refine ⟨?_, ?_⟩
    · intro t' dl' ct' n' r' hst' _; rw [h1] at hst'; cases hst'
    · have : phi N D s' = (N - (n + 1)) * W N (D - vmCount rest) + 2 + pot N D rest + dueCount s'.timer * Cw N D := by
        simp [phi, h3, h2, h1, pot]
      rw [this, hold, hsm]
      have := Nat.mul_le_mul_right (Cw N D) h4
      omega
  cases op <;> simp only [GOp, Bool.false_eq_true] at hop <;> simp only [execOp]
  case nop => exact simple _ rfl hexc hub (Nat.le_refl _)
  case jmp => exact simple _ rfl hexc hub (Nat.le_refl _)
  case setc => exact simple _ rfl hexc hub (Nat.le_refl _)
  case loopTest => split <;> exact simple _ rfl hexc hub (Nat.le_refl _)
  case print => exact simple _ rfl hexc hub (Nat.le_refl _)
  case done => exact simple _ rfl (by simpa using hexc) (by simpa using hub) (endThread_due g.gs.nojoin t)
  case wait ms =>
    refine simple _ rfl (by simpa using hexc) (by simpa using hub) ?_
    have hlater := hw ms rfl
    dsimp only
    rw [dueCount_add_later _ _ _ (by rw [stopThread_mtime, stopThread_scaled]; exact hlater)]
    exact stopThread_due _ t
  case raise ab =>
    subst hop
    have excCase : ∀ s' : St, s'.ub = false → s'.exc = some Exc.abort → s'.stack = Frame.vm t dl ct true (n + 1) :: rest →
        TopFetch δ E.cfg.maxExec s' ∧ phi N D s' < phi N D s := by
      intro s' h1 h2 h3
      refine ⟨?_, ?_⟩
      · intro t' dl' ct' n' r' hst' _; rw [h3] at hst'; cases hst'
      · rw [phi_exc h1 h2, h3, hold, hsm]
        simp only [List.length_cons]
        omega
    exact excCase _ hub (by simp) rfl
  case spawn l w =>
    have hw : w = false := by cases w <;> simp_all
    subst hw
    have hl : l < E.prog.length := by simpa using hop
    have key : ∀ s2 : St, s2.stack = Frame.vm t dl ct true (n + 1) :: rest → s2.exc = none → s2.ub = false →
        s2.depth = s.depth → s2.timer = s.timer →
        TopFetch δ E.cfg.maxExec (enterSei E s2 s.nextTid) ∧ phi N D (enterSei E s2 s.nextTid) < phi N D s := by
      intro s2 e1 e2 e3 e4 e5
      obtain ⟨⟨ht, hu⟩, hcase⟩ := enterSei_cases E s2 s.nextTid
      rw [e5] at ht
      rw [e3] at hu
      rcases hcase with ⟨hd, hstk, hex⟩ | ⟨hd, dl', ct', hstk, hex⟩
      · refine ⟨?_, ?_⟩
        · intro t' dl'' ct'' n' r' hst' _; rw [hstk] at hst'; cases hst'
        · rw [phi_exc hu hex, hstk, e1, hold, hsm]
          simp only [List.length_cons]
          omega
      · refine ⟨?_, ?_⟩
        · intro t' dl'' ct'' n' r' hst' _
          rw [hstk] at hst'
          cases hst'
          simp only [Nat.zero_mul]
          exact Nat.pos_of_ne_zero C.hL
        · rw [e4] at hd
          have hh : D - vmCount rest = (D - (vmCount rest + 1)) + 1 := by
            show E.cfg.maxDepth - vmCount rest = _
            omega
          have hW : W N (D - vmCount rest) = N * W N (D - (vmCount rest + 1)) + 6 := by rw [hh]; rfl
          rw [phi_norm hu (by rw [hex]; exact e2), hstk, e1, hold, hsm]
          simp only [pot, vmCount, Nat.sub_zero, Bool.false_eq_true, if_false, if_true]
          have := Nat.mul_le_mul_right (Cw N D) ht
          omega
    split
    · refine ⟨by intro t' dl' ct' n' r' hst' hr'; exact g.tf t' dl' ct' n' r' hst' hr', ?_⟩
      simp only [setUb]
      rw [hold]; simp [phi]; omega
    · simp only [hl, if_true, newThread, Bool.false_eq_true, if_false]
      exact key _ rfl hexc hub rfl rfl

theorem step_dec (E : Env) (δ : Nat) (C : Ctx E δ) (s : St) (g : Good E δ s) (hnh : halted s = false) :
    let N := E.cfg.maxExec / δ + 1
    let D := E.cfg.maxDepth
    TopFetch δ E.cfg.maxExec (step E s) ∧ phi N D (step E s) < phi N D s := by
  intro N D
  have hub : s.ub = false := by simp [halted] at hnh; exact hnh.2
  have hne : s.stack ≠ [] := by simp [halted] at hnh; exact hnh.1
  have hN1 : 1 ≤ N := Nat.succ_le_succ (Nat.zero_le _)
  cases hst : s.stack with
  | nil => exact absurd hst hne
  | cons f rest =>
    have hsg := g.gs.stack
    rw [hst] at hsg
    have hlow : lowOK rest := hsg.2
    have hpl := pot_ge_length N D rest
    have tfRest : ∀ s' : St, s'.stack = rest → TopFetch δ E.cfg.maxExec s' := by
      intro s' h1; apply topFetch_of_low; rw [h1]; exact hlow
    cases hexc : s.exc with
    | some e =>
      have ha := g.gs.exc e hexc
      obtain ⟨h1, h2, h3⟩ := unwind_step E s e f rest hst hexc ha (fun _ => C.prot) hub
      refine ⟨tfRest _ h1, ?_⟩
      rw [phi_exc h3 h2, phi_exc hub hexc, h1, hst]
      simp
    | none =>
      have hstep : step E s = runFrame E s f rest := by simp [step, hub, hst, hexc]
      have hold := phi_norm (N := N) (D := D) hub hexc
      rw [hst] at hold
      rw [hstep]
      cases f with
      | notify p => exact hsg.1.elim
      | thrExec =>
        refine ⟨tfRest _ rfl, ?_⟩
        rw [phi_norm (s := runFrame E s .thrExec rest) hub hexc, hold]
        simp [runFrame, pot]
      | ctxExec =>
        refine ⟨tfRest _ rfl, ?_⟩
        rw [phi_norm (s := runFrame E s .ctxExec rest) hub hexc, hold]
        simp [runFrame, pot]
      | sei t saved =>
        simp only [runFrame, execRunningCall]
        split
        · refine ⟨tfRest _ rfl, ?_⟩
          rw [phi_norm (by exact hub) (by exact hexc), hold]; simp [pot]
        · split
          · refine ⟨by (intro t' dl' ct' n' r' hst' _; cases hst'), ?_⟩
            rw [phi_norm (by exact hub) (by exact hexc), hold]; simp [pot]
          · refine ⟨tfRest _ rfl, ?_⟩
            rw [phi_norm (by exact hub) (by exact hexc), hold]; simp [pot]
      | execRunning =>
        simp only [runFrame]
        split
        · rename_i tm hnx
          have htm := dueCount_next_none hnx
          refine ⟨tfRest _ rfl, ?_⟩
          rw [phi_norm (by exact hub) (by exact hexc), hold]
          simp [pot, htm]
        · rename_i t d tm hnx
          have hlen : dueCount tm + 1 = dueCount s.timer := dueCount_next_some hnx
          split
          · -- Resume(): the thread's VM is entered at the top level
            generalize hs2 : ({ s with cur := some t, timer := tm, threads := upd s.threads t (fun x => { x with ts := TState.running }) } : St) = s2
            have e1 : s2.stack = .execRunning :: rest := by rw [← hs2]; exact hst
            have e2 : s2.exc = none := by rw [← hs2]; exact hexc
            have e3 : s2.ub = false := by rw [← hs2]; exact hub
            have e5 : s2.timer = tm := by rw [← hs2]
            by_cases hd : s2.depth > E.cfg.maxDepth
            · obtain ⟨a1, _, a3, _, a5, _⟩ := enterVM_over E s2 t hd
              refine ⟨by (intro t' dl' ct' n' r' hst' _; rw [a1, e1] at hst'; cases hst'), ?_⟩
              rw [phi_exc (by rw [a5]; exact e3) a3, a1, e1, hold]
              simp only [List.length_cons, pot]
              have : 1 ≤ dueCount s.timer * Cw N D := by
                rw [← hlen]; simp [Cw, Nat.add_mul]; omega
              omega
            · obtain ⟨dl, ct, a1, _, a3, _, a5, _⟩ := enterVM_ok E s2 t hd
              have a6 : (enterVM E s2 t).timer = tm := by
                rw [← e5]; simp only [enterVM, hd, if_false]; split <;> simp [tick]
              refine ⟨?_, ?_⟩
              · intro t' dl' ct' n' r' hst' _
                rw [a1] at hst'; cases hst'
                simp only [Nat.zero_mul]; exact Nat.pos_of_ne_zero C.hL
              · rw [phi_norm (by rw [a5]; exact e3) (by rw [a3]; exact e2), a1, e1, a6, hold, ← hlen]
                simp only [pot, vmCount, Nat.sub_zero, Bool.false_eq_true, if_false, Nat.add_mul, Nat.one_mul]
                have hW : W N (D - vmCount rest) ≤ W N D := W_mono N hN1 (Nat.sub_le _ _)
                have := Nat.mul_le_mul_left N hW
                simp only [Cw]
                omega
          · refine ⟨by intro t' dl' ct' n' r' hst' hr'; exact g.tf t' dl' ct' n' r' (by simpa [setUb] using hst') (by simpa [setUb, vmRunning] using hr'), ?_⟩
            rw [hold]; simp [phi, setUb, pot]; omega
      | vm t dl ct post n =>
        simp only [runFrame]
        have htop := g.ok _ (by rw [hst]; exact List.mem_cons_self)
        simp only [FrameOK] at htop
        split
        · rename_i hpost
          subst hpost
          split
          · -- the check fires
            refine ⟨by (intro t' dl' ct' n' r' hst' _; rw [hst] at hst'; cases hst'), ?_⟩
            rw [phi_exc (e := Exc.overflow) (by exact hub) rfl, hst, hold]
            simp only [List.length_cons, pot, if_true]
            omega
          · rename_i hnf
            refine ⟨?_, ?_⟩
            · intro t' dl' ct' n' r' hst' hr'
              cases hst'
              have hr : vmRunning s t = true := by simpa [vmRunning, tick] using hr'
              have hlt : ct < dl := by
                apply Nat.lt_of_not_le
                intro hle
                exact hnf ⟨htop.1, hle, hr⟩
              have h3 := htop.2.2
              simp at h3
              omega
            · rw [phi_norm (by exact hub) (by exact hexc), hold]
              simp [pot, tick]
        · rename_i hpost
          have hpf : post = false := by simpa using hpost
          subst hpf
          have hexit : TopFetch δ E.cfg.maxExec (exitVM s t rest) ∧ phi N D (exitVM s t rest) < pot N D (Frame.vm t dl ct false n :: rest) + dueCount s.timer * Cw N D := by
            refine ⟨tfRest _ rfl, ?_⟩
            rw [phi_norm (by exact hub) (by exact hexc)]
            simp [exitVM, pot]
          split
          · rw [hold]; exact hexit
          · rename_i th hth
            split
            · rw [hold]; exact hexit
            · rename_i hvs
              have hrun : vmRunning s t = true := by
                have : th.vs = VState.running := by simpa using hvs
                simp [vmRunning, hth, this]
              exact execOp_dec E δ C s g t th dl ct n rest _ (nest_op C.cls _ _) hst hexc hub hrun
                (fun ms hms => g.wok th.label th.pc ms hms)

theorem good_step (E : Env) (δ : Nat) (C : Ctx E δ) (s : St) (g : Good E δ s) (hnh : halted s = false) :
    Good E δ (step E s) :=
  ⟨step_inv E s 0 g.inv, step_allOK E δ C.hL C.inc s g.ok, step_good E C.cls C.prot s g.gs, (step_dec E δ C s g hnh).1,
    by
      intro l pc ms h
      have hc := step_clocks E s
      simp only [clocks, Prod.mk.injEq] at hc
      rw [hc.1, hc.2]
      exact g.wok l pc ms h⟩

/-- a good state halts within `phi` steps -/
theorem halts_within (E : Env) (δ : Nat) (C : Ctx E δ) : ∀ (b : Nat) (s : St), Good E δ s →
    phi (E.cfg.maxExec / δ + 1) E.cfg.maxDepth s ≤ b → ∃ n, n ≤ b ∧ halted (run E n s) = true
  | 0, s, g, hb => by
    by_cases hh : halted s = true
    · exact ⟨0, Nat.le_refl _, hh⟩
    · have := (step_dec E δ C s g (by simpa using hh)).2
      omega
  | b + 1, s, g, hb => by
    by_cases hh : halted s = true
    · exact ⟨0, Nat.zero_le _, hh⟩
    · have hnh : halted s = false := by simpa using hh
      have hd := (step_dec E δ C s g hnh).2
      obtain ⟨n, hn, hr⟩ := halts_within E δ C b (step E s) (good_step E δ C s g hnh) (by omega)
      exact ⟨n + 1, by omega, hr⟩

/-- the state right after `ExecuteThread` -/
theorem startCall_cases (E : Env) (s0 : St) (l : Nat) :
    (dueCount (startCall E s0 l).timer ≤ dueCount s0.timer ∧ (startCall E s0 l).ub = s0.ub) ∧
    (((startCall E s0 l).stack = [.sei s0.nextTid s0.cur, .thrExec] ∧ (startCall E s0 l).exc = some .depth) ∨
     (∃ dl ct, (startCall E s0 l).stack = [.vm s0.nextTid dl ct false 0, .sei s0.nextTid s0.cur, .thrExec] ∧
        (startCall E s0 l).exc = none)) := by
  unfold startCall
  simp only [newThread]
  obtain ⟨h1, h2⟩ := enterSei_cases E
    { s0 with exc := none, threads := s0.threads ++ [(s0.nextTid, { label := l, grp := (none : Option Nat).getD s0.nextTid, joinedBy := none })],
              nextTid := s0.nextTid + 1, stack := [Frame.thrExec] } s0.nextTid
  refine ⟨h1, ?_⟩
  rcases h2 with ⟨_, a, b⟩ | ⟨_, dl, ct, a, b⟩
  · exact Or.inl ⟨a, b⟩
  · exact Or.inr ⟨dl, ct, a, b⟩

end Morfuse.Unwind
