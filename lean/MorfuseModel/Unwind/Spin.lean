import MorfuseModel.Unwind.Lemmas
import MorfuseModel.Sched.Guard
/-!
# Unwind model — the plain runaway loop (`while (1) { … }` shape), step by step

`Spin code`: every opcode of the label is `nop` or a jump to a valid position and execution cannot fall
off the end: the thread never yields, nests, raises or ends.  For such a label the machine is followed
exactly: the stack stays `[vm, sei, thrExec]`, each instruction is two steps (body, time check + clock
read), and the k-th time check compares reading k of the clock with reading 0 + limit — the comparison of
`Sched.Guard.runLoop`.
-/
namespace Morfuse.Unwind

def Spin (code : List Op) : Prop :=
  ∀ pc, pc < code.length →
    (code.getD pc .done = .nop ∧ pc + 1 < code.length) ∨ (∃ k, code.getD pc .done = .jmp k ∧ k < code.length)

theorem find_cons (a : Tid) (x : Thr) (l : List (Tid × Thr)) (t : Tid) :
    find ((a, x) :: l) t = if (a == t) = true then some x else find l t := by
  unfold find
  rw [List.find?_cons]
  cases h : (a == t) <;> simp

theorem upd_cons (a : Tid) (x : Thr) (l : List (Tid × Thr)) (t : Tid) (f : Thr → Thr) :
    upd ((a, x) :: l) t f = (if (a == t) = true then (a, f x) else (a, x)) :: upd l t f := rfl

theorem find_upd_self : ∀ (l : List (Tid × Thr)) (t : Tid) (f : Thr → Thr) (th : Thr),
    find l t = some th → find (upd l t f) t = some (f th)
  | [], _, _, _, h => by simp [find] at h
  | (a, x) :: l, t, f, th, h => by
    rw [upd_cons]
    rw [find_cons] at h
    by_cases ha : (a == t) = true
    · rw [if_pos ha] at h ⊢
      rw [find_cons, if_pos ha]
      cases h; rfl
    · rw [if_neg ha] at h ⊢
      rw [find_cons, if_neg ha]
      exact find_upd_self l t f th h

theorem find_append_new (l : List (Tid × Thr)) (t : Tid) (th : Thr) (h : find l t = none) :
    find (l ++ [(t, th)]) t = some th := by
  unfold find at *
  rw [List.find?_append]
  have : l.find? (fun p => p.1 == t) = none := by
    cases hx : l.find? (fun p => p.1 == t) with
    | none => rfl
    | some y => rw [hx] at h; cases h
  simp [this]

/-- the thread of the loop is alive, running and inside its code -/
def ThrOK (code : List Op) (l : Nat) (s : St) (t : Tid) : Prop :=
  ∃ th, find s.threads t = some th ∧ th.label = l ∧ th.pc < code.length ∧ th.vs = .running

theorem vmRunning_of_ThrOK {code : List Op} {l : Nat} {s : St} {t : Tid} (h : ThrOK code l s t) : vmRunning s t = true := by
  obtain ⟨th, h1, _, _, h4⟩ := h
  simp [vmRunning, h1, h4]

/-- instruction body: one step from the fetch phase -/
theorem spin_fetch (E : Env) (code : List Op) (l : Nat) (hcode : E.prog.getD l [] = code) (hspin : Spin code)
    (s : St) (t : Tid) (dl ct n : Nat) (rest : List Frame)
    (hst : s.stack = .vm t dl ct false n :: rest) (hexc : s.exc = none) (hub : s.ub = false) (hthr : ThrOK code l s t) :
    (step E s).stack = .vm t dl ct true (n + 1) :: rest ∧ (step E s).exc = none ∧ (step E s).ub = false ∧
    (step E s).now = s.now ∧ (step E s).reads = s.reads ∧ (step E s).depth = s.depth ∧ (step E s).cur = s.cur ∧
    ThrOK code l (step E s) t := by
  obtain ⟨th, h1, h2, h3, h4⟩ := hthr
  have hrun : step E s = execOp E s t th dl ct n rest ((E.prog.getD th.label []).getD th.pc .done) := by
    simp [step, hub, hst, hexc, runFrame, h1, h4]
  rw [hrun, h2, hcode]
  rcases hspin th.pc h3 with ⟨hop, hpc⟩ | ⟨k, hop, hk⟩
  · rw [hop]
    refine ⟨rfl, hexc, hub, rfl, rfl, rfl, rfl, ?_⟩
    exact ⟨{ th with pc := th.pc + 1 }, find_upd_self s.threads t (fun x => { x with pc := th.pc + 1 }) th h1, h2, hpc, h4⟩
  · rw [hop]
    refine ⟨rfl, hexc, hub, rfl, rfl, rfl, rfl, ?_⟩
    exact ⟨{ th with pc := k }, find_upd_self s.threads t (fun x => { x with pc := k }) th h1, h2, hk, h4⟩

/-- time check passes: clock read, back to the fetch phase -/
theorem spin_post_pass (E : Env) (code : List Op) (l : Nat) (s : St) (t : Tid) (dl ct n : Nat) (rest : List Frame)
    (hst : s.stack = .vm t dl ct true n :: rest) (hexc : s.exc = none) (hub : s.ub = false) (hthr : ThrOK code l s t)
    (hno : dl = 0 ∨ ct < dl) :
    (step E s).stack = .vm t dl s.now false n :: rest ∧ (step E s).exc = none ∧ (step E s).ub = false ∧
    (step E s).now = s.now + E.inc s.reads ∧ (step E s).reads = s.reads + 1 ∧ (step E s).depth = s.depth ∧
    (step E s).cur = s.cur ∧ ThrOK code l (step E s) t := by
  have hc : ¬ (dl ≠ 0 ∧ ct ≥ dl ∧ vmRunning s t = true) := by
    intro ⟨a, b, _⟩; rcases hno with h | h
    · exact a h
    · omega
  have hrun : step E s = { (tick E s) with stack := .vm t dl s.now false n :: rest } := by
    simp [step, hub, hst, hexc, runFrame, hc]
  rw [hrun]
  exact ⟨rfl, hexc, hub, rfl, rfl, rfl, rfl, hthr⟩

/-- time check fires -/
theorem spin_post_fire (E : Env) (code : List Op) (l : Nat) (s : St) (t : Tid) (dl ct n : Nat) (rest : List Frame)
    (hst : s.stack = .vm t dl ct true n :: rest) (hexc : s.exc = none) (hub : s.ub = false) (hthr : ThrOK code l s t)
    (hdl : dl ≠ 0) (hct : ct ≥ dl) :
    step E s = { s with exc := some .overflow } := by
  simp [step, hub, hst, hexc, runFrame, hdl, hct, vmRunning_of_ThrOK hthr]

theorem stopThread_running (s : St) (t : Tid) (th : Thr) (h : find s.threads t = some th) (hr : th.ts = .running) :
    stopThread s t = s := by
  simp [stopThread, h, hr]

/-- the state right after `ExecuteThread` has entered the new thread's VM (limit non-zero) -/
theorem spin_start (E : Env) (code : List Op) (l : Nat) (hne : 0 < code.length) (s0 : St)
    (hfresh : find s0.threads s0.nextTid = none) (hd : s0.depth ≤ E.cfg.maxDepth) (hub : s0.ub = false)
    (hL : E.cfg.maxExec ≠ 0) :
    (startCall E s0 l).stack = [.vm s0.nextTid (s0.now + E.cfg.maxExec) (s0.now + E.inc s0.reads) false 0,
                                .sei s0.nextTid s0.cur, .thrExec] ∧
    (startCall E s0 l).exc = none ∧ (startCall E s0 l).ub = false ∧
    (startCall E s0 l).now = s0.now + E.inc s0.reads + E.inc (s0.reads + 1) ∧ (startCall E s0 l).reads = s0.reads + 2 ∧
    (startCall E s0 l).depth = s0.depth + 1 ∧ ThrOK code l (startCall E s0 l) s0.nextTid := by
  have hf := find_append_new s0.threads s0.nextTid ({ label := l, grp := s0.nextTid } : Thr) hfresh
  have hnd : ¬ s0.depth > E.cfg.maxDepth := by omega
  unfold startCall enterSei
  simp only [newThread, Option.getD_none]
  rw [stopThread_running _ s0.nextTid _ (by simpa using hf) rfl]
  unfold enterVM
  simp only [hnd, if_false, hL, ne_eq, not_false_eq_true, if_true]
  refine ⟨rfl, rfl, hub, rfl, rfl, rfl, ?_⟩
  exact ⟨{ ({ label := l, grp := s0.nextTid } : Thr) with vs := .running },
    find_upd_self _ s0.nextTid (fun th => { th with vs := .running }) _ hf, rfl, hne, rfl⟩

/-- the same with the limit switched off (`nextTime = 0`) -/
theorem spin_start0 (E : Env) (code : List Op) (l : Nat) (hne : 0 < code.length) (s0 : St)
    (hfresh : find s0.threads s0.nextTid = none) (hd : s0.depth ≤ E.cfg.maxDepth) (hub : s0.ub = false)
    (hL : E.cfg.maxExec = 0) :
    (startCall E s0 l).stack = [.vm s0.nextTid 0 s0.now false 0, .sei s0.nextTid s0.cur, .thrExec] ∧
    (startCall E s0 l).exc = none ∧ (startCall E s0 l).ub = false ∧ ThrOK code l (startCall E s0 l) s0.nextTid := by
  have hf := find_append_new s0.threads s0.nextTid ({ label := l, grp := s0.nextTid } : Thr) hfresh
  have hnd : ¬ s0.depth > E.cfg.maxDepth := by omega
  unfold startCall enterSei
  simp only [newThread, Option.getD_none]
  rw [stopThread_running _ s0.nextTid _ (by simpa using hf) rfl]
  unfold enterVM
  simp only [hnd, if_false, hL, ne_eq, not_true_eq_false]
  refine ⟨rfl, rfl, hub, ?_⟩
  exact ⟨{ ({ label := l, grp := s0.nextTid } : Thr) with vs := .running },
    find_upd_self _ s0.nextTid (fun th => { th with vs := .running }) _ hf, rfl, hne, rfl⟩

/-! ### protection off: the loop spins for ever -/

/-- the loop is spinning: three frames, its thread alive and running inside its code, at most a
    `CommandOverflow` waiting for the handler of the frame that raised it -/
structure Spinning (code : List Op) (l : Nat) (t : Tid) (saved : Option Tid) (s : St) : Prop where
  ub : s.ub = false
  thr : ThrOK code l s t
  shape : ∃ dl ct post n, s.stack = [.vm t dl ct post n, .sei t saved, .thrExec] ∧
    (s.exc = none ∨ (s.exc = some .overflow ∧ post = true))

theorem spinning_step (E : Env) (code : List Op) (l : Nat) (hcode : E.prog.getD l [] = code) (hspin : Spin code)
    (hp : E.cfg.prot = false) (t : Tid) (saved : Option Tid) (s : St) (h : Spinning code l t saved s) :
    Spinning code l t saved (step E s) := by
  obtain ⟨dl, ct, post, n, hst, hexc⟩ := h.shape
  rcases hexc with hexc | ⟨hexc, hpost⟩
  · cases post with
    | false =>
      obtain ⟨h1, h2, h3, _, _, _, _, h8⟩ := spin_fetch E code l hcode hspin s t dl ct n _ hst hexc h.ub h.thr
      exact ⟨h3, h8, _, _, _, _, h1, Or.inl h2⟩
    | true =>
      by_cases hf : dl ≠ 0 ∧ ct ≥ dl
      · rw [spin_post_fire E code l s t dl ct n _ hst hexc h.ub h.thr hf.1 hf.2]
        exact ⟨h.ub, h.thr, dl, ct, true, n, hst, Or.inr ⟨rfl, rfl⟩⟩
      · obtain ⟨h1, h2, h3, _, _, _, _, h8⟩ := spin_post_pass E code l s t dl ct n _ hst hexc h.ub h.thr (by omega)
        exact ⟨h3, h8, _, _, _, _, h1, Or.inl h2⟩
  · subst hpost
    have hrun : step E s = vmExtend E s t [.sei t saved, .thrExec] := by
      simp [step, h.ub, hst, hexc, unwindFrame, hp]
    rw [hrun]
    exact ⟨h.ub, h.thr, _, _, false, 0, rfl, Or.inl rfl⟩

theorem spinning_run (E : Env) (code : List Op) (l : Nat) (hcode : E.prog.getD l [] = code) (hspin : Spin code)
    (hp : E.cfg.prot = false) (t : Tid) (saved : Option Tid) : ∀ (k : Nat) (s : St), Spinning code l t saved s →
    Spinning code l t saved (run E k s)
  | 0, _, h => h
  | k + 1, s, h => spinning_run E code l hcode hspin hp t saved k _ (spinning_step E code l hcode hspin hp t saved s h)

/-- what a spinning loop writes: one Debug block per deadline extension, nothing else -/
theorem spinning_diag (E : Env) (code : List Op) (l : Nat) (hcode : E.prog.getD l [] = code) (hspin : Spin code)
    (hp : E.cfg.prot = false) (t : Tid) (saved : Option Tid) (s : St) (h : Spinning code l t saved s) :
    diagOf E s = if s.exc = some .overflow ∧ E.cfg.sDbg = true then [.dbgUpdate] else [] := by
  obtain ⟨dl, ct, post, n, hst, hexc⟩ := h.shape
  obtain ⟨th, h1, h2, h3, h4⟩ := h.thr
  rcases hexc with hexc | ⟨hexc, hpost⟩
  · cases post with
    | false =>
      rcases hspin th.pc h3 with ⟨hop, _⟩ | ⟨k, hop, _⟩
      · have hop' : (E.prog.getD th.label []).getD th.pc .done = .nop := by rw [h2, hcode]; exact hop
        unfold diagOf
        simp only [h.ub, hst, hexc, h1, h4, hop']
        simp
      · have hop' : (E.prog.getD th.label []).getD th.pc .done = .jmp k := by rw [h2, hcode]; exact hop
        unfold diagOf
        simp only [h.ub, hst, hexc, h1, h4, hop']
        simp
    | true => simp [diagOf, h.ub, hst, hexc]
  · simp [diagOf, h.ub, hst, hexc, hp]

/-- number of deadline extensions among the next `k` steps -/
def extensions (E : Env) : Nat → St → Nat
  | 0, _ => 0
  | k + 1, s => (if s.exc = some .overflow then 1 else 0) + extensions E k (step E s)

theorem spinning_diag_rate (E : Env) (code : List Op) (l : Nat) (hcode : E.prog.getD l [] = code) (hspin : Spin code)
    (hp : E.cfg.prot = false) (t : Tid) (saved : Option Tid) : ∀ (k : Nat) (s : St) (d : List Diag),
    Spinning code l t saved s →
    (runD E k (s, d)).2 = d ++ List.replicate (if E.cfg.sDbg = true then extensions E k s else 0) .dbgUpdate
  | 0, s, d, _ => by simp [runD, extensions]
  | k + 1, s, d, h => by
    have ih := spinning_diag_rate E code l hcode hspin hp t saved k (step E s) (d ++ diagOf E s)
      (spinning_step E code l hcode hspin hp t saved s h)
    simp only [runD, stepD]
    rw [ih, spinning_diag E code l hcode hspin hp t saved s h]
    by_cases hd : E.cfg.sDbg = true
    · by_cases ho : s.exc = some .overflow
      · simp [hd, ho, extensions, Nat.add_comm 1, List.replicate_succ]
      · simp [hd, ho, extensions]
    · simp [hd, extensions]

/-! ### the time check of the model is the check of `Sched.Guard.runLoop` -/

/-- reading number `j` of the injected clock counted from a moment when it shows `now` and has been read
    `r` times -/
def clkAt (inc : Nat → Nat) (now r : Nat) : Nat → Nat
  | 0 => now
  | j + 1 => clkAt inc now r j + inc (r + j)

/-- after instruction `j` of the loop (time check next): the frame holds deadline = reading 0 + limit and
    `cmdTime` = reading `j`, exactly the data `Guard.runLoop` compares -/
structure PostJ (E : Env) (code : List Op) (l : Nat) (t : Tid) (saved : Option Tid) (now0 r : Nat) (j : Nat) (s : St) : Prop where
  ub : s.ub = false
  exc : s.exc = none
  thr : ThrOK code l s t
  stack : s.stack = [.vm t (now0 + E.cfg.maxExec) (clkAt E.inc now0 r j) true j, .sei t saved, .thrExec]
  now : s.now = clkAt E.inc now0 r (j + 1)
  reads : s.reads = r + j + 1

theorem postJ_next (E : Env) (code : List Op) (l : Nat) (hcode : E.prog.getD l [] = code) (hspin : Spin code)
    (t : Tid) (saved : Option Tid) (now0 r j : Nat) (s : St) (h : PostJ E code l t saved now0 r j s)
    (hlt : clkAt E.inc now0 r j < now0 + E.cfg.maxExec) :
    PostJ E code l t saved now0 r (j + 1) (step E (step E s)) := by
  obtain ⟨a1, a2, a3, a4, a5, a6, a7, a8⟩ := spin_post_pass E code l s t _ _ j _ h.stack h.exc h.ub h.thr (Or.inr hlt)
  obtain ⟨b1, b2, b3, b4, b5, _, _, b8⟩ := spin_fetch E code l hcode hspin (step E s) t _ _ j _ a1 a2 a3 a8
  refine ⟨b3, b2, b8, ?_, ?_, ?_⟩
  · rw [b1, h.now]
  · rw [b4, a4, h.now, h.reads]; simp only [clkAt, Nat.add_assoc]
  · rw [b5, a5, h.reads]; omega

theorem run_add (E : Env) : ∀ (a b : Nat) (s : St), run E (a + b) s = run E b (run E a s)
  | 0, b, s => by simp [run]
  | a + 1, b, s => by rw [Nat.add_right_comm]; simp only [run]; exact run_add E a b (step E s)

/-- as long as no earlier check fired, the state after `2j - 1` steps is `PostJ j` -/
theorem postJ_run (E : Env) (code : List Op) (l : Nat) (hcode : E.prog.getD l [] = code) (hspin : Spin code)
    (t : Tid) (saved : Option Tid) (now0 r : Nat) (s1 : St) (h1 : PostJ E code l t saved now0 r 1 s1) :
    ∀ (j : Nat), (∀ i, 1 ≤ i → i ≤ j → clkAt E.inc now0 r i < now0 + E.cfg.maxExec) →
      PostJ E code l t saved now0 r (j + 1) (run E (2 * j) s1)
  | 0, _ => h1
  | j + 1, hfirst => by
    have ih := postJ_run E code l hcode hspin t saved now0 r s1 h1 j (fun i a b => hfirst i a (by omega))
    have := postJ_next E code l hcode hspin t saved now0 r (j + 1) _ ih (hfirst (j + 1) (by omega) (Nat.le_refl _))
    rw [show 2 * (j + 1) = 2 * j + 2 by omega, run_add]
    exact this

/-- `PostJ 1` one step after the host call has entered the VM -/
theorem postJ_one (E : Env) (code : List Op) (l : Nat) (hcode : E.prog.getD l [] = code) (hspin : Spin code)
    (hne : 0 < code.length) (s0 : St) (hfresh : find s0.threads s0.nextTid = none) (hd : s0.depth ≤ E.cfg.maxDepth)
    (hub : s0.ub = false) (hL : E.cfg.maxExec ≠ 0) :
    PostJ E code l s0.nextTid s0.cur s0.now s0.reads 1 (step E (startCall E s0 l)) := by
  obtain ⟨a1, a2, a3, a4, a5, _, a7⟩ := spin_start E code l hne s0 hfresh hd hub hL
  obtain ⟨b1, b2, b3, b4, b5, _, _, b8⟩ := spin_fetch E code l hcode hspin _ _ _ _ 0 _ a1 a2 a3 a7
  refine ⟨b3, b2, b8, ?_, ?_, ?_⟩
  · rw [b1]; simp [clkAt]
  · rw [b4, a4]; simp [clkAt]
  · rw [b5, a5]

end Morfuse.Unwind

namespace Morfuse.Sched.Guard

/-- converse of `runLoop_spec`: what an answer of `runLoop` means -/
theorem runLoop_some (clk : Nat → Nat) (maxExec : Nat) : ∀ (fuel i k : Nat), runLoop clk maxExec fuel i = some k →
    maxExec ≠ 0 ∧ i ≤ k ∧ clk k ≥ clk 0 + maxExec ∧ ∀ j, i ≤ j → j < k → clk j < clk 0 + maxExec
  | 0, _, _, h => by simp [runLoop] at h
  | fuel + 1, i, k, h => by
    simp only [runLoop] at h
    by_cases hc : maxExec ≠ 0 ∧ clk i ≥ clk 0 + maxExec
    · rw [if_pos hc] at h
      cases h
      exact ⟨hc.1, Nat.le_refl _, hc.2, fun j a b => by omega⟩
    · rw [if_neg hc] at h
      obtain ⟨h1, h2, h3, h4⟩ := runLoop_some clk maxExec fuel (i + 1) k h
      refine ⟨h1, by omega, h3, ?_⟩
      intro j hj1 hj2
      by_cases hji : j = i
      · subst hji
        apply Nat.lt_of_not_le
        intro hle
        exact hc ⟨h1, hle⟩
      · exact h4 j (by omega) hj2

end Morfuse.Sched.Guard
