import MorfuseModel.Unwind.Lemmas
/-!
# Unwind model — every activation has its own deadline (timing invariant, all programs)

For a limit `L ≠ 0` and a clock that advances by at least `δ` per reading, every `vm` frame on the native
stack satisfies `dl ≠ 0`, `ct + δ ≤ now` and `dl + n·δ (+ δ before the instruction) ≤ ct + L`, where `n`
counts the instructions executed since the deadline `dl` was taken.  Consequence: a time check that
passes (`ct < dl`) has `n·δ < L`; an activation executes at most `L/δ + 1` checked instructions per deadline.
-/
namespace Morfuse.Unwind

def FrameOK (δ L now : Nat) : Frame → Prop
  | .vm _ dl ct post n => dl ≠ 0 ∧ ct + δ ≤ now ∧ dl + n * δ + (if post then 0 else δ) ≤ ct + L
  | _ => True

def AllOK (δ L : Nat) (s : St) : Prop := ∀ f ∈ s.stack, FrameOK δ L s.now f

theorem FrameOK_mono {δ L now now' : Nat} {f : Frame} (h : FrameOK δ L now f) (hn : now ≤ now') : FrameOK δ L now' f := by
  cases f <;> simp only [FrameOK] at * <;> try trivial
  exact ⟨h.1, by omega, h.2.2⟩

theorem allOK_rest {δ L : Nat} {s : St} {f : Frame} {rest : List Frame} (h : AllOK δ L s) (hst : s.stack = f :: rest)
    {now' : Nat} (hn : s.now ≤ now') : ∀ g ∈ rest, FrameOK δ L now' g := by
  intro g hg
  exact FrameOK_mono (h g (by rw [hst]; exact List.mem_cons_of_mem _ hg)) hn

/-- entry of a VM with a non-zero limit, in full -/
theorem enterVM_ok' (E : Env) (s : St) (t : Tid) (h : ¬ s.depth > E.cfg.maxDepth) (hL : E.cfg.maxExec ≠ 0) :
    (enterVM E s t).stack = .vm t (s.now + E.cfg.maxExec) (s.now + E.inc s.reads) false 0 :: s.stack ∧
    (enterVM E s t).now = s.now + E.inc s.reads + E.inc (s.reads + 1) := by
  simp [enterVM, h, hL, tick]

theorem enterVM_allOK (E : Env) (δ : Nat) (hL : E.cfg.maxExec ≠ 0) (hinc : ∀ i, E.inc i ≥ δ) (s : St) (t : Tid)
    (h : ∀ f ∈ s.stack, FrameOK δ E.cfg.maxExec s.now f) : AllOK δ E.cfg.maxExec (enterVM E s t) := by
  by_cases hd : s.depth > E.cfg.maxDepth
  · obtain ⟨h1, _, _, _, _, _, h7, _⟩ := enterVM_over E s t hd
    intro f hf; rw [h1] at hf; rw [h7]; exact h f hf
  · obtain ⟨h1, h2⟩ := enterVM_ok' E s t hd hL
    intro f hf
    rw [h1] at hf; rw [h2]
    have i1 := hinc s.reads; have i2 := hinc (s.reads + 1)
    rcases List.mem_cons.mp hf with rfl | hf
    · simp only [FrameOK]; refine ⟨by omega, by omega, by simp; omega⟩
    · exact FrameOK_mono (h f hf) (by omega)

theorem enterSei_allOK (E : Env) (δ : Nat) (hL : E.cfg.maxExec ≠ 0) (hinc : ∀ i, E.inc i ≥ δ) (s : St) (t : Tid)
    (h : ∀ f ∈ s.stack, FrameOK δ E.cfg.maxExec s.now f) : AllOK δ E.cfg.maxExec (enterSei E s t) := by
  unfold enterSei
  apply enterVM_allOK E δ hL hinc
  intro f hf
  simp only [stopThread_stack, stopThread_now] at hf ⊢
  rcases List.mem_cons.mp hf with rfl | hf
  · trivial
  · exact h f hf

theorem frameOK_reread {δ L now inc dl ct n : Nat} {post : Bool} (t : Tid) (h : FrameOK δ L now (.vm t dl ct post n)) (hi : inc ≥ δ) :
    FrameOK δ L (now + inc) (.vm t dl now false n) := by
  simp only [FrameOK] at *
  obtain ⟨h1, h2, h3⟩ := h
  refine ⟨h1, by omega, ?_⟩
  cases post <;> simp at h3 ⊢ <;> omega

theorem frameOK_exec {δ L now dl ct n : Nat} (t : Tid) (h : FrameOK δ L now (.vm t dl ct false n)) :
    FrameOK δ L now (.vm t dl ct true (n + 1)) := by
  simp only [FrameOK] at *
  obtain ⟨h1, h2, h3⟩ := h
  refine ⟨h1, h2, ?_⟩
  simp only [Bool.false_eq_true, if_false, if_true, Nat.add_mul, Nat.one_mul] at h3 ⊢
  omega

theorem execOp_allOK (E : Env) (δ : Nat) (hL : E.cfg.maxExec ≠ 0) (hinc : ∀ i, E.inc i ≥ δ) (s : St) (t : Tid) (th : Thr)
    (dl ct n : Nat) (rest : List Frame) (op : Op) (hst : s.stack = .vm t dl ct false n :: rest)
    (h : AllOK δ E.cfg.maxExec s) : AllOK δ E.cfg.maxExec (execOp E s t th dl ct n rest op) := by
  have hme : FrameOK δ E.cfg.maxExec s.now (.vm t dl ct true (n + 1)) := frameOK_exec t (h _ (by rw [hst]; exact List.mem_cons_self))
  have hrest := allOK_rest h hst (Nat.le_refl s.now)
  have hall : ∀ f ∈ Frame.vm t dl ct true (n + 1) :: rest, FrameOK δ E.cfg.maxExec s.now f := by
    intro f hf; rcases List.mem_cons.mp hf with rfl | hf
    · exact hme
    · exact hrest f hf
  cases op <;> simp only [execOp]
  case nop => exact hall
  case jmp => exact hall
  case setc => exact hall
  case loopTest => split <;> exact hall
  case print => exact hall
  case raise => exact hall
  case done => intro f hf; simp only [endThread_now] at *; exact hall f hf
  case wait => intro f hf; simp only [stopThread_now] at *; exact hall f hf
  case waittill =>
    split
    · exact fun g hg => h g hg
    · intro f hf; simp only [startedWaitFor_now] at *; exact hall f hf
  case notify =>
    intro f hf
    rcases List.mem_cons.mp hf with rfl | hf
    · trivial
    · exact hall f hf
  case spawn =>
    split
    · exact fun g hg => h g hg
    · split
      · apply enterSei_allOK E δ hL hinc
        simp only [newThread]
        split <;> (intro f hf; simp only [startedWaitFor_now, startedWaitFor_stack] at *; exact hall f hf)
      · exact hall

theorem step_allOK (E : Env) (δ : Nat) (hL : E.cfg.maxExec ≠ 0) (hinc : ∀ i, E.inc i ≥ δ) (s : St)
    (h : AllOK δ E.cfg.maxExec s) : AllOK δ E.cfg.maxExec (step E s) := by
  unfold step
  split
  · exact h
  split
  · exact h
  rename_i f rest hst
  have hrest := allOK_rest h hst (Nat.le_refl s.now)
  have htop := h f (by rw [hst]; exact List.mem_cons_self)
  have i0 := hinc s.reads
  have i1 := hinc (s.reads + 1)
  split
  · rename_i e he
    cases f with
    | vm t dl ct post n =>
      have hre : AllOK δ E.cfg.maxExec { (tick E s) with exc := none, stack := .vm t dl s.now false n :: rest } := by
        intro g hg
        rcases List.mem_cons.mp hg with rfl | hg
        · exact frameOK_reread t htop i0
        · exact allOK_rest h hst (by simp [tick]) g hg
      have hab : AllOK δ E.cfg.maxExec (vmAbort s t rest) := by
        intro g hg; exact hrest g hg
      have hex : AllOK δ E.cfg.maxExec (vmExtend E s t rest) := by
        intro g hg
        simp only [vmExtend, tick] at hg ⊢
        rcases List.mem_cons.mp hg with rfl | hg
        · simp only [FrameOK]; refine ⟨by omega, by omega, by simp; omega⟩
        · exact allOK_rest h hst (by omega) g hg
      cases e <;> simp only [unwindFrame]
      · split
        · exact hab
        · exact hex
      · exact hab
      · exact hab
      · exact hre
    | sei t saved => exact fun g hg => hrest g hg
    | thrExec => simp only [unwindFrame]; split <;> exact fun g hg => hrest g hg
    | notify p => exact fun g hg => hrest g hg
    | execRunning => exact fun g hg => hrest g hg
    | ctxExec => exact fun g hg => hrest g hg
  · cases f with
    | vm t dl ct post n =>
      simp only [runFrame]
      split
      · split
        · exact fun g hg => h g hg
        · intro g hg
          rcases List.mem_cons.mp hg with rfl | hg
          · exact frameOK_reread t htop i0
          · exact allOK_rest h hst (by simp [tick]) g hg
      · rename_i hpost
        have hp : post = false := by simpa using hpost
        subst hp
        split
        · exact fun g hg => hrest g hg
        · split
          · exact fun g hg => hrest g hg
          · exact execOp_allOK E δ hL hinc s t _ dl ct n rest _ hst h
    | sei t saved =>
      simp only [runFrame, execRunningCall]
      split
      · exact fun g hg => hrest g hg
      · split
        · intro g hg
          rcases List.mem_cons.mp hg with rfl | hg
          · trivial
          · exact hrest g hg
        · exact fun g hg => hrest g hg
    | thrExec => exact fun g hg => hrest g hg
    | notify p =>
      simp only [runFrame]
      have hn : ∀ ws, ∀ g ∈ Frame.notify ws :: rest, FrameOK δ E.cfg.maxExec s.now g := by
        intro ws g hg
        rcases List.mem_cons.mp hg with rfl | hg
        · trivial
        · exact hrest g hg
      split
      · exact fun g hg => hrest g hg
      · split
        · exact hn _
        · split
          · split
            · apply enterSei_allOK E δ hL hinc
              intro g hg
              rcases List.mem_cons.mp hg with rfl | hg
              · trivial
              · exact hn _ g hg
            · exact hn _
          · exact hn _
    | execRunning =>
      simp only [runFrame]
      split
      · exact fun g hg => hrest g hg
      · split
        · apply enterVM_allOK E δ hL hinc
          exact fun g hg => h g hg
        · exact fun g hg => h g hg
    | ctxExec => exact fun g hg => hrest g hg

theorem run_allOK (E : Env) (δ : Nat) (hL : E.cfg.maxExec ≠ 0) (hinc : ∀ i, E.inc i ≥ δ) :
    ∀ (k : Nat) (s : St), AllOK δ E.cfg.maxExec s → AllOK δ E.cfg.maxExec (run E k s)
  | 0, _, h => h
  | k + 1, s, h => run_allOK E δ hL hinc k _ (step_allOK E δ hL hinc s h)

theorem startCall_allOK (E : Env) (δ : Nat) (hL : E.cfg.maxExec ≠ 0) (hinc : ∀ i, E.inc i ≥ δ) (s0 : St) (l : Nat) :
    AllOK δ E.cfg.maxExec (startCall E s0 l) := by
  unfold startCall
  apply enterSei_allOK E δ hL hinc
  intro f hf
  simp only [newThread] at hf
  rcases List.mem_cons.mp hf with rfl | hf
  · trivial
  · cases hf

theorem startExecute_allOK (E : Env) (δ : Nat) (s0 : St) : AllOK δ E.cfg.maxExec (startExecute E s0) := by
  unfold startExecute execRunningCall
  simp only
  intro f hf
  (repeat' split at hf) <;> simp at hf <;> (try rcases hf with rfl | rfl) <;> (try subst hf) <;> trivial

end Morfuse.Unwind
