import MorfuseModel.Unwind.Spin
/-!
# Unwind model — `l0: wait 0; goto l0` never returns to the host (cycle invariant)

One round of the loop passes through seven state shapes (`ZW`): the thread executes `wait 0` (it is re-timed
as due and its VM suspended), the time check after it is skipped (VM not running), `ScriptVM::Execute`
returns, `ScriptExecuteInternal` (first round) resp. the `ExecuteRunning` loop (later rounds) finds the timer
list dirty with the thread due, resumes it with a **fresh deadline**, the thread executes the jump, passes its
time check, and is back at `wait 0`.  The machine is not periodic (the clock differs in every round); the
invariant abstracts from the clock except for "the check after the jump passes", which needs one clock
increment to be smaller than the limit.
-/
namespace Morfuse.Unwind
open Morfuse.Sched

def zwCode : List Op := [.wait 0, .jmp 0]

def ThrIs (s : St) (t : Tid) (pc : Nat) (ts : TState) (vs : VState) : Prop :=
  ∃ th, find s.threads t = some th ∧ th.label = 0 ∧ th.pc = pc ∧ th.ts = ts ∧ th.vs = vs

def Base (t : Tid) (B : List Frame) : Prop := B = [.sei t none, .thrExec] ∨ B = [.execRunning, .thrExec]

theorem next_single (tm : Timer) (t d : Nat) (he : tm.elems = [(t, d)]) (hd : d ≤ tm.mtime) :
    tm.next = (some (t, d), { tm with elems := [] }) := by
  simp [Timer.next, Timer.indexed, Timer.scan, he, hd]

inductive ZW (E : Env) (t : Tid) : St → Prop
  | fetchWait (s : St) (dl ct n : Nat) (B : List Frame) (hu : s.ub = false) (he : s.exc = none)
      (hs : s.scaled ≤ s.timer.mtime) (hB : Base t B) (hst : s.stack = .vm t dl ct false n :: B)
      (hth : ThrIs s t 0 .running .running) (htm : s.timer.elems = []) (hd : s.depth = 1) : ZW E t s
  | postWait (s : St) (dl ct n : Nat) (B : List Frame) (hu : s.ub = false) (he : s.exc = none)
      (hs : s.scaled ≤ s.timer.mtime) (hB : Base t B) (hst : s.stack = .vm t dl ct true n :: B)
      (hth : ThrIs s t 1 .timing .suspended) (htm : s.timer.elems = [(t, s.scaled)]) (hdy : s.timer.dirty = true)
      (hd : s.depth = 1) : ZW E t s
  | fetchSusp (s : St) (dl ct n : Nat) (B : List Frame) (hu : s.ub = false) (he : s.exc = none)
      (hs : s.scaled ≤ s.timer.mtime) (hB : Base t B) (hst : s.stack = .vm t dl ct false n :: B)
      (hth : ThrIs s t 1 .timing .suspended) (htm : s.timer.elems = [(t, s.scaled)]) (hdy : s.timer.dirty = true)
      (hd : s.depth = 1) : ZW E t s
  | seiRet (s : St) (hu : s.ub = false) (he : s.exc = none) (hs : s.scaled ≤ s.timer.mtime)
      (hst : s.stack = [.sei t none, .thrExec]) (hth : ThrIs s t 1 .timing .idling)
      (htm : s.timer.elems = [(t, s.scaled)]) (hdy : s.timer.dirty = true) (hd : s.depth = 0) : ZW E t s
  | execLoop (s : St) (hu : s.ub = false) (he : s.exc = none) (hs : s.scaled ≤ s.timer.mtime)
      (hst : s.stack = [.execRunning, .thrExec]) (hth : ThrIs s t 1 .timing .idling)
      (htm : s.timer.elems = [(t, s.scaled)]) (hd : s.depth = 0) : ZW E t s
  | fetchJmp (s : St) (dl ct n : Nat) (hu : s.ub = false) (he : s.exc = none) (hs : s.scaled ≤ s.timer.mtime)
      (hst : s.stack = [.vm t dl ct false n, .execRunning, .thrExec]) (hth : ThrIs s t 1 .running .running)
      (htm : s.timer.elems = []) (hd : s.depth = 1) (hok : dl = 0 ∨ ct < dl) : ZW E t s
  | postJmp (s : St) (dl ct n : Nat) (hu : s.ub = false) (he : s.exc = none) (hs : s.scaled ≤ s.timer.mtime)
      (hst : s.stack = [.vm t dl ct true n, .execRunning, .thrExec]) (hth : ThrIs s t 0 .running .running)
      (htm : s.timer.elems = []) (hd : s.depth = 1) (hok : dl = 0 ∨ ct < dl) : ZW E t s

theorem zw_not_halted {E : Env} {t : Tid} {s : St} (h : ZW E t s) : halted s = false := by
  cases h <;> simp [halted, *]

theorem zw_step (E : Env) (hprog : E.prog.getD 0 [] = zwCode)
    (hsmall : ∀ i, E.cfg.maxExec = 0 ∨ E.inc i < E.cfg.maxExec) (t : Tid) (s : St) (h : ZW E t s) :
    ZW E t (step E s) := by
  cases h with
  | fetchWait dl ct n B hu he hs hB hst hth htm hd =>
    obtain ⟨th, h1, h2, h3, h4, h5⟩ := hth
    have hop : (E.prog.getD th.label []).getD th.pc Op.done = .wait 0 := by rw [h2, hprog, h3]; rfl
    have hrun : step E s = execOp E s t th dl ct n B ((E.prog.getD th.label []).getD th.pc Op.done) := by
      simp [step, hu, hst, he, runFrame, h1, h5]
    have hf1 := find_upd_self s.threads t (fun x => { x with pc := th.pc + 1 }) th h1
    have hstop : stopThread { s with threads := upd s.threads t (fun x => { x with pc := th.pc + 1 }) } t =
        { s with threads := upd s.threads t (fun x => { x with pc := th.pc + 1 }) } :=
      stopThread_running _ t _ hf1 h4
    rw [hrun, hop]
    simp only [execOp]
    rw [hstop]
    refine .postWait _ dl ct (n + 1) B hu he ?_ hB rfl ?_ ?_ ?_ hd
    · simpa [Timer.add] using hs
    · exact ⟨_, find_upd_self _ t (fun x => { x with ts := TState.timing, vs := VState.suspended }) _ hf1, h2, by simp [h3], rfl, rfl⟩
    · simp [Timer.add, htm]
    · simp [Timer.add, hs]
  | postWait dl ct n B hu he hs hB hst hth htm hdy hd =>
    obtain ⟨th, h1, h2, h3, h4, h5⟩ := hth
    have hnr : vmRunning s t = false := by simp [vmRunning, h1, h5]
    have hrun : step E s = { (tick E s) with stack := .vm t dl s.now false n :: B } := by
      simp [step, hu, hst, he, runFrame, hnr]
    rw [hrun]
    exact .fetchSusp _ dl s.now n B hu he hs hB rfl ⟨th, h1, h2, h3, h4, h5⟩ htm hdy hd
  | fetchSusp dl ct n B hu he hs hB hst hth htm hdy hd =>
    obtain ⟨th, h1, h2, h3, h4, h5⟩ := hth
    have hrun : step E s = exitVM s t B := by
      simp [step, hu, hst, he, runFrame, h1, h5]
    have hthr : ThrIs (exitVM s t B) t 1 .timing .idling :=
      ⟨_, find_upd_self s.threads t (fun x => { x with vs := if x.vs == VState.suspended then VState.idling else x.vs }) th h1, h2, h3, h4, by simp [h5]⟩
    rw [hrun]
    rcases hB with hB | hB
    · subst hB
      exact .seiRet _ hu he hs rfl hthr htm hdy (by simp [exitVM, hd])
    · subst hB
      exact .execLoop _ hu he hs rfl hthr htm (by simp [exitVM, hd])
  | seiRet hu he hs hst hth htm hdy hd =>
    have hrun : step E s = { s with cur := none, prev := safe s (some t), stack := [.execRunning, .thrExec] } := by
      simp [step, hu, hst, he, runFrame, execRunningCall, safe, hd, hdy]
    rw [hrun]
    exact .execLoop _ hu he hs rfl hth htm hd
  | execLoop hu he hs hst hth htm hd =>
    obtain ⟨th, h1, h2, h3, h4, h5⟩ := hth
    have hnext := next_single s.timer t s.scaled htm hs
    have hal : alive s t = true := by simp [alive, h1]
    have hrun : step E s = enterVM E
        { s with cur := some t, timer := { s.timer with elems := [] }, threads := upd s.threads t (fun x => { x with ts := TState.running }) } t := by
      simp [step, hu, hst, he, runFrame, hnext, hal]
    have hnd : ¬ s.depth > E.cfg.maxDepth := by omega
    have hf1 := find_upd_self s.threads t (fun x => { x with ts := TState.running }) th h1
    rw [hrun]
    unfold enterVM
    simp only [hnd, if_false]
    by_cases hL : E.cfg.maxExec ≠ 0
    · rw [if_pos hL]
      refine .fetchJmp _ (s.now + E.cfg.maxExec) (s.now + E.inc s.reads) 0 hu he (by simpa [tick] using hs) (by simp [tick, hst]) ?_ (by simp [tick]) (by simp [tick, hd]) ?_
      · exact ⟨_, find_upd_self _ t (fun x => { x with vs := VState.running }) _ hf1, h2, h3, rfl, rfl⟩
      · right
        rcases hsmall s.reads with h0 | h0
        · exact absurd h0 hL
        · omega
    · rw [if_neg hL]
      refine .fetchJmp _ 0 s.now 0 hu he (by simpa [tick] using hs) (by simp [tick, hst]) ?_ (by simp [tick]) (by simp [tick, hd]) (Or.inl rfl)
      exact ⟨_, find_upd_self _ t (fun x => { x with vs := VState.running }) _ hf1, h2, h3, rfl, rfl⟩
  | fetchJmp dl ct n hu he hs hst hth htm hd hok =>
    obtain ⟨th, h1, h2, h3, h4, h5⟩ := hth
    have hop : (E.prog.getD th.label []).getD th.pc Op.done = .jmp 0 := by rw [h2, hprog, h3]; rfl
    have hrun : step E s = execOp E s t th dl ct n [.execRunning, .thrExec] ((E.prog.getD th.label []).getD th.pc Op.done) := by
      simp [step, hu, hst, he, runFrame, h1, h5]
    rw [hrun, hop]
    simp only [execOp]
    exact .postJmp _ dl ct (n + 1) hu he hs rfl ⟨_, find_upd_self s.threads t (fun x => { x with pc := 0 }) th h1, h2, rfl, h4, h5⟩ htm hd hok
  | postJmp dl ct n hu he hs hst hth htm hd hok =>
    have hc : ¬ (dl ≠ 0 ∧ ct ≥ dl ∧ vmRunning s t = true) := by
      intro ⟨a, b, _⟩; rcases hok with h | h
      · exact a h
      · omega
    have hrun : step E s = { (tick E s) with stack := [.vm t dl s.now false n, .execRunning, .thrExec] } := by
      simp [step, hu, hst, he, runFrame, hc]
    rw [hrun]
    exact .fetchWait _ dl s.now n [.execRunning, .thrExec] hu he hs (Or.inr rfl) rfl hth htm hd

theorem zw_run (E : Env) (hprog : E.prog.getD 0 [] = zwCode)
    (hsmall : ∀ i, E.cfg.maxExec = 0 ∨ E.inc i < E.cfg.maxExec) (t : Tid) :
    ∀ (k : Nat) (s : St), ZW E t s → ZW E t (run E k s)
  | 0, _, h => h
  | k + 1, s, h => zw_run E hprog hsmall t k _ (zw_step E hprog hsmall t s h)

theorem zw_start (E : Env) (s0 : St) (hfresh : find s0.threads s0.nextTid = none) (hd : s0.depth = 0)
    (hub : s0.ub = false) (hc : s0.cur = none) (htm : s0.timer.elems = []) (hs : s0.scaled ≤ s0.timer.mtime) :
    ZW E s0.nextTid (startCall E s0 0) := by
  have hf := find_append_new s0.threads s0.nextTid ({ label := 0, grp := s0.nextTid } : Thr) hfresh
  have hnd : ¬ s0.depth > E.cfg.maxDepth := by omega
  unfold startCall enterSei
  simp only [newThread, Option.getD_none]
  rw [stopThread_running _ s0.nextTid _ (by simpa using hf) rfl]
  unfold enterVM
  simp only [hnd, if_false]
  have hthr : ∀ s : St, s.threads = upd (s0.threads ++ [(s0.nextTid, ({ label := 0, grp := s0.nextTid } : Thr))]) s0.nextTid
      (fun th => { th with vs := VState.running }) → ThrIs s s0.nextTid 0 .running .running := by
    intro s hs'
    refine ⟨{ ({ label := 0, grp := s0.nextTid } : Thr) with vs := VState.running }, ?_, rfl, rfl, rfl, rfl⟩
    rw [hs']
    exact find_upd_self _ s0.nextTid (fun th => { th with vs := VState.running }) _ hf
  by_cases hL : E.cfg.maxExec ≠ 0
  · rw [if_pos hL]
    exact .fetchWait _ (s0.now + E.cfg.maxExec) (s0.now + E.inc s0.reads) 0 [.sei s0.nextTid none, .thrExec] hub rfl
      (by simpa [tick] using hs) (Or.inl rfl) (by simp [tick, hc]) (hthr _ rfl) (by simpa [tick] using htm) (by simp [tick, hd])
  · rw [if_neg hL]
    exact .fetchWait _ 0 s0.now 0 [.sei s0.nextTid none, .thrExec] hub rfl
      (by simpa [tick] using hs) (Or.inl rfl) (by simp [tick, hc]) (hthr _ rfl) (by simpa [tick] using htm) (by simp [tick, hd])

end Morfuse.Unwind
