/-!
# binary32 helpers for the value model (C04)

Floats are carried as their bit pattern (`UInt32`).  Arithmetic and comparisons go through Lean's
`Float32` / `Float` (IEEE-754 operations of the machine, the same ones the C++ executes), which the
kernel treats as opaque: no theorem depends on a float *value*, only on the shape of the code
around it.  `fmodf` and `printf("%.3f")` are not provided by core Lean; they are computed exactly on
the decoded mantissa/exponent.
-/
namespace Morfuse.VMOps.F32

abbrev Bits := UInt32

@[inline] def toF (b : Bits) : Float32 := Float32.ofBits b
@[inline] def ofF (f : Float32) : Bits := f.toBits

def zero : Bits := 0
def one : Bits := 0x3f800000

def add (a b : Bits) : Bits := ofF (toF a + toF b)
def sub (a b : Bits) : Bits := ofF (toF a - toF b)
def mul (a b : Bits) : Bits := ofF (toF a * toF b)
def div (a b : Bits) : Bits := ofF (toF a / toF b)
def neg (a : Bits) : Bits := a ^^^ 0x80000000

/-- `(float)int64` -/
def ofInt64 (v : BitVec 64) : Bits := ofF (Int64.ofInt v.toInt).toFloat32

def isNaN (a : Bits) : Bool := (a &&& 0x7f800000) == 0x7f800000 && (a &&& 0x007fffff) != 0
def isInf (a : Bits) : Bool := (a &&& 0x7fffffff) == 0x7f800000
def signBit (a : Bits) : Bool := (a &&& 0x80000000) != 0

/-- `f == 0` (both zeros) -/
def isZero (a : Bits) : Bool := (a &&& 0x7fffffff) == 0

/-- IEEE `==` -/
def feq (a b : Bits) : Bool := toF a == toF b
def flt (a b : Bits) : Bool := Float32.lt (toF a) (toF b)
def fle (a b : Bits) : Bool := Float32.le (toF a) (toF b)

/-- the `double` literal `0.0001` -/
def dEps : Float := Float.ofBits 0x3f1a36e2eb1c432d
/-- the `double` literal `-0.0001` -/
def dNegEps : Float := Float.ofBits 0xbf1a36e2eb1c432d
/-- the `double` literal `0.00009999999747378752` (= `(double)0.0001f`) -/
def dEpsF : Float := Float.ofBits 0x3f1a36e2e0000000
/-- the `float` value `0.0001f` -/
def fEps : Bits := 0x38d1b717

def toD (a : Bits) : Float := (toF a).toFloat

/-- `x >= 0.0001` with `x : float` promoted to double -/
def geEps (a : Bits) : Bool := Float.le dEps (toD a)
/-- `x > -0.0001` -/
def gtNegEps (a : Bits) : Bool := Float.lt dNegEps (toD a)
/-- `x <= -0.0001` -/
def leNegEps (a : Bits) : Bool := Float.le (toD a) dNegEps
/-- `x < 0.0001` -/
def ltEps (a : Bits) : Bool := Float.lt (toD a) dEps
/-- `fabs(x) < 0.0001` -/
def absLtEps (a : Bits) : Bool := Float.lt (toD (a &&& 0x7fffffff)) dEps
/-- `fabs(x) >= 0.00009999999747378752` (truthiness of a float) -/
def truthy (a : Bits) : Bool := Float.le dEpsF (toD (a &&& 0x7fffffff))

/-- decoded finite value: `(negative, mantissa, exponent)` with value `= ± mantissa · 2^exponent` -/
def decode (a : Bits) : Bool × Nat × Int :=
  let e := ((a >>> 23) &&& 0xff).toNat
  let m := (a &&& 0x7fffff).toNat
  if e == 0 then (signBit a, m, -149) else (signBit a, m + 0x800000, (e : Int) - 150)

/-- bits of the exactly representable value `± r · 2^e` (callers guarantee representability) -/
def encodeExact (negative : Bool) (r : Nat) (e : Int) : Bits :=
  let s : UInt32 := if negative then 0x80000000 else 0
  if r == 0 then s else
  let bl : Int := (r.log2 + 1 : Nat)
  let E : Int := e + bl - 1
  if E < -126 then
    -- subnormal: r · 2^(e+149)
    let sh := e + 149
    let m := if sh ≥ 0 then r <<< sh.toNat else r >>> (-sh).toNat
    s ||| UInt32.ofNat m
  else
    let m := if bl ≤ 24 then r <<< (24 - bl).toNat else r >>> (bl - 24).toNat
    s ||| (UInt32.ofNat (E + 127).toNat <<< 23) ||| (UInt32.ofNat m &&& 0x7fffff)

/-- `fmodf(x, y)` (exact) -/
def fmod (x y : Bits) : Bits :=
  if isNaN x || isNaN y || isInf x || isZero y then 0x7fc00000
  else if isInf y then x
  else
    let (sx, mx, ex) := decode x
    let (_, my, ey) := decode y
    let e := if ex ≤ ey then ex else ey
    let ax := mx <<< (ex - e).toNat
    let ay := my <<< (ey - e).toNat
    encodeExact sx (ax % ay) e

/-- decimal digits of a natural number as ASCII bytes -/
def natDigits (n : Nat) : List UInt8 := (toString n).toUTF8.toList

/-- `snprintf("%.3f", (double)f)`: exact value, round-half-even on the third decimal -/
def fmt3 (a : Bits) : List UInt8 :=
  let sgn : List UInt8 := if signBit a then [45] else []
  if isNaN a then sgn ++ "nan".toUTF8.toList
  else if isInf a then sgn ++ "inf".toUTF8.toList
  else
    let (_, m, e) := decode a
    -- |value| · 1000 = m · 1000 · 2^e
    let num := m * 1000
    let q : Nat :=
      if e ≥ 0 then num <<< e.toNat
      else
        let d := 1 <<< (-e).toNat
        let q0 := num / d
        let r := num % d
        if 2 * r > d then q0 + 1 else if 2 * r < d then q0 else (if q0 % 2 == 1 then q0 + 1 else q0)
    let ip := q / 1000
    let fp := q % 1000
    let fpd := natDigits fp
    let pad : List UInt8 := List.replicate (3 - fpd.length) 48
    sgn ++ natDigits ip ++ [46] ++ pad ++ fpd

/-- `(int64_t)f` for a float whose truncation fits; callers check the range first -/
def truncToInt (a : Bits) : Int :=
  let (s, m, e) := decode a
  let mag : Nat := if e ≥ 0 then m <<< e.toNat else m >>> (-e).toNat
  if s then -(mag : Int) else mag

/-- finite and the truncated value lies in `[lo, hi]` -/
def truncInRange (a : Bits) (lo hi : Int) : Bool :=
  !isNaN a && !isInf a && lo ≤ truncToInt a && truncToInt a ≤ hi

end Morfuse.VMOps.F32
