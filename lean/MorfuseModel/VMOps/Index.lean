import MorfuseModel.VMOps.Ops
/-!
# Index read / write, array casts and assignment of `ScriptVariable`

`evalArrayAt` (OP_STORE_ARRAY), `setArrayAt` → `setArrayAtRef` (OP_LOAD_ARRAY_VAR),
`setArrayRefValue` → `operator[]` (OP_STORE_ARRAY_REF), `operator[] const`, `CastConstArrayValue`,
and the listener enumeration of `ScriptVM::ExecCmdMethodCommon`.
-/
namespace Morfuse.VMOps
open F32

/-- `Hash<ScriptVariable>::operator()`: only strings, integers and listeners can be keys; for
    anything else `throw BadHashCodeValue(key.stringValue())` converts the key to a string first -/
def keyOf (fx : Fixes) : Val → R Key
  | .str s => .ok (.str s)
  | .cstr s => .ok (.str s)
  | .int v => .ok (.int v)
  | .obj o => .ok (.obj o)
  | v => (strOf fx v).bind fun _ => .err .badHashCodeValue

/-- key of a stored entry (entries only ever hold hashable keys) -/
def keyOfStored : Val → Option Key
  | .str s => some (.str s)
  | .cstr s => some (.str s)
  | .int v => some (.int v)
  | .obj o => some (.obj o)
  | _ => none

def lookup (items : List (Val × Val)) (k : Key) : Option Val :=
  (items.find? fun e => keyOfStored e.1 == some k).map (·.2)

def remove (items : List (Val × Val)) (k : Key) : List (Val × Val) :=
  items.filter fun e => keyOfStored e.1 != some k

/-- `arrayValue[index] = value` -/
def insert (items : List (Val × Val)) (kv : Val) (k : Key) (v : Val) : List (Val × Val) :=
  if (lookup items k).isSome then items.map fun e => if keyOfStored e.1 == some k then (e.1, v) else e
  else items ++ [(kv, v)]

/-- 1-based element -/
def nth1 {α} (l : List α) (i : Nat) : Option α := if i == 0 then none else l[i - 1]?

def set1 {α} (l : List α) (i : Nat) (v : α) : List α := if i == 0 then l else l.set (i - 1) v

/-- `ScriptVariable::evalArrayAt(var)`; the left operand is replaced by the element -/
def evalAt (fx : Fixes) (a idx : Val) : Out :=
  match a with
  | .vec x y z =>
    (longOf fx idx).out a fun i =>
      if i.toNat > 2 then .err .typeIndexOutOfRange .nil
      else .ok (.flt (if i.toNat == 0 then x else if i.toNat == 1 then y else z))
  | .nil => .ok .nil
  | .str s => strAt s
  | .cstr s => strAt s
  | .obj _ =>
    (longOf fx idx).out a fun i => if i.toNat != 1 then .err .typeIndexOutOfRange .nil else .ok a
  | .arr items =>
    (keyOf fx idx).out a fun k => .ok ((lookup items k).getD .nil)
  | .carr items =>
    (longOf fx idx).out a fun i =>
      match nth1 items i.toNat with
      | some v => .ok v
      | none => .err .typeIndexOutOfRange a
  | .cont items =>
    (longOf fx idx).out a fun i =>
      match nth1 items i.toNat with
      | some o => .ok (.obj o)
      | none => .err .typeIndexOutOfRange a
  | .scont lst =>
    (longOf fx idx).out a fun i =>
      match lst with
      | none => .err .typeIndexOutOfRange a
      | some items =>
        if i.toNat == 0 then .err .typeIndexOutOfRange a
        else if !fx.safeContainerBound then .ub .wrongUnion      -- `index > m_data.constArrayValue->size`
        else match nth1 items i.toNat with
          | some o => .ok (.obj o)
          | none => .err .typeIndexOutOfRange a
  | _ => .err .invalidAppliedType .nil
where
  strAt (s : Bytes) : Out :=
    (longOf fx idx).out a fun i =>
      match s[i.toNat]? with
      | some c => .ok (.chr c)
      | none => .err .typeIndexOutOfRange .nil

/-- `(int)index.intValue()` -/
def int32Of (fx : Fixes) (idx : Val) : R Int :=
  (intOf fx idx).bind fun v => .ok (v.truncate 32 : BitVec 32).toInt

/-- `ScriptVariable::setArrayAtRef(index, value)` on the variable the reference points at;
    the outcome carries that variable afterwards -/
def setAtRef (fx : Fixes) (t idx v : Val) : Out :=
  match t with
  | .vec x y z =>
    (int32Of fx idx).out t fun i =>
      if i > 2 then .err .typeIndexOutOfRange t
      else if i < 0 && fx.negIndexStore then .err .typeIndexOutOfRange t
      else (floatOf v).out t fun f =>      -- the right-hand side is evaluated before the store
        if i < 0 then .ub .negIndexStore
        else .ok (if i == 0 then .vec f y z else if i == 1 then .vec x f z else .vec x y f)
  | .ref _ => .ok t
  | .nil =>
    match v with
    | .nil => .ok (.arr [])
    | v => (keyOf fx idx).out (.arr []) fun k => .ok (.arr (insert [] idx k v))
  | .arr items =>
    (keyOf fx idx).out t fun k =>
      match v with
      | .nil => .ok (.arr (remove items k))
      | v => .ok (.arr (insert items idx k v))
  | .str s => strSet s
  | .cstr s => strSet s
  | .carr items =>
    (intOf fx idx).out t fun i =>
      if i.toNat == 0 || i.toNat > items.length then .err .typeIndexOutOfRange t
      else .ok (.carr (set1 items i.toNat v))
  | _ => .err .invalidAppliedType t
where
  strSet (s : Bytes) : Out :=
    (int32Of fx idx).out t fun i =>
      if i ≥ (s.length : Int) then .err .typeIndexOutOfRange t
      else if i < 0 && fx.negIndexStore then .err .typeIndexOutOfRange t
      else (charOf v).out t fun c =>       -- the right-hand side is evaluated before the store
        if i < 0 then .ub .negIndexStore else .ok (.str (s.set i.toNat c))

/-- `ScriptVariable::setArrayAt` as `OP_LOAD_ARRAY_VAR` calls it: `m_data.refValue->setArrayAtRef`.
    The emitter only ever leaves a reference in that stack slot. -/
def setAt (fx : Fixes) (r idx v : Val) : Out :=
  match r with
  | .ref t => setAtRef fx t idx v
  | _ => .badop

/-- non-const `operator[](index)` on the referenced variable, as `setArrayRefValue` uses it:
    outcome = (the variable afterwards, the element the new reference points at) -/
def setRef (fx : Fixes) (r idx : Val) : Out :=
  match r with
  | .ref t =>
    match t with
    | .nil => (keyOf fx idx).out (.arr []) fun _ => .ok2 (.arr [(idx, .nil)]) .nil
    | .arr items =>
      (keyOf fx idx).out t fun k =>
        match lookup items k with
        | some e => .ok2 t e
        | none => .ok2 (.arr (items ++ [(idx, .nil)])) .nil
    | .carr items =>
      (intOf fx idx).out t fun i =>
        match nth1 items i.toNat with
        | some e => .ok2 t e
        | none => .err .typeIndexOutOfRange t
    | _ => .err .invalidAppliedType t
  | _ => .badop

/-- `operator[](index) const` -/
def indexConst (fx : Fixes) (a idx : Val) : Out :=
  match a with
  | .nil => .ok .nil
  | .arr items => (keyOf fx idx).out a fun k => .ok ((lookup items k).getD .nil)
  | .carr items =>
    (intOf fx idx).out a fun i =>
      match nth1 items i.toNat with
      | some e => .ok e
      | none => .err .typeIndexOutOfRange a
  | _ => .err .invalidAppliedType a

/-- `ScriptVariable::CastConstArrayValue`; the values of a script array come out in hash-table
    order, which is not modelled: the correspondence compares them as a sorted list -/
def castConstArray (a : Val) : Out :=
  match a with
  | .ptr => .err .castError .nil           -- ClearPointerInternal, then falls into the NIL case
  | .nil => .err .castError .nil
  | .carr _ => .ok a
  | .arr items => .ok (.carr (items.map (·.2)))
  | .cont items => .ok (.carr (items.map .obj))
  | .scont (some items) => .ok (.carr (items.map .obj))
  | .scont none => .ok (.carr [])
  | a => .ok (.carr [a])

/-- `listenerValue()` of each element, first failure wins -/
def listenersOf : List Val → R (List Obj)
  | [] => .ok []
  | v :: vs => (listenerOf v).bind fun o => (listenersOf vs).bind fun l => .ok (o :: l)

/-- the listeners `ScriptVM::ExecCmdMethodCommon` sends a command to (NULL entries included here,
    skipped by the VM); `listenerAt(i)` is only called with `1 ≤ i ≤ arraysize` of a const array.
    `none` = `arraysize() == -1` (NIL / pointer): `NilListenerCommand`. -/
def cmdTargets (a : Val) : Option (R (List Obj)) :=
  let n := arraySizeOf a
  if n == negOne then none
  else if n.toNat > 1 then
    match castConstArray a with
    | .ok (.carr items) => some (listenersOf items)
    | _ => some (.err .castError)
  else some ((listenerOf a).bind fun o => .ok [o])

/-- `operator=`: the left operand becomes a copy (references are never copied by the VM) -/
def assign (_a b : Val) : Out :=
  match b with
  | .ref _ => .badop
  | b => .ok b

end Morfuse.VMOps
