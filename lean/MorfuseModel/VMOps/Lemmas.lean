import MorfuseModel.VMOps.Step
/-!
# Undefined behaviour of the value layer is exactly the seven listed sources — helper lemmas

`R.Fine fx r` / `Out.Fine fx o`: the call ended with a value, a typed script error, or with an
undefined behaviour `u` whose repair is *absent* in `fx` (`u.fixedBy fx = false`).  With every repair
present (`Fixes.all`) that leaves values and typed errors only.  Every lemma is by case analysis on
the operand constructors and the guards of the transcribed code; no float value is inspected (the
float primitives are opaque to the kernel).
-/
namespace Morfuse.VMOps

def R.Fine {α} (fx : Fixes) : R α → Prop
  | .ub u => u.fixedBy fx = false
  | _ => True

def Out.Fine (fx : Fixes) : Out → Prop
  | .ub u => u.fixedBy fx = false
  | _ => True

@[simp] theorem R.fine_ok {α} (fx) (a : α) : (R.ok a).Fine fx := trivial
@[simp] theorem R.fine_err {α} (fx) (e : Err) : (R.err e : R α).Fine fx := trivial
@[simp] theorem Out.fine_ok (fx) (v : Val) : (Out.ok v).Fine fx := trivial
@[simp] theorem Out.fine_ok2 (fx) (v w : Val) : (Out.ok2 v w).Fine fx := trivial
@[simp] theorem Out.fine_err (fx) (e : Err) (v : Val) : (Out.err e v).Fine fx := trivial
@[simp] theorem Out.fine_badop (fx) : Out.badop.Fine fx := trivial

theorem R.bind_fine {α β} {fx} {r : R α} {f : α → R β} (hr : r.Fine fx) (hf : ∀ a, (f a).Fine fx) :
    (r.bind f).Fine fx := by
  cases r with
  | ok a => exact hf a
  | err e => trivial
  | ub u => exact hr

theorem R.out_fine {α} {fx} {r : R α} {lhs : Val} {f : α → Out} (hr : r.Fine fx) (hf : ∀ a, (f a).Fine fx) :
    (r.out lhs f).Fine fx := by
  cases r with
  | ok a => exact hf a
  | err e => trivial
  | ub u => exact hr

/-- with every repair present a fine outcome is not undefined behaviour -/
theorem Out.fine_all {o : Out} (h : o.Fine Fixes.all) : o.isUb = false := by
  cases o with
  | ub u => cases u <;> simp [Out.Fine, Ub.fixedBy, Fixes.all] at h
  | _ => rfl

/-- close a goal about a nest of `if`s / `match`es whose leaves are literal outcomes -/
macro "leaves" : tactic =>
  `(tactic| ((try dsimp only) <;> (repeat' (split <;> try dsimp only)) <;>
      (first
        | trivial
        | (simp_all [Out.Fine, R.Fine, Ub.fixedBy]; done))))

/-! ### casts -/

theorem floatStr_fine (fx) (b : UInt32) : (floatStr fx b).Fine fx := by
  unfold floatStr; leaves

theorem strOf_fine (fx) (v : Val) : (strOf fx v).Fine fx := by
  cases v <;> simp [strOf]
  case flt b => exact floatStr_fine fx b
  case obj o => cases o <;> simp
  case vec x y z =>
    exact R.bind_fine (floatStr_fine fx x) fun _ => R.bind_fine (floatStr_fine fx y) fun _ =>
      R.bind_fine (floatStr_fine fx z) fun _ => trivial

theorem floatToU64_fine (fx) (b : UInt32) : (floatToU64 fx b).Fine fx := by
  unfold floatToU64; leaves

theorem floatToU32_fine (fx) (b : UInt32) : (floatToU32 fx b).Fine fx := by
  unfold floatToU32
  repeat' split
  all_goals first
    | trivial
    | exact R.bind_fine (floatToU64_fine fx b) fun _ => trivial
    | (simp_all [R.Fine, Ub.fixedBy]; done)

theorem longOf_fine (fx) (v : Val) : (longOf fx v).Fine fx := by
  cases v <;> simp [longOf]
  case flt b => exact floatToU64_fine fx b

theorem intOf_fine (fx) (v : Val) : (intOf fx v).Fine fx := by
  cases v <;> simp [intOf]
  case flt b => exact floatToU32_fine fx b

theorem floatOf_fine (fx) (v : Val) : (floatOf v).Fine fx := by
  cases v <;> simp [floatOf]

theorem charOf_fine (fx) (v : Val) : (charOf v).Fine fx := by
  unfold charOf; split <;> trivial

theorem boolNumOf_fine (fx) (v : Val) : (boolNumOf v).Fine fx := by
  cases v <;> simp [boolNumOf]

theorem targetOf_fine (fx) (s : Bytes) : (targetOf s).Fine fx := by
  unfold targetOf; leaves

theorem listenerOf_fine (fx) (v : Val) : (listenerOf v).Fine fx := by
  cases v <;> simp [listenerOf, targetOf_fine]

theorem vectorOf_fine (fx) (v : Val) : (vectorOf v).Fine fx := by
  have h : ∀ s, (vectorOf.vecOfStr s).Fine fx := by
    intro s; unfold vectorOf.vecOfStr; simp only; leaves
  cases v <;> simp [vectorOf, h]

theorem int32Of_fine (fx) (v : Val) : (int32Of fx v).Fine fx :=
  R.bind_fine (intOf_fine fx v) fun _ => trivial

theorem keyOf_fine (fx) (v : Val) : (keyOf fx v).Fine fx := by
  cases v <;> simp [keyOf]
  all_goals exact R.bind_fine (strOf_fine fx _) fun _ => trivial

theorem strs_fine (fx) (a b : Val) : (strs fx a b).Fine fx :=
  R.bind_fine (strOf_fine fx a) fun _ => R.bind_fine (strOf_fine fx b) fun _ => trivial

/-! ### binary operators -/

theorem opAdd_fine (fx) (a b : Val) : (opAdd fx a b).Fine fx := by
  unfold opAdd
  split <;> first | trivial | exact R.out_fine (strs_fine fx _ _) fun _ => trivial

theorem opSub_fine (fx) (a b : Val) : (opSub a b).Fine fx := by
  unfold opSub; split <;> trivial

theorem opMul_fine (fx) (a b : Val) : (opMul a b).Fine fx := by
  unfold opMul; split <;> trivial

theorem opDiv_fine (fx) (a b : Val) : (opDiv fx a b).Fine fx := by
  unfold opDiv; leaves

theorem opMod_fine (fx) (a b : Val) : (opMod fx a b).Fine fx := by
  unfold opMod; leaves

theorem opBits_fine (fx) (f) (a b : Val) : (opBits f a b).Fine fx := by
  unfold opBits; split <;> trivial

theorem opShift_fine (fx) (l : Bool) (a b : Val) : (opShift fx l a b).Fine fx := by
  unfold opShift; leaves

theorem opCmp_fine (fx) (ci cf) (a b : Val) : (opCmp ci cf a b).Fine fx := by
  unfold opCmp; split <;> trivial

theorem opEq_fine (fx) (a b : Val) : (opEq fx a b).Fine fx := by
  unfold opEq
  split <;> first | trivial | exact R.out_fine (strs_fine fx _ _) fun _ => trivial

theorem binImpl_fine (fx) (op : BinOp) (a b : Val) : (binImpl fx op a b).Fine fx := by
  cases op <;> simp only [binImpl]
  · exact opAdd_fine fx a b
  · exact opSub_fine fx a b
  · exact opMul_fine fx a b
  · exact opDiv_fine fx a b
  · exact opMod_fine fx a b
  · exact opBits_fine fx _ a b
  · exact opBits_fine fx _ a b
  · exact opBits_fine fx _ a b
  · exact opShift_fine fx _ a b
  · exact opShift_fine fx _ a b
  · exact opCmp_fine fx _ _ a b
  · exact opCmp_fine fx _ _ a b
  · exact opCmp_fine fx _ _ a b
  · exact opCmp_fine fx _ _ a b
  · exact opEq_fine fx a b

theorem binop_fine (fx) (op : BinOp) (a b : Val) : (binop fx op a b).Fine fx := by
  unfold binop
  split
  · exact binImpl_fine fx op a b
  · split <;> trivial

/-! ### unary operators, index functions -/

theorem opMinus_fine (fx) (a : Val) : (opMinus fx a).Fine fx := by
  unfold opMinus
  split <;> first | trivial | exact R.out_fine (longOf_fine fx _) fun _ => trivial

theorem opCompl_fine (fx) (a : Val) : (opCompl fx a).Fine fx := by
  unfold opCompl
  split <;> first | trivial | exact R.out_fine (intOf_fine fx _) fun _ => trivial

theorem opIncDec_fine (fx) (i : Bool) (a : Val) : (opIncDec fx i a).Fine fx := by
  unfold opIncDec
  split <;> first | trivial | exact R.out_fine (intOf_fine fx _) fun _ => trivial

theorem opSize_fine (fx) (a : Val) : (opSize a).Fine fx := by
  unfold opSize; split <;> trivial

theorem evalAt_strAt_fine (fx) (a i : Val) (s : Bytes) : (evalAt.strAt fx a i s).Fine fx := by
  unfold evalAt.strAt
  refine R.out_fine (longOf_fine fx _) fun _ => ?_
  split <;> trivial

theorem evalAt_fine (fx) (a i : Val) : (evalAt fx a i).Fine fx := by
  unfold evalAt
  split
  all_goals first
    | trivial
    | exact evalAt_strAt_fine fx _ _ _
    | exact R.out_fine (keyOf_fine fx _) fun _ => trivial
    | (refine R.out_fine (longOf_fine fx _) fun _ => ?_
       leaves)

theorem setAtRef_strSet_fine (fx) (t i v : Val) (s : Bytes) : (setAtRef.strSet fx t i v s).Fine fx := by
  unfold setAtRef.strSet
  refine R.out_fine (int32Of_fine fx _) fun n => ?_
  split
  · trivial
  · split
    · trivial
    · refine R.out_fine (charOf_fine fx _) fun _ => ?_
      leaves

theorem setAtRef_fine (fx) (t i v : Val) : (setAtRef fx t i v).Fine fx := by
  unfold setAtRef
  split
  · refine R.out_fine (int32Of_fine fx _) fun n => ?_
    split
    · trivial
    · split
      · trivial
      · refine R.out_fine (floatOf_fine fx _) fun _ => ?_
        leaves
  · trivial
  · split
    · trivial
    · exact R.out_fine (keyOf_fine fx _) fun _ => trivial
  · refine R.out_fine (keyOf_fine fx _) fun _ => ?_
    split <;> trivial
  · exact setAtRef_strSet_fine fx _ _ _ _
  · exact setAtRef_strSet_fine fx _ _ _ _
  · refine R.out_fine (intOf_fine fx _) fun _ => ?_
    split <;> trivial
  · trivial

theorem setAt_fine (fx) (r i v : Val) : (setAt fx r i v).Fine fx := by
  unfold setAt; split
  · exact setAtRef_fine fx _ _ _
  · trivial

theorem setRef_fine (fx) (r i : Val) : (setRef fx r i).Fine fx := by
  unfold setRef
  split
  · split
    · exact R.out_fine (keyOf_fine fx _) fun _ => trivial
    · refine R.out_fine (keyOf_fine fx _) fun _ => ?_
      split <;> trivial
    · refine R.out_fine (intOf_fine fx _) fun _ => ?_
      split <;> trivial
    · trivial
  · trivial

theorem indexConst_fine (fx) (a i : Val) : (indexConst fx a i).Fine fx := by
  unfold indexConst
  split
  · trivial
  · exact R.out_fine (keyOf_fine fx _) fun _ => trivial
  · refine R.out_fine (intOf_fine fx _) fun _ => ?_
    split <;> trivial
  · trivial

theorem castConstArray_fine (fx) (a : Val) : (castConstArray a).Fine fx := by
  unfold castConstArray; split <;> trivial

theorem listenersOf_fine (fx) (l : List Val) : (listenersOf l).Fine fx := by
  induction l with
  | nil => trivial
  | cons v vs ih =>
    exact R.bind_fine (listenerOf_fine fx v) fun _ => R.bind_fine ih fun _ => trivial

theorem cmdTargets_fine (fx) (a : Val) : ∀ r, cmdTargets a = some r → r.Fine fx := by
  intro r h
  unfold cmdTargets at h
  simp only at h
  split at h
  · cases h
  · split at h
    · split at h
      · cases h; exact listenersOf_fine fx _
      · cases h; trivial
    · cases h; exact R.bind_fine (listenerOf_fine fx a) fun _ => trivial

theorem assign_fine (fx) (a b : Val) : (assign a b).Fine fx := by
  unfold assign; split <;> trivial

/-! ### one call -/

theorem ofR_fine {α} (fx) {r : R α} (hr : r.Fine fx) (lhs : Val) (f : α → Val) : (ofR r lhs f).Fine fx :=
  R.out_fine hr fun _ => trivial

theorem step_fine (fx : Fixes) (op : Op) (args : List Val) : (step fx op args).Fine fx := by
  unfold step
  split
  all_goals first
    | trivial
    | exact binop_fine fx _ _ _
    | exact assign_fine fx _ _
    | exact evalAt_fine fx _ _
    | exact setAt_fine fx _ _ _
    | exact setRef_fine fx _ _
    | exact indexConst_fine fx _ _
    | exact opMinus_fine fx _
    | exact opCompl_fine fx _
    | exact opIncDec_fine fx _ _
    | exact opSize_fine fx _
    | exact castConstArray_fine fx _
    | exact ofR_fine fx (boolNumOf_fine fx _) _ _
    | exact ofR_fine fx (intOf_fine fx _) _ _
    | exact ofR_fine fx (longOf_fine fx _) _ _
    | exact ofR_fine fx (floatOf_fine fx _) _ _
    | exact ofR_fine fx (charOf_fine fx _) _ _
    | exact ofR_fine fx (strOf_fine fx _) _ _
    | exact ofR_fine fx (listenerOf_fine fx _) _ _
    | exact ofR_fine fx (vectorOf_fine fx _) _ _
    | skip
  · -- `!=` is `!(a == b)`
    rename_i a b
    have h := binop_fine fx .eq a b
    generalize binop fx .eq a b = o at h
    cases o with
    | ok v => cases v <;> trivial
    | _ => exact h
  · -- OP_CALC_VECTOR
    rename_i a b c
    refine R.out_fine ?_ fun _ => trivial
    exact R.bind_fine (floatOf_fine fx a) fun _ => R.bind_fine (floatOf_fine fx b) fun _ =>
      R.bind_fine (floatOf_fine fx c) fun _ => trivial
  · -- listener enumeration of a command
    rename_i a
    split
    · trivial
    · rename_i r h; exact ofR_fine fx (cmdTargets_fine fx a r h) _ _

end Morfuse.VMOps
