import MorfuseModel.VMOps.Value
/-!
# Casts and binary / unary operators of `ScriptVariable` (src/Script/ScriptVariable.cpp)

Every function is a transcription of the C++ member of the same name; the comment in front of each
clause names the `case` it comes from.  `fx : Fixes` selects, for the seven places where the C++
as first read executes undefined behaviour, between that code (`ub`) and the repaired code.
-/
namespace Morfuse.VMOps
open F32

/-- result of a helper that can throw or hit undefined behaviour before producing a value -/
inductive R (α : Type) where
  | ok (a : α)
  | err (e : Err)
  | ub (u : Ub)

@[inline] def R.bind {α β} (r : R α) (f : α → R β) : R β :=
  match r with
  | .ok a => f a
  | .err e => .err e
  | .ub u => .ub u

/-- finish an in-place operation: an exception leaves the left operand `lhs` behind -/
@[inline] def R.out {α} (r : R α) (lhs : Val) (f : α → Out) : Out :=
  match r with
  | .ok a => f a
  | .err e => .err e lhs
  | .ub u => .ub u

/-! ## casts -/

/-- `base_str(float)` = `floattoStr(num, text, 32, 3)` -/
def floatStr (fx : Fixes) (b : UInt32) : R Bytes :=
  if fx.floatStr then
    -- repaired: snprintf("%.3f") truncated to the 31 characters the buffer holds
    .ok ((fmt3 b).take 31)
  else if !truncInRange b (-(2 ^ 31)) (2 ^ 31 - 1) then
    .ub .floatStr            -- `(int32_t)num` of a value that does not fit
  else
    let ip := truncToInt b
    -- fpart = num - (float)ipart; non-zero: the terminator lands `digits` bytes behind the text
    if F32.feq (F32.sub b (F32.ofInt64 (BitVec.ofInt 64 ip))) 0 then
      .ok (ascii (toString ip) ++ ascii ".000")
    else .ub .floatStr

/-- `ScriptVariable::stringValue` -/
def strOf (fx : Fixes) : Val → R Bytes
  | .nil => .ok (ascii "NIL")
  | .cstr s => .ok s
  | .str s => .ok s
  | .int v => .ok (intToStr v)
  | .flt b => floatStr fx b
  | .chr c => .ok [c]
  | .obj (some _) => .ok (ascii "class 'Listener'")
  | .obj none => .ok (ascii "NULL")
  | .vec x y z =>
    (floatStr fx x).bind fun sx => (floatStr fx y).bind fun sy => (floatStr fx z).bind fun sz =>
      .ok (ascii "( " ++ sx ++ ascii " " ++ sy ++ ascii " " ++ sz ++ ascii " )")
  | v => .ok (ascii ("Type: '" ++ v.kind.typeName ++ "'"))

/-- `(uint64_t)f` as the repaired code defines it for every float; `ub` when the C++ cast is
    undefined (value outside `(-1, 2^64)` after truncation, NaN, infinities) and not repaired -/
def floatToU64 (fx : Fixes) (b : UInt32) : R (BitVec 64) :=
  if truncInRange b 0 (2 ^ 64 - 1) then .ok (BitVec.ofInt 64 (truncToInt b))
  else if !fx.floatCast then .ub .floatCast
  else if isNaN b then .ok 0
  else if truncInRange b (-(2 ^ 63)) (-1) then .ok (BitVec.ofInt 64 (truncToInt b))
  else if signBit b then .ok (BitVec.ofNat 64 (2 ^ 63))
  else .ok (BitVec.ofNat 64 (2 ^ 64 - 1))

/-- `(uint32_t)f`: defined for truncated values in `[0, 2^32)`; repaired = low 32 bits of the 64-bit conversion -/
def floatToU32 (fx : Fixes) (b : UInt32) : R (BitVec 64) :=
  if truncInRange b 0 (2 ^ 32 - 1) then .ok (BitVec.ofInt 64 (truncToInt b))
  else if !fx.floatCast then .ub .floatCast
  else (floatToU64 fx b).bind fun v => .ok ((v.truncate 32).zeroExtend 64)

/-- `ScriptVariable::longValue` -/
def longOf (fx : Fixes) : Val → R (BitVec 64)
  | .int v => .ok v
  | .flt b => floatToU64 fx b
  | .str s => .ok (strtoll s)
  | .cstr s => .ok (strtoll s)
  | _ => .err .castError

/-- `ScriptVariable::intValue` (a `uint32_t`, shown zero-extended) -/
def intOf (fx : Fixes) : Val → R (BitVec 64)
  | .int v => .ok ((v.truncate 32).zeroExtend 64)
  | .flt b => floatToU32 fx b
  | .str s => .ok (((strtoll s).truncate 32).zeroExtend 64)
  | .cstr s => .ok (((strtoll s).truncate 32).zeroExtend 64)
  | _ => .err .castError

/-- `ScriptVariable::floatValue` -/
def floatOf : Val → R UInt32
  | .flt b => .ok b
  | .int v => .ok (ofInt64 v)
  | .str s => .ok (strtof s)
  | .cstr s => .ok (strtof s)
  | _ => .err .castError

/-- `ScriptVariable::booleanValue` -/
def boolOf : Val → Bool
  | .nil => false
  | .str s => !s.isEmpty
  | .int v => v != 0
  | .flt b => truthy b
  | .cstr s => !s.isEmpty
  | .obj o => o.isSome
  | _ => true

/-- `ScriptVariable::booleanNumericValue` -/
def boolNumOf : Val → R Bool
  | .str s => .ok ((strtoll s).truncate 32 != (0 : BitVec 32))
  | .cstr s => .ok ((strtoll s).truncate 32 != (0 : BitVec 32))
  | .int v => .ok (v != 0)
  | .flt b => .ok (truthy b)
  | .obj o => .ok o.isSome
  | _ => .err .castError

/-- `ScriptVariable::charValue` -/
def charOf : Val → R UInt8
  | .chr c => .ok c
  | .str [c] => .ok c
  | .cstr [c] => .ok c
  | _ => .err .castError

/-- the fixed target-name universe of the operator harness: `t1` names listener 1, `t2` names 2 and 3 -/
def targetOf (name : Bytes) : R Obj :=
  if name == ascii "t1" then .ok (some 1)
  else if name == ascii "t2" then .err .multipleTargets
  else .ok none

/-- `ScriptVariable::listenerValue` -/
def listenerOf : Val → R Obj
  | .cstr s => targetOf s
  | .str s => targetOf s
  | .obj o => .ok o
  | _ => .err .castError

/-! `sscanf` with the four formats of `vectorValue` -/

/-- one `%f`: leading white space skipped, then the longest decimal float prefix; `none` when no digits -/
def scanFloat (s : Bytes) : Option (UInt32 × Bytes) :=
  let s := s.dropWhile isSpace
  let sg : Bytes := match s with
    | 45 :: _ => [45]
    | 43 :: _ => [43]
    | _ => []
  let t := s.drop sg.length
  let ip := t.takeWhile isDigit
  let r := t.drop ip.length
  let (fpAll, r1) : Bytes × Bytes := match r with
    | 46 :: u => (46 :: u.takeWhile isDigit, u.drop (u.takeWhile isDigit).length)
    | _ => ([], r)
  if ip.isEmpty && fpAll.length ≤ 1 then none
  else
    let (ex, r2) : Bytes × Bytes := match r1 with
      | c :: u =>
        if c == 101 || c == 69 then
          let sg2 : Bytes := match u with
            | 45 :: _ => [45]
            | 43 :: _ => [43]
            | _ => []
          let ds := (u.drop sg2.length).takeWhile isDigit
          if ds.isEmpty then ([], r1) else (c :: sg2 ++ ds, (u.drop sg2.length).drop ds.length)
        else ([], r1)
      | [] => ([], r1)
    some (strtof (sg ++ ip ++ fpAll ++ ex), r2)

/-- literal directive: white space in the format matches any amount of input white space -/
def scanLit (lit : UInt8) (s : Bytes) : Option Bytes :=
  if isSpace lit then some (s.dropWhile isSpace)
  else match s with
    | c :: t => if c == lit then some t else none
    | [] => none

/-- `sscanf(s, "<open>%f<sep>%f<sep>%f")` = 3 -/
def scan3 (openParen : Bool) (comma : Bool) (s : Bytes) : Option (UInt32 × UInt32 × UInt32) :=
  let s0 : Option Bytes := if openParen then scanLit 40 s else some s
  let sep (s : Bytes) : Option Bytes :=
    if comma then (scanLit 44 s).bind (scanLit 32) else scanLit 32 s
  s0.bind fun s => (scanFloat s).bind fun (x, s) => (sep s).bind fun s =>
    (scanFloat s).bind fun (y, s) => (sep s).bind fun s => (scanFloat s).bind fun (z, _) => some (x, y, z)

/-- `ScriptVariable::vectorValue` -/
def vectorOf : Val → R (UInt32 × UInt32 × UInt32)
  | .vec x y z => .ok (x, y, z)
  | .obj _ => .err .castError     -- NULL, or a Listener that is not a SimpleEntity
  | .str s => vecOfStr s
  | .cstr s => vecOfStr s
  | _ => .err .castError
where
  vecOfStr (s : Bytes) : R (UInt32 × UInt32 × UInt32) :=
    let s := cstrView s
    if s.isEmpty then .err .castError
    else
      let par := s.head? == some 40
      match scan3 par false s with
      | some v => .ok v
      | none => match scan3 par true s with
        | some v => .ok v
        | none => .err .scriptException

/-! ## binary operators -/

inductive BinOp where
  | add | sub | mul | div | mod | band | bxor | bor | shl | shr | gt | ge | lt | le | eq
  deriving DecidableEq, Repr, Inhabited

def BinOp.all : List BinOp := [.add, .sub, .mul, .div, .mod, .band, .bxor, .bor, .shl, .shr, .gt, .ge, .lt, .le, .eq]

/-- name of the C++ member, as the translator records it -/
def BinOp.cppName : BinOp → String
  | .add => "operator+=" | .sub => "operator-=" | .mul => "operator*=" | .div => "operator/="
  | .mod => "operator%=" | .band => "operator&=" | .bxor => "operator^=" | .bor => "operator|="
  | .shl => "operator<<=" | .shr => "operator>>=" | .gt => "greaterthan" | .ge => "greaterthanorequal"
  | .lt => "lessthan" | .le => "lessthanorequal" | .eq => "operator=="

def numPairs : List (Nat × Nat) := [(2, 2), (2, 3), (3, 3), (3, 2)]
def vecNumPairs : List (Nat × Nat) := [(2, 2), (13, 2), (13, 3), (2, 3), (3, 3), (3, 2), (2, 13), (3, 13), (13, 13)]
/-- the pairs that go through `stringValue()` on both sides (`+=`), in source order -/
def strPairsAdd : List (Nat × Nat) :=
  [(1, 1), (2, 1), (3, 1), (4, 1), (5, 1), (6, 1), (13, 1), (1, 2), (5, 2), (1, 3), (5, 3), (1, 4), (5, 4),
   (1, 5), (2, 5), (3, 5), (4, 5), (5, 5), (6, 5), (13, 5), (1, 6), (5, 6), (1, 13), (5, 13)]
/-- same for `==` (`ConstString == ConstString` has its own case) -/
def strPairsEq : List (Nat × Nat) :=
  [(1, 1), (2, 1), (3, 1), (4, 1), (5, 1), (6, 1), (13, 1), (1, 5), (2, 5), (3, 5), (4, 5), (6, 5), (13, 5),
   (1, 2), (5, 2), (1, 3), (5, 3), (1, 4), (5, 4), (1, 6), (5, 6), (1, 13), (5, 13)]

/-- the `(left kind, right kind)` pairs with an explicit `case` label (everything else is `default`) -/
def acceptTbl : BinOp → List (Nat × Nat)
  | .add => numPairs ++ strPairsAdd ++ [(13, 13)]
  | .sub => numPairs ++ [(13, 13)]
  | .mul => vecNumPairs
  | .div => vecNumPairs
  | .mod => vecNumPairs
  | .band => [(2, 2)] | .bxor => [(2, 2)] | .bor => [(2, 2)] | .shl => [(2, 2)] | .shr => [(2, 2)]
  | .gt => numPairs ++ [(4, 4)] | .ge => numPairs ++ [(4, 4)] | .lt => numPairs ++ [(4, 4)] | .le => numPairs ++ [(4, 4)]
  | .eq => [(0, 0), (6, 6), (2, 2), (2, 4), (2, 3), (3, 3), (3, 2), (4, 2), (4, 4), (5, 5)] ++ strPairsEq ++ [(13, 13)]

def accepts (op : BinOp) (a b : Kind) : Bool := (acceptTbl op).contains (a.toNat, b.toNat)

def b2i (b : Bool) : Val := .int (if b then 1 else 0)

def minInt : BitVec 64 := BitVec.ofNat 64 (2 ^ 63)
def negOne : BitVec 64 := BitVec.ofInt 64 (-1)

/-- sign-extended `char` (`rawchar_t` is a signed `char`) -/
def chrInt (c : UInt8) : Int := (BitVec.ofNat 8 c.toNat).toInt

def v3 (f : UInt32 → UInt32) (x y z : UInt32) : Val := .vec (f x) (f y) (f z)

/-- string concatenation / comparison operands -/
def strs (fx : Fixes) (a b : Val) : R (Bytes × Bytes) :=
  (strOf fx a).bind fun sa => (strOf fx b).bind fun sb => .ok (sa, sb)

def opAdd (fx : Fixes) (a b : Val) : Out :=
  match a, b with
  | .int x, .int y => .ok (.int (x + y))
  | .int x, .flt y => .ok (.flt (add (ofInt64 x) y))
  | .flt x, .flt y => .ok (.flt (add x y))
  | .flt x, .int y => .ok (.flt (add x (ofInt64 y)))
  | .vec a0 a1 a2, .vec b0 b1 b2 => .ok (.vec (add a0 b0) (add a1 b1) (add a2 b2))
  | a, b => (strs fx a b).out a fun (sa, sb) => .ok (.str (sa ++ sb))

def opSub (a b : Val) : Out :=
  match a, b with
  | .int x, .int y => .ok (.int (x - y))
  | .int x, .flt y => .ok (.flt (sub (ofInt64 x) y))
  | .flt x, .flt y => .ok (.flt (sub x y))
  | .flt x, .int y => .ok (.flt (sub x (ofInt64 y)))
  | .vec a0 a1 a2, .vec b0 b1 b2 => .ok (.vec (sub a0 b0) (sub a1 b1) (sub a2 b2))
  | _, _ => .badop

def opMul (a b : Val) : Out :=
  match a, b with
  | .int x, .int y => .ok (.int (x * y))
  | .vec x y z, .int s => .ok (v3 (fun c => mul c (ofInt64 s)) x y z)
  | .vec x y z, .flt s => .ok (v3 (fun c => mul c s) x y z)
  | .int x, .flt y => .ok (.flt (mul (ofInt64 x) y))
  | .flt x, .flt y => .ok (.flt (mul x y))
  | .flt x, .int y => .ok (.flt (mul x (ofInt64 y)))
  | .int s, .vec x y z => .ok (v3 (fun c => mul c (ofInt64 s)) x y z)
  | .flt s, .vec x y z => .ok (v3 (fun c => mul c s) x y z)
  | .vec a0 a1 a2, .vec b0 b1 b2 => .ok (.vec (mul a0 b0) (mul a1 b1) (mul a2 b2))
  | _, _ => .badop

def opDiv (fx : Fixes) (a b : Val) : Out :=
  match a, b with
  | .int x, .int y =>
    if y == 0 then .err .divideByZero a
    else if x == minInt && y == negOne then
      (if fx.divMin then .ok (.int minInt) else .ub .divMin)
    else .ok (.int (x.sdiv y))
  | .vec .., .int s =>
    -- `(Vector)m_data.vectorValue = (Vector)m_data.vectorValue / (float)s` assigns to a temporary
    if s == 0 then .err .divideByZero a else .ok a
  | .vec x y z, .flt s => if isZero s then .err .divideByZero a else .ok (v3 (fun c => div c s) x y z)
  | .int x, .flt y => if isZero y then .err .divideByZero a else .ok (.flt (div (ofInt64 x) y))
  | .flt x, .flt y => if isZero y then .err .divideByZero a else .ok (.flt (div x y))
  | .flt x, .int y => if y == 0 then .err .divideByZero a else .ok (.flt (div x (ofInt64 y)))
  | .int s, .vec x y z =>
    -- `(float)s / Vector(v)` is `operator/(float, Vector)` = `v / s`
    if s == 0 then .err .divideByZero a else .ok (v3 (fun c => div c (ofInt64 s)) x y z)
  | .flt s, .vec x y z => if isZero s then .err .divideByZero a else .ok (v3 (fun c => div c s) x y z)
  | .vec a0 a1 a2, .vec b0 b1 b2 =>
    if fx.vecDivAlias then
      let q (p d : UInt32) : UInt32 := if isZero d then 0 else div p d
      .ok (.vec (q a0 b0) (q a1 b1) (q a2 b2))
    else .ub .vecAlias
  | _, _ => .badop

def opMod (fx : Fixes) (a b : Val) : Out :=
  match a, b with
  | .int x, .int y =>
    if y == 0 then .err .divideByZero a
    else if x == minInt && y == negOne then
      (if fx.divMin then .ok (.int 0) else .ub .divMin)
    else .ok (.int (x.srem y))
  | .vec x y z, .int s => if s == 0 then .err .divideByZero a else .ok (v3 (fun c => fmod c (ofInt64 s)) x y z)
  | .vec x y z, .flt s => if isZero s then .err .divideByZero a else .ok (v3 (fun c => fmod c s) x y z)
  | .int x, .flt y => if isZero y then .err .divideByZero a else .ok (.flt (fmod (ofInt64 x) y))
  | .flt x, .flt y => if isZero y then .err .divideByZero a else .ok (.flt (fmod x y))
  | .flt x, .int y => if y == 0 then .err .divideByZero a else .ok (.flt (fmod x (ofInt64 y)))
  | .int s, .vec x y z =>
    if isZero (ofInt64 s) then .err .divideByZero a else .ok (v3 (fun c => fmod c (ofInt64 s)) x y z)
  | .flt s, .vec .. =>
    -- `setVectorValue(vec_zero)` first, then `fmodf(m_data.vectorValue[i], mult)` of the zeros just stored
    if isZero s then .err .divideByZero a else .ok (v3 (fun c => fmod c s) 0 0 0)
  | .vec a0 a1 a2, .vec b0 b1 b2 =>
    if fx.vecDivAlias then
      let q (p d : UInt32) : UInt32 := if isZero d then 0 else fmod p d
      .ok (.vec (q a0 b0) (q a1 b1) (q a2 b2))
    else .ub .vecAlias
  | _, _ => .badop

def opBits (f : BitVec 64 → BitVec 64 → BitVec 64) (a b : Val) : Out :=
  match a, b with
  | .int x, .int y => .ok (.int (f x y))
  | _, _ => .badop

def opShift (fx : Fixes) (left : Bool) (a b : Val) : Out :=
  match a, b with
  | .int x, .int y =>
    let n := y.toNat
    if n < 64 then .ok (.int (if left then x <<< n else x.sshiftRight n))
    else if fx.shiftCount then
      let m := n % 64        -- `count & 63`
      .ok (.int (if left then x <<< m else x.sshiftRight m))
    else .ub .shiftCount
  | _, _ => .badop

/-- the four ordered comparisons; `cmpI` on integers / chars, `cmpF` on the float difference -/
def opCmp (cmpI : Int → Int → Bool) (cmpF : UInt32 → Bool) (a b : Val) : Out :=
  match a, b with
  | .int x, .int y => .ok (b2i (cmpI x.toInt y.toInt))
  | .int x, .flt y => .ok (b2i (cmpF (sub (ofInt64 x) y)))
  | .flt x, .flt y => .ok (b2i (cmpF (sub x y)))
  | .flt x, .int y => .ok (b2i (cmpF (sub x (ofInt64 y))))
  | .chr x, .chr y => .ok (b2i (cmpI (chrInt x) (chrInt y)))
  | _, _ => .badop

def vecCmp (a b : UInt32) : Bool := fle (sub b fEps) a && fle a (add b fEps)

def opEq (fx : Fixes) (a b : Val) : Out :=
  match a, b with
  | .nil, .nil => .ok (b2i true)
  | .obj x, .obj y => .ok (b2i (x == y))
  | .int x, .int y => .ok (b2i (x == y))
  | .int x, .chr y => .ok (b2i (x.toInt == chrInt y))
  | .int x, .flt y => .ok (b2i (absLtEps (sub (ofInt64 x) y)))
  | .flt x, .flt y => .ok (b2i (absLtEps (sub x y)))
  | .flt x, .int y => .ok (b2i (absLtEps (sub x (ofInt64 y))))
  | .chr x, .int y => .ok (b2i (chrInt x == y.toInt))
  | .chr x, .chr y => .ok (b2i (x == y))
  | .cstr x, .cstr y => .ok (b2i (x == y))
  | .vec a0 a1 a2, .vec b0 b1 b2 => .ok (b2i (vecCmp a0 b0 && vecCmp a1 b1 && vecCmp a2 b2))
  | a, b => (strs fx a b).out a fun (sa, sb) => .ok (b2i ((sa.isEmpty && sb.isEmpty) || sa == sb))

/-- body of the accepted `case` of `op` for the operands -/
def binImpl (fx : Fixes) : BinOp → Val → Val → Out
  | .add, a, b => opAdd fx a b
  | .sub, a, b => opSub a b
  | .mul, a, b => opMul a b
  | .div, a, b => opDiv fx a b
  | .mod, a, b => opMod fx a b
  | .band, a, b => opBits (· &&& ·) a b
  | .bxor, a, b => opBits (· ^^^ ·) a b
  | .bor, a, b => opBits (· ||| ·) a b
  | .shl, a, b => opShift fx true a b
  | .shr, a, b => opShift fx false a b
  | .gt, a, b => opCmp (fun x y => x > y) geEps a b
  | .ge, a, b => opCmp (fun x y => x ≥ y) gtNegEps a b
  | .lt, a, b => opCmp (fun x y => x < y) leNegEps a b
  | .le, a, b => opCmp (fun x y => x ≤ y) ltEps a b
  | .eq, a, b => opEq fx a b

/-- `switch (type + value.type * Max)`: an accepted pair runs its case, everything else `default`:
    `Clear(); throw IncompatibleOperator` — except `==`, whose default is `return false` -/
def binop (fx : Fixes) (op : BinOp) (a b : Val) : Out :=
  if accepts op a.kind b.kind then binImpl fx op a b
  else if op == .eq then .ok (b2i false)
  else .err .incompatibleOperator .nil

/-! ## unary operators -/

/-- `ScriptVariable::minus` -/
def opMinus (fx : Fixes) (a : Val) : Out :=
  match a with
  | .int v => .ok (.int (-v))
  | .flt b => .ok (.flt (neg b))
  | a => (longOf fx a).out a fun v => .ok (.int (-v))

/-- `ScriptVariable::complement` -/
def opCompl (fx : Fixes) (a : Val) : Out :=
  match a with
  | .int v => .ok (.int (~~~v))
  | a => (intOf fx a).out a fun v => .ok (.int ((~~~(v.truncate 32)).zeroExtend 64))

/-- `operator++(int)` / `operator--(int)` -/
def opIncDec (fx : Fixes) (inc : Bool) (a : Val) : Out :=
  match a with
  | .nil => .ok .nil
  | .int v => .ok (.int (if inc then v + 1 else v - 1))
  | .ptr => .ok .nil                         -- ClearPointerInternal: every sharer becomes NIL
  | .flt b => .ok (.flt (if inc then add b one else sub b one))
  | a => (intOf fx a).out a fun v =>
      let w : BitVec 32 := v.truncate 32
      .ok (.int ((if inc then w + 1 else w - 1).zeroExtend 64))

/-- `ScriptVariable::size` as `OP_UN_SIZE` uses it: `setLongValue((uintptr_t)size())` -/
def opSize (a : Val) : Out :=
  match a with
  | .nil => .ok (.int negOne)
  | .str s => .ok (.int (BitVec.ofNat 64 s.length))
  | .cstr s => .ok (.int (BitVec.ofNat 64 s.length))
  | .obj o => .ok (b2i o.isSome)
  | .arr items => .ok (.int (BitVec.ofNat 64 items.length))
  | .carr items => .ok (.int (BitVec.ofNat 64 items.length))
  | .cont items => .ok (.int (BitVec.ofNat 64 items.length))
  | .scont (some items) => .ok (.int (BitVec.ofNat 64 items.length))
  | .scont none => .ok (.int 0)
  | .ptr => .ok (.int negOne)
  | _ => .ok (.int 1)

/-- `ScriptVariable::arraysize` (a `size_t`; `-1` = not a listener-like value) -/
def arraySizeOf : Val → BitVec 64
  | .nil => negOne
  | .arr items => BitVec.ofNat 64 items.length
  | .carr items => BitVec.ofNat 64 items.length
  | .cont items => BitVec.ofNat 64 items.length
  | .scont (some items) => BitVec.ofNat 64 items.length
  | .scont none => 0
  | .ptr => negOne
  | _ => 1

end Morfuse.VMOps
