import MorfuseModel.VMOps.Index
/-!
# One call into the value layer: the operations the operator-level harness can issue

`Op` names every operator, cast and index function of `ScriptVariable` that the VM reaches with
operands taken from the script's stack (`src/Script/ScriptVMOperation.cpp`), `step` runs it.
-/
namespace Morfuse.VMOps

inductive Op where
  | bin (op : BinOp)
  | ne
  | assign
  | evalAt | setAt | setRef | index
  | minus | compl | inc | dec | size | arraySize
  | castBool | boolValue | boolNum | intValue | longValue | floatValue | charValue | strValue
  | listenerValue | vectorValue | castInt | castFloat | castStr | castConstArray
  | calcVector | cmdTargets
  deriving DecidableEq, Repr, Inhabited

/-- number of operands -/
def Op.arity : Op → Nat
  | .bin _ | .ne | .assign | .evalAt | .setRef | .index => 2
  | .setAt | .calcVector => 3
  | _ => 1

def ofR {α} (r : R α) (lhs : Val) (f : α → Val) : Out := r.out lhs fun a => .ok (f a)

def vecVal (v : UInt32 × UInt32 × UInt32) : Val := .vec v.1 v.2.1 v.2.2

def step (fx : Fixes) (op : Op) (args : List Val) : Out :=
  match op, args with
  | .bin o, [a, b] => binop fx o a b
  | .ne, [a, b] =>
    match binop fx .eq a b with
    | .ok (.int v) => .ok (b2i (v == 0))
    | o => o
  | .assign, [a, b] => assign a b
  | .evalAt, [a, i] => evalAt fx a i
  | .setAt, [r, i, v] => setAt fx r i v
  | .setRef, [r, i] => setRef fx r i
  | .index, [a, i] => indexConst fx a i
  | .minus, [a] => opMinus fx a
  | .compl, [a] => opCompl fx a
  | .inc, [a] => opIncDec fx true a
  | .dec, [a] => opIncDec fx false a
  | .size, [a] => opSize a
  | .arraySize, [a] => .ok (.int (arraySizeOf a))
  | .castBool, [a] => .ok (b2i (boolOf a))
  | .boolValue, [a] => .ok (b2i (boolOf a))
  | .boolNum, [a] => ofR (boolNumOf a) a b2i
  | .intValue, [a] => ofR (intOf fx a) a .int
  | .longValue, [a] => ofR (longOf fx a) a .int
  | .floatValue, [a] => ofR (floatOf a) a .flt
  | .charValue, [a] => ofR (charOf a) a .chr
  | .strValue, [a] => ofR (strOf fx a) a .str
  | .listenerValue, [a] => ofR (listenerOf a) a .obj
  | .vectorValue, [a] => ofR (vectorOf a) a vecVal
  | .castInt, [a] => ofR (intOf fx a) a .int
  | .castFloat, [a] => ofR (floatOf a) a .flt
  | .castStr, [a] => ofR (strOf fx a) a .str
  | .castConstArray, [a] => castConstArray a
  | .calcVector, [a, b, c] =>
    ((floatOf a).bind fun x => (floatOf b).bind fun y => (floatOf c).bind fun z => .ok (x, y, z)).out a
      fun v => .ok (vecVal v)
  | .cmdTargets, [a] =>
    match cmdTargets a with
    | none => .err .nilListenerCommand (match a with | .ptr => .nil | a => a)   -- `arraysize()` of a pointer clears it
    | some r => ofR r a fun l => .carr (l.map .obj)
  | _, _ => .badop

end Morfuse.VMOps
