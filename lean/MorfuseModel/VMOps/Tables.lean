import MorfuseModel.VMOps.Step
import MorfuseModel.Gen.OpAccept
/-!
# The tables the hand model stands on, and their regenerated counterparts

`Gen.OpAccept` is rewritten from the C++ on every run; the functions here read it.
-/
namespace Morfuse.VMOps
open Morfuse.Gen

/-- the repairs the source under check shows -/
def codeFixes : Fixes :=
  { divMin := OpAccept.fix_divMin, shiftCount := OpAccept.fix_shiftCount,
    vecDivAlias := OpAccept.fix_vecDivAlias, safeContainerBound := OpAccept.fix_safeContainerBound,
    negIndexStore := OpAccept.fix_negIndexStore, floatCast := OpAccept.fix_floatCast,
    floatStr := OpAccept.fix_floatStr }

def sameSet (a b : List (Nat × Nat)) : Bool := a.all b.contains && b.all a.contains

/-- the explicit `case` labels of a pair-dispatched member in the regenerated table -/
def genPairs (name : String) : List (Nat × Nat) :=
  match OpAccept.pairCases.lookup name with
  | some groups => groups.flatten.filter (· != (99, 99))
  | none => []

/-- groups of `case variableType_e::X:` labels of the members with a `switch (type)`, as the model
    transcribes them (99 = `default`); compared literally with the regenerated groups -/
def kindTbl : List (String × List (List Nat)) := [
  ("CastConstArrayValue", [[12], [0], [9], [8], [10], [11], [99]]),
  ("arraysize", [[0], [1, 2, 3, 4, 5, 6, 7, 13], [8], [9], [10], [11], [12], [99]]),
  ("size", [[0], [5, 1], [6], [8], [9], [10], [11], [12], [99]]),
  ("booleanNumericValue", [[1, 5], [2], [3], [6], [99]]),
  ("booleanValue", [[0], [1], [2], [3], [5], [6], [99]]),
  ("charValue", [[4], [5, 1], [99]]),
  ("evalArrayAt", [[13], [0], [5, 1], [6], [8], [9], [10], [11], [99]]),
  ("floatValue", [[3], [2], [1, 5], [99]]),
  ("intValue", [[2], [3], [1, 5], [99]]),
  ("longValue", [[2], [3], [1, 5], [99]]),
  ("listenerValue", [[5], [1], [6], [99]]),
  ("listenerAt", [[9], [10], [11], [99]]),
  ("stringValue", [[0], [5], [1], [2], [3], [4], [6], [13], [99]]),
  ("vectorValue", [[13], [5, 1], [6], [99]]),
  ("setArrayAtRef", [[13], [7], [0], [8], [1, 5], [9], [99]]),
  ("operator[]#const", [[0], [8], [9], [99]]),
  ("operator[]", [[0], [8], [9], [99]]),
  ("minus", [[2], [3], [99]]),
  ("operator++", [[0], [2], [12], [3], [99]]),
  ("operator--", [[0], [2], [12], [3], [99]]),
  ("setDataInternal", [[99], [5, 3, 4, 2], [1], [6], [8], [9], [10], [11], [12], [13]])
]

/-- `operator=` copies the payload word for these pairs and goes through `setDataInternal` otherwise;
    either way the left operand ends as a copy, the table is recorded so that a change is noticed -/
def assignPlainPairs : List (Nat × Nat) :=
  [0, 1, 2, 3, 4, 5].flatMap fun l => [0, 2, 3, 4, 5].map fun r => (l, r)

/-! ## exception classes -/

def basesOf (c : String) : List String := (OpAccept.classBases.lookup c).getD []

/-- `c` is `b` or has `b` among its ancestors (fuel bounds the depth of the hierarchy) -/
def derivesFrom : Nat → String → String → Bool
  | 0, c, b => c == b
  | n + 1, c, b => c == b || (basesOf c).any fun p => derivesFrom n p b

def isWarningClass (c : String) : Bool := derivesFrom 6 c "ScriptExceptionBase"
def isAbortClass (c : String) : Bool := derivesFrom 6 c "ScriptAbortExceptionBase"

/-- what `ScriptVM::Execute` does with an exception of class `c`: the first catch clause whose type
    is `c` or a base of `c` (`std::exception` catches everything thrown here) -/
def executeHandler (c : String) : Option String :=
  (OpAccept.executeCatches.find? fun cl => cl.1 == "std::exception" || derivesFrom 6 c cl.1).map (·.2)

end Morfuse.VMOps
