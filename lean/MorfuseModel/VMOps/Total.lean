import MorfuseModel.VMOps.Step
/-!
# Every accepted operand-kind pair has a transcribed body

`binop` first consults `acceptTbl` (which `Props/C04.lean` proves equal to the regenerated `case`
labels) and then runs `binImpl`, whose `match`es end in a `badop` filler.  Here: the filler is only
reached for pairs outside the table, for all values.
-/
namespace Morfuse.VMOps

/-- the wildcard branch of a two-operand `match`: every explicit pattern was refuted -/
macro "wild" : tactic =>
  `(tactic| (first
      | rfl
      | (exfalso; simp_all; done)
      | (exfalso; solve_by_elim)))

theorem out_ne_badop {α} (r : R α) (lhs : Val) (f : α → Out) (hf : ∀ a, f a ≠ .badop) : r.out lhs f ≠ .badop := by
  cases r with
  | ok a => exact hf a
  | err e => intro h; cases h
  | ub u => intro h; cases h

theorem opAdd_total (fx) (a b : Val) : opAdd fx a b ≠ .badop := by
  unfold opAdd
  split
  all_goals first
    | (intro h; cases h; done)
    | exact out_ne_badop _ _ _ fun _ h => by cases h

theorem opEq_total (fx) (a b : Val) : opEq fx a b ≠ .badop := by
  unfold opEq
  split
  all_goals first
    | (intro h; cases h; done)
    | exact out_ne_badop _ _ _ fun _ h => by cases h

theorem opSub_total (a b : Val) (h : opSub a b = .badop) : accepts .sub a.kind b.kind = false := by
  unfold opSub at h
  split at h
  all_goals first
    | (cases h; done)
    | skip
  cases a <;> cases b <;> wild

theorem opMul_total (a b : Val) (h : opMul a b = .badop) : accepts .mul a.kind b.kind = false := by
  unfold opMul at h
  split at h
  all_goals first
    | (cases h; done)
    | skip
  cases a <;> cases b <;> wild

theorem opDiv_total (fx) (a b : Val) (h : opDiv fx a b = .badop) : accepts .div a.kind b.kind = false := by
  unfold opDiv at h
  split at h
  all_goals first
    | (cases h; done)
    | ((repeat' split at h) <;> (cases h; done))
    | skip
  cases a <;> cases b <;> wild

theorem opMod_total (fx) (a b : Val) (h : opMod fx a b = .badop) : accepts .mod a.kind b.kind = false := by
  unfold opMod at h
  split at h
  all_goals first
    | (cases h; done)
    | ((repeat' split at h) <;> (cases h; done))
    | skip
  cases a <;> cases b <;> wild

theorem opBits_total (f) (a b : Val) (h : opBits f a b = .badop) :
    accepts .band a.kind b.kind = false ∧ accepts .bxor a.kind b.kind = false ∧ accepts .bor a.kind b.kind = false
    ∧ accepts .shl a.kind b.kind = false ∧ accepts .shr a.kind b.kind = false := by
  unfold opBits at h
  split at h
  · cases h
  · cases a <;> cases b <;> first | (refine ⟨rfl, rfl, rfl, rfl, rfl⟩) | (exfalso; simp_all; done)

theorem opShift_total (fx) (l) (a b : Val) (h : opShift fx l a b = .badop) :
    accepts .shl a.kind b.kind = false ∧ accepts .shr a.kind b.kind = false := by
  unfold opShift at h
  split at h
  · dsimp only at h
    (repeat' split at h) <;> cases h
  · cases a <;> cases b <;> first | (refine ⟨rfl, rfl⟩) | (exfalso; simp_all; done)

theorem opCmp_total (ci cf) (a b : Val) (h : opCmp ci cf a b = .badop) :
    accepts .gt a.kind b.kind = false ∧ accepts .ge a.kind b.kind = false
    ∧ accepts .lt a.kind b.kind = false ∧ accepts .le a.kind b.kind = false := by
  unfold opCmp at h
  split at h
  all_goals first
    | (cases h; done)
    | skip
  cases a <;> cases b <;> first | (refine ⟨rfl, rfl, rfl, rfl⟩) | (exfalso; simp_all; done)

/-- for all values: an accepted pair never reaches the filler -/
theorem binImpl_total (fx : Fixes) (op : BinOp) (a b : Val) (h : accepts op a.kind b.kind = true) :
    binImpl fx op a b ≠ .badop := by
  intro hb
  cases op <;> simp only [binImpl] at hb
  · exact opAdd_total fx a b hb
  · rw [opSub_total a b hb] at h; cases h
  · rw [opMul_total a b hb] at h; cases h
  · rw [opDiv_total fx a b hb] at h; cases h
  · rw [opMod_total fx a b hb] at h; cases h
  · rw [(opBits_total _ a b hb).1] at h; cases h
  · rw [(opBits_total _ a b hb).2.1] at h; cases h
  · rw [(opBits_total _ a b hb).2.2.1] at h; cases h
  · rw [(opShift_total fx _ a b hb).1] at h; cases h
  · rw [(opShift_total fx _ a b hb).2] at h; cases h
  · rw [(opCmp_total _ _ a b hb).1] at h; cases h
  · rw [(opCmp_total _ _ a b hb).2.1] at h; cases h
  · rw [(opCmp_total _ _ a b hb).2.2.1] at h; cases h
  · rw [(opCmp_total _ _ a b hb).2.2.2] at h; cases h
  · exact opEq_total fx a b hb

end Morfuse.VMOps
