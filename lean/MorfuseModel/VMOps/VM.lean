import MorfuseModel.VMOps.Step
namespace Morfuse.VMOps.VM
def runLine (_ : List String) : String := "bad-op"
end Morfuse.VMOps.VM
