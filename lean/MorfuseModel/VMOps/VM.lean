import MorfuseModel.VMOps.Value
import MorfuseModel.Gen.OpAccept
/-!
# Error paths of `ScriptVM::Process` (C04: a script error is confined to its instruction)

`Gen.OpAccept.vmActs` is regenerated from `src/Script/ScriptVMOperation.cpp` on every run: for each
opcode the stack pushes / pops, code-pointer advances, calls that may throw, `throw`s and the
`try { } catch (...) { …; throw; }` blocks of its `case`, helpers inlined.  `run` enumerates every way
such a term can end.  `ScriptVM::Execute` catches a `ScriptExceptionBase`, writes the warning and
calls `Process` again, which decodes at `m_CodePos` with the operand stack as the error left it; so
an error is confined to its instruction exactly when every *raised* outcome leaves the same stack
height and code position as the fall-through outcome.
-/
namespace Morfuse.VMOps.VM
open Morfuse.Gen.OpAccept (Act)

/-- accumulated effect; the height is the linear form `c + k·N` in the run-time operand count `N` -/
structure Eff where
  dhc : Int := 0
  dhk : Int := 0
  dp : Nat := 0
  jumped : Bool := false
  stopped : Bool := false
  settop : Bool := false
  flags : List (Nat × Bool) := []
  /-- code positions remembered in locals (`const opval_t* p = m_CodePos`) -/
  saved : List (Nat × Nat) := []
  /-- a loop whose second iteration can end differently from its first (not covered by the exploration) -/
  unstable : Bool := false
  deriving DecidableEq, Repr, Inhabited

inductive Kind where
  | normal | raised | returned
  deriving DecidableEq, Repr, Inhabited

def flagOf (e : Eff) (i : Nat) : Bool := (e.flags.lookup i).getD false

def run : Act → Eff → List (Kind × Eff)
  | .nop, e => [(.normal, e)]
  | .pop c k, e => [(.normal, { e with dhc := e.dhc - c, dhk := e.dhk - k })]
  | .push c k, e => [(.normal, { e with dhc := e.dhc + c, dhk := e.dhk + k })]
  | .read n, e => [(.normal, { e with dp := e.dp + n })]
  | .may, e => [(.normal, e), (.raised, e)]
  | .throw, e => [(.raised, e)]
  | .jump, e => [(.normal, { e with jumped := true })]
  | .ret, e => [(.returned, e)]
  | .stop, e => [(.normal, { e with stopped := true })]
  | .settop, e => [(.normal, { e with settop := true })]
  | .seq a b, e => (run a e).flatMap fun r => if r.1 = .normal then run b r.2 else [r]
  | .branch a b, e => run a e ++ run b e
  | .try body h, e =>
    (run body e).flatMap fun r =>
      if r.1 = .raised then (run h r.2).map fun r2 => (Kind.raised, r2.2) else [r]
  | .call a, e => (run a e).map fun r => (if r.1 = .returned then Kind.normal else r.1, r.2)
  | .setf i v, e => [(.normal, { e with flags := (i, v) :: e.flags })]
  | .iff i a b, e => if flagOf e i then run a e else run b e
  | .savepos i, e => [(.normal, { e with saved := (i, e.dp) :: e.saved })]
  | .restorepos i, e => [(.normal, { e with dp := (e.saved.lookup i).getD e.dp })]
  | .loop b, e =>
    -- zero, one or two iterations; a second iteration must not add an outcome the first lacks
    let r1 := run b e
    let r2 := r1.flatMap fun r => if r.1 = .normal then run b r.2 else []
    let same (x y : Kind × Eff) : Bool := x.1 == y.1 && x.2.dhc == y.2.dhc && x.2.dhk == y.2.dhk && x.2.dp == y.2.dp
      && x.2.jumped == y.2.jumped && x.2.stopped == y.2.stopped && x.2.settop == y.2.settop
    let stable := r2.all fun x => r1.any fun y => same x y
    (.normal, e) :: (if stable then r1 else r1.map fun r => (r.1, { r.2 with unstable := true }))

def outcomes (a : Act) : List (Kind × Eff) := run a {}

/-- where execution resumes and with what stack, as a comparable summary -/
def Eff.sig (e : Eff) : Int × Int × Nat := (e.dhc, e.dhk, e.dp)

/-- outcomes that fall through to the next instruction -/
def fallThrough (rs : List (Kind × Eff)) : List Eff :=
  (rs.filter fun r => r.1 != .raised && !r.2.jumped && !r.2.stopped && !r.2.settop).map (·.2)

/-- opcodes that re-aim the stack pointer at the caller's argument cells (parameter binding); they
    have no error path and are outside the height discipline -/
def usesSetTop (rs : List (Kind × Eff)) : Bool := rs.any (·.2.settop)

def anyUnstable (rs : List (Kind × Eff)) : Bool := rs.any (·.2.unstable)

/-- **confinement of one opcode**: all fall-through outcomes agree on (height, position); every
    raised outcome agrees with them, did not jump and did not end the thread -/
def confined (variableEncoding : Bool) (a : Act) : Bool :=
  let rs := outcomes a
  if anyUnstable rs then false
  else if usesSetTop rs then rs.all (fun r => r.1 != .raised)
  else
    match fallThrough rs with
    | [] => rs.all (fun r => r.1 != .raised)          -- pure control transfer: must not raise
    | f :: fs =>
      (variableEncoding || fs.all (fun g => g.sig == f.sig))
      && rs.all (fun r => r.1 != .raised ||
            ((f :: fs).any (fun g => r.2.sig == g.sig) && !r.2.jumped && !r.2.stopped))

/-- `OP_FUNC` has two encodings (local label / label in another file), chosen by its first operand
    byte; a raised outcome must agree with the fall-through of one of them -/
def variableEncodings : List String := ["OP_FUNC"]

def confinedEntry (e : String × Act) : Bool := confined (variableEncodings.contains e.1) e.2

/-- fall-through effect of an opcode: `(height constant, height coefficient of N, bytes after the opcode byte)` -/
def effect (a : Act) : Option (Int × Int × Nat) := ((fallThrough (outcomes a)).head?).map Eff.sig

def tableOf (name : String) : Option (Nat × Int × Bool) :=
  (Morfuse.Gen.OpAccept.opcodes.lookup name)

/-- the normal path agrees with `OpcodeInfo[]` (length, stack effect), `-128` = "variable" -/
def matchesTable (name : String) (a : Act) : Bool :=
  match tableOf name, effect a with
  | some (len, st, _), some (c, k, dp) =>
    (dp + 1 == len) && (if st == -128 then true else (c == st && k == 0))
  | some _, none => true
  | none, _ => false

/-- the documented disagreements of `OpcodeInfo[]` with emitter and VM (DESIGN 7.10): the table says
    5 bytes for OP_STORE_FIELD_REF, both write / read 9; OP_FUNC is 7 or 11 bytes long (table: 11) -/
def tableExceptions : List String := ["OP_STORE_FIELD_REF", "OP_FUNC"]

def failing : List String := (Morfuse.Gen.OpAccept.vmActs.filter fun e => !confinedEntry e).map (·.1)

/-! ## reference discipline of assignment targets

`EmitRef` (Compiler.cpp) produces `value OP_STORE_FIELD_REF (value OP_STORE_ARRAY_REF)*` and the
assignment ends with `value OP_LOAD_ARRAY_VAR`.  `setArrayAt` / `setArrayRefValue` read
`m_data.refValue` without looking at the type tag, so the slot they are applied to must hold a
reference in every outcome of the instructions before. -/

inductive Slot where
  | val | ref
  deriving DecidableEq, Repr

/-- how `OP_STORE_FIELD_REF` can end -/
inductive FieldRefEnd where
  /-- plain variable of the listener: `setRefValue(listenerVar)` -/
  | variable
  /-- the field is served by a getter event: the getter's *value* is left in the slot -/
  | getter
  /-- cast error / NULL listener / getter threw: the catch block stores a self reference -/
  | raised
  deriving DecidableEq, Repr

def storeFieldRef (getterFix : Bool) : FieldRefEnd → Slot
  | .variable => .ref
  | .raised => .ref
  | .getter => if getterFix then .ref else .val

/-- `OP_STORE_ARRAY_REF` / `OP_LOAD_ARRAY_VAR` on a slot: `none` = wrong union member read -/
def useRef : Slot → Option Slot
  | .ref => some .ref          -- re-aimed at the element, or left as it was when `operator[]` threw
  | .val => none

/-- the reference chain of one assignment target: the field access and then each `[index]` -/
def chain (getterFix : Bool) (e : FieldRefEnd) : Nat → Option Slot
  | 0 => some (storeFieldRef getterFix e)
  | n + 1 => (chain getterFix e n).bind useRef

/-! ## line protocol -/

def showEff (N : Int) (r : Kind × Eff) : String :=
  let k := match r.1 with | .normal => "n" | .raised => "r" | .returned => "n"
  s!"{k}:{r.2.dhc + r.2.dhk * N}:{r.2.dp}:{if r.2.jumped then 1 else 0}{if r.2.stopped then 1 else 0}{if r.2.settop then 1 else 0}"

def dedup (l : List String) : List String := l.foldl (fun acc x => if acc.contains x then acc else acc ++ [x]) []

def runLine : List String → String
  | ["check"] => "failing " ++ " ".intercalate failing
  | ["outcomes", name, n] =>
    match Morfuse.Gen.OpAccept.vmActs.lookup name, n.toInt? with
    | some a, some N => "ok " ++ " ".intercalate (dedup ((outcomes a).map (showEff N)))
    | _, _ => "bad-op"
  | _ => "bad-op"

end Morfuse.VMOps.VM

namespace Morfuse.VMOps.VM
open Morfuse.Gen.OpAccept (Act)

/-! ## from the Boolean check to the statement about outcomes -/

theorem confined_sound {ve : Bool} {a : Act} (h : confined ve a = true) :
    ∀ r ∈ outcomes a, r.1 = .raised →
      (∃ f ∈ fallThrough (outcomes a), r.2.sig = f.sig) ∧ r.2.jumped = false ∧ r.2.stopped = false := by
  intro r hr hk
  unfold confined at h
  simp only at h
  split at h
  · cases h
  split at h
  · -- parameter-binding opcodes never raise
    have := (List.all_eq_true.mp h) r hr
    simp [hk] at this
  · split at h
    · have := (List.all_eq_true.mp h) r hr
      simp [hk] at this
    · rename_i f fs hf
      have h2 := (Bool.and_eq_true _ _).mp h
      have := (List.all_eq_true.mp h2.2) r hr
      simp only [hk, bne_self_eq_false, Bool.false_or, Bool.and_eq_true, Bool.not_eq_true',
        List.any_eq_true, beq_iff_eq] at this
      obtain ⟨⟨⟨g, hg, hs⟩, hj⟩, hst⟩ := this
      exact ⟨⟨g, by rw [hf]; exact hg, hs⟩, hj, hst⟩

/-- the threads of a script context as far as this property sees them: code position and stack height -/
structure Thread where
  pos : Nat
  height : Int
  deriving DecidableEq, Repr

/-- thread `i` finishes an instruction (opcode byte + `dp` operand bytes) with effect `e`, operand count `N` -/
def finish (ts : List Thread) (i : Nat) (N : Int) (e : Eff) : List Thread :=
  ts.modify i fun t => { pos := t.pos + 1 + e.dp, height := t.height + e.dhc + e.dhk * N }

end Morfuse.VMOps.VM
