import MorfuseModel.VMOps.Float
/-!
# Value domain of `mfuse::ScriptVariable` as scripts can drive it (C04, DESIGN 7.10.1)

Transcribed from `include/morfuse/Script/ScriptVariable.h` and `src/Script/ScriptVariable.cpp`.
One `Val` is the content of one `ScriptVariable` (type tag + payload).  At the level of a single
operator call sharing of holders is not observable, so arrays carry their entries by value; the
sharing (`refCount`) is runtime truth exercised by the program-level run under ASan.
-/
namespace Morfuse.VMOps

abbrev Bytes := List UInt8

/-- `variableType_e`, in declaration order -/
inductive Kind where
  | none | string | int | float | char | cstring | listener | ref | array | carray
  | container | scontainer | pointer | vector
  deriving DecidableEq, Repr, Inhabited

def Kind.toNat : Kind → Nat
  | .none => 0 | .string => 1 | .int => 2 | .float => 3 | .char => 4 | .cstring => 5 | .listener => 6
  | .ref => 7 | .array => 8 | .carray => 9 | .container => 10 | .scontainer => 11 | .pointer => 12
  | .vector => 13

def Kind.all : List Kind :=
  [.none, .string, .int, .float, .char, .cstring, .listener, .ref, .array, .carray, .container,
   .scontainer, .pointer, .vector]

/-- `typenames[]` -/
def Kind.typeName : Kind → String
  | .none => "none" | .string => "string" | .int => "int" | .float => "float" | .char => "char"
  | .cstring => "const string" | .listener => "listener" | .ref => "ref" | .array => "array"
  | .carray => "const array" | .container => "array" | .scontainer => "array" | .pointer => "pointer"
  | .vector => "vector"

/-- identity of a listener object; `none` = the SafePtr is null (NULL literal or object removed) -/
abbrev Obj := Option Nat

inductive Val where
  | nil
  | str (s : Bytes)
  | int (v : BitVec 64)
  | flt (bits : UInt32)
  | chr (c : UInt8)
  /-- index into the string dictionary; the dictionary interns, so the content identifies the index -/
  | cstr (s : Bytes)
  | obj (o : Obj)
  /-- `refValue` pointing at a variable that currently holds `target` -/
  | ref (target : Val)
  | arr (items : List (Val × Val))
  /-- 1-based `ScriptConstArrayHolder` -/
  | carr (items : List Val)
  /-- raw `const con::Container<SafePtr<Listener>>*` (a target list) -/
  | cont (items : List Obj)
  /-- `SafePtr<ConList>*`; `none` = the list object is gone -/
  | scont (items : Option (List Obj))
  | ptr
  | vec (x y z : UInt32)
  deriving Inhabited, Repr

def Val.kind : Val → Kind
  | .nil => .none | .str _ => .string | .int _ => .int | .flt _ => .float | .chr _ => .char
  | .cstr _ => .cstring | .obj _ => .listener | .ref _ => .ref | .arr _ => .array | .carr _ => .carray
  | .cont _ => .container | .scont _ => .scontainer | .ptr => .pointer | .vec .. => .vector

/-- script errors: classes derived from `ScriptExceptionBase` that the value layer throws -/
inductive Err where
  | castError | incompatibleOperator | invalidAppliedType | divideByZero | typeIndexOutOfRange
  | badHashCodeValue | scriptException | multipleTargets
  /-- thrown by the VM itself (`ScriptVMErrors`, `ScriptVM.h`) -/
  | nilListenerCommand | nullListenerCommand | nullListenerField
  deriving DecidableEq, Repr, Inhabited

def Err.className : Err → String
  | .castError => "ScriptVariableErrors::CastError"
  | .incompatibleOperator => "ScriptVariableErrors::IncompatibleOperator"
  | .invalidAppliedType => "ScriptVariableErrors::InvalidAppliedType"
  | .divideByZero => "ScriptVariableErrors::DivideByZero"
  | .typeIndexOutOfRange => "ScriptVariableErrors::TypeIndexOutOfRange"
  | .badHashCodeValue => "ScriptVariableErrors::BadHashCodeValue"
  | .scriptException => "ScriptException"
  | .multipleTargets => "TargetListErrors::MultipleTargetsException"
  | .nilListenerCommand => "ScriptVMErrors::NilListenerCommand"
  | .nullListenerCommand => "ScriptVMErrors::NullListenerCommand"
  | .nullListenerField => "ScriptVMErrors::NullListenerField"

def Err.all : List Err :=
  [.castError, .incompatibleOperator, .invalidAppliedType, .divideByZero, .typeIndexOutOfRange,
   .badHashCodeValue, .scriptException, .multipleTargets, .nilListenerCommand, .nullListenerCommand,
   .nullListenerField]

/-- undefined behaviour the C++ as written can execute (found by reading, confirmed by sanitizer) -/
inductive Ub where
  /-- `INT64_MIN / -1`, `INT64_MIN % -1` -/
  | divMin
  /-- `<<` / `>>` by a count outside `0..63` -/
  | shiftCount
  /-- `(uint32_t)f` / `(uint64_t)f` / `(int32_t)f` of a value that does not fit -/
  | floatCast
  /-- `m_data.vectorValue = vec_zero`: payload pointer re-aimed at a static, later `delete[]`d -/
  | vecAlias
  /-- `m_data.constArrayValue->size` read while the variable holds a safe container -/
  | wrongUnion
  /-- negative index passes `> 2` / `>= length` and is used for a store -/
  | negIndexStore
  /-- `floattoStr`: terminator written past the digits, bytes in between never initialised -/
  | floatStr
  deriving DecidableEq, Repr, Inhabited

def Ub.name : Ub → String
  | .divMin => "int-min-division" | .shiftCount => "shift-count" | .floatCast => "float-cast"
  | .vecAlias => "vector-static-alias" | .wrongUnion => "wrong-union-member"
  | .negIndexStore => "negative-index-store" | .floatStr => "float-to-string"

/-- which design-time repairs the source under check shows (regenerated: `Gen.OpAccept.fix_*`) -/
structure Fixes where
  divMin : Bool
  shiftCount : Bool
  vecDivAlias : Bool
  safeContainerBound : Bool
  negIndexStore : Bool
  floatCast : Bool
  floatStr : Bool
  deriving DecidableEq, Repr

/-- the repair that removes each undefined behaviour -/
def Ub.fixedBy (fx : Fixes) : Ub → Bool
  | .divMin => fx.divMin | .shiftCount => fx.shiftCount | .floatCast => fx.floatCast
  | .vecAlias => fx.vecDivAlias | .wrongUnion => fx.safeContainerBound
  | .negIndexStore => fx.negIndexStore | .floatStr => fx.floatStr

def Ub.all : List Ub := [.divMin, .shiftCount, .floatCast, .vecAlias, .wrongUnion, .negIndexStore, .floatStr]

def Fixes.all : Fixes := ⟨true, true, true, true, true, true, true⟩
def Fixes.none : Fixes := ⟨false, false, false, false, false, false, false⟩

/-- outcome of one operator / cast / index call -/
inductive Out where
  | ok (v : Val)
  | ok2 (v w : Val)
  /-- exception class and the left operand as the call left it -/
  | err (e : Err) (lhs : Val)
  | ub (u : Ub)
  /-- not an operation (wrong arity, operand the VM can never supply) -/
  | badop
  deriving Inhabited, Repr

def Out.isUb : Out → Bool
  | .ub _ => true
  | _ => false

/-! ## byte strings and numbers -/

def ascii (s : String) : Bytes := s.toUTF8.toList

def isSpace (c : UInt8) : Bool := c == 32 || (9 ≤ c && c ≤ 13)
def isDigit (c : UInt8) : Bool := 48 ≤ c && c ≤ 57

/-- C string view: bytes up to the first NUL -/
def cstrView (s : Bytes) : Bytes := s.takeWhile (· != 0)

def digitsVal (ds : Bytes) : Nat := ds.foldl (fun acc c => acc * 10 + (c.toNat - 48)) 0

/-- `strtoll(s, &p, 10)`: white space, optional sign, digits; saturating -/
def strtoll (s : Bytes) : BitVec 64 :=
  let s := (cstrView s).dropWhile isSpace
  let (neg, s) := match s with
    | 45 :: t => (true, t)
    | 43 :: t => (false, t)
    | _ => (false, s)
  let ds := s.takeWhile isDigit
  let n := digitsVal ds
  if neg then
    if n ≥ 2 ^ 63 then BitVec.ofNat 64 (2 ^ 63) else BitVec.ofInt 64 (-(n : Int))
  else
    if n ≥ 2 ^ 63 then BitVec.ofNat 64 (2 ^ 63 - 1) else BitVec.ofNat 64 n

/-- `str(int64)` -/
def intToStr (v : BitVec 64) : Bytes := ascii (toString v.toInt)

def pow10 (n : Nat) : Nat := 10 ^ n

/-- `strtof` for the decimal forms `[ws][sign]digits[.digits][(e|E)[sign]digits]`, `inf`, `nan`;
    anything else parses as far as it goes (no digits: `0`).  Hexadecimal floats are not modelled
    (the generator never produces a string starting with `0x`). -/
def strtof (s : Bytes) : UInt32 :=
  let s := (cstrView s).dropWhile isSpace
  let (neg, s) := match s with
    | 45 :: t => (true, t)
    | 43 :: t => (false, t)
    | _ => (false, s)
  let sgn : UInt32 := if neg then 0x80000000 else 0
  let lower := s.map (fun c => if 65 ≤ c && c ≤ 90 then c + 32 else c)
  if lower.take 3 == ascii "inf" then sgn ||| 0x7f800000
  else if lower.take 3 == ascii "nan" then sgn ||| 0x7fc00000
  else
    let ip := s.takeWhile isDigit
    let r := s.drop ip.length
    let (fp, r) := match r with
      | 46 :: t => (t.takeWhile isDigit, t.drop (t.takeWhile isDigit).length)
      | _ => ([], r)
    if ip.isEmpty && fp.isEmpty then 0   -- no conversion performed: +0
    else
      let (eneg, ex) : Bool × Nat := match r with
        | c :: t =>
          if c == 101 || c == 69 then
            let (en, t) := match t with
              | 45 :: u => (true, u)
              | 43 :: u => (false, u)
              | _ => (false, t)
            let ds := t.takeWhile isDigit
            if ds.isEmpty then (false, 0) else (en, digitsVal ds)
          else (false, 0)
        | [] => (false, 0)
      let mant := digitsVal (ip ++ fp)
      -- value = mant · 10^(±ex − |fp|)
      let e10 : Int := (if eneg then -(ex : Int) else ex) - fp.length
      let f : Float32 := if e10 ≥ 0 then Float32.ofScientific (mant * pow10 e10.toNat) false 0
                         else Float32.ofScientific mant true (-e10).toNat
      sgn ||| f.toBits

/-! ## keys of script arrays (`Hash<ScriptVariable>` / `operator==`) -/

inductive Key where
  | int (v : BitVec 64)
  | str (s : Bytes)
  | obj (o : Obj)
  deriving DecidableEq, Repr

end Morfuse.VMOps
