import MorfuseModel.Lang.Value
import MorfuseModel.VMOps.Tables
/-!
# Cross-model links: helper lemmas (`Lang.Value` ↔ `VMOps`)

`Lang.Value` (C03) and `VMOps.{Value,Ops,Index,Step}` (C04) are two hand transcriptions of the same
members of `ScriptVariable.cpp`.  This file relates them on the kinds both have (NIL, integer,
string, char, array).  Statements for the audit are in `Props/XLinks.lean`.
-/
namespace Morfuse.XLinks
open Morfuse

/-! ## the embedding -/

/-- a `Lang` string stands for a byte string: one `Char` below 256 per byte -/
def ByteStr (s : String) : Prop := ∀ c ∈ s.toList, c.toNat < 256

/-- what `VMOps` holds for the entries of array holder `h` (arrays are by value there) -/
abbrev Content := Nat → List (VMOps.Val × VMOps.Val)

def emb (ρ : Content) : Lang.Val → VMOps.Val
  | .nil => .nil
  | .int v => .int v
  | .str s => .str (Lang.strBytes s)
  | .chr c => .chr c
  | .arr h => .arr (ρ h)

def embKey : Lang.Key → VMOps.Val
  | .int v => .int v
  | .str s => .str (Lang.strBytes s)

/-- representation invariant of `Lang.Val`: strings are byte strings -/
def WF : Lang.Val → Prop
  | .str s => ByteStr s
  | _ => True

def WFKey : Lang.Key → Prop
  | .str s => ByteStr s
  | _ => True

/-- `ρ` describes the heap: the entries of every holder, embedded, in the holder's order -/
def Represents (ρ : Content) (heap : Lang.Heap) : Prop :=
  ∀ h, ρ h = (heap.getD h []).map fun kv => (embKey kv.1, emb ρ kv.2)

def HeapWF (heap : Lang.Heap) : Prop :=
  ∀ h, ∀ kv ∈ heap.getD h [], WFKey kv.1

/-! ## error classes -/

inductive Cls where
  | type | divZero | index | badKey | other
  deriving DecidableEq, Repr

def lcls : Lang.Err → Cls
  | .type _ => .type
  | .divZero => .divZero
  | .index _ => .index
  | .badKey => .badKey
  | _ => .other

def vcls : VMOps.Err → Cls
  | .castError | .incompatibleOperator | .invalidAppliedType => .type
  | .divideByZero => .divZero
  | .typeIndexOutOfRange => .index
  | .badHashCodeValue => .badKey
  | _ => .other

/-- the two outcomes say the same: the same value, or a script error of the same class.
    (`ub`, `ok2` and `badop` agree with nothing: `Lang.Value` has no such outcome.) -/
def Agree (ρ : Content) : Except Lang.Err Lang.Val → VMOps.Out → Prop
  | .ok r, o => o = .ok (emb ρ r)
  | .error e, o => ∃ e' lhs, o = .err e' lhs ∧ vcls e' = lcls e

/-- the `VMOps` operation of a `Func2Expr` operator (`!=` is `OP_BIN_NOT_EQUALITY`: `==` negated) -/
def opOf : Lang.BinOp → VMOps.Op
  | .bor => .bin .bor | .bxor => .bin .bxor | .band => .bin .band | .eq => .bin .eq | .ne => .ne
  | .lt => .bin .lt | .gt => .bin .gt | .le => .bin .le | .ge => .bin .ge | .shl => .bin .shl
  | .shr => .bin .shr | .add => .bin .add | .sub => .bin .sub | .mul => .bin .mul | .div => .bin .div
  | .mod => .bin .mod

/-! ## strings -/

theorem strBytes_append (x y : String) :
    Lang.strBytes (x ++ y) = Lang.strBytes x ++ Lang.strBytes y := by
  simp [Lang.strBytes, String.toList_append]

theorem strBytes_eq_nil (s : String) : Lang.strBytes s = [] ↔ s = "" := by
  simp [Lang.strBytes, String.toList_eq_nil_iff]

theorem length_strBytes (s : String) : (Lang.strBytes s).length = s.length := by
  simp [Lang.strBytes, String.length_toList]

theorem toUInt8_inj {a b : Char} (ha : a.toNat < 256) (hb : b.toNat < 256)
    (h : a.toNat.toUInt8 = b.toNat.toUInt8) : a = b := by
  have h1 : a.toNat.toUInt8.toNat = b.toNat.toUInt8.toNat := by rw [h]
  simp only [Nat.toUInt8, UInt8.toNat_ofNat'] at h1
  have : a.toNat = b.toNat := by omega
  exact Char.toNat_inj.mp this

theorem map_toUInt8_inj : ∀ (a b : List Char), (∀ c ∈ a, c.toNat < 256) → (∀ c ∈ b, c.toNat < 256) →
    a.map (fun c => c.toNat.toUInt8) = b.map (fun c => c.toNat.toUInt8) → a = b
  | [], [], _, _, _ => rfl
  | [], _ :: _, _, _, h => by simp at h
  | _ :: _, [], _, _, h => by simp at h
  | x :: xs, y :: ys, ha, hb, h => by
    simp only [List.map_cons, List.cons.injEq] at h
    have hx := toUInt8_inj (ha x (by simp)) (hb y (by simp)) h.1
    have := map_toUInt8_inj xs ys (fun c hc => ha c (by simp [hc])) (fun c hc => hb c (by simp [hc])) h.2
    rw [hx, this]

theorem strBytes_inj {a b : String} (ha : ByteStr a) (hb : ByteStr b) :
    Lang.strBytes a = Lang.strBytes b ↔ a = b := by
  constructor
  · intro h
    exact String.toList_inj.mp (map_toUInt8_inj _ _ ha hb h)
  · intro h; rw [h]

/-! ## ASCII text: the Latin-1 reading equals the UTF-8 bytes -/

theorem byteArray_toList_loop (bs : ByteArray) (i : Nat) (r : List UInt8) :
    ByteArray.toList.loop bs i r = r.reverse ++ bs.data.toList.drop i := by
  fun_induction ByteArray.toList.loop bs i r with
  | case1 i r h ih =>
    rw [ih]
    have hi : i < bs.data.toList.length := by rw [Array.length_toList]; exact h
    rw [List.drop_eq_getElem_cons hi]
    have : bs.get! i = bs.data.toList[i] := by
      have h2 : i < bs.data.size := h
      simp only [ByteArray.get!, Array.getElem_toList]
      rw [getElem!_pos bs.data i h2]
    simp [this]
  | case2 i r h =>
    have hi : bs.data.toList.length ≤ i := by rw [Array.length_toList]; exact Nat.le_of_not_lt h
    simp [List.drop_eq_nil_of_le hi]

theorem byteArray_toList (bs : ByteArray) : bs.toList = bs.data.toList := by
  simp [ByteArray.toList, byteArray_toList_loop]
theorem utf8Size_one {c : Char} (h : c.toNat < 128) : c.utf8Size = 1 := by
  have h' : c.val.toNat < 128 := h
  have : c.val ≤ 127 := by
    rw [UInt32.le_iff_toNat_le]; simp; omega
  simp [Char.utf8Size, this]

theorem ascii_eq_strBytes (s : String) (h : ∀ c ∈ s.toList, c.toNat < 128) :
    VMOps.ascii s = Lang.strBytes s := by
  unfold VMOps.ascii Lang.strBytes String.toUTF8
  rw [← String.utf8Encode_toList, byteArray_toList]
  unfold List.utf8Encode
  rw [List.toList_data_toByteArray]
  generalize s.toList = l at h
  induction l with
  | nil => simp
  | cons c t ih =>
    have hc := String.utf8EncodeChar_eq_singleton (utf8Size_one (h c (by simp)))
    have := ih (fun c hc => h c (by simp [hc]))
    simp only [List.flatMap_cons, hc, List.map_cons, this]
    rfl

theorem digit_lt_128 {c : Char} (h : c.isDigit = true) : c.toNat < 128 := by
  have := Char.isDigit_iff_toNat.mp h
  have h9 : '9'.toNat = 57 := by decide
  omega

theorem ascii_nat_repr (n : Nat) : ∀ c ∈ (Nat.repr n).toList, c.toNat < 128 := by
  intro c hc
  rw [Nat.toList_repr] at hc
  exact digit_lt_128 (Nat.isDigit_of_mem_toDigits (by decide) (by decide) hc)

theorem ascii_int_toString (i : Int) : ∀ c ∈ (toString i).toList, c.toNat < 128 := by
  intro c hc
  have : toString i = i.repr := rfl
  rw [this, Int.repr_eq_if] at hc
  split at hc
  · exact ascii_nat_repr _ c hc
  · rw [String.toList_append] at hc
    rcases List.mem_append.mp hc with h | h
    · have : "-".toList = ['-'] := by decide
      rw [this] at h
      simp at h; subst h; decide
    · exact ascii_nat_repr _ c h

theorem strBytes_intToString (v : BitVec 64) : Lang.strBytes (Lang.intToString v) = VMOps.intToStr v := by
  unfold Lang.intToString VMOps.intToStr
  exact (ascii_eq_strBytes _ (ascii_int_toString _)).symm

theorem byteStr_intToString (v : BitVec 64) : ByteStr (Lang.intToString v) := by
  intro c hc
  have := ascii_int_toString _ c hc
  omega

theorem strBytes_chrToString (c : UInt8) : Lang.strBytes (Lang.chrToString c) = [c] := by
  unfold Lang.strBytes Lang.chrToString
  rw [String.toList_singleton]
  simp only [List.map_cons, List.map_nil, List.cons.injEq, and_true]
  have h : c.toNat < 256 := c.toNat_lt
  have hv : c.toNat.isValidChar := Or.inl (by omega)
  have : (Char.ofNat c.toNat).toNat = c.toNat := by
    simp only [Char.ofNat, hv, dite_true, Char.ofNatAux, Char.toNat]
    show (BitVec.ofNatLT c.toNat _).toNat = c.toNat
    simp
  rw [this]; simp [Nat.toUInt8]

theorem byteStr_chrToString (c : UInt8) : ByteStr (Lang.chrToString c) := by
  intro d hd
  unfold Lang.chrToString at hd
  rw [String.toList_singleton] at hd
  simp at hd; subst hd
  have h : c.toNat < 256 := c.toNat_lt
  have hv : c.toNat.isValidChar := Or.inl (by omega)
  have : (Char.ofNat c.toNat).toNat = c.toNat := by
    simp only [Char.ofNat, hv, dite_true, Char.ofNatAux, Char.toNat]
    show (BitVec.ofNatLT c.toNat _).toNat = c.toNat
    simp
  omega

theorem byteStr_append {x y : String} (hx : ByteStr x) (hy : ByteStr y) : ByteStr (x ++ y) := by
  intro c hc
  rw [String.toList_append] at hc
  rcases List.mem_append.mp hc with h | h
  · exact hx c h
  · exact hy c h

theorem strBytes_nil : Lang.strBytes "NIL" = VMOps.ascii "NIL" :=
  (ascii_eq_strBytes _ (by decide)).symm

theorem strBytes_typeArray : Lang.strBytes "Type: 'array'" = VMOps.ascii ("Type: '" ++ VMOps.Kind.typeName .array ++ "'") := by
  have : ("Type: '" ++ VMOps.Kind.typeName .array ++ "'") = "Type: 'array'" := by decide
  rw [this]
  exact (ascii_eq_strBytes _ (by decide)).symm

/-- the two spellings of `str == str` -/
theorem strEq_agree {a b : String} (ha : ByteStr a) (hb : ByteStr b) :
    (((Lang.strBytes a).isEmpty && (Lang.strBytes b).isEmpty) || Lang.strBytes a == Lang.strBytes b) = Lang.strEq a b := by
  unfold Lang.strEq
  have e1 : (Lang.strBytes a).isEmpty = (a == "") := by
    rw [Bool.eq_iff_iff]; simp [List.isEmpty_iff, strBytes_eq_nil]
  have e2 : (Lang.strBytes b).isEmpty = (b == "") := by
    rw [Bool.eq_iff_iff]; simp [List.isEmpty_iff, strBytes_eq_nil]
  have e3 : (Lang.strBytes a == Lang.strBytes b) = (a == b) := by
    rw [Bool.eq_iff_iff]; simp [strBytes_inj ha hb]
  rw [e1, e2, e3]

theorem strToLong_agree (s : String) : Lang.strToLong s = VMOps.strtoll (Lang.strBytes s) := by
  have e1 : Lang.isSpaceB = VMOps.isSpace := rfl
  have e2 : Lang.isDigitB = VMOps.isDigit := rfl
  have e3 : Lang.digitsNat = VMOps.digitsVal := rfl
  unfold Lang.strToLong VMOps.strtoll VMOps.cstrView
  rw [e1, e2, e3]
  rfl

theorem getElem?_strBytes (s : String) (n : Nat) :
    (Lang.strBytes s)[n]? =
      if n < s.length then some (UInt8.ofNat ((s.toList.getD n 'x').toNat)) else none := by
  unfold Lang.strBytes
  rw [List.getElem?_map]
  split
  · next h =>
    have h' : n < s.toList.length := by rw [String.length_toList]; exact h
    simp [List.getD, List.getElem?_eq_getElem h', Nat.toUInt8]
  · next h =>
    have h' : s.toList.length ≤ n := by rw [String.length_toList]; omega
    simp [List.getElem?_eq_none h']

/-! ## 64-bit integers -/

theorem negOne_eq : VMOps.negOne = (-1 : BitVec 64) := by decide
theorem minInt_eq : VMOps.minInt = BitVec.intMin 64 := by decide

theorem sdiv_neg_one (x : BitVec 64) : x.sdiv (-1) = -x := by
  apply BitVec.eq_of_toInt_eq
  have h1 : (-1 : BitVec 64).toInt = -1 := by decide
  rw [BitVec.toInt_sdiv, h1, BitVec.toInt_neg, Int.tdiv_neg, Int.tdiv_one]

theorem neg_minInt : -VMOps.minInt = VMOps.minInt := by decide

theorem srem_neg_one (x : BitVec 64) : x.srem (-1) = 0 := by
  apply BitVec.eq_of_toInt_eq
  rw [BitVec.toInt_srem]
  have h1 : (-1 : BitVec 64).toInt = -1 := by decide
  rw [h1]
  simp [Int.tmod_neg]  

theorem chrInt_agree (c : UInt8) : (Lang.chrInt c).toInt = VMOps.chrInt c := by
  unfold Lang.chrInt VMOps.chrInt
  exact BitVec.toInt_signExtend_of_le (by decide)

theorem slt_eq (x y : BitVec 64) : x.slt y = decide (x.toInt < y.toInt) := rfl
theorem sle_eq (x y : BitVec 64) : x.sle y = decide (x.toInt ≤ y.toInt) := rfl

theorem shift_agree (y : BitVec 64) : (if y.toNat < 64 then y.toNat else y.toNat % 64) = Lang.shiftCount y := by
  unfold Lang.shiftCount; split <;> omega

/-! ## the sixteen binary operators -/

section
variable (fx : VMOps.Fixes) (ρ : Content)

theorem step_bin (o : VMOps.BinOp) (a b : VMOps.Val) :
    VMOps.step fx (.bin o) [a, b] = VMOps.binop fx o a b := rfl

theorem step_ne (a b : VMOps.Val) :
    VMOps.step fx .ne [a, b] = (match VMOps.binop fx .eq a b with
      | .ok (.int v) => .ok (VMOps.b2i (v == 0))
      | o => o) := rfl

macro "xl_simp" : tactic => `(tactic|
  simp (config := {decide := true}) [opOf, step_bin, step_ne, VMOps.binop, emb, VMOps.Val.kind, Lang.binop, Agree, Lang.typeErr, lcls, vcls,
      VMOps.binImpl, VMOps.opAdd, VMOps.opSub, VMOps.opMul, VMOps.opDiv, VMOps.opMod, VMOps.opBits, VMOps.opShift,
      VMOps.opCmp, VMOps.opEq, VMOps.strs, VMOps.strOf, VMOps.R.bind, VMOps.R.out, VMOps.b2i, Lang.boolVal, Lang.valEq,
      strBytes_append, strBytes_intToString, strBytes_chrToString])



theorem sdiv_allOnes (x : BitVec 64) : x.sdiv 18446744073709551615#64 = -x := sdiv_neg_one x
theorem srem_allOnes (x : BitVec 64) : x.srem 18446744073709551615#64 = 0#64 := srem_neg_one x

theorem strEq_iff {a b : String} (ha : ByteStr a) (hb : ByteStr b) :
    Lang.strEq a b = true ↔ (Lang.strBytes a = [] ∧ Lang.strBytes b = []) ∨ Lang.strBytes a = Lang.strBytes b := by
  rw [← strEq_agree ha hb]; simp [List.isEmpty_iff]

theorem strEq_false_iff {a b : String} (ha : ByteStr a) (hb : ByteStr b) :
    Lang.strEq a b = false ↔ ¬((Lang.strBytes a = [] ∧ Lang.strBytes b = []) ∨ Lang.strBytes a = Lang.strBytes b) := by
  rw [← strEq_iff ha hb]; simp

theorem int_eq_chr (v : BitVec 64) (c : UInt8) : v.toInt = VMOps.chrInt c ↔ v = Lang.chrInt c := by
  rw [← chrInt_agree, BitVec.toInt_inj]

theorem chr_eq_int (v : BitVec 64) (c : UInt8) : VMOps.chrInt c = v.toInt ↔ Lang.chrInt c = v := by
  rw [← chrInt_agree, BitVec.toInt_inj]

theorem add_agree (a b : Lang.Val) :
    Agree ρ (Lang.binop .add a b) (VMOps.step fx (opOf .add) [emb ρ a, emb ρ b]) := by
  cases a <;> cases b <;> xl_simp

theorem arith_agree (op : Lang.BinOp) (hop : op = .sub ∨ op = .mul ∨ op = .band ∨ op = .bor ∨ op = .bxor)
    (a b : Lang.Val) :
    Agree ρ (Lang.binop op a b) (VMOps.step fx (opOf op) [emb ρ a, emb ρ b]) := by
  rcases hop with h | h | h | h | h <;> subst h <;> cases a <;> cases b <;> xl_simp

theorem cmp_agree (op : Lang.BinOp) (hop : op = .lt ∨ op = .gt ∨ op = .le ∨ op = .ge)
    (a b : Lang.Val) :
    Agree ρ (Lang.binop op a b) (VMOps.step fx (opOf op) [emb ρ a, emb ρ b]) := by
  rcases hop with h | h | h | h <;> subst h <;> cases a <;> cases b <;> xl_simp
  all_goals simp [slt_eq, sle_eq, chrInt_agree]


theorem divmod_agree (hd : fx.divMin = true) (op : Lang.BinOp) (hop : op = .div ∨ op = .mod)
    (a b : Lang.Val) :
    Agree ρ (Lang.binop op a b) (VMOps.step fx (opOf op) [emb ρ a, emb ρ b]) := by
  rcases hop with h | h <;> subst h <;> cases a <;> cases b <;> xl_simp
  all_goals
    rename_i x y
    by_cases h0 : y = 0 <;> by_cases h1 : y = -1 <;> by_cases h2 : x = VMOps.minInt <;>
      simp_all [negOne_eq, sdiv_allOnes, srem_allOnes, neg_minInt]

theorem shift_agree' (hs : fx.shiftCount = true) (op : Lang.BinOp) (hop : op = .shl ∨ op = .shr)
    (a b : Lang.Val) :
    Agree ρ (Lang.binop op a b) (VMOps.step fx (opOf op) [emb ρ a, emb ρ b]) := by
  rcases hop with h | h <;> subst h <;> cases a <;> cases b <;> xl_simp
  all_goals
    rename_i x y
    unfold Lang.shiftCount
    by_cases h : y.toNat < 64 <;> simp [h, hs, Nat.mod_eq_of_lt]

theorem eq_agree (op : Lang.BinOp) (hop : op = .eq ∨ op = .ne)
    (a b : Lang.Val) (wa : WF a) (wb : WF b) :
    Agree ρ (Lang.binop op a b) (VMOps.step fx (opOf op) [emb ρ a, emb ρ b]) := by
  rcases hop with h | h <;> subst h <;> cases a <;> cases b <;> xl_simp
  all_goals
    simp only [WF] at wa wb
    simp [← strBytes_intToString, ← strBytes_chrToString, int_eq_chr, chr_eq_int,
      strEq_iff, strEq_false_iff, byteStr_intToString, byteStr_chrToString, wa, wb]
  all_goals simp [strBytes_chrToString]

theorem binop_agree (hd : fx.divMin = true) (hs : fx.shiftCount = true) (op : Lang.BinOp)
    (a b : Lang.Val) (wa : WF a) (wb : WF b) :
    Agree ρ (Lang.binop op a b) (VMOps.step fx (opOf op) [emb ρ a, emb ρ b]) := by
  cases op
  case bor => exact arith_agree fx ρ _ (by simp) a b
  case bxor => exact arith_agree fx ρ _ (by simp) a b
  case band => exact arith_agree fx ρ _ (by simp) a b
  case sub => exact arith_agree fx ρ _ (by simp) a b
  case mul => exact arith_agree fx ρ _ (by simp) a b
  case eq => exact eq_agree fx ρ _ (by simp) a b wa wb
  case ne => exact eq_agree fx ρ _ (by simp) a b wa wb
  case lt => exact cmp_agree fx ρ _ (by simp) a b
  case gt => exact cmp_agree fx ρ _ (by simp) a b
  case le => exact cmp_agree fx ρ _ (by simp) a b
  case ge => exact cmp_agree fx ρ _ (by simp) a b
  case shl => exact shift_agree' fx ρ hs _ (by simp) a b
  case shr => exact shift_agree' fx ρ hs _ (by simp) a b
  case add => exact add_agree fx ρ a b
  case div => exact divmod_agree fx ρ hd _ (by simp) a b
  case mod => exact divmod_agree fx ρ hd _ (by simp) a b

/-! ## unary operators, truthiness, string conversion -/

macro "xl_usimp" : tactic => `(tactic|
  simp (config := {decide := true}) [VMOps.step, emb, Agree, lcls, vcls, Lang.unNeg, Lang.unCompl, Lang.unIncr,
      VMOps.opMinus, VMOps.opCompl, VMOps.opIncDec, VMOps.longOf, VMOps.intOf, VMOps.R.out,
      ← strToLong_agree, Lang.strToUInt])

theorem neg_agree (a : Lang.Val) : Agree ρ (Lang.unNeg a) (VMOps.step fx .minus [emb ρ a]) := by
  cases a <;> xl_usimp

theorem compl_agree (a : Lang.Val) : Agree ρ (Lang.unCompl a) (VMOps.step fx .compl [emb ρ a]) := by
  cases a <;> xl_usimp

theorem incr_agree (a : Lang.Val) : Agree ρ (Lang.unIncr 1 a) (VMOps.step fx .inc [emb ρ a]) := by
  cases a <;> xl_usimp

theorem decr_agree (a : Lang.Val) : Agree ρ (Lang.unIncr (-1) a) (VMOps.step fx .dec [emb ρ a]) := by
  cases a <;> xl_usimp
  · have : (18446744073709551615#64) = -1#64 := by decide
    rw [this, BitVec.sub_eq_add_neg]
  · have : (4294967295#32) = -1#32 := by decide
    rw [this, BitVec.sub_eq_add_neg]

theorem truthy_agree (a : Lang.Val) : VMOps.boolOf (emb ρ a) = a.truthy := by
  cases a <;> simp [emb, VMOps.boolOf, Lang.Val.truthy]
  rename_i s
  rw [Bool.eq_iff_iff]; simp [List.isEmpty_iff, strBytes_eq_nil]

theorem stringValue_agree (a : Lang.Val) :
    VMOps.strOf fx (emb ρ a) = .ok (Lang.strBytes a.stringValue) := by
  cases a <;> simp [emb, VMOps.strOf, Lang.Val.stringValue, strBytes_nil, strBytes_intToString, strBytes_chrToString,
    strBytes_typeArray, VMOps.Val.kind]


/-! ## `size` and r-value indexing (arrays through `Represents`) -/

theorem size_agree (heap : Lang.Heap) (hρ : Represents ρ heap) (a : Lang.Val) :
    VMOps.step fx .size [emb ρ a] = .ok (emb ρ (Lang.unSize heap a)) := by
  cases a <;> simp (config := {decide := true}) [VMOps.step, VMOps.opSize, emb, Lang.unSize, length_strBytes]
  rename_i h; rw [hρ h]; simp

/-- the `VMOps` key of a `Lang` key -/
def vkey : Lang.Key → VMOps.Key
  | .int v => .int v
  | .str s => .str (Lang.strBytes s)

theorem keyOfStored_embKey (k : Lang.Key) : VMOps.keyOfStored (embKey k) = some (vkey k) := by
  cases k <;> rfl

theorem vkey_inj {k k' : Lang.Key} (w : WFKey k) (w' : WFKey k') : vkey k = vkey k' ↔ k = k' := by
  cases k <;> cases k' <;> simp [vkey]
  exact strBytes_inj w w'

theorem lookup_agree (l : Lang.Holder) (k : Lang.Key) (wk : WFKey k) (wl : ∀ kv ∈ l, WFKey kv.1) :
    (VMOps.lookup (l.map fun kv => (embKey kv.1, emb ρ kv.2)) (vkey k)).getD .nil
      = emb ρ ((Lang.alookup k l).getD .nil) := by
  induction l with
  | nil => simp [VMOps.lookup, Lang.alookup, emb]
  | cons e t ih =>
    obtain ⟨k', v⟩ := e
    have w' : WFKey k' := wl (k', v) (by simp)
    have iht := ih (fun kv h => wl kv (by simp [h]))
    unfold VMOps.lookup at iht ⊢
    rw [List.map_cons, List.find?_cons]
    by_cases h : k' = k
    · subst h; simp [keyOfStored_embKey, Lang.alookup]
    · have hne : ¬ vkey k' = vkey k := fun e => h ((vkey_inj w' wk).mp e)
      have : (VMOps.keyOfStored (embKey k', emb ρ v).1 == some (vkey k)) = false := by
        simp [keyOfStored_embKey, hne]
      rw [this]
      simp only [Lang.alookup, h, if_false]
      exact iht

theorem keyOf_agree (i : Lang.Val) :
    (∀ k, i.toKey = .ok k → VMOps.keyOf fx (emb ρ i) = .ok (vkey k)) ∧
    (i.toKey = .error .badKey → VMOps.keyOf fx (emb ρ i) = .err .badHashCodeValue) := by
  cases i <;> simp [Lang.Val.toKey, VMOps.keyOf, emb, vkey, VMOps.strOf, VMOps.R.bind]

theorem index_agree (heap : Lang.Heap) (hρ : Represents ρ heap) (hw : HeapWF heap) (a i : Lang.Val) (wi : WF i) :
    Agree ρ (Lang.indexVal heap a i) (VMOps.step fx .evalAt [emb ρ a, emb ρ i]) := by
  cases a
  case nil => simp [VMOps.step, VMOps.evalAt, emb, Lang.indexVal, Agree]
  case int => simp [VMOps.step, VMOps.evalAt, emb, Lang.indexVal, Agree, lcls, vcls]
  case chr => simp [VMOps.step, VMOps.evalAt, emb, Lang.indexVal, Agree, lcls, vcls]
  case str s =>
    cases i
    case int v =>
      by_cases hlt : v.toNat < s.length <;>
        simp [VMOps.step, VMOps.evalAt, VMOps.evalAt.strAt, emb, Lang.indexVal, Agree, lcls, vcls, VMOps.longOf,
          VMOps.R.out, getElem?_strBytes, hlt]
    case str t =>
      by_cases hlt : (Lang.strToLong t).toNat < s.length <;>
        simp [VMOps.step, VMOps.evalAt, VMOps.evalAt.strAt, emb, Lang.indexVal, Agree, lcls, vcls, VMOps.longOf,
          VMOps.R.out, getElem?_strBytes, ← strToLong_agree, hlt]
    all_goals
      simp [VMOps.step, VMOps.evalAt, VMOps.evalAt.strAt, emb, Lang.indexVal, Agree, lcls, vcls, VMOps.longOf,
        VMOps.R.out]
  case arr h =>
    have hk := keyOf_agree fx ρ i
    have e : emb ρ (Lang.Val.arr h) = VMOps.Val.arr (ρ h) := rfl
    rw [e]
    simp only [VMOps.step, VMOps.evalAt, Lang.indexVal]
    cases hi : i.toKey with
    | ok k =>
      have wk : WFKey k := by
        cases i <;> simp [Lang.Val.toKey] at hi <;> subst hi <;> simp [WFKey, WF] at wi ⊢ <;> exact wi
      rw [hk.1 k hi, hρ h]
      simp only [VMOps.R.out, Agree, bind, Except.bind]
      rw [lookup_agree ρ _ k wk (hw h)]
    | error e =>
      have he : e = .badKey := by cases i <;> simp [Lang.Val.toKey] at hi <;> exact hi.symm
      subst he
      rw [hk.2 hi]
      simp [VMOps.R.out, Agree, bind, Except.bind, lcls, vcls]

end

/-! ## results stay inside the representation invariant -/

theorem binop_int_of_ne_add (op : Lang.BinOp) (hop : op ≠ .add) (a b r : Lang.Val)
    (h : Lang.binop op a b = .ok r) : ∃ v, r = .int v := by
  cases op <;> first
    | exact absurd rfl hop
    | (cases a <;> cases b <;> simp [Lang.binop, Lang.typeErr, Lang.boolVal] at h <;>
        first
          | exact ⟨_, h.symm⟩
          | (split at h <;> first
              | exact ⟨_, (Except.ok.inj h).symm⟩
              | (split at h <;> first | exact ⟨_, (Except.ok.inj h).symm⟩ | simp at h)
              | simp at h))

theorem binop_wf (op : Lang.BinOp) (a b r : Lang.Val) (wa : WF a) (wb : WF b)
    (h : Lang.binop op a b = .ok r) : WF r := by
  by_cases hop : op = .add
  · subst hop
    cases a <;> cases b <;> simp [Lang.binop, Lang.typeErr] at h <;> subst h <;> simp only [WF] at *
    · exact byteStr_append (byteStr_intToString _) wb
    · exact byteStr_append wa (byteStr_intToString _)
    · exact byteStr_append wa wb
    · exact byteStr_append wa (byteStr_chrToString _)
    · exact byteStr_append (byteStr_chrToString _) wb
  · obtain ⟨v, rfl⟩ := binop_int_of_ne_add op hop a b r h
    trivial

/-! ## what `Agree` says, outcome by outcome -/

theorem agree_ok_iff {ρ : Content} {x : Except Lang.Err Lang.Val} {o : VMOps.Out} (h : Agree ρ x o) :
    (∃ r, x = .ok r) ↔ (∃ v, o = .ok v) := by
  cases x with
  | ok r => simp only [Agree] at h; subst h; simp
  | error e => obtain ⟨e', lhs, rfl, _⟩ := h; simp

theorem agree_err_iff {ρ : Content} {x : Except Lang.Err Lang.Val} {o : VMOps.Out} (h : Agree ρ x o) (c : Cls) :
    (∃ e, x = .error e ∧ lcls e = c) ↔ (∃ e' lhs, o = .err e' lhs ∧ vcls e' = c) := by
  cases x with
  | ok r => simp only [Agree] at h; subst h; simp
  | error e =>
    obtain ⟨e', lhs, rfl, hc⟩ := h
    constructor
    · rintro ⟨e1, h1, h2⟩
      cases h1
      exact ⟨e', lhs, rfl, hc.trans h2⟩
    · rintro ⟨e1, l1, h1, h2⟩
      cases h1
      exact ⟨e, rfl, hc.symm.trans h2⟩

theorem agree_not_ub {ρ : Content} {x : Except Lang.Err Lang.Val} {o : VMOps.Out} (h : Agree ρ x o) :
    o.isUb = false := by
  cases x with
  | ok r => simp only [Agree] at h; subst h; rfl
  | error e => obtain ⟨e', lhs, rfl, _⟩ := h; rfl

/-! ## the code as first read: where `VMOps` is undefined on the common fragment -/

theorem divmod_ub_iff (fx : VMOps.Fixes) (ρ : Content) (op : Lang.BinOp) (hop : op = .div ∨ op = .mod) (a b : Lang.Val) :
    (VMOps.step fx (opOf op) [emb ρ a, emb ρ b]).isUb = true ↔
      (fx.divMin = false ∧ a = .int VMOps.minInt ∧ b = .int VMOps.negOne) := by
  have hn : ¬ VMOps.negOne = 0#64 := by decide
  have hn' : ¬ 0#64 = VMOps.negOne := by decide
  rcases hop with h | h <;> subst h <;> cases a <;> cases b <;>
    simp (config := {decide := true}) [opOf, step_bin, VMOps.binop, emb, VMOps.Val.kind,
      VMOps.binImpl, VMOps.opDiv, VMOps.opMod, VMOps.Out.isUb]
  all_goals
    rename_i x y
    by_cases h0 : y = 0#64 <;> by_cases h1 : (x = VMOps.minInt ∧ y = VMOps.negOne) <;> cases hf : fx.divMin <;>
      simp [h0, h1, hn, hn']

theorem accepts_shl (ka kb : VMOps.Kind) : VMOps.accepts .shl ka kb = (ka == .int && kb == .int) := by
  cases ka <;> cases kb <;> rfl
theorem accepts_shr (ka kb : VMOps.Kind) : VMOps.accepts .shr ka kb = (ka == .int && kb == .int) := by
  cases ka <;> cases kb <;> rfl

theorem shift_ub_iff (fx : VMOps.Fixes) (ρ : Content) (op : Lang.BinOp) (hop : op = .shl ∨ op = .shr) (a b : Lang.Val) :
    (VMOps.step fx (opOf op) [emb ρ a, emb ρ b]).isUb = true ↔
      (fx.shiftCount = false ∧ ∃ x y, a = .int x ∧ b = .int y ∧ 64 ≤ y.toNat) := by
  rcases hop with h | h <;> subst h <;> cases a <;> cases b <;>
    simp [opOf, step_bin, VMOps.binop, emb, VMOps.Val.kind, VMOps.binImpl, VMOps.opShift,
      VMOps.Out.isUb, accepts_shl, accepts_shr]
  all_goals
    rename_i x y
    by_cases h0 : y.toNat < 64 <;> cases hf : fx.shiftCount <;> simp [h0]
  all_goals omega

theorem binop_ub_iff (fx : VMOps.Fixes) (ρ : Content) (op : Lang.BinOp) (a b : Lang.Val) (wa : WF a) (wb : WF b) :
    (VMOps.step fx (opOf op) [emb ρ a, emb ρ b]).isUb = true ↔
      (fx.divMin = false ∧ (op = .div ∨ op = .mod) ∧ a = .int VMOps.minInt ∧ b = .int VMOps.negOne) ∨
      (fx.shiftCount = false ∧ (op = .shl ∨ op = .shr) ∧ ∃ x y, a = .int x ∧ b = .int y ∧ 64 ≤ y.toNat) := by
  cases op
  case div => rw [divmod_ub_iff fx ρ _ (by simp)]; simp
  case mod => rw [divmod_ub_iff fx ρ _ (by simp)]; simp
  case shl => rw [shift_ub_iff fx ρ _ (by simp)]; simp
  case shr => rw [shift_ub_iff fx ρ _ (by simp)]; simp
  case bor => simp [agree_not_ub (arith_agree fx ρ .bor (by simp) a b)]
  case bxor => simp [agree_not_ub (arith_agree fx ρ .bxor (by simp) a b)]
  case band => simp [agree_not_ub (arith_agree fx ρ .band (by simp) a b)]
  case sub => simp [agree_not_ub (arith_agree fx ρ .sub (by simp) a b)]
  case mul => simp [agree_not_ub (arith_agree fx ρ .mul (by simp) a b)]
  case add => simp [agree_not_ub (add_agree fx ρ a b)]
  case eq => simp [agree_not_ub (eq_agree fx ρ .eq (by simp) a b wa wb)]
  case ne => simp [agree_not_ub (eq_agree fx ρ .ne (by simp) a b wa wb)]
  case lt => simp [agree_not_ub (cmp_agree fx ρ .lt (by simp) a b)]
  case gt => simp [agree_not_ub (cmp_agree fx ρ .gt (by simp) a b)]
  case le => simp [agree_not_ub (cmp_agree fx ρ .le (by simp) a b)]
  case ge => simp [agree_not_ub (cmp_agree fx ρ .ge (by simp) a b)]

end Morfuse.XLinks
