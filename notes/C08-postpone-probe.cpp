// Probe (not part of the check): EventQueue::PostponeEvent / PostponeAllEvents on the unchanged tree.
#include <morfuse/Script/Context.h>
#include <morfuse/Script/EventContext.h>
#include <morfuse/Script/EventQueue.h>
#include <morfuse/Script/EventSystem.h>
#include <morfuse/Script/Event.h>
#include <morfuse/Script/Listener.h>
#include <morfuse/Common/Time.h>
#include <cstdio>
#include <cstring>
using namespace mfuse;
static uinttime_t g_clock = 1000;
static uinttime_t clockFn() { return g_clock; }
static int delivered = 0;
class PHost : public Listener {
    MFUS_CLASS_PROTOTYPE(PHost);
public:
    void H1(Event& ev) { ++delivered; std::printf("delivered seq=%d at %llu\n", ev.GetInteger(1), (unsigned long long)(g_clock - 1000)); }
    void H2(Event& ev) { ++delivered; std::printf("delivered(2) seq=%d at %llu\n", ev.GetInteger(1), (unsigned long long)(g_clock - 1000)); }
};
EventDef EV_P1("c08p_ev1", 0, "i", "seq", "", evType_e::Normal);
EventDef EV_P2("c08p_ev2", 0, "i", "seq", "", evType_e::Normal);
MFUS_CLASS_DECLARATION(Listener, PHost, nullptr) { { &EV_P1, &PHost::H1 }, { &EV_P2, &PHost::H2 }, { nullptr, nullptr } };
static Event* mk(const EventDef& d, int seq) { Event* e = new Event(d); e->AddInteger(seq); return e; }
int main(int argc, char** argv)
{
    mfuse::verif::now_ms = &clockFn;
    EventSystem::Get();
    ScriptContext ctx;
    PHost* l = new PHost;
    const char* mode = argc > 1 ? argv[1] : "root";
    if (!std::strcmp(mode, "root")) {
        // A(due 5) B(due 9); postpone A by 1 (still before B): A must still be delivered
        l->PostEvent(mk(EV_P1, 1), 5); l->PostEvent(mk(EV_P2, 2), 9);
        std::printf("pending before: %zu\n", ctx.GetEventQueue().GetNumPendingEvents());
        Event probe(EV_P1);
        std::printf("postpone -> %d\n", (int)l->PostponeEvent(probe, 1));
        std::printf("pending after : %zu\n", ctx.GetEventQueue().GetNumPendingEvents());
        g_clock += 20; ctx.ProcessEvents();
        std::printf("delivered %d of 2\n", delivered);
    } else if (!std::strcmp(mode, "tail")) {
        // A(due 5) B(due 9); postpone A past B: Insert(nullptr, A)
        l->PostEvent(mk(EV_P1, 1), 5); l->PostEvent(mk(EV_P2, 2), 9);
        Event probe(EV_P1);
        std::printf("postpone -> %d\n", (int)l->PostponeEvent(probe, 10));
        std::printf("pending after : %zu\n", ctx.GetEventQueue().GetNumPendingEvents());
        g_clock += 30; ctx.ProcessEvents();
        std::printf("delivered %d of 2\n", delivered);
    } else if (!std::strcmp(mode, "mid")) {
        // A(5) B(7) C(9): postpone B (not root) by 1 -> stays between A and C
        l->PostEvent(mk(EV_P1, 1), 5); l->PostEvent(mk(EV_P2, 2), 7); l->PostEvent(mk(EV_P1, 3), 9);
        Event probe(EV_P2);
        std::printf("postpone -> %d\n", (int)l->PostponeEvent(probe, 1));
        std::printf("pending after : %zu\n", ctx.GetEventQueue().GetNumPendingEvents());
        g_clock += 30; ctx.ProcessEvents();
        std::printf("delivered %d of 3\n", delivered);
    }
    delete l;
    return 0;
}
