#include <morfuse/Script/Class.h>
#include <morfuse/Script/ClassDef.h>
#include <morfuse/Script/Event.h>
#include <morfuse/Script/EventSystem.h>
#include <morfuse/Script/EventContext.h>
#include <morfuse/Script/Listener.h>
#include <cstdio>
using namespace mfuse;
static int ran = 0;
struct P : Listener { void h1(Event&) { ran = 1; } void h2(Event&) { ran = 2; } };
EventDef evA("verif_ext_a", 0, "", "", "", evType_e::Normal);
EventDef evB("verif_ext_b", 0, "", "", "", evType_e::Normal);
Class* none() { return nullptr; }
ResponseDefClass emptyResp[] = { { nullptr, nullptr } };
ResponseDef<P> extA[] = { { &evA, &P::h1 }, { nullptr, nullptr } };
ResponseDef<P> extB[] = { { &evB, &P::h2 }, { nullptr, nullptr } };
int main() {
    EventContext ctx;
    ClassDef parent(&Listener::staticclass(), "VerifParent", nullptr, emptyResp, &none);
    ClassDef child(&parent, "VerifChild", nullptr, emptyResp, &none);
    ClassDefExt e1(&parent, (const ResponseDefClass*)extA);   // constructed first
    ClassDefExt e2(&parent, (const ResponseDefClass*)extB);   // constructed last -> front of the list
    EventSystem::Get();
    printf("parent: a=%p b=%p\n", (void*)parent.GetResponse(evA.GetEventNum()), (void*)parent.GetResponse(evB.GetEventNum()));
    printf("child : a=%p b=%p\n", (void*)child.GetResponse(evA.GetEventNum()), (void*)child.GetResponse(evB.GetEventNum()));
    EventSystem::Get().InitEvents();
    printf("after rebuild parent: a=%p b=%p\n", (void*)parent.GetResponse(evA.GetEventNum()), (void*)parent.GetResponse(evB.GetEventNum()));
    return 0;
}
