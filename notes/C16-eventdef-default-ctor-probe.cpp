#include <morfuse/Script/Event.h>
#include <cstdio>
#include <cstdlib>
#include <cstring>
#include <new>
using namespace mfuse;
int main(int argc, char** argv)
{
    // a default-constructed EventDef whose storage held something else before (as any heap / reused stack slot does)
    void* mem = std::malloc(sizeof(EventDef));
    std::memset(mem, 0x41, sizeof(EventDef));
    EventDef* e = new (mem) EventDef();
    std::printf("after EventDef(): next=%p prev=%p\n", (void*)e->next, (void*)e->prev);
    std::fflush(stdout);
    if (argc > 1) {
        EventDef src("probe_cmd", 0, "", "", "", evType_e::Normal);
        *e = std::move(src);          // move assignment into the default-constructed object
        std::printf("assigned\n");
    }
    e->~EventDef();                   // head.Remove(this) follows prev / next
    std::printf("destroyed\n");
    std::free(mem);
    return 0;
}
