#include <morfuse/Common/str.h>
#include <morfuse/Container/arrayset.h>
#include <morfuse/Common/MEM/DefaultAlloc.h>
#include <cstdio>
using namespace mfuse;
int main() {
    con::arrayset<str, str, Hash<str>, EqualTo<str>, MEM::DefaultAlloc_set> s;
    char buf[16];
    for (int i = 0; i < 10; ++i) { snprintf(buf, sizeof buf, "k%d", i); s.addKeyIndex(str(buf)); }
    printf("size %zu allocated %zu\n", s.size(), s.allocated());
    s.shrink();
    printf("after shrink: size %zu allocated %zu\n", s.size(), s.allocated());
    int lost = 0;
    for (int i = 0; i < 10; ++i) { snprintf(buf, sizeof buf, "k%d", i); if (!s.findKeyIndex(str(buf))) { ++lost; printf("lost %s\n", buf); } }
    printf("lost %d of 10\n", lost);
    return 0;
}
