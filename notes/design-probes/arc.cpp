#include <morfuse/Script/Archiver.h>
#include <morfuse/Script/EventContext.h>
#include <morfuse/Script/Listener.h>
#include <morfuse/Common/membuf.h>
#include <iostream>
#include <cstring>
using namespace mfuse;
static char buf[4096];
int main()
{
    EventContext context;
    version_info_t info; info.header = "TEST"; info.version = 7; info.archiveName = "n";
    size_t len;
    {
        omemstream w(buf, sizeof(buf));
        { Archiver arc = Archiver::CreateWrite(w, info);
          uint32_t a = 11; arc.ArchiveUInt32(a);
          str s = "hello"; Archive(arc, s);
          uint64_t b = 0x1122334455667788ull; arc.ArchiveUInt64(b); }
        len = (size_t)w.tellp();
    }
    std::cout << "len=" << len << std::endl;
    int undetected = 0;
    for (size_t cut = 0; cut < len; ++cut) {
        static char tmp[4096]; memset(tmp, 0xAA, sizeof(tmp)); memcpy(tmp, buf, cut);
        imemstream r(tmp, cut);
        try {
            Archiver arc = Archiver::CreateRead(r, info);
            uint32_t a = 0; arc.ArchiveUInt32(a);
            str s; Archive(arc, s);
            uint64_t b = 0; arc.ArchiveUInt64(b);
            std::cout << "cut=" << cut << " COMPLETED a=" << a << " s=" << s.c_str() << " b=" << std::hex << b << std::dec << std::endl; ++undetected;
        } catch (ArchiveErrors::Base&) { }
        catch (...) { std::cout << "cut=" << cut << " other exception" << std::endl; }
    }
    std::cout << "undetected truncations: " << undetected << std::endl;
    // version mismatch of only one field
    { imemstream r(buf, len); version_info_t i2 = info; i2.version = 8;
      try { Archiver arc = Archiver::CreateRead(r, i2); std::cout << "version 7 archive accepted by reader expecting 8" << std::endl; } catch (ArchiveErrors::Base&) { std::cout << "version mismatch detected" << std::endl; } }
    return 0;
}
