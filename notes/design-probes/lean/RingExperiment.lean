/-! Design-time experiment: Path-based ring representation. -/
namespace Ring

def upd (f : Nat → Nat) (a b : Nat) : Nat → Nat := fun x => if x = a then b else f x
@[simp] theorem upd_same (f a b) : upd f a b a = b := by simp [upd]
theorem upd_ne (f a b x) (h : x ≠ a) : upd f a b x = f x := by simp [upd, h]

/-- `Path nx pv a l b`: from `a`, through the nodes of `l`, to `b`, linked both ways. -/
def Path (nx pv : Nat → Nat) : Nat → List Nat → Nat → Prop
  | a, [], b => nx a = b ∧ pv b = a
  | a, x :: t, b => nx a = x ∧ pv x = a ∧ Path nx pv x t b

theorem path_append (nx pv : Nat → Nat) : ∀ (a : Nat) (s : List Nat) (m : Nat) (u : List Nat) (b : Nat),
    Path nx pv a (s ++ m :: u) b ↔ Path nx pv a s m ∧ Path nx pv m u b
  | a, [], m, u, b => by simp [Path, and_assoc]
  | a, x :: s, m, u, b => by
    simp only [List.cons_append, Path]
    rw [path_append nx pv x s m u b]
    simp [and_assoc]

/-- frame lemma: a path only reads `nx` on `a :: l` and `pv` on `l ++ [b]`. -/
theorem path_congr {nx pv nx' pv' : Nat → Nat} : ∀ (a : Nat) (l : List Nat) (b : Nat),
    (∀ x ∈ a :: l, nx' x = nx x) → (∀ x ∈ l ++ [b], pv' x = pv x) →
    Path nx pv a l b → Path nx' pv' a l b
  | a, [], b, hn, hp, h => by
    obtain ⟨h1, h2⟩ := h
    exact ⟨by rw [hn a (by simp)]; exact h1, by rw [hp b (by simp)]; exact h2⟩
  | a, x :: t, b, hn, hp, h => by
    obtain ⟨h1, h2, h3⟩ := h
    refine ⟨by rw [hn a (by simp)]; exact h1, by rw [hp x (by simp)]; exact h2, ?_⟩
    apply path_congr x t b _ _ h3
    · intro y hy; exact hn y (by simp at hy ⊢; right; exact hy)
    · intro y hy; exact hp y (by simp at hy ⊢; right; exact hy)

/-- ring with head `a` and the remaining nodes `t` in order -/
def IsRing (nx pv : Nat → Nat) (a : Nat) (t : List Nat) : Prop := (a :: t).Nodup ∧ Path nx pv a t a

/-- the node before the head (what the code reads as `head->prev`) -/
def lastOf (a : Nat) (t : List Nat) : Nat := (a :: t).getLast (by simp)

/-- AddReference: insert `n` before the head, i.e. at the end of the list. -/
theorem add_ref {nx pv : Nat → Nat} {a : Nat} {t : List Nat} {n : Nat}
    (h : IsRing nx pv a t) (hn : n ∉ a :: t) :
    let l := pv a
    IsRing (upd (upd nx n a) l n) (upd (upd pv n l) a n) a (t ++ [n]) := by
  intro l
  obtain ⟨hnd, hp⟩ := h
  have hna : n ≠ a := fun e => hn (by simp [e])
  constructor
  · have : (a :: t ++ [n]).Nodup := by
      rw [List.nodup_append]; exact ⟨hnd, by simp, by
        intro x hx y hy; simp at hy; subst hy; exact fun e => hn (e ▸ hx)⟩
    simpa using this
  · -- split the old ring at its last link
    rcases List.eq_nil_or_concat t with rfl | ⟨s, m, rfl⟩
    · -- single element ring: nx a = a, pv a = a
      obtain ⟨h1, h2⟩ := hp
      have hl : l = a := h2
      simp only [List.nil_append, Path, hl]
      refine ⟨by simp, ?_, ?_, by simp⟩
      · simp [upd, hna]
      · simp [upd, hna]
    · -- t = s ++ [m]: Path a s m ∧ (nx m = a ∧ pv a = m)
      rw [List.concat_eq_append] at hp hnd hn ⊢
      have hp' := (path_append nx pv a s m [] a).1 hp
      obtain ⟨hps, hm1, hm2⟩ := hp'
      have hl : l = m := hm2
      have hm_mem : m ∈ a :: (s ++ [m]) := by simp
      have hnm : n ≠ m := fun e => hn (e ▸ hm_mem)
      have hnd' : (a :: s ++ [m]).Nodup := by simpa using hnd
      have hm_notin : m ∉ a :: s := by
        rw [List.nodup_append] at hnd'
        intro hmem; exact hnd'.2.2 m hmem m (by simp) rfl
      have ha_notin : a ∉ s ++ [m] := by
        have := hnd; simp only [List.nodup_cons] at this; exact this.1
      -- goal: Path' a ((s ++ [m]) ++ [n]) a
      have : (s ++ [m]) ++ [n] = s ++ m :: [n] := by simp
      rw [this, path_append]
      constructor
      · apply path_congr a s m _ _ hps
        · intro x hx
          have hxm : x ≠ m := fun e => hm_notin (e ▸ hx)
          have hxn : x ≠ n := fun e => hn (by
            subst e; rcases List.mem_cons.1 hx with h | h
            · simp [h]
            · simp [h])
          simp [upd, hl, hxm, hxn]
        · intro x hx
          have hxa : x ≠ a := fun e => ha_notin (e ▸ hx)
          have hxn : x ≠ n := fun e => hn (by subst e; simp at hx ⊢; right; exact hx)
          simp [upd, hxa, hxn]
      · simp only [Path, hl]
        refine ⟨by simp, ?_, ?_, by simp⟩
        · simp [upd, hna]
        · simp [upd, hnm]
end Ring
