#include <morfuse/Script/Context.h>
#include <morfuse/Script/ScriptMaster.h>
#include <morfuse/Script/ProgramScript.h>
#include <morfuse/Script/ScriptException.h>
#include <morfuse/Common/membuf.h>
#include <morfuse/Common/OutputInfo.h>
#include <fstream>
#include <sstream>
#include <iostream>
#include <cstdlib>
using namespace mfuse;
int main(int argc, char** argv)
{
    std::ifstream f(argv[1]); std::stringstream ss; ss << f.rdbuf(); std::string src = ss.str();
    const char* label = argc > 2 ? argv[2] : "";
    const char* streams = getenv("STREAMS"); if (!streams) streams = "dweo";
    ScriptContext context;
    EventSystem::Get();
    context.EventContext::Set(&context);
    for (const char* p = streams; *p; ++p) {
        outputLevel_e lv = *p=='d'?outputLevel_e::Debug:*p=='w'?outputLevel_e::Warn:*p=='e'?outputLevel_e::Error:*p=='v'?outputLevel_e::Verbose:outputLevel_e::Output;
        context.GetOutputInfo().SetOutputStream(lv, &std::cout);
    }
    if (getenv("DEV")) context.GetSettings().SetDeveloperEnabled(true);
    if (getenv("PROTECT")) context.GetDirector().GetThreadExecutionProtection().SetLoopProtection(true);
    if (getenv("MAXT")) context.GetDirector().GetThreadExecutionProtection().SetMaxExecutionTime(atoi(getenv("MAXT")));
    ScriptMaster& director = context.GetDirector();
    try {
        imemstream stream(src.data(), src.size());
        const ProgramScript* script = director.GetProgramScript("probe", stream);
        std::cout << "[compiled len=" << script->GetProgLength() << " stack=" << script->GetRequiredStackSize() << "]" << std::endl;
        Event parms;
        for (int i = 3; i < argc; ++i) parms.AddInteger(atoi(argv[i]));
        size_t nargs = parms.NumArgs();
        try {
            if (getenv("NOEV")) { director.ExecuteThread(script); } else if (*label) director.ExecuteThread(script, parms, label); else director.ExecuteThread(script, parms);
        } catch (std::exception& e) { std::cout << "[exec exception: " << e.what() << "]" << std::endl; }
        std::cout << "[after call: numargs=" << parms.NumArgs() << "]" << std::endl;
        const TimeManager& tm = context.GetTimeManager();
        int frames = 0;
        while (!context.IsIdle() && tm.GetTime() < 3000) { try { context.Execute(); } catch (std::exception& e) { std::cout << "[frame exception: " << e.what() << "]" << std::endl; } ++frames; }
        std::cout << "[idle=" << context.IsIdle() << " frames=" << frames << " numargs=" << parms.NumArgs() << " running=" << director.GetNumRunningScripts() << "]" << std::endl;
        if (parms.NumArgs() > nargs) {
            try { std::cout << "[result=" << parms.GetString(parms.NumArgs()).c_str() << " type=" << parms.GetValue(parms.NumArgs()).GetTypeName() << "]" << std::endl; }
            catch (std::exception& e) { std::cout << "[result exception: " << e.what() << "]" << std::endl; }
        }
    } catch (std::exception& e) { std::cout << "[compile exception: " << e.what() << "]" << std::endl; }
    return 0;
}
