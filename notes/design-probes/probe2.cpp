#include <morfuse/Script/Context.h>
#include <morfuse/Script/ScriptMaster.h>
#include <morfuse/Script/ScriptException.h>
#include <morfuse/Script/Archiver.h>
#include <morfuse/Common/membuf.h>
#include <morfuse/Common/OutputInfo.h>
#include <fstream>
#include <sstream>
#include <iostream>
#include <thread>
#include <chrono>
using namespace mfuse;
static std::string g_src;
class FileImpl : public IFile { public: FileImpl():stream(g_src.data(), g_src.size()){} std::istream& getStream() noexcept override { return stream; } imemstream stream; };
class FM : public IFileManagement { public: IFile* OpenFile(const char*) override { return new FileImpl(); } void CloseFile(IFile* f) noexcept override { delete f; } };
int main(int argc, char** argv)
{
    std::ifstream f(argv[1]); std::stringstream ss; ss << f.rdbuf(); g_src = ss.str();
    int saveAfterFrames = argc > 2 ? atoi(argv[2]) : -1;
    ScriptContext context; EventSystem::Get(); context.EventContext::Set(&context);
    for (auto lv : {outputLevel_e::Debug, outputLevel_e::Warn, outputLevel_e::Error, outputLevel_e::Output}) context.GetOutputInfo().SetOutputStream(lv, &std::cout);
    FM fm; context.GetScriptInterfaces().fileManagement = &fm;
    ScriptMaster& director = context.GetDirector();
    version_info_t info; info.header = "TEST"; info.version = 1; info.archiveName = "x";
    static char buf[1<<20];
    try {
        director.ExecuteThread("probe");
        int frames = 0;
        while (!context.IsIdle() && frames < 60) {
            if (frames == saveAfterFrames) {
                std::cout << "[saving]" << std::endl;
                { omemstream w(buf, sizeof(buf)); Archiver arc = Archiver::CreateWrite(w, info); director.Archive(arc); }
                director.Reset();
                std::cout << "[reset done, running=" << director.GetNumRunningScripts() << "]" << std::endl;
                { imemstream r(buf, sizeof(buf)); Archiver arc = Archiver::CreateRead(r, info); director.Archive(arc); }
                std::cout << "[loaded, running=" << director.GetNumRunningScripts() << "]" << std::endl;
            }
            std::this_thread::sleep_for(std::chrono::milliseconds(50));
            context.Execute(); ++frames;
        }
        std::cout << "[idle=" << context.IsIdle() << " frames=" << frames << " running=" << director.GetNumRunningScripts() << "]" << std::endl;
    } catch (std::exception& e) { std::cout << "[exception: " << e.what() << "]" << std::endl; }
    return 0;
}
