#include <morfuse/Container/set.h>
#include <thread>
#include <vector>
#include <iostream>
using namespace mfuse;
int main()
{
    std::vector<std::thread> ts;
    for (int t = 0; t < 4; ++t) ts.emplace_back([t]{
        for (int round = 0; round < 200; ++round) {
            con::set<int,int> s;
            for (int i = 0; i < 300; ++i) s.addKeyValue(i + t*1000) = i;
            long sum = 0; for (int i = 0; i < 300; ++i) { int* v = s.findKeyValue(i + t*1000); if (!v || *v != i) { std::cout << "CORRUPT thread " << t << " key " << i << std::endl; return; } sum += *v; }
            for (int i = 0; i < 300; ++i) s.remove(i + t*1000);
        }
    });
    for (auto& th : ts) th.join();
    std::cout << "done" << std::endl;
}
