#!/usr/bin/env python3
"""merge notes/Cxx-manifest-entry.json files into MANIFEST.json (maintenance helper)"""
import json, sys
m = json.load(open('MANIFEST.json'))
for p in sys.argv[1:]:
    e = json.load(open(p))
    m['checks'] = [c for c in m['checks'] if c['property_id'] != e['property_id']] + [e]
    for eng in m['engines']:
        eng['serves_properties'] = sorted(set(eng['serves_properties']) | {e['property_id']})
m['checks'].sort(key=lambda c: c['property_id'])
json.dump(m, open('MANIFEST.json', 'w'), indent=1)
