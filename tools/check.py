#!/usr/bin/env python3
"""Entry point:  tools/check.py Cxx [--tier quick|thorough] [--replay file]
exit 0 = property held on everything explored; exit 1 + `VIOLATION property=<id> replay=<path>`;
exit 2 = the machinery itself failed."""
import argparse
import importlib
import json
import os
import sys
import traceback

sys.path.insert(0, os.path.dirname(os.path.abspath(__file__)))
from vlib import common  # noqa: E402


def main():
    ap = argparse.ArgumentParser()
    ap.add_argument("prop")
    ap.add_argument("--tier", default=os.environ.get("VERIF_TIER", "quick"), choices=["quick", "thorough"])
    ap.add_argument("--replay")
    ap.add_argument("--keep", action="store_true", help="keep the scratch build directory")
    a = ap.parse_args()
    pid = a.prop.upper()
    try:
        seed = int(os.environ.get("VERIF_SEED", "1"))
    except ValueError:
        seed = 1
    mod = importlib.import_module("props." + pid.lower())
    ctx = common.Ctx(pid, a.tier, seed)
    try:
        if a.replay:
            rc = mod.replay(ctx, json.load(open(a.replay)))
        else:
            rc = mod.check(ctx)
    except common.CheckError as e:
        print("CHECK-ERROR property=%s %s" % (pid, e), file=sys.stderr)
        rc = 2
    except Exception:
        traceback.print_exc()
        rc = 2
    finally:
        if not a.keep:
            ctx.cleanup()
        else:
            print("scratch kept at", ctx.tmp)
    sys.exit(rc)


if __name__ == "__main__":
    main()
