#!/usr/bin/env python3
"""Translator (T) for C02: regenerates lean/MorfuseModel/Gen/OpcodeTable.lean from
$VERIF_REPO/include/morfuse/Script/ScriptOpcodes.h (the `opcode_e` enumeration, in order) and
$VERIF_REPO/src/Script/ScriptOpcodes.cpp (the `OpcodeInfo[]` table).

The table's `sizeof` expressions are not re-implemented here: a 20-line C++ printer is generated,
compiled together with the real ScriptOpcodes.cpp and asked, for every enumerator, what
`OpcodeName / OpcodeLength / OpcodeVarStackOffset / IsExternalOpcode` answer - exactly what the emitter
(`AbsorbPrevOpcode`, `EmitOpcode`) reads.  The number of table rows is counted in the source text and must
equal `OP_PREVIOUS` (a missing or extra row would shift every later entry).

Usage: tools/gen_opcodes.py [--check]     (also imported by tools/props/c02.py)
"""
import os
import re
import subprocess
import sys
import tempfile

sys.path.insert(0, os.path.dirname(os.path.abspath(__file__)))
from vlib import common  # noqa: E402

GEN = os.path.join(common.LEAN, "MorfuseModel", "Gen", "OpcodeTable.lean")


class TranslateError(Exception):
    pass


def strip_comments(src):
    src = re.sub(r"/\*.*?\*/", "", src, flags=re.S)
    return re.sub(r"//[^\n]*", "", src)


def parse_enum(repo):
    path = os.path.join(repo, "include", "morfuse", "Script", "ScriptOpcodes.h")
    src = strip_comments(open(path, errors="replace").read())
    m = re.search(r"enum\s+opcode_e\s*\{(.*?)\}\s*;", src, re.S)
    if not m:
        raise TranslateError("enum opcode_e not found in " + path)
    names = []
    for item in m.group(1).split(","):
        item = item.strip()
        if not item:
            continue
        if "=" in item:
            raise TranslateError("enumerator with an explicit value: `%s` (the table is positional)" % item)
        if not re.fullmatch(r"OP_[A-Z0-9_]+", item):
            raise TranslateError("unexpected enumerator `%s`" % item)
        names.append(item)
    if names[-2:] != ["OP_PREVIOUS", "OP_MAX"]:
        raise TranslateError("the enumeration no longer ends with OP_PREVIOUS, OP_MAX")
    return names


def count_rows(repo):
    path = os.path.join(repo, "src", "Script", "ScriptOpcodes.cpp")
    src = strip_comments(open(path, errors="replace").read())
    m = re.search(r"static\s+opcode_t\s+OpcodeInfo\s*\[\s*\]\s*=\s*\{(.*?)\n\}\s*;", src, re.S)
    if not m:
        raise TranslateError("OpcodeInfo[] not found in " + path)
    return len(re.findall(r"\{\s*\"[A-Z0-9_]+\"\s*,", m.group(1)))


PRINTER = r"""
#include <morfuse/Script/ScriptOpcodes.h>
#include <morfuse/Common/short3.h>
#include <morfuse/Common/Vector.h>
#include <cstdio>
namespace mfuse { class StateScript; }
using namespace mfuse;
#define P(x) std::printf("op %d %s %s %zu %d %d\n", int(x), #x, OpcodeName(opval_t(x)), OpcodeLength(opval_t(x)), OpcodeVarStackOffset(opval_t(x)), int(IsExternalOpcode(opval_t(x))));
int main() {
@BODY@
    std::printf("const OP_PREVIOUS %d\n", int(OP_PREVIOUS));
    std::printf("const OP_MAX %d\n", int(OP_MAX));
    std::printf("const sizeof_opval %zu\n", sizeof(opval_t));
    std::printf("const sizeof_offset %zu\n", sizeof(op_offset_t));
    std::printf("const sizeof_name %zu\n", sizeof(op_name_t));
    std::printf("const sizeof_ev %zu\n", sizeof(op_ev_t));
    std::printf("const sizeof_evName %zu\n", sizeof(op_evName_t));
    std::printf("const sizeof_parmNum %zu\n", sizeof(op_parmNum_t));
    std::printf("const sizeof_arrayParmNum %zu\n", sizeof(op_arrayParmNum_t));
    std::printf("const sizeof_statePtr %zu\n", sizeof(StateScript*));
    std::printf("const sizeof_float %zu\n", sizeof(float));
    std::printf("const sizeof_vector %zu\n", sizeof(Vector));
    std::printf("const sizeof_short3 %zu\n", sizeof(short3));
    std::printf("const sizeof_bool %zu\n", sizeof(bool));
    return 0;
}
"""


def run_printer(repo, names):
    tmp = tempfile.mkdtemp(prefix="mfv.opc.")
    try:
        body = "\n".join("    P(%s)" % n for n in names[:-2])
        src = os.path.join(tmp, "p.cpp")
        with open(src, "w") as f:
            f.write(PRINTER.replace("@BODY@", body))
        exe = os.path.join(tmp, "p")
        cmd = ["g++", "-std=gnu++17", "-O0", "-w", "-I" + os.path.join(repo, "include"), "-I" + os.path.join(repo, "src"),
               src, os.path.join(repo, "src", "Script", "ScriptOpcodes.cpp"), "-o", exe]
        p = subprocess.run(cmd, stdout=subprocess.PIPE, stderr=subprocess.PIPE, text=True, timeout=600)
        if p.returncode != 0:
            raise TranslateError("opcode printer does not compile:\n" + p.stderr[-3000:])
        p = subprocess.run([exe], stdout=subprocess.PIPE, stderr=subprocess.PIPE, text=True, timeout=60)
        if p.returncode != 0:
            raise TranslateError("opcode printer failed: " + p.stderr[-1000:])
        return p.stdout
    finally:
        import shutil
        shutil.rmtree(tmp, ignore_errors=True)


def read_table(repo=None):
    """returns (rows, consts): rows = [(number, enum name, table name, length, stack, external)]"""
    repo = repo or common.REPO
    names = parse_enum(repo)
    out = run_printer(repo, names)
    rows, consts = [], {}
    for line in out.split("\n"):
        t = line.split()
        if not t:
            continue
        if t[0] == "op":
            rows.append((int(t[1]), t[2], t[3], int(t[4]), int(t[5]), t[6] == "1"))
        elif t[0] == "const":
            consts[t[1]] = int(t[2])
    if [r[0] for r in rows] != list(range(len(rows))):
        raise TranslateError("enumerators are not numbered 0..n-1")
    if consts.get("OP_PREVIOUS") != len(rows):
        raise TranslateError("OP_PREVIOUS = %s but %d enumerators precede it" % (consts.get("OP_PREVIOUS"), len(rows)))
    nrows = count_rows(repo)
    consts["table_rows"] = nrows
    return rows, consts


def lean_int(v):
    return str(v) if v >= 0 else "(%d)" % v


def render(rows, consts):
    L = []
    A = L.append
    A("/-! GENERATED by tools/gen_opcodes.py on every run from")
    A("`include/morfuse/Script/ScriptOpcodes.h` (enum `opcode_e`) and `src/Script/ScriptOpcodes.cpp` (`OpcodeInfo[]`,")
    A("evaluated by compiling the real file) — do not edit.  Hand-written facts about what the VM does live in")
    A("`MorfuseModel/Bytecode/VmModel.lean`; `Bytecode.table_matches_vm` compares the two. -/")
    A("namespace Morfuse.Bytecode.Gen")
    A("")
    A("/-- one constructor per enumerator of `opcode_e` that has a row in `OpcodeInfo[]` (all before `OP_PREVIOUS`) -/")
    A("inductive Opcode where")
    for r in rows:
        A("  | %s" % r[1])
    A("  deriving DecidableEq, Repr, Inhabited")
    A("")
    A("namespace Opcode")
    A("")
    A("def all : List Opcode := [")
    A(",\n".join("  .%s" % r[1] for r in rows))
    A("]")
    A("")
    A("/-- the enumerator's value = the byte the emitter writes -/")
    A("def code : Opcode → Nat")
    for r in rows:
        A("  | .%s => %d" % (r[1], r[0]))
    A("")
    A("def ofCode : Nat → Option Opcode")
    for r in rows:
        A("  | %d => some .%s" % (r[0], r[1]))
    A("  | _ => none")
    A("")
    A("def name : Opcode → String")
    for r in rows:
        A("  | .%s => \"%s\"" % (r[1], r[1]))
    A("")
    A("/-- `OpcodeInfo[op].opcodename` -/")
    A("def tableName : Opcode → String")
    for r in rows:
        A("  | .%s => \"%s\"" % (r[1], r[2]))
    A("")
    A("/-- `OpcodeInfo[op].opcodelength` = `OpcodeLength(op)`: what `AbsorbPrevOpcode` moves the code pointer back by -/")
    A("def tableLength : Opcode → Nat")
    for r in rows:
        A("  | .%s => %d" % (r[1], r[3]))
    A("")
    A("/-- `OpcodeInfo[op].opcodestackoffset` = `OpcodeVarStackOffset(op)`: what `EmitOpcode` adds to `m_iVarStackOffset` -/")
    A("def tableStack : Opcode → Int")
    for r in rows:
        A("  | .%s => %s" % (r[1], lean_int(r[4])))
    A("")
    A("/-- `OpcodeInfo[op].isexternal` -/")
    A("def tableExternal : Opcode → Bool")
    for r in rows:
        A("  | .%s => %s" % (r[1], "true" if r[5] else "false"))
    A("")
    A("end Opcode")
    A("")
    for k in sorted(consts):
        A("def %s : Nat := %d" % (re.sub(r"[^A-Za-z0-9_]", "_", k), consts[k]))
    A("")
    A("end Morfuse.Bytecode.Gen")
    return "\n".join(L) + "\n"


def generate(repo=None):
    """writes the Gen file (only when it changed); returns (rows, consts)"""
    rows, consts = read_table(repo)
    with common.LakeLock():
        common.write_if_changed(GEN, render(rows, consts))
    return rows, consts


if __name__ == "__main__":
    try:
        rows, consts = generate()
    except TranslateError as e:
        print("TRANSLATE-ERROR", e)
        sys.exit(1)
    print("%d opcodes, %d table rows -> %s" % (len(rows), consts["table_rows"], os.path.relpath(GEN, common.VERIF)))
