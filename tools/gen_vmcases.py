#!/usr/bin/env python3
"""Translator (T) for C02, second part: fingerprints of the decode loop.

`lean/MorfuseModel/Bytecode/VmModel.lean` is a hand transcription of `ScriptVM::Process` and its helpers.
This script cuts the current source ($VERIF_REPO/src/Script/ScriptVMOperation.cpp, ScriptVM.cpp) into the
text of every `case OP_…:` block of the `switch (opcode)` and the body of every helper the model inlines,
normalises white space / comments, hashes each piece and looks the hash up in
tools/props/c02_vmsigs.json (hash -> variant number of the transcription).  The result is written to
lean/MorfuseModel/Gen/VmCases.lean:

    caseVariant : Opcode -> Nat       0 = text unknown (the model must be re-read against the source)
                                      1 = the text the model was transcribed from
                                      2 = the text with notes/C02-suggested-fix-*.diff applied
    helperVariant_<name> : Nat        same, per helper

The model's error paths (`vmErrPaths`) are defined by cases on these numbers, so the theorems about them
are re-checked against what the source says now.

  tools/gen_vmcases.py                   regenerate the Lean file from $VERIF_REPO
  tools/gen_vmcases.py --snapshot V DIR  record the hashes of the tree DIR as variant V in the json
"""
import hashlib
import json
import os
import re
import sys

sys.path.insert(0, os.path.dirname(os.path.abspath(__file__)))
from vlib import common  # noqa: E402

GEN = os.path.join(common.LEAN, "MorfuseModel", "Gen", "VmCases.lean")
SIGS = os.path.join(common.VERIF, "tools", "props", "c02_vmsigs.json")

HELPERS_OP = ["executeCommandInternal<false>", "executeCommandInternal<true>", "executeCommand<false, false>",
              "executeCommand<true, false>", "executeCommand<false, true>", "executeCommand<true, true>",
              "transferVarsToEvent", "executeGetter", "executeSetter", "jump", "jumpBack", "jumpBool", "jumpVar",
              "doJumpIf", "doJumpVarIf", "loadTop", "storeTop", "loadStoreTop", "storeField", "skipField",
              "ExecCmdCommon", "ExecCmdMethodCommon", "ExecMethodCommon", "ExecFunction", "Execute", "Process#prologue"]
HELPERS_VM = ["ScriptStack::SetTop", "ScriptStack::GetTop", "ScriptStack::GetTopPtr", "ScriptStack::GetIndex",
              "ScriptStack::Pop", "ScriptStack::PopAndGet", "ScriptStack::Push", "ScriptStack::PushAndGet",
              "ScriptStack::GetStackSize", "ScriptVM::Switch", "ScriptVM::ReadOpcodeValue", "ScriptVM::ReadGetOpcodeValue",
              "ScriptVM::End", "ScriptVM::LeaveFunction", "ScriptVM::EnterFunction", "ScriptVM::EventGoto", "ScriptVM::EventThrow",
              "ScriptVM::HandleScriptException"]


class TranslateError(Exception):
    pass


def strip_comments(src):
    src = re.sub(r"/\*.*?\*/", " ", src, flags=re.S)
    return re.sub(r"//[^\n]*", " ", src)


def norm(text):
    return re.sub(r"\s+", " ", text).strip()


def h(text):
    return hashlib.sha1(norm(text).encode()).hexdigest()[:16]


def match_brace(src, i):
    """index just past the `}` matching the `{` at src[i]"""
    assert src[i] == "{"
    depth = 0
    j = i
    while j < len(src):
        c = src[j]
        if c == "{":
            depth += 1
        elif c == "}":
            depth -= 1
            if depth == 0:
                return j + 1
        elif c == '"':
            j += 1
            while j < len(src) and src[j] != '"':
                if src[j] == "\\":
                    j += 1
                j += 1
        elif c == "'":
            j += 1
            while j < len(src) and src[j] != "'":
                if src[j] == "\\":
                    j += 1
                j += 1
        j += 1
    raise TranslateError("unbalanced braces")


def function_bodies(src, qualified):
    """all definitions `<ret> <qualified>(…) [const] {…}` (overloads / specialisations concatenated)"""
    name = qualified
    pat = re.escape(name).replace(r"\ ", r"\s*")
    out = []
    for m in re.finditer(r"(?<![\w:])" + pat + r"\s*\(", src):
        # walk to the closing parenthesis, then expect `{` (possibly after const / noexcept / initialisers)
        j = m.end() - 1
        depth = 0
        while j < len(src):
            if src[j] == "(":
                depth += 1
            elif src[j] == ")":
                depth -= 1
                if depth == 0:
                    break
            j += 1
        k = j + 1
        tail = re.match(r"\s*(const)?\s*(noexcept)?\s*(:[^{;]*)?\{", src[k:])
        if not tail:
            continue
        b = k + tail.end() - 1
        e = match_brace(src, b)
        out.append(src[m.start():e])
    return out


def split_cases(process_body):
    """{label: block text} for the top-level labels of `switch (opcode)`"""
    m = re.search(r"switch\s*\(\s*opcode\s*\)\s*\{", process_body)
    if not m:
        raise TranslateError("`switch (opcode)` not found in ScriptVM::Process")
    b = m.end() - 1
    e = match_brace(process_body, b)
    body = process_body[b + 1:e - 1]
    # positions of labels at depth 0 of the switch body
    labels = []
    depth = 0
    i = 0
    while i < len(body):
        c = body[i]
        if c == "{":
            depth += 1
        elif c == "}":
            depth -= 1
        elif c == '"':
            i += 1
            while i < len(body) and body[i] != '"':
                if body[i] == "\\":
                    i += 1
                i += 1
        elif depth == 0:
            mm = re.match(r"(case\s+(OP_[A-Z0-9_]+)\s*:|default\s*:)", body[i:])
            if mm and (i == 0 or not (body[i - 1].isalnum() or body[i - 1] == "_")):
                labels.append((i, i + mm.end(), mm.group(2) or "default"))
                i += mm.end()
                continue
        i += 1
    cases = {}
    pending = []
    for n, (s, e2, name) in enumerate(labels):
        nxt = labels[n + 1][0] if n + 1 < len(labels) else len(body)
        text = body[e2:nxt]
        pending.append(name)
        if norm(text):
            for p in pending:
                if p in cases:
                    raise TranslateError("duplicate case label " + p)
                cases[p] = text
            pending = []
    if pending:
        raise TranslateError("labels without a block: " + ",".join(pending))
    prologue = process_body[:m.start()] + " @SWITCH@ " + process_body[e:]
    return cases, prologue


def extract(repo):
    """{"cases": {OP_X|default: hash}, "helpers": {name: hash}}"""
    op_src = strip_comments(open(os.path.join(repo, "src", "Script", "ScriptVMOperation.cpp"), errors="replace").read())
    vm_src = strip_comments(open(os.path.join(repo, "src", "Script", "ScriptVM.cpp"), errors="replace").read())
    proc = function_bodies(op_src, "ScriptVM::Process")
    if len(proc) != 1:
        raise TranslateError("ScriptVM::Process: %d definitions found" % len(proc))
    cases, prologue = split_cases(proc[0])
    res = {"cases": {k: h(v) for k, v in cases.items()}, "helpers": {}}
    for name in HELPERS_OP:
        if name == "Process#prologue":
            res["helpers"][name] = h(prologue)
            continue
        bodies = function_bodies(op_src, "ScriptVM::" + name)
        if not bodies:
            raise TranslateError("helper ScriptVM::%s not found" % name)
        res["helpers"][name] = h(" ".join(bodies))
    for name in HELPERS_VM:
        bodies = function_bodies(vm_src, name)
        if not bodies:
            raise TranslateError("helper %s not found" % name)
        res["helpers"][name] = h(" ".join(bodies))
    return res


def load_sigs():
    try:
        return json.load(open(SIGS))
    except FileNotFoundError:
        return {"cases": {}, "helpers": {}}


def snapshot(variant, repo):
    cur = extract(repo)
    sigs = load_sigs()
    for kind in ("cases", "helpers"):
        for name, hv in cur[kind].items():
            d = sigs[kind].setdefault(name, {})
            if hv not in d:
                d[hv] = variant
    import gen_opcodes
    for n in [r[1] for r in gen_opcodes.read_table(repo)[0]]:
        if n not in cur["cases"]:
            sigs["cases"].setdefault(n, {})["absent"] = 1
    with open(SIGS, "w") as f:
        json.dump(sigs, f, indent=1, sort_keys=True)
        f.write("\n")


def lean_ident(name):
    return re.sub(r"[^A-Za-z0-9]+", "_", name).strip("_")


def generate(repo=None, opcode_names=None):
    """returns (variants, unknown): variants = {"cases": {name: n}, "helpers": {name: n}}"""
    repo = repo or common.REPO
    cur = extract(repo)
    sigs = load_sigs()
    variants = {"cases": {}, "helpers": {}}
    unknown = []
    for kind in ("cases", "helpers"):
        for name, hv in cur[kind].items():
            v = sigs[kind].get(name, {}).get(hv, 0)
            variants[kind][name] = v
            if v == 0:
                unknown.append("%s %s (hash %s)" % (kind[:-1], name, hv))
        for name in sigs[kind]:
            if name not in cur[kind]:
                if sigs[kind][name].get("absent") == 1:
                    continue
                variants[kind][name] = 0
                unknown.append("%s %s (no longer present)" % (kind[:-1], name))
    if opcode_names is None:
        import gen_opcodes
        opcode_names = [r[1] for r in gen_opcodes.read_table(repo)[0]]
    L = []
    A = L.append
    A("import MorfuseModel.Gen.OpcodeTable")
    A("/-! GENERATED by tools/gen_vmcases.py on every run from `src/Script/ScriptVMOperation.cpp` and")
    A("`src/Script/ScriptVM.cpp` — do not edit.  Which transcription of each `case` block / helper the current")
    A("source text corresponds to: 0 = unknown text, 1 = the text `Bytecode/VmModel.lean` was transcribed from,")
    A("2 = that text with notes/C02-suggested-fix-*.diff applied; for opcodes without a `case`: 1 = still none. -/")
    A("namespace Morfuse.Bytecode.Gen")
    A("")
    A("def caseVariant : Opcode → Nat")
    for n in opcode_names:
        if n in variants["cases"]:
            A("  | .%s => %d" % (n, variants["cases"][n]))
        else:
            A("  | .%s => %d" % (n, 1 if sigs["cases"].get(n, {}).get("absent") == 1 else 0))
            if sigs["cases"].get(n, {}).get("absent") != 1:
                unknown.append("case %s (no case block, one was expected)" % n)
    A("")
    A("/-- the `default:` branch of the switch -/")
    A("def caseVariant_default : Nat := %d" % variants["cases"].get("default", 0))
    A("")
    for name in sorted(variants["helpers"]):
        A("def helperVariant_%s : Nat := %d" % (lean_ident(name), variants["helpers"][name]))
    A("")
    A("def helperVariants : List (String × Nat) := [")
    A(",\n".join('  ("%s", %d)' % (name, variants["helpers"][name]) for name in sorted(variants["helpers"])))
    A("]")
    A("")
    A("end Morfuse.Bytecode.Gen")
    extra = [n for n in variants["cases"] if n != "default" and n not in opcode_names]
    for n in extra:
        unknown.append("case %s (not an enumerator with a table row)" % n)
    with common.LakeLock():
        common.write_if_changed(GEN, "\n".join(L) + "\n")
    return variants, unknown


if __name__ == "__main__":
    try:
        if len(sys.argv) >= 4 and sys.argv[1] == "--snapshot":
            snapshot(int(sys.argv[2]), sys.argv[3])
            print("recorded", sys.argv[3], "as variant", sys.argv[2])
        else:
            v, unknown = generate()
            print("cases:", len(v["cases"]), "helpers:", len(v["helpers"]), "unknown:", unknown)
    except TranslateError as e:
        print("TRANSLATE-ERROR", e)
        sys.exit(1)
