import sys,re
for p in sys.argv[1:]:
    s=open(p).read()
    out=[]; seen=set()
    for line in s.split('\n'):
        if line.startswith('<<<<<<<') or line.startswith('=======') or line.startswith('>>>>>>>'):
            continue
        out.append(line)
    # dedupe identical import lines
    res=[]
    for l in out:
        if l.startswith('import ') and l in seen: continue
        seen.add(l); res.append(l)
    open(p,'w').write('\n'.join(res))
